(** GENERAL-n structure of the ATM (axial turn metric) generator list of Puzzles.rubik_cube(n, "ATM"),
    for EVERY n >= 2: [cube_atm_general] = CubeAtmStructure n of PuzzlesProofs.v (there: n = 2..6 by computation).

    get_atm_metric_moves builds, for each of the three axes, one generator per non-zero element of
    itertools.product([0,1,2], repeat=n): the product of the clockwise (1) / counter-clockwise (2) turns of the
    selected slices.  The turns of one axis have pairwise disjoint supports (CubeGeneral.v), hence
      - the product acts slice-wise, and the generator of the combination with 1 and 2 exchanged is its inverse;
      - the 3 (3^n - 1) dictionary keys "axis_X_s0_cw_s2_ccw..." are pairwise different, so nothing is overwritten.

    Part 1: products of permutations with pairwise disjoint supports.
    Part 2: the inner loop over the slices of one combination.
    Part 3: the keys are injective.
    Part 4: itertools.product.
    Part 5: the dictionary and [cube_atm_general]. *)
From Coq Require Import String Ascii ZArith List Bool Arith Lia DecimalString Sorting.Permutation Sorting.Sorted.
From V Require Import Base Perm PermProofs PermCycles Puzzles PuzzlesProofs CubeGeneral CubeGeneralMoves
  PuzzlesGeneralCommon PuzzlesGeneralCube.
Import ListNotations.
Local Open Scope list_scope.
Local Open Scope nat_scope.

(* ====================================================================================== *)
(** * Part 1: products of permutations with pairwise disjoint supports *)

(* g1 (g2 (... (gk x))) *)
Definition act (gs : list (list nat)) (x : nat) : nat := fold_right (fun g y => pstep g y) x gs.
(* cur := compose g cur for g in gs, starting from the identity: the loop body of get_atm_metric_moves *)
Definition prod_from (gs : list (list nat)) (cur : list nat) : list nat := fold_left (fun cur g => compose g cur) gs cur.
Definition prod_perm (N : nat) (gs : list (list nat)) : list nat := prod_from gs (identity_perm N).

Definition PermsOf (N : nat) (gs : list (list nat)) : Prop := forall g, In g gs -> length g = N /\ Perm g.

Lemma act_lt N gs x : PermsOf N gs -> x < N -> act gs x < N.
Proof.
  induction gs as [|g gs IH]; intros HP Hx; cbn [act fold_right]; [exact Hx|].
  destruct (HP g (or_introl eq_refl)) as [HL HPg]. rewrite <- HL. apply Perm_lt; [exact HPg|].
  rewrite HL. apply IH; [|exact Hx]. intros g' Hg'. apply HP. right; exact Hg'.
Qed.

Lemma prod_from_spec N gs : forall cur, PermsOf N gs -> length cur = N -> Perm cur ->
  length (prod_from gs cur) = N /\ Perm (prod_from gs cur) /\
  (forall x, x < N -> pstep (prod_from gs cur) x = pstep cur (act gs x)).
Proof.
  induction gs as [|g gs IH]; intros cur HP HL HPc; cbn [prod_from fold_left].
  - split; [exact HL|]. split; [exact HPc|]. intros x Hx. reflexivity.
  - destruct (HP g (or_introl eq_refl)) as [HLg HPg].
    assert (PermsOf N gs) as HP' by (intros g' Hg'; apply HP; right; exact Hg').
    destruct (IH (compose g cur) HP') as (R1 & R2 & R3).
    + rewrite compose_length. exact HLg.
    + apply compose_is_perm; [exact HPg|exact HPc|lia].
    + split; [exact R1|]. split; [exact R2|]. intros x Hx. fold (prod_from gs (compose g cur)).
      rewrite R3 by exact Hx. unfold pstep at 1. rewrite compose_nth by (rewrite HLg; apply (act_lt N); assumption).
      reflexivity.
Qed.

Lemma prod_perm_spec N gs : PermsOf N gs ->
  length (prod_perm N gs) = N /\ Perm (prod_perm N gs) /\
  (forall x, x < N -> pstep (prod_perm N gs) x = act gs x).
Proof.
  intros HP. unfold prod_perm.
  assert (length (identity_perm N) = N) as HL by apply seq_length.
  assert (Perm (identity_perm N)) as HPi.
  { unfold Perm, identity_perm. rewrite seq_length. apply Permutation_refl. }
  destruct (prod_from_spec N gs (identity_perm N) HP HL HPi) as (R1 & R2 & R3).
  split; [exact R1|]. split; [exact R2|]. intros x Hx. rewrite R3 by exact Hx.
  unfold pstep, identity_perm. apply seq_nth. apply (act_lt N); assumption.
Qed.

Lemma Moved_closed g x : Perm g -> Moved g x -> Moved g (pstep g x).
Proof.
  intros HP [Hx Hm]. split; [apply Perm_lt; assumption|].
  intros E. apply Hm. apply (Perm_inj g _ _ HP); [apply Perm_lt; assumption|exact Hx|exact E].
Qed.

Lemma not_Moved_fix g x : x < length g -> ~ Moved g x -> pstep g x = x.
Proof.
  intros Hx Hn. destruct (Nat.eq_dec (pstep g x) x) as [E|NE]; [exact E|]. exfalso. apply Hn. split; assumption.
Qed.

Lemma Moved_dec g x : {Moved g x} + {~ Moved g x}.
Proof.
  unfold Moved. destruct (lt_dec x (length g)) as [Hx|Hx]; [|right; intros [H _]; contradiction].
  destruct (Nat.eq_dec (pstep g x) x) as [E|NE]; [right; intros [_ H]; contradiction|left; auto].
Qed.

Lemma Moved_inverse g y : Perm g -> (Moved (inverse_perm g) y <-> Moved g y).
Proof.
  intros HP. unfold Moved. rewrite inverse_perm_length. split; intros [Hy Hm]; (split; [exact Hy|]); intros E; apply Hm.
  - unfold pstep in *. rewrite <- E at 1. apply inverse_spec; assumption.
  - unfold pstep in *. rewrite <- E at 1. apply inverse_spec'; assumption.
Qed.

Lemma moved_any_dec gs x : {g | In g gs /\ Moved g x} + {forall g, In g gs -> ~ Moved g x}.
Proof.
  induction gs as [|g gs IH].
  - right. intros g [].
  - destruct (Moved_dec g x) as [Hm|Hn]; [left; exists g; split; [left; reflexivity|exact Hm]|].
    destruct IH as [(g' & Hin & Hm)|Hnone]; [left; exists g'; split; [right; exact Hin|exact Hm]|].
    right. intros g' [<-|Hin]; [exact Hn|apply Hnone; exact Hin].
Qed.

(** with pairwise disjoint supports the product acts like whichever factor moves the point *)
Lemma act_disjoint N gs x : PermsOf N gs -> ForallOrdPairs DisjointSupp gs -> x < N ->
  (forall g, In g gs -> Moved g x -> act gs x = pstep g x) /\
  ((forall g, In g gs -> ~ Moved g x) -> act gs x = x).
Proof.
  intros HP HD Hx. induction HD as [|g1 rest HF HD IH].
  - split; [intros g []|reflexivity].
  - assert (PermsOf N rest) as HP' by (intros g' Hg'; apply HP; right; exact Hg').
    destruct (IH HP') as [IHa IHb]. destruct (HP g1 (or_introl eq_refl)) as [HL1 HP1].
    rewrite Forall_forall in HF. cbn [act fold_right]. fold (act rest x). split.
    + intros g [<-|Hin] Hm.
      * rewrite IHb; [reflexivity|]. intros g' Hg' Hm'. apply (HF g' Hg' x). split; assumption.
      * rewrite (IHa g Hin Hm). destruct (HP' g Hin) as [HLg HPg].
        apply not_Moved_fix; [rewrite HL1, <- HLg; apply Perm_lt; [exact HPg|lia]|].
        intros Hm1. apply (HF g Hin (pstep g x)). split; [exact Hm1|apply Moved_closed; assumption].
    + intros Hnone. rewrite IHb by (intros g' Hg'; apply Hnone; right; exact Hg').
      apply not_Moved_fix; [lia|]. apply Hnone. left; reflexivity.
Qed.

Lemma ForallOrdPairs_map {A B} (R : A -> A -> Prop) (S : B -> B -> Prop) (f : A -> B) l :
  (forall a b, R a b -> S (f a) (f b)) -> ForallOrdPairs R l -> ForallOrdPairs S (map f l).
Proof.
  intros H HF. induction HF as [|a l HFa HF IH]; cbn [map]; constructor; [|exact IH].
  rewrite Forall_forall in *. intros y Hy. apply in_map_iff in Hy as (b & <- & Hb). apply H. apply HFa. exact Hb.
Qed.

(** ... and inverting every factor inverts the product *)
Theorem prod_perm_inverse N gs : PermsOf N gs -> ForallOrdPairs DisjointSupp gs ->
  inverse_perm (prod_perm N gs) = prod_perm N (map inverse_perm gs).
Proof.
  intros HP HD.
  assert (PermsOf N (map inverse_perm gs)) as HP'.
  { intros g' Hg'. apply in_map_iff in Hg' as (g & <- & Hg). destruct (HP g Hg) as [HL HPg].
    split; [rewrite inverse_perm_length; exact HL|apply inverse_is_perm; exact HPg]. }
  assert (ForallOrdPairs DisjointSupp (map inverse_perm gs)) as HD'.
  { assert (ForallOrdPairs (fun a b => DisjointSupp a b /\ Perm a /\ Perm b) gs) as HD2.
    { clear HP'. induction HD as [|a l HFa HD IH]; constructor.
      - rewrite Forall_forall in *. intros b Hb. split; [apply HFa; exact Hb|].
        split; [apply (HP a); left; reflexivity|apply (HP b); right; exact Hb].
      - apply IH. intros g Hg. apply HP. right; exact Hg. }
    eapply ForallOrdPairs_map; [|exact HD2]. intros a b (Hab & Ha & Hb) x [H1 H2].
    apply (Hab x). split; [apply (proj1 (Moved_inverse a x Ha)); exact H1|apply (proj1 (Moved_inverse b x Hb)); exact H2]. }
  destruct (prod_perm_spec N gs HP) as (L1 & P1 & S1).
  destruct (prod_perm_spec N (map inverse_perm gs) HP') as (L2 & P2 & S2).
  apply inverse_perm_unique; [exact P1|lia|]. rewrite L1. intros x Hx.
  fold (pstep (prod_perm N gs) x). fold (pstep (prod_perm N (map inverse_perm gs)) (pstep (prod_perm N gs) x)).
  rewrite S1 by exact Hx. rewrite S2 by (apply (act_lt N); assumption).
  destruct (act_disjoint N gs x HP HD Hx) as [Ha Hb].
  destruct (moved_any_dec gs x) as [(g & Hin & Hm)|Hnone].
  - rewrite (Ha g Hin Hm). destruct (HP g Hin) as [HLg HPg].
    assert (pstep g x < N) as Hy by (rewrite <- HLg; apply Perm_lt; [exact HPg|lia]).
    destruct (act_disjoint N (map inverse_perm gs) (pstep g x) HP' HD' Hy) as [Ha' _].
    rewrite (Ha' (inverse_perm g)).
    + unfold pstep. apply inverse_spec; [exact HPg|lia].
    + apply in_map. exact Hin.
    + apply (proj2 (Moved_inverse g (pstep g x) HPg)). apply Moved_closed; assumption.
  - rewrite (Hb Hnone). destruct (act_disjoint N (map inverse_perm gs) x HP' HD' Hx) as [_ Hb'].
    apply Hb'. intros g' Hg' Hm'. apply in_map_iff in Hg' as (g & <- & Hg).
    apply (Hnone g Hg). apply (proj1 (Moved_inverse g x (proj2 (HP g Hg)))). exact Hm'.
Qed.

Example ex_prod_perm_inverse :
  let gs := [[1; 0; 2; 3; 4]; [0; 1; 3; 4; 2]] in
  PermsOf 5 gs /\ ForallOrdPairs DisjointSupp gs /\
  prod_perm 5 gs = [1; 0; 3; 4; 2] /\ inverse_perm (prod_perm 5 gs) = prod_perm 5 (map inverse_perm gs).
Proof.
  cbv zeta. split; [|split; [|split; reflexivity]].
  - intros g [<-|[<-|[]]]; (split; [reflexivity|apply is_perm_iff; reflexivity]).
  - constructor; [|constructor; [constructor|constructor]]. constructor; [|constructor].
    apply disjoint_supp_meaning. reflexivity.
Qed.

(* ====================================================================================== *)
(** * Part 2: the loop over the slices of one combination *)

(* the body of "for i, state in enumerate(combo)" *)
Definition atm_step (sl : list (list nat * list nat)) (acc : list nat * list string) (ist : nat * nat)
  : list nat * list string :=
  let '(i, state) := ist in
  let '(cur, parts) := acc in
  let cwccw := nth i sl ([], []) in
  if state =? 1 then (compose (fst cwccw) cur, parts ++ ["s" +++ str_of_nat i +++ "_cw"])
  else if state =? 2 then (compose (snd cwccw) cur, parts ++ ["s" +++ str_of_nat i +++ "_ccw"])
  else acc.

Definition pairs_of (off : nat) (combo : list nat) : list (nat * nat) := combine (seq off (length combo)) combo.
Definition is_act (ist : nat * nat) : bool := (snd ist =? 1) || (snd ist =? 2).
Definition active (combo : list nat) : list (nat * nat) := filter is_act (pairs_of 0 combo).
Definition gsel (sl : list (list nat * list nat)) (ist : nat * nat) : list nat :=
  if snd ist =? 1 then fst (nth (fst ist) sl ([], [])) else snd (nth (fst ist) sl ([], [])).
Definition pname (ist : nat * nat) : string :=
  "s" +++ str_of_nat (fst ist) +++ (if snd ist =? 1 then "_cw" else "_ccw").

Definition atm_combo (total : nat) (sl : list (list nat * list nat)) (combo : list nat) : list nat * list string :=
  fold_left (atm_step sl) (pairs_of 0 combo) (identity_perm total, []).

Lemma atm_fold_split sl l : forall cur parts,
  fold_left (atm_step sl) l (cur, parts)
  = (prod_from (map (gsel sl) (filter is_act l)) cur, parts ++ map pname (filter is_act l)).
Proof.
  induction l as [|[i st] l IH]; intros cur parts; cbn [fold_left filter].
  - cbn [map prod_from fold_left]. rewrite app_nil_r. reflexivity.
  - assert (is_act (i, st) = (st =? 1) || (st =? 2)) as Hact by reflexivity.
    destruct (st =? 1) eqn:E1; [|destruct (st =? 2) eqn:E2].
    + assert (atm_step sl (cur, parts) (i, st) = (compose (gsel sl (i, st)) cur, parts ++ [pname (i, st)])) as Es.
      { unfold atm_step, gsel, pname. cbn [fst snd]. rewrite E1. reflexivity. }
      rewrite Es, IH, Hact. cbn [orb map prod_from fold_left]. rewrite <- app_assoc. reflexivity.
    + assert (atm_step sl (cur, parts) (i, st) = (compose (gsel sl (i, st)) cur, parts ++ [pname (i, st)])) as Es.
      { unfold atm_step, gsel, pname. cbn [fst snd]. rewrite E1, E2. reflexivity. }
      rewrite Es, IH, Hact. cbn [orb map prod_from fold_left]. rewrite <- app_assoc. reflexivity.
    + assert (atm_step sl (cur, parts) (i, st) = (cur, parts)) as Es.
      { unfold atm_step. rewrite E1, E2. reflexivity. }
      rewrite Es, IH, Hact. cbn [orb]. reflexivity.
Qed.

Lemma atm_combo_eq total sl combo :
  atm_combo total sl combo = (prod_perm total (map (gsel sl) (active combo)), map pname (active combo)).
Proof. unfold atm_combo. rewrite atm_fold_split. reflexivity. Qed.

(** ** the active (index, state) pairs *)
Lemma map_fst_combine {A B} (l : list A) : forall (l' : list B), length l = length l' -> map fst (combine l l') = l.
Proof.
  induction l as [|a l IH]; intros [|b l'] H; cbn in *; try reflexivity; try discriminate.
  f_equal. apply IH. lia.
Qed.

Lemma map_snd_combine {A B} (l : list A) : forall (l' : list B), length l = length l' -> map snd (combine l l') = l'.
Proof.
  induction l as [|a l IH]; intros [|b l'] H; cbn in *; try reflexivity; try discriminate.
  f_equal. apply IH. lia.
Qed.

Lemma pairs_of_fst off combo : map fst (pairs_of off combo) = seq off (length combo).
Proof. unfold pairs_of. apply map_fst_combine. apply seq_length. Qed.

Lemma pairs_of_snd off combo : map snd (pairs_of off combo) = combo.
Proof. unfold pairs_of. apply map_snd_combine. apply seq_length. Qed.

Lemma active_In combo ist : In ist (active combo) ->
  fst ist < length combo /\ (snd ist = 1 \/ snd ist = 2).
Proof.
  unfold active. intros H. apply filter_In in H as [Hin Hact]. split.
  - assert (In (fst ist) (map fst (pairs_of 0 combo))) as H by (apply in_map; exact Hin).
    rewrite pairs_of_fst in H. apply in_seq in H. lia.
  - unfold is_act in Hact. apply orb_true_iff in Hact as [E|E]; apply Nat.eqb_eq in E; auto.
Qed.

Lemma active_fst_NoDup combo : NoDup (map fst (active combo)).
Proof. unfold active. apply NoDup_map_filter. rewrite pairs_of_fst. apply seq_NoDup. Qed.

Lemma FOP_of_NoDup {A B} (f : A -> B) l : NoDup (map f l) ->
  ForallOrdPairs (fun a b => f a <> f b /\ In a l /\ In b l) l.
Proof.
  induction l as [|a l IH]; intros ND; [constructor|].
  cbn [map] in ND. apply NoDup_cons_iff in ND as [Hn ND]. constructor.
  - rewrite Forall_forall. intros b Hb. split; [|split; [left; reflexivity|right; exact Hb]].
    intros E. apply Hn. rewrite E. apply in_map. exact Hb.
  - eapply ForallOrdPairs_impl; [|apply IH; exact ND]. cbv beta. intros x y (H1 & H2 & H3).
    split; [exact H1|]. split; right; assumption.
Qed.

(* exchanging clockwise and counter-clockwise *)
Definition swap_state (st : nat) : nat := if st =? 1 then 2 else if st =? 2 then 1 else st.
Definition swap_combo (combo : list nat) : list nat := map swap_state combo.
Definition swap_pair_state (ist : nat * nat) : nat * nat := (fst ist, swap_state (snd ist)).

Lemma combine_map_r {A B C} (f : B -> C) (l : list A) : forall (l' : list B),
  combine l (map f l') = map (fun p => (fst p, f (snd p))) (combine l l').
Proof.
  induction l as [|a l IH]; intros [|b l']; cbn [combine map]; try reflexivity. cbn [fst snd]. f_equal. apply IH.
Qed.

Lemma active_swap combo : active (swap_combo combo) = map swap_pair_state (active combo).
Proof.
  unfold active, pairs_of, swap_combo. rewrite map_length, combine_map_r.
  fold (pairs_of 0 combo). fold swap_pair_state.
  induction (pairs_of 0 combo) as [|[i st] l IH]; [reflexivity|]. cbn [map filter].
  assert (is_act (swap_pair_state (i, st)) = is_act (i, st)) as E.
  { unfold is_act, swap_pair_state, swap_state. cbn [fst snd].
    destruct (st =? 1) eqn:E1; [reflexivity|]. destruct (st =? 2) eqn:E2; [reflexivity|]. rewrite E1, E2. reflexivity. }
  rewrite E. destruct (is_act (i, st)); [cbn [map]; f_equal|]; exact IH.
Qed.

(** ** slices of one axis: (turn, its inverse) for the layers 0..n-1 in the order of their NAMES *)
Definition axis_turn (n : nat) (t : mtype) (i : nat) : list nat := move_perm n t (src n t i).
Definition axis_slices (n : nat) (t : mtype) : list (list nat * list nat) :=
  map (fun i => (axis_turn n t i, inverse_perm (axis_turn n t i))) (seq 0 n).

Lemma axis_slices_nth n t i : i < n ->
  nth i (axis_slices n t) ([], []) = (axis_turn n t i, inverse_perm (axis_turn n t i)).
Proof.
  intros Hi. unfold axis_slices. rewrite (nth_map_lt _ _ _ 0 ([], [])) by (rewrite seq_length; exact Hi).
  rewrite seq_nth by exact Hi. reflexivity.
Qed.

Section AxisCombo.
  Variables (n : nat) (t : mtype).
  Hypothesis Hn : 2 <= n.
  Let N := 6 * (n * n).
  Let sl := axis_slices n t.

  Lemma axis_turn_facts i : i < n -> length (axis_turn n t i) = N /\ Perm (axis_turn n t i).
  Proof.
    intros Hi. pose proof (src_lt n t i Hi) as Hs. unfold axis_turn.
    split; [apply move_perm_length|apply move_perm_Perm]; assumption.
  Qed.

  Lemma axis_turn_disjoint i j : i < n -> j < n -> i <> j -> DisjointSupp (axis_turn n t i) (axis_turn n t j).
  Proof.
    intros Hi Hj Hne. unfold axis_turn. apply move_perm_disjoint; try (apply src_lt; assumption); try exact Hn.
    intros E. apply Hne. rewrite <- (src_src n t i Hi), <- (src_src n t j Hj), E. reflexivity.
  Qed.

  Lemma gsel_cases ist : fst ist < n -> (snd ist = 1 \/ snd ist = 2) ->
    (gsel sl ist = axis_turn n t (fst ist) \/ gsel sl ist = inverse_perm (axis_turn n t (fst ist))).
  Proof.
    intros Hi Hst. unfold gsel, sl. rewrite axis_slices_nth by exact Hi. cbn [fst snd].
    destruct (snd ist =? 1); auto.
  Qed.

  Lemma gsel_swap ist : fst ist < n -> (snd ist = 1 \/ snd ist = 2) ->
    gsel sl (swap_pair_state ist) = inverse_perm (gsel sl ist).
  Proof.
    intros Hi Hst. unfold gsel, sl, swap_pair_state, swap_state. cbn [fst snd].
    rewrite axis_slices_nth by exact Hi. cbn [fst snd].
    destruct Hst as [E|E]; rewrite E; cbn [Nat.eqb]; [reflexivity|].
    symmetry. apply inverse_involutive. apply axis_turn_facts. exact Hi.
  Qed.

  Variable combo : list nat.
  Hypothesis Hlen : length combo = n.

  Lemma combo_gs_perms : PermsOf N (map (gsel sl) (active combo)).
  Proof.
    intros g Hg. apply in_map_iff in Hg as (ist & <- & Hin). apply active_In in Hin as [Hi Hst]. rewrite Hlen in Hi.
    destruct (axis_turn_facts (fst ist) Hi) as [HL HP].
    destruct (gsel_cases ist Hi Hst) as [-> | ->]; [auto|].
    split; [rewrite inverse_perm_length; exact HL|apply inverse_is_perm; exact HP].
  Qed.

  Lemma combo_gs_disjoint : ForallOrdPairs DisjointSupp (map (gsel sl) (active combo)).
  Proof.
    eapply ForallOrdPairs_map; [|apply (FOP_of_NoDup fst); apply active_fst_NoDup].
    cbv beta. intros x y (Hne & Hx & Hy).
    apply active_In in Hx as [Hxi Hxs]. apply active_In in Hy as [Hyi Hys]. rewrite Hlen in Hxi, Hyi.
    pose proof (axis_turn_disjoint (fst x) (fst y) Hxi Hyi Hne) as HD.
    destruct (axis_turn_facts (fst x) Hxi) as [_ HPx]. destruct (axis_turn_facts (fst y) Hyi) as [_ HPy].
    intros z [Hz1 Hz2]. apply (HD z).
    destruct (gsel_cases x Hxi Hxs) as [Ex|Ex]; destruct (gsel_cases y Hyi Hys) as [Ey|Ey]; rewrite Ex in Hz1; rewrite Ey in Hz2.
    - split; assumption.
    - split; [exact Hz1|apply (proj1 (Moved_inverse _ z HPy)); exact Hz2].
    - split; [apply (proj1 (Moved_inverse _ z HPx)); exact Hz1|exact Hz2].
    - split; [apply (proj1 (Moved_inverse _ z HPx)); exact Hz1|apply (proj1 (Moved_inverse _ z HPy)); exact Hz2].
  Qed.

  Definition combo_perm : list nat := prod_perm N (map (gsel sl) (active combo)).

  Lemma combo_perm_facts : length combo_perm = N /\ Perm combo_perm.
  Proof. destruct (prod_perm_spec N _ combo_gs_perms) as (H1 & H2 & _). auto. Qed.

  Lemma combo_perm_inverse :
    inverse_perm combo_perm = prod_perm N (map (gsel sl) (active (swap_combo combo))).
  Proof.
    unfold combo_perm. rewrite (prod_perm_inverse N _ combo_gs_perms combo_gs_disjoint).
    f_equal. rewrite active_swap, !map_map. apply map_ext_in. intros ist Hin.
    apply active_In in Hin as [Hi Hst]. rewrite Hlen in Hi. symmetry. apply gsel_swap; assumption.
  Qed.
End AxisCombo.

(* ====================================================================================== *)
(** * Part 3: the dictionary keys determine the combination *)

Definition is_digit (c : ascii) : bool := has_char c "0123456789".
Fixpoint all_digits (s : string) : bool :=
  match s with EmptyString => true | String c t => is_digit c && all_digits t end.

Lemma all_digits_uint d : all_digits (NilEmpty.string_of_uint d) = true.
Proof. induction d as [|d IH|d IH|d IH|d IH|d IH|d IH|d IH|d IH|d IH|d IH]; cbn; try exact IH; reflexivity. Qed.

Lemma all_digits_str_of_nat i : all_digits (str_of_nat i) = true.
Proof. rewrite str_of_nat_NilEmpty. apply all_digits_uint. Qed.

Lemma str_append_assoc a b c : ((a +++ b) +++ c = a +++ (b +++ c))%string.
Proof. induction a as [|x a IH]; cbn; [reflexivity|]. rewrite IH. reflexivity. Qed.

Lemma str_append_nil_r a : (a +++ "" = a)%string.
Proof. induction a as [|x a IH]; cbn; [reflexivity|]. rewrite IH. reflexivity. Qed.

(* a run of digits followed by '_' can be split off in only one way *)
Lemma digits_delim D : forall D' A B, all_digits D = true -> all_digits D' = true ->
  (D +++ String "_" A = D' +++ String "_" B)%string -> D = D' /\ A = B.
Proof.
  induction D as [|c D IH]; intros [|c' D'] A B H1 H2 E; cbn in E.
  - inversion E. auto.
  - exfalso. inversion E as [[Ec Et]]. subst c'. cbn in H2. discriminate H2.
  - exfalso. inversion E as [[Ec Et]]. subst c. cbn in H1. discriminate H1.
  - inversion E as [[Ec Et]]. subst c'. cbn [all_digits] in H1, H2.
    apply andb_true_iff in H1 as [_ H1]. apply andb_true_iff in H2 as [_ H2].
    destruct (IH D' A B H1 H2 Et) as [-> ->]. auto.
Qed.

Lemma join_cons sep a t :
  join sep (a :: t) = (a +++ match t with [] => "" | _ :: _ => sep +++ join sep t end)%string.
Proof. destruct t as [|b t]; cbn [join]; [rewrite str_append_nil_r|]; reflexivity. Qed.

Lemma pname_shape ist T : (snd ist = 1 \/ snd ist = 2) ->
  (pname ist +++ T)%string
  = String "s" (str_of_nat (fst ist) +++ String "_" (if snd ist =? 1 then String "c" (String "w" T) else String "c" (String "c" (String "w" T)))).
Proof.
  intros H. unfold pname. cbn [String.append]. f_equal. rewrite str_append_assoc. f_equal.
  destruct H as [E|E]; rewrite E; reflexivity.
Qed.

Lemma parts_join_inj l : forall l',
  (forall x, In x l -> snd x = 1 \/ snd x = 2) -> (forall x, In x l' -> snd x = 1 \/ snd x = 2) ->
  join "_" (map pname l) = join "_" (map pname l') -> l = l'.
Proof.
  induction l as [|x t IH]; intros [|x' t'] H H' E.
  - reflexivity.
  - exfalso. cbn [map] in E. rewrite join_cons in E. rewrite pname_shape in E by (apply H'; left; reflexivity).
    discriminate E.
  - exfalso. cbn [map] in E. rewrite join_cons in E. rewrite pname_shape in E by (apply H; left; reflexivity).
    discriminate E.
  - cbn [map] in E. rewrite !join_cons in E.
    pose proof (H x (or_introl eq_refl)) as Hx. pose proof (H' x' (or_introl eq_refl)) as Hx'.
    rewrite !pname_shape in E by assumption. inversion E as [E1]. clear E.
    apply digits_delim in E1 as [ED ET]; try apply all_digits_str_of_nat.
    apply str_of_nat_inj in ED.
    assert (snd x = snd x' /\
            match map pname t with [] => ""%string | _ :: _ => ("_" +++ join "_" (map pname t))%string end
            = match map pname t' with [] => ""%string | _ :: _ => ("_" +++ join "_" (map pname t'))%string end) as [Es ET'].
    { destruct Hx as [Ex|Ex]; destruct Hx' as [Ex'|Ex']; rewrite Ex, Ex' in ET; cbn [Nat.eqb] in ET.
      - inversion ET. split; [congruence|assumption].
      - exfalso. inversion ET.
      - exfalso. inversion ET.
      - inversion ET. split; [congruence|assumption]. }
    assert (t = t') as ->.
    { apply IH; [intros y Hy; apply H; right; exact Hy|intros y Hy; apply H'; right; exact Hy|].
      destruct t as [|y t]; destruct t' as [|y' t']; cbn [map] in ET'.
      - reflexivity.
      - discriminate ET'.
      - discriminate ET'.
      - cbn [String.append] in ET'. inversion ET' as [E2]. exact E2. }
    destruct x as [i st]; destruct x' as [i' st']. cbn [fst snd] in *. subst. reflexivity.
Qed.

(* the combination is determined by its active pairs *)
Lemma pairs_of_cons off s combo : pairs_of off (s :: combo) = (off, s) :: pairs_of (S off) combo.
Proof. reflexivity. Qed.

Lemma pairs_of_ge off combo x : In x (pairs_of off combo) -> off <= fst x.
Proof.
  intros H. assert (In (fst x) (map fst (pairs_of off combo))) as H' by (apply in_map; exact H).
  rewrite pairs_of_fst in H'. apply in_seq in H'. lia.
Qed.

Lemma active_off_inj combo : forall combo' off, length combo = length combo' ->
  (forall s, In s combo -> s < 3) -> (forall s, In s combo' -> s < 3) ->
  filter is_act (pairs_of off combo) = filter is_act (pairs_of off combo') -> combo = combo'.
Proof.
  induction combo as [|s combo IH]; intros [|s' combo'] off HL H H' E; cbn [length] in HL; try discriminate; [reflexivity|].
  rewrite !pairs_of_cons in E. cbn [filter] in E.
  assert (s < 3) as Hs by (apply H; left; reflexivity). assert (s' < 3) as Hs' by (apply H'; left; reflexivity).
  assert (forall c x, In x (filter is_act (pairs_of (S off) c)) -> fst x <> off) as Hge.
  { intros c x Hx. apply filter_In in Hx as [Hx _]. apply pairs_of_ge in Hx. lia. }
  assert (s = s' /\ filter is_act (pairs_of (S off) combo) = filter is_act (pairs_of (S off) combo')) as [-> E'].
  { assert (forall o v, is_act (o, v) = (v =? 1) || (v =? 2)) as Hact by reflexivity. rewrite !Hact in E.
    destruct s as [|[|[|s]]]; try lia; destruct s' as [|[|[|s']]]; try lia; cbn [Nat.eqb orb] in E.
    - auto.
    - exfalso. apply (Hge combo (off, 1)); [rewrite E; left; reflexivity|reflexivity].
    - exfalso. apply (Hge combo (off, 2)); [rewrite E; left; reflexivity|reflexivity].
    - exfalso. apply (Hge combo' (off, 1)); [rewrite <- E; left; reflexivity|reflexivity].
    - inversion E. auto.
    - inversion E.
    - exfalso. apply (Hge combo' (off, 2)); [rewrite <- E; left; reflexivity|reflexivity].
    - inversion E.
    - inversion E. auto. }
  f_equal. apply (IH combo' (S off)); [lia| | |exact E'].
  - intros y Hy. apply H. right; exact Hy.
  - intros y Hy. apply H'. right; exact Hy.
Qed.

Definition atm_key (axis_name : string) (combo : list nat) : string :=
  "axis_" +++ axis_name +++ "_" +++ join "_" (map pname (active combo)).

Lemma atm_key_inj nm nm' combo combo' :
  In nm ["X"; "Y"; "Z"]%string -> In nm' ["X"; "Y"; "Z"]%string ->
  length combo = length combo' -> (forall s, In s combo -> s < 3) -> (forall s, In s combo' -> s < 3) ->
  atm_key nm combo = atm_key nm' combo' -> nm = nm' /\ combo = combo'.
Proof.
  intros Hnm Hnm' HL H H' E. unfold atm_key in E.
  assert (nm = nm' /\ join "_" (map pname (active combo)) = join "_" (map pname (active combo'))) as [-> EJ].
  { destruct Hnm as [<-|[<-|[<-|[]]]]; destruct Hnm' as [<-|[<-|[<-|[]]]]; cbn [String.append] in E;
      inversion E; auto. }
  split; [reflexivity|].
  apply parts_join_inj in EJ.
  - apply (active_off_inj combo combo' 0 HL H H' EJ).
  - intros x Hx. apply (active_In combo x Hx).
  - intros x Hx. apply (active_In combo' x Hx).
Qed.

Example ex_atm_key : atm_key "X" [1; 0; 2] = "axis_X_s0_cw_s2_ccw"%string /\ active [1; 0; 2] = [(0, 1); (2, 2)] /\
  swap_combo [1; 0; 2] = [2; 0; 1].
Proof. vm_compute. auto. Qed.

(* ====================================================================================== *)
(** * Part 4: itertools.product([0, 1, 2], repeat=n) *)

Lemma product3_In n : forall c, In c (product3 n) <-> (length c = n /\ forall s, In s c -> s < 3).
Proof.
  induction n as [|n IH]; intros c; cbn [product3].
  - split.
    + intros [<-|[]]. split; [reflexivity|intros s []].
    + intros [HL _]. destruct c; [left; reflexivity|discriminate HL].
  - rewrite in_flat_map. split.
    + intros (x & Hx & Hc). apply in_map_iff in Hc as (c' & <- & Hc'). apply IH in Hc' as [HL Hlt].
      split; [cbn [length]; lia|]. intros s [<-|Hs]; [cbn in Hx; lia|apply Hlt; exact Hs].
    + intros [HL Hlt]. destruct c as [|x c']; [discriminate HL|]. exists x. split.
      * assert (x < 3) as Hx by (apply Hlt; left; reflexivity). cbn. lia.
      * apply in_map. apply IH. split; [cbn [length] in HL; lia|]. intros s Hs. apply Hlt. right; exact Hs.
Qed.

Lemma product3_NoDup n : NoDup (product3 n).
Proof.
  induction n as [|n IH]; cbn [product3]; [repeat constructor; intros []|].
  apply NoDup_flat_map.
  - repeat constructor; cbn; lia.
  - intros x _. apply NoDup_map_inj; [exact IH|]. intros a b _ _ E. inversion E. reflexivity.
  - intros x y z _ _ Hx Hy. apply in_map_iff in Hx as (a & <- & _). apply in_map_iff in Hy as (b & E & _).
    inversion E. reflexivity.
Qed.

Lemma product3_length n : length (product3 n) = 3 ^ n.
Proof.
  induction n as [|n IH]; cbn [product3]; [reflexivity|].
  rewrite (flat_map_length_const _ (3 ^ n)) by (intros x _; rewrite map_length; exact IH).
  cbn [length Nat.pow]. lia.
Qed.

Definition nz (combo : list nat) : bool := negb (forallb (Nat.eqb 0) combo).
Definition combos (n : nat) : list (list nat) := filter nz (product3 n).

Lemma all_zero_iff c : forallb (Nat.eqb 0) c = true <-> c = repeat 0 (length c).
Proof.
  induction c as [|s c IH]; cbn [forallb length repeat]; [split; reflexivity|].
  rewrite andb_true_iff, IH. split.
  - intros [E1 E2]. apply Nat.eqb_eq in E1. subst s. f_equal. exact E2.
  - intros E. inversion E as [[E1 E2]]. rewrite <- E2. split; [reflexivity|exact E2].
Qed.

Lemma combos_In n c : In c (combos n) <-> (length c = n /\ (forall s, In s c -> s < 3) /\ nz c = true).
Proof. unfold combos. rewrite filter_In, product3_In. tauto. Qed.

Lemma combos_NoDup n : NoDup (combos n).
Proof. apply NoDup_filter. apply product3_NoDup. Qed.

Lemma combos_length n : length (combos n) = 3 ^ n - 1.
Proof.
  unfold combos. rewrite <- product3_length.
  rewrite (filter_ext_in nz (fun c => negb (nat_list_eqb c (repeat 0 n)))).
  - apply filter_remove_one; [apply nat_list_eqb_eq|apply product3_NoDup|].
    apply product3_In. split; [apply repeat_length|]. intros s Hs. apply repeat_spec in Hs. lia.
  - intros c Hc. apply product3_In in Hc as [HL _]. unfold nz. f_equal.
    apply eq_true_iff_eq. rewrite all_zero_iff, nat_list_eqb_eq, HL. reflexivity.
Qed.

Lemma swap_state_zero s : (0 =? swap_state s) = (0 =? s).
Proof. unfold swap_state. destruct s as [|[|[|s]]]; reflexivity. Qed.

Lemma all_zero_swap c : forallb (Nat.eqb 0) (map swap_state c) = forallb (Nat.eqb 0) c.
Proof. induction c as [|s c IH]; cbn [map forallb]; [reflexivity|]. rewrite swap_state_zero, IH. reflexivity. Qed.

Lemma swap_combo_In n c : In c (combos n) -> In (swap_combo c) (combos n).
Proof.
  rewrite !combos_In. intros (HL & Hlt & Hnz). unfold swap_combo. split; [rewrite map_length; exact HL|]. split.
  - intros s Hs. apply in_map_iff in Hs as (s0 & <- & Hs0). specialize (Hlt s0 Hs0).
    unfold swap_state. destruct s0 as [|[|[|s0]]]; cbn; lia.
  - unfold nz in *. rewrite all_zero_swap. exact Hnz.
Qed.

(* ====================================================================================== *)
(** * Part 5: the dictionary of get_atm_metric_moves and the ATM generator list *)

Definition atm_axis_entries (n : nat) (nm : string) (t : mtype) : list (string * list nat) :=
  map (fun combo => (atm_key nm combo, combo_perm n t combo)) (combos n).

Definition atm_closed (n : nat) : list (string * list nat) :=
  atm_axis_entries n "X" MR ++ atm_axis_entries n "Y" MD ++ atm_axis_entries n "Z" MF.

(* the function with its innermost loop named *)
Lemma atm_moves_unfold n :
  atm_moves n =
  do base <- cube_moves n;
  match base with [] => Ok [] | _ =>
  let slices (letter : ascii) :=
    map (fun kv => (snd kv, inverse_perm (snd kv)))
        (sort_by (fun kv => name_index (fst kv)) (filter (fun kv => starts_with_char letter (fst kv)) base)) in
  let axes := [("X"%string, slices "r"%char); ("Y"%string, slices "d"%char); ("Z"%string, slices "f"%char)] in
  Ok (fold_left (fun d '(axis_name, sl) =>
        fold_left (fun d combo =>
          if forallb (Nat.eqb 0) combo then d
          else let '(perm, parts) := atm_combo (6 * n * n) sl combo in
               sdict_set ("axis_" +++ axis_name +++ "_" +++ join "_" parts) perm d)
        (product3 n) d) axes [])
  end.
Proof. reflexivity. Qed.

Lemma slices_eq n t : 2 <= n ->
  map (fun kv => (snd kv, inverse_perm (snd kv)))
      (sort_by (fun kv => name_index (fst kv)) (axis_moves t (canonical n)))
  = axis_slices n t.
Proof.
  intros Hn. rewrite axis_moves_canonical.
  rewrite (sort_by_unique _ _ (map (fun i => canon_entry n (t, i)) (seq 0 n))).
  - unfold axis_slices. rewrite map_map. apply map_ext. intros i. reflexivity.
  - rewrite map_map. unfold canon_entry. cbn [fst snd].
    rewrite (map_ext _ (fun i => i)) by (intros i; apply name_index_mname). rewrite map_id. apply seq_NoDup.
  - apply (SS_of_map lt (fun kv : string * list nat => name_index (fst kv))).
    rewrite map_map. unfold canon_entry. cbn [fst snd].
    rewrite (map_ext _ (fun i => i)) by (intros i; apply name_index_mname). rewrite map_id. apply SS_seq.
  - apply Permutation_refl.
Qed.

Lemma atm_axis_fold n nm t d : NoDup (map fst d ++ map (atm_key nm) (combos n)) ->
  fold_left (fun d combo =>
      if forallb (Nat.eqb 0) combo then d
      else let '(perm, parts) := atm_combo (6 * n * n) (axis_slices n t) combo in
           sdict_set ("axis_" +++ nm +++ "_" +++ join "_" parts) perm d)
    (product3 n) d
  = d ++ atm_axis_entries n nm t.
Proof.
  intros ND.
  rewrite (fold_left_ext _ (fun d combo => if forallb (Nat.eqb 0) combo then d
                                           else sdict_set (atm_key nm combo) (combo_perm n t combo) d)).
  - rewrite (fold_skip (fun combo => forallb (Nat.eqb 0) combo)
                       (fun d combo => sdict_set (atm_key nm combo) (combo_perm n t combo) d)).
    fold nz. fold (combos n). rewrite (fold_sdict_fresh (atm_key nm) (combo_perm n t)) by exact ND. reflexivity.
  - intros d' combo. destruct (forallb (Nat.eqb 0) combo); [reflexivity|].
    rewrite atm_combo_eq. unfold atm_key, combo_perm. replace (6 * n * n) with (6 * (n * n)) by lia. reflexivity.
Qed.

Lemma combos_key_inj n nm nm' c c' :
  In nm ["X"; "Y"; "Z"]%string -> In nm' ["X"; "Y"; "Z"]%string -> In c (combos n) -> In c' (combos n) ->
  atm_key nm c = atm_key nm' c' -> nm = nm' /\ c = c'.
Proof.
  intros Hnm Hnm' Hc Hc' E. apply combos_In in Hc as (HL & Hlt & _). apply combos_In in Hc' as (HL' & Hlt' & _).
  apply atm_key_inj; try assumption. lia.
Qed.

Lemma atm_keys_NoDup n :
  NoDup (map (atm_key "X") (combos n) ++ map (atm_key "Y") (combos n) ++ map (atm_key "Z") (combos n)).
Proof.
  assert (forall nm, In nm ["X"; "Y"; "Z"]%string -> NoDup (map (atm_key nm) (combos n))) as H1.
  { intros nm Hnm. apply NoDup_map_inj; [apply combos_NoDup|]. intros c c' Hc Hc' E.
    apply (combos_key_inj n nm nm c c' Hnm Hnm Hc Hc' E). }
  assert (forall nm nm' k, In nm ["X"; "Y"; "Z"]%string -> In nm' ["X"; "Y"; "Z"]%string -> nm <> nm' ->
            In k (map (atm_key nm) (combos n)) -> ~ In k (map (atm_key nm') (combos n))) as H2.
  { intros nm nm' k Hnm Hnm' Hne Hk Hk'. apply in_map_iff in Hk as (c & <- & Hc). apply in_map_iff in Hk' as (c' & E & Hc').
    symmetry in E. apply (combos_key_inj n nm nm' c c' Hnm Hnm' Hc Hc') in E as [E _]. contradiction. }
  apply NoDup_app_intro; [apply H1; cbn; auto| |].
  - apply NoDup_app_intro; [apply H1; cbn; auto|apply H1; cbn; auto|].
    intros k Hk. apply (H2 "Y"%string "Z"%string); cbn; auto. discriminate.
  - intros k Hk Hin. apply in_app_or in Hin as [Hin|Hin]; revert Hin.
    + apply (H2 "X"%string "Y"%string); cbn; auto. discriminate.
    + apply (H2 "X"%string "Z"%string); cbn; auto. discriminate.
Qed.

Lemma NoDup_app_l {A} (l1 l2 : list A) : NoDup (l1 ++ l2) -> NoDup l1.
Proof.
  induction l1 as [|a l1 IH]; intros H; [constructor|]. cbn [app] in H. apply NoDup_cons_iff in H as [Hn H].
  constructor; [|apply IH; exact H]. intros Hin. apply Hn. apply in_or_app. left; exact Hin.
Qed.

(** get_atm_metric_moves(n) in closed form, for every n >= 2 *)
Theorem atm_moves_eq n : 2 <= n -> atm_moves n = Ok (atm_closed n).
Proof.
  intros Hn. rewrite atm_moves_unfold, cube_moves_eq by exact Hn. cbn [bind].
  destruct (canonical n) as [|kv0 rest] eqn:Ecan.
  { exfalso. assert (length (canonical n) = 3 * n) as HL
      by (unfold canonical, ordered; rewrite map_length, prod_length, seq_length; reflexivity).
    rewrite Ecan in HL. cbn in HL. lia. }
  rewrite <- Ecan. cbv zeta. f_equal.
  change (filter (fun kv => starts_with_char "r" (fst kv)) (canonical n)) with (axis_moves MR (canonical n)).
  change (filter (fun kv => starts_with_char "d" (fst kv)) (canonical n)) with (axis_moves MD (canonical n)).
  change (filter (fun kv => starts_with_char "f" (fst kv)) (canonical n)) with (axis_moves MF (canonical n)).
  rewrite !slices_eq by exact Hn. cbn [fold_left].
  pose proof (atm_keys_NoDup n) as ND.
  assert (forall nm t, map fst (atm_axis_entries n nm t) = map (atm_key nm) (combos n)) as Hk.
  { intros nm t. unfold atm_axis_entries. rewrite map_map. reflexivity. }
  rewrite (atm_axis_fold n "X" MR []).
  2:{ cbn [map app]. apply NoDup_app_l in ND. exact ND. }
  cbn [app]. rewrite (atm_axis_fold n "Y" MD).
  2:{ rewrite Hk. rewrite app_assoc in ND. apply NoDup_app_l in ND. exact ND. }
  rewrite (atm_axis_fold n "Z" MF).
  2:{ rewrite map_app, !Hk, <- app_assoc. exact ND. }
  unfold atm_closed. rewrite <- app_assoc. reflexivity.
Qed.

Lemma atm_axis_gens n t : 2 <= n ->
  let G := map (combo_perm n t) (combos n) in
  (forall g, In g G -> length g = 6 * (n * n) /\ Perm g) /\ InverseClosed G.
Proof.
  intros Hn. cbv zeta. split.
  - intros g Hg. apply in_map_iff in Hg as (c & <- & Hc). apply combos_In in Hc as (HL & _).
    apply combo_perm_facts; assumption.
  - intros g Hg. apply in_map_iff in Hg as (c & <- & Hc). pose proof Hc as Hc'. apply combos_In in Hc' as (HL & _).
    rewrite (combo_perm_inverse n t Hn c HL). fold (combo_perm n t (swap_combo c)).
    apply in_map. apply swap_combo_In. exact Hc.
Qed.

(** CubeAtmStructure n of PuzzlesProofs.v (there n = 2..6 by computation) for ALL n >= 2:
    3 (3^n - 1) generators, all permutations of 6 n^2 points, inverse-closed *)
Theorem cube_atm_general n : 2 <= n -> CubeAtmStructure n.
Proof.
  intros Hn. unfold CubeAtmStructure.
  change (rubik_cube (Z.of_nat n) "ATM") with (rubik_cube_atm (Z.of_nat n)).
  unfold rubik_cube_atm. rewrite Z_of_nat_small by exact Hn. rewrite Nat2Z.id.
  rewrite atm_moves_eq by exact Hn. cbn [bind].
  set (G := map snd (atm_closed n)).
  assert (G = map (combo_perm n MR) (combos n) ++ map (combo_perm n MD) (combos n) ++ map (combo_perm n MF) (combos n)) as EG.
  { unfold G, atm_closed, atm_axis_entries. rewrite !map_app, !map_map. reflexivity. }
  assert (length G = 3 * (3 ^ n - 1)) as HL.
  { rewrite EG, !app_length, !map_length, combos_length. lia. }
  assert (1 <= 3 ^ n - 1) as Hpow.
  { assert (3 ^ 2 <= 3 ^ n) as Hle by (apply Nat.pow_le_mono_r; lia). cbn in Hle. lia. }
  destruct (atm_axis_gens n MR Hn) as [PR IR]. destruct (atm_axis_gens n MD Hn) as [PD ID].
  destruct (atm_axis_gens n MF Hn) as [PF IF]. cbv zeta in PR, IR, PD, ID, PF, IF.
  rewrite <- HL. apply create_def_GensStructure.
  - intros E. rewrite E in HL. cbn in HL. lia.
  - rewrite EG. intros g Hg. apply in_app_or in Hg as [Hg|Hg]; [apply PR; exact Hg|].
    apply in_app_or in Hg as [Hg|Hg]; [apply PD|apply PF]; exact Hg.
  - unfold G. rewrite !map_length. reflexivity.
  - apply cube_central_length.
  - intros v. apply cube_central_lt. lia.
  - nia.
  - rewrite EG. intros g Hg. apply in_or_app. apply in_app_or in Hg as [Hg|Hg]; [left; apply IR; exact Hg|right].
    apply in_or_app. apply in_app_or in Hg as [Hg|Hg]; [left; apply ID|right; apply IF]; exact Hg.
Qed.

(** all four metrics: [CubeStructure n] of PuzzlesProofs.v for every n >= 2 *)
Theorem cube_structure_general n : 2 <= n -> CubeStructure n.
Proof.
  intros Hn. split; [apply cube_moves_structure_general; exact Hn|].
  split; [apply cube_metrics_general; exact Hn|apply cube_atm_general; exact Hn].
Qed.

(* ---------- validation against the model and non-vacuity ---------- *)
Example ex_atm_moves_eq : atm_moves 2 = Ok (atm_closed 2) /\ atm_moves 3 = Ok (atm_closed 3) /\ length (atm_closed 3) = 78.
Proof. vm_compute. auto. Qed.

Example ex_combos : combos 2 = [[0; 1]; [0; 2]; [1; 0]; [1; 1]; [1; 2]; [2; 0]; [2; 1]; [2; 2]] /\
  In [1; 0; 2] (combos 3) /\ swap_combo [1; 0; 2] = [2; 0; 1].
Proof. vm_compute. auto 20. Qed.

Example ex_combo_perm_inverse : 2 <= 3 /\ length [1; 0; 2] = 3 /\
  inverse_perm (combo_perm 3 MD [1; 0; 2]) = combo_perm 3 MD [2; 0; 1].
Proof. split; [lia|]. split; [reflexivity|]. vm_compute. reflexivity. Qed.

Example ex_cube_atm_vs_bounded : CubeAtmStructure 4 /\ cube_atm_ok 4 = true.
Proof. split; [apply cube_atm_general; lia|vm_compute; reflexivity]. Qed.

Print Assumptions prod_perm_inverse.
Print Assumptions atm_key_inj.
Print Assumptions atm_moves_eq.
Print Assumptions cube_atm_general.
Print Assumptions cube_structure_general.
