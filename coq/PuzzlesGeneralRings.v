(** GENERAL-parameter structure of the Hungarian rings (Puzzles.v [hungarian_rings_permutations],
    [hungarian_rings_generators], [hungarian_rings]; hungarian_rings.py) for ALL admissible parameters:
    ls, rs >= 2 and either li = ri = 0 (one intersection) or 1 <= li < ls, 1 <= ri < rs (two intersections).

    Part A: Python list primitives of the model (py_nth, py_upd, py_remove, zrange, circular_shift).
    Part B: the right ring in closed form ([rrf], [right_ring], [create_right_ring_eq]: never rejected).
    Part C: [rings_perms_general]: for EVERY step the function returns, its right rotation maps the ring
            element number j to the ring element number (j + step) mod rs and fixes all other points.
    Part D: [rings_perms_structure_general] = RingsPermsStructure of PuzzlesProofs.v for all parameters.
    Part E: [rings_structure_general] = RingsStructure (generators, puzzle constructor, inverse-closedness). *)
From Coq Require Import String Ascii ZArith List Bool Arith Lia Sorting.Permutation.
From V Require Import Base Perm PermProofs PermCycles Puzzles PuzzlesProofs CubeGeneral CubeGeneralMoves PuzzlesGeneralCommon.
Import ListNotations.
Local Open Scope list_scope.
Local Open Scope nat_scope.

(* ====================================================================================== *)
(** * Part A: list primitives *)

Lemma py_nth_nonneg l i : (0 <= i < Z.of_nat (length l))%Z -> py_nth l i = Ok (nth (Z.to_nat i) l 0%Z).
Proof.
  intros H. unfold py_nth.
  assert (((0 <=? i) && (i <? Z.of_nat (length l)))%Z = true) as E
    by (apply andb_true_iff; split; [apply Z.leb_le|apply Z.ltb_lt]; lia).
  rewrite E. reflexivity.
Qed.

Lemma py_nth_neg l i : (- Z.of_nat (length l) <= i < 0)%Z ->
  py_nth l i = Ok (nth (Z.to_nat (i + Z.of_nat (length l))) l 0%Z).
Proof.
  intros H. unfold py_nth.
  assert (((0 <=? i) && (i <? Z.of_nat (length l)))%Z = false) as E1
    by (apply andb_false_iff; left; apply Z.leb_gt; lia).
  assert (((- Z.of_nat (length l) <=? i) && (i <? 0))%Z = true) as E2
    by (apply andb_true_iff; split; [apply Z.leb_le|apply Z.ltb_lt]; lia).
  rewrite E1, E2. reflexivity.
Qed.

Lemma py_upd_nonneg l i v : (0 <= i < Z.of_nat (length l))%Z -> py_upd l i v = Ok (upd l (Z.to_nat i) v).
Proof.
  intros H. unfold py_upd.
  assert (((0 <=? i) && (i <? Z.of_nat (length l)))%Z = true) as E
    by (apply andb_true_iff; split; [apply Z.leb_le|apply Z.ltb_lt]; lia).
  rewrite E. reflexivity.
Qed.

Lemma py_remove_head a t : py_remove (a :: t) a = Ok t.
Proof. cbn [py_remove]. rewrite Z.eqb_refl. reflexivity. Qed.

Lemma py_remove_nth l : forall k, NoDup l -> k < length l ->
  py_remove l (nth k l 0%Z) = Ok (firstn k l ++ skipn (S k) l).
Proof.
  induction l as [|a t IH]; intros k ND Hk; [cbn in Hk; lia|].
  apply NoDup_cons_iff in ND as [Hn ND]. destruct k as [|k].
  - cbn [nth]. apply py_remove_head.
  - cbn [nth py_remove length] in *.
    assert (a <> nth k t 0%Z) as Hne by (intros E; apply Hn; rewrite E; apply nth_In; lia).
    apply Z.eqb_neq in Hne. rewrite Hne. rewrite IH by (try assumption; lia). reflexivity.
Qed.

Lemma circular_shift_Permutation {A} (items : list A) step : Permutation (circular_shift items step) items.
Proof.
  unfold circular_shift. set (k := if 0 <? length items then _ else _).
  eapply Permutation_trans; [apply Permutation_app_comm|]. rewrite firstn_skipn. apply Permutation_refl.
Qed.

Lemma map_of_nat_to_nat l : (forall i, i < length l -> (0 <= nth i l 0)%Z) -> map Z.of_nat (map Z.to_nat l) = l.
Proof.
  intros H. apply nth_ext with (d := 0%Z) (d' := 0%Z); [rewrite !map_length; reflexivity|].
  rewrite !map_length. intros i Hi.
  rewrite (nth_map_lt _ _ _ 0 0%Z) by (rewrite map_length; exact Hi).
  rewrite (nth_map_lt _ _ _ 0%Z 0) by exact Hi. apply Z2Nat.id. apply H. exact Hi.
Qed.

Lemma pstep_map_to_nat l x : pstep (map Z.to_nat l) x = Z.to_nat (nth x l 0%Z).
Proof. unfold pstep. change 0 with (Z.to_nat 0%Z) at 1. apply map_nth. Qed.

(* ====================================================================================== *)
(** * Part B: the right ring *)

Definition Admissible (ls li rs ri : Z) : Prop :=
  (2 <= ls /\ 2 <= rs /\ ((li = 0 /\ ri = 0) \/ (1 <= li < ls /\ 1 <= ri < rs)))%Z.

(* number of intersection points *)
Definition inter_of (li : Z) : Z := if (li =? 0)%Z then 1%Z else 2%Z.

(* element number j (0 <= j < rs) of the right ring, listed clockwise from the first intersection point 0:
   the second intersection point li sits at number rs - ri *)
Definition rrf (ls li rs ri j : Z) : Z :=
  (if j =? 0 then 0 else if j <? rs - ri then ls + j - 1 else if j =? rs - ri then li else ls + j - 2)%Z.

Definition right_ring (ls li rs ri : Z) : list Z :=
  if (li =? 0)%Z then 0%Z :: zrange ls (ls + rs - 1)
  else 0%Z :: zrange ls (ls + rs - ri - 1) ++ li :: zrange (ls + rs - ri - 1) (ls + rs - 2).

Section Ring.
  Variables ls li rs ri : Z.
  Hypothesis Hadm : Admissible ls li rs ri.

  Lemma get_intersections_eq : get_intersections li ri = Ok (inter_of li).
  Proof.
    unfold get_intersections, inter_of. destruct Hadm as (_ & _ & [[-> ->]|[H1 H2]]); [reflexivity|].
    assert ((li =? 0) = false)%Z as E1 by (apply Z.eqb_neq; lia).
    assert ((0 <? li) = true)%Z as E2 by (apply Z.ltb_lt; lia).
    assert ((0 <? ri) = true)%Z as E3 by (apply Z.ltb_lt; lia).
    rewrite E1, E2, E3. reflexivity.
  Qed.

  Lemma right_ring_length : length (right_ring ls li rs ri) = Z.to_nat rs.
  Proof.
    unfold right_ring. destruct Hadm as (H1 & H2 & [[-> ->]|[H3 H4]]).
    - cbn [Z.eqb length]. rewrite zrange_length. lia.
    - assert ((li =? 0) = false)%Z as E1 by (apply Z.eqb_neq; lia). rewrite E1.
      cbn [length]. rewrite app_length. cbn [length]. rewrite !zrange_length. lia.
  Qed.

  Lemma right_ring_nth j : j < Z.to_nat rs -> nth j (right_ring ls li rs ri) 0%Z = rrf ls li rs ri (Z.of_nat j).
  Proof.
    intros Hj. unfold right_ring, rrf. destruct Hadm as (H1 & H2 & [[-> ->]|[H3 H4]]).
    - cbn [Z.eqb]. destruct j as [|j]; [reflexivity|]. cbn [nth].
      destruct (Z.eqb_spec (Z.of_nat (S j)) 0) as [E|_]; [lia|].
      destruct (Z.ltb_spec (Z.of_nat (S j)) (rs - 0)) as [_|E]; [|lia].
      rewrite zrange_nth by lia. lia.
    - assert ((li =? 0) = false)%Z as E1 by (apply Z.eqb_neq; lia). rewrite E1.
      destruct j as [|j]; [reflexivity|]. cbn [nth].
      destruct (Z.eqb_spec (Z.of_nat (S j)) 0) as [E|_]; [lia|].
      destruct (Z.ltb_spec (Z.of_nat (S j)) (rs - ri)) as [Hlt|Hge].
      + rewrite app_nth1 by (rewrite zrange_length; lia). rewrite zrange_nth by lia. lia.
      + rewrite app_nth2 by (rewrite zrange_length; lia). rewrite zrange_length.
        destruct (Z.eqb_spec (Z.of_nat (S j)) (rs - ri)) as [E|NE].
        * replace (j - Z.to_nat (ls + rs - ri - 1 - ls)) with 0 by lia. reflexivity.
        * destruct (j - Z.to_nat (ls + rs - ri - 1 - ls)) as [|m] eqn:Em; [lia|]. cbn [nth].
          rewrite zrange_nth by lia. lia.
  Qed.

  (* create_right_ring never rejects admissible parameters *)
  Lemma create_right_ring_eq :
    create_right_ring ls li rs ri (ls + rs - inter_of li) = Ok (right_ring ls li rs ri).
  Proof.
    pose proof right_ring_length as HL. unfold create_right_ring. rewrite get_intersections_eq. cbn [bind].
    unfold right_ring, inter_of in *. destruct Hadm as (H1 & H2 & [[-> ->]|[H3 H4]]).
    - cbn [Z.eqb Pos.eqb] in *. cbn [app]. rewrite HL.
      destruct (Z.eqb_spec (Z.of_nat (Z.to_nat rs)) rs) as [_|NE]; [reflexivity|lia].
    - assert ((li =? 0) = false)%Z as E1 by (apply Z.eqb_neq; lia). rewrite E1 in *.
      cbn [Z.eqb Pos.eqb].
      assert ((if (1 <? ri)%Z
               then ([0%Z] ++ zrange ls (ls + rs - ri - 1) ++ [li]) ++ zrange (ls + rs - ri - 1) (ls + rs - 2)
               else [0%Z] ++ zrange ls (ls + rs - ri - 1) ++ [li])
              = 0%Z :: zrange ls (ls + rs - ri - 1) ++ li :: zrange (ls + rs - ri - 1) (ls + rs - 2)) as E.
      { destruct (Z.ltb_spec 1 ri) as [Hlt|Hge].
        - cbn [app]. rewrite <- app_assoc. reflexivity.
        - assert (zrange (ls + rs - ri - 1) (ls + rs - 2) = []) as ->.
          { unfold zrange. replace (Z.to_nat (ls + rs - 2 - (ls + rs - ri - 1))) with 0 by lia. reflexivity. }
          reflexivity. }
      rewrite E, HL.
      destruct (Z.eqb_spec (Z.of_nat (Z.to_nat rs)) rs) as [_|NE]; [reflexivity|lia].
  Qed.

  Lemma rrf_inj i j : (0 <= i < rs)%Z -> (0 <= j < rs)%Z -> rrf ls li rs ri i = rrf ls li rs ri j -> i = j.
  Proof.
    intros Hi Hj. unfold rrf. destruct Hadm as (H1 & H2 & H3).
    destruct (Z.eqb_spec i 0); destruct (Z.eqb_spec j 0);
    destruct (Z.ltb_spec i (rs - ri)); destruct (Z.ltb_spec j (rs - ri));
    destruct (Z.eqb_spec i (rs - ri)); destruct (Z.eqb_spec j (rs - ri)); lia.
  Qed.

  Lemma right_ring_NoDup : NoDup (right_ring ls li rs ri).
  Proof.
    apply (proj2 (NoDup_nth _ 0%Z)). rewrite right_ring_length. intros i j Hi Hj E.
    rewrite !right_ring_nth in E by assumption. apply rrf_inj in E; lia.
  Qed.

  (* which points lie on the right ring *)
  Lemma rrf_range j : (0 <= j < rs)%Z ->
    let x := rrf ls li rs ri j in (x = 0 \/ x = li \/ ls <= x < ls + rs - inter_of li)%Z.
  Proof.
    intros Hj. cbv zeta. unfold rrf, inter_of. destruct Hadm as (H1 & H2 & [[-> ->]|[H3 H4]]).
    - cbn [Z.eqb]. destruct (Z.eqb_spec j 0); destruct (Z.ltb_spec j (rs - 0)); lia.
    - assert ((li =? 0) = false)%Z as E1 by (apply Z.eqb_neq; lia). rewrite E1.
      destruct (Z.eqb_spec j 0); destruct (Z.ltb_spec j (rs - ri)); destruct (Z.eqb_spec j (rs - ri)); lia.
  Qed.

  Lemma rrf_cover x : (x = 0 \/ x = li \/ ls <= x < ls + rs - inter_of li)%Z ->
    exists j, (0 <= j < rs)%Z /\ rrf ls li rs ri j = x.
  Proof.
    unfold inter_of, rrf. destruct Hadm as (H1 & H2 & [[-> ->]|[H3 H4]]).
    - cbn [Z.eqb]. intros [->|[->|Hx]]; [exists 0%Z; split; [lia|reflexivity]|exists 0%Z; split; [lia|reflexivity]|].
      exists (x - ls + 1)%Z. split; [lia|].
      destruct (Z.eqb_spec (x - ls + 1) 0); destruct (Z.ltb_spec (x - ls + 1) (rs - 0)); lia.
    - assert ((li =? 0) = false)%Z as E1 by (apply Z.eqb_neq; lia). rewrite E1.
      intros [->|[->|Hx]].
      + exists 0%Z. split; [lia|reflexivity].
      + exists (rs - ri)%Z. split; [lia|].
        destruct (Z.eqb_spec (rs - ri) 0); destruct (Z.ltb_spec (rs - ri) (rs - ri)); destruct (Z.eqb_spec (rs - ri) (rs - ri)); lia.
      + destruct (Z.ltb_spec (x - ls + 1) (rs - ri)) as [Hlt|Hge].
        * exists (x - ls + 1)%Z. split; [lia|].
          destruct (Z.eqb_spec (x - ls + 1) 0); destruct (Z.ltb_spec (x - ls + 1) (rs - ri)); lia.
        * exists (x - ls + 2)%Z. split; [lia|].
          destruct (Z.eqb_spec (x - ls + 2) 0); destruct (Z.ltb_spec (x - ls + 2) (rs - ri));
            destruct (Z.eqb_spec (x - ls + 2) (rs - ri)); lia.
  Qed.
End Ring.

Example ex_right_ring : Admissible 6 2 5 3 /\ right_ring 6 2 5 3 = [0; 6; 2; 7; 8]%Z /\
  create_right_ring 6 2 5 3 9 = Ok [0; 6; 2; 7; 8]%Z /\
  map (rrf 6 2 5 3) [0; 1; 2; 3; 4]%Z = [0; 6; 2; 7; 8]%Z.
Proof. unfold Admissible. repeat split; try reflexivity; lia. Qed.

(* ====================================================================================== *)
(** * Part C: what hungarian_rings_permutations returns, for every step *)

Definition shifted_ring (ls li rs ri step : Z) : list Z := circular_shift (right_ring ls li rs ri) step.

Definition left_rotation (ls li rs step : Z) : list Z :=
  circular_shift (zrange 0 ls) step ++ zrange ls (ls + rs - inter_of li).

Definition right_rotation (ls li rs ri step : Z) : list Z :=
  let sh := shifted_ring ls li rs ri step in
  let t := tl sh in
  if (li =? 0)%Z then upd (zrange 0 ls ++ t) 0 (nth 0 sh 0%Z)
  else let k := Z.to_nat (rs - 1 - ri) in
       upd (upd (zrange 0 ls ++ (firstn k t ++ skipn (S k) t)) 0 (nth 0 sh 0%Z)) (Z.to_nat li) (nth k t 0%Z).

Section Perms.
  Variables ls li rs ri step : Z.
  Hypothesis Hadm : Admissible ls li rs ri.

  Lemma shifted_length : length (shifted_ring ls li rs ri step) = Z.to_nat rs.
  Proof. unfold shifted_ring. rewrite circular_shift_length. apply right_ring_length. exact Hadm. Qed.

  Lemma shifted_nth j : j < Z.to_nat rs ->
    nth j (shifted_ring ls li rs ri step) 0%Z = rrf ls li rs ri ((Z.of_nat j + step) mod rs).
  Proof.
    intros Hj. unfold shifted_ring. pose proof (right_ring_length ls li rs ri Hadm) as HL.
    destruct Hadm as (H1 & H2 & _).
    rewrite circular_shift_nth by (rewrite HL; exact Hj). rewrite HL.
    replace (Z.of_nat (Z.to_nat rs)) with rs by lia.
    assert (0 <= (Z.of_nat j + step) mod rs < rs)%Z as Hm by (apply Z.mod_pos_bound; lia).
    rewrite right_ring_nth by (try exact Hadm; lia). f_equal. lia.
  Qed.

  Lemma shifted_NoDup : NoDup (shifted_ring ls li rs ri step).
  Proof.
    eapply Permutation_NoDup; [apply Permutation_sym; apply circular_shift_Permutation|].
    apply right_ring_NoDup. exact Hadm.
  Qed.

  Theorem rings_perms_eq :
    hungarian_rings_permutations ls li rs ri step
    = Ok (left_rotation ls li rs step, right_rotation ls li rs ri step).
  Proof.
    pose proof shifted_length as HSL. pose proof shifted_NoDup as HSN.
    unfold hungarian_rings_permutations, right_rotation, left_rotation.
    assert (((li <? 0) || (ri <? 0))%Z = false) as C1.
    { destruct Hadm as (_ & _ & H). apply orb_false_iff. split; apply Z.ltb_ge; lia. }
    assert (((ls <=? li) || (rs <=? ri))%Z = false) as C2.
    { destruct Hadm as (H1 & H2 & H). apply orb_false_iff. split; apply Z.leb_gt; lia. }
    rewrite C1, C2, (get_intersections_eq ls li rs ri Hadm). cbn [bind].
    rewrite (create_right_ring_eq ls li rs ri Hadm). cbn [bind].
    fold (shifted_ring ls li rs ri step).
    destruct (shifted_ring ls li rs ri step) as [|a t] eqn:ES.
    { exfalso. cbn in HSL. destruct Hadm as (_ & Hrs & _). lia. }
    cbn [length] in HSL. apply NoDup_cons_iff in HSN as [_ HtN].
    rewrite py_nth_nonneg by (cbn [length]; lia). change (Z.to_nat 0) with 0. cbn [nth bind tl].
    rewrite py_remove_head. cbn [bind].
    unfold inter_of. destruct Hadm as (H1 & H2 & [[Eli Eri]|[H3 H4]]).
    - subst li ri. cbn [Z.eqb Pos.eqb]. cbn [bind].
      rewrite py_upd_nonneg by (rewrite app_length, zrange_length; lia). change (Z.to_nat 0) with 0.
      cbn [bind]. reflexivity.
    - assert ((li =? 0) = false)%Z as E1 by (apply Z.eqb_neq; lia). rewrite E1. cbn [Z.eqb Pos.eqb].
      rewrite py_nth_neg by lia. cbn [bind].
      assert (Z.to_nat (- ri + Z.of_nat (length t)) = Z.to_nat (rs - 1 - ri)) as Ek by lia. rewrite Ek.
      rewrite py_remove_nth by (try exact HtN; lia). cbn [bind].
      rewrite py_upd_nonneg
        by (rewrite !app_length, zrange_length, firstn_length, skipn_length; lia).
      change (Z.to_nat 0) with 0. cbn [bind].
      rewrite py_upd_nonneg
        by (rewrite upd_length, !app_length, zrange_length, firstn_length, skipn_length; lia).
      cbn [bind]. reflexivity.
  Qed.
End Perms.

Section RightSpec.
  Variables ls li rs ri step : Z.
  Hypothesis Hadm : Admissible ls li rs ri.

  Lemma right_rotation_length :
    length (right_rotation ls li rs ri step) = Z.to_nat (ls + rs - inter_of li).
  Proof.
    pose proof (shifted_length ls li rs ri step Hadm) as HSL.
    unfold right_rotation, inter_of. cbv zeta.
    destruct (shifted_ring ls li rs ri step) as [|a t] eqn:ES.
    { exfalso. cbn in HSL. destruct Hadm as (_ & Hrs & _). lia. }
    cbn [length tl] in *. destruct Hadm as (H1 & H2 & [[Eli Eri]|[H3 H4]]).
    - subst li ri. cbn [Z.eqb]. rewrite upd_length, app_length, zrange_length. lia.
    - assert ((li =? 0) = false)%Z as E1 by (apply Z.eqb_neq; lia). rewrite E1.
      rewrite !upd_length, !app_length, zrange_length, firstn_length, skipn_length. lia.
  Qed.

  (* the point that is element number j of the right ring receives element number j of the shifted ring *)
  Lemma right_rotation_ring j : j < Z.to_nat rs ->
    nth (Z.to_nat (rrf ls li rs ri (Z.of_nat j))) (right_rotation ls li rs ri step) 0%Z
    = nth j (shifted_ring ls li rs ri step) 0%Z.
  Proof.
    intros Hj. pose proof (shifted_length ls li rs ri step Hadm) as HSL.
    unfold right_rotation, rrf. cbv zeta.
    destruct (shifted_ring ls li rs ri step) as [|a t] eqn:ES.
    { exfalso. cbn in HSL. destruct Hadm as (_ & Hrs & _). lia. }
    cbn [length tl] in *. destruct Hadm as (H1 & H2 & [[Eli Eri]|[H3 H4]]).
    - subst li ri. cbn [Z.eqb].
      destruct (Z.eqb_spec (Z.of_nat j) 0) as [E0|N0].
      + assert (j = 0) as -> by lia. change (Z.to_nat 0) with 0.
        rewrite nth_upd_same by (rewrite app_length, zrange_length; lia). reflexivity.
      + destruct (Z.ltb_spec (Z.of_nat j) (rs - 0)) as [_|Hge]; [|lia].
        rewrite nth_upd_other by lia.
        rewrite app_nth2 by (rewrite zrange_length; lia). rewrite zrange_length.
        destruct j as [|j']; [lia|]. cbn [nth]. f_equal. lia.
    - assert ((li =? 0) = false)%Z as E1 by (apply Z.eqb_neq; lia). rewrite E1.
      set (k := Z.to_nat (rs - 1 - ri)).
      assert (length (firstn k t) = k) as HFk by (rewrite firstn_length; lia).
      destruct (Z.eqb_spec (Z.of_nat j) 0) as [E0|N0].
      + assert (j = 0) as -> by lia. change (Z.to_nat 0) with 0.
        rewrite nth_upd_other by lia.
        rewrite nth_upd_same by (rewrite !app_length, zrange_length; lia). reflexivity.
      + destruct j as [|j']; [lia|]. cbn [nth].
        destruct (Z.ltb_spec (Z.of_nat (S j')) (rs - ri)) as [Hlt|Hge].
        * rewrite !nth_upd_other by lia.
          rewrite app_nth2 by (rewrite zrange_length; lia). rewrite zrange_length.
          rewrite app_nth1 by (rewrite HFk; lia).
          rewrite nth_firstn_lt by lia. f_equal. lia.
        * destruct (Z.eqb_spec (Z.of_nat (S j')) (rs - ri)) as [E|NE].
          -- rewrite nth_upd_same
               by (rewrite upd_length, !app_length, zrange_length, HFk, skipn_length; lia).
             f_equal. lia.
          -- rewrite !nth_upd_other by lia.
             rewrite app_nth2 by (rewrite zrange_length; lia). rewrite zrange_length.
             rewrite app_nth2 by (rewrite HFk; lia). rewrite HFk.
             rewrite nth_skipn_add. f_equal. lia.
  Qed.

  (* every point of the left ring other than the intersection points stays in place *)
  Lemma right_rotation_fixed x : (0 < x < ls)%Z -> x <> li ->
    nth (Z.to_nat x) (right_rotation ls li rs ri step) 0%Z = x.
  Proof.
    intros Hx Hne. pose proof (shifted_length ls li rs ri step Hadm) as HSL.
    unfold right_rotation. cbv zeta.
    destruct (Z.eqb_spec li 0) as [E0|N0].
    - rewrite nth_upd_other by lia. rewrite app_nth1 by (rewrite zrange_length; lia).
      rewrite zrange_nth by lia. lia.
    - rewrite !nth_upd_other by (destruct Hadm as (_ & _ & H); lia).
      rewrite app_nth1 by (rewrite zrange_length; lia). rewrite zrange_nth by lia. lia.
  Qed.
End RightSpec.

(** for EVERY step: the function returns; the right rotation sends ring element number j to ring element
    number (j + step) mod rs and fixes every other point (closed-form style of [rings_left_rotation_general]) *)
Theorem rings_right_rotation_general ls li rs ri step : Admissible ls li rs ri ->
  exists lz rz, hungarian_rings_permutations ls li rs ri step = Ok (lz, rz) /\
    length rz = Z.to_nat (ls + rs - inter_of li) /\
    (forall j, (0 <= j < rs)%Z ->
       nth (Z.to_nat (rrf ls li rs ri j)) rz 0%Z = rrf ls li rs ri ((j + step) mod rs)) /\
    (forall x, (0 < x < ls)%Z -> x <> li -> nth (Z.to_nat x) rz 0%Z = x).
Proof.
  intros Hadm. exists (left_rotation ls li rs step), (right_rotation ls li rs ri step).
  split; [apply rings_perms_eq; exact Hadm|]. split; [apply right_rotation_length; exact Hadm|]. split.
  - intros j Hj. replace j with (Z.of_nat (Z.to_nat j)) at 1 by lia.
    rewrite right_rotation_ring by (try exact Hadm; lia). rewrite shifted_nth by (try exact Hadm; lia).
    f_equal. f_equal. lia.
  - intros x Hx Hne. apply right_rotation_fixed; assumption.
Qed.

(* ====================================================================================== *)
(** * Part D: the permutations on nat; RingsPermsStructure *)

Definition ring_cycle (ls li rs ri : Z) : list nat := map Z.to_nat (right_ring ls li rs ri).
Definition Rn (ls li rs ri step : Z) : list nat := map Z.to_nat (right_rotation ls li rs ri step).
Definition Ln (ls li rs step : Z) : list nat := map Z.to_nat (left_rotation ls li rs step).

Section NatLevel.
  Variables ls li rs ri : Z.
  Hypothesis Hadm : Admissible ls li rs ri.

  Let a := Z.to_nat ls.
  Let m := Z.to_nat rs.
  Let N := Z.to_nat (ls + rs - inter_of li).
  Let C := ring_cycle ls li rs ri.

  Lemma ring_points_eq : ring_points ls li rs ri = N.
  Proof.
    unfold ring_points, inter_count, N, inter_of. destruct Hadm as (H1 & H2 & [[-> ->]|[H3 H4]]).
    - cbn [Z.eqb andb]. lia.
    - assert ((li =? 0) = false)%Z as E1 by (apply Z.eqb_neq; lia). rewrite E1. cbn [andb]. lia.
  Qed.

  Lemma a_le_N : 2 <= a /\ 2 <= m /\ a <= N /\ Z.to_nat li < a /\ N = a + m - Z.to_nat (inter_of li).
  Proof.
    unfold a, m, N, inter_of. destruct Hadm as (H1 & H2 & [[-> ->]|[H3 H4]]).
    - cbn [Z.eqb]. lia.
    - assert ((li =? 0) = false)%Z as E1 by (apply Z.eqb_neq; lia). rewrite E1. lia.
  Qed.

  Lemma C_length : length C = m.
  Proof. unfold C, ring_cycle. rewrite map_length. apply right_ring_length. exact Hadm. Qed.

  Lemma C_nth j : j < m -> nth j C 0 = Z.to_nat (rrf ls li rs ri (Z.of_nat j)).
  Proof.
    intros Hj. unfold C, ring_cycle. rewrite (nth_map_lt _ _ _ 0%Z 0) by (rewrite right_ring_length; assumption).
    rewrite right_ring_nth by assumption. reflexivity.
  Qed.

  Lemma rrf_nonneg j : (0 <= j < rs)%Z -> (0 <= rrf ls li rs ri j)%Z.
  Proof.
    intros Hj. pose proof (rrf_range ls li rs ri Hadm j Hj) as H. cbv zeta in H.
    destruct Hadm as (H1 & H2 & H3). lia.
  Qed.

  Lemma C_NoDup : NoDup C.
  Proof.
    apply (proj2 (NoDup_nth C 0)). rewrite C_length. intros i j Hi Hj E.
    rewrite !C_nth in E by assumption.
    apply Z2Nat.inj in E; try (apply rrf_nonneg; unfold m in *; lia).
    apply (rrf_inj ls li rs ri Hadm) in E; unfold m in *; lia.
  Qed.

  Lemma In_C x : In x C <-> (x = 0 \/ x = Z.to_nat li \/ a <= x < N).
  Proof.
    split.
    - intros Hin. apply (In_nth _ _ 0) in Hin as (j & Hj & <-). rewrite C_length in Hj. rewrite C_nth by exact Hj.
      pose proof (rrf_range ls li rs ri Hadm (Z.of_nat j)) as H. cbv zeta in H.
      unfold a, N, m in *. destruct Hadm as (H1 & H2 & H3). lia.
    - intros Hx.
      destruct (rrf_cover ls li rs ri Hadm (Z.of_nat x)) as (j & Hj & E).
      { unfold a, N in *. destruct Hadm as (H1 & H2 & H3). lia. }
      assert (x = nth (Z.to_nat j) C 0) as ->.
      { rewrite C_nth by (unfold m; lia). replace (Z.of_nat (Z.to_nat j)) with j by lia. rewrite E. lia. }
      apply nth_In. rewrite C_length. unfold m. lia.
  Qed.

  Lemma C_lt x : In x C -> x < N.
  Proof. intros H. apply In_C in H. pose proof a_le_N. lia. Qed.

  (** ** the right rotation *)
  Lemma Rn_length step : length (Rn ls li rs ri step) = N.
  Proof. unfold Rn. rewrite map_length. apply right_rotation_length. exact Hadm. Qed.

  Lemma Rn_ring step j : j < m ->
    pstep (Rn ls li rs ri step) (nth j C 0) = Z.to_nat (rrf ls li rs ri ((Z.of_nat j + step) mod rs)).
  Proof.
    intros Hj. unfold Rn. rewrite pstep_map_to_nat, C_nth by exact Hj.
    rewrite right_rotation_ring by assumption. rewrite shifted_nth by assumption. reflexivity.
  Qed.

  Lemma Rn_step j : j < m -> pstep (Rn ls li rs ri 1) (nth j C 0) = nth ((j + 1) mod m) C 0.
  Proof.
    intros Hj. rewrite Rn_ring by exact Hj.
    assert ((j + 1) mod m < m) as Hm by (apply Nat.mod_upper_bound; lia).
    rewrite C_nth by exact Hm. f_equal. f_equal.
    rewrite Nat2Z.inj_mod. unfold m. f_equal; lia.
  Qed.

  Lemma Rn_back j : j < m -> pstep (Rn ls li rs ri (-1)) (nth ((j + 1) mod m) C 0) = nth j C 0.
  Proof.
    intros Hj.
    assert ((j + 1) mod m < m) as Hm by (apply Nat.mod_upper_bound; lia).
    rewrite Rn_ring by exact Hm. rewrite C_nth by exact Hj. f_equal. f_equal.
    rewrite Nat2Z.inj_mod. replace (Z.of_nat m) with rs by (unfold m in *; lia).
    rewrite Zplus_mod_idemp_l. replace (Z.of_nat (j + 1) + -1)%Z with (Z.of_nat j) by lia.
    apply Z.mod_small. unfold m in *. lia.
  Qed.

  Lemma Rn_fix step x : x < N -> ~ In x C -> pstep (Rn ls li rs ri step) x = x.
  Proof.
    intros Hx Hout. rewrite In_C in Hout. unfold Rn. rewrite pstep_map_to_nat.
    replace x with (Z.to_nat (Z.of_nat x)) at 1 by lia.
    rewrite right_rotation_fixed; try exact Hadm; unfold a in *; lia.
  Qed.

  (** ** the left rotation *)
  Lemma Ln_facts step :
    length (Ln ls li rs step) = N /\
    (forall i, i < a -> pstep (Ln ls li rs step) i = Z.to_nat ((Z.of_nat i + step) mod ls)) /\
    (forall i, a <= i < N -> pstep (Ln ls li rs step) i = i) /\
    (forall i, i < N -> (0 <= nth i (left_rotation ls li rs step) 0)%Z).
  Proof.
    destruct (rings_left_rotation_general _ _ _ _ _ _ _ (rings_perms_eq ls li rs ri step Hadm))
      as (inter & Hinter & _ & _ & _ & _ & HL & Hrot & Hfix).
    rewrite (get_intersections_eq ls li rs ri Hadm) in Hinter. inversion Hinter as [Ei]. subst inter.
    pose proof a_le_N as HaN. destruct Hadm as (H1 & H2 & _).
    split; [unfold Ln; rewrite map_length; exact HL|]. split; [|split].
    - intros i Hi. unfold Ln. rewrite pstep_map_to_nat. specialize (Hrot (Z.of_nat i)). rewrite Nat2Z.id in Hrot.
      rewrite Hrot by (unfold a in *; lia). reflexivity.
    - intros i Hi. unfold Ln. rewrite pstep_map_to_nat. specialize (Hfix (Z.of_nat i)). rewrite Nat2Z.id in Hfix.
      rewrite Hfix by (unfold a, N in *; lia). lia.
    - intros i Hi. destruct (Nat.lt_ge_cases i a) as [Hlt|Hge].
      + specialize (Hrot (Z.of_nat i)). rewrite Nat2Z.id in Hrot. rewrite Hrot by (unfold a in *; lia).
        apply Z.mod_pos_bound. lia.
      + specialize (Hfix (Z.of_nat i)). rewrite Nat2Z.id in Hfix. rewrite Hfix by (unfold a, N in *; lia). lia.
  Qed.

  Lemma Ln_step j : j < a -> pstep (Ln ls li rs 1) (nth j (seq 0 a) 0) = nth ((j + 1) mod a) (seq 0 a) 0.
  Proof.
    intros Hj. pose proof a_le_N as HaN. destruct (Ln_facts 1) as (_ & H & _).
    assert ((j + 1) mod a < a) as Hm by (apply Nat.mod_upper_bound; lia).
    rewrite !seq_nth by assumption. cbn [Nat.add]. rewrite H by exact Hj.
    rewrite <- (Nat2Z.id ((j + 1) mod a)). f_equal. rewrite Nat2Z.inj_mod. unfold a. f_equal; lia.
  Qed.

  Lemma Ln_back j : j < a -> pstep (Ln ls li rs (-1)) (nth ((j + 1) mod a) (seq 0 a) 0) = nth j (seq 0 a) 0.
  Proof.
    intros Hj. pose proof a_le_N as HaN. destruct (Ln_facts (-1)) as (_ & H & _).
    assert ((j + 1) mod a < a) as Hm by (apply Nat.mod_upper_bound; lia).
    rewrite !seq_nth by assumption. cbn [Nat.add]. rewrite H by exact Hm.
    rewrite <- (Nat2Z.id j) at 2. f_equal.
    rewrite Nat2Z.inj_mod. replace (Z.of_nat a) with ls by (unfold a in *; lia).
    rewrite Zplus_mod_idemp_l. replace (Z.of_nat (j + 1) + -1)%Z with (Z.of_nat j) by lia.
    apply Z.mod_small. unfold a in *. lia.
  Qed.

  Lemma Ln_fix step x : x < N -> ~ In x (seq 0 a) -> pstep (Ln ls li rs step) x = x.
  Proof.
    intros Hx Hout. rewrite in_seq in Hout. destruct (Ln_facts step) as (_ & _ & H & _). apply H. lia.
  Qed.
End NatLevel.

Section Bundle.
  Variables ls li rs ri : Z.
  Hypothesis Hadm : Admissible ls li rs ri.

  Lemma right_rotation_nonneg step i : i < Z.to_nat (ls + rs - inter_of li) ->
    (0 <= nth i (right_rotation ls li rs ri step) 0)%Z.
  Proof.
    intros Hi. destruct (in_dec Nat.eq_dec i (ring_cycle ls li rs ri)) as [Hin|Hout].
    - apply (In_nth _ _ 0) in Hin as (j & Hj & <-). rewrite (C_length ls li rs ri Hadm) in Hj.
      rewrite (C_nth ls li rs ri Hadm) by exact Hj. rewrite right_rotation_ring by assumption.
      rewrite shifted_nth by assumption. apply rrf_nonneg; [exact Hadm|].
      apply Z.mod_pos_bound. destruct Hadm as (_ & Hrs & _). lia.
    - rewrite (In_C ls li rs ri Hadm) in Hout. replace i with (Z.to_nat (Z.of_nat i)) by lia.
      rewrite right_rotation_fixed; try exact Hadm; lia.
  Qed.

  Lemma Rn_roundtrip step : map Z.of_nat (Rn ls li rs ri step) = right_rotation ls li rs ri step.
  Proof.
    unfold Rn. apply map_of_nat_to_nat. rewrite (right_rotation_length ls li rs ri step Hadm).
    apply right_rotation_nonneg.
  Qed.

  Lemma Ln_roundtrip step : map Z.of_nat (Ln ls li rs step) = left_rotation ls li rs step.
  Proof.
    unfold Ln. apply map_of_nat_to_nat. destruct (Ln_facts ls li rs ri Hadm step) as (HL & _ & _ & Hnn).
    unfold Ln in HL. rewrite map_length in HL. rewrite HL. exact Hnn.
  Qed.

  (* everything the cycle lemmas of PuzzlesGeneralCommon give for the two rotations *)
  Lemma rings_bundle :
    let N := Z.to_nat (ls + rs - inter_of li) in
    let a := Z.to_nat ls in let m := Z.to_nat rs in
    let L := Ln ls li rs 1 in let L' := Ln ls li rs (-1) in
    let R := Rn ls li rs ri 1 in let R' := Rn ls li rs ri (-1) in
    let C := ring_cycle ls li rs ri in
    (length L = N /\ length L' = N /\ length R = N /\ length R' = N) /\
    (Perm L /\ Perm R /\ Perm L' /\ Perm R') /\
    (SingleCycle L a /\ SingleCycle R m) /\
    ((forall x, Moved L x <-> x < a) /\ (forall x, Moved R x <-> In x C)) /\
    (inverse_perm L = L' /\ inverse_perm R = R') /\
    ((L = L' <-> a = 2) /\ (R = R' <-> m = 2)) /\
    (forall k j, j < a -> piter L k j = (j + k) mod a) /\
    (forall k j, j < m -> piter R k (nth j C 0) = nth ((j + k) mod m) C 0).
  Proof.
    cbv zeta.
    pose proof (a_le_N ls li rs ri Hadm) as (Ha2 & Hm2 & HaN & Hli & HN).
    pose proof (Ln_facts ls li rs ri Hadm 1) as (HL1 & _).
    pose proof (Ln_facts ls li rs ri Hadm (-1)) as (HL2 & _).
    pose proof (Rn_length ls li rs ri Hadm 1) as HR1.
    pose proof (Rn_length ls li rs ri Hadm (-1)) as HR2.
    pose proof (C_length ls li rs ri Hadm) as HCl.
    pose proof (C_NoDup ls li rs ri Hadm) as HCn.
    pose proof (C_lt ls li rs ri Hadm) as HClt.
    pose proof (Rn_step ls li rs ri Hadm) as HRs.
    pose proof (Rn_back ls li rs ri Hadm) as HRb.
    pose proof (Rn_fix ls li rs ri Hadm) as HRf.
    pose proof (Ln_step ls li rs ri Hadm) as HLs.
    pose proof (Ln_back ls li rs ri Hadm) as HLb.
    pose proof (Ln_fix ls li rs ri Hadm) as HLf.
    set (N := Z.to_nat (ls + rs - inter_of li)) in *. set (a := Z.to_nat ls) in *. set (m := Z.to_nat rs) in *.
    assert (forall x, In x (seq 0 a) -> x < N) as HSlt by (intros x Hx; apply in_seq in Hx; lia).
    pose proof (seq_length a 0) as HSl. pose proof (seq_NoDup a 0) as HSn.
    assert (Perm (Ln ls li rs 1)) as PL
      by (apply (cycle_spec_Perm _ (seq 0 a) N a); auto).
    assert (Perm (Rn ls li rs ri 1)) as PR
      by (apply (cycle_spec_Perm _ (ring_cycle ls li rs ri) N m); auto).
    assert (inverse_perm (Ln ls li rs 1) = Ln ls li rs (-1)) as IL
      by (apply (cycle_spec_inverse _ (seq 0 a) N a); auto).
    assert (inverse_perm (Rn ls li rs ri 1) = Rn ls li rs ri (-1)) as IR
      by (apply (cycle_spec_inverse _ (ring_cycle ls li rs ri) N m); auto).
    split; [auto|]. split.
    { split; [exact PL|]. split; [exact PR|]. split; [rewrite <- IL|rewrite <- IR]; apply inverse_is_perm; assumption. }
    split.
    { split; [apply (cycle_spec_SingleCycle _ (seq 0 a) N a)|apply (cycle_spec_SingleCycle _ (ring_cycle ls li rs ri) N m)]; auto. }
    split.
    { split.
      - intros x. rewrite (cycle_spec_Moved _ (seq 0 a) N a) by auto. rewrite in_seq. lia.
      - intros x. apply (cycle_spec_Moved _ (ring_cycle ls li rs ri) N m); auto. }
    split; [auto|]. split.
    { split; [apply (cycle_spec_self_inverse _ (seq 0 a) N a)|apply (cycle_spec_self_inverse _ (ring_cycle ls li rs ri) N m)]; auto. }
    split.
    - intros k j Hj.
      pose proof (cycle_spec_piter (Ln ls li rs 1) (seq 0 a) N a HL1 HSl Ha2 HLs k j Hj) as H.
      rewrite seq_nth in H by exact Hj. rewrite seq_nth in H by (apply Nat.mod_upper_bound; lia). exact H.
    - intros k j Hj. apply (cycle_spec_piter _ _ N m); auto.
  Qed.
End Bundle.

(** RingsPermsStructure of PuzzlesProofs.v (there: sizes up to 12, by computation) for ALL admissible parameters *)
Theorem rings_perms_structure_general ls li rs ri : Admissible ls li rs ri -> RingsPermsStructure ls li rs ri.
Proof.
  intros Hadm. destruct (rings_bundle ls li rs ri Hadm)
    as ((HL1 & HL2 & HR1 & HR2) & (PL & PR & _ & _) & (SL & SR) & (ML & MR) & (IL & IR) & _ & PiL & PiR).
  pose proof (a_le_N ls li rs ri Hadm) as (Ha2 & Hm2 & HaN & Hli & HN).
  pose proof (ring_points_eq ls li rs ri Hadm) as HRP.
  exists (Ln ls li rs 1), (Rn ls li rs ri 1).
  split. { rewrite rings_perms_eq by exact Hadm. rewrite (Ln_roundtrip ls li rs ri Hadm), Rn_roundtrip by exact Hadm. reflexivity. }
  split. { rewrite rings_perms_eq by exact Hadm. rewrite IL, IR. rewrite (Ln_roundtrip ls li rs ri Hadm), Rn_roundtrip by exact Hadm. reflexivity. }
  split; [rewrite HRP; exact HL1|]. split; [rewrite HRP; exact HR1|].
  split; [exact PL|]. split; [exact PR|]. split; [exact SL|]. split; [exact ML|]. split; [exact SR|].
  split.
  { intros x. rewrite ML, MR, (In_C ls li rs ri Hadm). lia. }
  split.
  - left. split.
    + rewrite PiL by lia. cbn [Nat.add]. apply Nat.mod_small. exact Hli.
    + intros j Hj. rewrite PiL by lia. cbn [Nat.add]. rewrite Nat.mod_small by lia. lia.
  - destruct Hadm as (H1 & H2 & [[Eli Eri]|[H3 H4]]).
    + left. subst li ri. split; [reflexivity|]. intros j Hj. cbn in Hj. lia.
    + right.
      assert (Admissible ls li rs ri) as Hadm by (unfold Admissible; lia).
      assert (nth 0 (ring_cycle ls li rs ri) 0 = 0) as E0.
      { rewrite (C_nth ls li rs ri Hadm) by lia. reflexivity. }
      assert (nth (Z.to_nat (rs - ri)) (ring_cycle ls li rs ri) 0 = Z.to_nat li) as Eli.
      { rewrite (C_nth ls li rs ri Hadm) by lia. f_equal. unfold rrf.
        destruct (Z.eqb_spec (Z.of_nat (Z.to_nat (rs - ri))) 0); [lia|].
        destruct (Z.ltb_spec (Z.of_nat (Z.to_nat (rs - ri))) (rs - ri)); [lia|].
        destruct (Z.eqb_spec (Z.of_nat (Z.to_nat (rs - ri))) (rs - ri)); [reflexivity|lia]. }
      rewrite <- Eli. split.
      * rewrite PiR by lia. replace (Z.to_nat (rs - ri) + Z.to_nat ri) with (Z.to_nat rs) by lia.
        rewrite Nat.mod_same by lia. exact E0.
      * intros j Hj. rewrite PiR by lia. rewrite Nat.mod_small by lia. rewrite <- E0 at 2.
        intros E. apply (proj1 (NoDup_nth _ 0) (C_NoDup ls li rs ri Hadm)) in E;
          rewrite ?(C_length ls li rs ri Hadm); lia.
Qed.

(* ====================================================================================== *)
(** * Part E: generators and the puzzle constructor *)

Definition rings_rest (ls li rs ri : Z) : list (list Z) :=
  (if (ls =? 2)%Z then [] else [left_rotation ls li rs (-1)]) ++
  (if (rs =? 2)%Z then [] else [right_rotation ls li rs ri (-1)]).

Definition rings_names (ls rs : Z) : list string :=
  ["L"; "R"]%string ++ (if (ls =? 2)%Z then [] else ["-L"%string]) ++ (if (rs =? 2)%Z then [] else ["-R"%string]).

Section Gens.
  Variables ls li rs ri : Z.
  Hypothesis Hadm : Admissible ls li rs ri.

  Lemma left_back_eqb :
    z_list_eqb (left_rotation ls li rs 1) (left_rotation ls li rs (-1)) = (ls =? 2)%Z.
  Proof.
    destruct (rings_bundle ls li rs ri Hadm) as (_ & _ & _ & _ & _ & (EL & _) & _).
    apply eq_true_iff_eq. rewrite z_list_eqb_eq, Z.eqb_eq.
    destruct Hadm as (H1 & _). split.
    - intros E. assert (Ln ls li rs 1 = Ln ls li rs (-1)) as E' by (unfold Ln; rewrite E; reflexivity).
      apply EL in E'. lia.
    - intros E. assert (Z.to_nat ls = 2) as E2 by lia. apply EL in E2.
      rewrite <- (Ln_roundtrip ls li rs ri Hadm 1), <- (Ln_roundtrip ls li rs ri Hadm (-1)), E2. reflexivity.
  Qed.

  Lemma right_back_eqb :
    z_list_eqb (right_rotation ls li rs ri 1) (right_rotation ls li rs ri (-1)) = (rs =? 2)%Z.
  Proof.
    destruct (rings_bundle ls li rs ri Hadm) as (_ & _ & _ & _ & _ & (_ & ER) & _).
    apply eq_true_iff_eq. rewrite z_list_eqb_eq, Z.eqb_eq.
    destruct Hadm as (_ & H2 & _). split.
    - intros E. assert (Rn ls li rs ri 1 = Rn ls li rs ri (-1)) as E' by (unfold Rn; rewrite E; reflexivity).
      apply ER in E'. lia.
    - intros E. assert (Z.to_nat rs = 2) as E2 by lia. apply ER in E2.
      rewrite <- (Rn_roundtrip ls li rs ri Hadm 1), <- (Rn_roundtrip ls li rs ri Hadm (-1)), E2. reflexivity.
  Qed.

  (** hungarian_rings_generators in closed form: "-L" is listed unless ls = 2, "-R" unless rs = 2 *)
  Theorem rings_generators_eq :
    hungarian_rings_generators ls li rs ri
    = Ok (left_rotation ls li rs 1 :: right_rotation ls li rs ri 1 :: rings_rest ls li rs ri, rings_names ls rs).
  Proof.
    unfold hungarian_rings_generators.
    assert (((ls <=? 1) || (rs <=? 1))%Z = false) as C.
    { destruct Hadm as (H1 & H2 & _). apply orb_false_iff. split; apply Z.leb_gt; lia. }
    rewrite C, !rings_perms_eq by exact Hadm. cbn [bind]. cbv beta iota.
    rewrite left_back_eqb, right_back_eqb. unfold rings_rest, rings_names.
    destruct (ls =? 2)%Z; destruct (rs =? 2)%Z; reflexivity.
  Qed.

  Let G' : list (list nat) :=
    Ln ls li rs 1 :: Rn ls li rs ri 1 ::
      (if (ls =? 2)%Z then [] else [Ln ls li rs (-1)]) ++ (if (rs =? 2)%Z then [] else [Rn ls li rs ri (-1)]).

  Lemma rings_gens_nat :
    map (map Z.to_nat) (left_rotation ls li rs 1 :: right_rotation ls li rs ri 1 :: rings_rest ls li rs ri) = G'.
  Proof. unfold G', rings_rest, Ln, Rn. destruct (ls =? 2)%Z; destruct (rs =? 2)%Z; reflexivity. Qed.

  Lemma G'_facts :
    length G' = ring_gen_count ls rs /\
    (forall g, In g G' -> length g = ring_points ls li rs ri /\ Perm g) /\ InverseClosed G'.
  Proof.
    destruct (rings_bundle ls li rs ri Hadm)
      as ((HL1 & HL2 & HR1 & HR2) & (PL & PR & PL' & PR') & _ & _ & (IL & IR) & (EL & ER) & _).
    rewrite (ring_points_eq ls li rs ri Hadm).
    assert (In (Ln ls li rs (-1)) G' /\ In (Rn ls li rs ri (-1)) G') as [InL' InR'].
    { unfold G'. destruct Hadm as (H1 & H2 & _). split.
      - destruct (Z.eqb_spec ls 2) as [E|NE].
        + assert (Z.to_nat ls = 2) as E2 by lia. apply EL in E2. rewrite <- E2. left; reflexivity.
        + right; right. apply in_or_app. left. left; reflexivity.
      - destruct (Z.eqb_spec rs 2) as [E|NE].
        + assert (Z.to_nat rs = 2) as E2 by lia. apply ER in E2. rewrite <- E2. right; left; reflexivity.
        + right; right. apply in_or_app. right. left; reflexivity. }
    assert (forall g, In g G' ->
              g = Ln ls li rs 1 \/ g = Rn ls li rs ri 1 \/ g = Ln ls li rs (-1) \/ g = Rn ls li rs ri (-1)) as Hcases.
    { unfold G'. intros g [<-|[<-|Hg]]; [auto|auto|]. apply in_app_or in Hg as [Hg|Hg].
      - destruct (ls =? 2)%Z; [destruct Hg|]. destruct Hg as [<-|[]]. auto.
      - destruct (rs =? 2)%Z; [destruct Hg|]. destruct Hg as [<-|[]]. auto. }
    split; [|split].
    - unfold G', ring_gen_count. cbn [length]. rewrite app_length.
      destruct (ls =? 2)%Z; destruct (rs =? 2)%Z; reflexivity.
    - intros g Hg. destruct (Hcases g Hg) as [->|[->|[-> | ->]]]; auto.
    - intros g Hg. destruct (Hcases g Hg) as [->|[->|[-> | ->]]].
      + rewrite IL. exact InL'.
      + rewrite IR. exact InR'.
      + rewrite <- IL, inverse_involutive by exact PL. left; reflexivity.
      + rewrite <- IR, inverse_involutive by exact PR. right; left; reflexivity.
  Qed.

  Theorem rings_gens_structure_general : RingsGensStructure ls li rs ri.
  Proof.
    destruct G'_facts as (_ & HP & HI).
    exists (left_rotation ls li rs 1), (right_rotation ls li rs ri 1), (rings_rest ls li rs ri), (rings_names ls rs).
    split; [apply rings_perms_eq; exact Hadm|]. split; [apply rings_generators_eq|]. split.
    { unfold rings_rest, rings_names. destruct (ls =? 2)%Z; destruct (rs =? 2)%Z; reflexivity. }
    split.
    { intros g Hg.
      assert (g = left_rotation ls li rs 1 \/ g = right_rotation ls li rs ri 1 \/
              g = left_rotation ls li rs (-1) \/ g = right_rotation ls li rs ri (-1)) as Hc.
      { destruct Hg as [<-|[<-|Hg]]; [auto|auto|]. unfold rings_rest in Hg. apply in_app_or in Hg as [Hg|Hg].
        - destruct (ls =? 2)%Z; [destruct Hg|]. destruct Hg as [<-|[]]. auto.
        - destruct (rs =? 2)%Z; [destruct Hg|]. destruct Hg as [<-|[]]. auto. }
      destruct Hc as [->|[->|[-> | ->]]].
      - apply (Ln_roundtrip ls li rs ri Hadm).
      - apply (Rn_roundtrip ls li rs ri Hadm).
      - apply (Ln_roundtrip ls li rs ri Hadm).
      - apply (Rn_roundtrip ls li rs ri Hadm). }
    rewrite rings_gens_nat. split; assumption.
  Qed.

  (** Puzzles.hungarian_rings (which additionally asserts 2 li <= ls and 2 ri <= rs) *)
  Theorem rings_puzzle_structure_general : (2 * li <= ls)%Z -> (2 * ri <= rs)%Z -> RingsPuzzleStructure ls li rs ri.
  Proof.
    intros A1 A2. destruct G'_facts as (HC & HP & HI).
    pose proof (ring_points_eq ls li rs ri Hadm) as HRP.
    pose proof (a_le_N ls li rs ri Hadm) as (Ha2 & Hm2 & HaN & Hli & HN).
    exists (left_rotation ls li rs 1 :: right_rotation ls li rs ri 1 :: rings_rest ls li rs ri), (rings_names ls rs).
    split; [apply rings_generators_eq|].
    unfold hungarian_rings.
    assert ((2 * li <=? ls)%Z = true) as B1 by (apply Z.leb_le; exact A1).
    assert ((2 * ri <=? rs)%Z = true) as B2 by (apply Z.leb_le; exact A2).
    rewrite B1, B2, rings_generators_eq. cbn [negb bind]. cbv beta iota zeta.
    rewrite rings_gens_nat.
    assert (length (nth 0 G' []) = ring_points ls li rs ri) as En.
    { unfold G'. cbn [nth]. apply (HP (Ln ls li rs 1)). left; reflexivity. }
    rewrite En.
    assert (length (rings_names ls rs) = length G') as Enames.
    { unfold rings_names, G'. cbn [length app]. rewrite app_length.
      destruct (ls =? 2)%Z; destruct (rs =? 2)%Z; reflexivity. }
    erewrite (create_def_ok (ring_points ls li rs ri)); try assumption.
    - eexists. split; [reflexivity|]. cbn [pz_gens]. split; [reflexivity|].
      eexists. split; [reflexivity|]. cbn [pz_gens]. auto.
    - unfold G'. discriminate.
    - apply seq_length.
    - intros v Hv. apply in_seq in Hv. lia.
    - lia.
  Qed.
End Gens.

(** RingsStructure of PuzzlesProofs.v ([rings_structure_2_12]: sizes 2..12 by computation), with NO bound on the sizes *)
Theorem rings_structure_general ls li rs ri :
  (2 <= ls)%Z -> (2 <= rs)%Z -> ((li = 0 /\ ri = 0) \/ (1 <= li < ls /\ 1 <= ri < rs))%Z ->
  RingsStructure ls li rs ri.
Proof.
  intros H1 H2 H3. assert (Admissible ls li rs ri) as Hadm by (unfold Admissible; auto).
  split; [apply rings_perms_structure_general; exact Hadm|].
  split; [apply rings_gens_structure_general; exact Hadm|].
  intros A1 A2. apply rings_puzzle_structure_general; assumption.
Qed.

(** every other index pair is rejected with ValueError, whatever the sizes and the step: together with
    [rings_structure_general] this describes the model on its whole domain ls, rs >= 2 *)
Theorem rings_perms_rejects ls li rs ri step :
  ~ ((li = 0 /\ ri = 0) \/ (1 <= li < ls /\ 1 <= ri < rs))%Z ->
  hungarian_rings_permutations ls li rs ri step = Err ValueErr.
Proof.
  intros Hn. unfold hungarian_rings_permutations.
  destruct ((li <? 0) || (ri <? 0))%Z eqn:C1; [reflexivity|].
  destruct ((ls <=? li) || (rs <=? ri))%Z eqn:C2; [reflexivity|].
  apply orb_false_iff in C1 as [C1a C1b]. apply orb_false_iff in C2 as [C2a C2b].
  apply Z.ltb_ge in C1a, C1b. apply Z.leb_gt in C2a, C2b.
  unfold get_intersections.
  destruct ((li =? 0) && (ri =? 0))%Z eqn:D1.
  { apply andb_true_iff in D1 as [D1a D1b]. apply Z.eqb_eq in D1a, D1b. exfalso. apply Hn. left. auto. }
  destruct ((0 <? li) && (0 <? ri))%Z eqn:D2.
  { apply andb_true_iff in D2 as [D2a D2b]. apply Z.ltb_lt in D2a, D2b. exfalso. apply Hn. right. lia. }
  reflexivity.
Qed.

Corollary rings_generators_rejects ls li rs ri :
  ~ ((li = 0 /\ ri = 0) \/ (1 <= li < ls /\ 1 <= ri < rs))%Z ->
  hungarian_rings_generators ls li rs ri = Err ValueErr.
Proof.
  intros Hn. unfold hungarian_rings_generators.
  destruct ((ls <=? 1) || (rs <=? 1))%Z; [reflexivity|].
  rewrite rings_perms_rejects by exact Hn. reflexivity.
Qed.

(* the facts quoted in the task, extracted from the structure *)
Corollary rings_right_single_cycle ls li rs ri : Admissible ls li rs ri ->
  let R := Rn ls li rs ri 1 in
  hungarian_rings_permutations ls li rs ri 1 = Ok (map Z.of_nat (Ln ls li rs 1), map Z.of_nat R) /\
  Perm R /\ SingleCycle R (Z.to_nat rs) /\
  (forall x, Moved R x <-> (x = 0 \/ x = Z.to_nat li \/ Z.to_nat ls <= x < ring_points ls li rs ri)) /\
  (forall x, x < Z.to_nat ls -> (Moved R x <-> (x = 0 \/ x = Z.to_nat li))) /\
  inverse_perm R = Rn ls li rs ri (-1) /\
  hungarian_rings_permutations ls li rs ri (-1) = Ok (map Z.of_nat (Ln ls li rs (-1)), map Z.of_nat (Rn ls li rs ri (-1))).
Proof.
  intros Hadm. cbv zeta. destruct (rings_bundle ls li rs ri Hadm)
    as (_ & (_ & PR & _ & _) & (_ & SR) & (_ & MR) & (_ & IR) & _).
  pose proof (a_le_N ls li rs ri Hadm) as (Ha2 & Hm2 & HaN & Hli & HN).
  split. { rewrite rings_perms_eq by exact Hadm. rewrite (Ln_roundtrip ls li rs ri Hadm), Rn_roundtrip by exact Hadm. reflexivity. }
  split; [exact PR|]. split; [exact SR|]. split.
  { intros x. rewrite MR, (In_C ls li rs ri Hadm), (ring_points_eq ls li rs ri Hadm). reflexivity. }
  split.
  { intros x Hx. rewrite MR, (In_C ls li rs ri Hadm). lia. }
  split; [exact IR|].
  rewrite rings_perms_eq by exact Hadm. rewrite (Ln_roundtrip ls li rs ri Hadm), Rn_roundtrip by exact Hadm. reflexivity.
Qed.

(* ---------- validation of the closed forms against the model, and non-vacuity ---------- *)
Example ex_rings_closed_forms :
  forallb (fun '(ls, li, rs, ri) =>
    forallb (fun step =>
      result_eqb (pair_eqb z_list_eqb z_list_eqb) (hungarian_rings_permutations ls li rs ri step)
                 (Ok (left_rotation ls li rs step, right_rotation ls li rs ri step))
      && forallb (fun j => (nth (Z.to_nat (rrf ls li rs ri j)) (right_rotation ls li rs ri step) 0
                             =? rrf ls li rs ri ((j + step) mod rs))%Z) (zrange 0 rs))
      [-7; -1; 0; 1; 2; 5]%Z
    && result_eqb (pair_eqb z_list2_eqb (list_eqb String.eqb)) (hungarian_rings_generators ls li rs ri)
         (Ok (left_rotation ls li rs 1 :: right_rotation ls li rs ri 1 :: rings_rest ls li rs ri, rings_names ls rs)))
    (ring_params 7) = true.
Proof. vm_compute. reflexivity. Qed.

Example ex_admissible : Admissible 6 2 5 3 /\ Admissible 2 1 2 1 /\ Admissible 9 0 4 0 /\ ~ Admissible 6 0 5 2.
Proof. unfold Admissible. repeat split; try lia. Qed.

Example ex_rings_general_vs_bounded :
  RingsStructure 6 2 5 3 /\ rings_ok 6 2 5 3 = true /\ RingsStructure 2 1 2 1 /\ rings_ok 2 1 2 1 = true.
Proof.
  split; [apply rings_structure_general; lia|]. split; [vm_compute; reflexivity|].
  split; [apply rings_structure_general; lia|vm_compute; reflexivity].
Qed.

(* a size far outside the computed range *)
Example ex_rings_large : RingsStructure 1000 333 777 100.
Proof. apply rings_structure_general; lia. Qed.

Example ex_rings_rejects : hungarian_rings_permutations 6 0 5 2 1 = Err ValueErr /\
  ~ ((0 = 0 /\ 2 = 0) \/ (1 <= 0 < 6 /\ 1 <= 2 < 5))%Z.
Proof. split; [reflexivity|lia]. Qed.

Example ex_py_remove_nth : NoDup [5; 7; 9]%Z /\ py_remove [5; 7; 9]%Z (nth 1 [5; 7; 9]%Z 0%Z) = Ok [5; 9]%Z.
Proof. split; [repeat constructor; cbn; intuition lia|reflexivity]. Qed.

Print Assumptions create_right_ring_eq.
Print Assumptions rings_perms_eq.
Print Assumptions rings_right_rotation_general.
Print Assumptions rings_perms_structure_general.
Print Assumptions rings_generators_eq.
Print Assumptions rings_gens_structure_general.
Print Assumptions rings_puzzle_structure_general.
Print Assumptions rings_structure_general.
Print Assumptions rings_perms_rejects.
Print Assumptions rings_generators_rejects.
Print Assumptions rings_right_single_cycle.
