(** Model of cayleypy/graphs_lib.py: one Gallina constructor per family of [PermutationGroups] and
    [MatrixGroups], mirroring the Python statement by statement (generator order, generator names,
    graph name, central state, and the exception class where the Python asserts / raises).

    Conventions.
    - Python [int] parameters are [Z] (negative and out-of-range values reach the assertion branches
      exactly as in Python); index lists are built from [zrange]/[zrange_down]/[zrange2], the models of
      [range(a,b)], [range(a,b,-1)], [range(a,b,2)].
    - Generators are lists of [Z] until [create] (= [CayleyGraphDef.create] + [__post_init__]) has
      validated them ([sorted(perm) == list(range(n))]); the definition then stores them as [list nat].
    - [transposition], [permutation_from_cycles], [inverse_permutation],
      [permutations_with_cycle_lenghts], [partition_to_permutation] are the models of Perm.v (validated
      and proved under C20); [MatrixGenerator.inv], the inverse map and [make_inverse_closed] are the
      models of Def.v / Matrix.v (C10).
    - Nondeterminism is an explicit oracle argument: the outcomes of [random.shuffle] /
      [np.random.shuffle] ([conjugacy_classes] with a sample count, [rand_generators]) and the rounded
      result of [np.linalg.inv] (argument [cand] of the matrix families; [elem_inv] is what LAPACK
      returns on the elementary matrices these families invert, watched by a monitor in the harness). *)
From Coq Require Import ZArith List Bool Arith Lia String DecimalString Sorting.Mergesort.
From V Require Import Base W64 Perm Matrix Def.
Import ListNotations.
Open Scope string_scope.
Open Scope list_scope.
Open Scope Z_scope.

(* ---------------------------------------------------------------------------------------------- *)
(** * Python primitives *)

(* range(a, b) *)
Definition zrange (a b : Z) : list Z := map (fun i => a + Z.of_nat i) (seq 0 (Z.to_nat (b - a))).
(* range(a, b, -1) *)
Definition zrange_down (a b : Z) : list Z := map (fun i => a - Z.of_nat i) (seq 0 (Z.to_nat (a - b))).
(* range(a, b, 2) *)
Definition zrange2 (a b : Z) : list Z :=
  map (fun i => a + 2 * Z.of_nat i) (seq 0 (Z.to_nat ((b - a + 1) / 2))).

(* str(int) and f-string pieces *)
Definition zs (z : Z) : string := NilZero.string_of_int (Z.to_int z).
Definition cat (l : list string) : string := String.concat "" l.
Definition join (sep : string) (l : list Z) : string := String.concat sep (map zs l).

Fixpoint mapM {A B} (f : A -> result B) (l : list A) : result (list B) :=
  match l with
  | [] => Ok []
  | a :: t => do b <- f a; do r <- mapM f t; Ok (b :: r)
  end.

Definition znth (l : list Z) (i : Z) : Z := nth (Z.to_nat i) l 0.
Definition zset (l : list Z) (i v : Z) : list Z := upd l (Z.to_nat i) v.
(* l[i], l[j] = l[j], l[i] *)
Definition zswap (l : list Z) (i j : Z) : list Z := zset (zset l i (znth l j)) j (znth l i).

Definition to_nats (p : list Z) : list nat := map Z.to_nat p.
Definition of_nats (p : list nat) : list Z := map Z.of_nat p.

(* transposition(n, i1, i2) on Python ints *)
Definition ztransposition (n i1 i2 : Z) : result (list Z) :=
  if (i1 <? 0) || (i2 <? 0) then Err AssertionErr
  else do p <- transposition (Z.to_nat n) (Z.to_nat i1) (Z.to_nat i2); Ok (of_nats p).

(* permutation_from_cycles(n, cycles) (offset 0); list(range(n)) is empty for n <= 0 *)
Definition zfrom_cycles (n : Z) (cycles : list (list Z)) : result (list Z) :=
  do p <- from_cycles (Z.to_nat n) cycles 0; Ok (of_nats p).

(* inverse_permutation of a valid permutation *)
Definition zinverse (p : list Z) : list Z := of_nats (inverse_perm (to_nats p)).

(* [zsum] (Python sum) is Matrix.zsum *)
Definition zfact (n : Z) : Z := fold_left Z.mul (zrange 1 (n + 1)) 1.

(* ---------------------------------------------------------------------------------------------- *)
(** * CayleyGraphDef.create and __post_init__ (permutation generators) *)

Record pdef := { p_gens : list (list nat); p_names : list string; p_name : string; p_central : list Z }.

(* sorted(perm) == list(range(n)) *)
Definition zperm_ok (n : nat) (p : list Z) : bool :=
  forallb (fun v => 0 <=? v) p && nat_list_eqb (NatSort.sort (to_nats p)) (seq 0 n).

(* generator names when none are given: ",".join(str(i) for i in g) *)
Definition default_names (gens : list (list Z)) : list string := map (join ",") gens.

Definition create (gens : list (list Z)) (names : option (list string)) (central : list Z) (name : string)
  : result pdef :=
  match gens with
  | [] => Err IndexErr                                        (* generators_list[0] *)
  | g0 :: _ =>
    let n := List.length g0 in
    if negb (forallb (zperm_ok n) gens) then Err AssertionErr else
    let names' := match names with Some l => l | None => default_names gens end in
    (* __post_init__ *)
    if negb (List.length names' =? List.length gens)%nat then Err AssertionErr else
    let sz := List.length central in
    if negb (forallb (fun p => (List.length p =? sz)%nat) gens) then Err AssertionErr else
    match central with
    | [] => Err ValueErr                                      (* min([]) *)
    | _ => if forallb (fun c => (0 <=? c) && (c <? Z.of_nat sz)) central
           then Ok {| p_gens := map to_nats gens; p_names := names'; p_name := name; p_central := central |}
           else Err AssertionErr
    end
  end.

(* ---------------------------------------------------------------------------------------------- *)
(** * PermutationGroups *)

Definition all_transpositions (n : Z) : result pdef :=
  if negb (2 <=? n) then Err AssertionErr else
  let ij := flat_map (fun i => map (fun j => (i, j)) (zrange (i + 1) n)) (zrange 0 n) in
  do gens <- mapM (fun '(i, j) => ztransposition n i j) ij;
  create gens (Some (map (fun '(i, j) => cat ["("; zs i; ","; zs j; ")"]) ij)) (zrange 0 n) "".

Definition transposons (n : Z) : result pdef :=
  if negb (2 <=? n) then Err AssertionErr else
  let ijk := flat_map (fun i => flat_map (fun j => map (fun k => (i, j, k)) (zrange j n))
                                         (zrange (i + 1) n)) (zrange 0 n) in
  create (map (fun '(i, j, k) => zrange 0 i ++ zrange j (k + 1) ++ zrange i j ++ zrange (k + 1) n) ijk)
         (Some (map (fun '(i, j, k) => cat ["T["; zs i; ".."; zs (j - 1); ","; zs k; "]"]) ijk))
         (zrange 0 n) "".

Definition block_interchange (n : Z) : result pdef :=
  if negb (2 <=? n) then Err AssertionErr else
  let ijkl := flat_map (fun i => flat_map (fun j => flat_map (fun k =>
                 map (fun l => (i, j, k, l)) (zrange (k + 1) (n + 1))) (zrange j n))
                 (zrange (i + 1) n)) (zrange 0 n) in
  create (map (fun '(i, j, k, l) => zrange 0 i ++ zrange k l ++ zrange j k ++ zrange i j ++ zrange l n) ijkl)
         (Some (map (fun '(i, j, k, l) =>
                  cat ["I["; zs i; ".."; zs (j - 1); ","; zs k; ".."; zs (l - 1); "]"]) ijkl))
         (zrange 0 n) "".

Definition full_reversals (n : Z) : result pdef :=
  if negb (2 <=? n) then Err AssertionErr else
  let ij := flat_map (fun i => map (fun j => (i, j)) (zrange (i + 1) n)) (zrange 0 n) in
  create (map (fun '(i, j) => zrange 0 i ++ zrange_down j (i - 1) ++ zrange (j + 1) n) ij)
         (Some (map (fun '(i, j) => cat ["R["; zs i; ".."; zs j; "]"]) ij))
         (zrange 0 n) "".

Definition signed_reversals (n : Z) : result pdef :=
  if negb (1 <=? n) then Err AssertionErr else
  let ij := flat_map (fun i => map (fun j => (i, j)) (zrange i n)) (zrange 0 n) in
  create (map (fun '(i, j) =>
            zrange 0 i ++ zrange_down (n + j) (n + i - 1) ++ zrange (j + 1) n
            ++ zrange n (n + i) ++ zrange_down j (i - 1) ++ zrange (n + j + 1) (n + n)) ij)
         (Some (map (fun '(i, j) => cat ["R["; zs i; ".."; zs j; "]"]) ij))
         (zrange 0 (2 * n)) "".

Definition lrx (n k : Z) : result pdef :=
  if negb (3 <=? n) then Err AssertionErr else
  do x <- ztransposition n 0 k;
  let generators := [zrange 1 n ++ [0]; [n - 1] ++ zrange 0 (n - 1); x] in
  let name := cat ["lrx-"; zs n] in
  let name := if negb (k =? 1) then cat [name; "(k="; zs k; ")"] else name in
  create generators (Some ["L"; "R"; "X"]) (zrange 0 n) name.

Definition lx (n : Z) : result pdef :=
  if negb (3 <=? n) then Err AssertionErr else
  do x <- ztransposition n 0 1;
  create [zrange 1 n ++ [0]; x] (Some ["L"; "X"]) (zrange 0 n) (cat ["lx-"; zs n]).

Definition top_spin (n k : Z) : result pdef :=
  if negb ((k <=? n) && (2 <=? k)) then Err AssertionErr else
  create [zrange 1 n ++ [0]; [n - 1] ++ zrange 0 (n - 1); zrange_down (k - 1) (-1) ++ zrange k n]
         None (zrange 0 n) (cat ["top_spin-"; zs n; "-"; zs k]).

Definition coxeter_generators (n : Z) : result (list (list Z)) :=
  mapM (fun k => ztransposition n k (k + 1)) (zrange 0 (n - 1)).

Definition coxeter (n : Z) : result pdef :=
  if negb (2 <=? n) then Err AssertionErr else
  do generators <- coxeter_generators n;
  create generators (Some (map (fun i => cat ["("; zs i; ","; zs (i + 1); ")"]) (zrange 0 (n - 1))))
         (zrange 0 n) (cat ["coxeter-"; zs n]).

Definition cyclic_coxeter (n : Z) : result pdef :=
  if negb (2 <=? n) then Err AssertionErr else
  do g <- coxeter_generators n;
  do t <- ztransposition n 0 (n - 1);
  create (g ++ [t])
         (Some (map (fun i => cat ["("; zs i; ","; zs (i + 1); ")"]) (zrange 0 (n - 1))
                ++ [cat ["(0,"; zs (n - 1); ")"]]))
         (zrange 0 n) (cat ["cyclic_coxeter-"; zs n]).

(* local helper of cubic_pancake; the same expression builds the pancake and top_spin reversals *)
Definition pancake_generator (k n : Z) : list Z := zrange_down (k - 1) (-1) ++ zrange k n.

Definition pancake (n : Z) : result pdef :=
  if negb (2 <=? n) then Err AssertionErr else
  let pls := zrange 2 (n + 1) in
  create (map (fun prefix_len => zrange_down (prefix_len - 1) (-1) ++ zrange prefix_len n) pls)
         (Some (map (fun prefix_len => cat ["R"; zs (prefix_len - 1)]) pls))
         (zrange 0 n) (cat ["pancake-"; zs n]).

Definition cubic_pancake (n subset : Z) : result pdef :=
  if negb (2 <=? n) then Err AssertionErr else
  if negb (existsb (Z.eqb subset) [1; 2; 3; 4; 5; 6; 7]) then Err AssertionErr else
  let R k := cat ["R"; zs k] in
  let '(ks, names) :=
    if subset =? 1 then ([n; n - 1; 2], [R n; R (n - 1); "R2"])
    else if subset =? 2 then ([n; n - 1; 3], [R n; R (n - 1); "R3"])
    else if subset =? 3 then ([n; n - 1; n - 2], [R n; R (n - 1); R (n - 2)])
    else if subset =? 4 then ([n; n - 1; n - 3], [R n; R (n - 1); R (n - 3)])
    else if subset =? 5 then ([n; n - 2; 2], [R n; R (n - 2); "R2"])
    else if subset =? 6 then ([n; n - 2; 3], [R n; R (n - 2); "R3"])
    else ([n; n - 2; n - 3], [R n; R (n - 2); R (n - 3)]) in
  create (map (fun k => pancake_generator k n) ks) (Some names) (zrange 0 n)
         (cat ["cubic_pancake-"; zs n; "-"; zs subset]).

Definition burnt_pancake (n : Z) : result pdef :=
  if negb (1 <=? n) then Err AssertionErr else
  let pls := zrange 0 n in
  create (map (fun pl => zrange_down (n + pl) (n - 1) ++ zrange (pl + 1) n
                         ++ zrange_down pl (-1) ++ zrange (n + pl + 1) (2 * n)) pls)
         (Some (map (fun pl => cat ["R"; zs (pl + 1)]) pls))
         (zrange 0 (2 * n)) (cat ["burnt_pancake-"; zs n]).

Definition three_cycles (n : Z) : result pdef :=
  if negb (3 <=? n) then Err AssertionErr else
  let abc := filter (fun t => match t with [a; b; c] => (a <? b) && (a <? c) | _ => false end)
                    (perms_aux 3 (zrange 0 n)) in
  do gens <- mapM (fun t => zfrom_cycles n [t]) abc;
  create gens (Some (map (fun t => cat ["("; join " " t; ")"]) abc)) (zrange 0 n)
         (cat ["three_cycles-"; zs n]).

Definition three_cycles_0ij (n : Z) : result pdef :=
  let ij := perms_aux 2 (zrange 1 n) in
  do gens <- mapM (fun t => zfrom_cycles n [0 :: t]) ij;
  create gens (Some (map (fun t => cat ["("; join " " (0 :: t); ")"]) ij)) (zrange 0 n)
         (cat ["three_cycles_0ij-"; zs n]).

Definition three_cycles_01i (n : Z) (add_inverses : bool) : result pdef :=
  if negb (3 <=? n) then Err AssertionErr else
  do gn <- mapM (fun i =>
      do perm <- zfrom_cycles n [[0; 1; i]];
      Ok (if add_inverses
          then [(perm, cat ["(0 1 "; zs i; ")"]); (zinverse perm, cat ["(1 0 "; zs i; ")"])]
          else [(perm, cat ["(0 1 "; zs i; ")"])])) (zrange 2 n);
  let gn := List.concat gn in
  let name := cat ["three_cycles_01i-"; zs n] in
  let name := if add_inverses then cat [name; "-ic"] else name in
  create (map fst gn) (Some (map snd gn)) (zrange 0 n) name.

Definition derangements (n : Z) : result pdef :=
  if negb (2 <=? n) then Err AssertionErr else
  let ps := perms (zrange 0 n) in
  let sel := filter (fun '(idx, perm) => negb (existsb (fun i => znth perm i =? i) (zrange 0 n)))
                    (combine (seq 0 (List.length ps)) ps) in
  create (map snd sel) (Some (map (fun '(idx, _) => cat ["D"; zs (Z.of_nat idx)]) sel)) (zrange 0 n)
         (cat ["derangements-"; zs n]).

(* generate_matchings; every call removes two elements, so fuel = len(elements) is never exhausted
   (with no fuel left and elements left the call yields nothing, which the count check of the
   bounded theorem and the correspondence would expose) *)
Fixpoint generate_matchings (fuel : nat) (elements : list Z) : list (list (Z * Z)) :=
  match elements with
  | [] => [[]]
  | [a; b] => [[(a, b)]]
  | first :: _ =>
    match fuel with
    | O => []
    | S f =>
      flat_map (fun i =>
        let partner := nth i elements 0 in
        let remaining := firstn (i - 1) (skipn 1 elements) ++ skipn (i + 1) elements in
        map (cons (first, partner)) (generate_matchings f remaining))
        (seq 1 (List.length elements - 1))
    end
  end.

Definition involutive_derangements (n : Z) : result pdef :=
  if negb ((2 <=? n) && (n mod 2 =? 0)) then Err AssertionErr else
  let matchings := generate_matchings (Z.to_nat n) (zrange 0 n) in
  let gens := map (fun matching => fold_left (fun perm '(a, b) => zswap perm a b) matching (zrange 0 n)) matchings in
  create gens (Some (map (fun idx => cat ["ID"; zs (Z.of_nat idx + 1)]) (seq 0 (List.length matchings))))
         (zrange 0 n) (cat ["involutive-derangements-"; zs n]).

Definition stars (n : Z) : result pdef :=
  if negb (3 <=? n) then Err AssertionErr else
  do gens <- mapM (fun i => ztransposition n 0 i) (zrange 1 n);
  create gens (Some (map (fun i => cat ["S"; zs i]) (zrange 1 n))) (zrange 0 n) (cat ["stars-"; zs n]).

Definition generalized_stars (n k : Z) : result pdef :=
  if negb (3 <=? n) then Err AssertionErr else
  if negb ((1 <=? k) && (k <? n)) then Err AssertionErr else
  let ij := flat_map (fun i => map (fun j => (i, j)) (zrange k n)) (zrange 0 k) in
  do gens <- mapM (fun '(i, j) => ztransposition n i j) ij;
  create gens (Some (map (fun '(i, j) => cat ["S"; zs i; "-"; zs j]) ij)) (zrange 0 n)
         (cat ["generalized-stars-"; zs n; "-"; zs k]).

Definition rapaport_m1 (n : Z) : result pdef :=
  let nps0 := zrange 1 (n / 2 + 1) in
  do g0 <- mapM (fun num_pairs =>
      zfrom_cycles n (map (fun idx => [2 * idx; 2 * idx + 1])
                          (filter (fun idx => 2 * idx + 1 <? n) (zrange 0 num_pairs)))) nps0;
  let nps1 := zrange 1 ((n - 1) / 2 + 1) in
  do g1 <- mapM (fun num_pairs =>
      zfrom_cycles n (map (fun idx => [1 + 2 * idx; 1 + 2 * idx + 1])
                          (filter (fun idx => 1 + 2 * idx + 1 <? n) (zrange 0 num_pairs)))) nps1;
  create (g0 ++ g1)
         (Some (map (fun np => cat ["M1_0_"; zs np]) nps0 ++ map (fun np => cat ["M1_1_"; zs np]) nps1))
         (zrange 0 n) (cat ["rapaport_m1-"; zs n]).

Definition rapaport_m2 (n : Z) : result pdef :=
  do g1 <- ztransposition n 0 1;
  let g2 := fold_left (fun g i => zswap g i (i + 1)) (zrange2 0 (n - 1)) (zrange 0 n) in
  let g3 := fold_left (fun g i => zswap g i (i + 1)) (zrange2 1 (n - 1)) (zrange 0 n) in
  create [g1; g2; g3] (Some ["(0,1)"; "EvenDisjTrans"; "OddDisjTrans"]) (zrange 0 n)
         (cat ["rapaport_m2-"; zs n]).

Definition all_cycles (n : Z) : result pdef :=
  if negb (2 <=? n) then Err AssertionErr else
  let gens := flat_map (fun k =>
      flat_map (fun subset =>
        let min_elem := fold_left Z.min subset (hd 0 subset) in
        let rest := filter (fun x => negb (x =? min_elem)) subset in
        map (fun perm =>
          let '(cycle, current) :=
            fold_left (fun '(cycle, current) target => (zset cycle current target, target))
                      perm (zrange 0 n, min_elem) in
          zset cycle current min_elem) (perms rest))
        (combs (Z.to_nat k) (zrange 0 n))) (zrange 2 (n + 1)) in
  create gens (Some (map (fun i => cat ["cycle_"; zs (Z.of_nat i)]) (seq 1 (List.length gens))))
         (zrange 0 n) (cat ["all_cycles-"; zs n]).

Definition lsl_cycles (n : Z) (add_inverses : bool) : result pdef :=
  if negb (3 <=? n) then Err AssertionErr else
  do long_cycle <- zfrom_cycles n [zrange 0 n];
  do sub_long_cycle <- zfrom_cycles n [zrange 1 n; [0]];
  let generators := [long_cycle; sub_long_cycle] in
  let names := ["L"; "S"] in
  let '(generators, names) :=
    if add_inverses
    then (generators ++ [zinverse long_cycle; zinverse sub_long_cycle], names ++ ["L_inv"; "S_inv"])
    else (generators, names) in
  create generators (Some names) (zrange 0 n) (cat ["lsl_cycles-"; zs n]).

Definition wrapped_k_cycles (n k : Z) : result pdef :=
  if negb ((2 <=? n) && (2 <=? k) && (k <=? n)) then Err AssertionErr else
  let cycles := map (fun start => map (fun j => (start + j) mod n) (zrange 0 k)) (zrange 0 n) in
  do gens <- mapM (fun cycle => zfrom_cycles n [cycle]) cycles;
  create gens (Some (map (fun cycle => cat ["("; join " " cycle; ")"]) cycles)) (zrange 0 n)
         (cat ["wrapped_k_cycles-"; zs n; "-"; zs k]).

Definition larx (n : Z) : result pdef :=
  if negb (2 <=? n) then Err AssertionErr else
  let perm1 := [1; 0] ++ zrange 2 n in
  let perm2 := [0] ++ zrange 2 n ++ [1] in
  create [perm1; perm2] (Some [cat ["("; join " " perm1; ")"]; cat ["("; join " " perm2; ")"]])
         (zrange 0 n) (cat ["larx-"; zs n]).

Definition increasing_k_cycles (n k : Z) : result pdef :=
  if negb ((1 <=? n) && (1 <=? k) && (k <=? n)) then Err AssertionErr else
  let combos := combs (Z.to_nat k) (zrange 0 n) in
  do gens <- mapM (fun cyc => zfrom_cycles n [cyc]) combos;
  create gens (Some (map (fun cyc => cat ["("; join "," cyc; ")"]) combos)) (zrange 0 n)
         (cat ["increasing_k_cycles-"; zs n; "-"; zs k]).

Definition sheveleva2 (n k : Z) : result pdef :=
  if negb ((1 <=? k) && (k <=? n - 3)) then Err AssertionErr else
  do p1 <- zfrom_cycles n (map (fun i => [i; i + 1]) (zrange2 0 (n - 1)));
  do p2 <- zfrom_cycles n (map (fun i => [i; i + 1]) (zrange2 1 (n - 1)));
  (* the branch writes a 4-cycle into [a] and repairs [b] *)
  let four a := zset (zset (zset (zset a (k - 1) k) k (k + 1)) (k + 1) (k + 2)) (k + 2) (k - 1) in
  let fix_last b := zset (zset (zset b k k) (k + 1) (k + 1)) (k + 2) (k + 2) in
  let fix_mid b := zset (zset (zset (zset b k k) (k + 1) (k + 3)) (k + 2) (k + 2)) (k + 3) (k + 1) in
  let '(p1, p2) :=
    if k mod 2 =? 1
    then (if k =? n - 3 then (four p1, fix_last p2) else (four p1, fix_mid p2))
    else (if k =? n - 3 then (fix_last p1, four p2) else (fix_mid p1, four p2)) in
  let generators := if k mod 2 =? 1 then [p2; p1] else [p1; p2] in
  create generators (Some ["A"; "S"]) (zrange 0 n) (cat ["sheveleva2-n"; zs n; "-k"; zs k]).

Definition koltsov3 (n perm_type k d : Z) : result pdef :=
  if negb (k <? n) then Err AssertionErr else
  if negb ((perm_type =? 1) || (perm_type =? 2)) then Err AssertionErr else
  do g1 <- zfrom_cycles n (map (fun i => [i; i + 1]) (zrange2 0 (n - 1)));
  do g2 <- zfrom_cycles n (map (fun i => [i; i + 1]) (zrange2 1 (n - 1)));
  do g3 <- (if perm_type =? 1
            then (if negb (k + d <? n) then Err AssertionErr else zfrom_cycles n [[k; k + d]])
            else (if negb (k + 3 <? n) then Err AssertionErr
                  else zfrom_cycles n [[k; k + 3]; [k + 1; k + 2]]));
  create [g1; g2; g3] (Some ["I"; "K"; "S"]) (zrange 0 n) (cat ["koltsov3-n"; zs n; "-k"; zs k]).

Definition consecutive_k_cycles (n k : Z) : result pdef :=
  if negb ((1 <=? n) && (1 <=? k) && (k <=? n)) then Err AssertionErr else
  let cycs := map (fun i => zrange i (i + k)) (zrange 0 (n - k + 1)) in
  do gens <- mapM (fun cyc => zfrom_cycles n [cyc]) cycs;
  create gens (Some (map (fun cyc => cat ["("; join "," cyc; ")"]) cycs)) (zrange 0 n)
         (cat ["consecutive_k_cycles-"; zs n; "-"; zs k]).

(* conjugacy_classes(n, classes): [classes] = the dict items in insertion order (cycle lengths,
   n_samples); [shuffles] = the successive outcomes of random.shuffle inside
   partition_to_permutation (consumed only by entries with a sample count). An exhausted oracle is
   the explicit error RuntimeErr (cannot happen when the harness records every draw). *)
Definition conj_state := (list (list Z) * list string * list string * list (list nat))%type.

Definition conj_step (n : Z) (acc : result conj_state) (entry : list Z * option Z) : result conj_state :=
  do st <- acc;
  let '(generators, generator_names, name_strs, shuffles) := st in
  let '(cycle_lengths, n_samples) := entry in
  let lengths := cycle_lengths ++ repeat 1 (Z.to_nat (n - zsum cycle_lengths)) in
  let lengths := rev (NatSort.sort (to_nats lengths)) in                  (* sorted(reverse=True) *)
  let lname := join "," (of_nats lengths) in
  let gname i := cat ["("; lname; ")_"; zs (Z.of_nat i + 1)] in
  match n_samples with
  | None =>
      do ps <- perms_with_cycle_lengths (Z.to_nat n) lengths;
      Ok (generators ++ map of_nats ps,
          generator_names ++ map gname (seq 0 (List.length ps)),
          name_strs ++ [lname], shuffles)
  | Some ns =>
      let name := cat [lname; "_"; zs ns] in
      let k := Z.to_nat ns in
      if (List.length shuffles <? k)%nat then Err RuntimeErr else
      do ps <- mapM (fun el => partition_to_permutation lengths el) (firstn k shuffles);
      Ok (generators ++ map of_nats ps,
          generator_names ++ map gname (seq 0 k),
          name_strs ++ [name], skipn k shuffles)
  end.

Definition conjugacy_classes (n : Z) (classes : list (list Z * option Z)) (shuffles : list (list nat))
  : result pdef :=
  if negb (1 <=? n) then Err AssertionErr else
  if negb (forallb (fun '(cl, _) => forallb (fun c => 0 <? c) cl) classes) then Err AssertionErr else
  if negb (forallb (fun '(cl, _) => zsum cl <=? n) classes) then Err AssertionErr else
  do st <- fold_left (conj_step n) classes (Ok ([], [], [], shuffles));
  let '(generators, generator_names, name_strs, _) := st in
  create generators (Some generator_names) (zrange 0 n)
         (cat ["conjugacy_class-"; zs n; "-"; String.concat "-" name_strs]).

(* rand_generators(n, k): [shuffles] = the successive states of [perm] after each np.random.shuffle
   (the loop runs until k distinct ones were seen; the recorded list is exactly as long as the loop
   ran). Deterministic contract: assertions, rejection of repeats, names, name. *)
Definition rand_generators (n k : Z) (shuffles : list (list Z)) : result pdef :=
  if negb (1 <=? n) then Err AssertionErr else
  if negb (1 <=? k) then Err AssertionErr else
  if negb (k <=? zfact n) then Err AssertionErr else
  let gens := fold_left (fun gens perm =>
      if (Z.of_nat (List.length gens) <? k) && negb (existsb (z_list_eqb perm) gens)
      then gens ++ [perm] else gens) shuffles [] in
  if Z.of_nat (List.length gens) <? k then Err RuntimeErr else
  create gens (Some (map (fun perm => cat ["("; join "," perm; ")"]) gens)) (zrange 0 n)
         (cat ["rand_generators-"; zs n; "-"; zs k]).

Definition down_cycles (n : Z) : result pdef :=
  if negb (2 <=? n) then Err AssertionErr else
  let cycles := flat_map (fun i => map (fun j => zrange i (j + 1)) (zrange (i + 1) n)) (zrange 0 n) in
  do gens <- mapM (fun cycle => zfrom_cycles n [cycle]) cycles;
  create gens (Some (map (fun cycle => cat ["("; join "," cycle; ")"]) cycles)) (zrange 0 n)
         (cat ["down_cycles-"; zs n]).

Definition prefix_cycles (n : Z) : result pdef :=
  if negb (2 <=? n) then Err AssertionErr else
  let cycles := map (fun j => zrange 0 j) (zrange 2 (n + 1)) in
  do gens <- mapM (fun cycle => zfrom_cycles n [cycle]) cycles;
  create gens (Some (map (fun cycle => cat ["("; join "," cycle; ")"]) cycles)) (zrange 0 n)
         (cat ["prefix_cycles-"; zs n]).

(* ---------------------------------------------------------------------------------------------- *)
(** * MatrixGroups *)

Record mdef := { m_mats : list (list (list Z)); m_modulo : Z; m_names : list string; m_name : string;
                 m_central : list Z }.

Definition zeye (n : Z) : list (list Z) := eye (Z.to_nat n).
Definition mset (M : list (list Z)) (i j v : Z) : list (list Z) :=
  upd M (Z.to_nat i) (zset (nth (Z.to_nat i) M []) j v).

(* MatrixGenerator.__post_init__ (the matrix is square and int64 by construction) *)
Definition mgen (modulo : Z) (M : list (list Z)) : result (list (list Z)) :=
  if modulo =? 0 then Ok M else
  if negb ((2 <=? modulo) && (modulo <=? 2 ^ 31)) then Err AssertionErr else
  if forallb (forallb (fun v => (0 <=? v) && (v <? modulo))) M then Ok M else Err AssertionErr.

(* MatrixGenerator.create *)
Definition mgen_create (modulo : Z) (M : list (list Z)) : result (list (list Z)) :=
  mgen modulo (if 0 <? modulo then map (map (fun v => v mod modulo)) M else M).

(* what np.linalg.inv, rounded, returns on an elementary matrix I + E_ij (i <> j): I - E_ij = 2I - M *)
Definition elem_inv (M : list (list Z)) : list (list Z) :=
  let n := List.length M in
  map (fun i => map (fun j => (if (i =? j)%nat then 2 else 0) - nth j (nth i M []) 0) (seq 0 n)) (seq 0 n).

Section MatrixFamilies.
  Variable cand : list (list Z) -> list (list Z).     (* rint(np.linalg.inv(.)) as int64: an oracle *)

  (* MatrixGenerator.inv (followed by MatrixGenerator.create, which mat_inv already includes) *)
  Definition minv (modulo : Z) (M : list (list Z)) : result (list (list Z)) :=
    do r <- mat_inv modulo (List.length M) M (cand M); mgen modulo r.

  (* CayleyGraphDef.for_matrix_group with names given and the default central state *)
  Definition for_matrix_group (modulo : Z) (gens : list (list (list Z))) (names : list string) (name : string)
    : result mdef :=
    match gens with
    | [] => Err IndexErr                                     (* generators[0].n *)
    | g0 :: _ =>
      let n := List.length g0 in
      if negb (List.length names =? List.length gens)%nat then Err AssertionErr else
      Ok {| m_mats := gens; m_modulo := modulo; m_names := names; m_name := name;
            m_central := List.concat (eye n) |}
    end.

  (* make_inverse_closed on a matrix definition *)
  Definition m_make_inverse_closed (d : mdef) : result mdef :=
    let modulo := m_modulo d in
    let mats := m_mats d in
    let n := List.length (hd [] mats) in
    if is_some (matrix_inverse_map modulo n mats) then Ok d else
    let new_name := if String.eqb (m_name d) "" then m_name d else cat [m_name d; "-ic"] in
    let missing := mic_matrix_missing modulo n mats in
    do new_mats <- mapM (fun i => minv modulo (nth i mats [])) missing;
    for_matrix_group modulo (mats ++ new_mats)
                     (m_names d ++ map (fun i => cat [nth i (m_names d) ""; "'"]) missing) new_name.

  Definition heisenberg (n modulo : Z) (add_inverses : bool) : result mdef :=
    if negb (3 <=? n) then Err AssertionErr else
    let idxs := zrange 1 (n - 1) in
    do gx <- mapM (fun i => mgen modulo (mset (zeye n) 0 i 1)) idxs;
    do gy <- mapM (fun i => mgen modulo (mset (zeye n) i (n - 1) 1)) idxs;
    let names := map (fun i => if n =? 3 then "x" else cat ["x"; zs i]) idxs
                 ++ map (fun i => if n =? 3 then "y" else cat ["y"; zs i]) idxs in
    let name := cat ["heisenberg-"; zs n] in
    let name := if 0 <? modulo then cat [name; "%"; zs modulo] else name in
    do graph_def <- for_matrix_group modulo (gx ++ gy) names name;
    if add_inverses then m_make_inverse_closed graph_def else Ok graph_def.

  Definition special_linear_fundamental_roots (n modulo : Z) : result mdef :=
    if negb (2 <=? n) then Err AssertionErr else
    let ks := zrange 0 (n - 1) in
    let entries (p : Z -> Z -> bool) :=
      map (fun i => map (fun j => if (j =? i) || p i j then 1 else 0) (zrange 0 n)) (zrange 0 n) in
    do gs <- mapM (fun k =>
        do e <- mgen_create modulo (entries (fun i j => (i =? k) && (j =? k + 1)));
        do f <- mgen_create modulo (entries (fun i j => (i =? k + 1) && (j =? k)));
        do ei <- minv modulo e;
        do fi <- minv modulo f;
        Ok [e; ei; f; fi]) ks;
    let names := flat_map (fun k => [cat ["e"; zs (k + 1)]; cat ["e"; zs (k + 1); "'"];
                                     cat ["f"; zs (k + 1)]; cat ["f"; zs (k + 1); "'"]]) ks in
    let name := cat ["sl_fund_roots-"; zs n] in
    let name := if 0 <? modulo then cat [name; "%"; zs modulo] else name in
    for_matrix_group modulo (List.concat gs) names name.

  Definition special_linear_root_weyl (n modulo : Z) : result mdef :=
    if negb (2 <=? n) then Err AssertionErr else
    let e_entries := map (fun i => map (fun j => if j =? i then 1 else 0) (zrange 0 n)) (zrange 0 n) in
    let e_entries := mset e_entries 0 1 1 in
    do e <- mgen_create modulo e_entries;
    let w_entries := map (fun i => map (fun j => if j =? i + 1 then 1 else 0) (zrange 0 n)) (zrange 0 n) in
    let w_entries := mset w_entries (n - 1) 0 ((-1) ^ (n - 1)) in
    do w <- mgen_create modulo w_entries;
    let w_inv_entries := map (fun i => map (fun j => nth (Z.to_nat i) (nth (Z.to_nat j) w_entries []) 0)
                                           (zrange 0 n)) (zrange 0 n) in
    do w_inv <- mgen_create modulo w_inv_entries;
    let name := cat ["sl_root_weyl-"; zs n] in
    let name := if 0 <? modulo then cat [name; "%"; zs modulo] else name in
    do ei <- minv modulo e;
    for_matrix_group modulo [e; ei; w; w_inv] ["e"; "e'"; "w"; "w'"] name.
End MatrixFamilies.
