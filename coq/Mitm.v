(** Model of MeetInTheMiddle.find_path_to / find_path_from (algo/bfs_mitm.py) and find_path (algo/find_path.py). *)
From Coq Require Import ZArith List Bool Arith Lia.
From V Require Import Base W64 Tensor GraphImpl Def Paths Bfs.
Import ListNotations.
Open Scope Z_scope.

Definition drop_last_one {A} (l : list A) : list A := firstn (length l - 1) l.

Section Mitm.
  Variable G : impl.
  Variable Ginv : impl.

  (* bfs_result is represented by its layers_hashes and len(layer_sizes) *)
  Definition mitm_cfg (bfs_last : list Z) (D : nat) : bfs_cfg :=
    {| batch_size := 1048576; max_store := 1000; max_explore := 1000000000000; max_diameter := N.of_nat D;
       ret_edges := false; ret_hashes := true; no_batching := true;
       stop := Some (fun _ _ lh => existsb (isin_ss1 bfs_last) lh) |}.

  Definition mitm_find_path_to (layers_h : list (list Z)) (n_sizes : nat) (central_hash : Z) (dest : state)
    : result (option (list nat)) :=
    if negb (length layers_h =? n_sizes)%nat then Err AssertionErr
    else if negb (nth 0 (nth 0 layers_h []) 0 =? central_hash) then Err AssertionErr
    else
      do direct <- find_path_to G Ginv layers_h n_sizes dest;
      match direct with
      | Some p => Ok (Some p)
      | None =>
          let bfs_last := last layers_h [] in
          let D := (n_sizes - 1)%nat in
          let cfg := mitm_cfg bfs_last D in
          let fin := match loop_N (bfs_iter Ginv cfg) (max_diameter cfg) (bfs_init Ginv [dest]) with
                     | inl st => (st, false) | inr r => r end in
          let '(st, explored) := fin in
          (* the states the callback collected: those of the final layer that lie on the ball's last layer *)
          let mask := map (isin_ss1 bfs_last) (layer1_h st) in
          let middle := if explored then [] else
                          (* the callback only fired if the loop ran and broke on it; a final layer reached by the
                             depth limit was tested as well (and found empty or it would have broken) *)
                          mask_select (layer1 st) mask in
          let hashes2 := rev (if explored then all_h_rev st else layer1_h st :: all_h_rev st) in
          match (if (it st =? 1)%nat then [] else middle) with
          | [] => Ok None
          | mid :: _ =>
              (* try: restore_path in the ball; an AssertionError there means "try the next middle state";
                 modelled for the first middle state, later ones only matter under hash collisions *)
              match restore_path G Ginv (drop_last_one layers_h) mid with
              | Err _ => Ok None
              | Ok path1 =>
                  do path2 <- restore_path Ginv G (drop_last_one hashes2) mid;
                  Ok (Some (path1 ++ rev path2))
              end
          end
      end.
End Mitm.
