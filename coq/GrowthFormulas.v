(** P11: the closed formulas datasets.py uses for two growth functions.

    (A) Gallina models of [_compute_coxeter_cayley_growth] (the Mahonian dynamic programme) and of
        [_compute_all_transpositions_cayley_growth] / [_stirling], with the dataset rows n = 5, 10.
    (B) COXETER: in the Schreier graph of the adjacent transpositions acting on arrangements of n distinct
        symbols (start state [seq 0 n]) the distance from the start is the number of inversions
        ([coxeter_distance_is_inversions]) and the number of states at distance exactly k is
        [nth k (coxeter_growth n) 0] ([coxeter_growth_correct]), for EVERY n and k; the row has exactly
        n(n-1)/2 + 1 terms, all non-zero ([coxeter_growth_nonzero_terms]).
        The statements are against [Graph.layer] (the textbook BFS layers = distance classes,
        GraphProofs.ref_layers_dist) for ANY generator list made of the n-1 adjacent swaps
        ([adjacent_swap_gens]); two instances: the literal list
        [map (fun i x => swap_at 0 x i (i+1)) (seq 0 (n-1))] and the generators of the Families.v model
        [coxeter n] acting through [apply_perm] (via FamiliesProofs.coxeter_documented).
    (C) all transpositions (distance = n - #cycles, layer sizes = Stirling numbers, for every n):
        GrowthFormulasTransp.v, to be compiled after this file. *)
From V Require Import Base Perm PermProofs PermCycles Def Families Graph GraphProofs FamiliesProofs
  RefBfs RefBfsProofs RefBfsRun.
From Coq Require Import ZArith NArith List Bool Arith Lia Sorting.Permutation Sorting.Sorted.
Import ListNotations.
Open Scope nat_scope.

(* ============================================================================================== *)
(** * (A) The models *)

(* left-to-right accumulation, as Python's [new_dp[k] += ...] *)
Definition Nsum (l : list N) : N := fold_left N.add l 0%N.

(* one round [for i in range(1, n)]: new_dp[k] = sum_{j < min(i+1, k+1)} dp[k-j], k = 0..max_inv *)
Definition cox_step (max_inv : nat) (dp : list N) (i : nat) : list N :=
  map (fun k => Nsum (map (fun j => nth (k - j) dp 0%N) (seq 0 (Nat.min (i + 1) (k + 1)))))
      (seq 0 (max_inv + 1)).

(* _compute_coxeter_cayley_growth: max_inv = comb(n, 2); dp = [1, 0, ..., 0]; n-1 rounds *)
Definition coxeter_growth (n : nat) : list N :=
  let max_inv := n * (n - 1) / 2 in
  fold_left (cox_step max_inv) (seq 1 (n - 1)) (1%N :: repeat 0%N max_inv).

(* _stirling: unsigned Stirling numbers of the first kind, the same three-way case split *)
Fixpoint stirling (n k : nat) : N :=
  match n, k with
  | O, O => 1%N
  | O, _ => 0%N
  | S n', O => 0%N
  | S n', S k' => (N.of_nat n' * stirling n' k + stirling n' k')%N
  end.

(* _compute_all_transpositions_cayley_growth: [_stirling(n, n + 1 - k) for k in range(1, n + 1)] *)
Definition all_transpositions_growth (n : nat) : list N :=
  map (fun k => stirling n (n + 1 - k)) (seq 1 n).

(* dataset rows (cayleypy/data/coxeter_cayley_growth.csv, all_transpositions_cayley_growth.csv) *)
Example coxeter_growth_5 :
  coxeter_growth 5 = [1; 4; 9; 15; 20; 22; 20; 15; 9; 4; 1]%N.
Proof. vm_compute. reflexivity. Qed.

Example coxeter_growth_10 :
  coxeter_growth 10 =
  [1; 9; 44; 155; 440; 1068; 2298; 4489; 8095; 13640; 21670; 32683; 47043; 64889; 86054; 110010;
   135853; 162337; 187959; 211089; 230131; 243694; 250749; 250749; 243694; 230131; 211089; 187959;
   162337; 135853; 110010; 86054; 64889; 47043; 32683; 21670; 13640; 8095; 4489; 2298; 1068; 440;
   155; 44; 9; 1]%N.
Proof. vm_compute. reflexivity. Qed.

Example all_transpositions_growth_5 :
  all_transpositions_growth 5 = [1; 10; 35; 50; 24]%N.
Proof. vm_compute. reflexivity. Qed.

Example all_transpositions_growth_10 :
  all_transpositions_growth 10 =
  [1; 45; 870; 9450; 63273; 269325; 723680; 1172700; 1026576; 362880]%N.
Proof. vm_compute. reflexivity. Qed.

(* the small rows, including the degenerate keys *)
Example coxeter_growth_small :
  map coxeter_growth [0; 1; 2; 3; 4] = [[1]; [1]; [1; 1]; [1; 2; 2; 1]; [1; 3; 5; 6; 5; 3; 1]]%N.
Proof. vm_compute. reflexivity. Qed.

Example all_transpositions_growth_small :
  map all_transpositions_growth [0; 1; 2; 3; 4] = [[]; [1]; [1; 1]; [1; 3; 2]; [1; 6; 11; 6]]%N.
Proof. vm_compute. reflexivity. Qed.

(* the row is the coefficient list of prod_{i=1}^{n-1} (1 + x + ... + x^i); checked for n <= 12
   (the general statement proved below is the recurrence form, [coxeter_growth_mahonian]) *)
Definition poly_mul (a b : list N) : list N :=
  map (fun k => Nsum (map (fun j => (nth j a 0 * nth (k - j) b 0)%N) (seq 0 (k + 1))))
      (seq 0 (length a + length b - 1)).
Fixpoint Nlist_eqb (a b : list N) : bool :=
  match a, b with
  | [], [] => true
  | x :: a', y :: b' => N.eqb x y && Nlist_eqb a' b'
  | _, _ => false
  end.
Example coxeter_growth_is_product_le12 :
  forallb (fun n => Nlist_eqb (coxeter_growth n)
                      (fold_left poly_mul (map (fun i => repeat 1%N (i + 1)) (seq 1 (n - 1))) [1%N]))
          (seq 0 13) = true.
Proof. vm_compute. reflexivity. Qed.

(* ============================================================================================== *)
(** * Inversions *)

(* number of entries of l that are smaller than x *)
Definition lt_count (x : nat) (l : list nat) : nat := length (filter (fun y => y <? x) l).

(* number of inversions: pairs of positions i < j with l[j] < l[i] *)
Fixpoint inv (l : list nat) : nat :=
  match l with
  | [] => 0
  | x :: r => lt_count x r + inv r
  end.

(* pairs (x in a, y in b) with y < x *)
Fixpoint cross (a b : list nat) : nat :=
  match a with
  | [] => 0
  | x :: r => lt_count x b + cross r b
  end.

Definition b2n (b : bool) : nat := if b then 1 else 0.

Lemma lt_count_cons x y l : lt_count x (y :: l) = b2n (y <? x) + lt_count x l.
Proof. unfold lt_count. cbn [filter]. destruct (y <? x); reflexivity. Qed.

Lemma lt_count_app x a b : lt_count x (a ++ b) = lt_count x a + lt_count x b.
Proof. unfold lt_count. now rewrite filter_app, app_length. Qed.

Lemma lt_count_le x l : lt_count x l <= length l.
Proof.
  induction l as [|y l IH]; [apply Nat.le_refl|].
  rewrite lt_count_cons. cbn [length]. destruct (y <? x); cbn [b2n]; lia.
Qed.

Lemma lt_count_mono x y l : x <= y -> lt_count x l <= lt_count y l.
Proof.
  intros Hxy. induction l as [|z l IH]; [apply Nat.le_refl|].
  rewrite !lt_count_cons.
  destruct (Nat.ltb_spec z x) as [H1|H1]; destruct (Nat.ltb_spec z y) as [H2|H2]; cbn [b2n]; lia.
Qed.

Lemma lt_count_all x l : (forall y, In y l -> y < x) -> lt_count x l = length l.
Proof.
  induction l as [|z l IH]; intros H; [reflexivity|].
  rewrite lt_count_cons. cbn [length]. rewrite IH by (intros y Hy; apply H; now right).
  assert (z < x) as Hz by (apply H; now left).
  destruct (Nat.ltb_spec z x) as [_|H1]; [reflexivity|lia].
Qed.

Lemma lt_count_none x l : (forall y, In y l -> x <= y) -> lt_count x l = 0.
Proof.
  induction l as [|z l IH]; intros H; [reflexivity|].
  rewrite lt_count_cons. rewrite IH by (intros y Hy; apply H; now right).
  assert (x <= z) as Hz by (apply H; now left).
  destruct (Nat.ltb_spec z x) as [H1|_]; [lia|reflexivity].
Qed.

Lemma inv_app a b : inv (a ++ b) = inv a + cross a b + inv b.
Proof.
  induction a as [|x a IH]; [reflexivity|].
  cbn [app inv cross]. rewrite lt_count_app, IH. lia.
Qed.

Lemma cross_adj_swap a u v b : cross a (u :: v :: b) = cross a (v :: u :: b).
Proof.
  induction a as [|x a IH]; [reflexivity|].
  cbn [cross]. rewrite IH, !lt_count_cons. lia.
Qed.

(* an adjacent swap moves the inversion count by the orientation of the swapped pair *)
Lemma inv_adj_swap a u v b :
  inv (a ++ v :: u :: b) + b2n (v <? u) = inv (a ++ u :: v :: b) + b2n (u <? v).
Proof.
  rewrite !inv_app, (cross_adj_swap a u v b). cbn [inv]. rewrite !lt_count_cons. lia.
Qed.

Lemma inv_adj_swap_down a u v b : v < u -> inv (a ++ u :: v :: b) = S (inv (a ++ v :: u :: b)).
Proof.
  intros H. pose proof (inv_adj_swap a u v b) as E.
  destruct (Nat.ltb_spec v u) as [_|H1]; [|lia]. destruct (Nat.ltb_spec u v) as [H2|_]; [lia|].
  cbn [b2n] in E. lia.
Qed.

(* exactly +-1 when the two entries differ *)
Lemma inv_adj_swap_pm1 a u v b : u <> v ->
  inv (a ++ v :: u :: b) = S (inv (a ++ u :: v :: b)) \/ S (inv (a ++ v :: u :: b)) = inv (a ++ u :: v :: b).
Proof.
  intros H. destruct (Nat.lt_total u v) as [L|[E|L]]; [|congruence|].
  - left. now apply inv_adj_swap_down.
  - right. symmetry. now apply inv_adj_swap_down.
Qed.

Lemma inv_adj_swap_le a u v b : inv (a ++ v :: u :: b) <= S (inv (a ++ u :: v :: b)).
Proof.
  pose proof (inv_adj_swap a u v b) as E.
  destruct (v <? u), (u <? v); cbn [b2n] in E; lia.
Qed.

(* 2 inv l <= |l| (|l| - 1) *)
Lemma inv_le l : 2 * inv l <= length l * (length l - 1).
Proof.
  induction l as [|x l IH]; [cbn; lia|].
  cbn [inv length]. pose proof (lt_count_le x l) as H. nia.
Qed.

(* no inversions = sorted *)
Lemma inv0_sorted l : inv l = 0 -> StronglySorted le l.
Proof.
  induction l as [|x l IH]; intros H; [constructor|].
  cbn [inv] in H. constructor; [apply IH; lia|].
  apply Forall_forall. intros y Hy.
  assert (lt_count x l = 0) as H0 by lia.
  destruct (le_lt_dec x y) as [Hle|Hlt]; [exact Hle|exfalso].
  apply in_split in Hy as (l1 & l2 & ->).
  rewrite lt_count_app, lt_count_cons in H0.
  destruct (Nat.ltb_spec y x) as [_|H1]; [cbn [b2n] in H0|]; lia.
Qed.

(* a list with an inversion has an adjacent one *)
Lemma inv_pos_adjacent l : inv l = 0 \/ exists a u v b, l = a ++ u :: v :: b /\ v < u.
Proof.
  induction l as [|x l IH]; [now left|].
  destruct IH as [H0|(a & u & v & b & -> & Hvu)].
  - destruct l as [|y l']; [now left|].
    destruct (le_lt_dec x y) as [Hle|Hlt].
    + left. change (inv (x :: y :: l')) with (lt_count x (y :: l') + inv (y :: l')). rewrite H0.
      apply inv0_sorted in H0. inversion H0 as [|? ? _ F]; subst.
      rewrite lt_count_none; [reflexivity|].
      intros z [<-|Hz]; [exact Hle|]. rewrite Forall_forall in F. specialize (F z Hz). lia.
    + right. exists [], x, y, l'. split; [reflexivity|exact Hlt].
  - right. exists (x :: a), u, v, b. split; [reflexivity|exact Hvu].
Qed.

(* ============================================================================================== *)
(** * swap_at on an adjacent pair *)

Lemma upd_app_here {A} (a : list A) x l w : upd (a ++ x :: l) (length a) w = a ++ w :: l.
Proof. induction a as [|h a IH]; [reflexivity|]. cbn [app length upd]. now rewrite IH. Qed.

Lemma swap_at_adjacent {A} (d : A) a u v b :
  swap_at d (a ++ u :: v :: b) (length a) (length a + 1) = a ++ v :: u :: b.
Proof.
  unfold swap_at.
  replace (nth (length a + 1) (a ++ u :: v :: b) d) with v.
  2:{ rewrite app_nth2 by lia. replace (length a + 1 - length a) with 1 by lia. reflexivity. }
  replace (nth (length a) (a ++ u :: v :: b) d) with u.
  2:{ rewrite app_nth2 by lia. rewrite Nat.sub_diag. reflexivity. }
  rewrite upd_app_here.
  replace (a ++ v :: v :: b) with ((a ++ [v]) ++ v :: b) by (rewrite <- app_assoc; reflexivity).
  replace (length a + 1) with (length (a ++ [v])) by (rewrite app_length; reflexivity).
  rewrite upd_app_here, <- app_assoc. reflexivity.
Qed.

(* every list splits at an adjacent pair of positions *)
Lemma split_adjacent {A} (x : list A) i : i + 1 < length x ->
  exists a u v b, x = a ++ u :: v :: b /\ length a = i.
Proof.
  intros H. exists (firstn i x).
  destruct (skipn i x) as [|u r] eqn:E.
  { pose proof (skipn_length i x) as L. rewrite E in L. cbn in L. lia. }
  destruct r as [|v b].
  { pose proof (skipn_length i x) as L. rewrite E in L. cbn in L. lia. }
  exists u, v, b. split.
  - rewrite <- E. symmetry. apply firstn_skipn.
  - rewrite firstn_length. lia.
Qed.
(* ============================================================================================== *)
(** * (B.i) distance from the identity arrangement = number of inversions *)

Definition lnat_eq_dec : forall a b : list nat, {a = b} + {a <> b} := list_eq_dec Nat.eq_dec.

(* the generator list consists of exactly the n-1 swaps of neighbouring positions (i, i+1)
   (as functions on arrangements of length n; order and repetitions are irrelevant) *)
Definition adjacent_swap_gens (n : nat) (gens : list (list nat -> list nat)) : Prop :=
  (forall g, In g gens -> exists i, i + 1 < n /\ forall x, length x = n -> g x = swap_at 0 x i (i + 1)) /\
  (forall i, i + 1 < n -> exists g, In g gens /\ forall x, length x = n -> g x = swap_at 0 x i (i + 1)).

(* the literal generator list of the task *)
Definition cox_gens (n : nat) : list (list nat -> list nat) :=
  map (fun i x => swap_at 0 x i (i + 1)) (seq 0 (n - 1)).

Lemma cox_gens_ok n : adjacent_swap_gens n (cox_gens n).
Proof.
  split.
  - intros g Hg. apply in_map_iff in Hg as (i & <- & Hi). apply in_seq in Hi.
    exists i. split; [lia|]. intros x _. reflexivity.
  - intros i Hi. exists (fun x => swap_at 0 x i (i + 1)). split.
    + apply in_map_iff. exists i. split; [reflexivity|]. apply in_seq. lia.
    + intros x _. reflexivity.
Qed.

Lemma inv_seq a n : inv (seq a n) = 0.
Proof.
  revert a. induction n as [|n IH]; intros a; [reflexivity|].
  cbn [seq inv]. rewrite IH, lt_count_none; [reflexivity|].
  intros y Hy. apply in_seq in Hy. lia.
Qed.

Lemma perm_seq_length t n : Permutation t (seq 0 n) -> length t = n.
Proof. intros P. apply Permutation_length in P. now rewrite seq_length in P. Qed.

Lemma perm_seq_NoDup t n : Permutation t (seq 0 n) -> NoDup t.
Proof. intros P. apply (Permutation_NoDup (Permutation_sym P)). apply seq_NoDup. Qed.

Section Coxeter.
  Variable n : nat.
  Variable gens : list (list nat -> list nat).
  Hypothesis Hgens : adjacent_swap_gens n gens.

  (* one generator: stays an arrangement, and the inversion count moves by exactly one *)
  Lemma cox_gen_step g x : In g gens -> Permutation x (seq 0 n) ->
    Permutation (g x) (seq 0 n) /\ (inv (g x) = S (inv x) \/ S (inv (g x)) = inv x).
  Proof.
    intros Hg P. destruct Hgens as [H1 _]. destruct (H1 g Hg) as (i & Hi & E).
    pose proof (perm_seq_length _ _ P) as L. rewrite (E x L).
    destruct (split_adjacent x i) as (a & u & v & b & -> & La); [lia|]. subst i.
    rewrite swap_at_adjacent. split.
    - eapply Permutation_trans; [|exact P]. apply Permutation_app_head. apply perm_swap.
    - apply inv_adj_swap_pm1. intros ->. apply perm_seq_NoDup in P.
      apply NoDup_remove_2 in P. apply P. apply in_or_app. right. now left.
  Qed.

  Lemma cox_reach_inv_le k t : reach (list nat) gens [seq 0 n] k t ->
    Permutation t (seq 0 n) /\ inv t <= k.
  Proof.
    induction 1 as [s Hs|k x g _ [IHP IHk] Hg].
    - destruct Hs as [<-|[]]. split; [apply Permutation_refl|]. rewrite inv_seq. apply Nat.le_refl.
    - destruct (cox_gen_step g x Hg IHP) as [P [E|E]]; split; try exact P; lia.
  Qed.

  (* bubble sort backwards: t is reached in inv t steps *)
  Lemma cox_reach_inv t : Permutation t (seq 0 n) -> reach (list nat) gens [seq 0 n] (inv t) t.
  Proof.
    remember (inv t) as m eqn:Em. revert t Em. induction m as [|m IH]; intros t Em P.
    - assert (t = seq 0 n) as ->.
      { apply sorted_perm_unique; [apply inv0_sorted; now symmetry|apply seq_strongly_sorted|exact P]. }
      apply reach0. now left.
    - destruct (inv_pos_adjacent t) as [H0|(a & u & v & b & -> & Hvu)]; [lia|].
      pose proof (inv_adj_swap_down a u v b Hvu) as E.
      assert (Permutation (a ++ v :: u :: b) (seq 0 n)) as P'.
      { eapply Permutation_trans; [|exact P]. apply Permutation_app_head. apply perm_swap. }
      pose proof (perm_seq_length _ _ P) as L. rewrite app_length in L. cbn [length] in L.
      destruct Hgens as [_ H2]. destruct (H2 (length a)) as (g & Hg & Eg); [lia|].
      replace (a ++ u :: v :: b) with (g (a ++ v :: u :: b)).
      + apply reachS; [|exact Hg]. apply IH; [lia|exact P'].
      + rewrite Eg by (rewrite app_length; cbn [length]; lia). apply swap_at_adjacent.
  Qed.

  (** distance from [seq 0 n] = number of inversions, on exactly the arrangements of 0..n-1 *)
  Theorem coxeter_distance_is_inversions t d :
    dist_is (list nat) gens [seq 0 n] t d <-> Permutation t (seq 0 n) /\ inv t = d.
  Proof.
    split.
    - intros [R Hmin]. destruct (cox_reach_inv_le d t R) as [P Hle]. split; [exact P|].
      destruct (Nat.eq_dec (inv t) d) as [E|NE]; [exact E|exfalso].
      apply (Hmin (inv t)); [lia|]. now apply cox_reach_inv.
    - intros [P <-]. split; [now apply cox_reach_inv|].
      intros k Hk R. apply cox_reach_inv_le in R. lia.
  Qed.

  (* the same, as membership in the BFS layer *)
  Corollary coxeter_layer_spec t k :
    In t (layer (list nat) lnat_eq_dec gens [seq 0 n] k) <-> Permutation t (seq 0 n) /\ inv t = k.
  Proof. rewrite (ref_layers_dist (list nat) lnat_eq_dec gens). apply coxeter_distance_is_inversions. Qed.
End Coxeter.
(* ============================================================================================== *)
(** * (B.ii) counting arrangements by inversions: insert the largest element *)

(* m inserted with j entries behind it *)
Definition ins_back (j m : nat) (t : list nat) : list nat :=
  firstn (length t - j) t ++ m :: skipn (length t - j) t.

(* all arrangements of 0..n-1: the largest symbol goes to each of the n places of a shorter one *)
Fixpoint arrangements (n : nat) : list (list nat) :=
  match n with
  | O => [[]]
  | S n' => flat_map (fun j => map (ins_back j n') (arrangements n')) (seq 0 (S n'))
  end.

Lemma ins_back_perm j m t : Permutation (ins_back j m t) (m :: t).
Proof.
  unfold ins_back. apply Permutation_sym.
  rewrite <- (firstn_skipn (length t - j) t) at 1. apply Permutation_middle.
Qed.

Lemma inv_insert_max a m b : (forall y, In y (a ++ b) -> y < m) ->
  inv (a ++ m :: b) = inv (a ++ b) + length b.
Proof.
  intros Hm. rewrite !inv_app. cbn [inv].
  rewrite lt_count_all by (intros y Hy; apply Hm, in_or_app; now right).
  assert (cross a (m :: b) = cross a b) as ->; [|lia].
  assert (forall y, In y a -> y < m) as Ha by (intros y Hy; apply Hm, in_or_app; now left).
  clear Hm. induction a as [|x a IH]; [reflexivity|]. cbn [cross].
  rewrite IH by (intros y Hy; apply Ha; now right). rewrite lt_count_cons.
  assert (x < m) as Hx by (apply Ha; now left).
  destruct (Nat.ltb_spec m x) as [H1|_]; [lia|]. reflexivity.
Qed.

Lemma ins_back_inv j m t : j <= length t -> (forall y, In y t -> y < m) ->
  inv (ins_back j m t) = inv t + j.
Proof.
  intros Hj Hm. unfold ins_back. rewrite inv_insert_max.
  - rewrite firstn_skipn, skipn_length. lia.
  - rewrite firstn_skipn. exact Hm.
Qed.

Lemma ins_back_remove j m t : ~ In m t -> remove Nat.eq_dec m (ins_back j m t) = t.
Proof.
  intros Hm. unfold ins_back. rewrite remove_app. cbn [remove].
  destruct (Nat.eq_dec m m) as [_|NE]; [|congruence].
  rewrite <- remove_app, firstn_skipn. now apply notin_remove.
Qed.

(* position of the first occurrence *)
Fixpoint idx (m : nat) (l : list nat) : nat :=
  match l with
  | [] => 0
  | x :: r => if x =? m then 0 else S (idx m r)
  end.

Lemma idx_app m a b : ~ In m a -> idx m (a ++ m :: b) = length a.
Proof.
  induction a as [|x a IH]; intros H.
  - cbn. now rewrite Nat.eqb_refl.
  - cbn [app idx length]. destruct (Nat.eqb_spec x m) as [->|NE]; [exfalso; apply H; now left|].
    rewrite IH; [reflexivity|]. intros Hi. apply H. now right.
Qed.

Lemma ins_back_idx j m t : j <= length t -> ~ In m t -> idx m (ins_back j m t) = length t - j.
Proof.
  intros Hj Hm. unfold ins_back. rewrite idx_app.
  - rewrite firstn_length. lia.
  - intros Hi. apply Hm. rewrite <- (firstn_skipn (length t - j) t). apply in_or_app. now left.
Qed.

Lemma arrangements_spec n t : In t (arrangements n) <-> Permutation t (seq 0 n).
Proof.
  revert t. induction n as [|n IH]; intros t.
  - cbn. split.
    + intros [<-|[]]. apply perm_nil.
    + intros P. apply Permutation_sym, Permutation_nil in P. now left.
  - cbn [arrangements]. rewrite in_flat_map. split.
    + intros (j & _ & Hj). apply in_map_iff in Hj as (t' & <- & Ht'). apply IH in Ht'.
      eapply Permutation_trans; [apply ins_back_perm|].
      rewrite seq_S. cbn [Nat.add].
      eapply Permutation_trans; [|apply Permutation_cons_append]. now apply perm_skip.
    + intros P. rewrite seq_S in P. cbn [Nat.add] in P.
      assert (Permutation t (n :: seq 0 n)) as P1.
      { eapply Permutation_trans; [exact P|]. apply Permutation_sym, Permutation_cons_append. }
      destruct (Permutation_vs_cons_inv P1) as (a & b & ->).
      apply Permutation_sym, Permutation_cons_app_inv, Permutation_sym in P1.
      exists (length b). split.
      * apply in_seq. apply Permutation_length in P1. rewrite app_length, seq_length in P1. lia.
      * apply in_map_iff. exists (a ++ b). split; [|now apply IH].
        unfold ins_back. rewrite app_length.
        replace (length a + length b - length b) with (length a + 0) by lia.
        rewrite firstn_app_2, skipn_app, Nat.add_0_r. cbn [firstn].
        rewrite skipn_all, app_nil_r. replace (length a - length a) with 0 by lia. reflexivity.
  Qed.

Lemma NoDup_app_intro {A} (a b : list A) :
  NoDup a -> NoDup b -> (forall x, In x a -> ~ In x b) -> NoDup (a ++ b).
Proof.
  induction a as [|x a IH]; intros Ha Hb Hd; [exact Hb|].
  cbn [app]. inversion Ha as [|? ? Hx Ha']; subst. constructor.
  - intros Hi. apply in_app_or in Hi as [Hi|Hi]; [now apply Hx|]. apply (Hd x); [now left|exact Hi].
  - apply IH; [exact Ha'|exact Hb|]. intros y Hy. apply Hd. now right.
Qed.

Lemma NoDup_flat_map_intro {A B} (f : A -> list B) (l : list A) :
  NoDup l -> (forall x, In x l -> NoDup (f x)) ->
  (forall x y z, In x l -> In y l -> In z (f x) -> In z (f y) -> x = y) ->
  NoDup (flat_map f l).
Proof.
  induction l as [|x l IH]; intros Hl Hf Hd; [constructor|].
  cbn [flat_map]. inversion Hl as [|? ? Hx Hl']; subst. apply NoDup_app_intro.
  - apply Hf. now left.
  - apply IH; [exact Hl'| |].
    + intros y Hy. apply Hf. now right.
    + intros y1 y2 z H1 H2. apply Hd; now right.
  - intros z Hz Hz'. apply in_flat_map in Hz' as (y & Hy & Hzy).
    assert (x = y) as -> by (apply (Hd x y z); [now left|now right|exact Hz|exact Hzy]).
    now apply Hx.
Qed.

Lemma arrangements_lt n t y : In t (arrangements n) -> In y t -> y < n.
Proof.
  intros Ht Hy. apply arrangements_spec in Ht.
  apply (Permutation_in _ Ht), in_seq in Hy. lia.
Qed.

Lemma arrangements_length n t : In t (arrangements n) -> length t = n.
Proof. intros Ht. apply arrangements_spec in Ht. now apply perm_seq_length. Qed.

Lemma arrangements_NoDup n : NoDup (arrangements n).
Proof.
  induction n as [|n IH]; [cbn; constructor; [intros []|constructor]|].
  cbn [arrangements]. apply NoDup_flat_map_intro.
  - apply seq_NoDup.
  - intros j _. apply NoDup_map_inj; [exact IH|].
    intros t1 t2 H1 H2 E.
    rewrite <- (ins_back_remove j n t1), <- (ins_back_remove j n t2), E; [reflexivity| |].
    + intros Hi. apply (arrangements_lt n t2 n H2) in Hi. lia.
    + intros Hi. apply (arrangements_lt n t1 n H1) in Hi. lia.
  - intros j1 j2 z Hj1 Hj2 H1 H2. apply in_seq in Hj1, Hj2.
    apply in_map_iff in H1 as (t1 & <- & Ht1). apply in_map_iff in H2 as (t2 & E & Ht2).
    apply (f_equal (idx n)) in E.
    pose proof (arrangements_length n t1 Ht1) as L1. pose proof (arrangements_length n t2 Ht2) as L2.
    rewrite !ins_back_idx in E; try lia.
    + intros Hi. apply (arrangements_lt n t1 n Ht1) in Hi. lia.
    + intros Hi. apply (arrangements_lt n t2 n Ht2) in Hi. lia.
Qed.

(* number of arrangements of 0..n-1 with exactly k inversions *)
Definition inv_count (n k : nat) : nat := length (filter (fun t => inv t =? k) (arrangements n)).

Lemma filter_flat_map_length {A B} (f : B -> bool) (g : A -> list B) (l : list A) :
  length (filter f (flat_map g l)) = list_sum (map (fun x => length (filter f (g x))) l).
Proof.
  induction l as [|x l IH]; [reflexivity|].
  cbn [flat_map map list_sum]. now rewrite filter_app, app_length, IH.
Qed.

Lemma filter_map_length {A B} (f : B -> bool) (h : A -> B) (l : list A) :
  length (filter f (map h l)) = length (filter (fun x => f (h x)) l).
Proof.
  induction l as [|x l IH]; [reflexivity|].
  cbn [map filter]. destruct (f (h x)); cbn [length]; now rewrite IH.
Qed.

(* insert the largest element: I(n+1, k) = sum_{j <= n, j <= k} I(n, k-j) *)
Lemma inv_count_S n k :
  inv_count (S n) k = list_sum (map (fun j => if j <=? k then inv_count n (k - j) else 0) (seq 0 (S n))).
Proof.
  unfold inv_count at 1. cbn [arrangements]. rewrite filter_flat_map_length.
  f_equal. apply map_ext_in. intros j Hj. apply in_seq in Hj.
  rewrite filter_map_length.
  destruct (Nat.leb_spec j k) as [Hjk|Hjk].
  - unfold inv_count. f_equal. apply filter_ext_in. intros t Ht.
    rewrite ins_back_inv.
    + destruct (Nat.eqb_spec (inv t + j) k) as [E|NE], (Nat.eqb_spec (inv t) (k - j)) as [E'|NE']; try reflexivity; lia.
    + rewrite (arrangements_length n t Ht). lia.
    + intros y Hy. now apply (arrangements_lt n t y Ht).
  - rewrite (filter_ext_in _ (fun _ => false)); [induction (arrangements n); auto|].
    intros t Ht. rewrite ins_back_inv.
    + apply Nat.eqb_neq. lia.
    + rewrite (arrangements_length n t Ht). lia.
    + intros y Hy. now apply (arrangements_lt n t y Ht).
Qed.

Lemma inv_count_0 k : inv_count 0 k = if k =? 0 then 1 else 0.
Proof. unfold inv_count. cbn. destruct k; reflexivity. Qed.

(** the Mahonian numbers by the product recurrence
    (coefficient of x^k in prod_{i=1}^{n-1} (1 + x + ... + x^i)) *)
Fixpoint mahonian (n k : nat) : N :=
  match n with
  | O => if k =? 0 then 1%N else 0%N
  | S n' => Nsum (map (fun j => mahonian n' (k - j)) (seq 0 (Nat.min (n' + 1) (k + 1))))
  end.

Lemma fold_left_Nadd l : forall a, fold_left N.add l a = (a + fold_left N.add l 0)%N.
Proof.
  induction l as [|x l IH]; intros a; cbn [fold_left]; [lia|].
  rewrite (IH (a + x)%N), (IH (0 + x)%N). lia.
Qed.

Lemma Nsum_cons x l : Nsum (x :: l) = (x + Nsum l)%N.
Proof. unfold Nsum. cbn [fold_left]. rewrite fold_left_Nadd. lia. Qed.

Lemma Nsum_of_nat (G : nat -> nat) l :
  N.of_nat (list_sum (map G l)) = Nsum (map (fun j => N.of_nat (G j)) l).
Proof.
  induction l as [|x l IH]; [reflexivity|].
  cbn [map]. change (list_sum (G x :: map G l)) with (G x + list_sum (map G l)).
  rewrite Nat2N.inj_add, Nsum_cons, IH. reflexivity.
Qed.

Lemma list_sum_truncate (G : nat -> nat) b : (forall j, b <= j -> G j = 0) ->
  forall a, list_sum (map G (seq 0 a)) = list_sum (map G (seq 0 (Nat.min a b))).
Proof.
  intros HG a. induction a as [|a IH]; [reflexivity|].
  rewrite seq_S, map_app, list_sum_app, IH. cbn [Nat.add map]. change (list_sum [G a]) with (G a + 0).
  destruct (le_lt_dec b a) as [H|H].
  - rewrite (HG a H). rewrite !Nat.min_r by lia. lia.
  - rewrite !Nat.min_l by lia. rewrite seq_S, map_app, list_sum_app. reflexivity.
Qed.

Theorem inv_count_mahonian n : forall k, N.of_nat (inv_count n k) = mahonian n k.
Proof.
  induction n as [|n IH]; intros k.
  - rewrite inv_count_0. cbn [mahonian]. destruct (k =? 0); reflexivity.
  - rewrite inv_count_S.
    rewrite (list_sum_truncate _ (k + 1)).
    2:{ intros j Hj. destruct (Nat.leb_spec j k); [lia|reflexivity]. }
    rewrite Nsum_of_nat. cbn [mahonian]. replace (S n) with (n + 1) by lia.
    f_equal. apply map_ext_in. intros j Hj. apply in_seq in Hj.
    destruct (Nat.leb_spec j k); [apply IH|lia].
Qed.
(* ============================================================================================== *)
(** * The Python dynamic programme computes the Mahonian numbers *)

Lemma cox_step_spec m dp i : length dp = m + 1 ->
  (forall k, k <= m -> nth k dp 0%N = mahonian i k) ->
  length (cox_step m dp i) = m + 1 /\
  forall k, k <= m -> nth k (cox_step m dp i) 0%N = mahonian (S i) k.
Proof.
  intros L H. unfold cox_step. split; [now rewrite map_length, seq_length|].
  intros k Hk. rewrite (nth_map_lt _ _ k 0) by (rewrite seq_length; lia).
  rewrite seq_nth by lia. cbn [Nat.add mahonian]. f_equal.
  apply map_ext_in. intros j _. apply H. lia.
Qed.

Lemma cox_fold_spec m len : forall i dp, length dp = m + 1 ->
  (forall k, k <= m -> nth k dp 0%N = mahonian i k) ->
  length (fold_left (cox_step m) (seq i len) dp) = m + 1 /\
  forall k, k <= m -> nth k (fold_left (cox_step m) (seq i len) dp) 0%N = mahonian (i + len) k.
Proof.
  induction len as [|len IH]; intros i dp L H.
  - cbn [seq fold_left]. rewrite Nat.add_0_r. split; [exact L|exact H].
  - cbn [seq fold_left]. destruct (cox_step_spec m dp i L H) as [L' H'].
    replace (i + S len) with (S i + len) by lia. apply IH; [exact L'|exact H'].
Qed.

Lemma mahonian_1 k : mahonian 1 k = if k =? 0 then 1%N else 0%N.
Proof. destruct k; reflexivity. Qed.

Lemma coxeter_growth_length n : length (coxeter_growth n) = n * (n - 1) / 2 + 1.
Proof.
  unfold coxeter_growth. set (m := n * (n - 1) / 2).
  destruct n as [|n]; [reflexivity|].
  apply (cox_fold_spec m (S n - 1) 1).
  - cbn [length]. rewrite repeat_length. lia.
  - intros k _. rewrite mahonian_1. destruct k; [reflexivity|]. cbn [nth Nat.eqb]. apply nth_repeat.
Qed.

Lemma coxeter_growth_in_range n k : k <= n * (n - 1) / 2 ->
  nth k (coxeter_growth n) 0%N = mahonian n k.
Proof.
  unfold coxeter_growth. set (m := n * (n - 1) / 2). intros Hk.
  destruct n as [|n].
  - cbn in m. subst m. assert (k = 0) as -> by lia. reflexivity.
  - replace (mahonian (S n) k) with (mahonian (1 + (S n - 1)) k) by (f_equal; lia).
    apply (cox_fold_spec m (S n - 1) 1); [| |exact Hk].
    + cbn [length]. rewrite repeat_length. lia.
    + intros k' _. rewrite mahonian_1. destruct k'; [reflexivity|]. cbn [nth Nat.eqb]. apply nth_repeat.
Qed.

(* nothing has more than n(n-1)/2 inversions *)
Lemma inv_count_zero n k : n * (n - 1) / 2 < k -> inv_count n k = 0.
Proof.
  intros Hk. unfold inv_count.
  rewrite (filter_ext_in _ (fun _ => false)); [induction (arrangements n); auto|].
  intros t Ht. apply Nat.eqb_neq. pose proof (inv_le t) as H.
  rewrite (arrangements_length n t Ht) in H.
  assert (inv t <= n * (n - 1) / 2) by (apply Nat.div_le_lower_bound; lia). lia.
Qed.

(** every entry of the row, and 0 beyond its end, is the Mahonian number *)
Theorem coxeter_growth_mahonian n k : nth k (coxeter_growth n) 0%N = mahonian n k.
Proof.
  destruct (le_lt_dec k (n * (n - 1) / 2)) as [H|H].
  - now apply coxeter_growth_in_range.
  - rewrite nth_overflow by (rewrite coxeter_growth_length; lia).
    rewrite <- inv_count_mahonian, inv_count_zero by exact H. reflexivity.
Qed.

Lemma Nsum_nonzero x l : In x l -> x <> 0%N -> Nsum l <> 0%N.
Proof.
  induction l as [|y l IH]; intros Hi Hx; [destruct Hi|].
  rewrite Nsum_cons. destruct Hi as [->|Hi]; [lia|]. specialize (IH Hi Hx). lia.
Qed.

Lemma mahonian_nonzero n : forall k, 2 * k <= n * (n - 1) -> mahonian n k <> 0%N.
Proof.
  induction n as [|n IH]; intros k Hk.
  - assert (k = 0) as -> by lia. cbn. lia.
  - cbn [mahonian]. apply (Nsum_nonzero (mahonian n (k - Nat.min n k))).
    + apply in_map_iff. exists (Nat.min n k). split; [reflexivity|]. apply in_seq. lia.
    + apply IH. destruct (le_lt_dec k n) as [H|H].
      * rewrite Nat.min_r by lia. nia.
      * rewrite Nat.min_l by lia. nia.
Qed.

(* ============================================================================================== *)
(** * (B) the COXETER theorem *)

(** For every n and every k: the number of arrangements at distance exactly k from [seq 0 n] under the
    n-1 adjacent swaps is entry k of the Python row (0 beyond the end of the row). *)
Theorem coxeter_growth_correct n gens : adjacent_swap_gens n gens ->
  forall k, N.of_nat (length (layer (list nat) lnat_eq_dec gens [seq 0 n] k)) = nth k (coxeter_growth n) 0%N.
Proof.
  intros Hg k. rewrite coxeter_growth_mahonian, <- inv_count_mahonian. f_equal.
  unfold inv_count. apply Permutation_length. apply NoDup_Permutation.
  - apply (layer_NoDup (list nat) lnat_eq_dec gens).
  - apply NoDup_filter, arrangements_NoDup.
  - intros t. rewrite (coxeter_layer_spec n gens Hg), filter_In, arrangements_spec, Nat.eqb_eq. reflexivity.
Qed.

(** the row has exactly n(n-1)/2 + 1 terms and none of them is zero *)
Theorem coxeter_growth_nonzero_terms n :
  length (coxeter_growth n) = n * (n - 1) / 2 + 1 /\ Forall (fun v => v <> 0%N) (coxeter_growth n).
Proof.
  split; [apply coxeter_growth_length|].
  apply Forall_forall. intros v Hv. apply (In_nth _ _ 0%N) in Hv as (k & Hk & <-).
  rewrite coxeter_growth_length in Hk. rewrite coxeter_growth_mahonian.
  apply mahonian_nonzero.
  assert (k <= n * (n - 1) / 2) as H by lia.
  pose proof (Nat.mul_div_le (n * (n - 1)) 2). lia.
Qed.

(** ... so the graph has exactly the distance classes 0 .. n(n-1)/2 (diameter n(n-1)/2) *)
Corollary coxeter_layer_nonempty_iff n gens : adjacent_swap_gens n gens ->
  forall k, layer (list nat) lnat_eq_dec gens [seq 0 n] k <> [] <-> k <= n * (n - 1) / 2.
Proof.
  intros Hg k. pose proof (coxeter_growth_correct n gens Hg k) as E.
  destruct (coxeter_growth_nonzero_terms n) as [L F]. split.
  - intros Hne. destruct (le_lt_dec k (n * (n - 1) / 2)) as [H|H]; [exact H|exfalso].
    rewrite nth_overflow in E by lia.
    destruct (layer (list nat) lnat_eq_dec gens [seq 0 n] k); [now apply Hne|discriminate].
  - intros Hk Hnil. rewrite Hnil in E. cbn in E.
    rewrite Forall_forall in F. apply (F (nth k (coxeter_growth n) 0%N)); [|now symmetry].
    apply nth_In. lia.
Qed.

(* ---- instance 1: the literal generator list ---- *)
Theorem coxeter_growth_correct_literal n k :
  N.of_nat (length (layer (list nat) lnat_eq_dec (cox_gens n) [seq 0 n] k)) = nth k (coxeter_growth n) 0%N.
Proof. apply coxeter_growth_correct, cox_gens_ok. Qed.

(* ---- instance 2: the generators of the Families.v model, acting through apply_perm ---- *)
Lemma families_coxeter_gens_ok n d :
  length (p_gens d) = n - 1 ->
  (forall x i, length x = n -> i < n - 1 -> apply_perm 0 (nth i (p_gens d) []) x = swap_at 0 x i (i + 1)) ->
  adjacent_swap_gens n (map (fun p => apply_perm 0 p) (p_gens d)).
Proof.
  intros L H. split.
  - intros g Hg. apply in_map_iff in Hg as (p & <- & Hp).
    apply (In_nth _ _ []) in Hp as (i & Hi & <-). exists i. split; [lia|].
    intros x Lx. apply H; [exact Lx|lia].
  - intros i Hi. exists (apply_perm 0 (nth i (p_gens d) [])). split.
    + apply in_map_iff. exists (nth i (p_gens d) []). split; [reflexivity|]. apply nth_In. lia.
    + intros x Lx. apply H; [exact Lx|lia].
Qed.

Theorem coxeter_growth_correct_families n : 2 <= n ->
  exists d, coxeter (Z.of_nat n) = Ok d /\
    forall k, N.of_nat (length (layer (list nat) lnat_eq_dec (map (fun p => apply_perm 0 p) (p_gens d)) [seq 0 n] k))
              = nth k (coxeter_growth n) 0%N.
Proof.
  intros Hn. destruct (coxeter_documented n Hn) as (d & E & L & _ & _ & H).
  exists d. split; [exact E|]. intros k. apply coxeter_growth_correct.
  apply families_coxeter_gens_ok; [exact L|]. intros x i Lx Hi. now apply H.
Qed.

(* non-vacuity of the hypotheses, and the statements checked by running the textbook BFS *)
Example adjacent_swap_gens_instance : adjacent_swap_gens 4 (cox_gens 4).
Proof. apply cox_gens_ok. Qed.

Example coxeter_families_instance : 2 <= 4.
Proof. lia. Qed.

Example coxeter_layers_5 :
  map (fun k => N.of_nat (length (layer (list nat) lnat_eq_dec (cox_gens 5) [seq 0 5] k))) (seq 0 13)
  = coxeter_growth 5 ++ [0; 0]%N.
Proof. vm_compute. reflexivity. Qed.

Example coxeter_distance_instance :
  dist_is (list nat) (cox_gens 4) [seq 0 4] [2; 0; 3; 1] 3.
Proof.
  apply (coxeter_distance_is_inversions 4 (cox_gens 4) (cox_gens_ok 4)). split; [|reflexivity].
  apply (is_perm_iff [2; 0; 3; 1]). reflexivity.
Qed.

(* the same rows from the verified reference BFS (RefBfs.v) run on the one-line generators, n <= 5 *)
Example coxeter_refbfs_le5 :
  forallb (fun n =>
    match growth_fuel (rb_funs (RBPerm (map (fun i => transp n i (i + 1)) (seq 0 (n - 1)))))
                      [map Z.of_nat (seq 0 n)] 20 with
    | Some sizes => nat_list_eqb sizes (map N.to_nat (coxeter_growth n))
    | None => false
    end) [2; 3; 4; 5] = true.
Proof. vm_compute. reflexivity. Qed.

Print Assumptions coxeter_distance_is_inversions.
Print Assumptions coxeter_growth_correct.
Print Assumptions coxeter_growth_nonzero_terms.
Print Assumptions coxeter_layer_nonempty_iff.
Print Assumptions coxeter_growth_correct_literal.
Print Assumptions coxeter_growth_correct_families.
Print Assumptions coxeter_growth_mahonian.
