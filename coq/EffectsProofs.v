(** Re-proved on every run from the regenerated effect table: no public operation writes a non-cache
    attribute of a graph, hasher, encoder, definition or result object outside its constructor. *)
From Coq Require Import List Bool String.
From V Require Import EffectsDefs.
From V.gen Require Import Effects.
Import ListNotations.

Theorem writes_only_caches : forallb effect_ok effects = true.
Proof. vm_compute. reflexivity. Qed.

Corollary every_effect_ok : forall e, In e effects -> effect_ok e = true.
Proof. apply forallb_forall. exact writes_only_caches. Qed.

(* the table is not empty and contains the cache write (non-vacuity) *)
Example effects_nonempty : existsb (fun e => match e_base e with BParamGraph => true | _ => false end) effects = true.
Proof. vm_compute. reflexivity. Qed.
