(** Correctness of the top-level path finder [find_path_one] (PathRun.v; algo/find_path.py without a model):
    any answer replays from the start state to the central state and is a shortest such walk; an answer
    exists exactly when the distance is within twice the ball depth (C12). *)
From Coq Require Import ZArith List Bool Arith Lia Permutation Sorted.
From V Require Import Base BaseProofs Tensor TensorProofs Graph GraphProofs GraphImpl Bfs BfsStep BfsProofs
                      Def Paths PathsProofs Mitm MitmProofs PathRun.
Import ListNotations.
Local Open Scope nat_scope.

Section FindPathCorrect.
  Variable e : path_env.
  Local Notation G := (pe_G e).
  Local Notation Gi := (pe_Ginv e).
  Variable U : state -> Prop.
  Hypothesis U_closed : closed state (acts G) U.
  Hypothesis U_closed_inv : closed state (acts Gi) U.
  Hypothesis NoColl : forall a b, U a -> U b -> hashf G a = hashf G b -> a = b.
  Hypothesis same_hash : forall s, hashf Gi s = hashf G s.
  Hypothesis same_len : length (acts Gi) = length (acts G).
  Hypothesis inv_undo : forall i g gi x, nth_error (acts G) i = Some g -> nth_error (acts Gi) i = Some gi -> U x ->
                         g (gi x) = x /\ gi (g x) = x.
  Hypothesis IdOK : is_identity G = true -> forall a, U a -> unword G (hashf G a) = a.
  Hypothesis IdOK_inv : is_identity Gi = true -> forall a, U a -> unword Gi (hashf Gi a) = a.
  (* only the inverted instance's flag matters: the original one runs a backward BFS in the directed
     branch only, where its flag is false *)
  Hypothesis Sym_inv : inv_closed Gi = true -> symmetric_on state (acts Gi) U.
  Hypothesis same_central : central Gi = central G.
  Local Notation c := (central G).
  Hypothesis c_U : U c.
  Hypothesis small : forall q k,
    (Z.of_nat (length (layer state st_eq_dec (acts G) [q] k)) < 1000000000000)%Z.
  Hypothesis small_inv : forall q k,
    (Z.of_nat (length (layer state st_eq_dec (acts Gi) [q] k)) < 1000000000000)%Z.

  (* the inverse map (generators_inverse_map), when there is one, is sound on U *)
  Definition invmap_ok (m : list nat) : Prop :=
    forall i g, nth_error (acts G) i = Some g ->
      exists g', nth_error (acts G) (nth i m 0) = Some g' /\ forall x, U x -> g' (g x) = x.
  Hypothesis invmap_sound : forall m, pe_invmap e = Some m -> invmap_ok m.

  Local Notation runG := (run state (acts G)).
  Local Notation distG := (dist_is state (acts G)).

  (* the ball the finder uses: around c in G when G is inverse closed, around c in the inverted graph otherwise *)
  Definition balls_ok (lhf : list (list Z)) (nsf : nat) (lhi : list (list Z)) (nsi : nat) : Prop :=
    (inv_closed G = true -> ball_ok G c lhf /\ length lhf = nsf /\ 1 <= nsf) /\
    (inv_closed G = false -> ball_ok Gi c lhi /\ length lhi = nsi /\ 1 <= nsi).
  Definition ball_depth (nsf nsi : nat) : nat := (if inv_closed G then nsf else nsi) - 1.

  (* ---------------------------------------------------------------- *)
  (** ** The hypotheses with the roles exchanged *)

  Lemma NoColl_i a b : U a -> U b -> hashf Gi a = hashf Gi b -> a = b.
  Proof. rewrite !same_hash. apply NoColl. Qed.

  Lemma same_hash_sw s : hashf G s = hashf Gi s.
  Proof. symmetry. apply same_hash. Qed.

  Lemma same_len_sw' : length (acts G) = length (acts Gi).
  Proof. symmetry. exact same_len. Qed.

  Lemma inv_undo_sw' i gi g x :
    nth_error (acts Gi) i = Some gi -> nth_error (acts G) i = Some g -> U x -> gi (g x) = x /\ g (gi x) = x.
  Proof. intros Hgi Hg Hx. destruct (inv_undo i g gi x Hg Hgi Hx). auto. Qed.

  (* ---------------------------------------------------------------- *)
  (** ** Inverse-closed generators: walks can be turned around *)

  Lemma reach_sym m a b k : invmap_ok m -> U a -> reach state (acts G) [a] k b -> reach state (acts G) [b] k a.
  Proof.
    intros Hm Ha Hr. apply reach_one_walk in Hr. destruct Hr as (p & Hl & Hrun).
    destruct (revert_path_valid G U U_closed m a b p Hm Ha Hrun) as (q' & _ & Hl' & Hrun').
    apply reach_one_walk. exists q'. split; [lia | exact Hrun'].
  Qed.

  Lemma dist_sym m a b d : invmap_ok m -> U a -> U b -> distG [a] b d -> distG [b] a d.
  Proof.
    intros Hm Ha Hb [H1 H2]. split.
    - eapply reach_sym; eauto.
    - intros k Hk Hr. apply (H2 k Hk). eapply reach_sym; eauto.
  Qed.

  (* ---------------------------------------------------------------- *)
  (** ** The two branches of the finder *)

  Lemma fpo_closed lhf nsf lhi nsi s :
    inv_closed G = true ->
    find_path_one e (lhf, nsf) (lhi, nsi) s =
    do r <- mitm_find_path_to G Gi lhf nsf (hashf G c) s;
    match r with None => Ok None | Some p => do q <- revert_path (pe_invmap e) p; Ok (Some q) end.
  Proof. intros H. unfold find_path_one, run_query. rewrite H. reflexivity. Qed.

  Lemma fpo_directed lhf nsf lhi nsi s :
    inv_closed G = false ->
    find_path_one e (lhf, nsf) (lhi, nsi) s =
    do r <- mitm_find_path_to Gi G lhi nsi (hashf Gi c) s;
    match r with None => Ok None | Some p => Ok (Some (rev p)) end.
  Proof. intros H. unfold find_path_one. rewrite H, same_central. reflexivity. Qed.

  Lemma Sym_dir : inv_closed G = false -> inv_closed G = true -> symmetric_on state (acts G) U.
  Proof. intros H1 H2. congruence. Qed.

  (* C12: whatever is returned replays from the start state to the central state, and is a shortest such walk *)
  Theorem find_path_valid lhf nsf lhi nsi s p :
    balls_ok lhf nsf lhi nsi -> U s ->
    find_path_one e (lhf, nsf) (lhi, nsi) s = Ok (Some p) ->
    runG s p = Some c /\ distG [s] c (length p) /\ length p <= 2 * ball_depth nsf nsi.
  Proof.
    intros [HbF HbI] Hs Hres. unfold ball_depth. destruct (inv_closed G) eqn:Eic.
    - (* inverse closed: MITM towards s in G, then revert_path *)
      destruct (HbF eq_refl) as (Hb & Hl & Hns).
      rewrite (fpo_closed lhf nsf lhi nsi s Eic) in Hres.
      destruct (mitm_find_path_to G Gi lhf nsf (hashf G c) s) as [[p0|]|er] eqn:Em;
        cbn [bind] in Hres; try discriminate.
      destruct (pe_invmap e) as [m|] eqn:Emap; [|discriminate].
      pose proof (invmap_sound m eq_refl) as Hm.
      destruct (mitm_to_sound G Gi U U_closed U_closed_inv NoColl same_hash same_len inv_undo IdOK_inv Sym_inv
                  c c_U small_inv lhf nsf s p0 Hb Hl Hns Hs Em) as (Hrun & Hdist & Hle).
      destruct (revert_path_valid G U U_closed m c s p0 Hm c_U Hrun) as (q' & Hrev & Hlq & Hrunq).
      rewrite Hrev in Hres. cbn [bind] in Hres. inversion Hres; subst q'.
      rewrite Hlq. split; [exact Hrunq|]. split; [|exact Hle].
      apply (dist_sym m c s); auto.
    - (* directed: MITM towards s in the inverted graph, then reverse the sequence *)
      destruct (HbI eq_refl) as (Hb & Hl & Hns).
      rewrite (fpo_directed lhf nsf lhi nsi s Eic) in Hres.
      destruct (mitm_find_path_to Gi G lhi nsi (hashf Gi c) s) as [[p0|]|er] eqn:Em;
        cbn [bind] in Hres; try discriminate.
      inversion Hres; subst p.
      destruct (mitm_to_sound Gi G U U_closed_inv U_closed NoColl_i same_hash_sw same_len_sw' inv_undo_sw' IdOK
                  (Sym_dir Eic) c c_U small lhi nsi s p0 Hb Hl Hns Hs Em) as (Hrun & Hdist & Hle).
      rewrite rev_length. split; [|split; [|exact Hle]].
      + apply (run_inv_rev G Gi U U_closed_inv same_len inv_undo c p0 s c_U Hrun).
      + apply (dist_rev G Gi U U_closed U_closed_inv same_len inv_undo c s (length p0) c_U Hs). exact Hdist.
  Qed.

  (* C12: within twice the ball depth a path is found, and its length is the distance *)
  Theorem find_path_shortest lhf nsf lhi nsi s d :
    balls_ok lhf nsf lhi nsi -> U s ->
    (inv_closed G = true -> exists m, pe_invmap e = Some m) ->
    distG [s] c d -> d <= 2 * ball_depth nsf nsi ->
    exists p, find_path_one e (lhf, nsf) (lhi, nsi) s = Ok (Some p) /\ length p = d /\ runG s p = Some c.
  Proof.
    intros Hballs Hs Hmap Hdist Hd.
    assert (Hfind : exists p, find_path_one e (lhf, nsf) (lhi, nsi) s = Ok (Some p)).
    { destruct Hballs as [HbF HbI]. unfold ball_depth in Hd. destruct (inv_closed G) eqn:Eic.
      - destruct (HbF eq_refl) as (Hb & Hl & Hns). destruct (Hmap eq_refl) as (m & Emap).
        pose proof (invmap_sound m Emap) as Hm.
        rewrite (fpo_closed lhf nsf lhi nsi s Eic).
        assert (Hdc : distG [c] s d) by (apply (dist_sym m s c); auto).
        destruct (mitm_to_complete G Gi U U_closed U_closed_inv NoColl same_hash same_len inv_undo IdOK_inv Sym_inv
                    c c_U small_inv lhf nsf s d Hb Hl Hns Hs
                    (ball_central_hash G c lhf Hb ltac:(lia)) Hdc Hd) as (p0 & Em).
        rewrite Em. cbn [bind]. rewrite Emap.
        destruct (mitm_to_sound G Gi U U_closed U_closed_inv NoColl same_hash same_len inv_undo IdOK_inv Sym_inv
                    c c_U small_inv lhf nsf s p0 Hb Hl Hns Hs Em) as (Hrun & _ & _).
        destruct (revert_path_valid G U U_closed m c s p0 Hm c_U Hrun) as (q' & Hrev & _ & _).
        rewrite Hrev. cbn [bind]. exists q'. reflexivity.
      - destruct (HbI eq_refl) as (Hb & Hl & Hns).
        rewrite (fpo_directed lhf nsf lhi nsi s Eic).
        assert (Hdc : dist_is state (acts Gi) [c] s d).
        { apply (dist_rev G Gi U U_closed U_closed_inv same_len inv_undo c s d c_U Hs). exact Hdist. }
        destruct (mitm_to_complete Gi G U U_closed_inv U_closed NoColl_i same_hash_sw same_len_sw' inv_undo_sw' IdOK
                    (Sym_dir Eic) c c_U small lhi nsi s d Hb Hl Hns Hs
                    (ball_central_hash Gi c lhi Hb ltac:(lia)) Hdc Hd) as (p0 & Em).
        rewrite Em. cbn [bind]. exists (rev p0). reflexivity. }
    destruct Hfind as (p & Hp). exists p. split; [exact Hp|].
    destruct (find_path_valid lhf nsf lhi nsi s p Hballs Hs Hp) as (Hrun & Hdp & _).
    split; [|exact Hrun].
    eapply dist_unique; eauto.
  Qed.

  (* beyond twice the ball depth (or unreachable) the finder answers None *)
  Theorem find_path_none lhf nsf lhi nsi s :
    balls_ok lhf nsf lhi nsi -> U s ->
    (inv_closed G = true -> exists m, pe_invmap e = Some m) ->
    (forall d, distG [s] c d -> 2 * ball_depth nsf nsi < d) ->
    find_path_one e (lhf, nsf) (lhi, nsi) s = Ok None.
  Proof.
    intros [HbF HbI] Hs Hmap Hfar. unfold ball_depth in Hfar. destruct (inv_closed G) eqn:Eic.
    - destruct (HbF eq_refl) as (Hb & Hl & Hns). destruct (Hmap eq_refl) as (m & Emap).
      pose proof (invmap_sound m Emap) as Hm.
      rewrite (fpo_closed lhf nsf lhi nsi s Eic).
      rewrite (mitm_to_none G Gi U U_closed U_closed_inv NoColl same_hash same_len inv_undo IdOK_inv Sym_inv
                 c c_U small_inv lhf nsf s Hb Hl Hns Hs (ball_central_hash G c lhf Hb ltac:(lia))).
      + reflexivity.
      + intros d Hd. apply Hfar. apply (dist_sym m c s); auto.
    - destruct (HbI eq_refl) as (Hb & Hl & Hns).
      rewrite (fpo_directed lhf nsf lhi nsi s Eic).
      rewrite (mitm_to_none Gi G U U_closed_inv U_closed NoColl_i same_hash_sw same_len_sw' inv_undo_sw' IdOK
                 (Sym_dir Eic) c c_U small lhi nsi s Hb Hl Hns Hs (ball_central_hash Gi c lhi Hb ltac:(lia))).
      + reflexivity.
      + intros d Hd. apply Hfar.
        apply (dist_rev G Gi U U_closed U_closed_inv same_len inv_undo c s d c_U Hs). exact Hd.
  Qed.
End FindPathCorrect.

Print Assumptions find_path_valid.
Print Assumptions find_path_shortest.
Print Assumptions find_path_none.
