(** SaveLoadUtf8.v - discharges the Python-side assumption of SaveLoadFull.v section VlenStrings with a
    concrete UTF-8 codec on Unicode scalar values, so that the generator-name round trip is stated for
    Python strs (sequences of code points) and not only for their bytes.  Compile after SaveLoadFull.v. *)
From Coq Require Import ZArith NArith List Bool Lia String Ascii.
From V Require Import Base SaveLoad SaveLoadProofs SaveLoadFull.
Import ListNotations.
Open Scope Z_scope.

Ltac Zify.zify_post_hook ::= Z.to_euclidean_division_equations.

(** a Python str is a list of code points; it can be encoded iff every one is a Unicode scalar value *)
Definition valid_cp (n : Z) : Prop := 0 <= n < 55296 \/ 57344 <= n < 1114112.

(** str.encode("utf-8"), one code point *)
Definition encode_cp (n : Z) : list Z :=
  if n <? 128 then [n]
  else if n <? 2048 then [192 + n / 64; 128 + n mod 64]
  else if n <? 65536 then [224 + n / 4096; 128 + (n / 64) mod 64; 128 + n mod 64]
  else [240 + n / 262144; 128 + (n / 4096) mod 64; 128 + (n / 64) mod 64; 128 + n mod 64].

Definition is_cont (b : Z) : bool := (128 <=? b) && (b <? 192).

(** bytes.decode("utf-8"), strict: rejects stray continuation bytes, overlong forms, surrogates, > U+10FFFF *)
Fixpoint decode_bytes (bs : list Z) : option (list Z) :=
  match bs with
  | [] => Some []
  | b0 :: r =>
    if b0 <? 128 then option_map (cons b0) (decode_bytes r)
    else if b0 <? 194 then None
    else if b0 <? 224 then
      match r with
      | b1 :: r1 =>
          if is_cont b1 then option_map (cons ((b0 - 192) * 64 + (b1 - 128))) (decode_bytes r1) else None
      | _ => None
      end
    else if b0 <? 240 then
      match r with
      | b1 :: b2 :: r2 =>
          let n := (b0 - 224) * 4096 + (b1 - 128) * 64 + (b2 - 128) in
          if is_cont b1 && is_cont b2 && (2048 <=? n) && negb ((55296 <=? n) && (n <? 57344))
          then option_map (cons n) (decode_bytes r2) else None
      | _ => None
      end
    else if b0 <? 245 then
      match r with
      | b1 :: b2 :: b3 :: r3 =>
          let n := (b0 - 240) * 262144 + (b1 - 128) * 4096 + (b2 - 128) * 64 + (b3 - 128) in
          if is_cont b1 && is_cont b2 && is_cont b3 && (65536 <=? n) && (n <? 1114112)
          then option_map (cons n) (decode_bytes r3) else None
      | _ => None
      end
    else None
  end.

Ltac split_tests :=
  repeat match goal with
         | |- context [(?a <? ?b)] => destruct (Z.ltb_spec a b); try lia
         | |- context [(?a <=? ?b)] => destruct (Z.leb_spec a b); try lia
         end.

Lemma decode_encode_cp n rest : valid_cp n ->
  decode_bytes (encode_cp n ++ rest) = option_map (cons n) (decode_bytes rest).
Proof.
  intro V. unfold valid_cp in V. unfold encode_cp.
  destruct (Z.ltb_spec n 128) as [H1|H1].
  { cbn [app decode_bytes]. destruct (Z.ltb_spec n 128); [reflexivity | lia]. }
  destruct (Z.ltb_spec n 2048) as [H2|H2].
  { cbn [app decode_bytes]. unfold is_cont.
    set (q := n / 64) in *. set (r := n mod 64) in *.
    assert (Hq : n = 64 * q + r /\ 0 <= r < 64) by (subst q r; lia). clearbody q r.
    split_tests. cbn [andb]. replace ((192 + q - 192) * 64 + (128 + r - 128)) with n by lia. reflexivity. }
  destruct (Z.ltb_spec n 65536) as [H3|H3].
  { cbn [app decode_bytes]. unfold is_cont. cbv zeta.
    set (q := n / 4096) in *. set (m := (n / 64) mod 64) in *. set (r := n mod 64) in *.
    assert (Hq : n = 4096 * q + 64 * m + r /\ 0 <= r < 64 /\ 0 <= m < 64) by (subst q m r; lia).
    clearbody q m r.
    replace ((224 + q - 224) * 4096 + (128 + m - 128) * 64 + (128 + r - 128)) with n by lia.
    split_tests; cbn [andb negb]; reflexivity. }
  { cbn [app decode_bytes]. unfold is_cont. cbv zeta.
    set (q := n / 262144) in *. set (m1 := (n / 4096) mod 64) in *.
    set (m := (n / 64) mod 64) in *. set (r := n mod 64) in *.
    assert (Hq : n = 262144 * q + 4096 * m1 + 64 * m + r /\ 0 <= r < 64 /\ 0 <= m < 64 /\ 0 <= m1 < 64)
      by (subst q m1 m r; lia).
    clearbody q m1 m r.
    replace ((240 + q - 240) * 262144 + (128 + m1 - 128) * 4096 + (128 + m - 128) * 64 + (128 + r - 128))
      with n by lia.
    split_tests; cbn [andb negb]; reflexivity. }
Qed.

Theorem decode_encode_bytes cps : Forall valid_cp cps ->
  decode_bytes (flat_map encode_cp cps) = Some cps.
Proof.
  induction cps as [|n t IH]; intro V; [reflexivity|].
  inversion V as [|x l Vn Vt]. subst x l.
  cbn [flat_map]. rewrite (decode_encode_cp n _ Vn), (IH Vt). reflexivity.
Qed.

(** every produced byte is a byte, and it is 0 only for the code point U+0000 *)
Lemma encode_cp_range n : valid_cp n -> Forall (fun b => 0 <= b < 256) (encode_cp n).
Proof.
  intro V. unfold valid_cp in V. unfold encode_cp.
  destruct (Z.ltb_spec n 128); [repeat constructor; lia|].
  destruct (Z.ltb_spec n 2048); [repeat constructor; lia|].
  destruct (Z.ltb_spec n 65536); repeat constructor; lia.
Qed.

Lemma encode_cp_zero n : valid_cp n -> (In 0 (encode_cp n) <-> n = 0).
Proof.
  intro V. unfold valid_cp in V. unfold encode_cp.
  destruct (Z.ltb_spec n 128); [cbn [In]; intuition lia|].
  destruct (Z.ltb_spec n 2048); [cbn [In]; intuition lia|].
  destruct (Z.ltb_spec n 65536); cbn [In]; intuition lia.
Qed.

(** ** bytes <-> Coq strings *)
Definition byte_of_Z (b : Z) : ascii := ascii_of_N (Z.to_N b).
Definition Z_of_byte (c : ascii) : Z := Z.of_N (N_of_ascii c).

Lemma Z_of_byte_of_Z b : 0 <= b < 256 -> Z_of_byte (byte_of_Z b) = b.
Proof.
  intro H. unfold Z_of_byte, byte_of_Z. rewrite N_ascii_embedding by lia. lia.
Qed.

Lemma byte_of_Z_nul b : 0 <= b < 256 -> (Ascii.eqb (byte_of_Z b) nul = true <-> b = 0).
Proof.
  intro H. rewrite Ascii.eqb_eq. split.
  - intro E. apply (f_equal Z_of_byte) in E. rewrite Z_of_byte_of_Z in E by exact H. exact E.
  - intros ->. reflexivity.
Qed.

Definition string_of_bytes (bs : list Z) : string :=
  fold_right (fun b s => String (byte_of_Z b) s) EmptyString bs.
Fixpoint bytes_of_string (s : string) : list Z :=
  match s with
  | EmptyString => []
  | String c t => Z_of_byte c :: bytes_of_string t
  end.

Lemma bytes_of_string_of_bytes bs : Forall (fun b => 0 <= b < 256) bs ->
  bytes_of_string (string_of_bytes bs) = bs.
Proof.
  induction bs as [|b t IH]; intro F; [reflexivity|].
  inversion F as [|x l Hb Ft]. subst x l.
  cbn [string_of_bytes fold_right bytes_of_string]. fold (string_of_bytes t).
  rewrite Z_of_byte_of_Z by exact Hb. rewrite IH by exact Ft. reflexivity.
Qed.

Lemma has_nul_string_of_bytes bs : Forall (fun b => 0 <= b < 256) bs ->
  (has_nul (string_of_bytes bs) = true <-> In 0 bs).
Proof.
  induction bs as [|b t IH]; intro F; [simpl; split; [discriminate | tauto]|].
  inversion F as [|x l Hb Ft]. subst x l.
  cbn [string_of_bytes fold_right has_nul]. fold (string_of_bytes t).
  rewrite orb_true_iff, (byte_of_Z_nul b Hb), (IH Ft). simpl. intuition.
Qed.

(** ** the codec on Python strs *)
Definition pystr := list Z.
Definition py_valid (s : pystr) : Prop := Forall valid_cp s.
Definition utf8_encode (s : pystr) : string := string_of_bytes (flat_map encode_cp s).
Definition utf8_decode (b : string) : option pystr := decode_bytes (bytes_of_string b).

Lemma encode_range s : py_valid s -> Forall (fun b => 0 <= b < 256) (flat_map encode_cp s).
Proof.
  induction s as [|n t IH]; intro V; [constructor|].
  inversion V as [|x l Vn Vt]. subst x l. cbn [flat_map].
  apply Forall_app. split; [apply encode_cp_range, Vn | apply IH, Vt].
Qed.

Theorem utf8_decode_encode s : py_valid s -> utf8_decode (utf8_encode s) = Some s.
Proof.
  intro V. unfold utf8_decode, utf8_encode.
  rewrite bytes_of_string_of_bytes by (apply encode_range, V). apply decode_encode_bytes, V.
Qed.

(** the encoding contains a NUL byte exactly when the str contains U+0000 *)
Theorem utf8_has_nul s : py_valid s -> (has_nul (utf8_encode s) = true <-> In 0 s).
Proof.
  intro V. unfold utf8_encode. rewrite has_nul_string_of_bytes by (apply encode_range, V).
  rewrite in_flat_map. split.
  - intros [n [Hn H0]]. unfold py_valid in V. rewrite Forall_forall in V.
    apply (encode_cp_zero n (V n Hn)) in H0. subst n. exact Hn.
  - intro H0. exists 0. split; [exact H0 | left; reflexivity].
Qed.

(** ** A2(iv) at the level of Python strs, closed: names of arbitrary length over all of Unicode *)
Theorem names_unicode_roundtrip (names : list pystr) :
  Forall py_valid names -> Forall (fun s => ~ In 0 s) names ->
  exists cells,
    py_store_names pystr utf8_encode string cstr_write names = Ok cells /\
    py_fetch_names pystr utf8_decode string cstr_read cells = Some names.
Proof.
  intros V N.
  apply (names_str_roundtrip pystr py_valid utf8_encode utf8_decode utf8_decode_encode
           string cstr_write cstr_read cstr_write_ok); [exact V|].
  rewrite Forall_forall in *. intros s Hs.
  destruct (has_nul (utf8_encode s)) eqn:E; [|reflexivity].
  exfalso. apply (N s Hs). apply (utf8_has_nul s (V s Hs)), E.
Qed.

(** and a str containing U+0000 makes the save fail loudly instead of cutting the name *)
Theorem names_unicode_nul_rejected (names : list pystr) :
  Forall py_valid names -> Exists (fun s => In 0 s) names ->
  py_store_names pystr utf8_encode string cstr_write names = Err ValueErr.
Proof.
  intros V E. unfold py_store_names.
  apply (names_nul_rejected string cstr_write cstr_read cstr_write_ok cstr_write_nul).
  apply Exists_exists in E. destruct E as [s [Hs H0]].
  apply Exists_exists. exists (utf8_encode s). split; [apply in_map, Hs|].
  rewrite Forall_forall in V. apply (utf8_has_nul s (V s Hs)), H0.
Qed.

(** Non-vacuity: "é" (U+00E9), "日本" (U+65E5 U+672C), an emoji (U+1F600), ASCII, the empty name *)
Example ex_unicode_names :
  let names : list pystr := [[233]; [26085; 26412]; [128512]; [40; 48; 44; 49; 41]; []] in
  Forall py_valid names /\ Forall (fun s => ~ In 0 s) names /\
  map (fun s => bytes_of_string (utf8_encode s)) names =
    [[195; 169]; [230; 151; 165; 230; 156; 172]; [240; 159; 152; 128]; [40; 48; 44; 49; 41]; []] /\
  map (fun s => utf8_decode (utf8_encode s)) names = map Some names.
Proof.
  cbv zeta. split; [|split; [|split]].
  - repeat constructor; unfold valid_cp; lia.
  - repeat constructor; simpl; intuition discriminate.
  - vm_compute. reflexivity.
  - vm_compute. reflexivity.
Qed.

(** the decoder is strict: overlong "C0 80", a lone continuation byte, a CESU surrogate are all refused *)
Example ex_decode_strict :
  decode_bytes [192; 128] = None /\ decode_bytes [128] = None /\ decode_bytes [237; 160; 128] = None /\
  decode_bytes [244; 144; 128; 128] = None /\ decode_bytes [226; 130] = None.
Proof. repeat split; reflexivity. Qed.

Print Assumptions utf8_decode_encode.
Print Assumptions utf8_has_nul.
Print Assumptions names_unicode_roundtrip.
Print Assumptions names_unicode_nul_rejected.
