(** C15, matrix part: theorems about the three MATRIX family models of Families.v
    ([heisenberg], [special_linear_fundamental_roots], [special_linear_root_weyl]) that hold for EVERY n and
    every valid modulo (modulo = 0, or 2 <= modulo <= 2^31); no bound on n (in particular n may exceed 2^32:
    the products are evaluated through the sparsity of the matrices, not through [dot_mod_exact]).

    For each family: the constructor returns [Ok] exactly on the documented range and [AssertionErr]
    otherwise; generators in closed form ([E n a b v] = identity plus the entry v at (a,b), the Weyl matrix
    [W n m] and its transpose [Wt n m]); number of generators / names as in [FamiliesOk.mexpect]; every
    generator is an n x n matrix with reduced entries; generator names, graph name, central state; the listed
    inverse is a two-sided inverse ([is_inverse_to]); the inverse-closed flag [m_closed] is the documented one;
    determinant 1 for a structurally recursive Laplace determinant [det] (integer lifts).

    The oracle [cand] (rounded float inverse) is universally quantified under the hypothesis [cand_elem]
    (on an elementary matrix I + E_ab it returns I - E_ab); [elem_inv], the instantiation of
    [FamiliesRun.run_mcall], satisfies it ([elem_inv_cand_elem]). *)
From Coq Require Import String.
From Coq Require Import ZArith List Bool Arith Lia.
From V Require Import Base W64 W64Proofs Perm PermProofs Matrix MatrixProofs Def DefProofs Families
  FamiliesProofs FamiliesProofs2 FamiliesRun FamiliesOk.
Import ListNotations.
Open Scope nat_scope.

(* ---------------------------------------------------------------------------------------------- *)
(** * Tabulated matrices *)

Definition tab (n : nat) (F : nat -> nat -> Z) : list (list Z) :=
  map (fun i => map (fun j => F i j) (seq 0 n)) (seq 0 n).

(* reduction of one entry by MatrixGenerator.create *)
Definition red (m v : Z) : Z := if (0 <? m)%Z then (v mod m)%Z else v.

(* elementary matrix: identity with the (a,b) entry replaced by v  (a <> b: I + v E_ab) *)
Definition E (n a b : nat) (v : Z) : list (list Z) :=
  tab n (fun i j => if (i =? a) && (j =? b) then v else delta i j).

Lemma eye_tab n : eye n = tab n delta.
Proof. reflexivity. Qed.

Lemma tab_ext n F G : (forall i j, i < n -> j < n -> F i j = G i j) -> tab n F = tab n G.
Proof. intros H. apply map2_seq_eq_iff. exact H. Qed.

Lemma tab_eq_intro n (L F : nat -> nat -> Z) :
  (forall i k, i < n -> k < n -> L i k = F i k) ->
  map (fun i => map (fun k => L i k) (seq 0 n)) (seq 0 n) = tab n F.
Proof. intros H. apply map2_seq_eq_iff. exact H. Qed.

Lemma tab_entry n F i j : i < n -> j < n -> nth j (nth i (tab n F) []) 0%Z = F i j.
Proof. apply nth2_map_seq. Qed.

Lemma tab_mentry n F i j : i < n -> j < n -> mentry (tab n F) i j = F i j.
Proof. apply nth2_map_seq. Qed.

Lemma tab_length n F : length (tab n F) = n.
Proof. unfold tab. now rewrite map_length, seq_length. Qed.

Lemma tab_rows n F : Forall (fun r => length r = n) (tab n F).
Proof.
  apply Forall_forall. intros r Hr. apply in_map_iff in Hr as (i & <- & _). now rewrite map_length, seq_length.
Qed.

Lemma tab_row n F i : i < n -> nth i (tab n F) [] = map (fun j => F i j) (seq 0 n).
Proof. intros Hi. unfold tab. rewrite nth_map_seq by exact Hi. reflexivity. Qed.

Lemma tab_inj_entries n F G : tab n F = tab n G -> forall i j, i < n -> j < n -> F i j = G i j.
Proof. intros H. apply map2_seq_eq_iff. exact H. Qed.

(* in-place update of a tabulated list *)
Lemma upd_map_seq {A} (f : nat -> A) n i v : forall s,
  upd (map f (seq s n)) i v = map (fun k => if k =? s + i then v else f k) (seq s n).
Proof.
  revert i. induction n as [|n IH]; intros i s; [destruct i; reflexivity|].
  cbn [seq map]. destruct i as [|i]; cbn [upd].
  - rewrite Nat.add_0_r, Nat.eqb_refl. f_equal. apply map_ext_in. intros k Hk. apply in_seq in Hk.
    destruct (Nat.eqb_spec k s); [lia|reflexivity].
  - destruct (Nat.eqb_spec s (s + S i)); [lia|]. f_equal. rewrite IH. apply map_ext. intros k.
    replace (S s + i) with (s + S i) by lia. reflexivity.
Qed.

Lemma mset_tab n F a b v : a < n ->
  mset (tab n F) (Z.of_nat a) (Z.of_nat b) v = tab n (fun i j => if (i =? a) && (j =? b) then v else F i j).
Proof.
  intros Ha. unfold mset, zset. rewrite !Nat2Z.id, tab_row by exact Ha.
  unfold tab at 1. rewrite (upd_map_seq _ n a _ 0), (upd_map_seq _ n b _ 0). cbn [Nat.add].
  apply map_ext. intros i. destruct (Nat.eqb_spec i a) as [->|Hn]; reflexivity.
Qed.

(* the comprehension over range(n) x range(n) is a tabulated matrix *)
Lemma zcomp_tab n (f : Z -> Z -> Z) :
  map (fun i => map (fun j => f i j) (zrange 0 (Z.of_nat n))) (zrange 0 (Z.of_nat n))
  = tab n (fun i j => f (Z.of_nat i) (Z.of_nat j)).
Proof. rewrite zrange0_nat. unfold of_nats, tab. rewrite map_map. apply map_ext. intros i. now rewrite map_map. Qed.

(* ---------------------------------------------------------------------------------------------- *)
(** * Valid moduli and reduction *)

Lemma valid_modulo_iff m : valid_modulo m = true <-> (m = 0 \/ 2 <= m <= 2147483648)%Z.
Proof.
  unfold valid_modulo. change (2 ^ 31)%Z with 2147483648%Z.
  destruct (Z.eqb_spec m 0), (Z.leb_spec 2 m), (Z.leb_spec m 2147483648); cbn; split; intros; try lia; try discriminate.
Qed.

Lemma valid_modulo_false m : valid_modulo m = false <-> (m <> 0 /\ ~ (2 <= m <= 2147483648))%Z.
Proof.
  unfold valid_modulo. change (2 ^ 31)%Z with 2147483648%Z.
  destruct (Z.eqb_spec m 0), (Z.leb_spec 2 m), (Z.leb_spec m 2147483648); cbn; split; intros; try lia; try discriminate.
Qed.

Definition small (z : Z) : Prop := (- 2147483648 <= z <= 2147483648)%Z.

Lemma small_in64 z : small z -> in64 z.
Proof. unfold small, in64, two63. lia. Qed.

Lemma red_0 m : red m 0 = 0%Z.
Proof. unfold red. destruct (0 <? m)%Z; [apply Zmod_0_l|reflexivity]. Qed.

Lemma red_1 m : valid_modulo m = true -> red m 1 = 1%Z.
Proof.
  intros H. apply valid_modulo_iff in H. unfold red. destruct (Z.ltb_spec 0 m); [|reflexivity].
  apply Z.mod_small. lia.
Qed.

Lemma red_neg1 m : valid_modulo m = true -> red m (-1) = if (0 <? m)%Z then (m - 1)%Z else (-1)%Z.
Proof.
  intros H. apply valid_modulo_iff in H. unfold red. destruct (Z.ltb_spec 0 m); [|reflexivity].
  symmetry. apply (Z.mod_unique (-1) m (-1) (m - 1)); lia.
Qed.

Lemma red_delta m i j : valid_modulo m = true -> red m (delta i j) = delta i j.
Proof. intros H. unfold delta. destruct (i =? j); [apply red_1; exact H|apply red_0]. Qed.

Lemma red_range m v : valid_modulo m = true -> (m = 0 \/ 0 <= red m v < m)%Z.
Proof.
  intros H. apply valid_modulo_iff in H. unfold red. destruct (Z.ltb_spec 0 m); [right|left; lia].
  apply Z.mod_pos_bound. lia.
Qed.

Lemma red_small m v : valid_modulo m = true -> small v -> small (red m v).
Proof.
  intros H Hv. apply valid_modulo_iff in H. unfold red. destruct (Z.ltb_spec 0 m); [|exact Hv].
  pose proof (Z.mod_pos_bound v m ltac:(lia)). unfold small. lia.
Qed.

Lemma red_idem m v : red m (red m v) = red m v.
Proof. unfold red. destruct (Z.ltb_spec 0 m); [apply Zmod_mod|reflexivity]. Qed.

(* ---------------------------------------------------------------------------------------------- *)
(** * One entry of a product, term by term *)

(* one term of the sum, and the final reduction of the sum *)
Definition T (m a b : Z) : Z := if (0 <? m)%Z then (wrap (a * b) mod m)%Z else (a * b)%Z.
Definition fin (m s : Z) : Z := if (0 <? m)%Z then (wrap s mod m)%Z else wrap s.

Lemma dot_mod_T m (f g : nat -> Z) l :
  dot_mod m (map (fun j => (f j, g j)) l) = fin m (zsum (map (fun j => T m (f j) (g j)) l)).
Proof. unfold dot_mod, fin, T. destruct (0 <? m)%Z; rewrite map_map; reflexivity. Qed.

Lemma wrap_0 : wrap 0 = 0%Z.
Proof. reflexivity. Qed.

Lemma T_0_l m b : T m 0 b = 0%Z.
Proof. unfold T. rewrite Z.mul_0_l, wrap_0. destruct (0 <? m)%Z; [apply Zmod_0_l|reflexivity]. Qed.
Lemma T_0_r m a : T m a 0 = 0%Z.
Proof. unfold T. rewrite Z.mul_0_r, wrap_0. destruct (0 <? m)%Z; [apply Zmod_0_l|reflexivity]. Qed.

Lemma T_red m a b : small a -> small b -> T m a b = red m (a * b).
Proof.
  intros Ha Hb. unfold T, red. destruct (0 <? m)%Z; [|reflexivity]. rewrite wrap_id; [reflexivity|].
  unfold small in *. unfold in64, two63.
  assert (- (2147483648 * 2147483648) <= a * b <= 2147483648 * 2147483648)%Z by nia. lia.
Qed.

Lemma fin_red m s : in64 s -> fin m s = red m s.
Proof. intros H. unfold fin, red. rewrite wrap_id by exact H. reflexivity. Qed.

Lemma fin_red_add m x y : valid_modulo m = true -> small x -> small y ->
  fin m (red m x + red m y) = red m (x + y).
Proof.
  intros H Hx Hy. pose proof (red_small m x H Hx) as Hx'. pose proof (red_small m y H Hy) as Hy'.
  rewrite fin_red by (unfold small in *; unfold in64, two63; lia).
  unfold red. destruct (0 <? m)%Z; [|reflexivity]. symmetry. apply Zplus_mod.
Qed.

Lemma fin_red1 m x : valid_modulo m = true -> small x -> fin m (red m x) = red m x.
Proof.
  intros H Hx. rewrite fin_red by (apply small_in64, red_small; assumption). apply red_idem.
Qed.

(* sums with one or two non-zero terms *)
Lemma zsum_app l1 l2 : zsum (l1 ++ l2) = (zsum l1 + zsum l2)%Z.
Proof. induction l1 as [|x l1 IH]; [reflexivity|]. cbn [app]. rewrite !zsum_cons, IH. lia. Qed.

Lemma zsum_map_zero {A} (f : A -> Z) l : (forall j, In j l -> f j = 0%Z) -> zsum (map f l) = 0%Z.
Proof.
  induction l as [|a l IH]; intros H; [reflexivity|]. cbn [map]. rewrite zsum_cons, IH, (H a (or_introl eq_refl)).
  - reflexivity.
  - intros j Hj. apply H. right. exact Hj.
Qed.

Lemma zsum_map_add {A} (f g : A -> Z) l : zsum (map (fun j => (f j + g j)%Z) l) = (zsum (map f l) + zsum (map g l))%Z.
Proof. induction l as [|a l IH]; [reflexivity|]. cbn [map]. rewrite !zsum_cons, IH. lia. Qed.

Lemma zsum_single (f : nat -> Z) n p : p < n -> (forall j, j < n -> j <> p -> f j = 0%Z) ->
  zsum (map f (seq 0 n)) = f p.
Proof.
  intros Hp H. rewrite (seq_split 0 p n) by lia. rewrite (seq_split (0 + p) 1 (n - p)) by lia.
  rewrite !map_app, !zsum_app. cbn [seq map]. rewrite zsum_cons, zsum_nil.
  rewrite !zsum_map_zero.
  - cbn [Nat.add]. lia.
  - intros j Hj. apply in_seq in Hj. apply H; lia.
  - intros j Hj. apply in_seq in Hj. apply H; lia.
Qed.

Lemma zsum_two (f : nat -> Z) n p q : p < n -> q < n -> p <> q ->
  (forall j, j < n -> j <> p -> j <> q -> f j = 0%Z) ->
  zsum (map f (seq 0 n)) = (f p + f q)%Z.
Proof.
  intros Hp Hq Hpq H.
  rewrite (map_ext f (fun j => ((if (j =? p)%nat then f j else 0) + (if (j =? p)%nat then 0 else f j))%Z)).
  2:{ intros j. destruct (j =? p); lia. }
  rewrite zsum_map_add, (zsum_single _ n p Hp), (zsum_single _ n q Hq).
  - rewrite Nat.eqb_refl. destruct (Nat.eqb_spec q p); [lia|reflexivity].
  - intros j Hj Hjq. destruct (Nat.eqb_spec j p); [reflexivity|]. apply H; assumption.
  - intros j Hj Hjp. destruct (Nat.eqb_spec j p); [lia|reflexivity].
Qed.

Lemma mat_mul_tab m n F G :
  mat_mul m n (tab n F) (tab n G)
  = tab n (fun i k => fin m (zsum (map (fun j => T m (F i j) (G j k)) (seq 0 n)))).
Proof.
  unfold mat_mul. apply tab_eq_intro. intros i k Hi Hk. rewrite <- dot_mod_T. f_equal.
  apply map_ext_in. intros j Hj. apply in_seq in Hj. rewrite !tab_entry by lia. reflexivity.
Qed.

(* every row of the left factor has a single non-zero entry, in column p i *)
Lemma mat_mul_row_single m n F G (p : nat -> nat) :
  (forall i, i < n -> p i < n) -> (forall i j, i < n -> j < n -> j <> p i -> F i j = 0%Z) ->
  mat_mul m n (tab n F) (tab n G) = tab n (fun i k => fin m (T m (F i (p i)) (G (p i) k))).
Proof.
  intros Hp HF. rewrite mat_mul_tab. apply tab_ext. intros i k Hi Hk. f_equal.
  apply (zsum_single (fun j => T m (F i j) (G j k)) n (p i) (Hp i Hi)).
  intros j Hj Hne. rewrite HF by assumption. apply T_0_l.
Qed.

(* left multiplication by an elementary matrix *)
Lemma mat_mul_E_l m n a b u G : a < n -> b < n -> a <> b ->
  mat_mul m n (E n a b u) (tab n G)
  = tab n (fun i k => if i =? a then fin m (T m 1 (G a k) + T m u (G b k)) else fin m (T m 1 (G i k))).
Proof.
  intros Ha Hb Hab. unfold E. rewrite mat_mul_tab. apply tab_ext. intros i k Hi Hk.
  destruct (Nat.eqb_spec i a) as [->|Hia]; f_equal.
  - rewrite (zsum_two _ n a b Ha Hb Hab).
    + rewrite !Nat.eqb_refl. destruct (Nat.eqb_spec a b); [lia|]. cbn [andb]. unfold delta. rewrite Nat.eqb_refl. reflexivity.
    + intros j Hj Hja Hjb. destruct (Nat.eqb_spec j b); [lia|]. rewrite andb_false_r. unfold delta.
      destruct (Nat.eqb_spec a j); [lia|]. apply T_0_l.
  - rewrite (zsum_single _ n i Hi).
    + destruct (Nat.eqb_spec i a); [lia|]. cbn [andb]. unfold delta. rewrite Nat.eqb_refl. reflexivity.
    + intros j Hj Hji. destruct (Nat.eqb_spec i a); [lia|]. cbn [andb]. unfold delta.
      destruct (Nat.eqb_spec i j); [lia|]. apply T_0_l.
Qed.

(* ---------------------------------------------------------------------------------------------- *)
(** * Small evaluations *)

Lemma small_0 : small 0. Proof. unfold small. lia. Qed.
Lemma small_1 : small 1. Proof. unfold small. lia. Qed.
Lemma small_m1 : small (-1). Proof. unfold small. lia. Qed.
#[local] Hint Resolve small_0 small_1 small_m1 : core.

Lemma T_1_l m b : small b -> T m 1 b = red m b.
Proof. intros H. rewrite T_red by auto. now rewrite Z.mul_1_l. Qed.
Lemma T_1_r m a : small a -> T m a 1 = red m a.
Proof. intros H. rewrite T_red by auto. now rewrite Z.mul_1_r. Qed.
Lemma T_1_1 m : valid_modulo m = true -> T m 1 1 = 1%Z.
Proof. intros H. rewrite T_1_l by auto. apply red_1, H. Qed.
Lemma fin_0 m : fin m 0 = 0%Z.
Proof. rewrite fin_red by (apply small_in64; auto). apply red_0. Qed.
Lemma fin_1 m : valid_modulo m = true -> fin m 1 = 1%Z.
Proof. intros H. rewrite fin_red by (apply small_in64; auto). apply red_1, H. Qed.

Ltac nat_cases :=
  repeat match goal with
  | |- context [Nat.eqb ?x ?y] => destruct (Nat.eqb_spec x y); try lia
  end; cbn [andb orb].

(* ---------------------------------------------------------------------------------------------- *)
(** * Elementary matrices: shape, products *)

Lemma E_length n a b v : length (E n a b v) = n.
Proof. apply tab_length. Qed.

(* entries in closed form: "identity plus one off-diagonal entry" *)
Lemma E_entry n a b v i j : i < n -> j < n ->
  mentry (E n a b v) i j = if (i =? a) && (j =? b) then v else if i =? j then 1%Z else 0%Z.
Proof. intros Hi Hj. unfold E. rewrite tab_mentry by assumption. reflexivity. Qed.

Lemma E_red m n a b v : valid_modulo m = true ->
  tab n (fun i j => red m (if (i =? a) && (j =? b) then v else delta i j)) = E n a b (red m v).
Proof.
  intros H. apply tab_ext. intros i j _ _. destruct ((i =? a) && (j =? b)); [reflexivity|apply red_delta, H].
Qed.

(* (I + u E_ab)(I + v E_ab) = I when u + v = 0 in the ring (a <> b) *)
Lemma E_mul_inv m n a b u v : valid_modulo m = true -> a < n -> b < n -> a <> b -> small u -> small v ->
  red m (u + v) = 0%Z -> mat_mul m n (E n a b u) (E n a b v) = eye n.
Proof.
  intros Hm Ha Hb Hab Hu Hv Huv. unfold E at 2. rewrite mat_mul_E_l by assumption. rewrite eye_tab.
  apply tab_ext. intros i k Hi Hk. unfold delta. nat_cases; subst;
    rewrite ?T_0_r, ?T_1_1, ?T_1_l, ?T_1_r, ?Z.add_0_r, ?Z.add_0_l, ?fin_0, ?fin_1 by auto; try reflexivity.
  rewrite fin_red_add by auto. rewrite Z.add_comm. exact Huv.
Qed.

(* a product of two generators I + E_ab, I + E_cd is never the identity unless modulo = 2 *)
Lemma E_mul_not_eye m n a b c d : valid_modulo m = true -> m <> 2%Z -> a < n -> b < n -> a <> b ->
  mat_mul m n (E n a b 1) (E n c d 1) <> eye n.
Proof.
  intros Hm Hm2 Ha Hb Hab Heq. unfold E at 2 in Heq. rewrite mat_mul_E_l, eye_tab in Heq by assumption.
  pose proof (tab_inj_entries _ _ _ Heq a b Ha Hb) as H. cbv beta in H. rewrite Nat.eqb_refl in H.
  unfold delta in H. rewrite (Nat.eqb_refl b) in H. destruct (Nat.eqb_spec a b); [lia|].
  assert (fin m (1 + 1) <> 0%Z) as H2.
  { rewrite fin_red by (unfold in64, two63; lia). apply valid_modulo_iff in Hm. unfold red.
    destruct (Z.ltb_spec 0 m); [|lia]. rewrite Z.mod_small; lia. }
  assert (fin m (0 + 1) <> 0%Z) as H1 by (cbn [Z.add]; rewrite fin_1 by auto; lia).
  destruct ((a =? c) && (b =? d)), ((b =? c) && (b =? d));
    rewrite ?T_0_r, ?T_1_1 in H by auto; auto.
Qed.

Lemma is_inverse_to_iff m n A B :
  is_inverse_to m n A B = true <-> mat_mul m n A B = eye n /\ mat_mul m n B A = eye n.
Proof. unfold is_inverse_to. rewrite andb_true_iff, !mat_eqb_true. reflexivity. Qed.

Lemma red_neg1_cancel m : red m (1 + red m (-1)) = 0%Z /\ red m (red m (-1) + 1) = 0%Z.
Proof.
  unfold red. destruct (Z.ltb_spec 0 m); [|split; reflexivity].
  rewrite Zplus_mod_idemp_r, Zplus_mod_idemp_l. cbn [Z.add]. split; apply Zmod_0_l.
Qed.

(* the generator and its listed inverse *)
Theorem E_inverse m n a b : valid_modulo m = true -> a < n -> b < n -> a <> b ->
  is_inverse_to m n (E n a b 1) (E n a b (red m (-1))) = true /\
  is_inverse_to m n (E n a b (red m (-1))) (E n a b 1) = true.
Proof.
  intros Hm Ha Hb Hab. pose proof (red_small m (-1) Hm small_m1) as Hs. destruct (red_neg1_cancel m) as [C1 C2].
  rewrite !is_inverse_to_iff. repeat split; apply E_mul_inv; auto.
Qed.

(* modulo 2 every generator is its own inverse *)
Lemma E_self_inverse n a b : a < n -> b < n -> a <> b -> is_inverse_to 2 n (E n a b 1) (E n a b 1) = true.
Proof. intros Ha Hb Hab. rewrite is_inverse_to_iff. split; apply E_mul_inv; auto. Qed.

Example E_examples :
  E 4 1 3 1 = [[1; 0; 0; 0]; [0; 1; 0; 1]; [0; 0; 1; 0]; [0; 0; 0; 1]]%Z
  /\ E 4 1 3 (red 5 (-1)) = [[1; 0; 0; 0]; [0; 1; 0; 4]; [0; 0; 1; 0]; [0; 0; 0; 1]]%Z
  /\ E 4 1 3 (red 0 (-1)) = [[1; 0; 0; 0]; [0; 1; 0; -1]; [0; 0; 1; 0]; [0; 0; 0; 1]]%Z
  /\ is_inverse_to 5 4 (E 4 1 3 1) (E 4 1 3 (red 5 (-1))) = true
  /\ is_inverse_to 0 4 (E 4 3 0 (red 0 (-1))) (E 4 3 0 1) = true
  /\ is_inverse_to (2 ^ 31) 3 (E 3 0 2 1) (E 3 0 2 (red (2 ^ 31) (-1))) = true
  /\ is_inverse_to 2 3 (E 3 0 1 1) (E 3 0 1 1) = true
  /\ is_inverse_to 3 3 (E 3 0 1 1) (E 3 0 1 1) = false
  /\ mat_mul 4 3 (E 3 0 1 1) (E 3 1 2 1) = [[1; 1; 1]; [0; 1; 1]; [0; 0; 1]]%Z.
Proof. vm_compute. repeat split. Qed.

(* ---------------------------------------------------------------------------------------------- *)
(** * MatrixGenerator.__post_init__ / create / inv on tabulated matrices *)

Definition entry_ok (m v : Z) : Prop := (m = 0 \/ 0 <= v < m)%Z.

(* n x n, reduced modulo m when m > 0 *)
Definition mat_ok (n : nat) (m : Z) (M : list (list Z)) : Prop :=
  length M = n /\ Forall (fun r => length r = n /\ Forall (entry_ok m) r) M.

Lemma tab_ok n m F : (forall i j, i < n -> j < n -> entry_ok m (F i j)) -> mat_ok n m (tab n F).
Proof.
  intros H. split; [apply tab_length|]. apply Forall_forall. intros r Hr. apply in_map_iff in Hr as (i & <- & Hi).
  apply in_seq in Hi. rewrite map_length, seq_length. split; [reflexivity|]. apply Forall_forall. intros v Hv.
  apply in_map_iff in Hv as (j & <- & Hj). apply in_seq in Hj. apply H; lia.
Qed.

Lemma entry_ok_red m v : valid_modulo m = true -> entry_ok m (red m v).
Proof. apply red_range. Qed.
Lemma entry_ok_delta m i j : valid_modulo m = true -> entry_ok m (delta i j).
Proof. intros H. rewrite <- (red_delta m i j H). apply red_range, H. Qed.

Lemma E_ok n m a b v : valid_modulo m = true -> entry_ok m v -> mat_ok n m (E n a b v).
Proof.
  intros Hm Hv. apply tab_ok. intros i j _ _. destruct ((i =? a) && (j =? b)); [exact Hv|apply entry_ok_delta, Hm].
Qed.

Lemma mgen_invalid m M : valid_modulo m = false -> mgen m M = Err AssertionErr.
Proof.
  intros H. apply valid_modulo_false in H. unfold mgen. change (2 ^ 31)%Z with 2147483648%Z.
  destruct (Z.eqb_spec m 0); [lia|]. destruct (Z.leb_spec 2 m), (Z.leb_spec m 2147483648); cbn; try reflexivity; lia.
Qed.

Lemma mgen_ok m n M : valid_modulo m = true -> mat_ok n m M -> mgen m M = Ok M.
Proof.
  intros Hm [_ HM]. apply valid_modulo_iff in Hm. unfold mgen. change (2 ^ 31)%Z with 2147483648%Z.
  destruct (Z.eqb_spec m 0); [reflexivity|]. destruct (Z.leb_spec 2 m), (Z.leb_spec m 2147483648); try lia. cbn [andb negb].
  assert (forallb (forallb (fun v => (0 <=? v)%Z && (v <? m)%Z)) M = true) as ->; [|reflexivity].
  apply forallb_forall. intros r Hr. rewrite Forall_forall in HM. destruct (HM r Hr) as [_ Hrow].
  apply forallb_forall. intros v Hv. rewrite Forall_forall in Hrow. destruct (Hrow v Hv) as [?|?]; [lia|].
  apply andb_true_iff. split; [apply Z.leb_le|apply Z.ltb_lt]; lia.
Qed.

Lemma reduce_tab m n F :
  (if (0 <? m)%Z then map (map (fun x => (x mod m)%Z)) (tab n F) else tab n F) = tab n (fun i j => red m (F i j)).
Proof.
  unfold red, tab. destruct (0 <? m)%Z; [|reflexivity]. rewrite map_map. apply map_ext. intros i. now rewrite map_map.
Qed.

Lemma mgen_create_tab m n F : valid_modulo m = true ->
  mgen_create m (tab n F) = Ok (tab n (fun i j => red m (F i j))).
Proof.
  intros Hm. unfold mgen_create. rewrite reduce_tab. apply (mgen_ok m n); [exact Hm|].
  apply tab_ok. intros i j _ _. apply entry_ok_red, Hm.
Qed.

Lemma mgen_create_invalid m M : valid_modulo m = false -> mgen_create m M = Err AssertionErr.
Proof. intros H. unfold mgen_create. apply mgen_invalid, H. Qed.

Lemma mgen_create_E m n a b v : valid_modulo m = true -> mgen_create m (E n a b v) = Ok (E n a b (red m v)).
Proof. intros Hm. unfold E at 1. rewrite mgen_create_tab by exact Hm. now rewrite E_red. Qed.

(* the oracle returns the true integer inverse I - E_ab on an elementary matrix I + E_ab *)
Definition cand_elem (cand : list (list Z) -> list (list Z)) : Prop :=
  forall n a b, a < n -> b < n -> a <> b -> cand (E n a b 1) = E n a b (-1).

Lemma elem_inv_cand_elem : cand_elem elem_inv.
Proof.
  intros n a b Ha Hb Hab. unfold elem_inv. rewrite E_length. apply tab_eq_intro. intros i j Hi Hj.
  unfold E. rewrite tab_entry by assumption. unfold delta. nat_cases; reflexivity.
Qed.

Example elem_inv_example :
  elem_inv (E 3 0 2 1) = E 3 0 2 (-1) /\ minv elem_inv 5 (E 3 0 2 1) = Ok [[1; 0; 4]; [0; 1; 0]; [0; 0; 1]]%Z
  /\ minv elem_inv 0 (E 3 2 1 1) = Ok [[1; 0; 0]; [0; 1; 0]; [0; -1; 1]]%Z.
Proof. vm_compute. repeat split. Qed.

(* MatrixGenerator.inv on a generator I + E_ab *)
Lemma minv_E cand m n a b : cand_elem cand -> valid_modulo m = true -> a < n -> b < n -> a <> b ->
  minv cand m (E n a b 1) = Ok (E n a b (red m (-1))).
Proof.
  intros Hc Hm Ha Hb Hab. unfold minv. rewrite (Hc n a b Ha Hb Hab), E_length. unfold mat_inv.
  rewrite E_mul_inv by (auto; apply red_0).
  rewrite (proj2 (mat_eqb_true (eye n) (eye n)) eq_refl). unfold E at 1. rewrite reduce_tab, E_red by exact Hm.
  cbn [bind]. apply (mgen_ok m n); [exact Hm|]. apply E_ok; [exact Hm|apply entry_ok_red, Hm].
Qed.

Lemma minv_invalid cand m M : valid_modulo m = false -> (exists e, minv cand m M = Err e).
Proof.
  intros H. unfold minv. destruct (mat_inv m (length M) M (cand M)); cbn [bind]; [|eauto].
  rewrite mgen_invalid by exact H. eauto.
Qed.

(* ---------------------------------------------------------------------------------------------- *)
(** * for_matrix_group, the graph name, the inverse-closed flag *)

Definition mname (prefix : string) (n : nat) (m : Z) : string :=
  let name := cat [prefix; zs (Z.of_nat n)] in if (0 <? m)%Z then cat [name; "%"%string; zs m] else name.

Lemma for_matrix_group_ok m gens names name n :
  gens <> [] -> length (hd [] gens) = n -> length names = length gens ->
  for_matrix_group m gens names name
  = Ok {| m_mats := gens; m_modulo := m; m_names := names; m_name := name; m_central := List.concat (eye n) |}.
Proof.
  intros H1 H2 H3. destruct gens as [|g0 gens]; [congruence|]. cbn [hd] in H2. unfold for_matrix_group.
  rewrite H3, Nat.eqb_refl, H2. reflexivity.
Qed.

Lemma matrix_closed_bool m n mats :
  is_some (matrix_inverse_map m n mats) = forallb (fun M => existsb (fun M' => is_inverse_to m n M M') mats) mats.
Proof.
  unfold matrix_inverse_map. rewrite sequence_is_some, forallb_map'. apply forallb_ext'.
  intros M. apply last_index_is_some.
Qed.

(* "for every generator its inverse is in the list" *)
Definition inverse_closed (m : Z) (n : nat) (mats : list (list (list Z))) : Prop :=
  forall M, In M mats -> exists M', In M' mats /\ is_inverse_to m n M M' = true.

Lemma matrix_closed_iff m n mats : is_some (matrix_inverse_map m n mats) = true <-> inverse_closed m n mats.
Proof.
  rewrite matrix_closed_bool, forallb_forall. unfold inverse_closed.
  split; intros H M HM; specialize (H M HM); apply existsb_exists; exact H.
Qed.

(* ---------------------------------------------------------------------------------------------- *)
(** * The Weyl (Coxeter) matrix *)

(* (-1)^(n-1) *)
Definition wsign (n : nat) : Z := if Nat.even n then (-1)%Z else 1%Z.

Lemma pow_m1_nat k : ((-1) ^ Z.of_nat k)%Z = if Nat.even k then 1%Z else (-1)%Z.
Proof.
  induction k as [|k IH]; [reflexivity|].
  rewrite Nat2Z.inj_succ, Z.pow_succ_r by lia. rewrite IH, Nat.even_succ, <- Nat.negb_even.
  destruct (Nat.even k); reflexivity.
Qed.

Lemma pow_wsign n : 1 <= n -> ((-1) ^ (Z.of_nat n - 1))%Z = wsign n.
Proof.
  intros H. destruct n as [|k]; [lia|]. replace (Z.of_nat (S k) - 1)%Z with (Z.of_nat k) by lia.
  rewrite pow_m1_nat. unfold wsign. rewrite Nat.even_succ, <- Nat.negb_even. destruct (Nat.even k); reflexivity.
Qed.

Lemma wsign_sq n : (wsign n * wsign n)%Z = 1%Z.
Proof. unfold wsign. destruct (Nat.even n); reflexivity. Qed.
Lemma wsign_small n : small (wsign n).
Proof. unfold wsign. destruct (Nat.even n); auto. Qed.

(* ones on the superdiagonal, s in the bottom-left corner *)
Definition Wraw (n : nat) (s : Z) : list (list Z) :=
  tab n (fun i j => if (i =? n - 1) && (j =? 0) then s else if j =? i + 1 then 1%Z else 0%Z).
(* w as stored: the corner (-1)^(n-1) is reduced modulo m *)
Definition W (n : nat) (m : Z) : list (list Z) := Wraw n (red m (wsign n)).
(* its transpose: ones on the subdiagonal, the sign in the top-right corner *)
Definition Wt (n : nat) (m : Z) : list (list Z) :=
  tab n (fun i j => if (j =? n - 1) && (i =? 0) then red m (wsign n) else if i =? j + 1 then 1%Z else 0%Z).

Lemma W_entry n m i j : i < n -> j < n ->
  mentry (W n m) i j = if (i =? n - 1) && (j =? 0) then red m (wsign n) else if j =? i + 1 then 1%Z else 0%Z.
Proof. intros Hi Hj. unfold W, Wraw. now rewrite tab_mentry. Qed.

Lemma Wt_entry n m i j : i < n -> j < n -> mentry (Wt n m) i j = mentry (W n m) j i.
Proof. intros Hi Hj. rewrite W_entry by assumption. unfold Wt. now rewrite tab_mentry. Qed.

Lemma W_ok n m : valid_modulo m = true -> mat_ok n m (W n m).
Proof.
  intros Hm. apply tab_ok. intros i j _ _. destruct ((i =? n - 1) && (j =? 0)); [apply entry_ok_red, Hm|].
  destruct (j =? i + 1); [apply (entry_ok_delta m 0 0 Hm)|apply (entry_ok_delta m 0 1 Hm)].
Qed.
Lemma Wt_ok n m : valid_modulo m = true -> mat_ok n m (Wt n m).
Proof.
  intros Hm. apply tab_ok. intros i j _ _. destruct ((j =? n - 1) && (i =? 0)); [apply entry_ok_red, Hm|].
  destruct (i =? j + 1); [apply (entry_ok_delta m 0 0 Hm)|apply (entry_ok_delta m 0 1 Hm)].
Qed.

Lemma red_Wraw m n s : valid_modulo m = true ->
  tab n (fun i j => red m (if (i =? n - 1) && (j =? 0) then s else if j =? i + 1 then 1%Z else 0%Z))
  = Wraw n (red m s).
Proof.
  intros Hm. apply tab_ext. intros i j _ _. destruct ((i =? n - 1) && (j =? 0)); [reflexivity|].
  destruct (j =? i + 1); [apply red_1, Hm|apply red_0].
Qed.

(* c*c = 1 in the ring, for the stored corner c *)
Lemma corner_sq m n : valid_modulo m = true -> fin m (T m (red m (wsign n)) (red m (wsign n))) = 1%Z.
Proof.
  intros Hm. pose proof (red_small m _ Hm (wsign_small n)) as Hs. rewrite T_red by exact Hs.
  assert (red m (red m (wsign n) * red m (wsign n)) = 1%Z) as ->; [|apply fin_1, Hm].
  transitivity (red m (wsign n * wsign n)); [|rewrite wsign_sq; apply red_1, Hm].
  unfold red. destruct (0 <? m)%Z; [|reflexivity]. symmetry. apply Zmult_mod.
Qed.

Theorem W_Wt m n : valid_modulo m = true -> 2 <= n -> mat_mul m n (W n m) (Wt n m) = eye n.
Proof.
  intros Hm Hn. unfold W, Wraw, Wt.
  rewrite (mat_mul_row_single m n _ _ (fun i => if i =? n - 1 then 0 else i + 1)).
  - rewrite eye_tab. apply tab_ext. intros i k Hi Hk. unfold delta. nat_cases;
      rewrite ?T_0_r, ?T_1_1, ?fin_0, ?fin_1 by auto; try reflexivity. apply corner_sq, Hm.
  - intros i Hi. nat_cases; lia.
  - intros i j Hi Hj. nat_cases; intros; try reflexivity; lia.
Qed.

Theorem Wt_W m n : valid_modulo m = true -> 2 <= n -> mat_mul m n (Wt n m) (W n m) = eye n.
Proof.
  intros Hm Hn. unfold W, Wraw, Wt.
  rewrite (mat_mul_row_single m n _ _ (fun i => if i =? 0 then n - 1 else i - 1)).
  - rewrite eye_tab. apply tab_ext. intros i k Hi Hk. unfold delta. nat_cases;
      rewrite ?T_0_r, ?T_1_1, ?fin_0, ?fin_1 by auto; try reflexivity. apply corner_sq, Hm.
  - intros i Hi. nat_cases; lia.
  - intros i j Hi Hj. nat_cases; intros; try reflexivity; lia.
Qed.

Theorem W_inverse m n : valid_modulo m = true -> 2 <= n ->
  is_inverse_to m n (W n m) (Wt n m) = true /\ is_inverse_to m n (Wt n m) (W n m) = true.
Proof. intros Hm Hn. rewrite !is_inverse_to_iff. auto using W_Wt, Wt_W. Qed.

(* ---------------------------------------------------------------------------------------------- *)
(** * The Python comprehensions over range(n) as tabulated matrices *)

Lemma eye_comp n :
  map (fun i => map (fun j => if (j =? i)%Z then 1%Z else 0%Z) (zrange 0 (Z.of_nat n))) (zrange 0 (Z.of_nat n))
  = tab n delta.
Proof.
  rewrite (zcomp_tab n (fun i j => if (j =? i)%Z then 1%Z else 0%Z)). apply tab_ext. intros i j _ _. unfold delta.
  destruct (Z.eqb_spec (Z.of_nat j) (Z.of_nat i)), (Nat.eqb_spec i j); try reflexivity; lia.
Qed.

Lemma sup_comp n :
  map (fun i => map (fun j => if (j =? i + 1)%Z then 1%Z else 0%Z) (zrange 0 (Z.of_nat n))) (zrange 0 (Z.of_nat n))
  = tab n (fun i j => if j =? i + 1 then 1%Z else 0%Z).
Proof.
  rewrite (zcomp_tab n (fun i j => if (j =? i + 1)%Z then 1%Z else 0%Z)). apply tab_ext. intros i j _ _.
  destruct (Z.eqb_spec (Z.of_nat j) (Z.of_nat i + 1)), (Nat.eqb_spec j (i + 1)); try reflexivity; lia.
Qed.

Lemma transpose_comp n F :
  map (fun i => map (fun j => nth (Z.to_nat i) (nth (Z.to_nat j) (tab n F) []) 0%Z) (zrange 0 (Z.of_nat n)))
      (zrange 0 (Z.of_nat n))
  = tab n (fun i j => F j i).
Proof.
  rewrite (zcomp_tab n (fun i j => nth (Z.to_nat i) (nth (Z.to_nat j) (tab n F) []) 0%Z)). apply tab_ext.
  intros i j Hi Hj. rewrite !Nat2Z.id. now rewrite tab_entry.
Qed.

Lemma red_Wt m n : valid_modulo m = true ->
  tab n (fun i j => red m (if (j =? n - 1) && (i =? 0) then wsign n else if i =? j + 1 then 1%Z else 0%Z))
  = Wt n m.
Proof.
  intros Hm. apply tab_ext. intros i j _ _. destruct ((j =? n - 1) && (i =? 0)); [reflexivity|].
  destruct (i =? j + 1); [apply red_1, Hm|apply red_0].
Qed.

Definition mk_mdef_n (gens : list (list (list Z))) (m : Z) (names : list string) (name : string) (n : nat) : mdef :=
  {| m_mats := gens; m_modulo := m; m_names := names; m_name := name; m_central := List.concat (eye n) |}.

(* ---------------------------------------------------------------------------------------------- *)
(** * special_linear_root_weyl(n, modulo), n >= 2: e = I + E_01, its inverse, w and its transpose *)

Theorem sl_root_weyl_returns cand n m : cand_elem cand -> 2 <= n -> valid_modulo m = true ->
  special_linear_root_weyl cand (Z.of_nat n) m
  = Ok (mk_mdef_n [E n 0 1 1; E n 0 1 (red m (-1)); W n m; Wt n m] m ["e"; "e'"; "w"; "w'"]%string
                  (mname "sl_root_weyl-" n m) n).
Proof.
  intros Hc Hn Hm. unfold special_linear_root_weyl. destruct (Z.leb_spec 2 (Z.of_nat n)) as [_|Hlt]; [|lia]. cbn [negb].
  cbv zeta. rewrite pow_wsign by lia. rewrite eye_comp, !sup_comp.
  replace (Z.of_nat n - 1)%Z with (Z.of_nat (n - 1)) by lia.
  rewrite (mset_tab n _ 0 1) by lia. rewrite !(mset_tab n _ (n - 1) 0) by lia.
  change (tab n (fun i j => if (i =? 0) && (j =? 1) then 1%Z else delta i j)) with (E n 0 1 1).
  rewrite mgen_create_E, red_1 by exact Hm. cbn [bind].
  rewrite transpose_comp, !mgen_create_tab by exact Hm. cbn [bind].
  rewrite red_Wraw, red_Wt by exact Hm. fold (W n m).
  rewrite minv_E by (auto; lia). cbn [bind].
  apply for_matrix_group_ok; [discriminate|apply E_length|reflexivity].
Qed.

Theorem sl_root_weyl_documented cand n m : cand_elem cand -> 2 <= n -> valid_modulo m = true ->
  exists d, special_linear_root_weyl cand (Z.of_nat n) m = Ok d /\
    m_mats d = [E n 0 1 1; E n 0 1 (red m (-1)); W n m; Wt n m] /\
    m_modulo d = m /\
    m_names d = ["e"; "e'"; "w"; "w'"]%string /\
    m_name d = mname "sl_root_weyl-" n m /\
    m_central d = List.concat (eye n) /\
    length (m_mats d) = 4 /\ length (m_names d) = 4 /\
    Forall (mat_ok n m) (m_mats d) /\
    (* e' is the two-sided inverse of e, w' of w *)
    is_inverse_to m n (E n 0 1 1) (E n 0 1 (red m (-1))) = true /\
    is_inverse_to m n (E n 0 1 (red m (-1))) (E n 0 1 1) = true /\
    is_inverse_to m n (W n m) (Wt n m) = true /\
    is_inverse_to m n (Wt n m) (W n m) = true /\
    inverse_closed m n (m_mats d) /\
    m_closed d = true.
Proof.
  intros Hc Hn Hm. eexists. split; [apply sl_root_weyl_returns; assumption|]. cbn [mk_mdef_n m_mats m_modulo m_names m_name m_central].
  destruct (E_inverse m n 0 1 Hm ltac:(lia) ltac:(lia) ltac:(lia)) as [I1 I2].
  destruct (W_inverse m n Hm Hn) as [I3 I4].
  assert (inverse_closed m n [E n 0 1 1; E n 0 1 (red m (-1)); W n m; Wt n m]) as Hcl.
  { intros M [<-|[<-|[<-|[<-|[]]]]].
    - exists (E n 0 1 (red m (-1))). split; [right; left; reflexivity|exact I1].
    - exists (E n 0 1 1). split; [left; reflexivity|exact I2].
    - exists (Wt n m). split; [do 3 right; left; reflexivity|exact I3].
    - exists (W n m). split; [do 2 right; left; reflexivity|exact I4]. }
  do 7 (split; [reflexivity|]). split; [|repeat (split; [assumption|])].
  - repeat apply Forall_cons; [| | | |apply Forall_nil].
    + apply E_ok; [exact Hm|]. rewrite <- (red_1 m Hm). apply entry_ok_red, Hm.
    + apply E_ok; [exact Hm|apply entry_ok_red, Hm].
    + apply W_ok, Hm.
    + apply Wt_ok, Hm.
  - unfold m_closed, mk_mdef_n. cbn [m_mats m_modulo hd]. rewrite E_length. apply matrix_closed_iff. exact Hcl.
Qed.

Lemma valid_modulo_dec m : valid_modulo m = true \/ valid_modulo m = false.
Proof. destruct (valid_modulo m); auto. Qed.

Theorem sl_root_weyl_range cand z m : cand_elem cand ->
  ((exists d, special_linear_root_weyl cand z m = Ok d) <-> ((2 <= z)%Z /\ valid_modulo m = true)) /\
  (~ ((2 <= z)%Z /\ valid_modulo m = true) -> special_linear_root_weyl cand z m = Err AssertionErr).
Proof.
  intros Hc. apply range_from_cases.
  - intros [Hz Hm]. destruct (sl_root_weyl_documented cand (Z.to_nat z) m Hc ltac:(lia) Hm) as (d & Hd & _).
    rewrite Z2Nat.id in Hd by lia. eauto.
  - intros Hn. unfold special_linear_root_weyl. destruct (Z.leb_spec 2 z); [|reflexivity]. cbn [negb].
    destruct (valid_modulo_dec m) as [Hm|Hm]; [tauto|]. cbv zeta. rewrite mgen_create_invalid by exact Hm. reflexivity.
  - destruct (Z_le_dec 2 z), (valid_modulo_dec m) as [Hm|Hm]; try tauto; right; intros [? ?]; try lia; congruence.
Qed.

Example sl_root_weyl_3_5 :
  special_linear_root_weyl elem_inv 3 5
  = Ok (mk_mdef [[[1; 1; 0]; [0; 1; 0]; [0; 0; 1]]; [[1; 4; 0]; [0; 1; 0]; [0; 0; 1]];
                 [[0; 1; 0]; [0; 0; 1]; [1; 0; 0]]; [[0; 0; 1]; [1; 0; 0]; [0; 1; 0]]]%Z 5
                ["e"; "e'"; "w"; "w'"]%string "sl_root_weyl-3%5"%string [1; 0; 0; 0; 1; 0; 0; 0; 1]%Z)
  /\ [E 3 0 1 1; E 3 0 1 (red 5 (-1)); W 3 5; Wt 3 5]
     = [[[1; 1; 0]; [0; 1; 0]; [0; 0; 1]]; [[1; 4; 0]; [0; 1; 0]; [0; 0; 1]];
        [[0; 1; 0]; [0; 0; 1]; [1; 0; 0]]; [[0; 0; 1]; [1; 0; 0]; [0; 1; 0]]]%Z
  /\ W 4 0 = [[0; 1; 0; 0]; [0; 0; 1; 0]; [0; 0; 0; 1]; [-1; 0; 0; 0]]%Z
  /\ W 2 7 = [[0; 1]; [6; 0]]%Z
  /\ is_inverse_to 0 4 (W 4 0) (Wt 4 0) = true
  /\ special_linear_root_weyl elem_inv 1 5 = Err AssertionErr
  /\ special_linear_root_weyl elem_inv 3 1 = Err AssertionErr.
Proof. vm_compute. repeat split. Qed.

(* ---------------------------------------------------------------------------------------------- *)
(** * special_linear_fundamental_roots(n, modulo), n >= 2:
      e_k = I + E_{k-1,k}, e_k', f_k = I + E_{k,k-1}, f_k'  for k = 1..n-1 *)

Lemma elem_comp n (a b : nat) (za zb : Z) : za = Z.of_nat a -> zb = Z.of_nat b ->
  map (fun i => map (fun j => if (j =? i)%Z || ((i =? za)%Z && (j =? zb)%Z) then 1%Z else 0%Z)
                    (zrange 0 (Z.of_nat n))) (zrange 0 (Z.of_nat n))
  = E n a b 1.
Proof.
  intros -> ->.
  rewrite (zcomp_tab n (fun i j => if (j =? i)%Z || ((i =? Z.of_nat a)%Z && (j =? Z.of_nat b)%Z) then 1%Z else 0%Z)).
  apply tab_ext. intros i j _ _. unfold delta.
  destruct (Z.eqb_spec (Z.of_nat j) (Z.of_nat i)), (Z.eqb_spec (Z.of_nat i) (Z.of_nat a)),
    (Z.eqb_spec (Z.of_nat j) (Z.of_nat b)), (Nat.eqb_spec i a), (Nat.eqb_spec j b), (Nat.eqb_spec i j);
    try reflexivity; lia.
Qed.

Lemma zrange_cons a b : (a < b)%Z -> zrange a b = a :: zrange (a + 1) b.
Proof.
  intros H. unfold zrange. replace (Z.to_nat (b - a)) with (S (Z.to_nat (b - (a + 1)))) by lia.
  cbn [seq map]. f_equal; [lia|]. rewrite <- seq_shift, map_map. apply map_ext. intros i. lia.
Qed.

Lemma flat_map_map {A B C} (h : A -> B) (f : B -> list C) l : flat_map f (map h l) = flat_map (fun a => f (h a)) l.
Proof. induction l as [|a l IH]; [reflexivity|]. cbn [map flat_map]. now rewrite IH. Qed.

Lemma flat_map_quad_nth {B} (f0 f1 f2 f3 : nat -> B) m t d : t < m ->
  nth (4 * t) (flat_map (fun i => [f0 i; f1 i; f2 i; f3 i]) (seq 0 m)) d = f0 t /\
  nth (4 * t + 1) (flat_map (fun i => [f0 i; f1 i; f2 i; f3 i]) (seq 0 m)) d = f1 t /\
  nth (4 * t + 2) (flat_map (fun i => [f0 i; f1 i; f2 i; f3 i]) (seq 0 m)) d = f2 t /\
  nth (4 * t + 3) (flat_map (fun i => [f0 i; f1 i; f2 i; f3 i]) (seq 0 m)) d = f3 t.
Proof.
  assert (forall a, t < m ->
    nth (4 * t) (flat_map (fun i => [f0 i; f1 i; f2 i; f3 i]) (seq a m)) d = f0 (a + t) /\
    nth (4 * t + 1) (flat_map (fun i => [f0 i; f1 i; f2 i; f3 i]) (seq a m)) d = f1 (a + t) /\
    nth (4 * t + 2) (flat_map (fun i => [f0 i; f1 i; f2 i; f3 i]) (seq a m)) d = f2 (a + t) /\
    nth (4 * t + 3) (flat_map (fun i => [f0 i; f1 i; f2 i; f3 i]) (seq a m)) d = f3 (a + t)) as G.
  { revert t. induction m as [|m IH]; intros t a Ht; [lia|].
    cbn [seq flat_map app]. destruct t as [|t].
    - cbn [Nat.mul Nat.add nth]. rewrite Nat.add_0_r. repeat split; reflexivity.
    - replace (4 * S t) with (S (S (S (S (4 * t))))) by lia.
      replace (S (S (S (S (4 * t)))) + 1) with (S (S (S (S (4 * t + 1))))) by lia.
      replace (S (S (S (S (4 * t)))) + 2) with (S (S (S (S (4 * t + 2))))) by lia.
      replace (S (S (S (S (4 * t)))) + 3) with (S (S (S (S (4 * t + 3))))) by lia.
      cbn [nth]. destruct (IH t (S a) ltac:(lia)) as (E0 & E1 & E2 & E3). rewrite E0, E1, E2, E3.
      replace (S a + t) with (a + S t) by lia. repeat split; reflexivity. }
  intros Ht. apply (G 0 Ht).
Qed.

Definition fund_quad (n : nat) (m : Z) (k : nat) : list (list (list Z)) :=
  [E n k (k + 1) 1; E n k (k + 1) (red m (-1)); E n (k + 1) k 1; E n (k + 1) k (red m (-1))].
Definition fund_gens (n : nat) (m : Z) : list (list (list Z)) := flat_map (fund_quad n m) (seq 0 (n - 1)).
Definition fund_names (n : nat) : list string :=
  flat_map (fun k => [cat ["e"; zs (Z.of_nat k + 1)]; cat ["e"; zs (Z.of_nat k + 1); "'"];
                      cat ["f"; zs (Z.of_nat k + 1)]; cat ["f"; zs (Z.of_nat k + 1); "'"]]%string) (seq 0 (n - 1)).

Lemma fund_gens_length n m : length (fund_gens n m) = 4 * (n - 1).
Proof.
  unfold fund_gens. rewrite (flat_map_length_const _ _ 4); [rewrite seq_length; lia|]. intros; reflexivity.
Qed.
Lemma fund_names_length n : length (fund_names n) = 4 * (n - 1).
Proof.
  unfold fund_names. rewrite (flat_map_length_const _ _ 4); [rewrite seq_length; lia|]. intros; reflexivity.
Qed.

Theorem sl_fund_roots_returns cand n m : cand_elem cand -> 2 <= n -> valid_modulo m = true ->
  special_linear_fundamental_roots cand (Z.of_nat n) m
  = Ok (mk_mdef_n (fund_gens n m) m (fund_names n) (mname "sl_fund_roots-" n m) n).
Proof.
  intros Hc Hn Hm. unfold special_linear_fundamental_roots. destruct (Z.leb_spec 2 (Z.of_nat n)) as [_|Hlt]; [|lia]. cbn [negb].
  cbv zeta. replace (Z.of_nat n - 1)%Z with (Z.of_nat (n - 1)) by lia. rewrite (zrange0_nat (n - 1)).
  unfold of_nats. rewrite (mapM_map_ok Z.of_nat _ (fund_quad n m)).
  - cbn [bind]. rewrite <- flat_map_concat_map, flat_map_map. apply for_matrix_group_ok.
    + fold (fund_gens n m). intros Hnil. apply (f_equal (@length _)) in Hnil. rewrite fund_gens_length in Hnil.
      cbn [length] in Hnil. lia.
    + unfold fund_gens. replace (n - 1) with (S (n - 2)) by lia. cbn [seq flat_map fund_quad app hd]. apply E_length.
    + fold (fund_gens n m). fold (fund_names n). now rewrite fund_gens_length, fund_names_length.
  - intros k Hk. apply in_seq in Hk.
    rewrite (elem_comp n k (k + 1)), (elem_comp n (k + 1) k) by lia.
    rewrite !mgen_create_E, red_1 by exact Hm. cbn [bind]. rewrite !minv_E by (auto; lia). reflexivity.
Qed.

Theorem sl_fund_roots_documented cand n m : cand_elem cand -> 2 <= n -> valid_modulo m = true ->
  exists d, special_linear_fundamental_roots cand (Z.of_nat n) m = Ok d /\
    m_mats d = flat_map (fun k => [E n k (k + 1) 1; E n k (k + 1) (red m (-1));
                                   E n (k + 1) k 1; E n (k + 1) k (red m (-1))]) (seq 0 (n - 1)) /\
    m_modulo d = m /\
    m_names d = flat_map (fun k => [cat ["e"; zs (Z.of_nat k + 1)]; cat ["e"; zs (Z.of_nat k + 1); "'"];
                                    cat ["f"; zs (Z.of_nat k + 1)]; cat ["f"; zs (Z.of_nat k + 1); "'"]]%string)
                         (seq 0 (n - 1)) /\
    m_name d = mname "sl_fund_roots-" n m /\
    m_central d = List.concat (eye n) /\
    length (m_mats d) = 4 * (n - 1) /\ length (m_names d) = 4 * (n - 1) /\
    Forall (mat_ok n m) (m_mats d) /\
    (* generators 4k .. 4k+3 are e_{k+1}, its inverse, f_{k+1}, its inverse (k = 0..n-2) *)
    (forall k, k < n - 1 ->
       nth (4 * k) (m_mats d) [] = E n k (k + 1) 1 /\
       nth (4 * k + 1) (m_mats d) [] = E n k (k + 1) (red m (-1)) /\
       nth (4 * k + 2) (m_mats d) [] = E n (k + 1) k 1 /\
       nth (4 * k + 3) (m_mats d) [] = E n (k + 1) k (red m (-1)) /\
       is_inverse_to m n (nth (4 * k) (m_mats d) []) (nth (4 * k + 1) (m_mats d) []) = true /\
       is_inverse_to m n (nth (4 * k + 1) (m_mats d) []) (nth (4 * k) (m_mats d) []) = true /\
       is_inverse_to m n (nth (4 * k + 2) (m_mats d) []) (nth (4 * k + 3) (m_mats d) []) = true /\
       is_inverse_to m n (nth (4 * k + 3) (m_mats d) []) (nth (4 * k + 2) (m_mats d) []) = true) /\
    inverse_closed m n (m_mats d) /\
    m_closed d = true.
Proof.
  intros Hc Hn Hm. eexists. split; [apply sl_fund_roots_returns; assumption|].
  unfold mk_mdef_n. cbn [m_mats m_modulo m_names m_name m_central].
  assert (Hneg : entry_ok m (red m (-1))) by (apply entry_ok_red, Hm).
  assert (Hone : entry_ok m 1) by (rewrite <- (red_1 m Hm); apply entry_ok_red, Hm).
  assert (inverse_closed m n (fund_gens n m)) as Hcl.
  { intros M HM. apply in_flat_map in HM as (k & Hk & HM). apply in_seq in Hk.
    destruct (E_inverse m n k (k + 1) Hm ltac:(lia) ltac:(lia) ltac:(lia)) as [I1 I2].
    destruct (E_inverse m n (k + 1) k Hm ltac:(lia) ltac:(lia) ltac:(lia)) as [I3 I4].
    assert (forall M', In M' (fund_quad n m k) -> In M' (fund_gens n m)) as Hin.
    { intros M' HM'. apply in_flat_map. exists k. split; [apply in_seq; lia|exact HM']. }
    destruct HM as [<-|[<-|[<-|[<-|[]]]]].
    - exists (E n k (k + 1) (red m (-1))). split; [apply Hin; right; left; reflexivity|exact I1].
    - exists (E n k (k + 1) 1). split; [apply Hin; left; reflexivity|exact I2].
    - exists (E n (k + 1) k (red m (-1))). split; [apply Hin; do 3 right; left; reflexivity|exact I3].
    - exists (E n (k + 1) k 1). split; [apply Hin; do 2 right; left; reflexivity|exact I4]. }
  split; [reflexivity|]. split; [reflexivity|]. split; [reflexivity|]. split; [reflexivity|]. split; [reflexivity|].
  split; [apply fund_gens_length|]. split; [apply fund_names_length|].
  split; [|split; [|split; [exact Hcl|]]].
  - apply Forall_forall. intros M HM. apply in_flat_map in HM as (k & Hk & HM).
    destruct HM as [<-|[<-|[<-|[<-|[]]]]]; apply E_ok; assumption.
  - intros k Hk.
    destruct (flat_map_quad_nth (fun k => E n k (k + 1) 1) (fun k => E n k (k + 1) (red m (-1)))
                (fun k => E n (k + 1) k 1) (fun k => E n (k + 1) k (red m (-1))) (n - 1) k [] Hk) as (E0 & E1 & E2 & E3).
    unfold fund_gens, fund_quad. rewrite E0, E1, E2, E3.
    destruct (E_inverse m n k (k + 1) Hm ltac:(lia) ltac:(lia) ltac:(lia)) as [I1 I2].
    destruct (E_inverse m n (k + 1) k Hm ltac:(lia) ltac:(lia) ltac:(lia)) as [I3 I4].
    repeat split; assumption.
  - unfold m_closed. cbn [m_mats m_modulo]. replace (length (hd [] (fund_gens n m))) with n.
    + apply matrix_closed_iff. exact Hcl.
    + unfold fund_gens. replace (n - 1) with (S (n - 2)) by lia. cbn [seq flat_map fund_quad app hd]. now rewrite E_length.
Qed.

Theorem sl_fund_roots_range cand z m : cand_elem cand ->
  ((exists d, special_linear_fundamental_roots cand z m = Ok d) <-> ((2 <= z)%Z /\ valid_modulo m = true)) /\
  (~ ((2 <= z)%Z /\ valid_modulo m = true) -> special_linear_fundamental_roots cand z m = Err AssertionErr).
Proof.
  intros Hc. apply range_from_cases.
  - intros [Hz Hm]. destruct (sl_fund_roots_documented cand (Z.to_nat z) m Hc ltac:(lia) Hm) as (d & Hd & _).
    rewrite Z2Nat.id in Hd by lia. eauto.
  - intros Hn. unfold special_linear_fundamental_roots. destruct (Z.leb_spec 2 z); [|reflexivity]. cbn [negb].
    destruct (valid_modulo_dec m) as [Hm|Hm]; [tauto|]. cbv zeta.
    rewrite (zrange_cons 0 (z - 1)) by lia. cbn [mapM]. rewrite mgen_create_invalid by exact Hm. reflexivity.
  - destruct (Z_le_dec 2 z), (valid_modulo_dec m) as [Hm|Hm]; try tauto; right; intros [? ?]; try lia; congruence.
Qed.

Example sl_fund_roots_3_0 :
  special_linear_fundamental_roots elem_inv 3 0
  = Ok (mk_mdef [[[1; 1; 0]; [0; 1; 0]; [0; 0; 1]]; [[1; -1; 0]; [0; 1; 0]; [0; 0; 1]];
                 [[1; 0; 0]; [1; 1; 0]; [0; 0; 1]]; [[1; 0; 0]; [-1; 1; 0]; [0; 0; 1]];
                 [[1; 0; 0]; [0; 1; 1]; [0; 0; 1]]; [[1; 0; 0]; [0; 1; -1]; [0; 0; 1]];
                 [[1; 0; 0]; [0; 1; 0]; [0; 1; 1]]; [[1; 0; 0]; [0; 1; 0]; [0; -1; 1]]]%Z 0
                ["e1"; "e1'"; "f1"; "f1'"; "e2"; "e2'"; "f2"; "f2'"]%string "sl_fund_roots-3"%string
                [1; 0; 0; 0; 1; 0; 0; 0; 1]%Z)
  /\ fund_gens 3 0 = [[[1; 1; 0]; [0; 1; 0]; [0; 0; 1]]; [[1; -1; 0]; [0; 1; 0]; [0; 0; 1]];
                 [[1; 0; 0]; [1; 1; 0]; [0; 0; 1]]; [[1; 0; 0]; [-1; 1; 0]; [0; 0; 1]];
                 [[1; 0; 0]; [0; 1; 1]; [0; 0; 1]]; [[1; 0; 0]; [0; 1; -1]; [0; 0; 1]];
                 [[1; 0; 0]; [0; 1; 0]; [0; 1; 1]]; [[1; 0; 0]; [0; 1; 0]; [0; -1; 1]]]%Z
  /\ fund_names 3 = ["e1"; "e1'"; "f1"; "f1'"; "e2"; "e2'"; "f2"; "f2'"]%string
  /\ fund_gens 2 3 = [[[1; 1]; [0; 1]]; [[1; 2]; [0; 1]]; [[1; 0]; [1; 1]]; [[1; 0]; [2; 1]]]%Z
  /\ special_linear_fundamental_roots elem_inv 1 0 = Err AssertionErr
  /\ special_linear_fundamental_roots elem_inv 2 (2 ^ 31 + 1) = Err AssertionErr.
Proof. vm_compute. repeat split. Qed.

(* ---------------------------------------------------------------------------------------------- *)
(** * make_inverse_closed on a list of generators I + E_ab *)

Definition E1 (n : nat) (ab : nat * nat) : list (list Z) := E n (fst ab) (snd ab) 1.
Definition Einv (n : nat) (m : Z) (ab : nat * nat) : list (list Z) := E n (fst ab) (snd ab) (red m (-1)).
Definition pairs_ok (n : nat) (pairs : list (nat * nat)) : Prop :=
  forall ab, In ab pairs -> fst ab < n /\ snd ab < n /\ fst ab <> snd ab.

Lemma existsb_false {A} (f : A -> bool) l : (forall x, In x l -> f x = false) -> existsb f l = false.
Proof.
  induction l as [|a l IH]; intros H; [reflexivity|]. cbn [existsb]. rewrite (H a (or_introl eq_refl)), IH; [reflexivity|].
  intros x Hx. apply H. right. exact Hx.
Qed.

Lemma map_fst_combine' {A B} (l : list A) : forall (l' : list B), length l = length l' -> map fst (combine l l') = l.
Proof.
  induction l as [|a l IH]; intros [|b l'] H; try discriminate; [reflexivity|]. cbn [combine map fst]. f_equal.
  apply IH. cbn in H. lia.
Qed.

(* no generator is inverse to a generator, unless modulo = 2 *)
Lemma elem_no_inverse m n pairs : valid_modulo m = true -> m <> 2%Z -> pairs_ok n pairs ->
  forall M M', In M (map (E1 n) pairs) -> In M' (map (E1 n) pairs) -> is_inverse_to m n M M' = false.
Proof.
  intros Hm Hm2 Hp M M' HM HM'. apply in_map_iff in HM as (ab & <- & Hab). apply in_map_iff in HM' as (cd & <- & Hcd).
  destruct (Hp ab Hab) as (Ha & Hb & Hne). unfold is_inverse_to.
  destruct (mat_eqb (mat_mul m n (E1 n ab) (E1 n cd)) (eye n)) eqn:Eq; [|reflexivity].
  apply mat_eqb_true in Eq. exfalso. revert Eq. apply E_mul_not_eye; assumption.
Qed.

Lemma elem_not_closed m n pairs : valid_modulo m = true -> m <> 2%Z -> pairs <> [] -> pairs_ok n pairs ->
  is_some (matrix_inverse_map m n (map (E1 n) pairs)) = false.
Proof.
  intros Hm Hm2 Hne Hp. rewrite matrix_closed_bool. pose proof (elem_no_inverse m n pairs Hm Hm2 Hp) as Hno.
  destruct pairs as [|ab pairs]; [congruence|]. cbn [map forallb].
  rewrite existsb_false; [reflexivity|]. intros M' HM'. apply Hno; [left; reflexivity|exact HM'].
Qed.

Lemma elem_closed_mod2 n pairs : pairs_ok n pairs -> is_some (matrix_inverse_map 2 n (map (E1 n) pairs)) = true.
Proof.
  intros Hp. apply matrix_closed_iff. intros M HM. exists M. split; [exact HM|].
  apply in_map_iff in HM as (ab & <- & Hab). destruct (Hp ab Hab) as (Ha & Hb & Hne). now apply E_self_inverse.
Qed.

Lemma elem_closed_with_invs m n pairs : valid_modulo m = true -> pairs_ok n pairs ->
  inverse_closed m n (map (E1 n) pairs ++ map (Einv n m) pairs).
Proof.
  intros Hm Hp M HM. apply in_app_or in HM as [HM|HM]; apply in_map_iff in HM as (ab & <- & Hab);
    destruct (Hp ab Hab) as (Ha & Hb & Hne); destruct (E_inverse m n _ _ Hm Ha Hb Hne) as [I1 I2].
  - exists (Einv n m ab). split; [apply in_or_app; right; apply in_map; exact Hab|exact I1].
  - exists (E1 n ab). split; [apply in_or_app; left; apply in_map; exact Hab|exact I2].
Qed.

Definition ic_name (name : string) : string := if String.eqb name "" then name else cat [name; "-ic"%string].

Lemma mic_elem cand m n pairs names name :
  cand_elem cand -> valid_modulo m = true -> m <> 2%Z -> pairs <> [] -> pairs_ok n pairs ->
  length names = length pairs ->
  m_make_inverse_closed cand (mk_mdef_n (map (E1 n) pairs) m names name n)
  = Ok (mk_mdef_n (map (E1 n) pairs ++ map (Einv n m) pairs) m
                  (names ++ map (fun nm => cat [nm; "'"%string]) names) (ic_name name) n).
Proof.
  intros Hc Hm Hm2 Hne Hp Hl. unfold m_make_inverse_closed, mk_mdef_n. cbn [m_modulo m_mats m_names m_name].
  assert (length (hd [] (map (E1 n) pairs)) = n) as ->.
  { destruct pairs as [|ab pairs]; [congruence|]. cbn [map hd]. apply E_length. }
  unfold mic_matrix_missing. rewrite (elem_not_closed m n pairs Hm Hm2 Hne Hp).
  rewrite filter_all_true.
  2:{ intros [i M] HiM. apply in_combine_r in HiM. rewrite existsb_false; [reflexivity|].
      intros M' HM'. apply (elem_no_inverse m n pairs Hm Hm2 Hp); assumption. }
  rewrite map_fst_combine' by now rewrite seq_length. rewrite map_length.
  rewrite (mapM_ok _ (fun i => Einv n m (nth i pairs (0, 0)))).
  2:{ intros i Hi. apply in_seq in Hi. rewrite (nth_map_lt (E1 n) pairs i (0, 0) []) by lia.
      destruct (Hp (nth i pairs (0, 0)) ltac:(apply nth_In; lia)) as (Ha & Hb & Hab).
      unfold E1, Einv. apply minv_E; assumption. }
  cbn [bind].
  rewrite <- (map_map (fun i => nth i pairs (0, 0)) (Einv n m)), map_nth_seq_all.
  rewrite <- Hl. rewrite <- (map_map (fun i => nth i names ""%string) (fun nm => cat [nm; "'"%string])), map_nth_seq_all.
  apply for_matrix_group_ok.
  - destruct pairs; [congruence|discriminate].
  - destruct pairs as [|ab pairs]; [congruence|]. cbn [map hd app]. apply E_length.
  - rewrite !app_length, !map_length. lia.
Qed.

(* ---------------------------------------------------------------------------------------------- *)
(** * heisenberg(n, modulo, add_inverses), n >= 3:
      x_i = I + E_{0,i}, y_i = I + E_{i,n-1}  (i = 1..n-2), then (add_inverses, modulo <> 2) their inverses *)

Definition heis_pairs (n : nat) : list (nat * nat) :=
  map (fun i => (0, i)) (seq 1 (n - 2)) ++ map (fun i => (i, n - 1)) (seq 1 (n - 2)).
Definition heis_gens (n : nat) : list (list (list Z)) :=
  map (fun i => E n 0 i 1) (seq 1 (n - 2)) ++ map (fun i => E n i (n - 1) 1) (seq 1 (n - 2)).
Definition heis_invs (n : nat) (m : Z) : list (list (list Z)) :=
  map (fun i => E n 0 i (red m (-1))) (seq 1 (n - 2)) ++ map (fun i => E n i (n - 1) (red m (-1))) (seq 1 (n - 2)).
Definition heis_names (n : nat) : list string :=
  map (fun i => if n =? 3 then "x"%string else cat ["x"%string; zs (Z.of_nat i)]) (seq 1 (n - 2))
  ++ map (fun i => if n =? 3 then "y"%string else cat ["y"%string; zs (Z.of_nat i)]) (seq 1 (n - 2)).
Definition primed (names : list string) : list string := map (fun nm => cat [nm; "'"%string]) names.

Lemma heis_gens_pairs n : heis_gens n = map (E1 n) (heis_pairs n).
Proof. unfold heis_gens, heis_pairs. now rewrite map_app, !map_map. Qed.
Lemma heis_invs_pairs n m : heis_invs n m = map (Einv n m) (heis_pairs n).
Proof. unfold heis_invs, heis_pairs. now rewrite map_app, !map_map. Qed.

Lemma heis_pairs_ok n : 3 <= n -> pairs_ok n (heis_pairs n).
Proof.
  intros Hn ab Hab. apply in_app_or in Hab as [Hab|Hab]; apply in_map_iff in Hab as (i & <- & Hi); apply in_seq in Hi;
    cbn [fst snd]; lia.
Qed.

Lemma heis_pairs_length n : length (heis_pairs n) = 2 * (n - 2).
Proof. unfold heis_pairs. rewrite app_length, !map_length, seq_length. lia. Qed.
Lemma heis_gens_length n : length (heis_gens n) = 2 * (n - 2).
Proof. now rewrite heis_gens_pairs, map_length, heis_pairs_length. Qed.
Lemma heis_invs_length n m : length (heis_invs n m) = 2 * (n - 2).
Proof. now rewrite heis_invs_pairs, map_length, heis_pairs_length. Qed.
Lemma heis_names_length n : length (heis_names n) = 2 * (n - 2).
Proof. unfold heis_names. rewrite app_length, !map_length, seq_length. lia. Qed.

Lemma heis_pairs_nonempty n : 3 <= n -> heis_pairs n <> [].
Proof. intros Hn H. apply (f_equal (@length _)) in H. rewrite heis_pairs_length in H. cbn [length] in H. lia. Qed.

(* without inverses *)
Theorem heisenberg_plain_returns cand n m : 3 <= n -> valid_modulo m = true ->
  heisenberg cand (Z.of_nat n) m false
  = Ok (mk_mdef_n (heis_gens n) m (heis_names n) (mname "heisenberg-" n m) n)
  /\ forall b, heisenberg cand (Z.of_nat n) m b
     = if b then m_make_inverse_closed cand (mk_mdef_n (heis_gens n) m (heis_names n) (mname "heisenberg-" n m) n)
       else Ok (mk_mdef_n (heis_gens n) m (heis_names n) (mname "heisenberg-" n m) n).
Proof.
  intros Hn Hm.
  assert (forall b, heisenberg cand (Z.of_nat n) m b
     = if b then m_make_inverse_closed cand (mk_mdef_n (heis_gens n) m (heis_names n) (mname "heisenberg-" n m) n)
       else Ok (mk_mdef_n (heis_gens n) m (heis_names n) (mname "heisenberg-" n m) n)) as G; [|split; [apply (G false)|exact G]].
  intros b. unfold heisenberg. destruct (Z.leb_spec 3 (Z.of_nat n)) as [_|Hlt]; [|lia]. cbn [negb]. cbv zeta.
  rewrite (zrange_nat' 1 (Z.of_nat n - 1) 1 (n - 1)) by lia. replace (n - 1 - 1) with (n - 2) by lia.
  unfold zeye. rewrite Nat2Z.id, eye_tab. unfold of_nats.
  assert (Hone : entry_ok m 1) by (rewrite <- (red_1 m Hm); apply entry_ok_red, Hm).
  rewrite (mapM_map_ok Z.of_nat _ (fun i => E n 0 i 1)).
  2:{ intros i Hi. apply in_seq in Hi. rewrite (mset_tab n delta 0 i) by lia.
      apply (mgen_ok m n); [exact Hm|]. apply E_ok; assumption. }
  cbn [bind]. rewrite (mapM_map_ok Z.of_nat _ (fun i => E n i (n - 1) 1)).
  2:{ intros i Hi. apply in_seq in Hi. replace (Z.of_nat n - 1)%Z with (Z.of_nat (n - 1)) by lia.
      rewrite (mset_tab n delta i (n - 1)) by lia.
      apply (mgen_ok m n); [exact Hm|]. apply E_ok; assumption. }
  cbn [bind]. fold (heis_gens n). rewrite !map_map.
  assert (forall (sx : string), map (fun i => if (Z.of_nat n =? 3)%Z then sx else cat [sx; zs (Z.of_nat i)]) (seq 1 (n - 2))
          = map (fun i => if n =? 3 then sx else cat [sx; zs (Z.of_nat i)]) (seq 1 (n - 2))) as Hnm.
  { intros sx. apply map_ext. intros i. destruct (Z.eqb_spec (Z.of_nat n) 3), (Nat.eqb_spec n 3); try reflexivity; lia. }
  rewrite !Hnm. fold (heis_names n).
  rewrite (for_matrix_group_ok m (heis_gens n) (heis_names n) _ n).
  - cbn [bind]. reflexivity.
  - rewrite heis_gens_pairs. intros H. apply map_eq_nil in H. revert H. apply heis_pairs_nonempty, Hn.
  - unfold heis_gens. replace (n - 2) with (S (n - 3)) by lia. cbn [seq map app hd]. apply E_length.
  - now rewrite heis_gens_length, heis_names_length.
Qed.

Lemma heis_name_nonempty n m : String.eqb (mname "heisenberg-" n m) "" = false.
Proof. unfold mname, cat. destruct (0 <? m)%Z; reflexivity. Qed.

Definition heis_added (m : Z) (add_inverses : bool) : bool := add_inverses && negb (m =? 2)%Z.

Theorem heisenberg_returns cand n m b : cand_elem cand -> 3 <= n -> valid_modulo m = true ->
  heisenberg cand (Z.of_nat n) m b
  = Ok (if heis_added m b
        then mk_mdef_n (heis_gens n ++ heis_invs n m) m (heis_names n ++ primed (heis_names n))
                       (cat [mname "heisenberg-" n m; "-ic"%string]) n
        else mk_mdef_n (heis_gens n) m (heis_names n) (mname "heisenberg-" n m) n).
Proof.
  intros Hc Hn Hm. destruct (heisenberg_plain_returns cand n m Hn Hm) as [_ G]. rewrite G. unfold heis_added.
  destruct b; [|reflexivity]. cbn [andb]. destruct (Z.eqb_spec m 2) as [->|Hm2]; cbn [negb].
  - unfold m_make_inverse_closed, mk_mdef_n. cbn [m_modulo m_mats].
    replace (length (hd [] (heis_gens n))) with n.
    + rewrite heis_gens_pairs, elem_closed_mod2 by (apply heis_pairs_ok, Hn). reflexivity.
    + unfold heis_gens. replace (n - 2) with (S (n - 3)) by lia. cbn [seq map app hd]. now rewrite E_length.
  - rewrite heis_gens_pairs, heis_invs_pairs.
    rewrite (mic_elem cand m n (heis_pairs n)); auto using heis_pairs_nonempty, heis_pairs_ok.
    + unfold ic_name. rewrite heis_name_nonempty. reflexivity.
    + now rewrite heis_names_length, heis_pairs_length.
Qed.

Lemma heis_hd_length n l : 3 <= n -> length (hd [] (heis_gens n ++ l)) = n.
Proof.
  intros Hn. unfold heis_gens. replace (n - 2) with (S (n - 3)) by lia. cbn [seq map app hd]. apply E_length.
Qed.

(* position of every generator in the returned list *)
Lemma heis_nth n m l i : 1 <= i <= n - 2 ->
  nth (i - 1) (heis_gens n ++ l) [] = E n 0 i 1 /\
  nth (n - 2 + (i - 1)) (heis_gens n ++ l) [] = E n i (n - 1) 1 /\
  nth (2 * (n - 2) + (i - 1)) (heis_gens n ++ heis_invs n m) [] = E n 0 i (red m (-1)) /\
  nth (3 * (n - 2) + (i - 1)) (heis_gens n ++ heis_invs n m) [] = E n i (n - 1) (red m (-1)).
Proof.
  intros Hi. pose proof (heis_gens_length n) as HL.
  assert (forall (f : nat -> list (list Z)), nth (i - 1) (map f (seq 1 (n - 2))) [] = f i) as Hf.
  { intros f. rewrite nth_map_seq by lia. f_equal. lia. }
  assert (forall (f : nat -> list (list Z)), length (map f (seq 1 (n - 2))) = n - 2) as Hlen.
  { intros f. now rewrite map_length, seq_length. }
  repeat split.
  - rewrite app_nth1 by lia. unfold heis_gens. rewrite app_nth1 by (rewrite Hlen; lia). apply Hf.
  - rewrite app_nth1 by lia. unfold heis_gens. rewrite app_nth2 by (rewrite Hlen; lia). rewrite Hlen.
    replace (n - 2 + (i - 1) - (n - 2)) with (i - 1) by lia. apply Hf.
  - rewrite app_nth2 by lia. rewrite HL. replace (2 * (n - 2) + (i - 1) - 2 * (n - 2)) with (i - 1) by lia.
    unfold heis_invs. rewrite app_nth1 by (rewrite Hlen; lia). apply Hf.
  - rewrite app_nth2 by lia. rewrite HL. replace (3 * (n - 2) + (i - 1) - 2 * (n - 2)) with (n - 2 + (i - 1)) by lia.
    unfold heis_invs. rewrite app_nth2 by (rewrite Hlen; lia). rewrite Hlen.
    replace (n - 2 + (i - 1) - (n - 2)) with (i - 1) by lia. apply Hf.
Qed.

Theorem heisenberg_documented cand n m b : cand_elem cand -> 3 <= n -> valid_modulo m = true ->
  exists d, heisenberg cand (Z.of_nat n) m b = Ok d /\
    (* inverses are appended iff add_inverses and modulo <> 2 (modulo 2: every generator is an involution) *)
    m_mats d = heis_gens n ++ (if heis_added m b then heis_invs n m else []) /\
    m_modulo d = m /\
    m_names d = heis_names n ++ (if heis_added m b then primed (heis_names n) else []) /\
    m_name d = (if heis_added m b then cat [mname "heisenberg-" n m; "-ic"%string] else mname "heisenberg-" n m) /\
    m_central d = List.concat (eye n) /\
    length (m_mats d) = (if heis_added m b then 4 else 2) * (n - 2) /\
    length (m_names d) = (if heis_added m b then 4 else 2) * (n - 2) /\
    Forall (mat_ok n m) (m_mats d) /\
    (forall i, 1 <= i <= n - 2 ->
       nth (i - 1) (m_mats d) [] = E n 0 i 1 /\
       nth (n - 2 + (i - 1)) (m_mats d) [] = E n i (n - 1) 1 /\
       (heis_added m b = true ->
          nth (2 * (n - 2) + (i - 1)) (m_mats d) [] = E n 0 i (red m (-1)) /\
          nth (3 * (n - 2) + (i - 1)) (m_mats d) [] = E n i (n - 1) (red m (-1))) /\
       is_inverse_to m n (E n 0 i 1) (E n 0 i (red m (-1))) = true /\
       is_inverse_to m n (E n 0 i (red m (-1))) (E n 0 i 1) = true /\
       is_inverse_to m n (E n i (n - 1) 1) (E n i (n - 1) (red m (-1))) = true /\
       is_inverse_to m n (E n i (n - 1) (red m (-1))) (E n i (n - 1) 1) = true) /\
    m_closed d = b || (m =? 2)%Z /\
    (m_closed d = true -> inverse_closed m n (m_mats d)).
Proof.
  intros Hc Hn Hm. eexists. split; [apply heisenberg_returns; assumption|].
  assert (Hneg : entry_ok m (red m (-1))) by (apply entry_ok_red, Hm).
  assert (Hone : entry_ok m 1) by (rewrite <- (red_1 m Hm); apply entry_ok_red, Hm).
  pose proof (heis_pairs_ok n Hn) as Hp.
  assert (Forall (mat_ok n m) (heis_gens n)) as Hg.
  { rewrite heis_gens_pairs. apply Forall_forall. intros M HM. apply in_map_iff in HM as (ab & <- & _). apply E_ok; assumption. }
  assert (Forall (mat_ok n m) (heis_invs n m)) as Hi.
  { rewrite heis_invs_pairs. apply Forall_forall. intros M HM. apply in_map_iff in HM as (ab & <- & _). apply E_ok; assumption. }
  assert (forall i, 1 <= i <= n - 2 ->
       is_inverse_to m n (E n 0 i 1) (E n 0 i (red m (-1))) = true /\
       is_inverse_to m n (E n 0 i (red m (-1))) (E n 0 i 1) = true /\
       is_inverse_to m n (E n i (n - 1) 1) (E n i (n - 1) (red m (-1))) = true /\
       is_inverse_to m n (E n i (n - 1) (red m (-1))) (E n i (n - 1) 1) = true) as Hinv.
  { intros i Hi'. destruct (E_inverse m n 0 i Hm ltac:(lia) ltac:(lia) ltac:(lia)) as [I1 I2].
    destruct (E_inverse m n i (n - 1) Hm ltac:(lia) ltac:(lia) ltac:(lia)) as [I3 I4]. auto. }
  unfold m_closed. destruct (heis_added m b) eqn:Ha; unfold mk_mdef_n; cbn [m_mats m_modulo m_names m_name m_central].
  - (* inverses appended *)
    unfold heis_added in Ha. apply andb_true_iff in Ha as [-> Hm2]. cbn [orb].
    rewrite heis_hd_length by exact Hn.
    assert (inverse_closed m n (heis_gens n ++ heis_invs n m)) as Hcl.
    { rewrite heis_gens_pairs, heis_invs_pairs. apply elem_closed_with_invs; assumption. }
    do 5 (split; [reflexivity|]).
    split; [rewrite app_length, heis_gens_length, heis_invs_length; lia|].
    split; [unfold primed; rewrite app_length, map_length, heis_names_length; lia|].
    split; [apply Forall_app; split; assumption|].
    split; [|split; [apply matrix_closed_iff; exact Hcl|intros _; exact Hcl]].
    intros i Hi'. destruct (heis_nth n m (heis_invs n m) i Hi') as (N1 & N2 & N3 & N4).
    split; [exact N1|]. split; [exact N2|]. split; [intros _; split; assumption|]. apply Hinv, Hi'.
  - (* nothing appended *)
    rewrite !app_nil_r. pose proof (heis_hd_length n [] Hn) as Hhd. rewrite app_nil_r in Hhd. rewrite Hhd.
    do 5 (split; [reflexivity|]).
    split; [apply heis_gens_length|]. split; [apply heis_names_length|]. split; [exact Hg|].
    split.
    { intros i Hi'. destruct (heis_nth n m [] i Hi') as (N1 & N2 & _). rewrite app_nil_r in N1, N2.
      split; [exact N1|]. split; [exact N2|]. split; [discriminate|]. apply Hinv, Hi'. }
    rewrite heis_gens_pairs. unfold heis_added in Ha. destruct (Z.eqb_spec m 2) as [->|Hm2].
    + rewrite orb_true_r. rewrite elem_closed_mod2 by exact Hp. split; [reflexivity|]. intros _.
      apply matrix_closed_iff. apply elem_closed_mod2, Hp.
    + cbn [negb] in Ha. rewrite andb_true_r in Ha. subst b. cbn [orb].
      rewrite elem_not_closed by (auto using heis_pairs_nonempty). split; [reflexivity|discriminate].
Qed.

Theorem heisenberg_range cand z m b : cand_elem cand ->
  ((exists d, heisenberg cand z m b = Ok d) <-> ((3 <= z)%Z /\ valid_modulo m = true)) /\
  (~ ((3 <= z)%Z /\ valid_modulo m = true) -> heisenberg cand z m b = Err AssertionErr).
Proof.
  intros Hc. apply range_from_cases.
  - intros [Hz Hm]. destruct (heisenberg_documented cand (Z.to_nat z) m b Hc ltac:(lia) Hm) as (d & Hd & _).
    rewrite Z2Nat.id in Hd by lia. eauto.
  - intros Hn. unfold heisenberg. destruct (Z.leb_spec 3 z); [|reflexivity]. cbn [negb].
    destruct (valid_modulo_dec m) as [Hm|Hm]; [tauto|]. cbv zeta.
    rewrite (zrange_cons 1 (z - 1)) by lia. cbn [mapM]. rewrite mgen_invalid by exact Hm. reflexivity.
  - destruct (Z_le_dec 3 z), (valid_modulo_dec m) as [Hm|Hm]; try tauto; right; intros [? ?]; try lia; congruence.
Qed.

Example heisenberg_4_3 :
  heisenberg elem_inv 4 3 true
  = Ok (mk_mdef [[[1; 1; 0; 0]; [0; 1; 0; 0]; [0; 0; 1; 0]; [0; 0; 0; 1]];
                 [[1; 0; 1; 0]; [0; 1; 0; 0]; [0; 0; 1; 0]; [0; 0; 0; 1]];
                 [[1; 0; 0; 0]; [0; 1; 0; 1]; [0; 0; 1; 0]; [0; 0; 0; 1]];
                 [[1; 0; 0; 0]; [0; 1; 0; 0]; [0; 0; 1; 1]; [0; 0; 0; 1]];
                 [[1; 2; 0; 0]; [0; 1; 0; 0]; [0; 0; 1; 0]; [0; 0; 0; 1]];
                 [[1; 0; 2; 0]; [0; 1; 0; 0]; [0; 0; 1; 0]; [0; 0; 0; 1]];
                 [[1; 0; 0; 0]; [0; 1; 0; 2]; [0; 0; 1; 0]; [0; 0; 0; 1]];
                 [[1; 0; 0; 0]; [0; 1; 0; 0]; [0; 0; 1; 2]; [0; 0; 0; 1]]]%Z 3
                ["x1"; "x2"; "y1"; "y2"; "x1'"; "x2'"; "y1'"; "y2'"]%string "heisenberg-4%3-ic"%string
                [1; 0; 0; 0; 0; 1; 0; 0; 0; 0; 1; 0; 0; 0; 0; 1]%Z)
  /\ heis_gens 4 ++ heis_invs 4 3
     = [[[1; 1; 0; 0]; [0; 1; 0; 0]; [0; 0; 1; 0]; [0; 0; 0; 1]];
        [[1; 0; 1; 0]; [0; 1; 0; 0]; [0; 0; 1; 0]; [0; 0; 0; 1]];
        [[1; 0; 0; 0]; [0; 1; 0; 1]; [0; 0; 1; 0]; [0; 0; 0; 1]];
        [[1; 0; 0; 0]; [0; 1; 0; 0]; [0; 0; 1; 1]; [0; 0; 0; 1]];
        [[1; 2; 0; 0]; [0; 1; 0; 0]; [0; 0; 1; 0]; [0; 0; 0; 1]];
        [[1; 0; 2; 0]; [0; 1; 0; 0]; [0; 0; 1; 0]; [0; 0; 0; 1]];
        [[1; 0; 0; 0]; [0; 1; 0; 2]; [0; 0; 1; 0]; [0; 0; 0; 1]];
        [[1; 0; 0; 0]; [0; 1; 0; 0]; [0; 0; 1; 2]; [0; 0; 0; 1]]]%Z
  /\ heis_names 4 ++ primed (heis_names 4) = ["x1"; "x2"; "y1"; "y2"; "x1'"; "x2'"; "y1'"; "y2'"]%string
  /\ heisenberg elem_inv 3 2 true
     = Ok (mk_mdef [[[1; 1; 0]; [0; 1; 0]; [0; 0; 1]]; [[1; 0; 0]; [0; 1; 1]; [0; 0; 1]]]%Z 2
                   ["x"; "y"]%string "heisenberg-3%2"%string [1; 0; 0; 0; 1; 0; 0; 0; 1]%Z)
  /\ heisenberg elem_inv 3 0 true
     = Ok (mk_mdef [[[1; 1; 0]; [0; 1; 0]; [0; 0; 1]]; [[1; 0; 0]; [0; 1; 1]; [0; 0; 1]];
                    [[1; -1; 0]; [0; 1; 0]; [0; 0; 1]]; [[1; 0; 0]; [0; 1; -1]; [0; 0; 1]]]%Z 0
                   ["x"; "y"; "x'"; "y'"]%string "heisenberg-3-ic"%string [1; 0; 0; 0; 1; 0; 0; 0; 1]%Z)
  /\ heisenberg elem_inv 2 0 true = Err AssertionErr
  /\ heisenberg elem_inv 3 1 false = Err AssertionErr.
Proof. vm_compute. repeat split. Qed.

(* ---------------------------------------------------------------------------------------------- *)
(** * The acceptance check of the bounded theorem ([FamiliesOk.mcall_ok]) holds for EVERY call:
      all n (negative, huge), all moduli (valid or not), both values of add_inverses.
      ([FamiliesBoundedMatrix.matrix_families_ok_bounded] is the instance n <= 5, modulo in test_moduli.) *)

Lemma mat_ok_bool size m M : mat_ok size m M ->
  ((length M =? size)
   && forallb (fun r => (length r =? size)
                        && forallb (fun v => (m =? 0)%Z || ((0 <=? v)%Z && (v <? m)%Z)) r) M) = true.
Proof.
  intros [HL HF]. rewrite HL, Nat.eqb_refl. cbn [andb]. apply forallb_forall. intros r Hr.
  rewrite Forall_forall in HF. destruct (HF r Hr) as [Hlen Hrow]. rewrite Hlen, Nat.eqb_refl. cbn [andb].
  apply forallb_forall. intros v Hv. rewrite Forall_forall in Hrow. destruct (Hrow v Hv) as [->|Hv'].
  - reflexivity.
  - apply orb_true_iff. right. apply andb_true_iff. split; [apply Z.leb_le|apply Z.ltb_lt]; lia.
Qed.

Lemma mcall_ok_intro c d size count closed :
  run_mcall c = Ok d -> mexpect c = Some (size, count, closed) ->
  Forall (mat_ok size (m_modulo d)) (m_mats d) -> length (m_mats d) = count -> length (m_names d) = count ->
  m_central d = List.concat (eye size) -> m_closed d = closed -> mcall_ok c = true.
Proof.
  intros Hr He HF Hc Hn Hcen Hcl. unfold mcall_ok. rewrite Hr, He, Hc, Hn, Hcen, Hcl, !Nat.eqb_refl, eqb_reflx.
  rewrite (list_eqb_refl Z.eqb Z.eqb_refl). rewrite !andb_true_r.
  apply forallb_forall. intros M HM. rewrite Forall_forall in HF. apply mat_ok_bool, HF, HM.
Qed.

Lemma mcall_ok_err c e : run_mcall c = Err e -> mexpect c = None -> mcall_ok c = true.
Proof. intros Hr He. unfold mcall_ok. rewrite Hr, He. reflexivity. Qed.

Lemma some3_true c s k b : c = true -> some3 c s k b = Some (Z.to_nat s, Z.to_nat k, b).
Proof. intros ->. reflexivity. Qed.
Lemma some3_false c s k b : c = false -> some3 c s k b = None.
Proof. intros ->. reflexivity. Qed.

Lemma range_bool (lo z : Z) m : ((lo <=? z)%Z && valid_modulo m = true) <-> ((lo <= z)%Z /\ valid_modulo m = true).
Proof. rewrite andb_true_iff, Z.leb_le. reflexivity. Qed.

Theorem matrix_families_ok_all : forall c, mcall_ok c = true.
Proof.
  intros [z m b|z m|z m]; cbn [run_mcall mexpect].
  - (* heisenberg *)
    destruct (heisenberg_range elem_inv z m b elem_inv_cand_elem) as [_ Herr].
    destruct ((3 <=? z)%Z && valid_modulo m) eqn:Hr.
    + apply range_bool in Hr as [Hz Hm].
      destruct (heisenberg_documented elem_inv (Z.to_nat z) m b elem_inv_cand_elem ltac:(lia) Hm)
        as (d & Hd & _ & Hmod & _ & _ & Hcen & HL & HN & HF & _ & Hcl & _).
      rewrite Z2Nat.id in Hd by lia.
      eapply (mcall_ok_intro (CHeisenberg z m b) d); cbn [run_mcall mexpect];
        [exact Hd|apply some3_true; apply range_bool; auto|rewrite Hmod; exact HF| | |exact Hcen|exact Hcl].
      * rewrite HL. unfold heis_added. destruct (b && negb (m =? 2)%Z); lia.
      * rewrite HN. unfold heis_added. destruct (b && negb (m =? 2)%Z); lia.
    + apply (mcall_ok_err (CHeisenberg z m b) AssertionErr); cbn [run_mcall mexpect].
      * apply Herr. rewrite <- range_bool, Hr. discriminate.
      * apply some3_false, Hr.
  - (* special_linear_fundamental_roots *)
    destruct (sl_fund_roots_range elem_inv z m elem_inv_cand_elem) as [_ Herr].
    destruct ((2 <=? z)%Z && valid_modulo m) eqn:Hr.
    + apply range_bool in Hr as [Hz Hm].
      destruct (sl_fund_roots_documented elem_inv (Z.to_nat z) m elem_inv_cand_elem ltac:(lia) Hm)
        as (d & Hd & _ & Hmod & _ & _ & Hcen & HL & HN & HF & _ & _ & Hcl).
      rewrite Z2Nat.id in Hd by lia.
      eapply (mcall_ok_intro (CSlFundRoots z m) d); cbn [run_mcall mexpect];
        [exact Hd|apply some3_true; apply range_bool; auto|rewrite Hmod; exact HF| | |exact Hcen|exact Hcl].
      * rewrite HL. lia.
      * rewrite HN. lia.
    + apply (mcall_ok_err (CSlFundRoots z m) AssertionErr); cbn [run_mcall mexpect].
      * apply Herr. rewrite <- range_bool, Hr. discriminate.
      * apply some3_false, Hr.
  - (* special_linear_root_weyl *)
    destruct (sl_root_weyl_range elem_inv z m elem_inv_cand_elem) as [_ Herr].
    destruct ((2 <=? z)%Z && valid_modulo m) eqn:Hr.
    + apply range_bool in Hr as [Hz Hm].
      destruct (sl_root_weyl_documented elem_inv (Z.to_nat z) m elem_inv_cand_elem ltac:(lia) Hm)
        as (d & Hd & _ & Hmod & _ & _ & Hcen & HL & HN & HF & _ & _ & _ & _ & _ & Hcl).
      rewrite Z2Nat.id in Hd by lia.
      eapply (mcall_ok_intro (CSlRootWeyl z m) d); cbn [run_mcall mexpect];
        [exact Hd|apply some3_true; apply range_bool; auto|rewrite Hmod; exact HF| | |exact Hcen|exact Hcl].
      * rewrite HL. reflexivity.
      * rewrite HN. reflexivity.
    + apply (mcall_ok_err (CSlRootWeyl z m) AssertionErr); cbn [run_mcall mexpect].
      * apply Herr. rewrite <- range_bool, Hr. discriminate.
      * apply some3_false, Hr.
Qed.

(* ---------------------------------------------------------------------------------------------- *)
(** * Determinant 1.  [det] is the Laplace expansion along the first row, by structural recursion on the
      size; it is evaluated over Z on the stored representatives (for modulo > 0 the statement for w is
      "congruent to 1 modulo m"). *)

Fixpoint del {A} (j : nat) (l : list A) : list A :=
  match l, j with
  | [], _ => []
  | _ :: t, O => t
  | h :: t, S j' => h :: del j' t
  end.

Definition sgn (j : nat) : Z := if Nat.even j then 1%Z else (-1)%Z.

Fixpoint det (n : nat) (M : list (list Z)) : Z :=
  match n with
  | O => 1%Z
  | S n' =>
    match M with
    | [] => 0%Z
    | r :: rest => zsum (map (fun j => (sgn j * nth j r 0 * det n' (map (del j) rest))%Z) (seq 0 (S n')))
    end
  end.

Definition skip (j c : nat) : nat := if c <? j then c else S c.

Lemma map_seq_from0 {A} (f : nat -> A) k : forall s, map f (seq s k) = map (fun c => f (s + c)) (seq 0 k).
Proof.
  induction k as [|k IH]; intros s; [reflexivity|]. cbn [seq map]. f_equal; [f_equal; lia|].
  rewrite IH. rewrite <- seq_shift, map_map. apply map_ext. intros c. f_equal. lia.
Qed.

Lemma del_map_seq {A} (f : nat -> A) n : forall j s, j <= n ->
  del j (map f (seq s (S n))) = map (fun c => f (s + skip j c)) (seq 0 n).
Proof.
  induction n as [|n IH]; intros j s Hj.
  - assert (j = 0) as -> by lia. reflexivity.
  - destruct j as [|j].
    + change (seq s (S (S n))) with (s :: seq (S s) (S n)). cbn [map del].
      rewrite (map_seq_from0 f (S n) (S s)). apply map_ext. intros c. f_equal. unfold skip. cbn. lia.
    + change (seq s (S (S n))) with (s :: seq (S s) (S n)). cbn [map del]. rewrite IH by lia.
      change (seq 0 (S n)) with (0 :: seq 1 n). cbn [map]. f_equal.
      * f_equal. unfold skip. cbn. lia.
      * rewrite <- seq_shift, map_map. apply map_ext. intros c. f_equal. unfold skip.
        destruct (Nat.ltb_spec c j), (Nat.ltb_spec (S c) (S j)); lia.
Qed.

Lemma det_tab_S n F :
  det (S n) (tab (S n) F)
  = zsum (map (fun j => (sgn j * F 0%nat j * det n (tab n (fun i c => F (S i) (skip j c))))%Z) (seq 0 (S n))).
Proof.
  unfold tab at 1. change (seq 0 (S n)) with (0 :: seq 1 n) at 2. cbn [map det]. f_equal.
  apply map_ext_in. intros j Hj. apply in_seq in Hj.
  rewrite (nth_map_seq (fun j => F 0 j) 0 (S n) j 0%Z) by lia. cbn [Nat.add]. f_equal.
  f_equal. rewrite <- seq_shift, !map_map. unfold tab. apply map_ext. intros i.
  rewrite (del_map_seq (fun c => F (S i) c) n j 0) by lia. reflexivity.
Qed.

Lemma det_ext n F G : (forall i j, i < n -> j < n -> F i j = G i j) -> det n (tab n F) = det n (tab n G).
Proof. intros H. now rewrite (tab_ext n F G H). Qed.

(* lower unitriangular *)
Lemma det_lower n : forall F, (forall i, i < n -> F i i = 1%Z) -> (forall i j, i < j -> j < n -> F i j = 0%Z) ->
  det n (tab n F) = 1%Z.
Proof.
  induction n as [|n IH]; intros F Hd Hu; [reflexivity|].
  rewrite det_tab_S. rewrite (zsum_single _ (S n) 0) by (try lia; intros j Hj Hj0; rewrite (Hu 0 j) by lia; lia).
  rewrite Hd by lia. rewrite IH; [reflexivity| |].
  - intros i Hi. unfold skip. cbn. apply Hd. lia.
  - intros i j Hij Hj. unfold skip. cbn. apply Hu; lia.
Qed.

(* first column zero *)
Lemma det_col0 n : forall F, 1 <= n -> (forall i, i < n -> F i 0 = 0%Z) -> det n (tab n F) = 0%Z.
Proof.
  induction n as [|n IH]; intros F Hn H0; [lia|].
  rewrite det_tab_S. apply zsum_map_zero. intros j Hj. apply in_seq in Hj.
  destruct j as [|j]; [rewrite H0 by lia; lia|].
  rewrite IH; [lia|lia|]. intros i Hi. unfold skip. cbn. apply H0. lia.
Qed.

(* upper unitriangular *)
Lemma det_upper n : forall F, (forall i, i < n -> F i i = 1%Z) -> (forall i j, j < i -> i < n -> F i j = 0%Z) ->
  det n (tab n F) = 1%Z.
Proof.
  induction n as [|n IH]; intros F Hd Hl; [reflexivity|].
  rewrite det_tab_S. rewrite (zsum_single _ (S n) 0).
  - rewrite Hd by lia. rewrite IH; [reflexivity| |].
    + intros i Hi. unfold skip. cbn. apply Hd. lia.
    + intros i j Hij Hi. unfold skip. cbn. apply Hl; lia.
  - lia.
  - intros j Hj Hj0. rewrite det_col0; [lia|lia|]. intros i Hi. unfold skip.
    destruct (Nat.ltb_spec 0 j); [|lia]. apply Hl; lia.
Qed.

(* every elementary matrix I + v E_ab (a <> b), in particular every generator and every listed inverse of
   heisenberg and special_linear_fundamental_roots, and e, e' of special_linear_root_weyl *)
Theorem det_E n a b v : a <> b -> det n (E n a b v) = 1%Z.
Proof.
  intros Hab. unfold E. destruct (Nat.lt_ge_cases a b) as [Hlt|Hge].
  - apply det_upper.
    + intros i Hi. unfold delta. nat_cases; reflexivity.
    + intros i j Hji Hi. unfold delta. nat_cases; reflexivity.
  - apply det_lower.
    + intros i Hi. unfold delta. nat_cases; reflexivity.
    + intros i j Hij Hj. unfold delta. nat_cases; reflexivity.
Qed.

Lemma det_eye n : det n (eye n) = 1%Z.
Proof. rewrite eye_tab. apply det_lower; intros; unfold delta; nat_cases; reflexivity. Qed.

(* the Weyl matrix with corner s: (-1)^(n-1) s *)
Lemma det_Wraw n s : 1 <= n -> det n (Wraw n s) = (wsign n * s)%Z.
Proof.
  intros Hn. destruct n as [|k]; [lia|]. clear Hn. induction k as [|k IH].
  - unfold Wraw. rewrite det_tab_S. cbn [seq map]. rewrite zsum_cons, zsum_nil.
    cbn [det Nat.sub Nat.eqb andb]. unfold sgn, wsign. cbn [Nat.even]. lia.
  - unfold Wraw. rewrite det_tab_S. rewrite (zsum_single _ (S (S k)) 1).
    + rewrite (det_ext (S k) _ (fun i j => if (i =? S k - 1) && (j =? 0) then s else if j =? i + 1 then 1%Z else 0%Z)).
      * fold (Wraw (S k) s). rewrite IH. unfold wsign, sgn. rewrite (Nat.even_succ (S k)), <- Nat.negb_even.
        replace (S (S k) - 1) with (S k) by lia. cbn [Nat.eqb Nat.add andb]. change (Nat.even 1) with false.
        destruct (Nat.even (S k)); cbn [negb]; lia.
      * intros i j Hi Hj. unfold skip. destruct (Nat.ltb_spec j 1); nat_cases; reflexivity.
    + lia.
    + intros j Hj Hj1. nat_cases; lia.
Qed.

Lemma det_Wt_raw n s : 2 <= n ->
  det n (tab n (fun i j => if (j =? n - 1) && (i =? 0) then s else if i =? j + 1 then 1%Z else 0%Z))
  = (wsign n * s)%Z.
Proof.
  intros Hn. destruct n as [|k]; [lia|]. rewrite det_tab_S. rewrite (zsum_single _ (S k) k).
  - rewrite (det_ext k _ delta).
    + rewrite <- eye_tab, det_eye. unfold sgn, wsign. rewrite Nat.even_succ, <- Nat.negb_even.
      nat_cases. destruct (Nat.even k); cbn [negb]; lia.
    + intros i j Hi Hj. unfold skip, delta. destruct (Nat.ltb_spec j k); nat_cases; reflexivity.
  - lia.
  - intros j Hj Hjk. nat_cases; lia.
Qed.

(* w and w' have determinant 1 (as integers for modulo 0, modulo m otherwise) *)
Theorem det_W n m : valid_modulo m = true -> 2 <= n ->
  red m (det n (W n m)) = 1%Z /\ red m (det n (Wt n m)) = 1%Z.
Proof.
  intros Hm Hn.
  assert (red m (wsign n * red m (wsign n)) = 1%Z) as H1.
  { transitivity (red m (wsign n * wsign n)); [|rewrite wsign_sq; apply red_1, Hm].
    unfold red. destruct (0 <? m)%Z; [|reflexivity]. apply Zmult_mod_idemp_r. }
  unfold W, Wt. rewrite det_Wraw, det_Wt_raw by lia. auto.
Qed.

Example det_examples :
  det 4 (E 4 1 3 5) = 1%Z /\ det 4 (E 4 3 0 (-1)) = 1%Z /\ det 5 (W 5 0) = 1%Z /\ det 4 (W 4 0) = 1%Z
  /\ det 4 (W 4 7) = (-6)%Z /\ det 4 (Wt 4 7) = (-6)%Z /\ red 7 (-6) = 1%Z
  /\ det 3 [[2; 0; 1]; [1; 3; 2]; [1; 1; 2]]%Z = 6%Z.
Proof. vm_compute. repeat split. Qed.

(* ---------------------------------------------------------------------------------------------- *)
(** * The instantiation used by [FamiliesRun.run_mcall]: cand := elem_inv *)

Corollary heisenberg_run z m b :
  ((exists d, run_mcall (CHeisenberg z m b) = Ok d) <-> ((3 <= z)%Z /\ valid_modulo m = true)) /\
  (~ ((3 <= z)%Z /\ valid_modulo m = true) -> run_mcall (CHeisenberg z m b) = Err AssertionErr) /\
  (forall n, 3 <= n -> valid_modulo m = true ->
     run_mcall (CHeisenberg (Z.of_nat n) m b)
     = Ok (if heis_added m b
           then mk_mdef_n (heis_gens n ++ heis_invs n m) m (heis_names n ++ primed (heis_names n))
                          (cat [mname "heisenberg-" n m; "-ic"%string]) n
           else mk_mdef_n (heis_gens n) m (heis_names n) (mname "heisenberg-" n m) n)).
Proof.
  destruct (heisenberg_range elem_inv z m b elem_inv_cand_elem) as [R1 R2]. split; [exact R1|split; [exact R2|]].
  intros n Hn Hm. apply heisenberg_returns; [apply elem_inv_cand_elem|exact Hn|exact Hm].
Qed.

Corollary sl_fund_roots_run z m :
  ((exists d, run_mcall (CSlFundRoots z m) = Ok d) <-> ((2 <= z)%Z /\ valid_modulo m = true)) /\
  (~ ((2 <= z)%Z /\ valid_modulo m = true) -> run_mcall (CSlFundRoots z m) = Err AssertionErr) /\
  (forall n, 2 <= n -> valid_modulo m = true ->
     run_mcall (CSlFundRoots (Z.of_nat n) m)
     = Ok (mk_mdef_n (fund_gens n m) m (fund_names n) (mname "sl_fund_roots-" n m) n)).
Proof.
  destruct (sl_fund_roots_range elem_inv z m elem_inv_cand_elem) as [R1 R2]. split; [exact R1|split; [exact R2|]].
  intros n Hn Hm. apply sl_fund_roots_returns; [apply elem_inv_cand_elem|exact Hn|exact Hm].
Qed.

Corollary sl_root_weyl_run z m :
  ((exists d, run_mcall (CSlRootWeyl z m) = Ok d) <-> ((2 <= z)%Z /\ valid_modulo m = true)) /\
  (~ ((2 <= z)%Z /\ valid_modulo m = true) -> run_mcall (CSlRootWeyl z m) = Err AssertionErr) /\
  (forall n, 2 <= n -> valid_modulo m = true ->
     run_mcall (CSlRootWeyl (Z.of_nat n) m)
     = Ok (mk_mdef_n [E n 0 1 1; E n 0 1 (red m (-1)); W n m; Wt n m] m ["e"; "e'"; "w"; "w'"]%string
                     (mname "sl_root_weyl-" n m) n)).
Proof.
  destruct (sl_root_weyl_range elem_inv z m elem_inv_cand_elem) as [R1 R2]. split; [exact R1|split; [exact R2|]].
  intros n Hn Hm. apply sl_root_weyl_returns; [apply elem_inv_cand_elem|exact Hn|exact Hm].
Qed.

Definition run_summary (c : mcall) : option (nat * nat * bool) :=
  match run_mcall c with Ok d => Some (length (m_mats d), length (m_names d), m_closed d) | Err _ => None end.

Example run_examples :
  run_summary (CHeisenberg 3 (2 ^ 31) true) = Some (4, 4, true)
  /\ run_summary (CHeisenberg 4 7 true) = Some (8, 8, true)
  /\ run_summary (CHeisenberg 4 2 true) = Some (4, 4, true)
  /\ run_summary (CHeisenberg 4 0 false) = Some (4, 4, false)
  /\ run_summary (CSlFundRoots 4 0) = Some (12, 12, true)
  /\ run_summary (CSlRootWeyl 6 4) = Some (4, 4, true)
  /\ run_summary (CSlRootWeyl 6 1) = None
  /\ mcall_ok (CHeisenberg 4 2 true) = true /\ mcall_ok (CSlRootWeyl (-3) 7) = true.
Proof. vm_compute. repeat split. Qed.

Print Assumptions E_inverse.
Print Assumptions W_inverse.
Print Assumptions elem_inv_cand_elem.
Print Assumptions sl_root_weyl_returns.
Print Assumptions sl_root_weyl_documented.
Print Assumptions sl_root_weyl_range.
Print Assumptions sl_fund_roots_returns.
Print Assumptions sl_fund_roots_documented.
Print Assumptions sl_fund_roots_range.
Print Assumptions heisenberg_plain_returns.
Print Assumptions heisenberg_returns.
Print Assumptions heisenberg_documented.
Print Assumptions heisenberg_range.
Print Assumptions matrix_families_ok_all.
Print Assumptions det_E.
Print Assumptions det_W.
Print Assumptions heisenberg_run.
Print Assumptions sl_fund_roots_run.
Print Assumptions sl_root_weyl_run.
