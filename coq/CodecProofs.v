(** Proofs about the model of cayleypy/string_encoder.py (Codec.v):
    encode/decode round trip and correctness of the generated mask/shift/or routine. *)
From Coq Require Import ZArith List Bool Arith Lia Zify ZifyClasses ZifyNat ZifyBool Sorting.Permutation.
From V Require Import Base W64 W64Proofs Perm PermProofs Codec CodecBits.
Import ListNotations.
Open Scope Z_scope.

Ltac Zify.zify_post_hook ::= Z.div_mod_to_equations.

(* ================= encode ================= *)
Definition enc_term (w : nat) (s : list Z) (i : nat) : Z :=
  w_shl (w_and (w_sar (nth (i / w) s 0) (Z.of_nat (i mod w))) 1) (Z.of_nat (i mod CL)).

Lemma encode_orfold w n s :
  encode w n s = orfold (fun i => (i / CL)%nat) (enc_term w s) (seq 0 (w * n)) (repeat 0 (encoded_length w n)).
Proof. reflexivity. Qed.

Lemma encode_length w n s : length (encode w n s) = encoded_length w n.
Proof. rewrite encode_orfold, orfold_length. apply repeat_length. Qed.

Lemma encode_in64 w n s : Forall in64 (encode w n s).
Proof.
  rewrite encode_orfold. apply orfold_in64.
  - intros i _. apply bitterm_in64.
  - apply Forall_repeat. apply in64_0.
Qed.

(* general form: no range condition on the entries, no condition on w *)
Lemma encode_testbit_gen w n s c b :
  (c < encoded_length w n)%nat -> 0 <= b < 64 ->
  Z.testbit (nth c (encode w n s) 0) b =
    let e := (c * 64 + Z.to_nat b)%nat in
    if (e <? n * w)%nat then Z.testbit (nth (e / w) s 0) (Z.of_nat (e mod w)) else false.
Proof.
  intros Hc Hb. cbv zeta. rewrite encode_orfold, orfold_testbit0 by exact Hc.
  set (e := (c * 64 + Z.to_nat b)%nat).
  apply bool_eq_iff. rewrite existsb_exists. split.
  - intros (i & Hi & H). apply in_seq in Hi.
    apply andb_true_iff in H as [H1 H2]. apply Nat.eqb_eq in H1.
    unfold enc_term in H2. rewrite bitterm_testbit in H2 by lia.
    apply andb_true_iff in H2 as [H2 H3]. apply Z.eqb_eq in H2.
    unfold CL in *.
    assert (i = e) as -> by (unfold e; lia).
    destruct (Nat.ltb_spec e (n * w)); [exact H3|lia].
  - intros H. destruct (Nat.ltb_spec e (n * w)) as [He|He]; [|discriminate].
    exists e. split; [apply in_seq; lia|].
    unfold enc_term. rewrite bitterm_testbit by lia. unfold CL.
    apply andb_true_iff. split; [apply Nat.eqb_eq; unfold e; lia|].
    apply andb_true_iff. split; [apply Z.eqb_eq; unfold e; lia|exact H].
Qed.

Theorem encode_testbit w n s c b :
  (1 <= w <= 64)%nat -> length s = n -> Forall (fun x => 0 <= x < two63) s ->
  (c < encoded_length w n)%nat -> 0 <= b < 64 ->
  Z.testbit (nth c (encode w n s) 0) b =
    let e := (c * 64 + Z.to_nat b)%nat in
    if (e <? n * w)%nat then Z.testbit (nth (e / w) s 0) (Z.of_nat (e mod w)) else false.
Proof. intros _ _ _. apply encode_testbit_gen. Qed.

(* ================= decode ================= *)
Definition dec_term (w : nat) (e : list Z) (i : nat) : Z :=
  w_shl (w_and (w_sar (nth (i / CL) e 0) (Z.of_nat (i mod CL))) 1) (Z.of_nat (i mod w)).

Lemma decode_orfold w n e :
  decode w n e = orfold (fun i => (i / w)%nat) (dec_term w e) (seq 0 (w * n)) (repeat 0 n).
Proof. reflexivity. Qed.

Lemma decode_length w n e : length (decode w n e) = n.
Proof. rewrite decode_orfold, orfold_length. apply repeat_length. Qed.

Lemma decode_in64 w n e : Forall in64 (decode w n e).
Proof.
  rewrite decode_orfold. apply orfold_in64.
  - intros i _. apply bitterm_in64.
  - apply Forall_repeat. apply in64_0.
Qed.

Lemma decode_testbit w n e k b :
  (1 <= w)%nat -> (k < n)%nat -> 0 <= b < 64 ->
  Z.testbit (nth k (decode w n e) 0) b =
    if b <? Z.of_nat w
    then let i := (k * w + Z.to_nat b)%nat in Z.testbit (nth (i / 64) e 0) (Z.of_nat (i mod 64))
    else false.
Proof.
  intros Hw Hk Hb. cbv zeta. rewrite decode_orfold, orfold_testbit0 by exact Hk.
  set (i0 := (k * w + Z.to_nat b)%nat).
  apply bool_eq_iff. rewrite existsb_exists. split.
  - intros (i & Hi & H). apply in_seq in Hi.
    apply andb_true_iff in H as [H1 H2]. apply Nat.eqb_eq in H1.
    unfold dec_term in H2. rewrite bitterm_testbit in H2 by lia.
    apply andb_true_iff in H2 as [H2 H3]. apply Z.eqb_eq in H2.
    unfold CL in *.
    assert (Z.of_nat (i mod w) < Z.of_nat w) by (apply Nat2Z.inj_lt, Nat.mod_upper_bound; lia).
    destruct (Z.ltb_spec b (Z.of_nat w)); [|lia].
    assert (i = i0) as ->; [|exact H3].
    unfold i0. rewrite <- (div_mod_recompose i w) by lia. rewrite H1. lia.
  - intros H. destruct (Z.ltb_spec b (Z.of_nat w)) as [Hbw|Hbw]; [|discriminate].
    assert (i0 < w * n)%nat by (unfold i0; nia).
    exists i0. split; [apply in_seq; lia|].
    unfold dec_term. rewrite bitterm_testbit by lia. unfold CL.
    apply andb_true_iff. split; [apply Nat.eqb_eq; unfold i0; apply div_mul_add; lia|].
    apply andb_true_iff. split; [apply Z.eqb_eq; unfold i0; rewrite mod_mul_add by lia; lia|exact H].
Qed.

Lemma testbit_above_pow2 x w b : 0 <= x < 2 ^ w -> w <= b -> Z.testbit x b = false.
Proof.
  intros Hx Hb.
  assert (0 <= w) as Hw.
  { destruct (Z_lt_ge_dec w 0) as [Hn|Hn]; [|lia]. rewrite Z.pow_neg_r in Hx by exact Hn. lia. }
  rewrite <- (Z.mod_small x (2 ^ w)) by exact Hx.
  apply Z.mod_pow2_bits_high. split; assumption.
Qed.

Theorem decode_encode w n s :
  (1 <= w <= 64)%nat -> length s = n ->
  Forall (fun x => 0 <= x < 2 ^ Z.of_nat w /\ x < two63) s ->
  decode w n (encode w n s) = s.
Proof.
  intros Hw Hl Hs. apply nth_ext' with (d := 0).
  - rewrite decode_length. auto.
  - intros k Hk. rewrite decode_length in Hk.
    assert (0 <= nth k s 0 < 2 ^ Z.of_nat w /\ nth k s 0 < two63) as Hx.
    { rewrite Forall_forall in Hs. apply Hs. apply nth_In. lia. }
    apply in64_bits_eq.
    + apply Forall_in64_nth, decode_in64.
    + unfold in64. unfold two63 in *. lia.
    + intros b Hb. rewrite decode_testbit by lia.
      destruct (Z.ltb_spec b (Z.of_nat w)) as [Hbw|Hbw].
      * cbv zeta. set (i := (k * w + Z.to_nat b)%nat).
        assert (i < n * w)%nat by (unfold i; nia).
        rewrite encode_testbit_gen.
        2:{ unfold encoded_length. lia. }
        2:{ lia. }
        cbv zeta. rewrite Nat2Z.id.
        replace (i / 64 * 64 + i mod 64)%nat with i by lia.
        destruct (Nat.ltb_spec i (n * w)); [|lia].
        unfold i at 1 2. rewrite div_mul_add, mod_mul_add by lia.
        rewrite Z2Nat.id by lia. reflexivity.
      * symmetry. apply testbit_above_pow2 with (w := Z.of_nat w); lia.
Qed.

(* ================= the shift -> mask table ================= *)
Lemma key_eqb_eq (a b : key) : key_eqb a b = true <-> a = b.
Proof.
  destruct a as [[a1 a2] a3], b as [[b1 b2] b3]. unfold key_eqb.
  rewrite !andb_true_iff, !Nat.eqb_eq, Z.eqb_eq. split.
  - intros [[-> ->] ->]. reflexivity.
  - intros H. inversion H. auto.
Qed.

Lemma key_inj (a1 b1 a2 b2 : nat) (a3 b3 : Z) :
  (a1, a2, a3) = (b1, b2, b3) -> a1 = b1 /\ a2 = b2 /\ a3 = b3.
Proof. intros H. inversion H. auto. Qed.

Lemma key_eqb_refl (a : key) : key_eqb a a = true.
Proof. apply key_eqb_eq. reflexivity. Qed.

Lemma one_shifted_wrap t : 0 <= t < 64 -> one_shifted t = wrap (Z.shiftl 1 t).
Proof.
  intros Ht. unfold one_shifted. destruct (Z.eqb_spec t 63) as [->|Hne].
  - vm_compute. reflexivity.
  - symmetry. apply wrap_id. rewrite Z.shiftl_1_l.
    pose proof (Z.pow_le_mono_r 2 t 62 ltac:(lia) ltac:(lia)) as H1.
    pose proof (Z.pow_pos_nonneg 2 t ltac:(lia) ltac:(lia)) as H2.
    change (2 ^ 62) with 4611686018427387904 in H1.
    unfold in64, two63. lia.
Qed.

Lemma one_shifted_in64 t : 0 <= t < 64 -> in64 (one_shifted t).
Proof. intros Ht. rewrite one_shifted_wrap by exact Ht. apply wrap_in64. Qed.

Lemma testbit_one_shifted t0 t :
  0 <= t0 < 64 -> 0 <= t < 64 -> Z.testbit (one_shifted t0) t = (t =? t0).
Proof.
  intros H0 Ht. rewrite one_shifted_wrap by exact H0.
  rewrite wrap_testbit by exact Ht. rewrite Z.shiftl_spec by lia. rewrite testbit_1.
  destruct (Z.eqb_spec (t - t0) 0), (Z.eqb_spec t t0); try reflexivity; lia.
Qed.

Definition sbit (w : nat) (p : list nat) (ij : nat * nat) : nat := (nth (fst ij) p 0%nat * w + snd ij)%nat.
Definition ebit (w : nat) (ij : nat * nat) : nat := (fst ij * w + snd ij)%nat.

Lemma bit_key_eq w p ij :
  bit_key w p ij =
    (((sbit w p ij / 64)%nat, (ebit w ij / 64)%nat,
      Z.of_nat (ebit w ij mod 64) - Z.of_nat (sbit w p ij mod 64)),
     one_shifted (Z.of_nat (sbit w p ij mod 64))).
Proof. destruct ij as [i j]. reflexivity. Qed.

Lemma in_bit_pairs w n i j : In (i, j) (bit_pairs w n) <-> (i < n)%nat /\ (j < w)%nat.
Proof.
  unfold bit_pairs. rewrite in_flat_map. split.
  - intros (i' & Hi' & H). apply in_map_iff in H as (j' & E & Hj'). inversion E; subst.
    apply in_seq in Hi', Hj'. lia.
  - intros [Hi Hj]. exists i. split; [apply in_seq; lia|].
    apply in_map_iff. exists j. split; [reflexivity|apply in_seq; lia].
Qed.

(* "key k0 has bit t set in its mask" *)
Definition has (m : list (key * Z)) (k0 : key) (t : Z) : bool :=
  existsb (fun e => key_eqb (fst e) k0 && Z.testbit (snd e) t) m.

Lemma has_stm_add k bit m k0 t :
  has (stm_add k bit m) k0 t = has m k0 t || (key_eqb k k0 && Z.testbit bit t).
Proof.
  unfold has. induction m as [|[k' v] m IH].
  - cbn [stm_add existsb fst snd]. rewrite Z.lor_0_l. rewrite orb_false_r. reflexivity.
  - cbn [stm_add]. destruct (key_eqb k k') eqn:E.
    + apply key_eqb_eq in E. subst k'. cbn [existsb fst snd]. rewrite Z.lor_spec.
      destruct (key_eqb k k0), (Z.testbit v t), (Z.testbit bit t), (existsb _ m); reflexivity.
    + cbn [existsb fst snd]. rewrite IH. rewrite orb_assoc. reflexivity.
Qed.

Definition stm_step (w : nat) (p : list nat) (m : list (key * Z)) (ij : nat * nat) : list (key * Z) :=
  let '(k, b) := bit_key w p ij in stm_add k b m.

Lemma shift_to_mask_fold w n p : shift_to_mask w n p = fold_left (stm_step w p) (bit_pairs w n) [].
Proof. reflexivity. Qed.

Lemma stm_step_eq w p m ij :
  stm_step w p m ij = stm_add (fst (bit_key w p ij)) (snd (bit_key w p ij)) m.
Proof. unfold stm_step. destruct (bit_key w p ij). reflexivity. Qed.

Lemma has_fold w p pairs m0 k0 t :
  has (fold_left (stm_step w p) pairs m0) k0 t =
    has m0 k0 t ||
    existsb (fun ij => key_eqb (fst (bit_key w p ij)) k0 && Z.testbit (snd (bit_key w p ij)) t) pairs.
Proof.
  revert m0. induction pairs as [|ij pairs IH]; intros m0; cbn [fold_left existsb].
  - rewrite orb_false_r. reflexivity.
  - rewrite IH, stm_step_eq, has_stm_add, orb_assoc. reflexivity.
Qed.

Lemma stm_has w n p k0 t :
  has (shift_to_mask w n p) k0 t =
    existsb (fun ij => key_eqb (fst (bit_key w p ij)) k0 && Z.testbit (snd (bit_key w p ij)) t)
            (bit_pairs w n).
Proof. rewrite shift_to_mask_fold, has_fold. reflexivity. Qed.

(* where the entries come from *)
Lemma stm_add_fst k bit m e :
  In e (stm_add k bit m) -> fst e = k \/ exists e', In e' m /\ fst e' = fst e.
Proof.
  induction m as [|[k' v] m IH]; cbn [stm_add].
  - intros [<-|[]]. left. reflexivity.
  - destruct (key_eqb k k') eqn:E.
    + intros [<-|H].
      * right. exists (k', v). split; [left; reflexivity|reflexivity].
      * right. exists e. split; [right; exact H|reflexivity].
    + intros [<-|H].
      * right. exists (k', v). split; [left; reflexivity|reflexivity].
      * destruct (IH H) as [H1|(e' & He' & H1)]; [left; exact H1|].
        right. exists e'. split; [right; exact He'|exact H1].
Qed.

Lemma stm_add_in64 k bit m :
  in64 bit -> Forall (fun e => in64 (snd e)) m -> Forall (fun e => in64 (snd e)) (stm_add k bit m).
Proof.
  intros Hb H. induction H as [|[k' v] m Hv Hm IH]; cbn [stm_add].
  - constructor; [|constructor]. cbn [snd]. rewrite Z.lor_0_l. exact Hb.
  - destruct (key_eqb k k').
    + constructor; [|exact Hm]. cbn [snd] in *. apply lor_in64; assumption.
    + constructor; [exact Hv|exact IH].
Qed.

Lemma bit_key_snd_in64 w p ij : in64 (snd (bit_key w p ij)).
Proof.
  rewrite bit_key_eq. cbn [snd]. apply one_shifted_in64.
  pose proof (Nat.mod_upper_bound (sbit w p ij) 64 ltac:(lia)). lia.
Qed.

Lemma stm_fold_in64 w p pairs m0 :
  Forall (fun e => in64 (snd e)) m0 ->
  Forall (fun e => in64 (snd e)) (fold_left (stm_step w p) pairs m0).
Proof.
  revert m0. induction pairs as [|ij pairs IH]; intros m0 H; cbn [fold_left]; [exact H|].
  apply IH. rewrite stm_step_eq. apply stm_add_in64; [apply bit_key_snd_in64|exact H].
Qed.

Lemma stm_fold_fst w p pairs m0 e :
  In e (fold_left (stm_step w p) pairs m0) ->
  (exists e', In e' m0 /\ fst e' = fst e) \/
  (exists ij, In ij pairs /\ fst (bit_key w p ij) = fst e).
Proof.
  revert m0. induction pairs as [|ij pairs IH]; intros m0 H; cbn [fold_left] in H.
  - left. exists e. split; [exact H|reflexivity].
  - destruct (IH _ H) as [(e' & He' & E)|(ij' & Hij' & E)].
    + rewrite stm_step_eq in He'. apply stm_add_fst in He' as [E1|(e'' & He'' & E1)].
      * right. exists ij. split; [left; reflexivity|congruence].
      * left. exists e''. split; [exact He''|congruence].
    + right. exists ij'. split; [right; exact Hij'|exact E].
Qed.

Lemma stm_entries w n p e :
  In e (shift_to_mask w n p) ->
  in64 (snd e) /\ exists ij, In ij (bit_pairs w n) /\ fst (bit_key w p ij) = fst e.
Proof.
  rewrite shift_to_mask_fold. intros H. split.
  - pose proof (stm_fold_in64 w p (bit_pairs w n) [] (Forall_nil _)) as F.
    rewrite Forall_forall in F. apply F. exact H.
  - apply stm_fold_fst in H as [(e' & [] & _)|H]. exact H.
Qed.

(* bonus: the keys of the table are pairwise distinct *)
Lemma stm_add_map_fst k bit m :
  map fst (stm_add k bit m) =
    if existsb (fun k' => key_eqb k k') (map fst m) then map fst m else map fst m ++ [k].
Proof.
  induction m as [|[k' v] m IH]; cbn [stm_add map fst existsb app].
  - reflexivity.
  - destruct (key_eqb k k') eqn:E; cbn [orb map fst].
    + reflexivity.
    + rewrite IH. destruct (existsb _ (map fst m)); reflexivity.
Qed.

Lemma stm_add_NoDup k bit m : NoDup (map fst m) -> NoDup (map fst (stm_add k bit m)).
Proof.
  intros H. rewrite stm_add_map_fst.
  destruct (existsb (fun k' => key_eqb k k') (map fst m)) eqn:E; [exact H|].
  apply (Permutation.Permutation_NoDup (Permutation.Permutation_cons_append (map fst m) k)).
  constructor; [|exact H]. intros Hin.
  assert (existsb (fun k' => key_eqb k k') (map fst m) = true) as E'.
  { apply existsb_exists. exists k. split; [exact Hin|apply key_eqb_refl]. }
  congruence.
Qed.

Lemma shift_to_mask_NoDup w n p : NoDup (map fst (shift_to_mask w n p)).
Proof.
  rewrite shift_to_mask_fold.
  assert (forall pairs m0, NoDup (map fst m0) -> NoDup (map fst (fold_left (stm_step w p) pairs m0))) as H.
  { induction pairs as [|ij pairs IH]; intros m0 H0; cbn [fold_left]; [exact H0|].
    apply IH. rewrite stm_step_eq. apply stm_add_NoDup. exact H0. }
  apply H. constructor.
Qed.

(* ================= meaning of one generated statement ================= *)
Lemma mwhz_ones m : mask_with_high_zeros m = Z.ones (64 - m).
Proof. unfold mask_with_high_zeros, Z.ones. rewrite Z.sub_1_r. reflexivity. Qed.

Definition stmt_term (x : list Z) (st : stmt) : Z :=
  eval_shift (w_and (nth (src st) x 0) (mask st)) (sh st).

Lemma stmt_of_dst s d k M : dst (stmt_of ((s, d, k), M)) = d.
Proof. reflexivity. Qed.
Lemma stmt_of_src s d k M : src (stmt_of ((s, d, k), M)) = s.
Proof. reflexivity. Qed.

Lemma stmt_term_testbit xs s d k M b :
  in64 M -> -64 < k < 64 -> 0 <= b < 64 ->
  Z.testbit (eval_shift (w_and xs (mask (stmt_of ((s, d, k), M)))) (sh (stmt_of ((s, d, k), M)))) b =
    (0 <=? b - k) && (b - k <? 64) && Z.testbit xs (b - k) && Z.testbit M (b - k).
Proof.
  intros HM Hk Hb. cbn [stmt_of mask sh].
  destruct (Z.ltb_spec 0 k) as [Hpos|Hpos]; [|destruct (Z.ltb_spec k 0) as [Hneg|Hneg]].
  - (* left shift *)
    cbn [eval_shift]. unfold w_shl, w_and.
    rewrite wrap_testbit by exact Hb. rewrite Z.shiftl_spec by lia.
    destruct (Z.leb_spec 0 (b - k)) as [H0|H0].
    + destruct (Z.ltb_spec (b - k) 64); [|lia]. rewrite Z.land_spec. reflexivity.
    + rewrite Z.testbit_neg_r by lia. reflexivity.
  - (* arithmetic right shift by -k *)
    destruct (Z.leb_spec 0 (b - k)); [|lia].
    replace (b - k) with (b + - k) by lia.
    destruct (Z.ltb_spec M 0) as [HMn|HMn]; cbn [eval_shift]; unfold w_and, w_sar.
    + rewrite Z.land_spec, mwhz_ones. rewrite Z.shiftr_spec by lia.
      rewrite Z.testbit_ones_nonneg by lia. rewrite Z.land_spec.
      destruct (Z.ltb_spec b (64 - - k)), (Z.ltb_spec (b + - k) 64); try lia;
        destruct (Z.testbit xs (b + - k)), (Z.testbit M (b + - k)); reflexivity.
    + rewrite Z.shiftr_spec by lia. rewrite Z.land_spec.
      destruct (Z.ltb_spec (b + - k) 64); [reflexivity|].
      rewrite (in64_nonneg_high M (b + - k) HM) by lia.
      rewrite !andb_false_r. reflexivity.
  - (* no shift *)
    assert (k = 0) as -> by lia. rewrite Z.sub_0_r.
    destruct (Z.leb_spec 0 b); [|lia]. destruct (Z.ltb_spec b 64); [|lia].
    cbn [eval_shift]. unfold w_and. rewrite Z.land_spec. reflexivity.
Qed.

Lemma eval_prog_orfold L prog x :
  eval_prog L prog x = orfold dst (stmt_term x) prog (repeat 0 L).
Proof. reflexivity. Qed.

Lemma eval_prog_length L prog x : length (eval_prog L prog x) = L.
Proof. rewrite eval_prog_orfold, orfold_length. apply repeat_length. Qed.

(* range of the shift component of a key *)
Lemma bit_key_shift_range w p ij s d k :
  fst (bit_key w p ij) = (s, d, k) -> -64 < k < 64.
Proof.
  rewrite bit_key_eq. cbn [fst]. intros E. apply key_inj in E as (_ & _ & <-).
  pose proof (Nat.mod_upper_bound (sbit w p ij) 64 ltac:(lia)).
  pose proof (Nat.mod_upper_bound (ebit w ij) 64 ltac:(lia)). lia.
Qed.

(* ================= the generated routine implements the permutation ================= *)
Theorem emit_correct w n p x c b :
  (1 <= w <= 64)%nat -> length p = n -> Forall (fun v => (v < n)%nat) p ->
  length x = encoded_length w n -> Forall in64 x ->
  (c < encoded_length w n)%nat -> 0 <= b < 64 ->
  Z.testbit (nth c (eval_prog (encoded_length w n) (emit w n p) x) 0) b =
    let e := (c * 64 + Z.to_nat b)%nat in
    if (e <? n * w)%nat then
      let sb := (nth (e / w) p 0%nat * w + e mod w)%nat in
      Z.testbit (nth (sb / 64) x 0) (Z.of_nat (sb mod 64))
    else false.
Proof.
  intros Hw _ _ _ _ Hc Hb. cbv zeta.
  set (e := (c * 64 + Z.to_nat b)%nat).
  rewrite eval_prog_orfold, orfold_testbit0 by exact Hc.
  apply bool_eq_iff. rewrite existsb_exists. unfold emit. split.
  - intros (st & Hst & H). apply in_map_iff in Hst as (ent & <- & Hent).
    destruct (stm_entries w n p ent Hent) as (HM & ij0 & _ & Hk0).
    destruct ent as [[[s d] k] M]. cbn [fst snd] in *.
    apply bit_key_shift_range in Hk0.
    apply andb_true_iff in H as [Hd H]. apply Nat.eqb_eq in Hd. rewrite stmt_of_dst in Hd. subst d.
    unfold stmt_term in H. rewrite stmt_term_testbit in H by assumption.
    rewrite stmt_of_src in H.
    apply andb_true_iff in H as [H H4]. apply andb_true_iff in H as [H H3].
    apply andb_true_iff in H as [H1 H2]. apply Z.leb_le in H1. apply Z.ltb_lt in H2.
    assert (has (shift_to_mask w n p) (s, c, k) (b - k) = true) as Hhas.
    { unfold has. apply existsb_exists. exists ((s, c, k), M). split; [exact Hent|].
      cbn [fst snd]. rewrite key_eqb_refl, H4. reflexivity. }
    rewrite stm_has in Hhas. apply existsb_exists in Hhas as ([i j] & Hij & Hb2).
    apply in_bit_pairs in Hij as [Hi Hj].
    rewrite bit_key_eq in Hb2. cbn [fst snd] in Hb2.
    apply andb_true_iff in Hb2 as [Hkey Hbit]. apply key_eqb_eq in Hkey.
    pose proof (Nat.mod_upper_bound (sbit w p (i, j)) 64 ltac:(lia)) as Hsm.
    pose proof (Nat.mod_upper_bound (ebit w (i, j)) 64 ltac:(lia)) as Hem.
    rewrite testbit_one_shifted in Hbit by lia. apply Z.eqb_eq in Hbit.
    apply key_inj in Hkey as (Ks & Kc & Kk).
    assert (ebit w (i, j) = e) as He by (unfold e; lia).
    unfold ebit in He. cbn [fst snd] in He.
    assert (e / w = i)%nat as Ei by (rewrite <- He; apply div_mul_add; exact Hj).
    assert (e mod w = j)%nat as Ej by (rewrite <- He; apply mod_mul_add; exact Hj).
    assert (e < n * w)%nat as Hlt by (rewrite <- He; apply mul_add_lt; assumption).
    destruct (Nat.ltb_spec e (n * w)); [|lia].
    rewrite Ei, Ej. change (nth i p 0%nat * w + j)%nat with (sbit w p (i, j)).
    rewrite Ks, <- Hbit. exact H3.
  - intros H. destruct (Nat.ltb_spec e (n * w)) as [He|He]; [|discriminate].
    set (i := (e / w)%nat) in *. set (j := (e mod w)%nat) in *.
    assert (i < n)%nat as Hi by (apply div_lt_of_lt_mul; exact He).
    assert (j < w)%nat as Hj by (apply Nat.mod_upper_bound; lia).
    assert (ebit w (i, j) = e) as Ee.
    { unfold ebit, i, j. cbn [fst snd]. apply div_mod_recompose. lia. }
    change (nth i p 0%nat * w + j)%nat with (sbit w p (i, j)) in H.
    set (sb := sbit w p (i, j)) in *.
    pose proof (Nat.mod_upper_bound sb 64 ltac:(lia)) as Hsm.
    set (k := b - Z.of_nat (sb mod 64)).
    assert (has (shift_to_mask w n p) ((sb / 64)%nat, c, k) (Z.of_nat (sb mod 64)) = true) as Hhas.
    { rewrite stm_has. apply existsb_exists. exists (i, j). split; [apply in_bit_pairs; auto|].
      rewrite bit_key_eq. cbn [fst snd]. fold sb. rewrite Ee.
      rewrite testbit_one_shifted by lia. rewrite Z.eqb_refl, andb_true_r.
      apply key_eqb_eq. f_equal; [f_equal|]; unfold k, e; lia. }
    unfold has in Hhas. apply existsb_exists in Hhas as (ent & Hent & Hb2).
    apply andb_true_iff in Hb2 as [Hkey Hbit]. apply key_eqb_eq in Hkey.
    destruct (stm_entries w n p ent Hent) as (HM & _).
    destruct ent as [kk M]. cbn [fst snd] in *. subst kk.
    exists (stmt_of (((sb / 64)%nat, c, k), M)). split.
    + apply in_map_iff. exists (((sb / 64)%nat, c, k), M). split; [reflexivity|exact Hent].
    + rewrite stmt_of_dst, Nat.eqb_refl. cbn [andb].
      unfold stmt_term. rewrite stmt_term_testbit by (try assumption; unfold k; lia).
      rewrite stmt_of_src.
      replace (b - k) with (Z.of_nat (sb mod 64)) by (unfold k; lia).
      rewrite H, Hbit.
      destruct (Z.leb_spec 0 (Z.of_nat (sb mod 64))); [|lia].
      destruct (Z.ltb_spec (Z.of_nat (sb mod 64)) 64); [|lia]. reflexivity.
Qed.

(* ================= results of the routine are int64 values ================= *)
Definition stmt_ok (st : stmt) : Prop :=
  in64 (mask st) /\
  match sh st with
  | NoShift => True
  | Shl _ => True
  | Sar k None => 0 <= k
  | Sar k (Some hz) => 0 <= k /\ in64 hz
  end.

Lemma stmt_term_in64 x st : Forall in64 x -> stmt_ok st -> in64 (stmt_term x st).
Proof.
  intros Hx [Hm Hs]. unfold stmt_term.
  assert (in64 (w_and (nth (src st) x 0) (mask st))) as Hv.
  { unfold w_and. apply land_in64; [apply Forall_in64_nth; exact Hx|exact Hm]. }
  destruct (sh st) as [|k|k [hz|]]; cbn [eval_shift].
  - exact Hv.
  - unfold w_shl. apply wrap_in64.
  - destruct Hs as [Hk Hhz]. unfold w_and at 1. apply land_in64; [|exact Hhz].
    unfold w_sar. apply shiftr_in64; assumption.
  - unfold w_sar. apply shiftr_in64; assumption.
Qed.

(* side condition on the program: masks are int64 values and right shifts are by k >= 0 *)
Lemma eval_prog_in64 L prog x :
  Forall stmt_ok prog -> Forall in64 x -> Forall in64 (eval_prog L prog x).
Proof.
  intros Hp Hx. rewrite eval_prog_orfold. apply orfold_in64.
  - intros st Hst. apply stmt_term_in64; [exact Hx|]. rewrite Forall_forall in Hp. apply Hp. exact Hst.
  - apply Forall_repeat. apply in64_0.
Qed.

Lemma ones_in64 a : 0 <= a <= 63 -> in64 (Z.ones a).
Proof.
  intros Ha. rewrite Z.ones_equiv.
  pose proof (Z.pow_le_mono_r 2 a 63 ltac:(lia) ltac:(lia)) as H1.
  pose proof (Z.pow_pos_nonneg 2 a ltac:(lia) ltac:(lia)) as H2.
  change (2 ^ 63) with 9223372036854775808 in H1.
  unfold in64, two63. lia.
Qed.

Lemma emit_stmt_ok w n p : Forall stmt_ok (emit w n p).
Proof.
  apply Forall_forall. intros st Hst. unfold emit in Hst.
  apply in_map_iff in Hst as (ent & <- & Hent).
  destruct (stm_entries w n p ent Hent) as (HM & ij0 & _ & Hk0).
  destruct ent as [[[s d] k] M]. cbn [fst snd] in *.
  apply bit_key_shift_range in Hk0.
  unfold stmt_ok. cbn [stmt_of mask sh]. split; [exact HM|].
  destruct (Z.ltb_spec 0 k); [exact I|].
  destruct (Z.ltb_spec k 0); [|exact I].
  destruct (Z.ltb_spec M 0).
  - split; [lia|]. rewrite mwhz_ones. apply ones_in64. lia.
  - lia.
Qed.

Lemma emit_in64 L w n p x : Forall in64 x -> Forall in64 (eval_prog L (emit w n p) x).
Proof. apply eval_prog_in64, emit_stmt_ok. Qed.

(* ================= on encoded states the routine is the library's action ================= *)
Lemma nth_lt_of_Forall (p : list nat) n i :
  Forall (fun v => (v < n)%nat) p -> (0 < n)%nat -> (nth i p 0%nat < n)%nat.
Proof.
  intros H Hn. destruct (Nat.lt_ge_cases i (length p)) as [Hi|Hi].
  - rewrite Forall_forall in H. apply H. apply nth_In. exact Hi.
  - rewrite nth_overflow by exact Hi. exact Hn.
Qed.

Theorem emit_action w n p s :
  (1 <= w <= 64)%nat -> length p = n -> Forall (fun v => (v < n)%nat) p -> length s = n ->
  Forall (fun x => 0 <= x < 2 ^ Z.of_nat w /\ x < two63) s ->
  eval_prog (encoded_length w n) (emit w n p) (encode w n s) = encode w n (apply_perm 0 p s).
Proof.
  intros Hw Hlp Hp Hls Hs. apply nth_ext' with (d := 0).
  - rewrite eval_prog_length, encode_length. reflexivity.
  - intros c Hc. rewrite eval_prog_length in Hc.
    apply in64_bits_eq.
    + apply Forall_in64_nth, emit_in64, encode_in64.
    + apply Forall_in64_nth, encode_in64.
    + intros b Hb.
      rewrite emit_correct; try assumption; [|apply encode_length|apply encode_in64].
      rewrite (encode_testbit_gen w n (apply_perm 0 p s)) by assumption.
      cbv zeta. set (e := (c * 64 + Z.to_nat b)%nat).
      destruct (Nat.ltb_spec e (n * w)) as [He|He]; [|reflexivity].
      set (i := (e / w)%nat). set (j := (e mod w)%nat).
      assert (i < n)%nat as Hi by (apply div_lt_of_lt_mul; exact He).
      assert (j < w)%nat as Hj by (apply Nat.mod_upper_bound; lia).
      assert (nth i p 0%nat < n)%nat as Hpi by (apply nth_lt_of_Forall; [exact Hp|lia]).
      set (sb := (nth i p 0%nat * w + j)%nat).
      assert (sb < n * w)%nat as Hsb by (apply mul_add_lt; assumption).
      rewrite encode_testbit_gen.
      2:{ unfold encoded_length. lia. }
      2:{ lia. }
      cbv zeta. rewrite Nat2Z.id.
      replace (sb / 64 * 64 + sb mod 64)%nat with sb by lia.
      destruct (Nat.ltb_spec sb (n * w)); [|lia].
      unfold sb. rewrite div_mul_add, mod_mul_add by exact Hj.
      rewrite nth_apply_perm by lia. reflexivity.
Qed.

Corollary decode_emit_encode w n p s :
  (1 <= w <= 64)%nat -> length p = n -> Forall (fun v => (v < n)%nat) p -> length s = n ->
  Forall (fun x => 0 <= x < 2 ^ Z.of_nat w /\ x < two63) s ->
  decode w n (eval_prog (encoded_length w n) (emit w n p) (encode w n s)) = apply_perm 0 p s.
Proof.
  intros Hw Hlp Hp Hls Hs. rewrite emit_action by assumption.
  apply decode_encode; [exact Hw|rewrite apply_perm_length; exact Hlp|].
  apply Forall_forall. intros v Hv. unfold apply_perm in Hv.
  apply in_map_iff in Hv as (i & <- & Hi).
  rewrite Forall_forall in Hs. apply Hs. apply nth_In.
  rewrite Forall_forall in Hp. specialize (Hp i Hi). lia.
Qed.

(* ================= 1-D variant ================= *)
Lemma eval_prog1_single prog x a :
  Forall (fun st => src st = 0%nat /\ dst st = 0%nat) prog ->
  fold_left (eval_stmt [x]) prog [a] =
    [fold_left (fun acc st => w_or acc (eval_shift (w_and x (mask st)) (sh st))) prog a].
Proof.
  intros H. revert a. induction H as [|st prog [Hs Hd] _ IH]; intros a; cbn [fold_left].
  - reflexivity.
  - unfold eval_stmt at 2. rewrite Hs, Hd. cbn [nth upd]. apply IH.
Qed.

Lemma emit_single_word w n p :
  encoded_length w n = 1%nat -> Forall (fun v => (v < n)%nat) p ->
  Forall (fun st => src st = 0%nat /\ dst st = 0%nat) (emit w n p).
Proof.
  intros HL Hp. apply Forall_forall. intros st Hst. unfold emit in Hst.
  apply in_map_iff in Hst as (ent & <- & Hent).
  destruct (stm_entries w n p ent Hent) as (_ & [i j] & Hij & Hk).
  apply in_bit_pairs in Hij as [Hi Hj].
  destruct ent as [[[s d] k] M]. cbn [fst snd] in *.
  rewrite stmt_of_src, stmt_of_dst.
  rewrite bit_key_eq in Hk. cbn [fst] in Hk. apply key_inj in Hk as (Ks & Kd & _).
  assert (nth i p 0%nat < n)%nat as Hpi by (apply nth_lt_of_Forall; [exact Hp|lia]).
  assert (sbit w p (i, j) < n * w)%nat by (unfold sbit; cbn [fst snd]; apply mul_add_lt; assumption).
  assert (ebit w (i, j) < n * w)%nat by (unfold ebit; cbn [fst snd]; apply mul_add_lt; assumption).
  unfold encoded_length in HL. lia.
Qed.

(* The range condition on p (as in emit_correct) is needed: without it a statement may read
   a source word other than word 0, which the 1-D routine silently replaces by x
   (see eval_prog1d_needs_range below). *)
Theorem eval_prog1d_eq w n p x :
  encoded_length w n = 1%nat -> Forall (fun v => (v < n)%nat) p -> in64 x ->
  eval_prog1d (emit w n p) x = nth 0 (eval_prog 1 (emit w n p) [x]) 0.
Proof.
  intros HL Hp _. unfold eval_prog, eval_prog1d. cbn [repeat].
  rewrite eval_prog1_single by (apply emit_single_word; assumption).
  reflexivity.
Qed.

Example eval_prog1d_needs_range :
  let w := 1%nat in let n := 2%nat in let p := [100%nat; 0%nat] in let x := 2 ^ 36 in
  encoded_length w n = 1%nat /\ in64 x /\
  eval_prog1d (emit w n p) x <> nth 0 (eval_prog 1 (emit w n p) [x]) 0.
Proof.
  cbv zeta. split; [reflexivity|]. split.
  - unfold in64, two63. change (2 ^ 36) with 68719476736. lia.
  - vm_compute. discriminate.
Qed.

Print Assumptions encode_testbit.
Print Assumptions decode_encode.
Print Assumptions emit_correct.
Print Assumptions emit_action.
Print Assumptions eval_prog1d_eq.
Print Assumptions eval_prog_in64.
Print Assumptions decode_emit_encode.
