(** Vocabulary of the generated move tables (gen/MoveTables.v, translator T4b reads the literal tables of
    cayleypy/puzzles/moves.py and cube.py on every run) and the table-driven puzzle constructors of puzzles.py / cube.py. *)
From Coq Require Import ZArith List Bool Arith String.
From V Require Import Base Perm.
Import ListNotations.
Open Scope string_scope.

(* an entry of a table: a one-line permutation written out, or a call pfc(n, cycles, offset=k) *)
Inductive move_src := MLine (p : list nat) | MCycles (n : nat) (cycles : list (list Z)) (offset : Z).

Definition move_perm_of (m : move_src) : result (list nat) :=
  match m with
  | MLine p => Ok p
  | MCycles n cycles offset => from_cycles n cycles offset
  end.

Fixpoint table_perms (t : list (string * move_src)) : result (list (string * list nat)) :=
  match t with
  | [] => Ok []
  | (nm, m) :: rest =>
      match move_perm_of m, table_perms rest with
      | Ok p, Ok r => Ok ((nm, p) :: r)
      | Err e, _ => Err e
      | _, Err e => Err e
      end
  end.

(* every entry is a permutation of [size] points *)
Definition table_ok (size : nat) (t : list (string * move_src)) : bool :=
  match table_perms t with
  | Ok l => forallb (fun '(_, p) => is_perm p && Nat.eqb (List.length p) size) l
  | Err _ => false
  end.

Definition perm_list_mem (p : list nat) (l : list (list nat)) : bool := existsb (nat_list_eqb p) l.
Definition gens_inverse_closed (gens : list (list nat)) : bool := forallb (fun p => perm_list_mem (inverse_perm p) gens) gens.

(* Puzzles.pyraminx / megaminx / fixed_corner_cub_quarter: every move followed by its inverse, names m, m ++ suffix *)
Definition with_inverses (suffix : string) (l : list (string * list nat)) : list (string * list nat) :=
  flat_map (fun '(nm, p) => [(nm, p); ((nm ++ suffix)%string, inverse_perm p)]) l.
(* fixed_corner_cub_half: move, inverse, square *)
Definition with_inverses_and_squares (l : list (string * list nat)) : list (string * list nat) :=
  flat_map (fun '(nm, p) => [(nm, p); ((nm ++ "'")%string, inverse_perm p); ((nm ++ "^2")%string, compose p p)]) l.

Definition order4 (p : list nat) : bool :=
  nat_list_eqb (compose p (compose p (compose p p))) (identity_perm (List.length p))
  && negb (nat_list_eqb (compose p p) (identity_perm (List.length p))).

(* what the harness compares: the generator list and names the library returned for a table-driven puzzle *)
Definition named_eqb (a b : string * list nat) : bool := String.eqb (fst a) (fst b) && nat_list_eqb (snd a) (snd b).
Definition check_table_puzzle (c : result (list (string * list nat)) * list (string * list nat)) : bool :=
  match fst c with Ok l => list_eqb named_eqb l (snd c) | Err _ => false end.
