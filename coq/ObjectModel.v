(** C14: a graph object as a state machine. The object has an immutable part (definition, central
    state, encoder, hasher parameters, configuration) and two caches: the inverted copy
    (with_inverted_generators, a cached_property) and the BFS ball of find_path together with the
    BFS arguments it was computed for.  Every other public operation takes the graph read-only
    (that no operation WRITES a non-cache attribute is re-proved on every run from the generated
    gen/Effects.v). *)
From Coq Require Import List Bool.
Import ListNotations.

Section ObjectModel.
  Variables I InvT Key Ball Q A P R : Type.
  Variable key_eqb : Key -> Key -> bool.
  Hypothesis key_eqb_eq : forall a b, key_eqb a b = true <-> a = b.
  Variable mk_inv : I -> InvT.                       (* the inverted copy: a function of the immutable part *)
  Variable mk_ball : I -> InvT -> Key -> Ball.       (* graph.bfs(...) with the BFS arguments of the call *)
  Variable answer : I -> InvT -> Ball -> Q -> A.     (* MITM on the ball *)
  Variable pure_op : I -> InvT -> P -> R.            (* bfs, path queries, beam search, walks, export, copies: read-only *)

  Record obj := { imm : I; c_inv : option InvT; c_ball : option (Key * Ball) }.
  Inductive op := OPure (p : P) | OInverted | OFindPath (k : Key) (q : Q).
  Inductive out := RPure (r : R) | RInv (v : InvT) | RAns (a : A).

  Definition fresh (i : I) : obj := {| imm := i; c_inv := None; c_ball := None |}.

  Definition get_inv (o : obj) : InvT := match c_inv o with Some v => v | None => mk_inv (imm o) end.

  Definition step (o : obj) (x : op) : obj * out :=
    match x with
    | OPure p =>
        (* operations that need the inverted graph obtain it through the cached property *)
        ({| imm := imm o; c_inv := Some (get_inv o); c_ball := c_ball o |}, RPure (pure_op (imm o) (get_inv o) p))
    | OInverted => ({| imm := imm o; c_inv := Some (get_inv o); c_ball := c_ball o |}, RInv (get_inv o))
    | OFindPath k q =>
        let inv := get_inv o in
        let ball := match c_ball o with
                    | Some (k', b) => if key_eqb k k' then b else mk_ball (imm o) inv k
                    | None => mk_ball (imm o) inv k
                    end in
        ({| imm := imm o; c_inv := Some inv; c_ball := Some (k, ball) |}, RAns (answer (imm o) inv ball q))
    end.

  Definition run (o : obj) (ops : list op) : obj := fold_left (fun o x => fst (step o x)) ops o.

  (* caches, once filled, are functions of the immutable part (and of the BFS arguments they are keyed by) *)
  Definition Inv (o : obj) : Prop :=
    (c_inv o = None \/ c_inv o = Some (mk_inv (imm o))) /\
    (c_ball o = None \/ exists k, c_ball o = Some (k, mk_ball (imm o) (mk_inv (imm o)) k)).

  Lemma get_inv_inv o : Inv o -> get_inv o = mk_inv (imm o).
  Proof. intros [[H|H] _]; unfold get_inv; rewrite H; reflexivity. Qed.

  Lemma step_inv o x : Inv o -> Inv (fst (step o x)) /\ imm (fst (step o x)) = imm o.
  Proof.
    intros HI. pose proof (get_inv_inv o HI) as Hg. destruct HI as [H1 H2].
    destruct x as [p| |k q]; cbn [step fst imm c_inv c_ball]; rewrite ?Hg; (split; [|reflexivity]); split; auto.
    right. exists k. f_equal. f_equal.
    destruct H2 as [H2|(k' & H2)]; rewrite H2; [reflexivity|].
    destruct (key_eqb k k') eqn:E; [|reflexivity]. apply key_eqb_eq in E. subst. reflexivity.
  Qed.

  Lemma run_inv ops : forall o, Inv o -> Inv (run o ops) /\ imm (run o ops) = imm o.
  Proof.
    induction ops as [|x ops IH]; intros o HI; [split; auto|].
    cbn [run fold_left]. destruct (step_inv o x HI) as [HI' Him].
    destruct (IH _ HI') as [H1 H2]. split; [exact H1|]. unfold run in H2. rewrite H2. exact Him.
  Qed.

  Lemma fresh_inv i : Inv (fresh i).
  Proof. split; left; reflexivity. Qed.

  (* the output of an operation on an object in a good state is its output on a fresh object *)
  Lemma step_out o x : Inv o -> snd (step o x) = snd (step (fresh (imm o)) x).
  Proof.
    intros HI. pose proof (get_inv_inv o HI) as Hg. destruct HI as [H1 H2].
    destruct x as [p| |k q]; cbn [step snd fresh imm c_inv c_ball get_inv]; rewrite ?Hg; try reflexivity.
    unfold get_inv in Hg. 
    destruct H2 as [H2|(k' & H2)]; rewrite H2; [reflexivity|].
    destruct (key_eqb k k') eqn:E; [|reflexivity]. apply key_eqb_eq in E. subst. reflexivity.
  Qed.

  (* C14: for ANY sequence of operations, each operation returns what it returns on a freshly constructed object,
     and no operation changes the immutable part *)
  Theorem history_independent i ops x :
    snd (step (run (fresh i) ops) x) = snd (step (fresh i) x) /\ imm (run (fresh i) ops) = i.
  Proof.
    destruct (run_inv ops (fresh i) (fresh_inv i)) as [HI Him]. split; [|exact Him].
    rewrite (step_out _ x HI). rewrite Him. reflexivity.
  Qed.
End ObjectModel.
