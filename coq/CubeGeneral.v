(** GENERAL-n structure theorems for the NxNxN cube layer turns of Puzzles.v
    ([move_perm n t s], model of cube.py [generate_cube_permutations_oneline]).

    Part A: semantics of [perm_of_cycles] for cycles that are CONSISTENT with a function f
            (every cell of every cycle is sent by f to the next cell); no disjointness needed
            (the r-turn of an outer slice lists its face cycles twice).
    Part B: sticker coordinates (face,row,col) <-> sticker index.
    Part C: [rotate_face_cw]: the emitted cycles are exactly the 4-orbits of the quarter rotation
            (r,c) -> (c,n-1-r), each non-centre cell is covered, the fixed centre is skipped,
            and no sticker is listed twice ([rotate_face_cw_NoDup]: every orbit exactly once).
    Part D: [move_cycles]: every cycle is a 4-orbit of [turn_fun]; every moved sticker is covered.
    Part E: [move_perm_nth]: nth i (move_perm n t s) 0 = turn_fun n t s i       (all n >= 2, s < n).
    Part F: [move_perm_Perm], [move_perm_Order4] (4th power = id, square <> id), [move_perm_support]
            (support = [layer_stickers], an explicit duplicate-free list), [move_perm_moved_count]
            (= expected_moved n s = 4n [+ n^2 - n mod 2]), [move_perm_disjoint], [move_perm_commute],
            [axis_cover] (the n layers of an axis move everything but the two axis centres).
    Everything is for ALL n >= 2 and s < n; nothing is left partial.  The assembly into
    [CubeMovesStructure n] (names, dictionary order, renaming of the r-turns) is in CubeGeneralMoves.v. *)
From Coq Require Import ZArith List Bool Arith Lia Sorting.Permutation.
From V Require Import Base Perm PermProofs PermCycles Puzzles PuzzlesProofs.
Import ListNotations.
Local Open Scope list_scope.
Local Open Scope nat_scope.

(* ====================================================================================== *)
(** * Part A: perm_of_cycles on consistent cycles *)

Definition Consistent (f : nat -> nat) (c : list nat) : Prop :=
  forall i, i < length c -> f (nth i c 0) = nth ((i + 1) mod length c) c 0.

Lemma poc_write_cycles N cs : perm_of_cycles N cs = write_cycles cs (seq 0 N).
Proof. reflexivity. Qed.

Lemma nth_upd {A} (l : list A) i j v d : i < length l ->
  nth j (upd l i v) d = if i =? j then v else nth j l d.
Proof.
  intros Hi. destruct (Nat.eqb_spec i j) as [->|Hne].
  - apply nth_upd_same. exact Hi.
  - apply nth_upd_other. exact Hne.
Qed.

Lemma wstep_pres f c pm i x :
  Consistent f c -> i < length c -> nth i c 0 < length pm ->
  nth x pm 0 = f x -> nth x (wstep c pm i) 0 = f x.
Proof.
  intros HC Hi Hlt Hx. unfold wstep. rewrite nth_upd by exact Hlt.
  destruct (Nat.eqb_spec (nth i c 0) x) as [E|_]; [|exact Hx].
  rewrite <- E. symmetry. apply HC. exact Hi.
Qed.

Lemma wprefix_sem f c pm : Consistent f c -> (forall x, In x c -> x < length pm) ->
  forall k, k <= length c ->
  let r := fold_left (wstep c) (seq 0 k) pm in
  length r = length pm /\
  (forall i, i < k -> nth (nth i c 0) r 0 = f (nth i c 0)) /\
  (forall x, ~ In x c -> nth x r 0 = nth x pm 0) /\
  (forall x, nth x pm 0 = f x -> nth x r 0 = f x).
Proof.
  intros HC Hlt. induction k as [|k IH]; intros Hk; cbv zeta.
  - cbn [seq fold_left]. repeat split; intros; try lia; auto.
  - rewrite seq_S, fold_left_app. cbn [fold_left Nat.add].
    destruct (IH ltac:(lia)) as (L & I1 & I2 & I3). cbv zeta in L, I1, I2, I3.
    set (r := fold_left _ (seq 0 k) pm) in *.
    assert (nth k c 0 < length r) as Hkr by (rewrite L; apply Hlt; apply nth_In; lia).
    split; [unfold wstep; rewrite upd_length; exact L|]. split; [|split].
    + intros i Hi. destruct (Nat.eq_dec i k) as [->|Hne].
      * unfold wstep. rewrite nth_upd_same by exact Hkr. symmetry. apply HC. lia.
      * apply wstep_pres; auto; try lia. apply I1. lia.
    + intros x Hx. unfold wstep. rewrite nth_upd_other; [apply I2; exact Hx|].
      intros E. apply Hx. rewrite <- E. apply nth_In. lia.
    + intros x Hx. apply wstep_pres; auto; lia.
Qed.

Lemma write_cycle_sem f c pm : Consistent f c -> (forall x, In x c -> x < length pm) ->
  let r := write_cycle c pm in
  length r = length pm /\
  (forall x, In x c -> nth x r 0 = f x) /\
  (forall x, ~ In x c -> nth x r 0 = nth x pm 0) /\
  (forall x, nth x pm 0 = f x -> nth x r 0 = f x).
Proof.
  intros HC Hlt. cbv zeta. unfold write_cycle.
  destruct (wprefix_sem f c pm HC Hlt (length c) (le_n _)) as (L & I1 & I2 & I3). cbv zeta in L, I1, I2, I3.
  split; [exact L|]. split; [|split; [exact I2|exact I3]].
  intros x Hx. apply In_nth with (d := 0) in Hx as (i & Hi & <-). apply I1. exact Hi.
Qed.

Lemma write_cycles_sem f cs : forall pm,
  (forall c, In c cs -> Consistent f c) -> (forall x, In x (concat cs) -> x < length pm) ->
  let r := write_cycles cs pm in
  length r = length pm /\
  (forall x, In x (concat cs) -> nth x r 0 = f x) /\
  (forall x, ~ In x (concat cs) -> nth x r 0 = nth x pm 0) /\
  (forall x, nth x pm 0 = f x -> nth x r 0 = f x).
Proof.
  induction cs as [|c rest IH]; intros pm HC Hlt; cbv zeta.
  - unfold write_cycles. cbn [fold_left concat]. repeat split; auto. intros x [].
  - cbn [concat] in Hlt |- *. unfold write_cycles. cbn [fold_left].
    change (fold_left (fun pm0 c0 => write_cycle c0 pm0) rest (write_cycle c pm))
      with (write_cycles rest (write_cycle c pm)).
    destruct (write_cycle_sem f c pm) as (L1 & S1 & U1 & P1).
    { apply HC. left; reflexivity. }
    { intros x Hx. apply Hlt. apply in_or_app; auto. }
    cbv zeta in L1, S1, U1, P1.
    destruct (IH (write_cycle c pm)) as (L2 & S2 & U2 & P2).
    { intros c0 Hc0. apply HC. right; exact Hc0. }
    { intros x Hx. rewrite L1. apply Hlt. apply in_or_app; auto. }
    cbv zeta in L2, S2, U2, P2.
    split; [congruence|]. split; [|split].
    + intros x Hx. apply in_app_or in Hx.
      destruct (in_dec Nat.eq_dec x (concat rest)) as [Hin|Hnin].
      * apply S2. exact Hin.
      * destruct Hx as [Hx|Hx]; [|contradiction]. apply P2. apply S1. exact Hx.
    + intros x Hx. rewrite U2, U1; auto; intros Hin; apply Hx; apply in_or_app; auto.
    + intros x Hx. apply P2. apply P1. exact Hx.
Qed.

(** The one-line permutation built from cycles all of which follow [f]. *)
Theorem perm_of_cycles_sem N f cs :
  (forall c, In c cs -> Consistent f c) -> (forall x, In x (concat cs) -> x < N) ->
  length (perm_of_cycles N cs) = N /\
  (forall x, In x (concat cs) -> nth x (perm_of_cycles N cs) 0 = f x) /\
  (forall x, x < N -> ~ In x (concat cs) -> nth x (perm_of_cycles N cs) 0 = x).
Proof.
  intros HC Hlt. rewrite poc_write_cycles.
  destruct (write_cycles_sem f cs (seq 0 N) HC) as (L & S & U & _).
  { rewrite seq_length. exact Hlt. }
  cbv zeta in L, S, U. rewrite seq_length in L.
  split; [exact L|]. split; [exact S|].
  intros x Hx Hn. rewrite U by exact Hn. apply seq_nth. exact Hx.
Qed.

Lemma NoDup_app_intro {A} (l1 l2 : list A) :
  NoDup l1 -> NoDup l2 -> (forall x, In x l1 -> ~ In x l2) -> NoDup (l1 ++ l2).
Proof.
  induction l1 as [|a l1 IH]; intros N1 N2 HD; [exact N2|].
  cbn [app]. inversion N1 as [|? ? Hn N1']; subst. constructor.
  - intros Hin. apply in_app_or in Hin as [Hin|Hin]; [contradiction|].
    apply (HD a); [left; reflexivity|exact Hin].
  - apply IH; auto. intros x Hx. apply HD. right; exact Hx.
Qed.

(* a 4-orbit [x; f x; f^2 x; f^3 x] with f^4 x = x is consistent with f *)
Definition orbit4 (f : nat -> nat) (x : nat) : list nat := [x; f x; f (f x); f (f (f x))].

Lemma orbit4_consistent f x : f (f (f (f x))) = x -> Consistent f (orbit4 f x).
Proof.
  intros H4 i Hi. unfold orbit4 in *. cbn [length] in *.
  destruct i as [|[|[|[|i]]]]; try lia; cbn; auto.
Qed.

(* ====================================================================================== *)
(** * Part B: coordinates *)

Definition coord := (nat * nat * nat)%type.
Definition cface (p : coord) : nat := fst (fst p).
Definition crow (p : coord) : nat := snd (fst p).
Definition ccol (p : coord) : nat := snd p.

Definition sticker3 (n : nat) (p : coord) : nat := sticker n (cface p) (crow p) (ccol p).
Definition decode (n i : nat) : coord := (i / (n * n), (i mod (n * n)) / n, i mod n).
Definition valid (n : nat) (p : coord) : Prop := cface p < 6 /\ crow p < n /\ ccol p < n.

Lemma sticker_face n f r c : r < n -> c < n -> sticker n f r c / (n * n) = f.
Proof.
  intros Hr Hc. unfold sticker. symmetry. apply Nat.div_unique with (r := r * n + c); nia.
Qed.

Lemma sticker_rem n f r c : r < n -> c < n -> sticker n f r c mod (n * n) = r * n + c.
Proof.
  intros Hr Hc. unfold sticker. symmetry. apply Nat.mod_unique with (q := f); nia.
Qed.

Lemma rc_div n r c : c < n -> (r * n + c) / n = r.
Proof. intros Hc. symmetry. apply Nat.div_unique with (r := c); nia. Qed.

Lemma rc_mod n r c : c < n -> (r * n + c) mod n = c.
Proof. intros Hc. symmetry. apply Nat.mod_unique with (q := r); nia. Qed.

Lemma sticker_col n f r c : c < n -> sticker n f r c mod n = c.
Proof.
  intros Hc. unfold sticker. symmetry. apply Nat.mod_unique with (q := f * n + r); nia.
Qed.

Lemma decode_sticker n f r c : r < n -> c < n -> decode n (sticker n f r c) = (f, r, c).
Proof.
  intros Hr Hc. unfold decode.
  rewrite sticker_face, sticker_rem, sticker_col, rc_div by assumption. reflexivity.
Qed.

Lemma decode_sticker3 n p : valid n p -> decode n (sticker3 n p) = p.
Proof.
  destruct p as [[f r] c]. intros (_ & Hr & Hc). unfold sticker3, cface, crow, ccol in *. cbn [fst snd] in *.
  apply decode_sticker; assumption.
Qed.

Lemma sticker3_decode n i : 0 < n -> sticker3 n (decode n i) = i.
Proof.
  intros Hn. unfold sticker3, decode, cface, crow, ccol, sticker. cbn [fst snd].
  assert (n * n <> 0) as Hnn by nia.
  pose proof (Nat.div_mod i (n * n) Hnn) as E1.
  pose proof (Nat.mod_upper_bound i (n * n) Hnn) as B1.
  set (m := i mod (n * n)) in *.
  pose proof (Nat.div_mod m n ltac:(lia)) as E2.
  pose proof (Nat.mod_upper_bound m n ltac:(lia)) as B2.
  assert (i mod n = m mod n) as E3.
  { symmetry. apply Nat.mod_unique with (q := n * (i / (n * n)) + m / n); [lia|]. nia. }
  rewrite E3. nia.
Qed.

Lemma valid_decode n i : 0 < n -> i < 6 * (n * n) -> valid n (decode n i).
Proof.
  intros Hn Hi. unfold valid, decode, cface, crow, ccol. cbn [fst snd].
  assert (n * n <> 0) as Hnn by nia.
  split; [|split].
  - apply Nat.div_lt_upper_bound; [exact Hnn|lia].
  - apply Nat.div_lt_upper_bound; [lia|]. apply Nat.mod_upper_bound. exact Hnn.
  - apply Nat.mod_upper_bound. lia.
Qed.

Lemma sticker3_lt n p : valid n p -> sticker3 n p < 6 * (n * n).
Proof.
  destruct p as [[f r] c]. unfold valid, sticker3, sticker, cface, crow, ccol. cbn [fst snd].
  intros (Hf & Hr & Hc). nia.
Qed.

Lemma sticker3_inj n p q : valid n p -> valid n q -> sticker3 n p = sticker3 n q -> p = q.
Proof.
  intros Hp Hq E. rewrite <- (decode_sticker3 n p Hp), <- (decode_sticker3 n q Hq), E. reflexivity.
Qed.

Lemma sticker_inj n f r c f' r' c' : r < n -> c < n -> r' < n -> c' < n ->
  sticker n f r c = sticker n f' r' c' -> f = f' /\ r = r' /\ c = c'.
Proof.
  intros Hr Hc Hr' Hc' E.
  pose proof (decode_sticker n f r c Hr Hc) as D1. rewrite E, decode_sticker in D1 by assumption.
  inversion D1. auto.
Qed.

(* ====================================================================================== *)
(** * Part C: rotate_face_cw *)

(* the cell (r,c) is the fixed point of the quarter rotation (r,c) -> (c, n-1-r) *)
Definition fixed_cell (n r c : nat) : Prop := c = r /\ n - 1 - r = c.

Lemma fixed_cell_dec n r c : {fixed_cell n r c} + {~ fixed_cell n r c}.
Proof.
  unfold fixed_cell. destruct (Nat.eq_dec c r); destruct (Nat.eq_dec (n - 1 - r) c); (left; tauto) || (right; tauto).
Defined.

(* the 4-orbit of (r,c): (r,c) -> (c,n-1-r) -> (n-1-r,n-1-c) -> (n-1-c,r) *)
Definition face_orbit (n face r c : nat) : list nat :=
  [sticker n face r c; sticker n face c (n - 1 - r);
   sticker n face (n - 1 - r) (n - 1 - c); sticker n face (n - 1 - c) r].

Definition dapp (cyc : list nat) (idx : nat) : list nat :=
  if existsb (Nat.eqb idx) cyc then cyc else cyc ++ [idx].

Lemma dapp4_distinct a b c d :
  a <> b -> a <> c -> a <> d -> b <> c -> b <> d -> c <> d ->
  dapp (dapp (dapp (dapp [] a) b) c) d = [a; b; c; d].
Proof.
  intros. unfold dapp. cbn [existsb app].
  rewrite (proj2 (Nat.eqb_neq b a)) by auto. cbn [orb app existsb].
  rewrite (proj2 (Nat.eqb_neq c a)), (proj2 (Nat.eqb_neq c b)) by auto. cbn [orb app existsb].
  rewrite (proj2 (Nat.eqb_neq d a)), (proj2 (Nat.eqb_neq d b)), (proj2 (Nat.eqb_neq d c)) by auto.
  reflexivity.
Qed.

Lemma dapp4_same a : dapp (dapp (dapp (dapp [] a) a) a) a = [a].
Proof.
  assert (dapp [a] a = [a]) as E.
  { unfold dapp. cbn [existsb]. rewrite Nat.eqb_refl. reflexivity. }
  change (dapp [] a) with [a]. rewrite !E. reflexivity.
Qed.

Definition mark4 (pm : list bool) (k0 k1 k2 k3 : nat) : list bool :=
  upd (upd (upd (upd pm k0 true) k1 true) k2 true) k3 true.

Lemma rf_inner4 n face pm r0 c0 : r0 < n ->
  fold_left (rf_inner n face) (seq 0 4) ([], pm, r0, c0) =
  (dapp (dapp (dapp (dapp [] (sticker n face r0 c0)) (sticker n face c0 (n - 1 - r0)))
                    (sticker n face (n - 1 - r0) (n - 1 - c0))) (sticker n face (n - 1 - c0) r0),
   mark4 pm (r0 * n + c0) (c0 * n + (n - 1 - r0)) ((n - 1 - r0) * n + (n - 1 - c0)) ((n - 1 - c0) * n + r0),
   r0, n - 1 - (n - 1 - c0)).
Proof.
  intros Hr. cbn [seq fold_left rf_inner].
  replace (n - 1 - (n - 1 - r0)) with r0 by lia. reflexivity.
Qed.

Lemma rc_inj n r c r' c' : c < n -> c' < n -> r * n + c = r' * n + c' -> r = r' /\ c = c'.
Proof.
  intros Hc Hc' E. split.
  - rewrite <- (rc_div n r c Hc), E. apply rc_div. exact Hc'.
  - rewrite <- (rc_mod n r c Hc), E. apply rc_mod. exact Hc'.
Qed.

Lemma nth_mark (l : list bool) i j : i < length l ->
  nth j (upd l i true) false = (i =? j) || nth j l false.
Proof. intros Hi. rewrite nth_upd by exact Hi. destruct (i =? j); reflexivity. Qed.

Lemma mark4_length pm k0 k1 k2 k3 : length (mark4 pm k0 k1 k2 k3) = length pm.
Proof. unfold mark4. rewrite !upd_length. reflexivity. Qed.

Lemma nth_mark4 pm k0 k1 k2 k3 j :
  k0 < length pm -> k1 < length pm -> k2 < length pm -> k3 < length pm ->
  nth j (mark4 pm k0 k1 k2 k3) false = true <->
  (j = k0 \/ j = k1 \/ j = k2 \/ j = k3 \/ nth j pm false = true).
Proof.
  intros H0 H1 H2 H3. unfold mark4.
  rewrite !nth_mark by (rewrite ?upd_length; assumption).
  rewrite !orb_true_iff, !Nat.eqb_eq. intuition (auto; try congruence).
Qed.

Definition RInv (n face : nat) (st : list (list nat) * list bool) : Prop :=
  length (snd st) = n * n /\
  (forall cyc, In cyc (fst st) ->
     exists r c, r < n /\ c < n /\ ~ fixed_cell n r c /\ cyc = face_orbit n face r c) /\
  (forall r c, r < n -> c < n -> nth (r * n + c) (snd st) false = true ->
     fixed_cell n r c \/ In (sticker n face r c) (concat (fst st))).

Lemma cell_lt n r c : r < n -> c < n -> r * n + c < n * n.
Proof. intros. nia. Qed.

Lemma rf_step_inv n face st r0 c0 : RInv n face st -> r0 < n -> c0 < n ->
  let st' := rf_step n face st (r0, c0) in
  RInv n face st' /\
  (forall k, nth k (snd st) false = true -> nth k (snd st') false = true) /\
  nth (r0 * n + c0) (snd st') false = true.
Proof.
  destruct st as [cycles pm]. intros (L & I2 & I3) Hr Hc. cbn [fst snd] in *. cbv zeta.
  unfold rf_step.
  destruct (nth (r0 * n + c0) pm false) eqn:E0.
  { cbn [fst snd]. split; [split; [exact L|split; assumption]|]. split; auto. }
  rewrite rf_inner4 by exact Hr.
  set (k0 := r0 * n + c0). set (k1 := c0 * n + (n - 1 - r0)).
  set (k2 := (n - 1 - r0) * n + (n - 1 - c0)). set (k3 := (n - 1 - c0) * n + r0).
  assert (k0 < length pm) as B0 by (rewrite L; apply cell_lt; lia).
  assert (k1 < length pm) as B1 by (rewrite L; apply cell_lt; lia).
  assert (k2 < length pm) as B2 by (rewrite L; apply cell_lt; lia).
  assert (k3 < length pm) as B3 by (rewrite L; apply cell_lt; lia).
  assert (forall k, nth k pm false = true -> nth k (mark4 pm k0 k1 k2 k3) false = true) as Mono.
  { intros k Hk. apply nth_mark4; auto 10. }
  assert (nth k0 (mark4 pm k0 k1 k2 k3) false = true) as M0 by (apply nth_mark4; auto).
  destruct (fixed_cell_dec n r0 c0) as [Hfix|Hnf].
  - (* the centre: a cycle of length 1, dropped *)
    destruct Hfix as [F1 F2].
    replace (sticker n face c0 (n - 1 - r0)) with (sticker n face r0 c0) by (f_equal; lia).
    replace (sticker n face (n - 1 - r0) (n - 1 - c0)) with (sticker n face r0 c0) by (f_equal; lia).
    replace (sticker n face (n - 1 - c0) r0) with (sticker n face r0 c0) by (f_equal; lia).
    rewrite dapp4_same. cbn [length Nat.ltb Nat.leb fst snd].
    split; [|split; [exact Mono|exact M0]].
    unfold RInv; cbn [fst snd]. split; [rewrite mark4_length; exact L|]. split; [exact I2|].
    intros r c Hr' Hc' Hm. apply nth_mark4 in Hm; auto.
    assert (forall k, (k = k0 \/ k = k1 \/ k = k2 \/ k = k3) -> r * n + c = k -> fixed_cell n r c) as Hk.
    { intros k Hk Ek. unfold fixed_cell. unfold k0, k1, k2, k3 in Hk.
      destruct Hk as [-> | [-> | [-> | ->]]]; apply rc_inj in Ek; lia. }
    destruct Hm as [Hm|[Hm|[Hm|[Hm|Hm]]]]; try (left; eapply Hk; [|exact Hm]; tauto).
    apply I3; assumption.
  - (* a genuine 4-orbit *)
    assert (forall r c r' c', r < n -> c < n -> r' < n -> c' < n -> (r <> r' \/ c <> c') ->
              sticker n face r c <> sticker n face r' c') as Hne.
    { intros r c r' c' ? ? ? ? Hd E. apply sticker_inj in E; lia. }
    unfold fixed_cell in Hnf.
    rewrite dapp4_distinct by (apply Hne; lia).
    cbn [length Nat.ltb Nat.leb fst snd].
    split; [|split; [exact Mono|exact M0]].
    unfold RInv; cbn [fst snd]. split; [rewrite mark4_length; exact L|]. split.
    + intros cyc Hin. apply in_app_or in Hin as [Hin|[<-|[]]]; [apply I2; exact Hin|].
      exists r0, c0. repeat split; auto.
    + intros r c Hr' Hc' Hm. apply nth_mark4 in Hm; auto.
      assert (forall k, (k = k0 \/ k = k1 \/ k = k2 \/ k = k3) -> r * n + c = k ->
                In (sticker n face r c) (concat (cycles ++ [face_orbit n face r0 c0]))) as Hk.
      { intros k Hk Ek. rewrite concat_app. apply in_or_app. right. cbn [concat]. rewrite app_nil_r.
        unfold k0, k1, k2, k3 in Hk.
        destruct Hk as [-> | [-> | [-> | ->]]]; apply rc_inj in Ek as [-> ->]; try lia; cbn; auto. }
      destruct Hm as [Hm|[Hm|[Hm|[Hm|Hm]]]]; try (right; eapply Hk; [|exact Hm]; tauto).
      destruct (I3 r c Hr' Hc' Hm) as [Hf|Hin]; [left; exact Hf|].
      right. rewrite concat_app. apply in_or_app. left. exact Hin.
Qed.

Lemma rf_fold_inv n face l : forall st, RInv n face st ->
  (forall rc, In rc l -> fst rc < n /\ snd rc < n) ->
  let st' := fold_left (rf_step n face) l st in
  RInv n face st' /\
  (forall k, nth k (snd st) false = true -> nth k (snd st') false = true) /\
  (forall rc, In rc l -> nth (fst rc * n + snd rc) (snd st') false = true).
Proof.
  induction l as [|[r0 c0] l IH]; intros st HI Hl; cbv zeta.
  - cbn [fold_left]. split; [exact HI|]. split; [auto|intros rc []].
  - cbn [fold_left].
    destruct (Hl (r0, c0) (or_introl eq_refl)) as [Hr Hc]. cbn [fst snd] in Hr, Hc.
    destruct (rf_step_inv n face st r0 c0 HI Hr Hc) as (HI1 & Mono1 & M1). cbv zeta in HI1, Mono1, M1.
    destruct (IH (rf_step n face st (r0, c0)) HI1) as (HI2 & Mono2 & M2).
    { intros rc Hrc. apply Hl. right; exact Hrc. }
    cbv zeta in HI2, Mono2, M2.
    split; [exact HI2|]. split.
    + intros k Hk. apply Mono2. apply Mono1. exact Hk.
    + intros rc [<-|Hrc].
      * cbn [fst snd]. apply Mono2. exact M1.
      * apply M2. exact Hrc.
Qed.

Lemma RInv_init n face : RInv n face ([], repeat false (n * n)).
Proof.
  unfold RInv. cbn [fst snd]. split; [apply repeat_length|]. split.
  - intros cyc [].
  - intros r c Hr Hc H. exfalso.
    assert (nth (r * n + c) (repeat false (n * n)) false = false) as E.
    { destruct (nth_in_or_default (r * n + c) (repeat false (n * n)) false) as [Hin|E]; [|exact E].
      apply repeat_spec in Hin. exact Hin. }
    congruence.
Qed.

(** every emitted cycle is the 4-orbit of a non-centre cell *)
Theorem rotate_face_cw_form n face cyc : In cyc (rotate_face_cw n face) ->
  exists r c, r < n /\ c < n /\ ~ fixed_cell n r c /\ cyc = face_orbit n face r c.
Proof.
  unfold rotate_face_cw.
  destruct (rf_fold_inv n face (list_prod (seq 0 n) (seq 0 n)) _ (RInv_init n face)) as ((_ & I2 & _) & _).
  { intros [r c] H. apply in_prod_iff in H as [H1 H2]. apply in_seq in H1, H2. cbn [fst snd]. lia. }
  exact (I2 cyc).
Qed.

(** every non-centre cell of the face lies on an emitted cycle *)
Theorem rotate_face_cw_cover n face r c : r < n -> c < n -> ~ fixed_cell n r c ->
  In (sticker n face r c) (concat (rotate_face_cw n face)).
Proof.
  intros Hr Hc Hnf. unfold rotate_face_cw.
  destruct (rf_fold_inv n face (list_prod (seq 0 n) (seq 0 n)) _ (RInv_init n face)) as ((_ & _ & I3) & _ & M).
  { intros [r' c'] H. apply in_prod_iff in H as [H1 H2]. apply in_seq in H1, H2. cbn [fst snd]. lia. }
  cbv zeta in I3, M.
  specialize (M (r, c)). cbn [fst snd] in M.
  destruct (I3 r c Hr Hc) as [Hf|Hin]; [|contradiction|exact Hin].
  apply M. apply in_prod_iff. split; apply in_seq; lia.
Qed.

(* ---- "exactly once": the emitted cycles are pairwise disjoint (not needed for the pointwise theorem,
        which tolerates repeated cycles, but it is what the [permuted] bookkeeping is for) ---- *)
Definition RInv2 (n face : nat) (st : list (list nat) * list bool) : Prop :=
  (forall r c, r < n -> c < n -> In (sticker n face r c) (concat (fst st)) ->
     nth (r * n + c) (snd st) false = true) /\
  (forall r c, r < n -> c < n -> nth (r * n + c) (snd st) false = true ->
     nth (c * n + (n - 1 - r)) (snd st) false = true) /\
  NoDup (concat (fst st)).

Lemma rf_step_inv2 n face st r0 c0 : RInv n face st -> RInv2 n face st -> r0 < n -> c0 < n ->
  RInv2 n face (rf_step n face st (r0, c0)).
Proof.
  destruct st as [cycles pm]. intros (L & _ & _) (J1 & J2 & J3) Hr Hc. cbn [fst snd] in *.
  unfold rf_step.
  destruct (nth (r0 * n + c0) pm false) eqn:E0.
  { unfold RInv2. cbn [fst snd]. auto. }
  rewrite rf_inner4 by exact Hr.
  set (k0 := r0 * n + c0). set (k1 := c0 * n + (n - 1 - r0)).
  set (k2 := (n - 1 - r0) * n + (n - 1 - c0)). set (k3 := (n - 1 - c0) * n + r0).
  assert (k0 < length pm) as B0 by (rewrite L; apply cell_lt; lia).
  assert (k1 < length pm) as B1 by (rewrite L; apply cell_lt; lia).
  assert (k2 < length pm) as B2 by (rewrite L; apply cell_lt; lia).
  assert (k3 < length pm) as B3 by (rewrite L; apply cell_lt; lia).
  assert (forall k, nth k pm false = true -> nth k (mark4 pm k0 k1 k2 k3) false = true) as Mono.
  { intros k Hk. apply nth_mark4; auto 10. }
  (* the marks stay closed under the rotation *)
  assert (forall r c, r < n -> c < n -> nth (r * n + c) (mark4 pm k0 k1 k2 k3) false = true ->
            nth (c * n + (n - 1 - r)) (mark4 pm k0 k1 k2 k3) false = true) as Closed.
  { intros r c Hr' Hc' Hm. apply nth_mark4 in Hm; auto. apply nth_mark4; auto.
    unfold k0, k1, k2, k3 in *.
    destruct Hm as [Hm|[Hm|[Hm|[Hm|Hm]]]]; try (apply rc_inj in Hm as [-> ->]; lia).
    right; right; right; right. apply J2; assumption. }
  destruct (fixed_cell_dec n r0 c0) as [Hfix|Hnf].
  - destruct Hfix as [F1 F2].
    replace (sticker n face c0 (n - 1 - r0)) with (sticker n face r0 c0) by (f_equal; lia).
    replace (sticker n face (n - 1 - r0) (n - 1 - c0)) with (sticker n face r0 c0) by (f_equal; lia).
    replace (sticker n face (n - 1 - c0) r0) with (sticker n face r0 c0) by (f_equal; lia).
    rewrite dapp4_same. cbn [length Nat.ltb Nat.leb]. unfold RInv2. cbn [fst snd].
    split; [|split; [exact Closed|exact J3]].
    intros r c Hr' Hc' Hin. apply Mono. apply J1; assumption.
  - assert (forall r c r' c', r < n -> c < n -> r' < n -> c' < n -> (r <> r' \/ c <> c') ->
              sticker n face r c <> sticker n face r' c') as Hne.
    { intros r c r' c' ? ? ? ? Hd E. apply sticker_inj in E; lia. }
    unfold fixed_cell in Hnf.
    rewrite dapp4_distinct by (apply Hne; lia).
    cbn [length Nat.ltb Nat.leb]. unfold RInv2. cbn [fst snd].
    (* the four cells of the new orbit are all unmarked: x0 is, and the marks are closed under rotation *)
    assert (nth k3 pm false = false) as U3.
    { destruct (nth k3 pm false) eqn:E; [|reflexivity].
      apply (J2 (n - 1 - c0) r0) in E; try lia.
      replace (n - 1 - (n - 1 - c0)) with c0 in E by lia. unfold k0 in E0. congruence. }
    assert (nth k2 pm false = false) as U2.
    { destruct (nth k2 pm false) eqn:E; [|reflexivity].
      apply (J2 (n - 1 - r0) (n - 1 - c0)) in E; try lia.
      replace (n - 1 - (n - 1 - r0)) with r0 in E by lia. unfold k3 in U3. congruence. }
    assert (nth k1 pm false = false) as U1.
    { destruct (nth k1 pm false) eqn:E; [|reflexivity].
      apply (J2 c0 (n - 1 - r0)) in E; try lia. unfold k2 in U2. congruence. }
    split; [|split; [exact Closed|]].
    + intros r c Hr' Hc' Hin. rewrite concat_app in Hin. apply in_app_or in Hin as [Hin|Hin].
      * apply Mono. apply J1; assumption.
      * cbn [concat] in Hin. rewrite app_nil_r in Hin. apply nth_mark4; auto.
        unfold face_orbit in Hin. cbn [In] in Hin. unfold k0, k1, k2, k3.
        destruct Hin as [E|[E|[E|[E|[]]]]]; apply sticker_inj in E; try lia;
          destruct E as (_ & <- & <-); auto.
    + rewrite concat_app. cbn [concat]. rewrite app_nil_r. apply NoDup_app_intro; [exact J3| |].
      * unfold face_orbit. repeat constructor; cbn [In]; intros H;
          repeat (destruct H as [H|H]; [revert H; apply Hne; lia|]); exact H.
      * intros x Hx Hin. unfold face_orbit in Hin. cbn [In] in Hin.
        destruct Hin as [<-|[<-|[<-|[<-|[]]]]]; apply J1 in Hx; try lia;
          unfold k0, k1, k2, k3 in *; congruence.
Qed.

Lemma rf_fold_inv2 n face l : forall st, RInv n face st -> RInv2 n face st ->
  (forall rc, In rc l -> fst rc < n /\ snd rc < n) ->
  RInv2 n face (fold_left (rf_step n face) l st).
Proof.
  induction l as [|[r0 c0] l IH]; intros st HI HJ Hl; cbn [fold_left]; [exact HJ|].
  destruct (Hl (r0, c0) (or_introl eq_refl)) as [Hr Hc]. cbn [fst snd] in Hr, Hc.
  apply IH.
  - apply (rf_step_inv n face st r0 c0 HI Hr Hc).
  - apply rf_step_inv2; assumption.
  - intros rc Hrc. apply Hl. right; exact Hrc.
Qed.

(** no sticker occurs twice in the emitted cycles: each 4-orbit is enumerated exactly once *)
Theorem rotate_face_cw_NoDup n face : NoDup (concat (rotate_face_cw n face)).
Proof.
  unfold rotate_face_cw.
  apply (rf_fold_inv2 n face (list_prod (seq 0 n) (seq 0 n)) _ (RInv_init n face)).
  - unfold RInv2. cbn [fst snd concat]. split; [intros r c _ _ []|]. split; [|constructor].
    intros r c Hr Hc H. exfalso.
    assert (nth (r * n + c) (repeat false (n * n)) false = false) as E.
    { destruct (nth_in_or_default (r * n + c) (repeat false (n * n)) false) as [Hin|E]; [|exact E].
      apply repeat_spec in Hin. exact Hin. }
    congruence.
  - intros [r c] H. apply in_prod_iff in H as [H1 H2]. apply in_seq in H1, H2. cbn [fst snd]. lia.
Qed.

(* ====================================================================================== *)
(** * Part D: the closed form of a layer turn, and the cycles of [move_cycles] *)

(** [tc n t s f r c]: where the turn of type [t] on slice [s] sends the sticker at (face f, row r, col c).
    Faces: U=0 F=1 R=2 B=3 L=4 D=5.
    d-turn, slice s: row n-1-s of F -> L -> B -> R -> F (same row, same column);
                     s = 0 turns face D by (r,c) -> (n-1-c, r); s = n-1 turns face U by (r,c) -> (c, n-1-r).
    f-turn, slice s: L(r, n-1-s) -> D(s, r);  D(s, c) -> R(n-1-c, s);  R(r, s) -> U(n-1-s, r);
                     U(n-1-s, c) -> L(n-1-c, n-1-s);
                     s = 0 turns face F by (r,c) -> (n-1-c, r); s = n-1 turns face B by (r,c) -> (c, n-1-r).
    r-turn, slice s (named r(n-1-s) in the output): U(r,s) -> F(r,s) -> D(r,s) -> B(n-1-r, n-1-s) -> U(r,s);
                     s = n-1 turns face R by (r,c) -> (n-1-c, r); s = 0 turns face L by (r,c) -> (c, n-1-r). *)
Definition tc (n : nat) (t : mtype) (s : nat) (f r c : nat) : coord :=
  match t with
  | MD =>
      match f with
      | 0 => if s =? n - 1 then (0, c, n - 1 - r) else (f, r, c)
      | 1 => if r =? n - 1 - s then (4, r, c) else (f, r, c)
      | 2 => if r =? n - 1 - s then (1, r, c) else (f, r, c)
      | 3 => if r =? n - 1 - s then (2, r, c) else (f, r, c)
      | 4 => if r =? n - 1 - s then (3, r, c) else (f, r, c)
      | 5 => if s =? 0 then (5, n - 1 - c, r) else (f, r, c)
      | _ => (f, r, c)
      end
  | MF =>
      match f with
      | 0 => if r =? n - 1 - s then (4, n - 1 - c, n - 1 - s) else (f, r, c)
      | 1 => if s =? 0 then (1, n - 1 - c, r) else (f, r, c)
      | 2 => if c =? s then (0, n - 1 - s, r) else (f, r, c)
      | 3 => if s =? n - 1 then (3, c, n - 1 - r) else (f, r, c)
      | 4 => if c =? n - 1 - s then (5, s, r) else (f, r, c)
      | 5 => if r =? s then (2, n - 1 - c, s) else (f, r, c)
      | _ => (f, r, c)
      end
  | MR =>
      match f with
      | 0 => if c =? s then (1, r, c) else (f, r, c)
      | 1 => if c =? s then (5, r, c) else (f, r, c)
      | 2 => if s =? n - 1 then (2, n - 1 - c, r) else (f, r, c)
      | 3 => if c =? n - 1 - s then (0, n - 1 - r, s) else (f, r, c)
      | 4 => if s =? 0 then (4, c, n - 1 - r) else (f, r, c)
      | 5 => if c =? s then (3, n - 1 - r, n - 1 - s) else (f, r, c)
      | _ => (f, r, c)
      end
  end.

Definition turn_coord (n : nat) (t : mtype) (s : nat) (p : coord) : coord :=
  tc n t s (cface p) (crow p) (ccol p).

(** the layer turn as a function on sticker indices *)
Definition turn_fun (n : nat) (t : mtype) (s : nat) (i : nat) : nat :=
  sticker3 n (turn_coord n t s (decode n i)).

(* validation of the closed form against the model BEFORE the proof: n = 2..5, all 3n turns *)
Definition turn_fun_check (n : nat) : bool :=
  forallb (fun t => forallb (fun s =>
     nat_list_eqb (move_perm n t s) (map (turn_fun n t s) (seq 0 (6 * (n * n)))))
     (seq 0 n)) [MF; MR; MD].

Example turn_fun_validated : forallb turn_fun_check [2; 3; 4; 5] = true.
Proof. vm_compute. reflexivity. Qed.

Ltac tc_red := cbn [tc turn_coord fst snd cface crow ccol].
Ltac tc_case :=
  match goal with
  | |- context [if ?a =? ?b then _ else _] => destruct (Nat.eqb_spec a b); tc_red
  end.
Ltac tc_unfold1 :=
  match goal with
  | |- context [turn_coord ?n ?t ?s (?f, ?r, ?c)] =>
      change (turn_coord n t s (f, r, c)) with (tc n t s f r c); cbn [tc]
  end.
Ltac tc_go :=
  repeat (tc_unfold1;
          try match goal with
              | |- context [if ?a =? ?b then _ else _] => destruct (Nat.eqb_spec a b)
              end).
Ltac faces6 f Hf :=
  destruct f as [|[|[|[|[|[|f]]]]]]; [| | | | | |exfalso; lia].

Lemma turn_coord_valid n t s p : 0 < n -> s < n -> valid n p -> valid n (turn_coord n t s p).
Proof.
  destruct p as [[f r] c]. unfold valid. tc_red. intros Hn Hs (Hf & Hr & Hc).
  faces6 f Hf; destruct t; tc_red; repeat tc_case; tc_red; lia.
Qed.

Lemma turn_coord_order4 n t s p : s < n -> valid n p ->
  turn_coord n t s (turn_coord n t s (turn_coord n t s (turn_coord n t s p))) = p.
Proof.
  destruct p as [[f r] c]. unfold valid. cbn [fst snd cface crow ccol]. intros Hs (Hf & Hr & Hc).
  faces6 f Hf; destruct t; tc_go; try (exfalso; lia); repeat f_equal; lia.
Qed.

Lemma turn_fun_sticker3 n t s p : valid n p ->
  turn_fun n t s (sticker3 n p) = sticker3 n (turn_coord n t s p).
Proof. intros Hp. unfold turn_fun. rewrite decode_sticker3 by exact Hp. reflexivity. Qed.

Lemma turn_fun_lt n t s i : 0 < n -> s < n -> i < 6 * (n * n) -> turn_fun n t s i < 6 * (n * n).
Proof.
  intros Hn Hs Hi. unfold turn_fun. apply sticker3_lt. apply turn_coord_valid; auto.
  apply valid_decode; assumption.
Qed.

Lemma turn_fun_order4 n t s i : 0 < n -> s < n -> i < 6 * (n * n) ->
  turn_fun n t s (turn_fun n t s (turn_fun n t s (turn_fun n t s i))) = i.
Proof.
  intros Hn Hs Hi.
  pose proof (valid_decode n i Hn Hi) as Hv.
  rewrite <- (sticker3_decode n i Hn) at 1.
  rewrite !turn_fun_sticker3 by (repeat apply turn_coord_valid; auto).
  rewrite turn_coord_order4 by assumption. apply sticker3_decode. exact Hn.
Qed.

Lemma orbit4_coord n t s p : 0 < n -> s < n -> valid n p ->
  orbit4 (turn_fun n t s) (sticker3 n p) =
  map (sticker3 n) [p; turn_coord n t s p; turn_coord n t s (turn_coord n t s p);
                    turn_coord n t s (turn_coord n t s (turn_coord n t s p))].
Proof.
  intros Hn Hs Hp. unfold orbit4. cbn [map].
  rewrite !turn_fun_sticker3 by (repeat apply turn_coord_valid; auto). reflexivity.
Qed.

(* ---- the cycle lists ---- *)
Definition side_cycles (n : nat) (t : mtype) (s : nat) : list (list nat) :=
  match t with
  | MF => map (fun k => rev [sticker n fU (n - 1 - s) k; sticker n fR k s;
                             sticker n fD s (n - 1 - k); sticker n fL (n - 1 - k) (n - 1 - s)])
              (seq 0 n)
  | MR => map (fun k => [sticker n fU k s; sticker n fF k s; sticker n fD k s;
                         sticker n fB (n - 1 - k) (n - 1 - s)]) (seq 0 n)
  | MD => map (fun k => [sticker n fF (n - 1 - s) k; sticker n fL (n - 1 - s) k;
                         sticker n fB (n - 1 - s) k; sticker n fR (n - 1 - s) k]) (seq 0 n)
  end.

Definition face_cycles (n : nat) (t : mtype) (s : nat) : list (list nat) :=
  if s =? 0 then
    match t with
    | MF => map (@rev nat) (rotate_face_cw n fF)
    | MR => rotate_face_cw n fL
    | MD => map (@rev nat) (rotate_face_cw n fD)
    end
  else if s =? n - 1 then
    match t with
    | MF => rotate_face_cw n fB
    | MR => map (@rev nat) (rotate_face_cw n fR)
    | MD => rotate_face_cw n fU
    end
  else [].

Lemma move_cycles_In n t s cyc : 2 <= n -> s < n ->
  (In cyc (move_cycles n t s) <-> In cyc (side_cycles n t s) \/ In cyc (face_cycles n t s)).
Proof.
  intros Hn Hs. unfold move_cycles, side_cycles, face_cycles. cbv zeta.
  destruct t; destruct (Nat.eqb_spec s 0) as [E0|E0]; destruct (Nat.eqb_spec s (n - 1)) as [E1|E1];
    try (exfalso; lia); cbn [mtype_eqb andb orb]; rewrite ?in_app_iff; cbn [In]; tauto.
Qed.

Ltac unfold_faces := unfold fU, fF, fR, fB, fL, fD in *.

(* a list of four stickers given by coordinates, against its closed form *)
Ltac orbit_solve n t s p Hn Hs :=
  exists p; split;
  [ unfold valid; cbn [fst snd cface crow ccol]; lia
  | rewrite (orbit4_coord n t s p Hn Hs) by (unfold valid; cbn [fst snd cface crow ccol]; lia);
    cbn [map]; tc_go; try (exfalso; lia);
    unfold sticker3, face_orbit; cbn [fst snd cface crow ccol rev app]; unfold_faces;
    repeat f_equal; lia ].

(** F1: every cycle of [move_cycles] is a 4-orbit of the closed form *)
Lemma side_cycles_form n t s cyc : 0 < n -> s < n -> In cyc (side_cycles n t s) ->
  exists p, valid n p /\ cyc = orbit4 (turn_fun n t s) (sticker3 n p).
Proof.
  intros Hn Hs Hin. unfold side_cycles in Hin.
  destruct t; apply in_map_iff in Hin as (k & <- & Hk); apply in_seq in Hk.
  - orbit_solve n MF s (4, n - 1 - k, n - 1 - s) Hn Hs.
  - orbit_solve n MR s (0, k, s) Hn Hs.
  - orbit_solve n MD s (1, n - 1 - s, k) Hn Hs.
Qed.

Lemma face_cycles_form n t s cyc : 2 <= n -> s < n -> In cyc (face_cycles n t s) ->
  exists p, valid n p /\ cyc = orbit4 (turn_fun n t s) (sticker3 n p).
Proof.
  intros Hn2 Hs Hin. assert (0 < n) as Hn by lia. unfold face_cycles in Hin.
  destruct (Nat.eqb_spec s 0) as [E0|E0]; [|destruct (Nat.eqb_spec s (n - 1)) as [E1|E1]; [|destruct Hin]].
  - destruct t.
    + apply in_map_iff in Hin as (cyc0 & <- & Hin).
      apply rotate_face_cw_form in Hin as (r & c & Hr & Hc & _ & ->).
      orbit_solve n MF s (1, n - 1 - c, r) Hn Hs.
    + apply rotate_face_cw_form in Hin as (r & c & Hr & Hc & _ & ->).
      orbit_solve n MR s (4, r, c) Hn Hs.
    + apply in_map_iff in Hin as (cyc0 & <- & Hin).
      apply rotate_face_cw_form in Hin as (r & c & Hr & Hc & _ & ->).
      orbit_solve n MD s (5, n - 1 - c, r) Hn Hs.
  - destruct t.
    + apply rotate_face_cw_form in Hin as (r & c & Hr & Hc & _ & ->).
      orbit_solve n MF s (3, r, c) Hn Hs.
    + apply in_map_iff in Hin as (cyc0 & <- & Hin).
      apply rotate_face_cw_form in Hin as (r & c & Hr & Hc & _ & ->).
      orbit_solve n MR s (2, n - 1 - c, r) Hn Hs.
    + apply rotate_face_cw_form in Hin as (r & c & Hr & Hc & _ & ->).
      orbit_solve n MD s (0, r, c) Hn Hs.
Qed.

Theorem move_cycles_form n t s cyc : 2 <= n -> s < n -> In cyc (move_cycles n t s) ->
  exists p, valid n p /\ cyc = orbit4 (turn_fun n t s) (sticker3 n p).
Proof.
  intros Hn Hs Hin. apply move_cycles_In in Hin as [Hin|Hin]; try assumption.
  - apply side_cycles_form; auto; lia.
  - apply face_cycles_form; auto.
Qed.

(** F3: every sticker that the closed form moves lies on a cycle of [move_cycles] *)
Ltac in4_solve :=
  cbn [rev app In]; unfold_faces;
  first [ left; f_equal; lia
        | right; left; f_equal; lia
        | right; right; left; f_equal; lia
        | right; right; right; left; f_equal; lia ].

Ltac side_solve n t s k Hn2 Hs :=
  apply in_concat;
  eexists; split;
  [ apply (move_cycles_In n t s _ Hn2 Hs); left; unfold side_cycles; apply in_map_iff;
    exists k; split; [reflexivity|apply in_seq; lia]
  | unfold sticker3; cbn [fst snd cface crow ccol]; in4_solve ].

Lemma in_face_orbit_self n face r c : In (sticker n face r c) (face_orbit n face r c).
Proof. left; reflexivity. Qed.

Lemma face_cover_cw n face r c : r < n -> c < n -> ~ fixed_cell n r c ->
  exists cyc, In cyc (rotate_face_cw n face) /\ In (sticker n face r c) cyc.
Proof.
  intros Hr Hc Hnf. pose proof (rotate_face_cw_cover n face r c Hr Hc Hnf) as H.
  apply in_concat in H. exact H.
Qed.

Lemma face_cover_ccw n face r c : r < n -> c < n -> ~ fixed_cell n r c ->
  exists cyc, In cyc (map (@rev nat) (rotate_face_cw n face)) /\ In (sticker n face r c) cyc.
Proof.
  intros Hr Hc Hnf. destruct (face_cover_cw n face r c Hr Hc Hnf) as (cyc & H1 & H2).
  exists (rev cyc). split; [apply in_map; exact H1|]. apply in_rev in H2. exact H2.
Qed.

Ltac face_solve n t s lem Hn2 Hs Hmv :=
  match goal with
  | |- In (sticker3 n (?f, ?r, ?c)) _ =>
      let Hnf := fresh "Hnf" in
      assert (~ fixed_cell n r c) as Hnf
        by (unfold fixed_cell; intros [? ?]; apply Hmv; repeat f_equal; lia);
      let cyc := fresh "cyc" in let H1 := fresh "H1" in let H2 := fresh "H2" in
      destruct (lem n f r c ltac:(lia) ltac:(lia) Hnf) as (cyc & H1 & H2);
      apply in_concat; exists cyc; split; [|exact H2];
      apply (move_cycles_In n t s _ Hn2 Hs); right; unfold face_cycles;
      destruct (Nat.eqb_spec s 0); [|destruct (Nat.eqb_spec s (n - 1))]; try (exfalso; lia);
      exact H1
  end.

Theorem move_cycles_cover n t s p : 2 <= n -> s < n -> valid n p ->
  turn_coord n t s p <> p -> In (sticker3 n p) (concat (move_cycles n t s)).
Proof.
  destruct p as [[f r] c]. unfold valid. cbn [fst snd cface crow ccol].
  intros Hn2 Hs (Hf & Hr & Hc) Hmv.
  faces6 f Hf; destruct t; revert Hmv; tc_go; intros Hmv; try (exfalso; apply Hmv; reflexivity).
  (* f-turns *)
  - side_solve n MF s c Hn2 Hs.
  - (* r-turn, face U *) side_solve n MR s r Hn2 Hs.
  - face_solve n MD s face_cover_cw Hn2 Hs Hmv.
  - face_solve n MF s face_cover_ccw Hn2 Hs Hmv.
  - side_solve n MR s r Hn2 Hs.
  - side_solve n MD s c Hn2 Hs.
  - side_solve n MF s r Hn2 Hs.
  - face_solve n MR s face_cover_ccw Hn2 Hs Hmv.
  - side_solve n MD s c Hn2 Hs.
  - face_solve n MF s face_cover_cw Hn2 Hs Hmv.
  - side_solve n MR s (n - 1 - r) Hn2 Hs.
  - side_solve n MD s c Hn2 Hs.
  - side_solve n MF s (n - 1 - r) Hn2 Hs.
  - face_solve n MR s face_cover_cw Hn2 Hs Hmv.
  - side_solve n MD s c Hn2 Hs.
  - side_solve n MF s (n - 1 - c) Hn2 Hs.
  - side_solve n MR s r Hn2 Hs.
  - face_solve n MD s face_cover_ccw Hn2 Hs Hmv.
Qed.

(* ====================================================================================== *)
(** * Part E: the pointwise theorem *)

Lemma filter_all {A} (f : A -> bool) l : (forall x, In x l -> f x = true) -> filter f l = l.
Proof.
  induction l as [|a l IH]; intros H; [reflexivity|]. cbn [filter].
  rewrite (H a (or_introl eq_refl)). f_equal. apply IH. intros x Hx. apply H. right; exact Hx.
Qed.

Lemma move_cycles_filter n t s : 2 <= n -> s < n ->
  filter (fun c => negb (length c <? 2)) (move_cycles n t s) = move_cycles n t s.
Proof.
  intros Hn Hs. apply filter_all. intros cyc Hin.
  apply move_cycles_form in Hin as (p & _ & ->); auto.
Qed.

Lemma move_cycles_consistent n t s cyc : 2 <= n -> s < n -> In cyc (move_cycles n t s) ->
  Consistent (turn_fun n t s) cyc.
Proof.
  intros Hn Hs Hin. apply move_cycles_form in Hin as (p & Hp & ->); auto.
  apply orbit4_consistent. apply turn_fun_order4; try lia. apply sticker3_lt. exact Hp.
Qed.

Lemma move_cycles_range n t s x : 2 <= n -> s < n -> In x (concat (move_cycles n t s)) ->
  x < 6 * (n * n).
Proof.
  intros Hn Hs Hin. apply in_concat in Hin as (cyc & Hc & Hx).
  apply move_cycles_form in Hc as (p & Hp & ->); auto.
  rewrite orbit4_coord in Hx by (auto; lia).
  apply in_map_iff in Hx as (q & <- & Hq). apply sticker3_lt.
  cbn [In] in Hq. destruct Hq as [<-|[<-|[<-|[<-|[]]]]]; repeat apply turn_coord_valid; auto; lia.
Qed.

Lemma move_perm_length n t s : 2 <= n -> s < n -> length (move_perm n t s) = 6 * (n * n).
Proof.
  intros Hn Hs. unfold move_perm. rewrite move_cycles_filter by assumption.
  apply (perm_of_cycles_sem (6 * (n * n)) (turn_fun n t s)).
  - intros c Hc. apply move_cycles_consistent; assumption.
  - intros x Hx. apply move_cycles_range with (t := t) (s := s); assumption.
Qed.

(** (1) the layer turn, pointwise: for every cube size n >= 2, every turn type and every slice s < n,
    the one-line permutation produced by the generator is the closed form [turn_fun]. *)
Theorem move_perm_nth n t s i : 2 <= n -> s < n -> i < 6 * (n * n) ->
  nth i (move_perm n t s) 0 = turn_fun n t s i.
Proof.
  intros Hn Hs Hi. unfold move_perm. rewrite move_cycles_filter by assumption.
  destruct (perm_of_cycles_sem (6 * (n * n)) (turn_fun n t s) (move_cycles n t s)) as (_ & S & U).
  - intros c Hc. apply move_cycles_consistent; assumption.
  - intros x Hx. apply move_cycles_range with (t := t) (s := s); assumption.
  - destruct (in_dec Nat.eq_dec i (concat (move_cycles n t s))) as [Hin|Hnin].
    + apply S. exact Hin.
    + rewrite U by assumption.
      destruct (Nat.eq_dec (turn_fun n t s i) i) as [E|Hne]; [symmetry; exact E|].
      exfalso. apply Hnin.
      rewrite <- (sticker3_decode n i) by lia.
      apply move_cycles_cover; auto.
      * apply valid_decode; lia.
      * intros E. apply Hne. unfold turn_fun. rewrite E. apply sticker3_decode. lia.
Qed.

Corollary move_perm_eq n t s : 2 <= n -> s < n ->
  move_perm n t s = map (turn_fun n t s) (seq 0 (6 * (n * n))).
Proof.
  intros Hn Hs. apply nth_ext' with (d := 0).
  - rewrite move_perm_length, map_length, seq_length by assumption. reflexivity.
  - intros i Hi. rewrite move_perm_length in Hi by assumption.
    rewrite move_perm_nth by assumption.
    rewrite nth_map_lt with (da := 0) by (rewrite seq_length; exact Hi).
    rewrite seq_nth by exact Hi. reflexivity.
Qed.

(* ====================================================================================== *)
(** * Part F: consequences, for every n >= 2 and s < n *)

Lemma turn_fun_inj n t s i j : 0 < n -> s < n -> i < 6 * (n * n) -> j < 6 * (n * n) ->
  turn_fun n t s i = turn_fun n t s j -> i = j.
Proof.
  intros Hn Hs Hi Hj E.
  rewrite <- (turn_fun_order4 n t s i), <- (turn_fun_order4 n t s j) by assumption.
  rewrite E. reflexivity.
Qed.

(** (2a) the turn is a permutation of the 6n^2 stickers *)
Theorem move_perm_Perm n t s : 2 <= n -> s < n -> Perm (move_perm n t s).
Proof.
  intros Hn Hs. apply NoDup_lt_Perm.
  - rewrite move_perm_eq by assumption. apply NoDup_map_inj; [apply seq_NoDup|].
    intros x y Hx Hy. apply in_seq in Hx, Hy. apply turn_fun_inj; lia.
  - intros x Hx. rewrite move_perm_length by assumption.
    rewrite move_perm_eq in Hx by assumption. apply in_map_iff in Hx as (i & <- & Hi).
    apply in_seq in Hi. apply turn_fun_lt; lia.
Qed.

Lemma pstep_move_perm n t s i : 2 <= n -> s < n -> i < 6 * (n * n) ->
  pstep (move_perm n t s) i = turn_fun n t s i.
Proof. intros. unfold pstep. apply move_perm_nth; assumption. Qed.

(* a sticker whose image under the half turn differs from it *)
Definition witness (n : nat) (t : mtype) (s : nat) : coord :=
  match t with MF => (4, 0, n - 1 - s) | MR => (0, 0, s) | MD => (1, n - 1 - s, 0) end.

Lemma witness_valid n t s : 0 < n -> s < n -> valid n (witness n t s).
Proof. intros Hn Hs. destruct t; unfold valid, witness; cbn [fst snd cface crow ccol]; lia. Qed.

Lemma witness_moved2 n t s : 0 < n -> s < n ->
  cface (turn_coord n t s (turn_coord n t s (witness n t s))) <> cface (witness n t s).
Proof.
  intros Hn Hs. destruct t; unfold witness; tc_go; try (exfalso; lia); cbn [fst snd cface]; lia.
Qed.

(** (2b) order exactly 4: the fourth power is the identity and the square is not *)
Theorem move_perm_Order4 n t s : 2 <= n -> s < n -> Order4 (move_perm n t s).
Proof.
  intros Hn Hs. set (p := move_perm n t s). set (N := 6 * (n * n)).
  assert (length p = N) as L by (apply move_perm_length; assumption).
  assert (forall i, i < N -> pstep p i = turn_fun n t s i) as Hp
    by (intros i Hi; apply pstep_move_perm; assumption).
  assert (forall i, i < N -> turn_fun n t s i < N) as Hlt by (intros; apply turn_fun_lt; lia).
  assert (forall i, i < N -> nth i (compose p p) 0 = turn_fun n t s (turn_fun n t s i)) as H2.
  { intros i Hi. rewrite compose_nth by lia. rewrite (Hp i Hi). apply Hp. auto. }
  split.
  - apply nth_ext' with (d := 0).
    + rewrite compose_length. unfold identity_perm. rewrite seq_length. reflexivity.
    + intros i Hi. rewrite compose_length, L in Hi.
      rewrite compose_nth by lia. rewrite Hp by exact Hi.
      unfold pstep. rewrite compose_nth by (rewrite L; auto). rewrite Hp by auto.
      unfold pstep. rewrite H2 by auto.
      unfold identity_perm. rewrite seq_nth by lia. apply turn_fun_order4; lia.
  - intros E.
    pose proof (witness_valid n t s ltac:(lia) Hs) as Hv.
    pose proof (sticker3_lt n _ Hv) as Hw. fold N in Hw.
    specialize (H2 _ Hw). rewrite E in H2. unfold identity_perm in H2. rewrite seq_nth in H2 by lia.
    cbn [Nat.add] in H2.
    rewrite !turn_fun_sticker3 in H2 by (repeat apply turn_coord_valid; auto; lia).
    apply sticker3_inj in H2; [|exact Hv|repeat apply turn_coord_valid; auto; lia].
    apply (witness_moved2 n t s); [lia|exact Hs|]. rewrite <- H2. reflexivity.
Qed.

(* the same at the level of the closed form: turn_fun^4 = id is [turn_fun_order4]; turn_fun^2 <> id: *)
Lemma turn_fun_square_not_id n t s : 0 < n -> s < n ->
  exists i, i < 6 * (n * n) /\ turn_fun n t s (turn_fun n t s i) <> i.
Proof.
  intros Hn Hs. pose proof (witness_valid n t s Hn Hs) as Hv.
  exists (sticker3 n (witness n t s)). split; [apply sticker3_lt; exact Hv|].
  rewrite !turn_fun_sticker3 by (repeat apply turn_coord_valid; auto).
  intros E. apply sticker3_inj in E; [|repeat apply turn_coord_valid; auto|exact Hv].
  apply (witness_moved2 n t s Hn Hs). rewrite E. reflexivity.
Qed.

(* disjoint supports commute (generic) *)
Lemma disjoint_supp_commute p q : Perm p -> Perm q -> length p = length q ->
  DisjointSupp p q -> compose p q = compose q p.
Proof.
  intros Pp Pq L HD. apply nth_ext' with (d := 0).
  - rewrite !compose_length. exact L.
  - intros i Hi. rewrite compose_length in Hi.
    rewrite !compose_nth by lia.
    destruct (Nat.eq_dec (pstep p i) i) as [Ep|Np]; destruct (Nat.eq_dec (pstep q i) i) as [Eq|Nq].
    + rewrite Ep, Eq, Ep. reflexivity.
    + (* q moves i: then q moves q[i], so p fixes q[i] *)
      rewrite Ep.
      assert (pstep q i < length q) as Hqi by (apply Perm_lt; [exact Pq|lia]).
      destruct (Nat.eq_dec (pstep p (pstep q i)) (pstep q i)) as [E|N]; [congruence|].
      exfalso. apply (HD (pstep q i)). split; [split; [lia|exact N]|].
      split; [exact Hqi|]. intros E. apply Nq. apply (Perm_inj q); auto; lia.
    + rewrite Eq.
      assert (pstep p i < length p) as Hpi by (apply Perm_lt; [exact Pp|lia]).
      destruct (Nat.eq_dec (pstep q (pstep p i)) (pstep p i)) as [E|N]; [congruence|].
      exfalso. apply (HD (pstep p i)). split; [|split; [lia|exact N]].
      split; [exact Hpi|]. intros E. apply Np. apply (Perm_inj p); auto; lia.
    + exfalso. apply (HD i). split; split; auto; lia.
Qed.

(* ---- the stickers of a layer, as an explicit list ---- *)

Lemma NoDup_list_prod {A B} (l : list A) (l' : list B) :
  NoDup l -> NoDup l' -> NoDup (list_prod l l').
Proof.
  intros N1 N2. induction N1 as [|a l Hn N1 IH]; cbn [list_prod]; [constructor|].
  apply NoDup_app_intro.
  - apply NoDup_map_inj; [exact N2|]. intros x y _ _ E. inversion E. reflexivity.
  - exact IH.
  - intros [x y] Hx Hy. apply in_map_iff in Hx as (b & E & _). inversion E; subst.
    apply in_prod_iff in Hy as [Hy _]. contradiction.
Qed.

Definition cells_row (n R : nat) : list (nat * nat) := map (fun k => (R, k)) (seq 0 n).
Definition cells_col (n C : nat) : list (nat * nat) := map (fun k => (k, C)) (seq 0 n).
Definition is_fixed_cell (n : nat) (rc : nat * nat) : bool :=
  (snd rc =? fst rc) && (n - 1 - fst rc =? snd rc).
(* all cells of a face except the fixed centre (which exists iff n is odd) *)
Definition cells_face (n : nat) : list (nat * nat) :=
  filter (fun rc => negb (is_fixed_cell n rc)) (list_prod (seq 0 n) (seq 0 n)).

Lemma is_fixed_cell_spec n r c : is_fixed_cell n (r, c) = true <-> fixed_cell n r c.
Proof.
  unfold is_fixed_cell, fixed_cell. cbn [fst snd]. rewrite andb_true_iff, !Nat.eqb_eq. reflexivity.
Qed.

Lemma In_cells_row n R r c : In (r, c) (cells_row n R) <-> r = R /\ c < n.
Proof.
  unfold cells_row. rewrite in_map_iff. split.
  - intros (k & E & Hk). apply in_seq in Hk. inversion E; subst. lia.
  - intros [-> Hc]. exists c. split; [reflexivity|apply in_seq; lia].
Qed.

Lemma In_cells_col n C r c : In (r, c) (cells_col n C) <-> c = C /\ r < n.
Proof.
  unfold cells_col. rewrite in_map_iff. split.
  - intros (k & E & Hk). apply in_seq in Hk. inversion E; subst. lia.
  - intros [-> Hr]. exists r. split; [reflexivity|apply in_seq; lia].
Qed.

Lemma In_cells_face n r c : In (r, c) (cells_face n) <-> r < n /\ c < n /\ ~ fixed_cell n r c.
Proof.
  unfold cells_face. rewrite filter_In, in_prod_iff, !in_seq, negb_true_iff.
  rewrite <- is_fixed_cell_spec. destruct (is_fixed_cell n (r, c)); intuition (try lia; congruence).
Qed.

Lemma NoDup_cells_row n R : NoDup (cells_row n R).
Proof. apply NoDup_map_inj; [apply seq_NoDup|]. intros x y _ _ E. inversion E. reflexivity. Qed.
Lemma NoDup_cells_col n C : NoDup (cells_col n C).
Proof. apply NoDup_map_inj; [apply seq_NoDup|]. intros x y _ _ E. inversion E. reflexivity. Qed.
Lemma NoDup_cells_face n : NoDup (cells_face n).
Proof. apply NoDup_filter. apply NoDup_list_prod; apply seq_NoDup. Qed.

Lemma length_cells_row n R : length (cells_row n R) = n.
Proof. unfold cells_row. rewrite map_length. apply seq_length. Qed.
Lemma length_cells_col n C : length (cells_col n C) = n.
Proof. unfold cells_col. rewrite map_length. apply seq_length. Qed.

Lemma filter_remove_one {A} (eqb : A -> A -> bool) (x : A) (l : list A) :
  (forall a b, eqb a b = true <-> a = b) -> NoDup l -> In x l ->
  length (filter (fun y => negb (eqb y x)) l) = length l - 1.
Proof.
  intros Heq ND Hin. induction ND as [|a l Hn ND IH]; [destruct Hin|].
  cbn [filter length]. destruct (eqb a x) eqn:E; cbn [negb].
  - apply Heq in E. subst a. rewrite filter_all; [lia|].
    intros y Hy. apply negb_true_iff. destruct (eqb y x) eqn:E'; [|reflexivity].
    apply Heq in E'. subst y. contradiction.
  - destruct Hin as [->|Hin].
    + assert (eqb x x = true) as E' by (apply Heq; reflexivity). congruence.
    + cbn [length]. rewrite IH by exact Hin. destruct l; [destruct Hin|cbn [length]; lia].
Qed.

Definition pair_nat_eqb (a b : nat * nat) : bool := (fst a =? fst b) && (snd a =? snd b).
Lemma pair_nat_eqb_eq a b : pair_nat_eqb a b = true <-> a = b.
Proof.
  destruct a as [a1 a2], b as [b1 b2]. unfold pair_nat_eqb. cbn [fst snd].
  rewrite andb_true_iff, !Nat.eqb_eq. split; [intros [-> ->]; reflexivity|intros E; inversion E; auto].
Qed.

(* n^2 cells, minus the centre when n is odd *)
Lemma length_cells_face n : length (cells_face n) = n * n - n mod 2.
Proof.
  unfold cells_face.
  pose proof (Nat.div_mod n 2 ltac:(lia)) as Hdm.
  pose proof (Nat.mod_upper_bound n 2 ltac:(lia)) as Hm.
  assert (length (list_prod (seq 0 n) (seq 0 n)) = n * n) as HL by (rewrite prod_length, seq_length; reflexivity).
  destruct (Nat.eq_dec (n mod 2) 0) as [E0|E1].
  - rewrite filter_all; [lia|]. intros [r c] Hin. apply negb_true_iff.
    destruct (is_fixed_cell n (r, c)) eqn:E; [|reflexivity].
    apply is_fixed_cell_spec in E. unfold fixed_cell in E.
    apply in_prod_iff in Hin as [H1 H2]. apply in_seq in H1, H2. lia.
  - set (m := n / 2) in *.
    rewrite (filter_ext_in _ (fun y => negb (pair_nat_eqb y (m, m)))).
    + rewrite (filter_remove_one pair_nat_eqb (m, m)); [lia|exact pair_nat_eqb_eq| |].
      * apply NoDup_list_prod; apply seq_NoDup.
      * apply in_prod_iff. split; apply in_seq; lia.
    + intros [r c] Hin. apply in_prod_iff in Hin as [H1 H2]. apply in_seq in H1, H2. f_equal.
      unfold is_fixed_cell, pair_nat_eqb. cbn [fst snd].
      destruct (Nat.eqb_spec c r); destruct (Nat.eqb_spec (n - 1 - r) c);
        destruct (Nat.eqb_spec r m); destruct (Nat.eqb_spec c m); cbn [andb]; try reflexivity; lia.
Qed.

(** the cells of face [f] that belong to layer [s] of a turn of type [t] *)
Definition layer_cells (n : nat) (t : mtype) (s f : nat) : list (nat * nat) :=
  match t with
  | MD =>
      match f with
      | 0 => if s =? n - 1 then cells_face n else []
      | 1 | 2 | 3 | 4 => cells_row n (n - 1 - s)
      | 5 => if s =? 0 then cells_face n else []
      | _ => []
      end
  | MF =>
      match f with
      | 0 => cells_row n (n - 1 - s)
      | 1 => if s =? 0 then cells_face n else []
      | 2 => cells_col n s
      | 3 => if s =? n - 1 then cells_face n else []
      | 4 => cells_col n (n - 1 - s)
      | 5 => cells_row n s
      | _ => []
      end
  | MR =>
      match f with
      | 0 | 1 | 5 => cells_col n s
      | 2 => if s =? n - 1 then cells_face n else []
      | 3 => cells_col n (n - 1 - s)
      | 4 => if s =? 0 then cells_face n else []
      | _ => []
      end
  end.

Definition tag_face (f : nat) (rc : nat * nat) : coord := (f, fst rc, snd rc).
Definition layer_coords (n : nat) (t : mtype) (s : nat) : list coord :=
  flat_map (fun f => map (tag_face f) (layer_cells n t s f)) (seq 0 6).
(** the stickers of layer [s]: 4n on the rim, plus a face without its centre for the two outer layers *)
Definition layer_stickers (n : nat) (t : mtype) (s : nat) : list nat :=
  map (sticker3 n) (layer_coords n t s).

Lemma NoDup_layer_cells n t s f : NoDup (layer_cells n t s f).
Proof.
  unfold layer_cells.
  destruct t; destruct f as [|[|[|[|[|[|f]]]]]]; try constructor;
    repeat match goal with |- context [if ?b then _ else _] => destruct b end;
    try constructor; auto using NoDup_cells_row, NoDup_cells_col, NoDup_cells_face.
Qed.

(* membership: exactly the valid cells the closed form moves *)
Lemma In_layer_cells n t s f r c : 2 <= n -> s < n -> f < 6 ->
  (In (r, c) (layer_cells n t s f) <-> r < n /\ c < n /\ tc n t s f r c <> (f, r, c)).
Proof.
  intros Hn Hs Hf. unfold layer_cells.
  faces6 f Hf; destruct t; cbn [tc];
    repeat match goal with |- context [if ?a =? ?b then _ else _] => destruct (Nat.eqb_spec a b) end;
    rewrite ?In_cells_row, ?In_cells_col, ?In_cells_face; unfold fixed_cell; cbn [In];
    (split; [intros H; repeat split; try lia; try (intros E; inversion E; lia)
            | intros (H1 & H2 & H3); repeat split; try lia;
              try (exfalso; apply H3; reflexivity);
              try (intros [? ?]; apply H3; repeat f_equal; lia) ]).
Qed.

Lemma In_layer_coords n t s p : 2 <= n -> s < n ->
  (In p (layer_coords n t s) <-> valid n p /\ turn_coord n t s p <> p).
Proof.
  intros Hn Hs. destruct p as [[f r] c]. unfold layer_coords, valid, turn_coord.
  cbn [fst snd cface crow ccol]. rewrite in_flat_map. split.
  - intros (f' & Hf' & Hin). apply in_seq in Hf'. apply in_map_iff in Hin as ([r' c'] & E & Hin).
    unfold tag_face in E. cbn [fst snd] in E. inversion E; subst.
    apply In_layer_cells in Hin; try lia. destruct Hin as (H1 & H2 & H3). repeat split; auto; lia.
  - intros ((Hf & Hr & Hc) & Hmv). exists f. split; [apply in_seq; lia|].
    apply in_map_iff. exists (r, c). split; [reflexivity|].
    apply In_layer_cells; auto.
Qed.

Lemma NoDup_tagged (cells : nat -> list (nat * nat)) l :
  NoDup l -> (forall f, NoDup (cells f)) ->
  NoDup (flat_map (fun f => map (tag_face f) (cells f)) l).
Proof.
  intros ND HC. induction ND as [|a l Hn ND IH]; cbn [flat_map]; [constructor|].
  apply NoDup_app_intro.
  - apply NoDup_map_inj; [apply HC|]. intros [x1 x2] [y1 y2] _ _ E. unfold tag_face in E. cbn [fst snd] in E.
    inversion E. reflexivity.
  - exact IH.
  - intros p Hp Hq. apply in_map_iff in Hp as (rc & <- & _).
    apply in_flat_map in Hq as (f' & Hf' & Hq). apply in_map_iff in Hq as (rc' & E & _).
    unfold tag_face in E. inversion E; subst. contradiction.
Qed.

Lemma NoDup_layer_coords n t s : NoDup (layer_coords n t s).
Proof. unfold layer_coords. apply NoDup_tagged; [apply seq_NoDup|]. intros f. apply NoDup_layer_cells. Qed.

Lemma NoDup_layer_stickers n t s : 2 <= n -> s < n -> NoDup (layer_stickers n t s).
Proof.
  intros Hn Hs. unfold layer_stickers. apply NoDup_map_inj; [apply NoDup_layer_coords|].
  intros p q Hp Hq. apply In_layer_coords in Hp as [Hp _]; auto. apply In_layer_coords in Hq as [Hq _]; auto.
  apply sticker3_inj; assumption.
Qed.

Lemma length_layer_stickers n t s : 2 <= n -> s < n ->
  length (layer_stickers n t s) = expected_moved n s.
Proof.
  intros Hn Hs. unfold layer_stickers, layer_coords. rewrite map_length.
  cbn [seq flat_map]. rewrite !app_length, !map_length. cbn [length].
  unfold expected_moved.
  assert (n mod 2 <= n * n) as Hm by (pose proof (Nat.mod_upper_bound n 2 ltac:(lia)); nia).
  destruct t; cbn [layer_cells];
    destruct (Nat.eqb_spec s 0); destruct (Nat.eqb_spec s (n - 1)); try (exfalso; lia); cbn [orb length];
    rewrite ?length_cells_row, ?length_cells_col, ?length_cells_face; lia.
Qed.

(** (2c) the support of the turn is exactly the layer *)
Theorem move_perm_support n t s x : 2 <= n -> s < n ->
  (In x (layer_stickers n t s) <-> Moved (move_perm n t s) x).
Proof.
  intros Hn Hs. unfold Moved. rewrite move_perm_length by assumption. unfold layer_stickers. split.
  - intros Hin. apply in_map_iff in Hin as (p & <- & Hp). apply In_layer_coords in Hp as [Hv Hmv]; auto.
    pose proof (sticker3_lt n p Hv) as Hlt. split; [exact Hlt|].
    rewrite pstep_move_perm by assumption. rewrite turn_fun_sticker3 by exact Hv.
    intros E. apply Hmv. apply sticker3_inj in E; auto. apply turn_coord_valid; auto; lia.
  - intros [Hx Hmv]. rewrite pstep_move_perm in Hmv by assumption.
    apply in_map_iff. exists (decode n x). split; [apply sticker3_decode; lia|].
    apply In_layer_coords; auto. split; [apply valid_decode; lia|].
    intros E. apply Hmv. unfold turn_fun. rewrite E. apply sticker3_decode. lia.
Qed.

(** (2d) number of moved stickers: 4n, plus n^2 - (n mod 2) for the two outer layers *)
Theorem move_perm_moved_count n t s : 2 <= n -> s < n ->
  moved_count (move_perm n t s) = expected_moved n s.
Proof.
  intros Hn Hs. rewrite <- length_layer_stickers with (t := t) by assumption.
  symmetry. apply moved_count_NoDup_list.
  - apply NoDup_layer_stickers; assumption.
  - intros x. apply move_perm_support; assumption.
Qed.

(* two different layers of one axis share no cell *)
Lemma layers_disjoint n t s s' p : 2 <= n -> s < n -> s' < n -> s <> s' -> valid n p ->
  turn_coord n t s p <> p -> turn_coord n t s' p <> p -> False.
Proof.
  destruct p as [[f r] c]. unfold valid. cbn [fst snd cface crow ccol].
  intros Hn Hs Hs' Hne (Hf & Hr & Hc) H1 H2.
  faces6 f Hf; destruct t; revert H1 H2; tc_go; intros H1 H2;
    try (apply H1; reflexivity); try (apply H2; reflexivity); lia.
Qed.

(** (2e) turns of one axis have disjoint supports ... *)
Theorem move_perm_disjoint n t s s' : 2 <= n -> s < n -> s' < n -> s <> s' ->
  DisjointSupp (move_perm n t s) (move_perm n t s').
Proof.
  intros Hn Hs Hs' Hne x [H1 H2].
  apply move_perm_support in H1, H2; auto. unfold layer_stickers in H1, H2.
  apply in_map_iff in H1 as (p & E1 & H1). apply in_map_iff in H2 as (q & E2 & H2).
  apply In_layer_coords in H1 as [V1 M1]; auto. apply In_layer_coords in H2 as [V2 M2]; auto.
  assert (p = q) by (apply (sticker3_inj n); auto; congruence). subst q.
  exact (layers_disjoint n t s s' p Hn Hs Hs' Hne V1 M1 M2).
Qed.

(** ... hence commute *)
Theorem move_perm_commute n t s s' : 2 <= n -> s < n -> s' < n ->
  compose (move_perm n t s) (move_perm n t s') = compose (move_perm n t s') (move_perm n t s).
Proof.
  intros Hn Hs Hs'. destruct (Nat.eq_dec s s') as [->|Hne]; [reflexivity|].
  apply disjoint_supp_commute.
  - apply move_perm_Perm; assumption.
  - apply move_perm_Perm; assumption.
  - rewrite !move_perm_length by assumption. reflexivity.
  - apply move_perm_disjoint; assumption.
Qed.

(* ---- the layers of one axis cover every sticker except the two axis centres (n odd) ---- *)
Definition layer_of (n : nat) (t : mtype) (f r c : nat) : nat :=
  match t with
  | MD => match f with 0 => n - 1 | 5 => 0 | _ => n - 1 - r end
  | MF => match f with 0 => n - 1 - r | 1 => 0 | 2 => c | 3 => n - 1 | 4 => n - 1 - c | _ => r end
  | MR => match f with 2 => n - 1 | 3 => n - 1 - c | 4 => 0 | _ => c end
  end.

Definition axis_centre_coord (n : nat) (t : mtype) (p : coord) : Prop :=
  fixed_cell n (crow p) (ccol p) /\
  (cface p = fst (axis_faces t) \/ cface p = snd (axis_faces t)).

Lemma fixed_cell_centre n r c : r < n -> c < n ->
  (fixed_cell n r c <-> Nat.odd n = true /\ r = n / 2 /\ c = n / 2).
Proof.
  intros Hr Hc. unfold fixed_cell. split.
  - intros [E1 E2]. assert (n = 2 * r + 1) as En by lia.
    assert (n / 2 = r) as Ed by (symmetry; apply Nat.div_unique with (r := 1); lia).
    split; [apply Nat.odd_spec; exists r; exact En|]. lia.
  - intros (Ho & -> & ->). apply Nat.odd_spec in Ho as [m Hm].
    assert (n / 2 = m) as Ed by (symmetry; apply Nat.div_unique with (r := 1); lia). lia.
Qed.

Lemma AxisCentre_coord n t p : 0 < n -> valid n p ->
  (AxisCentre n t (sticker3 n p) <-> axis_centre_coord n t p).
Proof.
  destruct p as [[f r] c]. unfold valid, AxisCentre, axis_centre_coord, centre, sticker3.
  cbn [fst snd cface crow ccol]. intros Hn (Hf & Hr & Hc).
  rewrite (fixed_cell_centre n r c Hr Hc).
  assert (n / 2 < n) as Hh by (apply Nat.div_lt; lia).
  split.
  - intros (Ho & [E|E]); apply sticker_inj in E; auto; destruct E as (E1 & E2 & E3); auto.
  - intros ((Ho & -> & ->) & [->| ->]); auto.
Qed.

Lemma axis_cover_coord n t p : 2 <= n -> valid n p ->
  ((exists s, s < n /\ turn_coord n t s p <> p) <-> ~ axis_centre_coord n t p).
Proof.
  destruct p as [[f r] c]. unfold valid, axis_centre_coord, fixed_cell. cbn [fst snd cface crow ccol].
  intros Hn (Hf & Hr & Hc). split.
  - intros (s & Hs & Hmv) ((F1 & F2) & Hax).
    faces6 f Hf; destruct t; cbn [axis_faces fst snd] in Hax; unfold_faces;
      try (exfalso; lia); revert Hmv; tc_go; intros Hmv; apply Hmv; repeat f_equal; lia.
  - intros Hnc. exists (layer_of n t f r c).
    faces6 f Hf; destruct t; cbn [layer_of axis_faces fst snd] in *; unfold_faces;
      (split; [lia|]); tc_go; try (exfalso; lia);
      intros E; inversion E; apply Hnc; split; lia.
Qed.

(** (2f) every sticker other than the two centres on the axis is moved by exactly the turns of its layer;
    in particular by some turn of the axis *)
Theorem axis_cover n t i : 2 <= n -> i < 6 * (n * n) ->
  ((exists s, s < n /\ Moved (move_perm n t s) i) <-> ~ AxisCentre n t i).
Proof.
  intros Hn Hi.
  pose proof (valid_decode n i ltac:(lia) Hi) as Hv.
  pose proof (sticker3_decode n i ltac:(lia)) as Ei.
  assert (AxisCentre n t i <-> axis_centre_coord n t (decode n i)) as HA.
  { rewrite <- Ei at 1. apply AxisCentre_coord; auto; lia. }
  rewrite HA. rewrite <- axis_cover_coord by assumption.
  split; intros (s & Hs & H); exists s; (split; [exact Hs|]).
  - apply move_perm_support in H; auto. unfold layer_stickers in H.
    apply in_map_iff in H as (p & E & Hp). apply In_layer_coords in Hp as [Vp Mp]; auto.
    assert (p = decode n i) by (apply (sticker3_inj n); auto; congruence). subst p. exact Mp.
  - apply move_perm_support; auto. unfold layer_stickers. apply in_map_iff.
    exists (decode n i). split; [exact Ei|]. apply In_layer_coords; auto.
Qed.

(* ====================================================================================== *)
(** * Summary statements *)

(** (1') the same theorem on coordinates: the sticker at (face f, row r, column c) goes to [tc n t s f r c] *)
Theorem move_perm_sticker n t s f r c : 2 <= n -> s < n -> f < 6 -> r < n -> c < n ->
  nth (sticker n f r c) (move_perm n t s) 0 = sticker3 n (tc n t s f r c).
Proof.
  intros Hn Hs Hf Hr Hc.
  assert (valid n (f, r, c)) as Hv by (unfold valid; cbn [fst snd cface crow ccol]; lia).
  change (sticker n f r c) with (sticker3 n (f, r, c)).
  rewrite move_perm_nth by (auto; apply sticker3_lt; exact Hv).
  apply turn_fun_sticker3. exact Hv.
Qed.

(* e.g. the d-turn of slice s: row n-1-s goes F -> L -> B -> R -> F, column unchanged *)
Corollary d_turn_ring n s k : 2 <= n -> s < n -> k < n ->
  let p := move_perm n MD s in
  nth (sticker n fF (n - 1 - s) k) p 0 = sticker n fL (n - 1 - s) k /\
  nth (sticker n fL (n - 1 - s) k) p 0 = sticker n fB (n - 1 - s) k /\
  nth (sticker n fB (n - 1 - s) k) p 0 = sticker n fR (n - 1 - s) k /\
  nth (sticker n fR (n - 1 - s) k) p 0 = sticker n fF (n - 1 - s) k.
Proof.
  intros Hn Hs Hk. cbv zeta. unfold_faces.
  rewrite !move_perm_sticker by lia. cbn [tc]. rewrite Nat.eqb_refl. auto.
Qed.

(* the two outer d-turns also turn a face: D by (r,c) -> (n-1-c, r), U by (r,c) -> (c, n-1-r) *)
Corollary d_turn_faces n r c : 2 <= n -> r < n -> c < n ->
  nth (sticker n fD r c) (move_perm n MD 0) 0 = sticker n fD (n - 1 - c) r /\
  nth (sticker n fU r c) (move_perm n MD (n - 1)) 0 = sticker n fU c (n - 1 - r).
Proof.
  intros Hn Hr Hc. unfold_faces. rewrite !move_perm_sticker by lia. cbn [tc]. rewrite !Nat.eqb_refl. auto.
Qed.

(** All of (2) for one turn, in the vocabulary of PuzzlesProofs.v ([MoveStructure] without the name). *)
Theorem move_perm_structure n t s : 2 <= n -> s < n ->
  let p := move_perm n t s in
  length p = 6 * (n * n) /\ Perm p /\ Order4 p /\ moved_count p = expected_moved n s /\
  NoDup (layer_stickers n t s) /\ (forall x, In x (layer_stickers n t s) <-> Moved p x).
Proof.
  intros Hn Hs. cbv zeta.
  split; [apply move_perm_length; assumption|].
  split; [apply move_perm_Perm; assumption|].
  split; [apply move_perm_Order4; assumption|].
  split; [apply move_perm_moved_count; assumption|].
  split; [apply NoDup_layer_stickers; assumption|].
  intros x. apply move_perm_support; assumption.
Qed.

(** The turns of one axis: pairwise commuting with pairwise disjoint supports, together moving
    everything but the two axis centres. *)
Theorem axis_structure_general n t : 2 <= n ->
  (forall s s', s < n -> s' < n -> s <> s' ->
     compose (move_perm n t s) (move_perm n t s') = compose (move_perm n t s') (move_perm n t s) /\
     DisjointSupp (move_perm n t s) (move_perm n t s')) /\
  (forall i, i < 6 * (n * n) ->
     ((exists s, s < n /\ pstep (move_perm n t s) i <> i) <-> ~ AxisCentre n t i)).
Proof.
  intros Hn. split.
  - intros s s' Hs Hs' Hne. split; [apply move_perm_commute; assumption|apply move_perm_disjoint; assumption].
  - intros i Hi. rewrite <- axis_cover by assumption.
    split; intros (s & Hs & H); exists s; (split; [exact Hs|]).
    + split; [rewrite move_perm_length by assumption; exact Hi|exact H].
    + destruct H as [_ H]. exact H.
Qed.

(* ====================================================================================== *)
(** * Non-vacuity examples (every hypothesis used above is satisfiable, on non-trivial instances) *)

(* Part A: consistent cycles may overlap / repeat (as the r-turn of an outer slice does) *)
Example ex_perm_of_cycles_sem :
  let f := fun x => match x with 0 => 1 | 1 => 2 | 2 => 0 | _ => x end in
  let cs := [[0; 1; 2]; [1; 2; 0]; [0; 1; 2]] in
  (forall c, In c cs -> Consistent f c) /\ (forall x, In x (concat cs) -> x < 5) /\
  perm_of_cycles 5 cs = [1; 2; 0; 3; 4].
Proof.
  cbv zeta. split; [|split; [|reflexivity]].
  - intros c [<-|[<-|[<-|[]]]] i Hi; cbn [length] in Hi; destruct i as [|[|[|i]]]; try lia; reflexivity.
  - intros x Hx. cbn in Hx. lia.
Qed.

Example ex_orbit4_consistent :
  let f := fun x => match x with 5 => 7 | 7 => 9 | 9 => 3 | 3 => 5 | _ => x end in
  f (f (f (f 5))) = 5 /\ orbit4 f 5 = [5; 7; 9; 3].
Proof. split; reflexivity. Qed.

(* Part B *)
Example ex_coords : valid 3 (4, 2, 1) /\ sticker3 3 (4, 2, 1) = 43 /\ decode 3 43 = (4, 2, 1) /\ 43 < 6 * (3 * 3).
Proof. unfold valid. cbn. repeat split; lia. Qed.

(* Part C: for n = 3 the face U has two 4-orbits and the centre (1,1) is fixed and skipped *)
Example ex_rotate_face :
  rotate_face_cw 3 0 = [face_orbit 3 0 0 0; face_orbit 3 0 0 1] /\
  fixed_cell 3 1 1 /\ ~ fixed_cell 3 0 1 /\ 0 < 3 /\ 1 < 3 /\
  In (face_orbit 3 0 0 1) (rotate_face_cw 3 0) /\
  In (sticker 3 0 0 1) (concat (rotate_face_cw 3 0)) /\
  ~ In (sticker 3 0 1 1) (concat (rotate_face_cw 3 0)).
Proof.
  unfold fixed_cell. repeat split; try lia; try reflexivity.
  - vm_compute. auto.
  - vm_compute. auto 10.
  - vm_compute. intuition lia.
Qed.

(* Part D/E/F: n = 3 (odd: centres exist), an outer and an inner slice *)
Example ex_move_perm_nth :
  2 <= 3 /\ 0 < 3 /\ 47 < 6 * (3 * 3) /\
  nth 47 (move_perm 3 MD 0) 0 = turn_fun 3 MD 0 47 /\ turn_fun 3 MD 0 47 = 45 /\
  nth 49 (move_perm 3 MD 0) 0 = 49 /\                       (* the centre of D stays *)
  nth 24 (move_perm 3 MD 0) 0 = turn_fun 3 MD 0 24 /\ turn_fun 3 MD 0 24 = 15.
Proof. vm_compute. repeat split; lia. Qed.

Example ex_cycles_form_cover :
  In [15; 42; 33; 24] (move_cycles 3 MD 0) /\
  [15; 42; 33; 24] = orbit4 (turn_fun 3 MD 0) (sticker3 3 (1, 2, 0)) /\ valid 3 (1, 2, 0) /\
  turn_coord 3 MD 0 (1, 2, 0) <> (1, 2, 0) /\ In (sticker3 3 (1, 2, 0)) (concat (move_cycles 3 MD 0)).
Proof.
  unfold valid. cbn [fst snd cface crow ccol]. repeat split; try lia; try (vm_compute; auto 20; fail).
  vm_compute. intros E; inversion E.
Qed.

Example ex_structure_instances :
  expected_moved 3 0 = 20 /\ expected_moved 3 1 = 12 /\ expected_moved 4 3 = 32 /\
  moved_count (move_perm 3 MR 2) = 20 /\ moved_count (move_perm 3 MF 1) = 12 /\
  length (layer_stickers 4 MR 3) = 32 /\
  (1 <> 2 /\ 1 < 3 /\ 2 < 3 /\ commute (move_perm 3 MF 1) (move_perm 3 MF 2) = true) /\
  (* different axes do NOT commute: the statement is not trivially true of any two turns *)
  commute (move_perm 3 MF 0) (move_perm 3 MD 0) = false /\
  (* witnesses for both sides of axis_cover *)
  AxisCentre 3 MD (centre 3 fD) /\ ~ AxisCentre 3 MD (centre 3 fF) /\ centre 3 fF < 6 * (3 * 3) /\
  Moved (move_perm 3 MD 1) (centre 3 fF).
Proof.
  repeat split; try (vm_compute; auto; lia); try (vm_compute; discriminate).
  all: try (vm_compute; intros [_ [H|H]]; discriminate).
Qed.

Example ex_disjoint_supp_commute :
  Perm [1; 0; 2; 3] /\ Perm [0; 1; 3; 2] /\ DisjointSupp [1; 0; 2; 3] [0; 1; 3; 2] /\
  compose [1; 0; 2; 3] [0; 1; 3; 2] = compose [0; 1; 3; 2] [1; 0; 2; 3].
Proof.
  split; [apply is_perm_iff; reflexivity|]. split; [apply is_perm_iff; reflexivity|].
  split; [apply disjoint_supp_meaning; reflexivity|reflexivity].
Qed.

Print Assumptions perm_of_cycles_sem.
Print Assumptions rotate_face_cw_form.
Print Assumptions rotate_face_cw_cover.
Print Assumptions rotate_face_cw_NoDup.
Print Assumptions move_cycles_form.
Print Assumptions move_cycles_cover.
Print Assumptions move_perm_nth.
Print Assumptions move_perm_eq.
Print Assumptions move_perm_sticker.
Print Assumptions move_perm_Perm.
Print Assumptions move_perm_Order4.
Print Assumptions turn_fun_order4.
Print Assumptions turn_fun_square_not_id.
Print Assumptions move_perm_support.
Print Assumptions move_perm_moved_count.
Print Assumptions move_perm_disjoint.
Print Assumptions move_perm_commute.
Print Assumptions axis_cover.
Print Assumptions move_perm_structure.
Print Assumptions axis_structure_general.
Print Assumptions d_turn_ring.
Print Assumptions d_turn_faces.
