(** P11 (C): the ALL-TRANSPOSITIONS growth function (datasets.py: _compute_all_transpositions_cayley_growth,
    _stirling).  Models and the Coxeter part (A), (B): GrowthFormulas.v (compile that file first).

    States are arrangements of n distinct symbols (lists), start state [seq 0 n]; a generator swaps the
    entries at two positions i < j < n ([swap_at]).  Everything is stated against [Graph.layer] /
    [Graph.dist_is] (layers = distance classes, GraphProofs.ref_layers_dist) for ANY generator list made of
    exactly these swaps ([transposition_gens]); two instances: the literal list [transp_gens n] and the
    generators of the Families.v model [all_transpositions n] acting through [apply_perm]
    (FamiliesProofs.all_transpositions_documented).

    Results, for EVERY n:
    - [tw_swap_pm1] / [transposition_changes_cycles_by_one]: a transposition changes the number of cycles by
      exactly one ([tw n t] = n - #cycles, defined by splicing out the largest symbol);
    - [all_transpositions_distance], [all_transpositions_distance_cycles]:
      distance from the identity arrangement = n - (number of cycles), the number of cycles being
      [length (Perm.cycle_type t)] = the number of cycles of any [ClassEnumCycles.CycleDecomp] of t
      ([tw_cycles], [tw_cycles_decomp]);
    - [tw_count_stirling]: #(arrangements with n-k cycles) = c(n, n-k), unsigned Stirling numbers of the
      first kind, by the recurrence c(n+1,k) = n c(n,k) + c(n,k-1);
    - [all_transpositions_growth_correct]: for n >= 1 and every k the number of states at distance exactly k
      is [nth k (all_transpositions_growth n) 0]; the row has exactly n terms, none zero
      ([all_transpositions_growth_nonzero_terms], [all_transpositions_layer_nonempty_iff]: diameter n-1).
    (n = 0 is excluded only because Python returns the empty row there while the graph has one state.) *)
From V Require Import Base Perm PermProofs PermCycles Def Families Graph GraphProofs FamiliesProofs
  RefBfs RefBfsProofs RefBfsRun ClassEnumCycles GrowthFormulas.
From Coq Require Import ZArith NArith List Bool Arith Lia Sorting.Mergesort Sorting.Permutation Sorting.Sorted.
Import ListNotations.
Open Scope nat_scope.

(* ============================================================================================== *)
(** * Arrangements of 0..n-1, positionally *)

Definition isperm (n : nat) (t : list nat) : Prop :=
  length t = n /\
  (forall k, k < n -> nth k t 0 < n) /\
  (forall a b, a < n -> b < n -> nth a t 0 = nth b t 0 -> a = b).

Lemma isperm_iff n t : isperm n t <-> Permutation t (seq 0 n).
Proof.
  split.
  - intros (L & Hlt & Hinj). subst n. apply NoDup_lt_Perm.
    + apply (NoDup_nth t 0). exact Hinj.
    + intros x Hx. apply (In_nth _ _ 0) in Hx as (k & Hk & <-). now apply Hlt.
  - intros P. pose proof (perm_seq_length _ _ P) as L. subst n. split; [reflexivity|]. split.
    + intros k Hk. now apply Perm_lt.
    + intros a b Ha Hb. now apply Perm_inj.
Qed.

Lemma isperm_surj n t v : isperm n t -> v < n -> exists p, p < n /\ nth p t 0 = v.
Proof.
  intros H Hv. pose proof H as (L & _ & _). apply isperm_iff in H. subst n. now apply Perm_surj.
Qed.

Lemma isperm_id n : isperm n (seq 0 n).
Proof. apply isperm_iff, Permutation_refl. Qed.

(* ---------- swap_at, positionally ---------- *)
Lemma swap_at_length {A} (d : A) x i j : length (swap_at d x i j) = length x.
Proof. unfold swap_at. now rewrite !upd_length. Qed.

Lemma swap_at_nth {A} (d : A) x i j k : i < length x -> j < length x ->
  nth k (swap_at d x i j) d = if k =? j then nth i x d else if k =? i then nth j x d else nth k x d.
Proof.
  intros Hi Hj. unfold swap_at.
  destruct (Nat.eqb_spec k j) as [->|Nj].
  - rewrite nth_upd_same by (rewrite upd_length; exact Hj). reflexivity.
  - rewrite nth_upd_other by congruence.
    destruct (Nat.eqb_spec k i) as [->|Ni].
    + rewrite nth_upd_same by exact Hi. reflexivity.
    + rewrite nth_upd_other by congruence. reflexivity.
Qed.

Lemma swap_at_sym {A} (d : A) x i j : i < length x -> j < length x ->
  swap_at d x i j = swap_at d x j i.
Proof.
  intros Hi Hj. apply nth_ext' with (d := d); [now rewrite !swap_at_length|].
  intros k _. rewrite !swap_at_nth by assumption.
  destruct (Nat.eqb_spec k j) as [Ej|Nj], (Nat.eqb_spec k i) as [Ei|Ni]; subst; reflexivity.
Qed.

Lemma swap_at_involutive {A} (d : A) x i j : i < length x -> j < length x ->
  swap_at d (swap_at d x i j) i j = x.
Proof.
  intros Hi Hj. apply nth_ext' with (d := d); [now rewrite !swap_at_length|].
  intros k _. rewrite !swap_at_nth by (rewrite ?swap_at_length; assumption).
  rewrite !Nat.eqb_refl.
  destruct (Nat.eqb_spec k j) as [Ej|Nj], (Nat.eqb_spec k i) as [Ei|Ni],
    (Nat.eqb_spec i j) as [E|Nij]; subst; try reflexivity; congruence.
Qed.

Lemma isperm_swap n t i j : isperm n t -> i < n -> j < n -> isperm n (swap_at 0 t i j).
Proof.
  intros (L & Hlt & Hinj) Hi Hj. subst n. split; [apply swap_at_length|]. split.
  - intros k Hk. rewrite swap_at_nth by assumption.
    destruct (k =? j); [|destruct (k =? i)]; now apply Hlt.
  - intros a b Ha Hb. rewrite !swap_at_nth by assumption. intros E.
    destruct (Nat.eqb_spec a j) as [Eaj|Naj], (Nat.eqb_spec b j) as [Ebj|Nbj],
      (Nat.eqb_spec a i) as [Eai|Nai], (Nat.eqb_spec b i) as [Ebi|Nbi]; subst; try reflexivity;
    apply Hinj in E; try assumption; congruence.
Qed.

Lemma nth_firstn_lt {A} (d : A) m : forall (t : list A) k, k < m -> nth k (firstn m t) d = nth k t d.
Proof.
  induction m as [|m IH]; intros t k Hk; [lia|].
  destruct t as [|x t]; [reflexivity|]. destruct k as [|k]; [reflexivity|].
  cbn [firstn nth]. apply IH. lia.
Qed.

(* ============================================================================================== *)
(** * Splicing the largest symbol out of its cycle *)

(* t an arrangement of 0..m: the arrangement of 0..m-1 in which the predecessor of m (the position
   holding m) points to the successor of m (the entry at position m) *)
Definition reduce (m : nat) (t : list nat) : list nat :=
  map (fun y => if y =? m then nth m t 0 else y) (firstn m t).

Lemma reduce_length m t : length t = S m -> length (reduce m t) = m.
Proof. intros L. unfold reduce. rewrite map_length, firstn_length. lia. Qed.

Lemma reduce_nth m t k : length t = S m -> k < m ->
  nth k (reduce m t) 0 = if nth k t 0 =? m then nth m t 0 else nth k t 0.
Proof.
  intros L Hk. unfold reduce.
  rewrite (nth_map_lt _ _ k 0) by (rewrite firstn_length; lia).
  now rewrite nth_firstn_lt.
Qed.

Lemma isperm_reduce m t : isperm (S m) t -> isperm m (reduce m t).
Proof.
  intros (L & Hlt & Hinj). split; [now apply reduce_length|]. split.
  - intros k Hk. rewrite reduce_nth by assumption.
    destruct (Nat.eqb_spec (nth k t 0) m) as [E|NE].
    + pose proof (Hlt m (Nat.lt_succ_diag_r m)) as H.
      assert (nth m t 0 <> m); [|lia]. intros E'. assert (k = m) by (apply Hinj; lia). lia.
    + pose proof (Hlt k) as H. lia.
  - intros a b Ha Hb. rewrite !reduce_nth by assumption.
    destruct (Nat.eqb_spec (nth a t 0) m) as [Ea|Na], (Nat.eqb_spec (nth b t 0) m) as [Eb|Nb]; intros E.
    + apply Hinj; lia.
    + apply Hinj in E; lia.
    + apply Hinj in E; lia.
    + apply Hinj; lia.
Qed.

(* n minus the number of cycles, by splicing out n-1, n-2, ..., 0 in turn: each symbol that is not a
   fixed point at the time it is spliced out contributes 1 *)
Fixpoint tw (n : nat) (t : list nat) : nat :=
  match n with
  | O => 0
  | S m => (if nth m t 0 =? m then 0 else 1) + tw m (reduce m t)
  end.

(* ---------- how a swap of two positions interacts with the splicing ---------- *)
Section SwapReduce.
  Variable m : nat.
  Variable t : list nat.
  Hypothesis Ht : isperm (S m) t.

  Let L : length t = S m := proj1 Ht.
  Let Hlt : forall k, k < S m -> nth k t 0 < S m := proj1 (proj2 Ht).
  Let Hinj : forall a b, a < S m -> b < S m -> nth a t 0 = nth b t 0 -> a = b := proj2 (proj2 Ht).

  (* both positions below m: the last entry stays, the swap commutes with the splicing *)
  Lemma swap_reduce_low i j : i < m -> j < m ->
    nth m (swap_at 0 t i j) 0 = nth m t 0 /\
    reduce m (swap_at 0 t i j) = swap_at 0 (reduce m t) i j.
  Proof.
    intros Hi Hj. split.
    - rewrite swap_at_nth by lia.
      destruct (Nat.eqb_spec m j); [lia|]. destruct (Nat.eqb_spec m i); [lia|]. reflexivity.
    - apply nth_ext' with (d := 0).
      + rewrite swap_at_length, !reduce_length; [reflexivity|exact L|now rewrite swap_at_length].
      + intros k Hk. rewrite reduce_length in Hk by now rewrite swap_at_length.
        rewrite reduce_nth by (rewrite ?swap_at_length; assumption).
        rewrite (swap_at_nth 0 (reduce m t)) by (rewrite reduce_length; assumption).
        rewrite !reduce_nth by assumption.
        rewrite !swap_at_nth by lia.
        destruct (Nat.eqb_spec m j); [lia|]. destruct (Nat.eqb_spec m i); [lia|].
        destruct (Nat.eqb_spec k j); [reflexivity|]. destruct (Nat.eqb_spec k i); reflexivity.
  Qed.

  (* position i < m against position m, when m is a fixed point: m joins the cycle of i *)
  Lemma swap_reduce_fixed i : i < m -> nth m t 0 = m ->
    nth m (swap_at 0 t i m) 0 <> m /\ reduce m (swap_at 0 t i m) = reduce m t.
  Proof.
    intros Hi Hm. split.
    - rewrite swap_at_nth by lia. rewrite Nat.eqb_refl. intros E.
      assert (i = m) by (apply Hinj; lia). lia.
    - apply nth_ext' with (d := 0).
      + rewrite !reduce_length; [reflexivity|exact L|now rewrite swap_at_length].
      + intros k Hk. rewrite reduce_length in Hk by now rewrite swap_at_length.
        rewrite !reduce_nth by (rewrite ?swap_at_length; assumption).
        rewrite !swap_at_nth by lia. rewrite Nat.eqb_refl.
        destruct (Nat.eqb_spec k m); [lia|].
        assert (nth k t 0 <> m) as Nk by (intros E; assert (k = m) by (apply Hinj; lia); lia).
        destruct (Nat.eqb_spec k i) as [->|Nki].
        * rewrite Hm, Nat.eqb_refl. destruct (Nat.eqb_spec (nth i t 0) m); [congruence|reflexivity].
        * destruct (Nat.eqb_spec (nth k t 0) m); [congruence|reflexivity].
  Qed.

  (* position i < m holding m against position m: m becomes a fixed point *)
  Lemma swap_reduce_pred i : i < m -> nth i t 0 = m ->
    nth m t 0 <> m /\ nth m (swap_at 0 t i m) 0 = m /\ reduce m (swap_at 0 t i m) = reduce m t.
  Proof.
    intros Hi Him.
    assert (nth m t 0 <> m) as Nm by (intros E; assert (i = m) by (apply Hinj; lia); lia).
    split; [exact Nm|]. split.
    - rewrite swap_at_nth by lia. now rewrite Nat.eqb_refl.
    - apply nth_ext' with (d := 0).
      + rewrite !reduce_length; [reflexivity|exact L|now rewrite swap_at_length].
      + intros k Hk. rewrite reduce_length in Hk by now rewrite swap_at_length.
        rewrite !reduce_nth by (rewrite ?swap_at_length; assumption).
        rewrite !swap_at_nth by lia. rewrite Nat.eqb_refl.
        destruct (Nat.eqb_spec k m); [lia|].
        destruct (Nat.eqb_spec k i) as [->|Nki].
        * rewrite Him, Nat.eqb_refl. destruct (Nat.eqb_spec (nth m t 0) m); [congruence|reflexivity].
        * assert (nth k t 0 <> m) as Nk by (intros E; assert (k = i) by (apply Hinj; lia); lia).
          destruct (Nat.eqb_spec (nth k t 0) m); [congruence|reflexivity].
  Qed.

  (* position i < m against position m, in general position: a swap (i p) of the spliced arrangement,
     p the position holding m *)
  Lemma swap_reduce_other i p : i < m -> p < m -> nth p t 0 = m -> i <> p ->
    nth m t 0 <> m /\ nth m (swap_at 0 t i m) 0 <> m /\
    reduce m (swap_at 0 t i m) = swap_at 0 (reduce m t) i p.
  Proof.
    intros Hi Hp Hpm Nip.
    assert (nth m t 0 <> m) as Nm by (intros E; assert (p = m) by (apply Hinj; lia); lia).
    assert (nth i t 0 <> m) as Ni by (intros E; assert (i = p) by (apply Hinj; lia); lia).
    split; [exact Nm|]. split.
    - rewrite swap_at_nth by lia. now rewrite Nat.eqb_refl.
    - apply nth_ext' with (d := 0).
      + rewrite swap_at_length, !reduce_length; [reflexivity|exact L|now rewrite swap_at_length].
      + intros k Hk. rewrite reduce_length in Hk by now rewrite swap_at_length.
        rewrite reduce_nth by (rewrite ?swap_at_length; assumption).
        rewrite (swap_at_nth 0 (reduce m t)) by (rewrite reduce_length; assumption).
        rewrite !reduce_nth by assumption.
        rewrite !swap_at_nth by lia. rewrite Nat.eqb_refl, Hpm, Nat.eqb_refl.
        destruct (Nat.eqb_spec k m); [lia|].
        destruct (Nat.eqb_spec (nth i t 0) m); [congruence|].
        destruct (Nat.eqb_spec k p) as [->|Nkp].
        * destruct (Nat.eqb_spec p i); [congruence|]. rewrite Hpm, Nat.eqb_refl. reflexivity.
        * destruct (Nat.eqb_spec k i) as [->|Nki].
          -- destruct (Nat.eqb_spec (nth m t 0) m); [congruence|reflexivity].
          -- assert (nth k t 0 <> m) as Nk by (intros E; assert (k = p) by (apply Hinj; lia); lia).
             destruct (Nat.eqb_spec (nth k t 0) m); [congruence|reflexivity].
  Qed.
End SwapReduce.

(** a transposition changes [tw] (n minus the number of cycles) by exactly one *)
Lemma tw_swap_top m t i :
  (forall t' a b, isperm m t' -> a < m -> b < m -> a <> b ->
     tw m (swap_at 0 t' a b) = S (tw m t') \/ S (tw m (swap_at 0 t' a b)) = tw m t') ->
  isperm (S m) t -> i < m ->
  tw (S m) (swap_at 0 t i m) = S (tw (S m) t) \/ S (tw (S m) (swap_at 0 t i m)) = tw (S m) t.
Proof.
  intros IH Ht Hi. cbn [tw].
  destruct (Nat.eq_dec (nth m t 0) m) as [Em|Nm].
  - destruct (swap_reduce_fixed m t Ht i Hi Em) as [N1 ->].
    rewrite Em, Nat.eqb_refl. destruct (Nat.eqb_spec (nth m (swap_at 0 t i m) 0) m); [congruence|].
    left. lia.
  - destruct (Nat.eq_dec (nth i t 0) m) as [Ei|Ni].
    + destruct (swap_reduce_pred m t Ht i Hi Ei) as (_ & -> & ->).
      rewrite Nat.eqb_refl. destruct (Nat.eqb_spec (nth m t 0) m); [congruence|]. right. lia.
    + destruct (isperm_surj (S m) t m Ht (Nat.lt_succ_diag_r m)) as (p & Hp & Hpm).
      assert (p <> m) by congruence. assert (i <> p) by congruence.
      destruct (swap_reduce_other m t Ht i p Hi) as (_ & N2 & ->); [lia|exact Hpm|assumption|].
      destruct (Nat.eqb_spec (nth m (swap_at 0 t i m) 0) m); [congruence|].
      destruct (Nat.eqb_spec (nth m t 0) m); [congruence|].
      destruct (IH (reduce m t) i p) as [E|E]; [now apply isperm_reduce|lia|lia|assumption|left|right]; lia.
Qed.

Theorem tw_swap_pm1 n : forall t i j, isperm n t -> i < n -> j < n -> i <> j ->
  tw n (swap_at 0 t i j) = S (tw n t) \/ S (tw n (swap_at 0 t i j)) = tw n t.
Proof.
  induction n as [|m IH]; intros t i j Ht Hi Hj Nij; [lia|].
  pose proof Ht as (L & _ & _).
  destruct (Nat.eq_dec j m) as [->|Njm].
  - apply tw_swap_top; [exact IH|exact Ht|lia].
  - destruct (Nat.eq_dec i m) as [->|Nim].
    + rewrite swap_at_sym by lia. apply tw_swap_top; [exact IH|exact Ht|lia].
    + destruct (swap_reduce_low m t Ht i j) as [E1 E2]; [lia|lia|].
      cbn [tw]. rewrite E1, E2.
      destruct (IH (reduce m t) i j) as [E|E]; [now apply isperm_reduce|lia|lia|assumption|left|right]; lia.
Qed.

(* the identity has weight 0 and is the only arrangement of weight 0 *)
Lemma reduce_seq m : reduce m (seq 0 (S m)) = seq 0 m.
Proof.
  apply nth_ext' with (d := 0).
  - rewrite reduce_length, seq_length; [reflexivity|now rewrite seq_length].
  - intros k Hk. rewrite reduce_length in Hk by now rewrite seq_length.
    rewrite reduce_nth by (rewrite ?seq_length; lia). rewrite !seq_nth by lia.
    destruct (Nat.eqb_spec (0 + k) m); [lia|reflexivity].
Qed.

Lemma tw_seq n : tw n (seq 0 n) = 0.
Proof.
  induction n as [|m IH]; [reflexivity|].
  cbn [tw]. rewrite reduce_seq, IH, seq_nth by lia. now rewrite Nat.eqb_refl.
Qed.

Lemma tw_zero_id n : forall t, isperm n t -> tw n t = 0 -> t = seq 0 n.
Proof.
  induction n as [|m IH]; intros t Ht H0.
  - destruct Ht as (L & _). destruct t; [reflexivity|discriminate].
  - cbn [tw] in H0. destruct (Nat.eqb_spec (nth m t 0) m) as [Em|]; [|lia].
    pose proof (IH (reduce m t) (isperm_reduce m t Ht)) as E. specialize (E ltac:(lia)).
    destruct Ht as (L & Hlt & Hinj).
    apply nth_ext' with (d := 0); [now rewrite seq_length|].
    intros k Hk. rewrite L in Hk. rewrite seq_nth by lia. cbn [Nat.add].
    destruct (Nat.eq_dec k m) as [->|Nk]; [exact Em|].
    assert (nth k (reduce m t) 0 = k) as Ek by (rewrite E, seq_nth by lia; reflexivity).
    rewrite reduce_nth in Ek by lia.
    destruct (Nat.eqb_spec (nth k t 0) m) as [E'|]; [|exact Ek].
    assert (k = m) by (apply Hinj; lia). lia.
Qed.

(* an arrangement other than the identity has a transposition that lowers the weight *)
Lemma tw_descent n : forall t, isperm n t -> 0 < tw n t ->
  exists i j, i < j < n /\ S (tw n (swap_at 0 t i j)) = tw n t.
Proof.
  induction n as [|m IH]; intros t Ht Hpos; [cbn in Hpos; lia|].
  cbn [tw] in Hpos.
  destruct (Nat.eq_dec (nth m t 0) m) as [Em|Nm].
  - rewrite Em, Nat.eqb_refl in Hpos.
    destruct (IH (reduce m t) (isperm_reduce m t Ht)) as (i & j & Hij & E); [lia|].
    exists i, j. split; [lia|].
    destruct (swap_reduce_low m t Ht i j) as [E1 E2]; [lia|lia|].
    cbn [tw]. rewrite E1, E2. lia.
  - destruct (isperm_surj (S m) t m Ht (Nat.lt_succ_diag_r m)) as (p & Hp & Hpm).
    assert (p <> m) by congruence.
    exists p, m. split; [lia|].
    destruct (swap_reduce_pred m t Ht p) as (_ & E1 & E2); [lia|exact Hpm|].
    cbn [tw]. rewrite E1, E2, Nat.eqb_refl.
    destruct (Nat.eqb_spec (nth m t 0) m); [congruence|]. lia.
Qed.

(* ============================================================================================== *)
(** * (C.i) distance from the identity arrangement under all transpositions *)

(* the generator list consists of exactly the swaps of two positions i < j < n *)
Definition transposition_gens (n : nat) (gens : list (list nat -> list nat)) : Prop :=
  (forall g, In g gens -> exists i j, i < j < n /\ forall x, length x = n -> g x = swap_at 0 x i j) /\
  (forall i j, i < j < n -> exists g, In g gens /\ forall x, length x = n -> g x = swap_at 0 x i j).

(* the literal generator list: one swap for each pair, in the order of FamiliesProofs.pairs *)
Definition transp_gens (n : nat) : list (list nat -> list nat) :=
  map (fun ij x => swap_at 0 x (fst ij) (snd ij)) (pairs n).

Lemma transp_gens_ok n : transposition_gens n (transp_gens n).
Proof.
  split.
  - intros g Hg. apply in_map_iff in Hg as ([i j] & <- & Hij). apply in_pairs in Hij.
    exists i, j. split; [exact Hij|]. intros x _. reflexivity.
  - intros i j Hij. exists (fun x => swap_at 0 x i j). split.
    + apply in_map_iff. exists (i, j). split; [reflexivity|]. now apply in_pairs.
    + intros x _. reflexivity.
Qed.

Section AllTranspositions.
  Variable n : nat.
  Variable gens : list (list nat -> list nat).
  Hypothesis Hgens : transposition_gens n gens.

  Lemma transp_gen_step g x : In g gens -> isperm n x ->
    isperm n (g x) /\ (tw n (g x) = S (tw n x) \/ S (tw n (g x)) = tw n x).
  Proof.
    intros Hg P. destruct Hgens as [H1 _]. destruct (H1 g Hg) as (i & j & Hij & E).
    rewrite (E x (proj1 P)). split.
    - apply isperm_swap; [exact P|lia|lia].
    - apply tw_swap_pm1; [exact P|lia|lia|lia].
  Qed.

  Lemma transp_reach_tw_le k t : reach (list nat) gens [seq 0 n] k t -> isperm n t /\ tw n t <= k.
  Proof.
    induction 1 as [s Hs|k x g _ [IHP IHk] Hg].
    - destruct Hs as [<-|[]]. split; [apply isperm_id|]. rewrite tw_seq. apply Nat.le_refl.
    - destruct (transp_gen_step g x Hg IHP) as [P [E|E]]; split; try exact P; lia.
  Qed.

  Lemma transp_reach_tw t : isperm n t -> reach (list nat) gens [seq 0 n] (tw n t) t.
  Proof.
    remember (tw n t) as w eqn:Ew. revert t Ew. induction w as [|w IH]; intros t Ew P.
    - rewrite (tw_zero_id n t P) by now symmetry. apply reach0. now left.
    - destruct (tw_descent n t P) as (i & j & Hij & E); [lia|].
      pose proof (isperm_swap n t i j P) as P'. specialize (P' ltac:(lia) ltac:(lia)).
      destruct Hgens as [_ H2]. destruct (H2 i j Hij) as (g & Hg & Eg).
      replace t with (g (swap_at 0 t i j)).
      + apply reachS; [|exact Hg]. apply IH; [lia|exact P'].
      + rewrite Eg by exact (proj1 P'). apply swap_at_involutive; rewrite (proj1 P); lia.
  Qed.

  (** distance from [seq 0 n] = [tw] = n - (number of cycles) (see [tw_cycles] below), on exactly the
      arrangements of 0..n-1 *)
  Theorem all_transpositions_distance t d :
    dist_is (list nat) gens [seq 0 n] t d <-> Permutation t (seq 0 n) /\ tw n t = d.
  Proof.
    rewrite <- isperm_iff. split.
    - intros [R Hmin]. destruct (transp_reach_tw_le d t R) as [P Hle]. split; [exact P|].
      destruct (Nat.eq_dec (tw n t) d) as [E|NE]; [exact E|exfalso].
      apply (Hmin (tw n t)); [lia|]. now apply transp_reach_tw.
    - intros [P <-]. split; [now apply transp_reach_tw|].
      intros k Hk R. apply transp_reach_tw_le in R. lia.
  Qed.

  Corollary all_transpositions_layer_spec t k :
    In t (layer (list nat) lnat_eq_dec gens [seq 0 n] k) <-> isperm n t /\ tw n t = k.
  Proof.
    rewrite (ref_layers_dist (list nat) lnat_eq_dec gens), isperm_iff. apply all_transpositions_distance.
  Qed.
End AllTranspositions.

(* ============================================================================================== *)
(** * (C.ii) counting arrangements by weight: splice the largest symbol back in *)

(* the inverse of [reduce]: m goes to position c < m (into the cycle of c, after c) or, for c = m,
   becomes a fixed point *)
Definition expand (m c : nat) (r : list nat) : list nat :=
  upd r c m ++ [if c <? m then nth c r 0 else m].

Lemma expand_length m c r : length r = m -> length (expand m c r) = S m.
Proof. intros L. unfold expand. rewrite app_length, upd_length. cbn. lia. Qed.

Lemma expand_nth m c r k : length r = m -> c <= m -> k <= m ->
  nth k (expand m c r) 0 =
  if k =? m then (if c <? m then nth c r 0 else m) else if k =? c then m else nth k r 0.
Proof.
  intros L Hc Hk. unfold expand.
  destruct (Nat.eqb_spec k m) as [->|Nk].
  - rewrite app_nth2 by (rewrite upd_length; lia). rewrite upd_length, L, Nat.sub_diag. reflexivity.
  - rewrite app_nth1 by (rewrite upd_length; lia).
    destruct (Nat.eqb_spec k c) as [->|Nkc].
    + apply nth_upd_same. lia.
    + apply nth_upd_other. congruence.
Qed.

Lemma isperm_expand m c r : isperm m r -> c <= m -> isperm (S m) (expand m c r).
Proof.
  intros (L & Hlt & Hinj) Hc. split; [now apply expand_length|]. split.
  - intros k Hk. rewrite expand_nth by lia.
    destruct (Nat.eqb_spec k m).
    + destruct (Nat.ltb_spec c m) as [H|H]; [|lia]. specialize (Hlt c H). lia.
    + destruct (Nat.eqb_spec k c); [lia|]. specialize (Hlt k). lia.
  - intros a b Ha Hb. rewrite !expand_nth by lia.
    destruct (Nat.eqb_spec a m) as [Eam|Nam], (Nat.eqb_spec b m) as [Ebm|Nbm]; [lia| | |].
    + destruct (Nat.ltb_spec c m) as [H|H].
      * destruct (Nat.eqb_spec b c) as [Ebc|Nbc].
        -- specialize (Hlt c H). lia.
        -- intros E. assert (c = b) by (apply Hinj; lia). lia.
      * destruct (Nat.eqb_spec b c) as [Ebc|Nbc]; [lia|]. specialize (Hlt b). lia.
    + destruct (Nat.ltb_spec c m) as [H|H].
      * destruct (Nat.eqb_spec a c) as [Eac|Nac].
        -- specialize (Hlt c H). lia.
        -- intros E. assert (a = c) by (apply Hinj; lia). lia.
      * destruct (Nat.eqb_spec a c) as [Eac|Nac]; [lia|]. specialize (Hlt a). lia.
    + destruct (Nat.eqb_spec a c) as [Eac|Nac], (Nat.eqb_spec b c) as [Ebc|Nbc]; [lia| | |].
      * specialize (Hlt b). lia.
      * specialize (Hlt a). lia.
      * intros E. apply Hinj; lia.
Qed.

Lemma expand_at m c r : isperm m r -> c <= m -> nth c (expand m c r) 0 = m.
Proof.
  intros (L & _) Hc. rewrite expand_nth by lia.
  destruct (Nat.eqb_spec c m) as [->|Nc].
  - destruct (Nat.ltb_spec m m); [lia|reflexivity].
  - now rewrite Nat.eqb_refl.
Qed.

Lemma reduce_expand m c r : isperm m r -> c <= m -> reduce m (expand m c r) = r.
Proof.
  intros (L & Hlt & Hinj) Hc. apply nth_ext' with (d := 0).
  - rewrite reduce_length; [now symmetry|now apply expand_length].
  - intros k Hk. rewrite reduce_length in Hk by now apply expand_length.
    rewrite reduce_nth by (try apply expand_length; assumption).
    rewrite !expand_nth by lia. rewrite Nat.eqb_refl.
    destruct (Nat.eqb_spec k m); [lia|].
    destruct (Nat.eqb_spec k c) as [->|Nkc].
    + rewrite Nat.eqb_refl. destruct (Nat.ltb_spec c m); [reflexivity|lia].
    + specialize (Hlt k Hk). destruct (Nat.eqb_spec (nth k r 0) m); [lia|reflexivity].
Qed.

Lemma expand_reduce m t : isperm (S m) t -> exists c, c <= m /\ t = expand m c (reduce m t).
Proof.
  intros Ht. destruct (isperm_surj (S m) t m Ht (Nat.lt_succ_diag_r m)) as (c & Hc & Hcm).
  exists c. split; [lia|]. pose proof Ht as (L & Hlt & Hinj).
  apply nth_ext' with (d := 0).
  - rewrite expand_length; [exact L|now apply reduce_length].
  - intros k Hk. rewrite L in Hk. rewrite expand_nth by (try apply reduce_length; lia).
    destruct (Nat.eqb_spec k m) as [->|Nk].
    + destruct (Nat.ltb_spec c m) as [H|H].
      * rewrite reduce_nth by assumption. rewrite Hcm, Nat.eqb_refl. reflexivity.
      * assert (c = m) as -> by lia. exact Hcm.
    + destruct (Nat.eqb_spec k c) as [->|Nkc]; [exact Hcm|].
      rewrite reduce_nth by lia.
      destruct (Nat.eqb_spec (nth k t 0) m) as [E|]; [|reflexivity].
      assert (k = c) by (apply Hinj; lia). lia.
Qed.

Lemma tw_expand m c r : isperm m r -> c <= m ->
  tw (S m) (expand m c r) = (if c <? m then 1 else 0) + tw m r.
Proof.
  intros Hr Hc. cbn [tw]. rewrite reduce_expand by assumption.
  destruct Hr as (L & Hlt & _). rewrite expand_nth by lia. rewrite Nat.eqb_refl.
  destruct (Nat.ltb_spec c m) as [H|H].
  - specialize (Hlt c H). destruct (Nat.eqb_spec (nth c r 0) m); [lia|reflexivity].
  - now rewrite Nat.eqb_refl.
Qed.

(* all arrangements of 0..n-1, built by splicing *)
Fixpoint tarr (n : nat) : list (list nat) :=
  match n with
  | O => [[]]
  | S m => flat_map (fun c => map (expand m c) (tarr m)) (seq 0 (S m))
  end.

Lemma tarr_spec n : forall t, In t (tarr n) <-> isperm n t.
Proof.
  induction n as [|m IH]; intros t.
  - cbn. split.
    + intros [<-|[]]. apply isperm_id.
    + intros (L & _). destruct t; [now left|discriminate].
  - cbn [tarr]. rewrite in_flat_map. split.
    + intros (c & Hc & Ht). apply in_seq in Hc. apply in_map_iff in Ht as (r & <- & Hr).
      apply isperm_expand; [now apply IH|lia].
    + intros Ht. destruct (expand_reduce m t Ht) as (c & Hc & E).
      exists c. split; [apply in_seq; lia|]. apply in_map_iff. exists (reduce m t).
      split; [now symmetry|]. apply IH. now apply isperm_reduce.
Qed.

Lemma tarr_NoDup n : NoDup (tarr n).
Proof.
  induction n as [|m IH]; [cbn; constructor; [intros []|constructor]|].
  cbn [tarr]. apply NoDup_flat_map_intro.
  - apply seq_NoDup.
  - intros c Hc. apply in_seq in Hc. apply NoDup_map_inj; [exact IH|].
    intros r1 r2 H1 H2 E. apply tarr_spec in H1, H2.
    rewrite <- (reduce_expand m c r1), <- (reduce_expand m c r2), E by (assumption || lia). reflexivity.
  - intros c1 c2 z Hc1 Hc2 H1 H2. apply in_seq in Hc1, Hc2.
    apply in_map_iff in H1 as (r1 & <- & Hr1). apply in_map_iff in H2 as (r2 & E & Hr2).
    apply tarr_spec in Hr1, Hr2.
    pose proof (isperm_expand m c1 r1 Hr1 ltac:(lia)) as (_ & _ & Hinj).
    apply Hinj; [lia|lia|].
    rewrite expand_at by (assumption || lia). rewrite <- E. rewrite expand_at by (assumption || lia).
    reflexivity.
Qed.

(* number of arrangements of 0..n-1 of weight k *)
Definition tw_count (n k : nat) : nat := length (filter (fun t => tw n t =? k) (tarr n)).

Lemma list_sum_const {A} (G : A -> nat) v l : (forall c, In c l -> G c = v) ->
  list_sum (map G l) = length l * v.
Proof.
  induction l as [|c l IH]; intros H; [reflexivity|].
  cbn [map length]. change (list_sum (G c :: map G l)) with (G c + list_sum (map G l)).
  rewrite IH by (intros c' Hc'; apply H; now right). rewrite (H c) by now left. lia.
Qed.

Lemma tw_count_S m k :
  tw_count (S m) k = m * (if 1 <=? k then tw_count m (k - 1) else 0) + tw_count m k.
Proof.
  unfold tw_count at 1. cbn [tarr]. rewrite filter_flat_map_length.
  rewrite seq_S, map_app, list_sum_app. cbn [Nat.add map].
  change (list_sum [?x]) with (x + 0). f_equal.
  - rewrite (list_sum_const _ (if 1 <=? k then tw_count m (k - 1) else 0)); [now rewrite seq_length|].
    intros c Hc. apply in_seq in Hc. rewrite filter_map_length.
    destruct (Nat.leb_spec 1 k) as [Hk|Hk].
    + unfold tw_count. f_equal. apply filter_ext_in. intros r Hr. apply tarr_spec in Hr.
      rewrite tw_expand by (assumption || lia).
      destruct (Nat.ltb_spec c m); [|lia].
      destruct (Nat.eqb_spec (1 + tw m r) k), (Nat.eqb_spec (tw m r) (k - 1)); try reflexivity; lia.
    + rewrite (filter_ext_in _ (fun _ => false)); [induction (tarr m); auto|].
      intros r Hr. apply tarr_spec in Hr. rewrite tw_expand by (assumption || lia).
      destruct (Nat.ltb_spec c m); [|lia]. apply Nat.eqb_neq. lia.
  - rewrite filter_map_length, Nat.add_0_r. unfold tw_count. f_equal. apply filter_ext_in.
    intros r Hr. apply tarr_spec in Hr. rewrite tw_expand by (assumption || lia).
    destruct (Nat.ltb_spec m m); [lia|]. reflexivity.
Qed.

Lemma tw_count_0 k : tw_count 0 k = if k =? 0 then 1 else 0.
Proof. unfold tw_count. cbn. destruct k; reflexivity. Qed.

Lemma tw_count_big n : forall k, n < k -> tw_count n k = 0.
Proof.
  induction n as [|m IH]; intros k Hk.
  - rewrite tw_count_0. destruct k; [lia|reflexivity].
  - rewrite tw_count_S. destruct (Nat.leb_spec 1 k); [|lia].
    rewrite !IH by lia. lia.
Qed.

Lemma stirling_gt n : forall k, n < k -> stirling n k = 0%N.
Proof.
  induction n as [|n IH]; intros k Hk; destruct k as [|k]; try lia; [reflexivity|].
  cbn [stirling]. rewrite !IH by lia. lia.
Qed.

Lemma stirling_S n k : stirling (S n) (S k) = (N.of_nat n * stirling n (S k) + stirling n k)%N.
Proof. reflexivity. Qed.

(** the weight distribution is given by the unsigned Stirling numbers of the first kind:
    #(arrangements of 0..n-1 of weight k, i.e. with n-k cycles) = c(n, n-k) *)
Theorem tw_count_stirling n : forall k, k <= n -> N.of_nat (tw_count n k) = stirling n (n - k).
Proof.
  induction n as [|m IH]; intros k Hk.
  - assert (k = 0) as -> by lia. reflexivity.
  - rewrite tw_count_S, Nat2N.inj_add, Nat2N.inj_mul.
    destruct (Nat.eq_dec k (S m)) as [->|Nk].
    + rewrite Nat.sub_diag. replace (S m - 1) with m by lia. cbn [Nat.leb].
      rewrite (tw_count_big m (S m)) by lia. rewrite (IH m) by lia. rewrite Nat.sub_diag.
      destruct m; cbn [stirling]; lia.
    + replace (S m - k) with (S (m - k)) by lia. rewrite stirling_S, (IH k) by lia.
      destruct (Nat.leb_spec 1 k) as [H1|H1].
      * rewrite (IH (k - 1)) by lia. replace (m - (k - 1)) with (S (m - k)) by lia. reflexivity.
      * assert (k = 0) as -> by lia. rewrite Nat.sub_0_r, (stirling_gt m (S m)) by lia. cbn. lia.
Qed.

Lemma stirling_nonzero n : forall k, 1 <= k <= n -> stirling n k <> 0%N.
Proof.
  induction n as [|n IH]; intros k Hk; [lia|].
  destruct k as [|k]; [lia|]. rewrite stirling_S.
  destruct k as [|k].
  - destruct n as [|n]; [cbn; lia|].
    specialize (IH 1 ltac:(lia)). change (stirling (S n) 0) with 0%N. lia.
  - specialize (IH (S k) ltac:(lia)). lia.
Qed.

(* ============================================================================================== *)
(** * (C) the ALL-TRANSPOSITIONS theorem *)

Lemma all_transpositions_growth_nth n k :
  nth k (all_transpositions_growth n) 0%N = if k <? n then stirling n (n - k) else 0%N.
Proof.
  unfold all_transpositions_growth. destruct (Nat.ltb_spec k n) as [H|H].
  - rewrite (nth_map_lt _ _ k 0) by (rewrite seq_length; lia). rewrite seq_nth by lia.
    f_equal. lia.
  - apply nth_overflow. rewrite map_length, seq_length. lia.
Qed.

(** For every n >= 1 and every k: the number of arrangements at distance exactly k from [seq 0 n] under
    all transpositions is entry k of the Python row (0 beyond the end of the row). *)
Theorem all_transpositions_growth_correct n gens : 1 <= n -> transposition_gens n gens ->
  forall k, N.of_nat (length (layer (list nat) lnat_eq_dec gens [seq 0 n] k))
            = nth k (all_transpositions_growth n) 0%N.
Proof.
  intros Hn Hg k.
  assert (length (layer (list nat) lnat_eq_dec gens [seq 0 n] k) = tw_count n k) as ->.
  { unfold tw_count. apply Permutation_length. apply NoDup_Permutation.
    - apply (layer_NoDup (list nat) lnat_eq_dec gens).
    - apply NoDup_filter, tarr_NoDup.
    - intros t. rewrite (all_transpositions_layer_spec n gens Hg), filter_In, tarr_spec, Nat.eqb_eq.
      reflexivity. }
  rewrite all_transpositions_growth_nth. destruct (Nat.ltb_spec k n) as [H|H].
  - apply tw_count_stirling. lia.
  - destruct (Nat.eq_dec k n) as [->|Nk].
    + rewrite tw_count_stirling, Nat.sub_diag by lia. destruct n; [lia|reflexivity].
    + rewrite tw_count_big by lia. reflexivity.
Qed.

(** the row has exactly n terms and none of them is zero *)
Theorem all_transpositions_growth_nonzero_terms n :
  length (all_transpositions_growth n) = n /\ Forall (fun v => v <> 0%N) (all_transpositions_growth n).
Proof.
  assert (length (all_transpositions_growth n) = n) as L
    by (unfold all_transpositions_growth; now rewrite map_length, seq_length).
  split; [exact L|].
  apply Forall_forall. intros v Hv. apply (In_nth _ _ 0%N) in Hv as (k & Hk & <-).
  rewrite L in Hk. rewrite all_transpositions_growth_nth.
  destruct (Nat.ltb_spec k n); [|lia]. apply stirling_nonzero. lia.
Qed.

(** ... so the graph has exactly the distance classes 0 .. n-1 (diameter n-1) *)
Corollary all_transpositions_layer_nonempty_iff n gens : 1 <= n -> transposition_gens n gens ->
  forall k, layer (list nat) lnat_eq_dec gens [seq 0 n] k <> [] <-> k < n.
Proof.
  intros Hn Hg k. pose proof (all_transpositions_growth_correct n gens Hn Hg k) as E.
  destruct (all_transpositions_growth_nonzero_terms n) as [L F]. split.
  - intros Hne. destruct (le_lt_dec n k) as [H|H]; [exfalso|exact H].
    rewrite nth_overflow in E by lia.
    destruct (layer (list nat) lnat_eq_dec gens [seq 0 n] k); [now apply Hne|discriminate].
  - intros Hk Hnil. rewrite Hnil in E. cbn in E.
    rewrite Forall_forall in F. apply (F (nth k (all_transpositions_growth n) 0%N)); [|now symmetry].
    apply nth_In. lia.
Qed.

(* ---- instance 1: the literal generator list ---- *)
Theorem all_transpositions_growth_correct_literal n k : 1 <= n ->
  N.of_nat (length (layer (list nat) lnat_eq_dec (transp_gens n) [seq 0 n] k))
  = nth k (all_transpositions_growth n) 0%N.
Proof. intros Hn. apply all_transpositions_growth_correct; [exact Hn|apply transp_gens_ok]. Qed.

(* ---- instance 2: the generators of the Families.v model, acting through apply_perm ---- *)
Theorem all_transpositions_growth_correct_families n : 2 <= n ->
  exists d, all_transpositions (Z.of_nat n) = Ok d /\
    forall k, N.of_nat (length (layer (list nat) lnat_eq_dec (map (fun p => apply_perm 0 p) (p_gens d)) [seq 0 n] k))
              = nth k (all_transpositions_growth n) 0%N.
Proof.
  intros Hn. destruct (all_transpositions_documented n Hn) as (d & E & _ & _ & _ & Hin & Hact).
  exists d. split; [exact E|]. intros k. apply all_transpositions_growth_correct; [lia|]. split.
  - intros g Hg. apply in_map_iff in Hg as (p & <- & Hp). apply Hin in Hp as (i & j & Hij & ->).
    exists i, j. split; [exact Hij|]. intros x Lx. now apply Hact.
  - intros i j Hij. exists (apply_perm 0 (transp n i j)). split.
    + apply in_map_iff. exists (transp n i j). split; [reflexivity|]. apply Hin. now exists i, j.
    + intros x Lx. now apply Hact.
Qed.

(* ============================================================================================== *)
(** * [tw n t] is n minus the number of cycles of t
      (cycles in the sense of ClassEnumCycles.CycleDecomp / the reference function Perm.cycle_type) *)

Lemma follows_ext p p' c : (forall y, In y c -> nth y p' 0 = nth y p 0) -> follows p c -> follows p' c.
Proof.
  intros H F i Hi. rewrite H by (apply nth_In; exact Hi). now apply F.
Qed.

Lemma nth_ins_lo u c m v i : i <= length u ->
  nth i (u ++ c :: m :: v) 0 = nth i (u ++ c :: v) 0.
Proof.
  intros Hi. destruct (Nat.eq_dec i (length u)) as [->|Ni].
  - rewrite !app_nth2, Nat.sub_diag by lia. reflexivity.
  - rewrite !app_nth1 by lia. reflexivity.
Qed.

Lemma nth_ins_mid u c m v : nth (S (length u)) (u ++ c :: m :: v) 0 = m.
Proof. rewrite app_nth2 by lia. replace (S (length u) - length u) with 1 by lia. reflexivity. Qed.

Lemma nth_ins_hi u c m v i : length u < i ->
  nth (S i) (u ++ c :: m :: v) 0 = nth i (u ++ c :: v) 0.
Proof.
  intros Hi. rewrite !app_nth2 by lia.
  replace (S i - length u) with (S (S (i - length u - 1))) by lia.
  replace (i - length u) with (S (i - length u - 1)) at 2 by lia. reflexivity.
Qed.

(* m spliced into a cycle right after c *)
Lemma follows_insert p p' u c m v :
  NoDup (u ++ c :: v) -> follows p (u ++ c :: v) ->
  nth c p' 0 = m -> nth m p' 0 = nth c p 0 ->
  (forall y, In y (u ++ c :: v) -> y <> c -> nth y p' 0 = nth y p 0) ->
  follows p' (u ++ c :: m :: v).
Proof.
  intros ND F Hc Hm Hoth.
  set (O := u ++ c :: v) in *. set (a := length u).
  assert (length O = a + 1 + length v) as LO by (unfold O, a; rewrite app_length; cbn [length]; lia).
  assert (nth a O 0 = c) as Oa by (unfold O, a; rewrite app_nth2, Nat.sub_diag by lia; reflexivity).
  assert (forall i, i < length O -> i <> a -> nth i O 0 <> c) as Onc.
  { intros i Hi Nia E. apply Nia. apply (proj1 (NoDup_nth O 0) ND); [exact Hi|lia|]. now rewrite Oa. }
  intros i Hi. rewrite app_length in Hi. cbn [length] in Hi. fold a in Hi.
  replace (length (u ++ c :: m :: v)) with (S (length O)) by (rewrite LO, app_length; cbn [length]; fold a; lia).
  destruct (lt_eq_lt_dec i a) as [[Hlt|Heq]|Hgt].
  - (* before c *)
    rewrite Nat.mod_small by lia. rewrite !nth_ins_lo by (fold a; lia). fold O.
    rewrite Hoth; [|apply nth_In; lia|apply Onc; lia].
    rewrite (F i) by lia. now rewrite Nat.mod_small by lia.
  - (* at c *)
    subst i. rewrite Nat.mod_small by lia. rewrite nth_ins_lo by (fold a; lia). fold O.
    rewrite Oa, Hc. replace (a + 1) with (S a) by lia. unfold a. now rewrite nth_ins_mid.
  - destruct (Nat.eq_dec i (S a)) as [->|Ni].
    + (* at m *)
      unfold a at 1. rewrite nth_ins_mid, Hm.
      replace (nth c p 0) with (nth (nth a O 0) p 0) by (now rewrite Oa). rewrite (F a) by lia.
      destruct (Nat.eq_dec (a + 1) (length O)) as [E|NE].
      * rewrite E, Nat.mod_same by lia. replace (S a + 1) with (S (length O)) by lia.
        rewrite Nat.mod_same by lia. rewrite nth_ins_lo by lia. reflexivity.
      * rewrite !Nat.mod_small by lia. replace (S a + 1) with (S (a + 1)) by lia.
        rewrite nth_ins_hi by (fold a; lia). reflexivity.
    + (* after m *)
      destruct i as [|i]; [lia|]. rewrite nth_ins_hi by (fold a; lia). fold O.
      rewrite Hoth; [|apply nth_In; lia|apply Onc; lia].
      rewrite (F i) by lia.
      destruct (Nat.eq_dec (i + 1) (length O)) as [E|NE].
      * rewrite E, Nat.mod_same by lia. replace (S i + 1) with (S (length O)) by lia.
        rewrite Nat.mod_same by lia. rewrite nth_ins_lo by lia. reflexivity.
      * rewrite !Nat.mod_small by lia. replace (S i + 1) with (S (i + 1)) by lia.
        rewrite nth_ins_hi by (fold a; lia). reflexivity.
Qed.

(* splicing m in adds a fixed point (c = m) or lengthens the cycle of c (c < m) *)
Lemma decomp_expand m c r cs : isperm m r -> CycleDecomp r cs -> c <= m ->
  exists cs', CycleDecomp (expand m c r) cs' /\ length cs' = (if c <? m then 0 else 1) + length cs.
Proof.
  intros Hr [ND Hcov HNE HF] Hc. pose proof Hr as (L & Hlt & Hinj). rewrite L in Hcov.
  assert (forall y, y < m -> y <> c -> nth y (expand m c r) 0 = nth y r 0) as Hsame.
  { intros y Hy Nyc. rewrite expand_nth by lia.
    destruct (Nat.eqb_spec y m); [lia|]. destruct (Nat.eqb_spec y c); [lia|]. reflexivity. }
  destruct (Nat.ltb_spec c m) as [Hcm|Hcm].
  - (* c < m: into the cycle of c *)
    assert (In c (concat cs)) as Hin by (apply Hcov; exact Hcm).
    apply in_concat in Hin as (cy & Hcy & Hccy).
    apply in_split in Hcy as (A & B & ->). apply in_split in Hccy as (u & v & ->).
    exists (A ++ (u ++ c :: m :: v) :: B). split; [|rewrite !app_length; reflexivity].
    assert (Permutation (concat (A ++ (u ++ c :: m :: v) :: B)) (m :: concat (A ++ (u ++ c :: v) :: B))) as P.
    { rewrite !concat_app. cbn [concat]. rewrite <- !app_assoc. cbn [app].
      apply Permutation_sym.
      eapply Permutation_trans; [apply Permutation_middle|]. apply Permutation_app_head.
      eapply Permutation_trans; [apply Permutation_middle|]. apply Permutation_app_head.
      apply perm_swap. }
    assert (~ In m (concat (A ++ (u ++ c :: v) :: B))) as Nm by (intros H; apply Hcov in H; lia).
    split.
    + eapply Permutation_NoDup; [apply Permutation_sym; exact P|]. constructor; assumption.
    + intros y. rewrite expand_length by exact L. split.
      * intros Hy. apply (Permutation_in _ P) in Hy as [<-|Hy]; [lia|]. apply Hcov in Hy. lia.
      * intros Hy. apply (Permutation_in _ (Permutation_sym P)).
        destruct (Nat.eq_dec y m) as [->|Ny]; [now left|right]. apply Hcov. lia.
    + apply Forall_app in HNE as [N1 N2]. apply Forall_cons_iff in N2 as [_ N3].
      apply Forall_app. split; [exact N1|]. constructor; [|exact N3]. now destruct u.
    + apply Forall_app in HF as [F1 F2]. apply Forall_cons_iff in F2 as [Fc F3].
      pose proof (NoDup_concat_middle A (u ++ c :: v) B ND) as ND'.
      assert (forall c0, In c0 (A ++ B) -> follows r c0 -> follows (expand m c r) c0) as Hoth.
      { intros c0 Hc0. apply follows_ext. intros y Hy.
        assert (In y (concat (A ++ B))) as Hy' by (apply in_concat; exists c0; split; assumption).
        apply Hsame.
        - apply Hcov, in_concat_middle. now right.
        - intros ->. eapply NoDup_app_disj; [exact ND'| |exact Hy'].
          apply in_or_app. right. now left. }
      apply Forall_app. split; [|constructor].
      * rewrite Forall_forall in F1 |- *. intros c0 Hc0. apply Hoth; [apply in_or_app; now left|now apply F1].
      * apply (follows_insert r); [eapply NoDup_app_l; exact ND'|exact Fc| | |].
        -- rewrite expand_nth by lia. destruct (Nat.eqb_spec c m); [lia|]. now rewrite Nat.eqb_refl.
        -- rewrite expand_nth by lia. rewrite Nat.eqb_refl. destruct (Nat.ltb_spec c m); [reflexivity|lia].
        -- intros y Hy Nyc. apply Hsame; [|exact Nyc]. apply Hcov, in_concat_middle. now left.
      * rewrite Forall_forall in F3 |- *. intros c0 Hc0. apply Hoth; [apply in_or_app; now right|now apply F3].
  - (* c = m: a new fixed point *)
    assert (c = m) as -> by lia.
    exists ([m] :: cs). split; [|reflexivity].
    assert (~ In m (concat cs)) as Nm by (intros H; apply Hcov in H; lia).
    split.
    + cbn [concat app]. constructor; assumption.
    + intros y. rewrite expand_length by exact L. cbn [concat app In]. rewrite Hcov. lia.
    + constructor; [discriminate|exact HNE].
    + constructor.
      * intros i Hi. cbn [length] in Hi. assert (i = 0) as -> by lia. cbn [length nth Nat.add].
        rewrite Nat.mod_same by lia. cbn [nth]. rewrite expand_nth by lia. rewrite Nat.eqb_refl.
        destruct (Nat.ltb_spec m m); [lia|reflexivity].
      * rewrite Forall_forall in HF |- *. intros c0 Hc0. apply (follows_ext r); [|now apply HF].
        intros y Hy. assert (y < m) as Hym by (apply Hcov, in_concat; exists c0; split; assumption).
        apply Hsame; lia.
Qed.

Lemma isperm_decomp n : forall t, isperm n t -> exists cs, CycleDecomp t cs /\ length cs + tw n t = n.
Proof.
  induction n as [|m IH]; intros t Ht.
  - destruct Ht as (L & _). destruct t; [|discriminate]. exists []. split; [|reflexivity].
    split; cbn; [constructor| |constructor|constructor]. intros y. split; [intros []|lia].
  - destruct (expand_reduce m t Ht) as (c & Hc & E).
    pose proof (isperm_reduce m t Ht) as Hr.
    destruct (IH (reduce m t) Hr) as (cs & D & Hlen).
    destruct (decomp_expand m c (reduce m t) cs Hr D Hc) as (cs' & D' & Hlen').
    exists cs'. split; [rewrite E; exact D'|].
    rewrite E, tw_expand, Hlen' by assumption. destruct (c <? m); lia.
Qed.

Lemma cycle_type_length t cs : CycleDecomp t cs -> length (cycle_type t) = length cs.
Proof.
  intros D. rewrite (cycle_type_of_decomp t cs D).
  rewrite <- (Permutation_length (NatSort.Permuted_sort _)). apply map_length.
Qed.

(** [tw] is n minus the number of cycles, as counted by the reference function [Perm.cycle_type] ... *)
Theorem tw_cycles n t : Permutation t (seq 0 n) -> tw n t + length (cycle_type t) = n.
Proof.
  intros P. apply isperm_iff in P. destruct (isperm_decomp n t P) as (cs & D & H).
  rewrite (cycle_type_length t cs D). lia.
Qed.

(** ... and by ANY decomposition of t into disjoint cycles *)
Theorem tw_cycles_decomp n t cs : Permutation t (seq 0 n) -> CycleDecomp t cs -> tw n t + length cs = n.
Proof. intros P D. rewrite <- (cycle_type_length t cs D). now apply tw_cycles. Qed.

(** (C) distance under all transpositions = n - (number of cycles) *)
Theorem all_transpositions_distance_cycles n gens : transposition_gens n gens ->
  forall t d, dist_is (list nat) gens [seq 0 n] t d <->
              Permutation t (seq 0 n) /\ d + length (cycle_type t) = n.
Proof.
  intros Hg t d. rewrite (all_transpositions_distance n gens Hg). split.
  - intros [P <-]. split; [exact P|now apply tw_cycles].
  - intros [P E]. split; [exact P|]. pose proof (tw_cycles n t P). lia.
Qed.

(** a transposition changes the number of cycles by exactly one *)
Theorem transposition_changes_cycles_by_one n t i j : Permutation t (seq 0 n) -> i < n -> j < n -> i <> j ->
  length (cycle_type (swap_at 0 t i j)) = S (length (cycle_type t)) \/
  S (length (cycle_type (swap_at 0 t i j))) = length (cycle_type t).
Proof.
  intros P Hi Hj Nij. pose proof P as P0. apply isperm_iff in P.
  pose proof (isperm_swap n t i j P Hi Hj) as P'. apply isperm_iff in P'.
  pose proof (tw_cycles n t P0). pose proof (tw_cycles n _ P').
  destruct (tw_swap_pm1 n t i j P Hi Hj Nij); [right|left]; lia.
Qed.

(* ============================================================================================== *)
(** * non-vacuity of the hypotheses, and the statements checked by running BFS for n <= 5 *)

Example transposition_gens_instance : transposition_gens 4 (transp_gens 4).
Proof. apply transp_gens_ok. Qed.

Example all_transpositions_sizes_instance : 1 <= 4 /\ 2 <= 4.
Proof. lia. Qed.

Example isperm_instance : isperm 4 [1; 2; 0; 3].
Proof. apply isperm_iff. apply (is_perm_iff [1; 2; 0; 3]). reflexivity. Qed.

Example all_transpositions_distance_instance :
  dist_is (list nat) (transp_gens 4) [seq 0 4] [1; 2; 0; 3] 2.
Proof.
  apply (all_transpositions_distance_cycles 4 (transp_gens 4) (transp_gens_ok 4)). split; [|reflexivity].
  apply (is_perm_iff [1; 2; 0; 3]). reflexivity.
Qed.

Example cycle_decomp_instance : CycleDecomp [1; 2; 0; 3] [[0; 1; 2]; [3]].
Proof.
  replace [[0; 1; 2]; [3]] with (orbits [1; 2; 0; 3]) by (vm_compute; reflexivity).
  apply Canon_decomp, orbits_canon. apply (is_perm_iff [1; 2; 0; 3]). reflexivity.
Qed.

(* the textbook layers of Graph.v, n <= 5: sizes = the Python rows, every state of layer k has weight k
   and n - k cycles *)
Example all_transpositions_layers_le5 :
  forallb (fun n =>
    forallb (fun k =>
      let l := layer (list nat) lnat_eq_dec (transp_gens n) [seq 0 n] k in
      N.eqb (N.of_nat (length l)) (nth k (all_transpositions_growth n) 0%N) &&
      forallb (fun t => (tw n t =? k) && (k + length (cycle_type t) =? n)) l)
      (seq 0 (n + 2))) [1; 2; 3; 4; 5] = true.
Proof. vm_compute. reflexivity. Qed.

(* the same rows from the verified reference BFS (RefBfs.v) run on the one-line generators *)
Example all_transpositions_refbfs_le5 :
  forallb (fun n =>
    match growth_fuel (rb_funs (RBPerm (map (fun ij => transp n (fst ij) (snd ij)) (pairs n))))
                      [map Z.of_nat (seq 0 n)] 20 with
    | Some sizes => nat_list_eqb sizes (map N.to_nat (all_transpositions_growth n))
    | None => false
    end) [1; 2; 3; 4; 5] = true.
Proof. vm_compute. reflexivity. Qed.

Print Assumptions tw_swap_pm1.
Print Assumptions all_transpositions_distance.
Print Assumptions tw_count_stirling.
Print Assumptions all_transpositions_growth_correct.
Print Assumptions all_transpositions_growth_nonzero_terms.
Print Assumptions all_transpositions_layer_nonempty_iff.
Print Assumptions all_transpositions_growth_correct_literal.
Print Assumptions all_transpositions_growth_correct_families.
Print Assumptions tw_cycles.
Print Assumptions tw_cycles_decomp.
Print Assumptions all_transpositions_distance_cycles.
Print Assumptions transposition_changes_cycles_by_one.
