(** Correctness of the beam-search model (Beam.v), for EVERY pruning oracle.
    - soundness of the simple mode (without a ball, and with a BFS ball on an inverse-closed graph),
    - totality of the simple mode without a ball (only the "oracle inconsistent" error is possible),
    - soundness of the advanced mode,
    - exactness of both modes when the beam is wider than the orbit (nothing is ever pruned). *)
From Coq Require Import ZArith List Bool Arith Lia Sorted.
From V Require Import Base BaseProofs W64 Tensor TensorProofs Graph GraphProofs GraphImpl Def Paths
  BfsStep PathsProofs Beam.
Import ListNotations.
Open Scope Z_scope.

(* ------------------------------------------------------------------ *)
(** * Generic helpers *)

Lemma z_list_eqb_eq a : forall b, z_list_eqb a b = true <-> a = b.
Proof.
  unfold z_list_eqb. induction a as [|x a IH]; intros [|y b]; simpl; split; intros H;
    try reflexivity; try discriminate.
  - apply andb_true_iff in H. destruct H as [H1 H2]. apply Z.eqb_eq in H1. apply IH in H2. congruence.
  - inversion H; subst. apply andb_true_iff. split; [apply Z.eqb_refl | apply IH; reflexivity].
Qed.

Lemma existsb_state_eqb_In d l : existsb (state_eqb d) l = true <-> In d l.
Proof.
  rewrite existsb_exists. unfold state_eqb. split.
  - intros (x & Hx & E). apply z_list_eqb_eq in E. subst. exact Hx.
  - intros H. exists d. split; [exact H | apply z_list_eqb_eq; reflexivity].
Qed.

(* a loop that breaks did so from a state satisfying the invariant *)
Lemma loop_nat_inr_inv {S R} (body : S -> S + R) (Inv : S -> Prop) :
  (forall s s', Inv s -> body s = inl s' -> Inv s') ->
  forall n s r, Inv s -> loop_nat body n s = inr r -> exists s', Inv s' /\ body s' = inr r.
Proof.
  intros Hstep. induction n as [|n IH]; intros s r Hs H; simpl in H; [discriminate|].
  destruct (body s) as [s1|r1] eqn:E.
  - apply (IH s1 r); auto. eapply Hstep; eauto.
  - inversion H; subst. exists s. auto.
Qed.

Lemma singleton_set {A} (l : list A) s : NoDup l -> (forall t, In t l <-> In t [s]) -> l = [s].
Proof.
  intros Hnd Hset. destruct l as [|a l].
  - exfalso. apply (proj2 (Hset s)). left; reflexivity.
  - assert (a = s) as ->.
    { destruct (proj1 (Hset a) (or_introl eq_refl)) as [H | []]. auto. }
    destruct l as [|b l]; [reflexivity|]. exfalso.
    assert (b = s) as ->.
    { destruct (proj1 (Hset b) (or_intror (or_introl eq_refl))) as [H | []]. auto. }
    inversion Hnd; subst. apply H1. left; reflexivity.
Qed.

(* gather with in-range indices *)
Lemma gather_In {A} (d : A) l idx x :
  forallb (fun i => (i <? length l)%nat) idx = true -> In x (gather d l idx) -> In x l.
Proof.
  intros Hr Hin. unfold gather in Hin. apply in_map_iff in Hin. destruct Hin as (i & <- & Hi).
  rewrite forallb_forall in Hr. specialize (Hr i Hi). apply Nat.ltb_lt in Hr.
  apply nth_In. exact Hr.
Qed.

Lemma gather_map {A B} (f : A -> B) (d : A) (d' : B) l idx :
  forallb (fun i => (i <? length l)%nat) idx = true ->
  gather d' (map f l) idx = map f (gather d l idx).
Proof.
  intros Hr. unfold gather. rewrite map_map. apply map_ext_in. intros i Hi.
  rewrite forallb_forall in Hr. specialize (Hr i Hi). apply Nat.ltb_lt in Hr.
  rewrite (nth_indep _ d' (f d)) by (rewrite map_length; exact Hr). apply map_nth.
Qed.

Lemma valid_selection_range n w sel :
  valid_selection n w sel = true -> forallb (fun i => (i <? n)%nat) (snd sel) = true.
Proof.
  unfold valid_selection. destruct sel as [scores idx]. simpl. intros H.
  repeat (apply andb_true_iff in H; destruct H as [H ?]). assumption.
Qed.

Lemma existsb_id_isin_ss es hay :
  existsb (fun b : bool => b) (isin_ss es hay) = true <-> exists e, In e es /\ isin_ss1 hay e = true.
Proof.
  unfold isin_ss. rewrite existsb_exists. split.
  - intros (b & Hb & ->). apply in_map_iff in Hb. destruct Hb as (e & He & Hin). eauto.
  - intros (e & He & Hin). exists true. split; auto. apply in_map_iff. eauto.
Qed.

Lemma check_found_some lh hs : forall k j,
  check_found lh hs k = Some j ->
  (k <= j)%nat /\ (j - k < length lh)%nat /\
  existsb (fun b : bool => b) (isin_ss (nth (j - k) lh []) hs) = true.
Proof.
  induction lh as [|l rest IH]; intros k j H; simpl in H; [discriminate|].
  destruct (existsb (fun b : bool => b) (isin_ss l hs)) eqn:E.
  - inversion H; subst. rewrite Nat.sub_diag. simpl. repeat split; auto; lia.
  - apply IH in H. destruct H as (H1 & H2 & H3).
    replace (j - k)%nat with (S (j - S k)) by lia. simpl. repeat split; auto; lia.
Qed.

Lemma In_skipn {A} (x : A) n : forall l, In x (skipn n l) -> In x l.
Proof.
  induction n as [|n IH]; intros l H; simpl in H; auto.
  destruct l as [|a l]; [destruct H|]. right. apply IH. exact H.
Qed.

Lemma In_concat_upd {A} (x : A) v : forall l i,
  In x (concat (upd l i v)) -> In x v \/ In x (concat l).
Proof.
  induction l as [|a l IH]; intros i H; simpl in H; [destruct H|].
  destruct i as [|i]; simpl in H; apply in_app_iff in H; simpl; rewrite in_app_iff.
  - tauto.
  - destruct H as [H | H]; auto. apply IH in H. tauto.
Qed.

Lemma nth_In_or_nil {A} (l : list (list A)) i x : In x (nth i l []) -> In x (concat l).
Proof.
  intros H. destruct (lt_dec i (length l)) as [Hlt | Hge].
  - apply in_concat. exists (nth i l []). split; auto. apply nth_In. exact Hlt.
  - rewrite nth_overflow in H by lia. destruct H.
Qed.

(* ------------------------------------------------------------------ *)
(** * Distance classes: predecessors on a shortest walk *)

Section Dist.
  Variable St : Type.
  Variable eq_dec : forall a b : St, {a = b} + {a <> b}.
  Variable gens : list (St -> St).

  Lemma dist_pred S t k :
    dist_is St gens S t (Datatypes.S k) ->
    exists x g, dist_is St gens S x k /\ In g gens /\ t = g x.
  Proof.
    intros [Hr Hmin]. apply reach_S_inv in Hr. destruct Hr as (x & g & Hx & Hg & ->).
    exists x, g. repeat split; auto.
    intros j Hj Hrj.
    destruct (reach_has_dist St eq_dec gens S j x Hrj) as (d & Hd & [Hdr _]).
    apply (Hmin (Datatypes.S d)); [lia|]. constructor; auto.
  Qed.

  Lemma dist_class_nonempty S t d :
    dist_is St gens S t d -> forall j, (j <= d)%nat -> exists x, dist_is St gens S x j.
  Proof.
    revert t. induction d as [|d IH]; intros t Hd j Hj.
    - assert (j = 0)%nat by lia. subst. eauto.
    - destruct (Nat.eq_dec j (Datatypes.S d)) as [-> | Hne]; [eauto|].
      destruct (dist_pred S t d Hd) as (x & g & Hx & _ & _).
      apply (IH x Hx). lia.
  Qed.
End Dist.

(* ------------------------------------------------------------------ *)
(** * The section of the statement *)

Section BeamCorrect.
  Variable G Ginv : impl.
  Variable U : state -> Prop.
  Hypothesis U_closed : closed state (acts G) U.
  Hypothesis U_closed_inv : closed state (acts Ginv) U.
  Hypothesis NoColl : forall a b, U a -> U b -> hashf G a = hashf G b -> a = b.
  Hypothesis IdOK : is_identity G = true -> forall a, U a -> unword G (hashf G a) = a.
  Hypothesis same_len : length (acts Ginv) = length (acts G).
  Hypothesis inv_undo : forall i g gi x, nth_error (acts G) i = Some g -> nth_error (acts Ginv) i = Some gi -> U x ->
                         g (gi x) = x /\ gi (g x) = x.
  Variable start : state.
  Hypothesis start_U : U start.
  Let c := central G.
  Hypothesis c_U : U c.
  Notation R k t := (reach state (acts G) [start] k t).
  Local Notation hf := (hashf G).
  Local Notation gus l := (get_unique_states G l (hashes G l)).

  (* lia without the (irrelevant) arithmetic section hypothesis, so that lemmas do not depend on it needlessly *)
  Ltac lia_ns := try clear same_len; lia.

  (* ---------------------------------------------------------------- *)
  (** ** Expansion and de-duplication *)

  Lemma hash_in_set l q :
    (forall t, In t l -> U t) -> U q -> (In (hf q) (map hf l) <-> In q l).
  Proof.
    intros Hl Hq. split.
    - intros H. apply in_map_iff in H. destruct H as (t & Ht & Hin).
      assert (t = q) as <-; [|exact Hin]. apply NoColl; auto.
    - apply in_map.
  Qed.

  Lemma expand_spec lay i l2 l2h :
    (forall t, In t lay -> U t /\ R i t) ->
    gus (get_neighbors G lay) = (l2, l2h) ->
    NoDup l2 /\ l2h = map hf l2 /\ StronglySorted Z.lt l2h /\
    (forall t, In t l2 <-> exists x g, In x lay /\ In g (acts G) /\ t = g x) /\
    (forall t, In t l2 -> U t /\ R (S i) t).
  Proof.
    intros Hlay E.
    apply (gus_spec G U NoColl IdOK) in E.
    2:{ apply (neighbors_U G U U_closed). intros s Hs. apply Hlay. exact Hs. }
    destruct E as (Hnd & Hset & Hal & Hss).
    assert (Hiff : forall t, In t l2 <-> exists x g, In x lay /\ In g (acts G) /\ t = g x).
    { intros t. rewrite Hset. apply get_neighbors_spec. }
    repeat split; auto; try (apply Hiff; assumption); try (apply Hiff).
    - apply Hiff in H. destruct H as (x & g & Hx & Hg & ->). apply U_closed; auto. apply Hlay; auto.
    - apply Hiff in H. destruct H as (x & g & Hx & Hg & ->). constructor; auto. apply Hlay; auto.
  Qed.

  Lemma gus_start l1 l1h : gus [start] = (l1, l1h) -> l1 = [start] /\ l1h = [hf start].
  Proof.
    intros E. apply (gus_spec G U NoColl IdOK) in E.
    2:{ intros s [<- | []]. exact start_U. }
    destruct E as (Hnd & Hset & Hal & _).
    assert (l1 = [start]) by (apply singleton_set; auto). subst. auto.
  Qed.

  (* ---------------------------------------------------------------- *)
  (** ** Backward walk through remembered beam layers *)

  Lemma restore_step_set l path cur :
    (forall t, In t l -> U t) -> U cur ->
    (exists x g, In x l /\ In g (acts G) /\ cur = g x) ->
    exists i g x,
      restore_step G Ginv (Ok (path, cur)) (map hf l) = Ok (i :: path, x) /\
      nth_error (acts G) i = Some g /\ In x l /\ g x = cur.
  Proof.
    intros Hl HUcur Hpred.
    unfold restore_step. cbn [bind].
    set (cands := map (fun g : state -> state => g cur) (acts Ginv)).
    set (mask := isin (map hf cands) (map hf l)).
    destruct (first_true mask) as [i|] eqn:E.
    - apply first_true_spec in E. destruct E as [Ht _].
      unfold mask in Ht. apply nth_isin_true in Ht. destruct Ht as [Hlt Hin].
      unfold cands in Hlt. rewrite !map_length in Hlt.
      destruct (nth_error_lt_some (acts Ginv) i Hlt) as (gi & Hgi).
      destruct (nth_error_lt_some (acts G) i ltac:(lia)) as (g & Hg).
      unfold cands in Hin. rewrite (cand_hash_nth G Ginv cur i gi Hgi) in Hin.
      assert (HUx : U (gi cur)).
      { apply U_closed_inv; auto. eapply nth_error_In; eauto. }
      apply (hash_in_set l (gi cur) Hl HUx) in Hin.
      exists i, g, (gi cur). unfold cands. rewrite (cand_nth Ginv cur i gi Hgi).
      repeat split; auto.
      destruct (inv_undo i g gi cur Hg Hgi HUcur) as [H1 _]. exact H1.
    - exfalso.
      destruct Hpred as (x & g & Hx & Hg & Heq).
      apply In_nth_error in Hg. destruct Hg as (i & Hg).
      pose proof (nth_error_some_lt _ _ _ Hg) as Hlt.
      destruct (nth_error_lt_some (acts Ginv) i ltac:(lia)) as (gi & Hgi).
      assert (HUx : U x) by (apply Hl; exact Hx).
      destruct (inv_undo i g gi x Hg Hgi HUx) as [_ H2].
      pose proof (proj1 (first_true_none mask) E i) as Hf.
      assert (Ht : nth i mask false = true).
      { unfold mask, isin.
        apply nth_error_nth.
        assert (Hc : nth_error (map hf cands) i = Some (hf (gi cur))).
        { unfold cands.
          apply (map_nth_error hf).
          apply (map_nth_error (fun g0 : state -> state => g0 cur)). exact Hgi. }
        apply (map_nth_error (isin1 (map hf l))) in Hc. rewrite Hc. f_equal.
        apply isin1_iff. rewrite Heq, H2. apply in_map. exact Hx. }
      congruence.
  Qed.

  (* the remembered layers, newest first: the oldest is [start], every state of a layer is a
     neighbour of a state of the previous layer *)
  Inductive blayers : list (list state) -> Prop :=
  | bl_one : blayers [[start]]
  | bl_cons l l' rest : blayers (l' :: rest) ->
      (forall t, In t l -> U t /\ exists x g, In x l' /\ In g (acts G) /\ t = g x) ->
      blayers (l :: l' :: rest).

  Lemma blayers_hd_U rl : blayers rl -> forall t, In t (hd [] rl) -> U t.
  Proof.
    intros H. inversion H; subst; simpl.
    - intros t [<- | []]. exact start_U.
    - intros t Ht. apply H1. exact Ht.
  Qed.

  Lemma restore_fold_beam rl : blayers rl -> forall path cur,
    U cur -> (exists x g, In x (hd [] rl) /\ In g (acts G) /\ cur = g x) ->
    exists p s, fold_left (restore_step G Ginv) (map (map hf) rl) (Ok (path, cur)) = Ok (p ++ path, s) /\
                length p = length rl /\ run state (acts G) start p = Some cur.
  Proof.
    induction 1 as [|l l' rest Hbl IH Hl]; intros path cur HUcur Hpred.
    - cbn [map fold_left]. cbn [hd] in Hpred.
      destruct (restore_step_set [start] path cur) as (i & g & x & Hstep & Hg & Hx & Hgx); auto.
      { intros t [<- | []]. exact start_U. }
      change (map hf [start]) with [hf start] in *.
      rewrite Hstep. exists [i], x. repeat split; auto.
      destruct Hx as [<- | []]. simpl. rewrite Hg, Hgx. reflexivity.
    - cbn [hd] in Hpred. cbn [map fold_left].
      destruct (restore_step_set l path cur) as (i & g & x & Hstep & Hg & Hx & Hgx); auto.
      { intros t Ht. apply Hl. exact Ht. }
      rewrite Hstep.
      destruct (Hl x Hx) as [HUx Hpx].
      destruct (IH (i :: path) x HUx Hpx) as (p & s & Hfold & Hlen & Hrun).
      exists (p ++ [i]), s. rewrite <- app_assoc. cbn [app].
      cbn [map] in Hfold. split; [exact Hfold|]. split.
      + rewrite app_length. simpl in *. lia.
      + rewrite (run_app state (acts G)). rewrite Hrun. simpl. rewrite Hg, Hgx. reflexivity.
  Qed.

  Lemma restore_beam rl tgt :
    blayers rl -> U tgt -> (exists x g, In x (hd [] rl) /\ In g (acts G) /\ tgt = g x) ->
    exists p, restore_path G Ginv (rev (map (map hf) rl)) tgt = Ok p /\ length p = length rl /\
              run state (acts G) start p = Some tgt.
  Proof.
    intros Hbl HU Hpred.
    destruct (restore_fold_beam rl Hbl [] tgt HU Hpred) as (p & s & Hfold & Hlen & Hrun).
    exists p. unfold restore_path. rewrite rev_involutive, Hfold. cbn [bind]. rewrite app_nil_r. auto.
  Qed.

  (* ---------------------------------------------------------------- *)
  (** ** The beam invariant of the simple mode *)

  Definition SInv (rp : bool) (st : sst) : Prop :=
    (forall t, In t (s_layer st) -> U t /\ R (s_i st) t) /\
    (rp = true -> exists rl, blayers rl /\ s_all_h st = rev (map (map hf) rl) /\
                             hd [] rl = s_layer st /\ length rl = S (s_i st)).

  Lemma SInv_next rp st l' lh' sl' :
    SInv rp st ->
    (forall t, In t l' -> U t /\ exists x g, In x (s_layer st) /\ In g (acts G) /\ t = g x) ->
    SInv rp {| s_i := S (s_i st); s_layer := l'; s_layer_h := lh';
               s_all_h := if rp then s_all_h st ++ [map hf l'] else s_all_h st; s_sels := sl' |}.
  Proof.
    intros [Hlay Hrl] Hl'. split; cbn [s_i s_layer s_all_h].
    - intros t Ht. destruct (Hl' t Ht) as [HU (x & g & Hx & Hg & ->)]. split; auto.
      constructor; auto. apply Hlay; auto.
    - intros ->. destruct (Hrl eq_refl) as (rl & Hbl & Hall & Hhd & Hlen).
      destruct rl as [|l0 rest]; [simpl in Hlen; lia_ns|]. cbn [hd] in Hhd. subst l0.
      exists (l' :: s_layer st :: rest). split; [|split; [|split]].
      + constructor; auto.
      + rewrite Hall. reflexivity.
      + reflexivity.
      + simpl in *. lia_ns.
  Qed.

  Lemma SInv_init sels : SInv true {| s_i := 0; s_layer := [start]; s_layer_h := [hf start];
                                      s_all_h := [[hf start]]; s_sels := sels |}
                      /\ forall rp, SInv rp {| s_i := 0; s_layer := [start]; s_layer_h := [hf start];
                                      s_all_h := [[hf start]]; s_sels := sels |}.
  Proof.
    assert (H : forall rp, SInv rp {| s_i := 0; s_layer := [start]; s_layer_h := [hf start];
                                      s_all_h := [[hf start]]; s_sels := sels |}).
    { intros rp. split; cbn [s_i s_layer s_all_h].
      - intros t [<- | []]. split; auto. constructor. left; reflexivity.
      - intros _. exists [[start]]. repeat split; auto. constructor. }
    split; auto.
  Qed.

  Lemma restore_from_inv st tgt :
    SInv true st -> U tgt -> (exists x g, In x (s_layer st) /\ In g (acts G) /\ tgt = g x) ->
    exists p, restore_path G Ginv (s_all_h st) tgt = Ok p /\ length p = S (s_i st) /\
              run state (acts G) start p = Some tgt.
  Proof.
    intros [_ Hrl] HU Hpred. destruct (Hrl eq_refl) as (rl & Hbl & Hall & Hhd & Hlen).
    rewrite Hall, <- Hlen. apply restore_beam; auto. rewrite Hhd. exact Hpred.
  Qed.

  (* the continuing branch keeps the invariant, whatever the ball and the oracle *)
  Lemma simple_iter_inl inv_map width rp ball ch st st' :
    SInv rp st -> simple_iter G Ginv inv_map width rp ball ch st = inl st' ->
    SInv rp st' /\ s_i st' = S (s_i st).
  Proof.
    intros Hinv H. unfold simple_iter in H. cbv zeta in H.
    destruct (gus (get_neighbors G (s_layer st))) as [l2 l2h] eqn:E.
    destruct (expand_spec (s_layer st) (s_i st) l2 l2h (proj1 Hinv) E) as (Hnd & Hal & Hss & Hiff & HU2).
    destruct (check_found (bfs_layers ball ch) l2h 0); [discriminate|].
    destruct (width <=? length l2)%nat.
    - destruct (s_sels st) as [|sel rest]; [discriminate|].
      destruct (valid_selection (length l2) width sel) eqn:Ev; [|discriminate].
      inversion H; subst st'; clear H. cbn [s_i]. split; [|reflexivity].
      apply valid_selection_range in Ev.
      subst l2h. rewrite (gather_map hf [] 0 l2 (snd sel) Ev).
      apply SInv_next; auto.
      intros t Ht. apply gather_In in Ht; auto. split; [apply HU2; auto | apply Hiff; auto].
    - inversion H; subst st'; clear H. cbn [s_i]. split; [|reflexivity].
      subst l2h. apply SInv_next; auto.
      intros t Ht. split; [apply HU2; auto | apply Hiff; auto].
  Qed.

  (* ---------------------------------------------------------------- *)
  (** ** Simple mode without a ball *)

  Lemma check_found_noball l2h :
    StronglySorted Z.lt l2h ->
    (check_found [[hf c]] l2h 0 = Some 0%nat /\ In (hf c) l2h) \/
    (check_found [[hf c]] l2h 0 = None /\ ~ In (hf c) l2h).
  Proof.
    intros Hss. cbn [check_found isin_ss map existsb]. rewrite orb_false_r.
    destruct (isin_ss1 l2h (hf c)) eqn:E.
    - left. split; auto. apply isin_ss1_sorted in E; auto. apply SSlt_le. exact Hss.
    - right. split; auto. intros Hin. apply isin_ss1_sorted in Hin; [congruence|].
      apply SSlt_le. exact Hss.
  Qed.

  (* the breaking branch: only the oracle error, or a sound positive answer *)
  Lemma simple_iter_inr_noball inv_map width rp st r :
    SInv rp st -> simple_iter G Ginv inv_map width rp None (hf c) st = inr r ->
    r = Err RuntimeErr \/
    exists r', r = Ok r' /\ path_found r' = true /\ path_length r' = S (s_i st) /\ R (S (s_i st)) c /\
               (forall p, bpath r' = Some p -> length p = path_length r' /\ run state (acts G) start p = Some c).
  Proof.
    intros Hinv H. unfold simple_iter in H. cbv zeta in H.
    destruct (gus (get_neighbors G (s_layer st))) as [l2 l2h] eqn:E.
    destruct (expand_spec (s_layer st) (s_i st) l2 l2h (proj1 Hinv) E) as (Hnd & Hal & Hss & Hiff & HU2).
    cbn [bfs_layers] in H.
    destruct (check_found_noball l2h Hss) as [[Hc Hin] | [Hc _]]; rewrite Hc in H.
    - right. inversion H; subst r; clear H.
      assert (Hc2 : In c l2).
      { subst l2h. apply hash_in_set in Hin; auto. intros t Ht. apply HU2; auto. }
      assert (HR : R (S (s_i st)) c) by (apply HU2; exact Hc2).
      unfold restore_found. destruct rp; cbn [negb Nat.eqb bind].
      + destruct (restore_from_inv st c Hinv c_U (proj1 (Hiff c) Hc2)) as (p & Hp & Hlen & Hrun).
        change (central G) with c. rewrite Hp. cbn [bind].
        replace (length p =? s_i st + 0 + 1)%nat with true by (symmetry; apply Nat.eqb_eq; lia).
        eexists. split; [reflexivity|]. cbn [path_found path_length bpath].
        repeat split; auto; try lia.
        * inversion H; subst. lia.
        * inversion H; subst. exact Hrun.
      + eexists. split; [reflexivity|]. cbn [path_found path_length bpath].
        repeat split; auto; try lia; discriminate.
    - destruct (width <=? length l2)%nat.
      + destruct (s_sels st) as [|sel rest].
        * inversion H. auto.
        * destruct (valid_selection (length l2) width sel); [discriminate|]. inversion H. auto.
      + discriminate.
  Qed.

  Lemma search_simple_unfold inv_map width rp ball max_steps sels :
    search_simple G Ginv inv_map width rp ball start max_steps sels =
    if hf c =? hf start then Ok {| path_found := true; path_length := 0; bpath := Some [] |}
    else match loop_nat (simple_iter G Ginv inv_map width rp ball (hf c)) (N.to_nat max_steps)
                        {| s_i := 0; s_layer := [start]; s_layer_h := [hf start];
                           s_all_h := [[hf start]]; s_sels := sels |} with
         | inl _ => Ok {| path_found := false; path_length := 0; bpath := None |}
         | inr r => r
         end.
  Proof.
    unfold search_simple.
    destruct (gus [start]) as [l1 l1h] eqn:E. apply gus_start in E. destruct E as [-> ->].
    cbv zeta. cbn [nth]. rewrite loop_N_nat. reflexivity.
  Qed.

  Lemma start_is_c : hf c = hf start -> c = start.
  Proof. intros H. apply NoColl; auto. Qed.

  Theorem simple_sound_noball inv_map width return_path max_steps sels r :
    search_simple G Ginv inv_map width return_path None start max_steps sels = Ok r -> path_found r = true ->
    R (path_length r) c /\
    (forall p, bpath r = Some p -> length p = path_length r /\ run state (acts G) start p = Some c).
  Proof.
    rewrite search_simple_unfold. destruct (hf c =? hf start) eqn:E0.
    - apply Z.eqb_eq in E0. apply start_is_c in E0.
      intros H _. inversion H; subst r; clear H. cbn [path_length bpath]. split.
      + constructor. left. symmetry. exact E0.
      + intros p Hp. inversion Hp; subst p. simpl. rewrite E0. auto.
    - destruct (loop_nat _ _ _) as [s|r0] eqn:El.
      + intros H Hf. inversion H; subst r. discriminate.
      + intros -> Hf.
        destruct (loop_nat_inr_inv _ (SInv return_path)
                    (fun s s' Hs Hb => proj1 (simple_iter_inl _ _ _ _ _ s s' Hs Hb))
                    _ _ _ (proj2 (SInv_init sels) return_path) El) as (st & Hinv & Hb).
        apply simple_iter_inr_noball in Hb; auto.
        destruct Hb as [Hb | (r' & Hr' & _ & Hlen & HR & Hp)]; [discriminate|].
        inversion Hr'; subst r'. rewrite Hlen. split; auto. rewrite <- Hlen. exact Hp.
  Qed.

  Theorem simple_total_noball inv_map width return_path max_steps sels :
    (1 <= width)%nat -> Forall (fun s : selection => True) sels ->
    (exists r, search_simple G Ginv inv_map width return_path None start max_steps sels = Ok r) \/
    search_simple G Ginv inv_map width return_path None start max_steps sels = Err RuntimeErr.
  Proof.
    intros _ _. rewrite search_simple_unfold. destruct (hf c =? hf start); [left; eauto|].
    destruct (loop_nat _ _ _) as [s|r0] eqn:El; [left; eauto|].
    destruct (loop_nat_inr_inv _ (SInv return_path)
                (fun s s' Hs Hb => proj1 (simple_iter_inl _ _ _ _ _ s s' Hs Hb))
                _ _ _ (proj2 (SInv_init sels) return_path) El) as (st & Hinv & Hb).
    apply simple_iter_inr_noball in Hb; auto.
    destruct Hb as [-> | (r' & -> & _)]; [right | left]; eauto.
  Qed.


  (* ---------------------------------------------------------------- *)
  (** ** Simple mode with a BFS ball on an inverse-closed graph *)

  Lemma nth_isin_ss_true i es hay :
    nth i (isin_ss es hay) false = true -> (i < length es)%nat /\ isin_ss1 hay (nth i es 0) = true.
  Proof.
    unfold isin_ss. intros H.
    destruct (lt_dec i (length es)) as [Hlt | Hge].
    - split; [exact Hlt|].
      rewrite (nth_indep _ false (isin_ss1 hay 0)) in H by (rewrite map_length; exact Hlt).
      rewrite map_nth in H. exact H.
    - rewrite nth_overflow in H by (rewrite map_length; lia_ns). discriminate.
  Qed.

  Section Ball.
    Variable m : list nat.
    Variable lh : list (list Z).
    Hypothesis Hm : forall i g, nth_error (acts G) i = Some g ->
      exists g', nth_error (acts G) (nth i m 0%nat) = Some g' /\ forall x, U x -> g' (g x) = x.
    Hypothesis Hball : ball_ok G c lh.

    Notation Lc i := (layer state st_eq_dec (acts G) [c] i).

    (* a state of U that lies in layer j of the ball from c has a walk of j edges TO c *)
    Lemma ball_walk_back t j : U t -> In t (Lc j) -> exists q, length q = j /\ run state (acts G) t q = Some c.
    Proof.
      intros HUt Hin. apply (ref_layers_dist state st_eq_dec (acts G)) in Hin. destruct Hin as [Hr _].
      apply (reach_walk state (acts G)) in Hr. destruct Hr as (s & p & Hs & Hlen & Hw).
      destruct Hs as [<- | []]. unfold walk in Hw.
      destruct (revert_path_valid G U U_closed m c t p Hm c_U Hw) as (q & _ & Hlq & Hrun).
      exists q. split; [lia_ns | exact Hrun].
    Qed.

    Lemma simple_iter_inr_ball width rp ns st r :
      SInv rp st ->
      simple_iter G Ginv (Some m) width rp (Some (lh, ns)) (hf c) st = inr (Ok r) ->
      path_found r = true /\ R (path_length r) c /\
      (forall p, bpath r = Some p -> length p = path_length r /\ run state (acts G) start p = Some c).
    Proof.
      intros Hinv H. unfold simple_iter in H. cbv zeta in H.
      destruct (gus (get_neighbors G (s_layer st))) as [l2 l2h] eqn:E.
      destruct (expand_spec (s_layer st) (s_i st) l2 l2h (proj1 Hinv) E) as (Hnd & Hal & Hss & Hiff & HU2).
      cbn [bfs_layers] in H.
      destruct (check_found lh l2h 0) as [j|] eqn:Ec.
      - apply check_found_some in Ec. rewrite Nat.sub_0_r in Ec. destruct Ec as (_ & Hj & Hex).
        apply existsb_id_isin_ss in Hex. destruct Hex as (e & He & Hin).
        apply isin_ss1_sorted in Hin; [|apply SSlt_le; exact Hss].
        rewrite Hal in Hin. apply in_map_iff in Hin. destruct Hin as (t & <- & Ht).
        destruct (HU2 t Ht) as [HUt HRt].
        apply (hash_in_layer G U U_closed NoColl c c_U lh j t Hball Hj HUt) in He.
        (* the length claim *)
        assert (HR : R (s_i st + j + 1) c).
        { destruct (ball_walk_back t j HUt He) as (q & Hlq & Hrun).
          replace (s_i st + j + 1)%nat with (S (s_i st) + length q)%nat by lia.
          eapply (run_reach state (acts G)); eauto. }
        (* the path claim *)
        assert (HP : forall pp, restore_found G Ginv (Some m) rp (Some (lh, ns)) st l2 l2h j (hf c) = Ok (Some pp) ->
                                run state (acts G) start pp = Some c).
        { intros pp Hrf. unfold restore_found in Hrf. destruct rp; cbn [negb] in Hrf; [|discriminate].
          destruct (j =? 0)%nat eqn:Ej.
          - apply Nat.eqb_eq in Ej. subst j. apply layer0_c in He. subst t.
            destruct (restore_from_inv st c Hinv c_U (proj1 (Hiff c) Ht)) as (p & Hp & _ & Hrun).
            change (central G) with c in Hrf. rewrite Hp in Hrf. cbn [bind] in Hrf.
            inversion Hrf; subst pp. exact Hrun.
          - destruct (first_true (isin_ss l2h (nth j lh []))) as [k|] eqn:Ef; [|discriminate].
            apply first_true_spec in Ef. destruct Ef as [Hk _].
            apply nth_isin_ss_true in Hk. destruct Hk as [Hk _].
            assert (Hk2 : (k < length l2)%nat) by (rewrite Hal, map_length in Hk; exact Hk).
            set (middle := nth k l2 []) in *.
            assert (Hmid : In middle l2) by (apply nth_In; exact Hk2).
            destruct (HU2 middle Hmid) as [HUm _].
            destruct (restore_from_inv st middle Hinv HUm (proj1 (Hiff middle) Hmid)) as (p1 & Hp1 & _ & Hrun1).
            rewrite Hp1 in Hrf. cbn [bind] in Hrf.
            destruct (find_path_from G Ginv (Some m) lh ns middle) as [[p2|]|] eqn:Ef; cbn [bind] in Hrf;
              try discriminate.
            inversion Hrf; subst pp.
            destruct (find_path_from_sound G Ginv U U_closed U_closed_inv NoColl same_len inv_undo c c_U
                        m lh ns middle p2 Hm Hball HUm Ef) as [Hrun2 _].
            rewrite (run_app state (acts G)), Hrun1. exact Hrun2. }
        inversion H as [H']; clear H.
        destruct (restore_found G Ginv (Some m) rp (Some (lh, ns)) st l2 l2h j (hf c)) as [[pp|]|] eqn:Erf;
          cbn [bind] in H'; try discriminate.
        + destruct (length pp =? s_i st + j + 1)%nat eqn:El; [|discriminate].
          apply Nat.eqb_eq in El. inversion H'; subst r. cbn [path_found path_length bpath].
          repeat split; auto.
          * inversion H; subst. exact El.
          * inversion H; subst. apply HP. reflexivity.
        + inversion H'; subst r. cbn [path_found path_length bpath]. repeat split; auto; discriminate.
      - destruct (width <=? length l2)%nat.
        + destruct (s_sels st) as [|sel rest]; [discriminate|].
          destruct (valid_selection (length l2) width sel); discriminate.
        + discriminate.
    Qed.
  End Ball.

  Theorem simple_sound_ball (m : list nat) lh ns width return_path max_steps sels r :
    (forall i g, nth_error (acts G) i = Some g ->
       exists g', nth_error (acts G) (nth i m 0%nat) = Some g' /\ forall x, U x -> g' (g x) = x) ->
    inv_closed G = true -> ball_ok G c lh -> length lh = ns -> (1 <= ns)%nat ->
    search_simple G Ginv (Some m) width return_path (Some (lh, ns)) start max_steps sels = Ok r -> path_found r = true ->
    R (path_length r) c /\
    (forall p, bpath r = Some p -> length p = path_length r /\ run state (acts G) start p = Some c).
  Proof.
    intros Hm _ Hball _ _.
    rewrite search_simple_unfold. destruct (hf c =? hf start) eqn:E0.
    - apply Z.eqb_eq in E0. apply start_is_c in E0.
      intros H _. inversion H; subst r; clear H. cbn [path_length bpath]. split.
      + constructor. left. symmetry. exact E0.
      + intros p Hp. inversion Hp; subst p. simpl. rewrite E0. auto.
    - destruct (loop_nat _ _ _) as [s|r0] eqn:El.
      + intros H Hf. inversion H; subst r. discriminate.
      + intros -> Hf.
        destruct (loop_nat_inr_inv _ (SInv return_path)
                    (fun s s' Hs Hb => proj1 (simple_iter_inl _ _ _ _ _ s s' Hs Hb))
                    _ _ _ (proj2 (SInv_init sels) return_path) El) as (st & Hinv & Hb).
        apply (simple_iter_inr_ball m lh Hm Hball) in Hb; auto. tauto.
  Qed.

  (* ---------------------------------------------------------------- *)
  (** ** Advanced mode *)

  Definition adv_filter (hd : nat) (st : ast) (new : list state) : option (list state * list (list Z) * nat) :=
    if (0 <? hd)%nat then
      let hn := hashes G new in
      let mask := map negb (isin hn (concat (a_cols st))) in
      if existsb (fun b => b) mask then
        let idx := (S (a_idx st) mod hd)%nat in
        Some (mask_select new mask, upd (a_cols st) idx (overwrite_prefix (nth idx (a_cols st) []) hn), idx)
      else None
    else Some (new, a_cols st, a_idx st).

  Lemma adv_iter_unfold width hd dest st :
    adv_iter G width hd dest st =
    let '(new, _) := gus (get_neighbors G (a_beam st)) in
    if existsb (state_eqb dest) new
    then inr (Ok {| path_found := true; path_length := a_step st; bpath := None |})
    else match adv_filter hd st new with
         | None => inr (Ok {| path_found := false; path_length := a_step st; bpath := None |})
         | Some (new, cols, idx) =>
             if (width <? length new)%nat then
               match a_sels st with
               | [] => inr (Err RuntimeErr)
               | sel :: rest =>
                   if valid_selection (length new) width sel
                   then inl {| a_step := S (a_step st); a_beam := gather [] new (snd sel);
                               a_cols := cols; a_idx := idx; a_sels := rest |}
                   else inr (Err RuntimeErr)
               end
             else inl {| a_step := S (a_step st); a_beam := new; a_cols := cols; a_idx := idx;
                         a_sels := a_sels st |}
         end.
  Proof. reflexivity. Qed.

  Definition keep (cc : list Z) (t : state) : bool := negb (isin1 cc (hf t)).

  Lemma existsb_map_id {A} (f : A -> bool) l : existsb (fun b : bool => b) (map f l) = existsb f l.
  Proof. induction l as [|a l IH]; simpl; [reflexivity | rewrite IH; reflexivity]. Qed.

  Lemma adv_filter_eq hd st new :
    adv_filter hd st new =
    if (0 <? hd)%nat then
      if existsb (keep (concat (a_cols st))) new then
        let idx := (S (a_idx st) mod hd)%nat in
        Some (filter (keep (concat (a_cols st))) new,
              upd (a_cols st) idx (overwrite_prefix (nth idx (a_cols st) []) (map hf new)), idx)
      else None
    else Some (new, a_cols st, a_idx st).
  Proof.
    unfold adv_filter. destruct (0 <? hd)%nat; [|reflexivity]. cbv zeta.
    assert (E : map negb (isin (hashes G new) (concat (a_cols st))) = map (keep (concat (a_cols st))) new).
    { unfold isin, hashes. rewrite !map_map. reflexivity. }
    rewrite E, existsb_map_id, mask_select_filter. reflexivity.
  Qed.

  Lemma adv_filter_sub hd st new new' cols idx :
    adv_filter hd st new = Some (new', cols, idx) -> forall t, In t new' -> In t new.
  Proof.
    rewrite adv_filter_eq. destruct (0 <? hd)%nat.
    - destruct (existsb _ new); [|discriminate]. cbv zeta. intros H. inversion H; subst.
      intros t Ht. apply filter_In in Ht. tauto.
    - intros H. inversion H; subst. auto.
  Qed.

  Definition AInv (st : ast) : Prop :=
    exists k, a_step st = S k /\ forall t, In t (a_beam st) -> U t /\ R k t.

  Lemma adv_iter_inl width hd dest st st' :
    AInv st -> adv_iter G width hd dest st = inl st' -> AInv st'.
  Proof.
    intros (k & Hk & Hbeam) H. rewrite adv_iter_unfold in H.
    destruct (gus (get_neighbors G (a_beam st))) as [new newh] eqn:E.
    destruct (expand_spec (a_beam st) k new newh Hbeam E) as (Hnd & Hal & Hss & Hiff & HU2).
    destruct (existsb (state_eqb dest) new); [discriminate|].
    destruct (adv_filter hd st new) as [[[new' cols] idx]|] eqn:Ef; [|discriminate].
    pose proof (adv_filter_sub hd st new new' cols idx Ef) as Hsub.
    destruct (width <? length new')%nat.
    - destruct (a_sels st) as [|sel rest]; [discriminate|].
      destruct (valid_selection (length new') width sel) eqn:Ev; [|discriminate].
      inversion H; subst st'; clear H. exists (S k). cbn [a_step a_beam]. split; [congruence|].
      intros t Ht. apply valid_selection_range in Ev. apply gather_In in Ht; auto.
    - inversion H; subst st'; clear H. exists (S k). cbn [a_step a_beam]. split; [congruence|].
      intros t Ht. auto.
  Qed.

  Lemma adv_iter_inr width hd st r :
    AInv st -> adv_iter G width hd c st = inr (Ok r) -> path_found r = true -> R (path_length r) c.
  Proof.
    intros (k & Hk & Hbeam) H Hf. rewrite adv_iter_unfold in H.
    destruct (gus (get_neighbors G (a_beam st))) as [new newh] eqn:E.
    destruct (expand_spec (a_beam st) k new newh Hbeam E) as (Hnd & Hal & Hss & Hiff & HU2).
    destruct (existsb (state_eqb c) new) eqn:Ex.
    - inversion H; subst r. cbn [path_length]. rewrite Hk.
      apply existsb_state_eqb_In in Ex. apply HU2. exact Ex.
    - destruct (adv_filter hd st new) as [[[new' cols] idx]|] eqn:Ef.
      + destruct (width <? length new')%nat; [|discriminate].
        destruct (a_sels st) as [|sel rest]; [discriminate|].
        destruct (valid_selection (length new') width sel); discriminate.
      + inversion H; subst r. discriminate.
  Qed.

  Lemma search_advanced_unfold width hd max_steps sels :
    search_advanced G width hd start c max_steps sels =
    if state_eqb start c then Ok {| path_found := true; path_length := 0; bpath := Some [] |}
    else match loop_nat (adv_iter G width hd c) (N.to_nat max_steps)
                        {| a_step := 1; a_beam := [start];
                           a_cols := repeat (repeat (hf start) (width * n_gens G)) hd;
                           a_idx := 0; a_sels := sels |} with
         | inl _ => Ok {| path_found := false; path_length := N.to_nat max_steps; bpath := None |}
         | inr r => r
         end.
  Proof. unfold search_advanced. cbv zeta. rewrite loop_N_nat. reflexivity. Qed.

  Lemma AInv_init cols idx sels :
    AInv {| a_step := 1; a_beam := [start]; a_cols := cols; a_idx := idx; a_sels := sels |}.
  Proof.
    exists 0%nat. split; [reflexivity|]. cbn [a_beam]. intros t [<- | []]. split; auto.
    constructor. left; reflexivity.
  Qed.

  Theorem advanced_sound width history max_steps sels r :
    search_advanced G width history start c max_steps sels = Ok r -> path_found r = true -> R (path_length r) c.
  Proof.
    rewrite search_advanced_unfold. destruct (state_eqb start c) eqn:E0.
    - apply z_list_eqb_eq in E0. intros H _. inversion H; subst r. cbn [path_length].
      constructor. left. exact E0.
    - destruct (loop_nat _ _ _) as [s|r0] eqn:El.
      + intros H Hf. inversion H; subst r. discriminate.
      + intros -> Hf.
        destruct (loop_nat_inr_inv _ AInv (fun s s' Hs Hb => adv_iter_inl _ _ _ s s' Hs Hb)
                    _ _ _ (AInv_init _ _ _) El) as (st & Hinv & Hb).
        eapply adv_iter_inr; eauto.
  Qed.


  (* ---------------------------------------------------------------- *)
  (** ** Exactness when nothing can be pruned *)

  Lemma R_U k t : R k t -> U t.
  Proof.
    apply (reach_in_closed state (acts G) U [start] k t U_closed).
    intros s [<- | []]. exact start_U.
  Qed.

  Section Unpruned.
    Variable width : nat.
    (* the orbit is smaller than the beam: no de-duplicated list of states of U reaches the width *)
    Hypothesis U_small : forall l : list state, NoDup l -> (forall t, In t l -> U t) -> (length l < width)%nat.

    (* simple mode: the beam after i steps is EXACTLY the set of states reachable in exactly i steps *)
    Lemma simple_iter_unpruned inv_map st :
      (forall t, In t (s_layer st) <-> R (s_i st) t) ->
      (R (S (s_i st)) c ->
         simple_iter G Ginv inv_map width false None (hf c) st =
         inr (Ok {| path_found := true; path_length := (s_i st + 0 + 1)%nat; bpath := None |})) /\
      (~ R (S (s_i st)) c ->
         exists st', simple_iter G Ginv inv_map width false None (hf c) st = inl st' /\
                     s_i st' = S (s_i st) /\ forall t, In t (s_layer st') <-> R (s_i st') t).
    Proof.
      intros Hlay. unfold simple_iter. cbv zeta.
      destruct (gus (get_neighbors G (s_layer st))) as [l2 l2h] eqn:E.
      assert (Hlay' : forall t, In t (s_layer st) -> U t /\ R (s_i st) t).
      { intros t Ht. apply Hlay in Ht. split; auto. eapply R_U; eauto. }
      destruct (expand_spec (s_layer st) (s_i st) l2 l2h Hlay' E) as (Hnd & Hal & Hss & Hiff & HU2).
      assert (Hset : forall t, In t l2 <-> R (S (s_i st)) t).
      { intros t. split.
        - intros Ht. apply HU2; auto.
        - intros Hr. apply reach_S_inv in Hr. destruct Hr as (x & g & Hx & Hg & ->).
          apply Hiff. exists x, g. repeat split; auto. apply Hlay; auto. }
      cbn [bfs_layers].
      assert (Hc : In (hf c) l2h <-> R (S (s_i st)) c).
      { rewrite Hal, hash_in_set; auto. intros t Ht; apply HU2; auto. }
      destruct (check_found_noball l2h Hss) as [[Hcf Hin] | [Hcf Hnin]]; rewrite Hcf.
      - split.
        + intros _. reflexivity.
        + intros Hn. exfalso. apply Hn, Hc, Hin.
      - split.
        + intros Hr. exfalso. apply Hnin, Hc, Hr.
        + intros _.
          assert (Hw : (width <=? length l2)%nat = false).
          { apply Nat.leb_gt. apply U_small; auto. intros t Ht; apply HU2; auto. }
          rewrite Hw. eexists. split; [reflexivity|]. cbn [s_i s_layer]. split; auto.
    Qed.

    Lemma simple_loop_exact inv_map d :
      dist_is state (acts G) [start] c d ->
      forall k n st, (s_i st + S k = d)%nat -> (forall t, In t (s_layer st) <-> R (s_i st) t) -> (S k <= n)%nat ->
      exists r, loop_nat (simple_iter G Ginv inv_map width false None (hf c)) n st = inr (Ok r) /\
                path_found r = true /\ path_length r = d.
    Proof.
      intros [Hd Hmin]. induction k as [|k IH]; intros n st Hi Hlay Hn.
      - destruct n as [|n]; [lia_ns|]. cbn [loop_nat].
        destruct (simple_iter_unpruned inv_map st Hlay) as [Hf _].
        rewrite Hf.
        + eexists. split; [reflexivity|]. cbn [path_found path_length]. split; auto; lia_ns.
        + replace (S (s_i st)) with d by lia_ns. exact Hd.
      - destruct n as [|n]; [lia_ns|]. cbn [loop_nat].
        destruct (simple_iter_unpruned inv_map st Hlay) as [_ Hc].
        destruct Hc as (st' & Hb & Hi' & Hlay').
        { apply Hmin. lia_ns. }
        rewrite Hb. apply IH; auto; lia_ns.
    Qed.

    Lemma simple_unpruned_exact_aux inv_map max_steps d :
      dist_is state (acts G) [start] c d -> (d <= N.to_nat max_steps)%nat ->
      exists r, search_simple G Ginv inv_map width false None start max_steps [] = Ok r /\
                path_found r = true /\ path_length r = d.
    Proof.
      intros Hdist Hle. rewrite search_simple_unfold. destruct d as [|d].
      - destruct Hdist as [Hd _]. apply reach_0_iff in Hd. destruct Hd as [Hd | []].
        rewrite <- Hd, Z.eqb_refl. eexists. split; [reflexivity|]. auto.
      - destruct (hf c =? hf start) eqn:E0.
        + exfalso. apply Z.eqb_eq in E0. apply start_is_c in E0.
          destruct Hdist as [_ Hmin]. apply (Hmin 0%nat); [lia_ns|]. constructor. left. auto.
        + destruct (simple_loop_exact inv_map (S d) Hdist d (N.to_nat max_steps)
                      {| s_i := 0; s_layer := [start]; s_layer_h := [hf start];
                         s_all_h := [[hf start]]; s_sels := [] |})
            as (r & Hl & Hf & Hlen); auto.
          { cbn [s_i s_layer]. intros t. symmetry. apply reach_0_iff. }
          rewrite Hl. eauto.
    Qed.

    (* advanced mode: the beam after k steps holds every state at exact distance k, and the ring buffer
       only holds hashes of states reachable in at most k steps *)
    Definition AUInv (k : nat) (st : ast) : Prop :=
      a_step st = S k /\
      (forall t, In t (a_beam st) -> U t /\ R k t) /\
      (forall t, dist_is state (acts G) [start] t k -> In t (a_beam st)) /\
      (forall h, In h (concat (a_cols st)) -> exists j t, (j <= k)%nat /\ U t /\ R j t /\ h = hf t).

    Lemma adv_iter_unpruned hd d st k :
      dist_is state (acts G) [start] c d -> AUInv k st ->
      (S k = d -> adv_iter G width hd c st =
                  inr (Ok {| path_found := true; path_length := d; bpath := None |})) /\
      ((S k < d)%nat -> exists st', adv_iter G width hd c st = inl st' /\ AUInv (S k) st').
    Proof.
      intros [Hd Hmin] (Hk & Hbeam & Hcomp & Hhist). rewrite adv_iter_unfold.
      destruct (gus (get_neighbors G (a_beam st))) as [new newh] eqn:E.
      destruct (expand_spec (a_beam st) k new newh Hbeam E) as (Hnd & Hal & Hss & Hiff & HU2).
      assert (Hnext : forall t, dist_is state (acts G) [start] t (S k) -> In t new).
      { intros t Ht. destruct (dist_pred state st_eq_dec (acts G) [start] t k Ht) as (x & g & Hx & Hg & ->).
        apply Hiff. exists x, g. auto. }
      split.
      - intros HSk. assert (Hin : In c new) by (apply Hnext; rewrite HSk; split; auto).
        apply existsb_state_eqb_In in Hin. rewrite Hin, Hk, HSk. reflexivity.
      - intros Hlt.
        assert (Hex : existsb (state_eqb c) new = false).
        { destruct (existsb (state_eqb c) new) eqn:Ex; auto. exfalso.
          apply existsb_state_eqb_In in Ex. apply (Hmin (S k)); auto. apply HU2; auto. }
        rewrite Hex, adv_filter_eq. destruct (0 <? hd)%nat eqn:Ehd.
        + set (cc := concat (a_cols st)).
          assert (Hkeep : forall t, dist_is state (acts G) [start] t (S k) -> keep cc t = true).
          { intros t [Hr Hm]. unfold keep. apply negb_true_iff.
            destruct (isin1 cc (hf t)) eqn:Ei; auto. exfalso.
            apply isin1_iff in Ei. destruct (Hhist _ Ei) as (j & t' & Hj & HUt' & HRt' & Heq).
            assert (t = t'). { apply NoColl; auto. eapply R_U; eauto. }
            subst t'. apply (Hm j); auto; lia_ns. }
          destruct (dist_class_nonempty state st_eq_dec (acts G) [start] c d (conj Hd Hmin) (S k))
            as (x & Hx); [lia_ns|].
          assert (Hexk : existsb (keep cc) new = true).
          { apply existsb_exists. exists x. split; auto. }
          rewrite Hexk. cbv beta iota zeta.
          assert (Hw : (width <? length (filter (keep cc) new))%nat = false).
          { apply Nat.ltb_ge. apply Nat.lt_le_incl. apply U_small.
            - apply NoDup_filter; auto.
            - intros t Ht. apply filter_In in Ht. apply HU2; tauto. }
          rewrite Hw. eexists. split; [reflexivity|].
          unfold AUInv; cbn [a_step a_beam a_cols]. split; [congruence|]. split; [|split].
          * intros t Ht. apply filter_In in Ht. apply HU2; tauto.
          * intros t Ht. apply filter_In. split; auto.
          * intros h Hh. apply In_concat_upd in Hh. destruct Hh as [Hh | Hh].
            -- unfold overwrite_prefix in Hh. apply in_app_iff in Hh. destruct Hh as [Hh | Hh].
               ++ apply in_map_iff in Hh. destruct Hh as (t & <- & Ht).
                  exists (S k), t. destruct (HU2 t Ht). auto.
               ++ apply In_skipn in Hh. apply nth_In_or_nil in Hh.
                  destruct (Hhist h Hh) as (j & t & Hj & HUt & HRt & Heq).
                  exists j, t. repeat split; auto; lia_ns.
            -- destruct (Hhist h Hh) as (j & t & Hj & HUt & HRt & Heq).
               exists j, t. repeat split; auto; lia_ns.
        + assert (Hw : (width <? length new)%nat = false).
          { apply Nat.ltb_ge. apply Nat.lt_le_incl. apply U_small; auto. intros t Ht. apply HU2; auto. }
          rewrite Hw. eexists. split; [reflexivity|].
          unfold AUInv; cbn [a_step a_beam a_cols]. split; [congruence|]. split; [|split]; auto.
          intros h Hh. destruct (Hhist h Hh) as (j & t & Hj & HUt & HRt & Heq).
          exists j, t. repeat split; auto; lia_ns.
    Qed.

    Lemma adv_loop_exact hd d :
      dist_is state (acts G) [start] c d ->
      forall m n st k, (S k + m = d)%nat -> AUInv k st -> (S m <= n)%nat ->
      loop_nat (adv_iter G width hd c) n st =
      inr (Ok {| path_found := true; path_length := d; bpath := None |}).
    Proof.
      intros Hdist. induction m as [|m IH]; intros n st k Hkm Hinv Hn.
      - destruct n as [|n]; [lia_ns|]. cbn [loop_nat].
        destruct (adv_iter_unpruned hd d st k Hdist Hinv) as [Hf _].
        rewrite Hf; [reflexivity | lia_ns].
      - destruct n as [|n]; [lia_ns|]. cbn [loop_nat].
        destruct (adv_iter_unpruned hd d st k Hdist Hinv) as [_ Hc].
        destruct Hc as (st' & Hb & Hinv'); [lia_ns|].
        rewrite Hb. apply (IH n st' (S k)); auto; lia_ns.
    Qed.

    Lemma advanced_unpruned_exact_aux history max_steps d :
      dist_is state (acts G) [start] c d -> (d <= N.to_nat max_steps)%nat ->
      exists r, search_advanced G width history start c max_steps [] = Ok r /\
                path_found r = true /\ path_length r = d.
    Proof.
      intros Hdist Hle. rewrite search_advanced_unfold. destruct d as [|d].
      - destruct Hdist as [Hd _]. apply reach_0_iff in Hd. destruct Hd as [Hd | []].
        replace (state_eqb start c) with true by (symmetry; apply z_list_eqb_eq; exact Hd).
        eexists. split; [reflexivity|]. auto.
      - destruct (state_eqb start c) eqn:E0.
        + exfalso. apply z_list_eqb_eq in E0.
          destruct Hdist as [_ Hmin]. apply (Hmin 0%nat); [lia_ns|]. constructor. left. auto.
        + rewrite (adv_loop_exact history (S d) Hdist d (N.to_nat max_steps) _ 0%nat); auto.
          * eexists. split; [reflexivity|]. auto.
          * unfold AUInv; cbn [a_step a_beam a_cols]. split; [reflexivity|]. split; [|split].
            -- intros t [<- | []]. split; auto. constructor. left; reflexivity.
            -- intros t [Ht _]. apply reach_0_iff in Ht. exact Ht.
            -- intros h Hh. apply in_concat in Hh. destruct Hh as (col & Hcol & Hh).
               apply repeat_spec in Hcol. subst col. apply repeat_spec in Hh. subst h.
               exists 0%nat, start. repeat split; auto. constructor. left; reflexivity.
    Qed.
  End Unpruned.

  (* "unpruned": [U_small] below says that the orbit is smaller than the beam, i.e. every duplicate-free
     list of states of U is shorter than the beam width; then the oracle is never consulted (sels = []). *)
  Theorem simple_unpruned_exact inv_map width max_steps d :
    (forall l : list state, NoDup l -> (forall t, In t l -> U t) -> (length l < width)%nat) ->
    dist_is state (acts G) [start] c d -> (d <= N.to_nat max_steps)%nat ->
    exists r, search_simple G Ginv inv_map width false None start max_steps [] = Ok r /\
              path_found r = true /\ path_length r = d.
  Proof. intros Hs. apply simple_unpruned_exact_aux. exact Hs. Qed.

  Theorem advanced_unpruned_exact width history max_steps d :
    (forall l : list state, NoDup l -> (forall t, In t l -> U t) -> (length l < width)%nat) ->
    dist_is state (acts G) [start] c d -> (d <= N.to_nat max_steps)%nat ->
    exists r, search_advanced G width history start c max_steps [] = Ok r /\
              path_found r = true /\ path_length r = d.
  Proof. intros Hs. apply advanced_unpruned_exact_aux. exact Hs. Qed.


  (* ---------------------------------------------------------------- *)
  (** ** Corollaries: a reported length is never below the true distance (pruned or not) *)

  Lemma R_ge_dist k d : R k c -> dist_is state (acts G) [start] c d -> (d <= k)%nat.
  Proof.
    intros Hr [_ Hmin]. destruct (le_lt_dec d k) as [Hle | Hgt]; [exact Hle|].
    exfalso. exact (Hmin k Hgt Hr).
  Qed.

  Corollary simple_noball_ge_dist inv_map width return_path max_steps sels r d :
    search_simple G Ginv inv_map width return_path None start max_steps sels = Ok r -> path_found r = true ->
    dist_is state (acts G) [start] c d -> (d <= path_length r)%nat.
  Proof.
    intros H Hf Hd. eapply R_ge_dist; [|exact Hd].
    exact (proj1 (simple_sound_noball _ _ _ _ _ _ H Hf)).
  Qed.

  Corollary simple_ball_ge_dist (m : list nat) lh ns width return_path max_steps sels r d :
    (forall i g, nth_error (acts G) i = Some g ->
       exists g', nth_error (acts G) (nth i m 0%nat) = Some g' /\ forall x, U x -> g' (g x) = x) ->
    inv_closed G = true -> ball_ok G c lh -> length lh = ns -> (1 <= ns)%nat ->
    search_simple G Ginv (Some m) width return_path (Some (lh, ns)) start max_steps sels = Ok r -> path_found r = true ->
    dist_is state (acts G) [start] c d -> (d <= path_length r)%nat.
  Proof.
    intros Hm Hic Hb Hl Hn H Hf Hd. eapply R_ge_dist; [|exact Hd].
    exact (proj1 (simple_sound_ball m lh ns _ _ _ _ _ Hm Hic Hb Hl Hn H Hf)).
  Qed.

  Corollary advanced_ge_dist width history max_steps sels r d :
    search_advanced G width history start c max_steps sels = Ok r -> path_found r = true ->
    dist_is state (acts G) [start] c d -> (d <= path_length r)%nat.
  Proof.
    intros H Hf Hd. eapply R_ge_dist; [|exact Hd]. eapply advanced_sound; eauto.
  Qed.

End BeamCorrect.

Print Assumptions simple_sound_noball.
Print Assumptions simple_total_noball.
Print Assumptions simple_sound_ball.
Print Assumptions advanced_sound.
Print Assumptions simple_unpruned_exact.
Print Assumptions advanced_unpruned_exact.
