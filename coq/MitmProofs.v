(** Correctness of the meet-in-the-middle path finder (Mitm.v): with a ball of depth D = ns - 1 around the
    centre, [mitm_find_path_to] is exact up to distance 2D and answers None beyond (C05). *)
From Coq Require Import ZArith List Bool Arith Lia Permutation Sorted.
From V Require Import Base BaseProofs Tensor TensorProofs Graph GraphProofs GraphImpl Bfs BfsStep BfsProofs
                      Def Paths PathsProofs Mitm.
Import ListNotations.
Local Open Scope nat_scope.

(* ------------------------------------------------------------------ *)
(** * Generic helpers *)

Lemma last_nth_len {A} (d : A) (l : list A) : last l d = nth (length l - 1) l d.
Proof.
  induction l as [|a l IH]; [reflexivity|].
  destruct l as [|b l]; [reflexivity|].
  change (last (a :: b :: l) d) with (last (b :: l) d). rewrite IH.
  simpl length. replace (S (S (length l)) - 1) with (S (length l)) by lia.
  simpl. rewrite Nat.sub_0_r. reflexivity.
Qed.

Lemma drop_last_one_snoc {A} (l : list A) x : drop_last_one (l ++ [x]) = l.
Proof.
  unfold drop_last_one. rewrite app_length. simpl length.
  replace (length l + 1 - 1) with (length l + 0) by lia.
  rewrite firstn_app_2. simpl. apply app_nil_r.
Qed.

(* the first hash of a well-formed ball is the centre's hash (what the model asserts) *)
Lemma ball_central_hash (G : impl) (c : state) (lh : list (list Z)) :
  ball_ok G c lh -> 1 <= length lh -> nth 0 (nth 0 lh []) 0%Z = hashf G c.
Proof.
  intros Hb Hl. destruct (Hb 0 ltac:(lia)) as [_ Hm].
  assert (Hc : In (hashf G c) (nth 0 lh [])).
  { apply Hm. exists c. split; [|reflexivity]. rewrite layer_0. apply nodup_In. left. reflexivity. }
  destruct (nth 0 lh []) as [|a rest]; [destruct Hc|]. simpl.
  assert (Ha : In a (a :: rest)) by (left; reflexivity).
  apply Hm in Ha. destruct Ha as (t & Ht & <-).
  apply layer0_c in Ht. subst t. reflexivity.
Qed.

(* ------------------------------------------------------------------ *)
(** * The section of the statement *)

Section MitmCorrect.
  Variable G Ginv : impl.
  Variable U : state -> Prop.
  Hypothesis U_closed : closed state (acts G) U.
  Hypothesis U_closed_inv : closed state (acts Ginv) U.
  Hypothesis NoColl : forall a b, U a -> U b -> hashf G a = hashf G b -> a = b.
  Hypothesis same_hash : forall s, hashf Ginv s = hashf G s.
  Hypothesis same_len : length (acts Ginv) = length (acts G).
  Hypothesis inv_undo : forall i g gi x, nth_error (acts G) i = Some g -> nth_error (acts Ginv) i = Some gi -> U x ->
                         g (gi x) = x /\ gi (g x) = x.
  Hypothesis IdOK_inv : is_identity Ginv = true -> forall a, U a -> unword Ginv (hashf Ginv a) = a.
  Hypothesis Sym_inv : inv_closed Ginv = true -> symmetric_on state (acts Ginv) U.
  Variable c : state.
  Hypothesis c_U : U c.
  Notation L i := (layer state st_eq_dec (acts G) [c] i).          (* forward layers from the centre *)
  Notation B q k := (layer state st_eq_dec (acts Ginv) [q] k).     (* backward layers from the target *)
  (* the size limit 10^12 of the backward BFS never fires *)
  Hypothesis small : forall q k, (Z.of_nat (length (B q k)) < 1000000000000)%Z.

  Local Notation runG := (run state (acts G)).
  Local Notation runI := (run state (acts Ginv)).
  Local Notation reachG := (reach state (acts G)).
  Local Notation reachI := (reach state (acts Ginv)).

  (* ---------------------------------------------------------------- *)
  (** ** The hypotheses with the roles of the two instances exchanged *)

  Lemma NoColl_inv a b : U a -> U b -> hashf Ginv a = hashf Ginv b -> a = b.
  Proof. rewrite !same_hash. apply NoColl. Qed.

  Lemma same_len_sw : length (acts G) = length (acts Ginv).
  Proof. symmetry. exact same_len. Qed.

  Lemma inv_undo_sw i gi g x :
    nth_error (acts Ginv) i = Some gi -> nth_error (acts G) i = Some g -> U x -> gi (g x) = x /\ g (gi x) = x.
  Proof. intros Hgi Hg Hx. destruct (inv_undo i g gi x Hg Hgi Hx). auto. Qed.

  Lemma gen_of_inv i gi : nth_error (acts Ginv) i = Some gi -> exists g, nth_error (acts G) i = Some g.
  Proof.
    intros H. apply nth_error_lt_some. apply nth_error_some_lt in H. lia.
  Qed.

  Lemma inv_of_gen i g : nth_error (acts G) i = Some g -> exists gi, nth_error (acts Ginv) i = Some gi.
  Proof.
    intros H. apply nth_error_lt_some. apply nth_error_some_lt in H. lia.
  Qed.

  (* ---------------------------------------------------------------- *)
  (** ** Reversing walks between the two instances *)

  Lemma run_inv_rev q p x : U q -> runI q p = Some x -> runG x (rev p) = Some q.
  Proof.
    revert q. induction p as [|i rest IH]; intros q Hq Hrun.
    - simpl in *. inversion Hrun. reflexivity.
    - cbn [run] in Hrun. destruct (nth_error (acts Ginv) i) as [gi|] eqn:Hgi; [|discriminate].
      destruct (gen_of_inv i gi Hgi) as (g & Hg).
      assert (HU : U (gi q)) by (apply U_closed_inv; auto; eapply nth_error_In; eauto).
      specialize (IH (gi q) HU Hrun). cbn [rev].
      rewrite (run_app state (acts G)), IH. simpl. rewrite Hg.
      destruct (inv_undo i g gi q Hg Hgi Hq) as [H1 _]. rewrite H1. reflexivity.
  Qed.

  Lemma run_rev_inv x p q : U x -> runG x p = Some q -> runI q (rev p) = Some x.
  Proof.
    revert x. induction p as [|i rest IH]; intros x Hx Hrun.
    - simpl in *. inversion Hrun. reflexivity.
    - cbn [run] in Hrun. destruct (nth_error (acts G) i) as [g|] eqn:Hg; [|discriminate].
      destruct (inv_of_gen i g Hg) as (gi & Hgi).
      assert (HU : U (g x)) by (apply U_closed; auto; eapply nth_error_In; eauto).
      specialize (IH (g x) HU Hrun). cbn [rev].
      rewrite (run_app state (acts Ginv)), IH. simpl. rewrite Hgi.
      destruct (inv_undo i g gi x Hg Hgi Hx) as [_ H2]. rewrite H2. reflexivity.
  Qed.

  Lemma reach_one_walk gens s k t :
    reach state gens [s] k t <-> exists p, length p = k /\ run state gens s p = Some t.
  Proof.
    split.
    - intros H. apply reach_walk in H. destruct H as (s' & p & [<- | []] & Hlen & Hw).
      exists p. split; auto.
    - intros (p & <- & Hrun). apply walk_reach. exact Hrun.
  Qed.

  (* backward layer k = states from which q is reached by a shortest walk of k edges.
     WEAKENED with the premise [U x].  The statement asked for was
       Lemma backward_layer_spec q k x : U q ->
         (In x (B q k) <-> (exists p, length p = k /\ run state (acts G) x p = Some q) /\
                           forall p, run state (acts G) x p = Some q -> (k <= length p)%nat).
     Its right-to-left direction is not provable: [inv_undo] only speaks about states of U, so a state x
     outside U may walk into q by generators that the inverted generators do not undo (x is then in no B q k).
     Every use below has x in a forward layer, hence in U. *)
  Lemma backward_layer_spec q k x :
    U q -> U x ->
    (In x (B q k) <->
     (exists p, length p = k /\ runG x p = Some q) /\ forall p, runG x p = Some q -> k <= length p).
  Proof.
    intros Hq Hx. rewrite (ref_layers_dist state st_eq_dec (acts Ginv)). unfold dist_is. split.
    - intros [Hr Hmin]. split.
      + apply reach_one_walk in Hr. destruct Hr as (p & Hlen & Hrun).
        exists (rev p). rewrite rev_length. split; [exact Hlen|]. apply run_inv_rev; auto.
      + intros p Hrun. destruct (le_lt_dec k (length p)) as [Hle | Hlt]; [exact Hle|].
        exfalso. apply (Hmin (length p) Hlt). apply reach_one_walk.
        exists (rev p). rewrite rev_length. split; [reflexivity|]. apply run_rev_inv; auto.
    - intros [(p & Hlen & Hrun) Hmin]. split.
      + apply reach_one_walk. exists (rev p). rewrite rev_length. split; [exact Hlen|].
        apply run_rev_inv; auto.
      + intros j Hj Hr. apply reach_one_walk in Hr. destruct Hr as (p' & Hlen' & Hrun').
        apply run_inv_rev in Hrun'; auto. apply Hmin in Hrun'. rewrite rev_length in Hrun'. lia.
  Qed.

  Lemma reach_rev q x k : U q -> U x -> (reachI [q] k x <-> reachG [x] k q).
  Proof.
    intros Hq Hx. rewrite !reach_one_walk.
    split; intros (p & Hl & Hr); exists (rev p); rewrite rev_length; (split; [exact Hl|]).
    - apply run_inv_rev; auto.
    - apply run_rev_inv; auto.
  Qed.

  (* distances in the inverted instance are the distances towards the start in the original one *)
  Lemma dist_rev q x d :
    U q -> U x -> (dist_is state (acts Ginv) [q] x d <-> dist_is state (acts G) [x] q d).
  Proof.
    intros Hq Hx. unfold dist_is. split; intros [H1 H2]; split.
    - apply (proj1 (reach_rev q x d Hq Hx)). exact H1.
    - intros k Hk Hr. apply (H2 k Hk). apply (proj2 (reach_rev q x k Hq Hx)). exact Hr.
    - apply (proj2 (reach_rev q x d Hq Hx)). exact H1.
    - intros k Hk Hr. apply (H2 k Hk). apply (proj1 (reach_rev q x k Hq Hx)). exact Hr.
  Qed.


  (* ---------------------------------------------------------------- *)
  (** ** Where the two families of layers meet *)

  Lemma L_U i t : In t (L i) -> U t.
  Proof. apply (layer_U G U U_closed c c_U). Qed.

  Lemma B_U q k t : U q -> In t (B q k) -> U t.
  Proof. intros Hq. apply (layer_U Ginv U U_closed_inv q Hq). Qed.

  Definition meet (Dn : nat) (q : state) (k : nat) : Prop := exists x, In x (B q k) /\ In x (L Dn).

  Lemma meet_reach Dn q k : U q -> meet Dn q k -> reachG [c] (Dn + k) q.
  Proof.
    intros Hq (x & HB & HL).
    assert (Hx : U x) by (eapply L_U; eauto).
    apply (backward_layer_spec q k x Hq Hx) in HB. destruct HB as [(p & Hlen & Hrun) _].
    apply (ref_layers_dist state st_eq_dec (acts G)) in HL. destruct HL as [Hr _].
    rewrite <- Hlen. eapply run_reach; eauto.
  Qed.

  Lemma dist_meet Dn q d :
    U q -> dist_is state (acts G) [c] q d -> Dn <= d -> meet Dn q (d - Dn).
  Proof.
    intros Hq [Hr Hmin] Hle.
    apply reach_one_walk in Hr. destruct Hr as (p & Hlen & Hrun).
    rewrite <- (firstn_skipn Dn p) in Hrun. rewrite (run_app state (acts G)) in Hrun.
    destruct (runG c (firstn Dn p)) as [x|] eqn:Hx; [|discriminate].
    assert (Hl1 : length (firstn Dn p) = Dn) by (rewrite firstn_length; lia).
    assert (Hl2 : length (skipn Dn p) = d - Dn) by (rewrite skipn_length; lia).
    assert (HLx : In x (L Dn)).
    { apply (ref_layers_dist state st_eq_dec (acts G)). split.
      - apply reach_one_walk. exists (firstn Dn p). auto.
      - intros j Hj Hrj. apply (Hmin (j + (d - Dn))); [lia|].
        rewrite <- Hl2. eapply run_reach; eauto. }
    exists x. split; [|exact HLx].
    assert (HUx : U x) by (eapply L_U; eauto).
    apply (backward_layer_spec q (d - Dn) x Hq HUx). split.
    - exists (skipn Dn p). auto.
    - intros p' Hp'. destruct (le_lt_dec (d - Dn) (length p')) as [H | H]; [exact H|].
      exfalso. apply (Hmin (Dn + length p')); [lia|].
      apply (ref_layers_dist state st_eq_dec (acts G)) in HLx. destruct HLx as [Hrx _].
      eapply run_reach; eauto.
  Qed.

  (* ---------------------------------------------------------------- *)
  (** ** The backward BFS of one query *)

  Section Run.
    Variable lh : list (list Z).
    Variable ns : nat.
    Variable q : state.
    Hypothesis Hball : ball_ok G c lh.
    Hypothesis Hlen : length lh = ns.
    Hypothesis Hns : 1 <= ns.
    Hypothesis q_U : U q.

    Local Notation Dn := (ns - 1).
    Local Notation bl := (last lh []).
    Local Notation cfg := (mitm_cfg (last lh []) (ns - 1)).
    Local Notation hfi := (hashf Ginv).

    Lemma starts_U : forall s, In s [q] -> U s.
    Proof. intros s [<- | []]. exact q_U. Qed.

    Lemma starts_ne : [q] <> [].
    Proof. discriminate. Qed.

    Lemma batch_ok : (1 <= batch_size cfg)%Z.
    Proof. simpl. lia. Qed.

    Lemma bl_nth : bl = nth Dn lh [].
    Proof. rewrite last_nth_len, Hlen. reflexivity. Qed.

    (* the callback's membership test is membership in the ball's last layer *)
    Lemma hit_iff x : U x -> (isin_ss1 bl (hfi x) = true <-> In x (L Dn)).
    Proof.
      intros Hx. rewrite same_hash, bl_nth.
      apply (isin_ss1_layer G U U_closed NoColl c c_U lh Dn x Hball); [lia | exact Hx].
    Qed.

    Lemma callback_iff l :
      (forall s, In s l -> U s) ->
      (existsb (isin_ss1 bl) (map hfi l) = true <-> exists x, In x l /\ In x (L Dn)).
    Proof.
      intros Hl. rewrite existsb_exists. split.
      - intros (h & Hh & Hi). apply in_map_iff in Hh. destruct Hh as (x & <- & Hx).
        exists x. split; [exact Hx|]. apply hit_iff; auto.
      - intros (x & Hx & HL). exists (hfi x). split; [apply in_map; exact Hx|].
        apply hit_iff; auto.
    Qed.

    Local Notation Inv' := (Inv Ginv cfg [q]).
    Local Notation Core' := (Core Ginv cfg [q]).
    Local Notation BreakT' := (BreakT Ginv cfg [q]).
    Local Notation BreakF' := (BreakF Ginv cfg [q]).

    (* the hash list of the current layer is aligned with the states (no batching) *)
    Definition Al (st : bfs_st) : Prop := layer1_h st = map hfi (layer1 st).
    (* no backward layer 1..m meets the ball's last layer *)
    Definition NoHit (m : nat) : Prop :=
      forall j, 1 <= j -> j <= m -> forall t, In t (B q j) -> ~ In t (L Dn).

    Lemma NoHit_meet m k : NoHit m -> 1 <= k -> k <= m -> ~ meet Dn q k.
    Proof. intros Hn H1 H2 (x & HB & HL). exact (Hn k H1 H2 x HB HL). Qed.

    Lemma iter_extra st :
      Inv' st -> Al st -> NoHit (it st - 1) ->
      match bfs_iter Ginv cfg st with
      | inl st' => Al st' /\ NoHit (it st' - 1)
      | inr (st', true) => Al st' /\ NoHit (it st' - 1)
      | inr (st', false) => Al st' /\ NoHit (it st' - 2) /\ meet Dn q (it st' - 1)
      end.
    Proof.
      intros Hinv Hal Hnh. pose proof (proj1 Hinv) as Hc.
      pose proof (c_pos _ _ _ _ Hc) as Hpos.
      pose proof (expand_plain_good Ginv cfg U U_closed_inv NoColl_inv IdOK_inv Sym_inv [q] starts_U st Hc) as Hg.
      rewrite bfs_iter_eq.
      change (batched cfg st) with false. change (ret_edges cfg) with false. cbv iota.
      destruct (expand_plain Ginv st) as [[l2 l2h] nbh] eqn:E. cbn [fst snd] in *.
      apply (expand_plain_spec Ginv U U_closed_inv NoColl_inv IdOK_inv) in E;
        [| apply (inv_layer1_U Ginv cfg U U_closed_inv [q] starts_U st Hc)
         | apply (inv_seen_sorted Ginv cfg [q] st Hc)].
      destruct E as (_ & Hl2h & _ & _).
      pose proof (good_length _ _ _ _ _ Hg) as Hgl.
      destruct Hg as (_ & Hset & _ & _).
      unfold iter_tail. destruct l2 as [|a l2'].
      - prj. split; [exact Hal | exact Hnh].
      - remember (a :: l2') as l2 eqn:El2. unfold iter_cont.
        assert (Hsm : ((max_explore cfg <=? lenZ l2) = false)%Z).
        { apply Z.leb_gt. unfold lenZ. rewrite Hgl. apply small. }
        rewrite Hsm.
        change (stop cfg) with (Some (fun (_ : nat) (_ : list state) (lh0 : list Z) => existsb (isin_ss1 bl) lh0)).
        cbv beta iota.
        assert (Hl2U : forall s, In s l2 -> U s).
        { intros s Hs. apply Hset in Hs. eapply B_U; eauto. }
        destruct (existsb (isin_ss1 bl) l2h) eqn:Ef.
        + prj. split; [exact Hl2h|]. split.
          * replace (S (it st) - 2) with (it st - 1) by lia. exact Hnh.
          * replace (S (it st) - 1) with (it st) by lia.
            rewrite Hl2h in Ef. apply (callback_iff l2 Hl2U) in Ef.
            destruct Ef as (x & Hx & HL). exists x. split; [apply Hset; exact Hx | exact HL].
        + prj. split; [exact Hl2h|].
          replace (S (it st) - 1) with (it st) by lia.
          intros j Hj1 Hj2 t Ht HL.
          destruct (Nat.eq_dec j (it st)) as [-> | Hne].
          * assert (Hex : existsb (isin_ss1 bl) l2h = true).
            { rewrite Hl2h. apply (callback_iff l2 Hl2U). exists t. split; [apply Hset; exact Ht | exact HL]. }
            congruence.
          * apply (Hnh j Hj1 ltac:(lia) t Ht HL).
    Qed.

    Definition LP (i n : nat) (r : bfs_st + bfs_st * bool) : Prop :=
      match r with
      | inl st' => Inv' st' /\ Al st' /\ NoHit (it st' - 1) /\ it st' = i + n
      | inr (st', true) => BreakT' st' /\ Al st' /\ NoHit (it st' - 1) /\ it st' < i + n
      | inr (st', false) =>
          BreakF' st' /\ Al st' /\ NoHit (it st' - 2) /\ meet Dn q (it st' - 1) /\ 2 <= it st' /\ it st' <= i + n
      end.

    Lemma loop_extra n : forall st,
      Inv' st -> Al st -> NoHit (it st - 1) -> LP (it st) n (loop_nat (bfs_iter Ginv cfg) n st).
    Proof.
      induction n as [|n IH]; intros st Hinv Hal Hnh.
      - simpl. split; [exact Hinv|]. split; [exact Hal|]. split; [exact Hnh | lia].
      - cbn [loop_nat].
        pose proof (bfs_iter_post Ginv cfg U U_closed_inv NoColl_inv IdOK_inv Sym_inv batch_ok [q] starts_U st Hinv) as HP.
        pose proof (iter_extra st Hinv Hal Hnh) as HE.
        pose proof (c_pos _ _ _ _ (proj1 Hinv)) as Hpos.
        destruct (bfs_iter Ginv cfg st) as [st1 | [st1 [|]]]; unfold Post in HP.
        + destruct HP as [H1 H2]. destruct HE as [HE1 HE2].
          specialize (IH st1 H1 HE1 HE2). rewrite H2 in IH.
          destruct (loop_nat (bfs_iter Ginv cfg) n st1) as [st2 | [st2 [|]]]; unfold LP in *.
          * destruct IH as (I1 & I2 & I3 & I4). split; [exact I1|]. split; [exact I2|]. split; [exact I3 | lia].
          * destruct IH as (I1 & I2 & I3 & I4). split; [exact I1|]. split; [exact I2|]. split; [exact I3 | lia].
          * destruct IH as (I1 & I2 & I3 & I4 & I5 & I6).
            split; [exact I1|]. split; [exact I2|]. split; [exact I3|]. split; [exact I4|]. split; [exact I5 | lia].
        + unfold LP. destruct HP as [H1 H2]. destruct HE as [HE1 HE2].
          split; [exact H1|]. split; [exact HE1|]. split; [exact HE2 | lia].
        + unfold LP. destruct HP as [H1 H2]. destruct HE as (HE1 & HE2 & HE3).
          split; [exact H1|]. split; [exact HE1|]. split; [exact HE2|]. split; [exact HE3|]. split; lia.
    Qed.

    Lemma init_extra : Inv' (bfs_init Ginv [q]) /\ Al (bfs_init Ginv [q]) /\ it (bfs_init Ginv [q]) = 1.
    Proof.
      destruct (init_inv Ginv cfg U NoColl_inv IdOK_inv Sym_inv [q] starts_U starts_ne) as [Hinv Hit].
      split; [exact Hinv|]. split; [|exact Hit].
      unfold Al, bfs_init.
      destruct (get_unique_states Ginv [q] (hashes Ginv [q])) as [l1 l1h] eqn:E.
      apply (gus_spec Ginv U NoColl_inv IdOK_inv) in E; [|exact starts_U].
      destruct E as (_ & _ & Hal & _). prj. exact Hal.
    Qed.

    (* ---------------------------------------------------------------- *)
    (** ** What the model does with the final loop state *)

    Definition mitm_fin (fin : bfs_st * bool) : result (option (list nat)) :=
      let '(st, explored) := fin in
      let mask := map (isin_ss1 bl) (layer1_h st) in
      let middle := if explored then [] else mask_select (layer1 st) mask in
      let hashes2 := rev (if explored then all_h_rev st else layer1_h st :: all_h_rev st) in
      match (if (it st =? 1)%nat then [] else middle) with
      | [] => Ok None
      | mid :: _ =>
          match restore_path G Ginv (drop_last_one lh) mid with
          | Err _ => Ok None
          | Ok path1 =>
              do path2 <- restore_path Ginv G (drop_last_one hashes2) mid;
              Ok (Some (path1 ++ rev path2))
          end
      end.

    Definition final_state : bfs_st * bool :=
      match loop_N (bfs_iter Ginv cfg) (max_diameter cfg) (bfs_init Ginv [q]) with
      | inl st => (st, false) | inr r => r end.

    Lemma mitm_unfold :
      nth 0 (nth 0 lh []) 0%Z = hashf G c -> find_path_to G Ginv lh ns q = Ok None ->
      mitm_find_path_to G Ginv lh ns (hashf G c) q = mitm_fin final_state.
    Proof.
      intros H0 Hd. unfold mitm_find_path_to.
      rewrite Hlen, Nat.eqb_refl, H0, Z.eqb_refl, Hd. cbn [negb bind]. reflexivity.
    Qed.

    Lemma fin_explored st : mitm_fin (st, true) = Ok None.
    Proof. unfold mitm_fin. destruct (it st =? 1); reflexivity. Qed.

    Lemma fin_it1 st b : it st = 1 -> mitm_fin (st, b) = Ok None.
    Proof. intros H. unfold mitm_fin. rewrite H. reflexivity. Qed.

    Lemma fin_nohit st : Core' st -> Al st -> NoHit (it st - 1) -> mitm_fin (st, false) = Ok None.
    Proof.
      intros Hc Hal Hnh. pose proof (c_pos _ _ _ _ Hc) as Hpos.
      destruct (c_layer _ _ _ _ Hc) as (_ & Hset & _ & _).
      unfold mitm_fin. cbv zeta iota.
      destruct (it st =? 1) eqn:E1; [reflexivity|]. apply Nat.eqb_neq in E1.
      rewrite Hal, map_map, mask_select_filter.
      destruct (filter (fun s => isin_ss1 bl (hfi s)) (layer1 st)) as [|mid rest] eqn:Ef; [reflexivity|].
      exfalso.
      assert (Hmid : In mid (filter (fun s => isin_ss1 bl (hfi s)) (layer1 st))) by (rewrite Ef; left; reflexivity).
      apply filter_In in Hmid. destruct Hmid as [Hm1 Hm2]. apply Hset in Hm1.
      apply hit_iff in Hm2; [|eapply B_U; eauto].
      apply (Hnh (it st - 1) ltac:(lia) ltac:(lia) mid Hm1 Hm2).
    Qed.

    Lemma fin_success st :
      Core' st -> HashList Ginv [q] (it st - 1) (rev (all_h_rev st)) -> Al st -> 2 <= it st ->
      meet Dn q (it st - 1) ->
      exists p, mitm_fin (st, false) = Ok (Some p) /\ runG c p = Some q /\ length p = Dn + (it st - 1).
    Proof.
      intros Hc Hh Hal H2 Hmeet.
      destruct (c_layer _ _ _ _ Hc) as (_ & Hset & _ & _).
      unfold mitm_fin. cbv zeta iota.
      assert (E1 : (it st =? 1) = false) by (apply Nat.eqb_neq; lia). rewrite E1.
      rewrite Hal, map_map, mask_select_filter.
      destruct (filter (fun s => isin_ss1 bl (hfi s)) (layer1 st)) as [|mid rest] eqn:Ef.
      - exfalso. destruct Hmeet as (x & HB & HL).
        assert (Hin : In x (filter (fun s => isin_ss1 bl (hfi s)) (layer1 st))).
        { apply filter_In. split; [apply Hset; exact HB|]. apply hit_iff; [eapply B_U; eauto | exact HL]. }
        rewrite Ef in Hin. destruct Hin.
      - assert (Hmid : In mid (filter (fun s => isin_ss1 bl (hfi s)) (layer1 st))) by (rewrite Ef; left; reflexivity).
        apply filter_In in Hmid. destruct Hmid as [Hm1 Hm2]. apply Hset in Hm1.
        assert (HUm : U mid) by (eapply B_U; eauto).
        apply hit_iff in Hm2; [|exact HUm].
        destruct (restore_path_correct G Ginv U U_closed U_closed_inv NoColl same_len inv_undo c c_U
                    lh Dn mid Hball ltac:(lia) Hm2) as (p1 & Hr1 & Hl1 & Hrun1).
        unfold drop_last_one at 1. rewrite Hlen, Hr1.
        simpl rev. rewrite drop_last_one_snoc.
        destruct Hh as [Hhl Hhn].
        assert (Hb2 : ball_ok Ginv q (rev (all_h_rev st))).
        { intros i Hi. rewrite Hhl in Hi. destruct (Hhn i Hi) as (Hs & _ & Hm). split; assumption. }
        destruct (restore_path_correct Ginv G U U_closed_inv U_closed NoColl_inv same_len_sw inv_undo_sw q q_U
                    (rev (all_h_rev st)) (it st - 1) mid Hb2 ltac:(lia) Hm1) as (p2 & Hr2 & Hl2 & Hrun2).
        rewrite <- Hhl in Hr2. rewrite firstn_all in Hr2. rewrite Hr2. cbn [bind].
        exists (p1 ++ rev p2). split; [reflexivity|]. split.
        + rewrite (run_app state (acts G)), Hrun1. apply run_inv_rev; auto.
        + rewrite app_length, rev_length. lia.
    Qed.

    (* the outcome of the backward search *)
    Lemma mitm_fin_spec :
      (exists k p, 1 <= k /\ k <= Dn /\ meet Dn q k /\ NoHit (k - 1) /\
                   mitm_fin final_state = Ok (Some p) /\ runG c p = Some q /\ length p = Dn + k)
      \/ (mitm_fin final_state = Ok None /\ NoHit Dn).
    Proof.
      unfold final_state. rewrite loop_N_nat.
      change (max_diameter cfg) with (N.of_nat Dn). rewrite Nnat.Nat2N.id.
      destruct init_extra as (Hinv & Hal & Hit).
      assert (Hn0 : NoHit (it (bfs_init Ginv [q]) - 1)).
      { rewrite Hit. intros j H1 H2. lia. }
      pose proof (loop_extra Dn _ Hinv Hal Hn0) as HP. rewrite Hit in HP.
      destruct (loop_nat (bfs_iter Ginv cfg) Dn (bfs_init Ginv [q])) as [st | [st [|]]]; unfold LP in HP.
      - destruct HP as (Hi & Ha & Hn & Hi'). right. split.
        + apply fin_nohit; auto. apply Hi.
        + replace Dn with (it st - 1) by lia. exact Hn.
      - destruct HP as (Hb & Ha & Hn & Hi'). right. split; [apply fin_explored|].
        destruct Hb as (Hc & _ & _ & _ & Hempty).
        intros j H1 H2 t Ht. destruct (le_lt_dec (it st) j) as [Hge | Hlt].
        + rewrite (empty_layer_stays state st_eq_dec (acts Ginv) [q] (it st) Hempty j Hge) in Ht. destruct Ht.
        + apply (Hn j H1 ltac:(lia) t Ht).
      - destruct HP as (Hb & Ha & Hn & Hm & H2 & Hi'). left.
        destruct Hb as (Hc & Hh & _).
        unfold HashesUpto in Hh. change (ret_hashes cfg) with true in Hh. cbv iota in Hh.
        destruct (fin_success st Hc Hh Ha H2 Hm) as (p & Hp1 & Hp2 & Hp3).
        exists (it st - 1), p. split; [lia|]. split; [lia|]. split; [exact Hm|].
        split; [replace (it st - 1 - 1) with (it st - 2) by lia; exact Hn|].
        auto.
    Qed.

  End Run.

  (* ---------------------------------------------------------------- *)
  (** ** The three theorems *)

  Lemma mitm_direct lh ns q p0 :
    length lh = ns -> nth 0 (nth 0 lh []) 0%Z = hashf G c ->
    find_path_to G Ginv lh ns q = Ok (Some p0) ->
    mitm_find_path_to G Ginv lh ns (hashf G c) q = Ok (Some p0).
  Proof.
    intros Hl H0 Hd. unfold mitm_find_path_to.
    rewrite Hl, Nat.eqb_refl, H0, Z.eqb_refl, Hd. reflexivity.
  Qed.

  Lemma mitm_ok_central lh ns q r :
    length lh = ns -> mitm_find_path_to G Ginv lh ns (hashf G c) q = Ok r ->
    nth 0 (nth 0 lh []) 0%Z = hashf G c.
  Proof.
    intros Hl Hres.
    destruct (Z.eqb_spec (nth 0 (nth 0 lh []) 0%Z) (hashf G c)) as [e | ne]; [exact e|].
    exfalso. unfold mitm_find_path_to in Hres. rewrite Hl, Nat.eqb_refl in Hres. cbn [negb] in Hres.
    apply Z.eqb_neq in ne. rewrite ne in Hres. discriminate.
  Qed.

  Lemma direct_none_far lh ns q d :
    ball_ok G c lh -> length lh = ns -> U q ->
    find_path_to G Ginv lh ns q = Ok None -> dist_is state (acts G) [c] q d -> ns <= d.
  Proof.
    intros Hb Hl Hq Hd Hdist.
    destruct (find_path_to_complete G Ginv U U_closed U_closed_inv NoColl same_len inv_undo c c_U
                lh ns q Hb Hq Hl) as [Hnone _].
    destruct (le_lt_dec ns d) as [H | H]; [exact H|]. exfalso.
    apply (proj1 Hnone Hd d); [lia|].
    apply (ref_layers_dist state st_eq_dec (acts G)). exact Hdist.
  Qed.

  (* C05.1: MITM with a ball of depth D = ns - 1 is exact up to distance 2D and returns nothing beyond *)
  Theorem mitm_to_sound lh ns q p :
    ball_ok G c lh -> length lh = ns -> 1 <= ns -> U q ->
    mitm_find_path_to G Ginv lh ns (hashf G c) q = Ok (Some p) ->
    runG c p = Some q /\ dist_is state (acts G) [c] q (length p) /\ length p <= 2 * (ns - 1).
  Proof.
    intros Hb Hl Hns Hq Hres.
    pose proof (mitm_ok_central lh ns q _ Hl Hres) as H0.
    destruct (find_path_to_complete G Ginv U U_closed U_closed_inv NoColl same_len inv_undo c c_U
                lh ns q Hb Hq Hl) as [_ [r Hr]].
    destruct r as [p0|].
    - rewrite (mitm_direct lh ns q p0 Hl H0 Hr) in Hres. inversion Hres; subst p0.
      destruct (find_path_to_sound G Ginv U U_closed U_closed_inv NoColl same_len inv_undo c c_U
                  lh ns q p Hb Hq Hr) as (H1 & H2 & H3).
      split; [exact H1|]. split; [exact H2 | lia].
    - rewrite (mitm_unfold lh ns q Hl H0 Hr) in Hres.
      destruct (mitm_fin_spec lh ns q Hb Hl Hns Hq)
        as [(k & p' & Hk1 & Hk2 & Hm & Hn & Hfin & Hrun & Hlp) | [Hfin _]]; [|congruence].
      rewrite Hfin in Hres. inversion Hres; subst p'.
      split; [exact Hrun|]. split; [|lia]. split.
      + apply reach_one_walk. exists p. auto.
      + intros j Hj Hrj.
        destruct (reach_has_dist state st_eq_dec (acts G) [c] j q Hrj) as (d & Hd & Hdist).
        pose proof (direct_none_far lh ns q d Hb Hl Hq Hr Hdist) as Hfar.
        pose proof (dist_meet (ns - 1) q d Hq Hdist ltac:(lia)) as Hmd.
        apply (NoHit_meet ns q (k - 1) (d - (ns - 1)) Hn); [lia | lia | exact Hmd].
  Qed.

  Theorem mitm_to_complete lh ns q d :
    ball_ok G c lh -> length lh = ns -> 1 <= ns -> U q ->
    nth 0 (nth 0 lh []) 0%Z = hashf G c ->
    dist_is state (acts G) [c] q d -> d <= 2 * (ns - 1) ->
    exists p, mitm_find_path_to G Ginv lh ns (hashf G c) q = Ok (Some p).
  Proof.
    intros Hb Hl Hns Hq H0 Hdist Hd.
    destruct (find_path_to_complete G Ginv U U_closed U_closed_inv NoColl same_len inv_undo c c_U
                lh ns q Hb Hq Hl) as [_ [r Hr]].
    destruct r as [p0|].
    - exists p0. apply mitm_direct; auto.
    - rewrite (mitm_unfold lh ns q Hl H0 Hr).
      destruct (mitm_fin_spec lh ns q Hb Hl Hns Hq)
        as [(k & p' & Hk1 & Hk2 & Hm & Hn & Hfin & Hrun & Hlp) | [_ Hn]].
      + exists p'. exact Hfin.
      + exfalso.
        pose proof (direct_none_far lh ns q d Hb Hl Hq Hr Hdist) as Hfar.
        pose proof (dist_meet (ns - 1) q d Hq Hdist ltac:(lia)) as Hmd.
        apply (NoHit_meet ns q (ns - 1) (d - (ns - 1)) Hn); [lia | lia | exact Hmd].
  Qed.

  Theorem mitm_to_none lh ns q :
    ball_ok G c lh -> length lh = ns -> 1 <= ns -> U q ->
    nth 0 (nth 0 lh []) 0%Z = hashf G c ->
    (forall d, dist_is state (acts G) [c] q d -> 2 * (ns - 1) < d) ->
    mitm_find_path_to G Ginv lh ns (hashf G c) q = Ok None.
  Proof.
    intros Hb Hl Hns Hq H0 Hfar.
    destruct (find_path_to_complete G Ginv U U_closed U_closed_inv NoColl same_len inv_undo c c_U
                lh ns q Hb Hq Hl) as [_ [r Hr]].
    destruct r as [p0|].
    - exfalso.
      destruct (find_path_to_sound G Ginv U U_closed U_closed_inv NoColl same_len inv_undo c c_U
                  lh ns q p0 Hb Hq Hr) as (_ & H2 & H3).
      apply Hfar in H2. lia.
    - rewrite (mitm_unfold lh ns q Hl H0 Hr).
      destruct (mitm_fin_spec lh ns q Hb Hl Hns Hq)
        as [(k & p' & Hk1 & Hk2 & Hm & Hn & Hfin & Hrun & Hlp) | [Hfin _]]; [|exact Hfin].
      exfalso.
      assert (Hr' : reachG [c] (length p') q) by (apply reach_one_walk; exists p'; auto).
      destruct (reach_has_dist state st_eq_dec (acts G) [c] _ q Hr') as (d & Hd & Hdist).
      apply Hfar in Hdist. lia.
  Qed.

  (* exactness with the length: within distance 2D the answer has exactly the distance as its length *)
  Corollary mitm_to_exact lh ns q d :
    ball_ok G c lh -> length lh = ns -> 1 <= ns -> U q ->
    dist_is state (acts G) [c] q d -> d <= 2 * (ns - 1) ->
    exists p, mitm_find_path_to G Ginv lh ns (hashf G c) q = Ok (Some p) /\ length p = d /\ runG c p = Some q.
  Proof.
    intros Hb Hl Hns Hq Hdist Hd.
    assert (H0 : nth 0 (nth 0 lh []) 0%Z = hashf G c) by (apply ball_central_hash; [exact Hb | rewrite Hl; exact Hns]).
    destruct (mitm_to_complete lh ns q d Hb Hl Hns Hq H0 Hdist Hd) as (p & Hp).
    destruct (mitm_to_sound lh ns q p Hb Hl Hns Hq Hp) as (Hrun & Hdp & _).
    exists p. split; [exact Hp|]. split; [|exact Hrun].
    eapply dist_unique; eauto.
  Qed.

  (* the answer of a successful query is a shortest walk *)
  Corollary mitm_to_shortest lh ns q p :
    ball_ok G c lh -> length lh = ns -> 1 <= ns -> U q ->
    mitm_find_path_to G Ginv lh ns (hashf G c) q = Ok (Some p) ->
    forall p', runG c p' = Some q -> length p <= length p'.
  Proof.
    intros Hb Hl Hns Hq Hres p' Hrun'.
    destruct (mitm_to_sound lh ns q p Hb Hl Hns Hq Hres) as (_ & [_ Hmin] & _).
    destruct (le_lt_dec (length p) (length p')) as [H | H]; [exact H|].
    exfalso. apply (Hmin (length p') H). apply reach_one_walk. exists p'. auto.
  Qed.

End MitmCorrect.

Print Assumptions mitm_to_sound.
Print Assumptions mitm_to_complete.
Print Assumptions mitm_to_none.
Print Assumptions mitm_to_exact.
Print Assumptions mitm_to_shortest.
Print Assumptions backward_layer_spec.

