(** Model of CayleyGraphDef: inverse map, inverse-closed flag, inverted definition, inverse closure,
    path reversal, and MatrixGenerator.inv with the float inverse as an oracle. *)
From Coq Require Import ZArith List Bool Arith Lia String.
From V Require Import Base W64 Perm Matrix.
Import ListNotations.

(* index of the LAST element satisfying f (a dict built left to right keeps the last index of a key;
   the matrix loop overwrites i_inv on every match) *)
Definition last_index {A} (f : A -> bool) (l : list A) : option nat :=
  fold_left (fun acc '(i, x) => if f x then Some i else acc) (combine (seq 0 (List.length l)) l) None.

Fixpoint sequence {A} (l : list (option A)) : option (list A) :=
  match l with
  | [] => Some []
  | None :: _ => None
  | Some a :: t => match sequence t with Some r => Some (a :: r) | None => None end
  end.

(* generators_inverse_map *)
Definition perm_inverse_map (perms : list (list nat)) : option (list nat) :=
  sequence (map (fun p => last_index (nat_list_eqb (inverse_perm p)) perms) perms).

Definition matrix_inverse_map (modulo : Z) (n : nat) (mats : list (list (list Z))) : option (list nat) :=
  sequence (map (fun M => last_index (fun M' => is_inverse_to modulo n M M') mats) mats).

Definition is_some {A} (o : option A) : bool := match o with Some _ => true | None => false end.

(* with_inverted_generators (permutations) *)
Definition inverted_perms (perms : list (list nat)) : list (list nat) := map inverse_perm perms.

(* MatrixGenerator.inv: cand = rint(np.linalg.inv(matrix)) as int64 (oracle), verified by one product *)
Definition mat_inv (modulo : Z) (n : nat) (M cand : list (list Z)) : result (list (list Z)) :=
  if mat_eqb (mat_mul modulo n M cand) (eye n)
  then Ok (if (0 <? modulo)%Z then map (map (fun x => (x mod modulo)%Z)) cand else cand)
  else Err AssertionErr.

(* make_inverse_closed (permutations): generators, names, name *)
Definition mic_perms (perms : list (list nat)) (names : list string) (name : string)
  : list (list nat) * list string * string :=
  if is_some (perm_inverse_map perms) then (perms, names, name)
  else
    let missing := filter (fun '(p, _) => negb (existsb (nat_list_eqb (inverse_perm p)) perms)) (combine perms names) in
    (perms ++ map (fun '(p, _) => inverse_perm p) missing,
     names ++ map (fun '(_, nm) => (nm ++ "'")%string) missing,
     if String.eqb name "" then name else (name ++ "-ic")%string).

(* make_inverse_closed (matrices): which generators get an inverse appended (the inverse itself is the oracle-backed inv) *)
Definition mic_matrix_missing (modulo : Z) (n : nat) (mats : list (list (list Z))) : list nat :=
  if is_some (matrix_inverse_map modulo n mats) then []
  else map fst (filter (fun '(_, M) => negb (existsb (fun M' => is_inverse_to modulo n M M') mats))
                       (combine (seq 0 (List.length mats)) mats)).

(* revert_path *)
Definition revert_path (idx : option (list nat)) (path : list nat) : result (list nat) :=
  match idx with
  | None => Err AssertionErr
  | Some m => Ok (map (fun i => nth i m 0%nat) (rev path))
  end.
