(** E1 - the BFS theorems (C01, C09) instantiated for the concrete permutation-graph model [impl_of d].
    No structural hypothesis is left: for a well-formed permutation description with an honest inverse-closed
    flag, the only remaining assumption is the absence of hash collisions on [Ustates d] - and for the identity
    hasher on one-word codes not even that. *)
From Coq Require Import ZArith List Bool Arith Lia Sorting.Sorted.
From V Require Import Base BaseProofs Tensor Perm Codec Hash Graph GraphProofs GraphImpl Def Bfs BfsStep BfsProofs
                      BfsRun PathRun InstPerm.
Import ListNotations.

(* ------------------------------------------------------------------ *)
(** * Under NoColl only *)

(* C01: an exhaustive run reports exactly the distance classes of the permutation graph *)
Theorem bfs_perm_completed_correct : forall (d : gdesc) (cfg : bfs_cfg),
  wf_perm_desc d -> flag_sound d -> NoCollOn (impl_of d) (Ustates d) ->
  (1 <= batch_size cfg)%Z ->
  forall starts, (forall s, In s starts -> Ustates d s) -> starts <> [] ->
  forall o, bfs (impl_of d) cfg starts = Ok o -> completed o = true ->
  let L := fun i => layer state st_eq_dec (acts (impl_of d)) starts i in
  let D := length (sizes o) in
  sizes o = map (fun i => length (L i)) (seq 0 D) /\ (forall i, (i < D)%nat -> L i <> []) /\
  (forall i, (D <= i)%nat -> L i = []) /\
  (forall k l, In (k, l) (layers o) -> NoDup l /\ set_eq l (L k)) /\
  (exists l, In ((D - 1)%nat, l) (layers o)) /\ (exists l, In (0%nat, l) (layers o)).
Proof.
  intros d cfg Hwf Hflag Hnc Hb starts Hs Hne.
  destruct (impl_of_hyps d Hwf Hflag Hnc) as (Hcl & Hid & Hsym).
  exact (bfs_completed_correct (impl_of d) cfg (Ustates d) Hcl Hnc Hid Hsym Hb starts Hs Hne).
Qed.

(* C01: the run completes whenever no limit can fire *)
Theorem bfs_perm_completes : forall (d : gdesc) (cfg : bfs_cfg),
  wf_perm_desc d -> flag_sound d -> NoCollOn (impl_of d) (Ustates d) ->
  (1 <= batch_size cfg)%Z ->
  forall starts, (forall s, In s starts -> Ustates d s) -> starts <> [] ->
  let L := fun i => layer state st_eq_dec (acts (impl_of d)) starts i in
  stop cfg = None -> (forall i, (Z.of_nat (length (L i)) < max_explore cfg)%Z) ->
  (exists k, (k <= N.to_nat (max_diameter cfg))%nat /\ L k = []) ->
  exists o, bfs (impl_of d) cfg starts = Ok o /\ completed o = true.
Proof.
  intros d cfg Hwf Hflag Hnc Hb starts Hs Hne.
  destruct (impl_of_hyps d Hwf Hflag Hnc) as (Hcl & Hid & Hsym).
  exact (bfs_completes (impl_of d) cfg (Ustates d) Hcl Hnc Hid Hsym Hb starts Hs Hne).
Qed.

(* C09: an early-stopped run returns exactly the documented prefix *)
Theorem bfs_perm_prefix : forall (d : gdesc) (cfg : bfs_cfg),
  wf_perm_desc d -> flag_sound d -> NoCollOn (impl_of d) (Ustates d) ->
  (1 <= batch_size cfg)%Z ->
  forall starts, (forall s, In s starts -> Ustates d s) -> starts <> [] ->
  forall o, bfs (impl_of d) cfg starts = Ok o ->
  let L := fun i => layer state st_eq_dec (acts (impl_of d)) starts i in
  let D := length (sizes o) in
  (1 <= D)%nat /\
  sizes o = map (fun i => length (L i)) (seq 0 D) /\
  (forall i, (i < D)%nat -> L i <> []) /\
  (D - 1 <= N.to_nat (max_diameter cfg))%nat /\
  (completed o = true -> L D = []) /\
  (completed o = false ->
      (D - 1 = N.to_nat (max_diameter cfg))%nat
      \/ (max_explore cfg <= Z.of_nat (length (L (D - 1)%nat)))%Z
      \/ (exists f l lh, stop cfg = Some f /\ f (D - 1)%nat l lh = true /\ set_eq l (L (D - 1)%nat))) /\
  (forall j, (1 <= j)%nat -> (j < D - 1)%nat -> (Z.of_nat (length (L j)) < max_explore cfg)%Z) /\
  (forall k l, In (k, l) (layers o) -> (k < D)%nat /\ NoDup l /\ set_eq l (L k)) /\
  NoDup (map fst (layers o)) /\
  (forall k, (k < D)%nat ->
      ((exists l, In (k, l) (layers o)) <->
       k = 0%nat \/ (Z.of_nat (length (L k)) <= max_store cfg)%Z \/ (completed o = true /\ k = (D - 1)%nat))) /\
  (ret_hashes cfg = false -> layer_hashes o = []) /\
  (ret_hashes cfg = true -> length (layer_hashes o) = D /\
      forall i, (i < D)%nat ->
        let hs := nth i (layer_hashes o) [] in
        StronglySorted Z.lt hs /\ length hs = length (L i) /\
        (forall h, In h hs <-> exists t, In t (L i) /\ hashf (impl_of d) t = h)) /\
  callback_trace o = seq 1 (length (callback_trace o)) /\ (length (callback_trace o) <= D - 1)%nat.
Proof.
  intros d cfg Hwf Hflag Hnc Hb starts Hs Hne.
  destruct (impl_of_hyps d Hwf Hflag Hnc) as (Hcl & Hid & Hsym).
  exact (bfs_prefix (impl_of d) cfg (Ustates d) Hcl Hnc Hid Hsym Hb starts Hs Hne).
Qed.

(* C01: two descriptions of the same generators (any widths, hashers, seeds), any two configurations:
   same sizes, same layers.  The common universe is the intersection of the two (they differ when the widths do). *)
Lemma wf_same_perms_n d1 d2 : wf_perm_desc d1 -> wf_perm_desc d2 -> desc_perms d1 = desc_perms d2 -> desc_n d1 = desc_n d2.
Proof.
  intros H1 H2 E. pose proof H1 as (_ & Hne & _).
  destruct (desc_perms d1) as [|p t] eqn:Ep; [congruence|].
  assert (In p (desc_perms d1)) as Hin1 by (rewrite Ep; left; reflexivity).
  assert (In p (desc_perms d2)) as Hin2 by (rewrite <- E; left; reflexivity).
  destruct (wf_perm_in d1 p H1 Hin1) as [_ <-]. destruct (wf_perm_in d2 p H2 Hin2) as [_ <-]. reflexivity.
Qed.

Lemma symmetric_on_sub (gens : list (state -> state)) (U V : state -> Prop) :
  (forall x, V x -> U x) -> symmetric_on state gens U -> symmetric_on state gens V.
Proof. intros Hsub H g x Hg Hx. apply (H g x Hg). apply Hsub. exact Hx. Qed.

Theorem bfs_perm_config_independent : forall (d1 d2 : gdesc) (cfg1 cfg2 : bfs_cfg) starts o1 o2,
  wf_perm_desc d1 -> flag_sound d1 -> NoCollOn (impl_of d1) (Ustates d1) ->
  wf_perm_desc d2 -> flag_sound d2 -> NoCollOn (impl_of d2) (Ustates d2) ->
  desc_perms d1 = desc_perms d2 ->
  (1 <= batch_size cfg1)%Z -> (1 <= batch_size cfg2)%Z ->
  (forall s, In s starts -> Ustates d1 s /\ Ustates d2 s) -> starts <> [] ->
  bfs (impl_of d1) cfg1 starts = Ok o1 -> bfs (impl_of d2) cfg2 starts = Ok o2 ->
  completed o1 = true -> completed o2 = true ->
  sizes o1 = sizes o2 /\
  forall k l1 l2, In (k, l1) (layers o1) -> In (k, l2) (layers o2) -> set_eq l1 l2.
Proof.
  intros d1 d2 cfg1 cfg2 starts o1 o2 Hwf1 Hf1 Hnc1 Hwf2 Hf2 Hnc2 Ep Hb1 Hb2 Hs Hne R1 R2 C1 C2.
  destruct (impl_of_hyps d1 Hwf1 Hf1 Hnc1) as (Hcl1 & Hid1 & Hsym1).
  destruct (impl_of_hyps d2 Hwf2 Hf2 Hnc2) as (Hcl2 & Hid2 & Hsym2).
  set (U := fun s => Ustates d1 s /\ Ustates d2 s).
  assert (Ea : acts (impl_of d1) = acts (impl_of d2)).
  { unfold impl_of. rewrite (perm_acts_wf _ _ d1 Hwf1), (perm_acts_wf _ _ d2 Hwf2), Ep. reflexivity. }
  assert (HclU1 : closed state (acts (impl_of d1)) U).
  { intros g x Hg [Hx1 Hx2]. split; [apply Hcl1; assumption | apply Hcl2; [rewrite <- Ea|]; assumption]. }
  assert (HclU2 : closed state (acts (impl_of d2)) U) by (rewrite <- Ea; exact HclU1).
  apply (bfs_config_independent (impl_of d1) (impl_of d2) cfg1 cfg2 U starts o1 o2 Ea HclU1); auto.
  - intros a b [Ha _] [Hb _]. apply Hnc1; assumption.
  - intros Hi a [Ha _]. apply Hid1; assumption.
  - intros Hi. apply (symmetric_on_sub _ (Ustates d1) U); [intros x [Hx _]; exact Hx | apply Hsym1; exact Hi].
  - intros a b [_ Ha] [_ Hb]. apply Hnc2; assumption.
  - intros Hi a [_ Ha]. apply Hid2; assumption.
  - intros Hi. apply (symmetric_on_sub _ (Ustates d2) U); [intros x [_ Hx]; exact Hx | apply Hsym2; exact Hi].
Qed.

(* ------------------------------------------------------------------ *)
(** * Identity hasher on one-word codes: NO hash hypothesis at all *)

Theorem bfs_perm_identity_hash_unconditional : forall (d : gdesc) (cfg : bfs_cfg),
  wf_perm_desc d -> flag_sound d -> g_hasher d = HIdentity -> single_word d ->
  (1 <= batch_size cfg)%Z ->
  forall starts, (forall s, In s starts -> Ustates d s) -> starts <> [] ->
  forall o, bfs (impl_of d) cfg starts = Ok o -> completed o = true ->
  let L := fun i => layer state st_eq_dec (acts (impl_of d)) starts i in
  let D := length (sizes o) in
  sizes o = map (fun i => length (L i)) (seq 0 D) /\ (forall i, (i < D)%nat -> L i <> []) /\
  (forall i, (D <= i)%nat -> L i = []) /\
  (forall k l, In (k, l) (layers o) -> NoDup l /\ set_eq l (L k)) /\
  (exists l, In ((D - 1)%nat, l) (layers o)) /\ (exists l, In (0%nat, l) (layers o)).
Proof.
  intros d cfg Hwf Hflag Hh Hsw. apply bfs_perm_completed_correct; auto.
  apply (impl_of_identity_nocoll d Hwf Hh Hsw).
Qed.

Theorem bfs_perm_identity_hash_completes_unconditional : forall (d : gdesc) (cfg : bfs_cfg),
  wf_perm_desc d -> flag_sound d -> g_hasher d = HIdentity -> single_word d ->
  (1 <= batch_size cfg)%Z ->
  forall starts, (forall s, In s starts -> Ustates d s) -> starts <> [] ->
  let L := fun i => layer state st_eq_dec (acts (impl_of d)) starts i in
  stop cfg = None -> (forall i, (Z.of_nat (length (L i)) < max_explore cfg)%Z) ->
  (exists k, (k <= N.to_nat (max_diameter cfg))%nat /\ L k = []) ->
  exists o, bfs (impl_of d) cfg starts = Ok o /\ completed o = true.
Proof.
  intros d cfg Hwf Hflag Hh Hsw. apply bfs_perm_completes; auto.
  apply (impl_of_identity_nocoll d Hwf Hh Hsw).
Qed.

Theorem bfs_perm_identity_hash_prefix_unconditional : forall (d : gdesc) (cfg : bfs_cfg),
  wf_perm_desc d -> flag_sound d -> g_hasher d = HIdentity -> single_word d ->
  (1 <= batch_size cfg)%Z ->
  forall starts, (forall s, In s starts -> Ustates d s) -> starts <> [] ->
  forall o, bfs (impl_of d) cfg starts = Ok o ->
  let L := fun i => layer state st_eq_dec (acts (impl_of d)) starts i in
  let D := length (sizes o) in
  (1 <= D)%nat /\
  sizes o = map (fun i => length (L i)) (seq 0 D) /\
  (forall i, (i < D)%nat -> L i <> []) /\
  (D - 1 <= N.to_nat (max_diameter cfg))%nat /\
  (completed o = true -> L D = []) /\
  (completed o = false ->
      (D - 1 = N.to_nat (max_diameter cfg))%nat
      \/ (max_explore cfg <= Z.of_nat (length (L (D - 1)%nat)))%Z
      \/ (exists f l lh, stop cfg = Some f /\ f (D - 1)%nat l lh = true /\ set_eq l (L (D - 1)%nat))) /\
  (forall j, (1 <= j)%nat -> (j < D - 1)%nat -> (Z.of_nat (length (L j)) < max_explore cfg)%Z) /\
  (forall k l, In (k, l) (layers o) -> (k < D)%nat /\ NoDup l /\ set_eq l (L k)) /\
  NoDup (map fst (layers o)) /\
  (forall k, (k < D)%nat ->
      ((exists l, In (k, l) (layers o)) <->
       k = 0%nat \/ (Z.of_nat (length (L k)) <= max_store cfg)%Z \/ (completed o = true /\ k = (D - 1)%nat))) /\
  (ret_hashes cfg = false -> layer_hashes o = []) /\
  (ret_hashes cfg = true -> length (layer_hashes o) = D /\
      forall i, (i < D)%nat ->
        let hs := nth i (layer_hashes o) [] in
        StronglySorted Z.lt hs /\ length hs = length (L i) /\
        (forall h, In h hs <-> exists t, In t (L i) /\ hashf (impl_of d) t = h)) /\
  callback_trace o = seq 1 (length (callback_trace o)) /\ (length (callback_trace o) <= D - 1)%nat.
Proof.
  intros d cfg Hwf Hflag Hh Hsw. apply bfs_perm_prefix; auto.
  apply (impl_of_identity_nocoll d Hwf Hh Hsw).
Qed.

(* same generators, both with one-word identity hashing (e.g. two different widths): identical answers, unconditionally *)
Theorem bfs_perm_identity_hash_config_independent_unconditional : forall (d1 d2 : gdesc) (cfg1 cfg2 : bfs_cfg) starts o1 o2,
  wf_perm_desc d1 -> flag_sound d1 -> g_hasher d1 = HIdentity -> single_word d1 ->
  wf_perm_desc d2 -> flag_sound d2 -> g_hasher d2 = HIdentity -> single_word d2 ->
  desc_perms d1 = desc_perms d2 ->
  (1 <= batch_size cfg1)%Z -> (1 <= batch_size cfg2)%Z ->
  (forall s, In s starts -> Ustates d1 s /\ Ustates d2 s) -> starts <> [] ->
  bfs (impl_of d1) cfg1 starts = Ok o1 -> bfs (impl_of d2) cfg2 starts = Ok o2 ->
  completed o1 = true -> completed o2 = true ->
  sizes o1 = sizes o2 /\
  forall k l1 l2, In (k, l1) (layers o1) -> In (k, l2) (layers o2) -> set_eq l1 l2.
Proof.
  intros d1 d2 cfg1 cfg2 starts o1 o2 Hwf1 Hf1 Hh1 Hsw1 Hwf2 Hf2 Hh2 Hsw2.
  apply bfs_perm_config_independent; auto.
  - apply (impl_of_identity_nocoll d1 Hwf1 Hh1 Hsw1).
  - apply (impl_of_identity_nocoll d2 Hwf2 Hh2 Hsw2).
Qed.

(* ------------------------------------------------------------------ *)
(** * Non-vacuity *)

Definition cfg_default : bfs_cfg :=
  {| batch_size := 1048576; max_store := 1000; max_explore := 1000000000000; max_diameter := 50%N;
     ret_edges := false; ret_hashes := true; no_batching := false; stop := None |}.

(* the run on LRX(5) exists and completes ... *)
Example lrx5_run : exists o, bfs (impl_of lrx5) cfg_default [g_central lrx5] = Ok o /\ completed o = true /\
  sizes o = [1; 3; 6; 10; 16; 24; 29; 21; 6; 3; 1]%nat.
Proof.
  destruct (bfs (impl_of lrx5) cfg_default [g_central lrx5]) as [o|e] eqn:E.
  - exists o. split; [reflexivity|].
    assert (H : (match bfs (impl_of lrx5) cfg_default [g_central lrx5] with
                 | Ok o' => completed o' && nat_list_eqb (sizes o') [1; 3; 6; 10; 16; 24; 29; 21; 6; 3; 1]%nat
                 | Err _ => false end) = true) by (vm_compute; reflexivity).
    rewrite E in H. apply andb_true_iff in H as [H1 H2]. split; [exact H1|].
    apply PermProofs.list_eqb_nat_true. exact H2.
  - exfalso.
    assert (H : (match bfs (impl_of lrx5) cfg_default [g_central lrx5] with Ok _ => true | Err _ => false end) = true)
      by (vm_compute; reflexivity).
    rewrite E in H. discriminate.
Qed.

(* ... hence, with no assumption whatsoever, the growth of LRX(5) from the identity is 1,3,6,10,16,24,29,21,6,3,1 and
   its diameter is 10 *)
Example lrx5_growth :
  let L := fun i => layer state st_eq_dec (acts (impl_of lrx5)) [g_central lrx5] i in
  map (fun i => length (L i)) (seq 0 11) = [1; 3; 6; 10; 16; 24; 29; 21; 6; 3; 1]%nat /\
  (forall i, (11 <= i)%nat -> L i = []).
Proof.
  destruct lrx5_run as (o & Ho & Hc & Hs).
  assert (Hst : forall s, In s [g_central lrx5] -> Ustates lrx5 s).
  { intros s [<- | []]. apply (perm_central_U Consts.splitmix_steps Consts.hash_mult lrx5 lrx5_wf). }
  assert (Hne : [g_central lrx5] <> []) by discriminate.
  assert (Hb : (1 <= batch_size cfg_default)%Z) by (cbn; lia).
  pose proof (bfs_perm_identity_hash_unconditional lrx5 cfg_default lrx5_wf lrx5_flag eq_refl lrx5_single
                Hb [g_central lrx5] Hst Hne o Ho Hc) as H.
  cbv zeta in H. rewrite Hs in H. cbn [length] in H. destruct H as (H1 & _ & H3 & _).
  split; [symmetry; exact H1 | exact H3].
Qed.

(* the NoColl-conditional theorem applies to the two-word splitmix description: its hypotheses are satisfiable
   (wf, flag) and NoColl is the one genuine assumption *)
Example big24_instance : forall cfg, NoCollOn (impl_of big24) (Ustates big24) -> (1 <= batch_size cfg)%Z ->
  forall o, bfs (impl_of big24) cfg [g_central big24] = Ok o -> (1 <= length (sizes o))%nat.
Proof.
  intros cfg Hnc Hb o Ho.
  assert (Hst : forall s, In s [g_central big24] -> Ustates big24 s).
  { intros s [<- | []]. apply (perm_central_U Consts.splitmix_steps Consts.hash_mult big24 big24_wf). }
  assert (Hne : [g_central big24] <> []) by discriminate.
  apply (bfs_perm_prefix big24 cfg big24_wf big24_flag Hnc Hb _ Hst Hne o Ho).
Qed.

Print Assumptions bfs_perm_completed_correct.
Print Assumptions bfs_perm_completes.
Print Assumptions bfs_perm_prefix.
Print Assumptions bfs_perm_config_independent.
Print Assumptions bfs_perm_identity_hash_unconditional.
Print Assumptions bfs_perm_identity_hash_completes_unconditional.
Print Assumptions bfs_perm_identity_hash_prefix_unconditional.
Print Assumptions bfs_perm_identity_hash_config_independent_unconditional.
Print Assumptions lrx5_growth.
