(** Proofs about abstract Schreier graphs: reference BFS layers are exactly the distance classes. *)
From Coq Require Import List Bool Arith Lia.
Import ListNotations.
From V Require Import Graph.

Section GraphProofs.
  Variable St : Type.
  Variable eq_dec : forall a b : St, {a = b} + {a <> b}.
  Variable gens : list (St -> St).

  Local Notation run := (Graph.run St gens).
  Local Notation walk := (Graph.walk St gens).
  Local Notation reach := (Graph.reach St gens).
  Local Notation dist_is := (Graph.dist_is St gens).
  Local Notation N := (Graph.N St gens).
  Local Notation mem := (Graph.mem St eq_dec).
  Local Notation ref_layers := (Graph.ref_layers St eq_dec gens).
  Local Notation layer := (Graph.layer St eq_dec gens).
  Local Notation seen_upto := (Graph.seen_upto St eq_dec gens).
  Local Notation symmetric_on := (Graph.symmetric_on St gens).
  Local Notation closed := (Graph.closed St gens).

  (* ------------------------------------------------------------------ *)
  (* unfolding equations *)

  Lemma mem_true_iff x l : mem x l = true <-> In x l.
  Proof.
    unfold Graph.mem. destruct (in_dec eq_dec x l); split; intros; auto; discriminate.
  Qed.

  Lemma mem_false_iff x l : mem x l = false <-> ~ In x l.
  Proof.
    unfold Graph.mem. destruct (in_dec eq_dec x l); split; intros; auto; try discriminate.
    contradiction.
  Qed.

  Lemma layer_0 S : layer S 0 = nodup eq_dec S.
  Proof. reflexivity. Qed.

  Lemma seen_0 S : seen_upto S 0 = nodup eq_dec S.
  Proof. reflexivity. Qed.

  Lemma layer_S S i :
    layer S (Datatypes.S i) =
    nodup eq_dec (filter (fun x => negb (mem x (seen_upto S i))) (N (layer S i))).
  Proof.
    unfold Graph.layer, Graph.seen_upto. simpl.
    destruct (Graph.ref_layers St eq_dec gens S i) as [lj seen]. reflexivity.
  Qed.

  Lemma seen_S S i :
    seen_upto S (Datatypes.S i) = layer S (Datatypes.S i) ++ seen_upto S i.
  Proof.
    unfold Graph.layer, Graph.seen_upto. simpl.
    destruct (Graph.ref_layers St eq_dec gens S i) as [lj seen]. reflexivity.
  Qed.

  (* ------------------------------------------------------------------ *)
  (* basic facts *)

  Lemma layer_NoDup S i : NoDup (layer S i).
  Proof.
    destruct i.
    - rewrite layer_0. apply NoDup_nodup.
    - rewrite layer_S. apply NoDup_nodup.
  Qed.

  Lemma seen_upto_spec S i t :
    In t (seen_upto S i) <-> exists k, k <= i /\ In t (layer S k).
  Proof.
    induction i as [|i IH].
    - rewrite seen_0, <- layer_0. split.
      + intros H. exists 0. split; [lia | exact H].
      + intros (k & Hk & H). assert (k = 0) by lia. subst k. exact H.
    - rewrite seen_S, in_app_iff, IH. split.
      + intros [H | (k & Hk & H)].
        * exists (Datatypes.S i). split; [lia | exact H].
        * exists k. split; [lia | exact H].
      + intros (k & Hk & H).
        destruct (Nat.eq_dec k (Datatypes.S i)) as [-> | Hne].
        * left. exact H.
        * right. exists k. split; [lia | exact H].
  Qed.

  Lemma N_spec l t : In t (N l) <-> exists x g, In x l /\ In g gens /\ t = g x.
  Proof.
    unfold Graph.N. rewrite in_flat_map. split.
    - intros (x & Hx & H). apply in_map_iff in H. destruct H as (g & Hg & Hin).
      exists x, g. repeat split; auto.
    - intros (x & g & Hx & Hg & ->). exists x. split; [exact Hx|].
      apply in_map_iff. exists g. split; auto.
  Qed.

  Lemma layer_succ_spec S i t :
    In t (layer S (Datatypes.S i)) <->
    In t (N (layer S i)) /\ ~ In t (seen_upto S i).
  Proof.
    rewrite layer_S, nodup_In, filter_In, negb_true_iff, mem_false_iff. reflexivity.
  Qed.

  (* ------------------------------------------------------------------ *)
  (* reach: inversion, decidability, least element *)

  Lemma reach_0_iff S t : reach S 0 t <-> In t S.
  Proof.
    split.
    - intros H. inversion H; subst. assumption.
    - intros H. constructor. exact H.
  Qed.

  Lemma reach_S_inv S k t :
    reach S (Datatypes.S k) t -> exists x g, reach S k x /\ In g gens /\ t = g x.
  Proof.
    intros H. inversion H; subst. exists x, g. repeat split; auto.
  Qed.

  Fixpoint Nk (S : list St) (k : nat) : list St :=
    match k with
    | O => S
    | Datatypes.S j => N (Nk S j)
    end.

  Lemma reach_Nk S k : forall t, reach S k t <-> In t (Nk S k).
  Proof.
    induction k as [|k IH]; intros t.
    - simpl. apply reach_0_iff.
    - simpl. rewrite N_spec. split.
      + intros H. apply reach_S_inv in H. destruct H as (x & g & Hx & Hg & ->).
        exists x, g. repeat split; auto. apply IH. exact Hx.
      + intros (x & g & Hx & Hg & ->). constructor; auto. apply IH. exact Hx.
  Qed.

  Lemma reach_dec S k t : reach S k t \/ ~ reach S k t.
  Proof.
    destruct (in_dec eq_dec t (Nk S k)) as [H | H].
    - left. apply reach_Nk. exact H.
    - right. intros H'. apply H. apply reach_Nk. exact H'.
  Qed.

  Lemma least_aux (P : nat -> Prop) :
    (forall n, P n \/ ~ P n) ->
    forall n, (forall j, j < n -> ~ P j) \/
              (exists d, d < n /\ P d /\ forall j, j < d -> ~ P j).
  Proof.
    intros Pdec. induction n as [|n IH].
    - left. intros j Hj. lia.
    - destruct IH as [IH | (d & Hd & HP & Hmin)].
      + destruct (Pdec n) as [Hn | Hn].
        * right. exists n. repeat split; auto.
        * left. intros j Hj. destruct (Nat.eq_dec j n) as [-> | Hne]; auto.
          apply IH. lia.
      + right. exists d. repeat split; auto.
  Qed.

  Lemma reach_has_dist S k t : reach S k t -> exists d, d <= k /\ dist_is S t d.
  Proof.
    intros H.
    destruct (least_aux (fun n => reach S n t) (fun n => reach_dec S n t) (Datatypes.S k))
      as [Hno | (d & Hd & HP & Hmin)].
    - exfalso. apply (Hno k); auto.
    - exists d. split; [lia|]. split; auto.
  Qed.

  Lemma dist_unique S t d1 d2 : dist_is S t d1 -> dist_is S t d2 -> d1 = d2.
  Proof.
    intros [H1 M1] [H2 M2].
    destruct (lt_eq_lt_dec d1 d2) as [[Hlt | Heq] | Hgt]; auto.
    - exfalso. apply (M2 d1); auto.
    - exfalso. apply (M1 d2); auto.
  Qed.

  (* ------------------------------------------------------------------ *)
  (* THE core theorem *)

  Lemma seen_reach_aux S i :
    (forall j, j <= i -> forall t, In t (layer S j) <-> dist_is S t j) ->
    forall t, In t (seen_upto S i) <-> exists k, k <= i /\ reach S k t.
  Proof.
    intros IH t. rewrite seen_upto_spec. split.
    - intros (k & Hk & H). exists k. split; auto.
      apply (IH k Hk) in H. destruct H as [H _]. exact H.
    - intros (k & Hk & H). apply reach_has_dist in H.
      destruct H as (d & Hd & H). exists d. split; [lia|].
      apply IH; [lia | exact H].
  Qed.

  Theorem ref_layers_dist S i t : In t (layer S i) <-> dist_is S t i.
  Proof.
    revert t. induction i as [i IH] using lt_wf_ind. intros t.
    destruct i as [|i].
    - rewrite layer_0, nodup_In. unfold Graph.dist_is. rewrite reach_0_iff. split.
      + intros H. split; auto. intros k Hk. lia.
      + intros [H _]. exact H.
    - assert (IH' : forall j, j <= i -> forall t, In t (layer S j) <-> dist_is S t j).
      { intros j Hj. apply IH. lia. }
      pose proof (seen_reach_aux S i IH') as Hseen.
      rewrite layer_succ_spec. split.
      + intros [HN Hns]. apply N_spec in HN. destruct HN as (x & g & Hx & Hg & ->).
        apply (IH' i (le_n i)) in Hx. destruct Hx as [Hx _]. split.
        * constructor; auto.
        * intros k Hk Hr. apply Hns. apply Hseen. exists k. split; [lia | exact Hr].
      + intros [Hr Hmin]. split.
        * apply reach_S_inv in Hr. destruct Hr as (x & g & Hx & Hg & ->).
          apply N_spec. exists x, g. repeat split; auto.
          destruct (reach_has_dist S i x Hx) as (d & Hd & Hdist).
          destruct (Nat.eq_dec d i) as [-> | Hne].
          -- apply IH'; auto.
          -- exfalso. apply (Hmin (Datatypes.S d)); [lia|].
             constructor; auto. destruct Hdist as [Hdr _]. exact Hdr.
        * intros Hs. apply Hseen in Hs. destruct Hs as (k & Hk & Hrk).
          apply (Hmin k); [lia | exact Hrk].
  Qed.

  Corollary seen_upto_reach S i t :
    In t (seen_upto S i) <-> exists k, k <= i /\ reach S k t.
  Proof.
    apply seen_reach_aux. intros j _ t'. apply ref_layers_dist.
  Qed.

  Lemma layers_disjoint S i j t : In t (layer S i) -> In t (layer S j) -> i = j.
  Proof.
    intros Hi Hj. apply ref_layers_dist in Hi. apply ref_layers_dist in Hj.
    eapply dist_unique; eauto.
  Qed.

  (* ------------------------------------------------------------------ *)
  (* empty layers *)

  Lemma empty_layer_next S i : layer S i = [] -> layer S (Datatypes.S i) = [].
  Proof.
    intros H. rewrite layer_S, H. reflexivity.
  Qed.

  Theorem empty_layer_stays S i :
    layer S i = [] -> forall j, i <= j -> layer S j = [].
  Proof.
    intros H j Hj. induction Hj as [|j Hj IH]; auto.
    apply empty_layer_next. exact IH.
  Qed.

  Theorem empty_layer_all_seen S i t k :
    layer S (Datatypes.S i) = [] -> reach S k t -> In t (seen_upto S i).
  Proof.
    intros He Hr. apply reach_has_dist in Hr. destruct Hr as (d & _ & Hd).
    apply ref_layers_dist in Hd.
    destruct (le_lt_dec d i) as [Hle | Hgt].
    - apply seen_upto_spec. exists d. split; auto.
    - exfalso. rewrite (empty_layer_stays S (Datatypes.S i) He d) in Hd; [|lia].
      destruct Hd.
  Qed.

  (* ------------------------------------------------------------------ *)
  (* closed sets *)

  Lemma reach_in_closed (U : St -> Prop) S k t :
    closed U -> (forall s, In s S -> U s) -> reach S k t -> U t.
  Proof.
    intros Hc HS Hr. induction Hr as [s Hs | k x g Hr IH Hg].
    - apply HS. exact Hs.
    - apply Hc; auto.
  Qed.

  Lemma layer_in_closed (U : St -> Prop) S i t :
    closed U -> (forall s, In s S -> U s) -> In t (layer S i) -> U t.
  Proof.
    intros Hc HS Hin. apply ref_layers_dist in Hin. destruct Hin as [Hr _].
    eapply reach_in_closed; eauto.
  Qed.

  (* ------------------------------------------------------------------ *)
  (* the two-layer window *)

  Theorem window2 (U : St -> Prop) S i t :
    symmetric_on U -> closed U -> (forall s, In s S -> U s) ->
    In t (N (layer S i)) -> In t (seen_upto S i) ->
    In t (layer S i) \/ (exists j, i = Datatypes.S j /\ In t (layer S j)).
  Proof.
    intros Hsym Hc HS HN Hseen.
    apply N_spec in HN. destruct HN as (x & g & Hx & Hg & ->).
    assert (HUx : U x) by (eapply layer_in_closed; eauto).
    destruct (Hsym g x Hg HUx) as (g' & Hg' & Hinv).
    apply seen_upto_spec in Hseen. destruct Hseen as (d & Hd & Hin).
    pose proof Hin as Hdist. apply ref_layers_dist in Hdist. destruct Hdist as [Hrd _].
    apply ref_layers_dist in Hx. destruct Hx as [_ Hmin].
    assert (Hrx : reach S (Datatypes.S d) x).
    { rewrite <- Hinv. constructor; auto. }
    assert (Hle : i <= Datatypes.S d).
    { destruct (le_lt_dec i (Datatypes.S d)) as [Hle | Hgt]; auto.
      exfalso. apply (Hmin (Datatypes.S d)); auto. }
    destruct (Nat.eq_dec d i) as [-> | Hne].
    - left. exact Hin.
    - right. exists d. split; [lia | exact Hin].
  Qed.

  (* ------------------------------------------------------------------ *)
  (* walks and reach *)

  Lemma run_app s p q :
    run s (p ++ q) = match run s p with Some m => run m q | None => None end.
  Proof.
    revert s. induction p as [|i rest IH]; intros s; simpl.
    - reflexivity.
    - destruct (nth_error gens i) as [g|]; auto.
  Qed.

  Lemma run_reach S p : forall k s t,
    reach S k s -> run s p = Some t -> reach S (k + length p) t.
  Proof.
    induction p as [|i rest IH]; intros k s t Hr Hrun; simpl in *.
    - inversion Hrun; subst. rewrite Nat.add_0_r. exact Hr.
    - destruct (nth_error gens i) as [g|] eqn:Hg; [|discriminate].
      apply nth_error_In in Hg.
      replace (k + Datatypes.S (length rest)) with (Datatypes.S k + length rest) by lia.
      apply (IH (Datatypes.S k) (g s) t); auto. constructor; auto.
  Qed.

  Lemma walk_reach s p t : walk s p t -> reach [s] (length p) t.
  Proof.
    intros H. unfold Graph.walk in H.
    apply (run_reach [s] p 0 s t); auto. constructor. left. reflexivity.
  Qed.

  Lemma reach_walk S k t :
    reach S k t -> exists s p, In s S /\ length p = k /\ walk s p t.
  Proof.
    intros Hr. induction Hr as [s Hs | k x g Hr IH Hg].
    - exists s, []. repeat split; auto.
    - destruct IH as (s & p & Hs & Hlen & Hw).
      apply In_nth_error in Hg. destruct Hg as (n & Hn).
      exists s, (p ++ [n]). split; [exact Hs|]. split.
      + rewrite app_length. simpl. lia.
      + unfold Graph.walk in *. rewrite run_app, Hw. simpl. rewrite Hn. reflexivity.
  Qed.

End GraphProofs.

Print Assumptions ref_layers_dist.
Print Assumptions window2.
Print Assumptions empty_layer_all_seen.
