(** Round-trip theorems for the GAP text loader (Gap.v): a printer for the format of the shipped
    files, the lexical lemmas (decimal integers, the cycle regular expression, the JSON subset,
    line splitting, one line of the loop), the characterisation of the central state computed
    from the "identical pieces" declaration, and the end-to-end theorem [gap_roundtrip]. *)
From Coq Require Import String Ascii.
From Coq Require Import ZArith NArith Bool Arith Lia Decimal DecimalString
  DecimalN DecimalFacts Sorting.Permutation List.
From V Require Import Base Perm PermProofs PermCycles Gap PuzzlesRun.
Import ListNotations.
Local Open Scope char_scope.

(* ====================================================================================== *)
(** * (0) The cheap permutation test of the harness equals [is_perm] *)

Lemma mark_spec : forall m v m',
  mark m v = Some m' <-> (v < length m /\ nth v m true = false /\ m' = upd m v true).
Proof.
  induction m as [|b t IH]; intros v m'.
  - cbn [mark length]. split; [discriminate|intros (H & _); lia].
  - destruct v as [|v]; cbn [mark length nth upd].
    + destruct b; split.
      * discriminate.
      * intros (_ & H & _); discriminate.
      * intros H; injection H as <-. repeat split; lia.
      * intros (_ & _ & ->); reflexivity.
    + destruct (mark t v) as [t'|] eqn:E.
      * apply IH in E as (E1 & E2 & E3). split.
        -- intros H; injection H as <-. subst t'. repeat split; auto; lia.
        -- intros (_ & _ & ->). subst t'. reflexivity.
      * split; [discriminate|]. intros (H1 & H2 & _). exfalso.
        assert (mark t v = Some (upd t v true)) as Hc by (apply IH; repeat split; auto; lia).
        congruence.
Qed.

Lemma mark_all_spec : forall p m,
  mark_all m p = true <-> (NoDup p /\ forall v, In v p -> v < length m /\ nth v m true = false).
Proof.
  induction p as [|v t IH]; intros m; cbn [mark_all].
  - split; [intros _; split; [constructor|intros v []]|reflexivity].
  - destruct (mark m v) as [m'|] eqn:E.
    + apply mark_spec in E as (E1 & E2 & ->). rewrite IH. rewrite upd_length. split.
      * intros (ND & H). split.
        -- constructor; [|exact ND]. intros Hin. destruct (H v Hin) as (_ & H2).
           rewrite nth_upd_same in H2 by exact E1. discriminate.
        -- intros w [<-|Hw]; [auto|]. destruct (H w Hw) as (H1 & H2). split; [exact H1|].
           destruct (Nat.eq_dec v w) as [->|Hne].
           ++ rewrite nth_upd_same in H2 by exact E1. discriminate.
           ++ rewrite nth_upd_other in H2 by exact Hne. exact H2.
      * intros (ND & H). inversion ND as [|? ? Hn ND']; subst. split; [exact ND'|].
        intros w Hw. destruct (H w (or_intror Hw)) as (H1 & H2). split; [exact H1|].
        rewrite nth_upd_other; [exact H2|]. intros ->. exact (Hn Hw).
    + split; [discriminate|]. intros (ND & H). exfalso.
      destruct (H v (or_introl eq_refl)) as (H1 & H2).
      assert (mark m v = Some (upd m v true)) as Hc by (apply mark_spec; auto).
      congruence.
Qed.

Lemma nth_repeat_false n v : nth v (repeat false n) true = (if (v <? n)%nat then false else true).
Proof.
  revert v; induction n as [|n IH]; intros v; cbn [repeat].
  - destruct v; reflexivity.
  - destruct v as [|v]; cbn [nth]; [reflexivity|]. rewrite IH. reflexivity.
Qed.

Theorem is_perm_fast_eq : forall p, is_perm_fast p = is_perm p.
Proof.
  intros p.
  assert (is_perm_fast p = true <-> is_perm p = true) as H.
  { rewrite is_perm_iff. unfold is_perm_fast. rewrite mark_all_spec. rewrite repeat_length. split.
    - intros (ND & H). apply NoDup_lt_Perm; [exact ND|]. intros x Hx. apply (H x Hx).
    - intros HP. split; [apply Perm_NoDup; exact HP|]. intros v Hv.
      apply (Perm_In p v HP) in Hv. split; [exact Hv|].
      rewrite nth_repeat_false. apply Nat.ltb_lt in Hv. rewrite Hv. reflexivity. }
  destruct (is_perm_fast p), (is_perm p); try reflexivity.
  - symmetry. apply H. reflexivity.
  - apply H. reflexivity.
Qed.

(* the harness evaluates the loader with [is_perm_fast]: same function *)
Lemma forallb_ext' {A} (f g : A -> bool) l : (forall x, f x = g x) -> forallb f l = forallb g l.
Proof. intros H. induction l as [|a l IH]; cbn [forallb]; [reflexivity|]. rewrite H, IH. reflexivity. Qed.

Lemma create_check_with_ext isp1 isp2 gens :
  (forall p, isp1 p = isp2 p) -> create_check_with isp1 gens = create_check_with isp2 gens.
Proof.
  intros H. unfold create_check_with. destruct gens as [|g0 gens]; [reflexivity|].
  rewrite (forallb_ext' _ (fun p => Nat.eqb (List.length p) (List.length g0) && isp2 p)); [reflexivity|].
  intros p. rewrite H. reflexivity.
Qed.

Theorem load_puzzle_fast_eq file_name text :
  load_puzzle_from_file_with is_perm_fast file_name text = load_puzzle_from_file file_name text.
Proof.
  unfold load_puzzle_from_file, load_puzzle_from_file_with, parse_gap_chars_with, build_gap_with.
  destruct (ends_with _ _); [|reflexivity].
  destruct (parse_lines _) as [st|e]; [|reflexivity]. unfold bind at 1 5.
  destruct (zmax_list _) as [nz|]; [|reflexivity].
  destruct (sequence_r _) as [gens|e]; [|reflexivity]. unfold bind at 1 4.
  rewrite (create_check_with_ext is_perm_fast is_perm gens is_perm_fast_eq). reflexivity.
Qed.

(* ====================================================================================== *)
(** * (1) The printer *)

Definition NL : ascii := "010".

Definition chars_of_uint (d : uint) : chars := list_ascii_of_string (NilEmpty.string_of_uint d).

(* decimal digits of a non-negative integer, no leading zero, "0" for 0 *)
Definition dec_chars (z : Z) : chars := chars_of_uint (N.to_uint (Z.to_N z)).

(* sep.join(l) *)
Fixpoint join {A} (sep : list A) (l : list (list A)) : list A :=
  match l with
  | [] => []
  | x :: t => match t with [] => x | _ :: _ => x ++ sep ++ join sep t end
  end.

Definition print_cycle (c : list Z) : chars := "(" :: join [","] (map dec_chars c) ++ [")"].
Definition print_cycles (cs : list (list Z)) : chars := concat (map print_cycle cs).

Definition print_class (cl : list Z) : chars := "[" :: join [","] (map dec_chars cl) ++ ["]"].
Definition print_ip (ip : list (list Z)) : chars := "[" :: join [","] (map print_class ip) ++ ["]"].

(* one line of a GAP file: a generator ("M_" ++ key ++ ":=" ++ cycles ++ ";"), the declaration of
   identical pieces ("ip:=" ++ json ++ ";"), or any other text (comments, blank lines, and lines
   such as "Gen:=[" that the loader skips: see [ignored_line]) *)
Inductive gline :=
| LGen (key : chars) (cycles : list (list Z))
| LIp (ip : list (list Z))
| LOther (text : chars).

Definition print_line (l : gline) : chars :=
  match l with
  | LGen key cs => "M" :: "_" :: key ++ ":" :: "=" :: print_cycles cs ++ [";"]
  | LIp ip => "i" :: "p" :: ":" :: "=" :: print_ip ip ++ [";"]
  | LOther t => t
  end.

Definition print_lines (ls : list gline) : chars := join [NL] (map print_line ls).

(* the layout of the shipped files: generators, then the optional ip line *)
Definition gap_lines (gens : list (string * list (list Z))) (ip : option (list (list Z))) : list gline :=
  map (fun g => LGen (chars_of_string (fst g)) (snd g)) gens
  ++ match ip with Some v => [LIp v] | None => [] end.

Definition print_gap (gens : list (string * list (list Z))) (ip : option (list (list Z))) : string :=
  string_of_chars (print_lines (gap_lines gens ip)).

(* side conditions on names.  [no2 c1 c2 s]: the two-character string c1 c2 does not occur in s. *)
Fixpoint no2 (c1 c2 : ascii) (s : chars) : bool :=
  match s with
  | [] => true
  | a :: t => match t with
              | b :: _ => negb (Ascii.eqb a c1 && Ascii.eqb b c2) && no2 c1 c2 t
              | [] => true
              end
  end.

Definition no_char (c : ascii) (s : chars) : bool := forallb (fun x => negb (Ascii.eqb x c)) s.

(* what may follow "M_" on a generator line so that the line is read back as one generator line:
   no newline and no ":=" *)
Definition key_ok (k : chars) : bool := no_char NL k && no2 ":" "=" k.

(* the name the loader derives from the key: key.replace("M_", "") ("M_" ++ k loses its prefix) *)
Definition gen_name (k : chars) : chars := remove2 "M" "_" k.

(* a name that is read back unchanged: additionally "M_" does not occur in it *)
Definition name_ok (k : chars) : bool := key_ok k && no2 "M" "_" k.

(* ====================================================================================== *)
(** * (2) Lexical lemmas *)

(** ** decimal integers *)

Lemma uint_of_chars_string s : uint_of_chars (list_ascii_of_string s) = NilEmpty.uint_of_string s.
Proof. induction s as [|a s IH]; cbn; [reflexivity|]. rewrite IH. reflexivity. Qed.

Lemma uint_of_chars_of_uint d : uint_of_chars (chars_of_uint d) = Some d.
Proof. unfold chars_of_uint. rewrite uint_of_chars_string. apply NilEmpty.usu. Qed.

Lemma chars_of_uint_digits d : forallb is_digit (chars_of_uint d) = true.
Proof. induction d as [|d IH|d IH|d IH|d IH|d IH|d IH|d IH|d IH|d IH|d IH]; cbn; auto. Qed.

Lemma chars_of_uint_nonnil d : d <> Nil -> chars_of_uint d <> [].
Proof. destruct d; cbn; congruence. Qed.

Lemma to_uint_unorm n : unorm (N.to_uint n) = N.to_uint n.
Proof. rewrite <- DecimalN.Unsigned.to_of. rewrite DecimalN.Unsigned.of_to. reflexivity. Qed.

Lemma to_uint_nonnil n : N.to_uint n <> Nil.
Proof. rewrite <- to_uint_unorm. apply unorm_nonnil. Qed.

Lemma dec_chars_digits z : forallb is_digit (dec_chars z) = true.
Proof. apply chars_of_uint_digits. Qed.

Lemma dec_chars_nonempty z : dec_chars z <> [].
Proof. apply chars_of_uint_nonnil. apply to_uint_nonnil. Qed.

Theorem parse_int_dec z : (0 <= z)%Z -> parse_int (dec_chars z) = Ok z.
Proof.
  intros Hz. unfold parse_int. pose proof (dec_chars_nonempty z) as Hne.
  destruct (dec_chars z) as [|a t] eqn:E; [congruence|]. rewrite <- E.
  unfold dec_chars. rewrite uint_of_chars_of_uint. rewrite DecimalN.Unsigned.of_to.
  rewrite Z2N.id by exact Hz. reflexivity.
Qed.

(* no leading zero: a JSON number *)
Lemma unorm_fix_D0 u : unorm (D0 u) = D0 u -> u = Nil.
Proof.
  intros H. destruct u as [|u|u|u|u|u|u|u|u|u|u]; [reflexivity|exfalso..].
  all: rewrite unorm_D0 in H.
  all: match type of H with unorm ?x = _ =>
         assert (x <> Nil) as Hn by discriminate;
         pose proof (nb_digits_unorm x Hn) as Hd; rewrite H in Hd; cbn [nb_digits] in Hd; lia end.
Qed.

Theorem jnum_dec z : (0 <= z)%Z -> jnum (dec_chars z) = Ok z.
Proof.
  intros Hz. rewrite <- (parse_int_dec z Hz). unfold dec_chars.
  pose proof (to_uint_unorm (Z.to_N z)) as Hu.
  destruct (N.to_uint (Z.to_N z)) as [|u|u|u|u|u|u|u|u|u|u]; try reflexivity.
  apply unorm_fix_D0 in Hu. subst u. reflexivity.
Qed.

(** ** generic facts about [join], [split_char], [sequence_r] *)

Lemma join_cons2 {A} (sep : list A) x y t : join sep (x :: y :: t) = x ++ sep ++ join sep (y :: t).
Proof. reflexivity. Qed.

Ltac join2 :=
  match goal with
  | |- context [@join ?A ?s (?x :: ?y :: ?t)] =>
      change (@join A s (x :: y :: t)) with (x ++ s ++ @join A s (y :: t))
  end.

Lemma forallb_join {A} (P : A -> bool) sep l :
  forallb P sep = true -> Forall (fun x => forallb P x = true) l -> forallb P (join sep l) = true.
Proof.
  intros Hs HF. induction HF as [|x t Hx Ht IH]; [reflexivity|].
  destruct t as [|y t]; [exact Hx|]. rewrite join_cons2, !forallb_app, Hx, Hs, IH. reflexivity.
Qed.

Lemma join_nonempty {A} (sep : list A) x t : x <> [] -> join sep (x :: t) <> [].
Proof.
  intros Hx. destruct t as [|y t]; [exact Hx|]. rewrite join_cons2.
  destruct x; [congruence|discriminate].
Qed.

Lemma split_char_no sep s : no_char sep s = true -> split_char sep s = [s].
Proof.
  induction s as [|c s IH]; intros H; [reflexivity|].
  cbn [no_char forallb] in H. apply andb_true_iff in H as [H1 H2].
  cbn [split_char]. apply negb_true_iff in H1. rewrite H1. rewrite (IH H2). reflexivity.
Qed.

Lemma split_char_app sep s r :
  no_char sep s = true -> split_char sep (s ++ sep :: r) = s :: split_char sep r.
Proof.
  induction s as [|c s IH]; intros H.
  - cbn [app split_char]. rewrite Ascii.eqb_refl. reflexivity.
  - cbn [no_char forallb] in H. apply andb_true_iff in H as [H1 H2].
    cbn [app split_char]. apply negb_true_iff in H1. rewrite H1. rewrite (IH H2). reflexivity.
Qed.

(* "\n".join(lines).split("\n") = lines *)
Theorem split_char_join sep l :
  l <> [] -> Forall (fun x => no_char sep x = true) l -> split_char sep (join [sep] l) = l.
Proof.
  unfold chars. intros Hne HF. induction HF as [|x t Hx Ht IH]; [congruence|].
  destruct t as [|y t].
  - cbn [join]. apply split_char_no. exact Hx.
  - rewrite join_cons2. cbn [app]. rewrite split_char_app by exact Hx.
    rewrite IH by discriminate. reflexivity.
Qed.

Lemma sequence_r_map_ok {A B} (f : A -> result B) (g : A -> B) l :
  Forall (fun a => f a = Ok (g a)) l -> sequence_r (map f l) = Ok (map g l).
Proof.
  intros HF. induction HF as [|a t Ha Ht IH]; [reflexivity|].
  cbn [map sequence_r]. rewrite Ha, IH. reflexivity.
Qed.

Lemma digits_no_char c s : is_digit c = false -> forallb is_digit s = true -> no_char c s = true.
Proof.
  intros Hc H. unfold no_char. rewrite forallb_forall in *. intros x Hx.
  destruct (Ascii.eqb_spec x c) as [->|Hne]; [|reflexivity].
  specialize (H c Hx). congruence.
Qed.

(** ** the regular expression of [_cycle_str_to_list] *)

Definition cycle_body (c : list Z) : chars := join [","] (map dec_chars c).

Lemma cycle_body_dc c : forallb is_dc (cycle_body c) = true.
Proof.
  apply forallb_join; [reflexivity|]. apply Forall_forall. intros x Hx.
  apply in_map_iff in Hx as (z & <- & _). pose proof (dec_chars_digits z) as H.
  rewrite forallb_forall in *. intros a Ha. unfold is_dc. rewrite (H a Ha). reflexivity.
Qed.

Lemma cycle_body_nonempty c : c <> [] -> cycle_body c <> [].
Proof.
  destruct c as [|z t]; [congruence|]. intros _. unfold cycle_body. cbn [map].
  apply join_nonempty. apply dec_chars_nonempty.
Qed.

Lemma scan_inside g : forall acc rest,
  forallb is_dc g = true -> (acc <> [] \/ g <> []) ->
  scan_cycles (Inside acc) (g ++ ")" :: rest) = (List.rev acc ++ g) :: scan_cycles Outside rest.
Proof.
  induction g as [|c g IH]; intros acc rest Hdc Hne.
  - cbn [app]. rewrite app_nil_r. destruct acc as [|a acc]; [destruct Hne; congruence|].
    reflexivity.
  - cbn [forallb] in Hdc. apply andb_true_iff in Hdc as [H1 H2].
    cbn [app scan_cycles]. rewrite H1. rewrite IH by (auto; left; discriminate).
    cbn [List.rev]. rewrite <- app_assoc. reflexivity.
Qed.

Lemma print_cycle_app c rest : print_cycle c ++ rest = "(" :: cycle_body c ++ ")" :: rest.
Proof. unfold print_cycle, cycle_body. cbn [app]. rewrite <- app_assoc. reflexivity. Qed.

(* the scanner returns exactly the digit groups *)
Theorem scan_cycles_print cs :
  Forall (fun c => c <> []) cs -> scan_cycles Outside (print_cycles cs) = map cycle_body cs.
Proof.
  intros HF. unfold print_cycles. induction HF as [|c t Hc Ht IH]; [reflexivity|].
  cbn [map concat]. rewrite print_cycle_app. cbn [scan_cycles].
  replace (Ascii.eqb "(" "(") with true by reflexivity.
  rewrite scan_inside.
  - cbn [List.rev app]. rewrite IH. reflexivity.
  - apply cycle_body_dc.
  - right. apply cycle_body_nonempty. exact Hc.
Qed.

Lemma parse_group_body c :
  c <> [] -> Forall (fun z => (0 <= z)%Z) c -> parse_group (cycle_body c) = Ok c.
Proof.
  intros Hne HF. unfold parse_group, cycle_body. rewrite split_char_join.
  - rewrite map_map. rewrite (sequence_r_map_ok _ (fun z => z)); [rewrite map_id; reflexivity|].
    eapply Forall_impl; [|exact HF]. intros z Hz. apply parse_int_dec. exact Hz.
  - destruct c; [congruence|discriminate].
  - apply Forall_forall. intros x Hx. apply in_map_iff in Hx as (z & <- & _).
    apply digits_no_char; [reflexivity|apply dec_chars_digits].
Qed.

Definition cycles_printable (cs : list (list Z)) : Prop :=
  Forall (fun c => c <> [] /\ Forall (fun z => (0 <= z)%Z) c) cs.

Theorem cycle_str_to_list_print cs :
  cycles_printable cs -> cycle_str_to_list (print_cycles cs) = Ok cs.
Proof.
  intros HF. unfold cycle_str_to_list. rewrite scan_cycles_print.
  - rewrite map_map. rewrite (sequence_r_map_ok _ (fun c => c)); [rewrite map_id; reflexivity|].
    eapply Forall_impl; [|exact HF]. intros c [H1 H2]. apply parse_group_body; assumption.
  - eapply Forall_impl; [|exact HF]. intros c [H1 _]. exact H1.
Qed.

(** ** the JSON subset of the ip line *)

Definition num_tok (z : Z) : list jtok := [JNUM (dec_chars z)].
Definition class_toks (cl : list Z) : list jtok := JLB :: join [JCOMMA] (map num_tok cl) ++ [JRB].
Definition ip_toks (ip : list (list Z)) : list jtok := JLB :: join [JCOMMA] (map class_toks ip) ++ [JRB].

Lemma jtokens_digits ds : forall cur rest,
  ds <> [] -> forallb is_digit ds = true ->
  jtokens cur (ds ++ rest)
  = jtokens (Some (List.rev ds ++ match cur with Some a => a | None => [] end)) rest.
Proof.
  induction ds as [|d ds IH]; intros cur rest Hne Hd; [congruence|].
  cbn [forallb] in Hd. apply andb_true_iff in Hd as [H1 H2].
  cbn [app jtokens]. rewrite H1. destruct ds as [|d' ds'].
  - reflexivity.
  - rewrite IH by (auto; discriminate). cbn [List.rev]. rewrite <- !app_assoc. reflexivity.
Qed.

Lemma jtokens_comma cur t :
  jtokens cur ("," :: t)
  = match jtokens None t with Ok r => Ok (jflush cur ++ [JCOMMA] ++ r) | Err e => Err e end.
Proof. reflexivity. Qed.

Lemma jtokens_rb cur t :
  jtokens cur ("]" :: t)
  = match jtokens None t with Ok r => Ok (jflush cur ++ [JRB] ++ r) | Err e => Err e end.
Proof. reflexivity. Qed.

Lemma jtokens_lb cur t :
  jtokens cur ("[" :: t)
  = match jtokens None t with Ok r => Ok (jflush cur ++ [JLB] ++ r) | Err e => Err e end.
Proof. reflexivity. Qed.

Lemma jtokens_num_then z c t tk r :
  jtokens None t = Ok r ->
  (c = "," /\ tk = JCOMMA \/ c = "]" /\ tk = JRB) ->
  jtokens None (dec_chars z ++ c :: t) = Ok (JNUM (dec_chars z) :: tk :: r).
Proof.
  intros Ht Hc. rewrite jtokens_digits by (apply dec_chars_nonempty || apply dec_chars_digits).
  rewrite app_nil_r.
  destruct Hc as [[-> ->]|[-> ->]]; [rewrite jtokens_comma|rewrite jtokens_rb].
  all: rewrite Ht; cbn [jflush app]; rewrite rev_involutive; reflexivity.
Qed.

Lemma jtokens_class_body cl : forall t r,
  jtokens None t = Ok r ->
  jtokens None (join [","] (map dec_chars cl) ++ "]" :: t)
  = Ok (join [JCOMMA] (map num_tok cl) ++ JRB :: r).
Proof.
  induction cl as [|z cl IH]; intros t r Ht.
  - cbn [map join app]. rewrite jtokens_rb, Ht. reflexivity.
  - destruct cl as [|z' cl'].
    + cbn [map join]. apply (jtokens_num_then z "]" t JRB r); auto.
    + cbn [map]. do 2 join2. cbn [map] in IH. rewrite <- !app_assoc. cbn [app].
      rewrite (jtokens_num_then z "," _ JCOMMA _ (IH t r Ht)) by auto.
      reflexivity.
Qed.

Lemma print_class_app cl t : print_class cl ++ t = "[" :: join [","] (map dec_chars cl) ++ "]" :: t.
Proof. unfold print_class. cbn [app]. rewrite <- app_assoc. reflexivity. Qed.

Lemma class_toks_app cl r : class_toks cl ++ r = JLB :: join [JCOMMA] (map num_tok cl) ++ JRB :: r.
Proof. unfold class_toks. cbn [app]. rewrite <- app_assoc. reflexivity. Qed.

Lemma jtokens_class cl t r :
  jtokens None t = Ok r -> jtokens None (print_class cl ++ t) = Ok (class_toks cl ++ r).
Proof.
  intros Ht. rewrite print_class_app, class_toks_app, jtokens_lb.
  rewrite (jtokens_class_body cl t r Ht). reflexivity.
Qed.

Lemma jtokens_ip_body ip : forall t r,
  jtokens None t = Ok r ->
  jtokens None (join [","] (map print_class ip) ++ "]" :: t)
  = Ok (join [JCOMMA] (map class_toks ip) ++ JRB :: r).
Proof.
  induction ip as [|cl ip IH]; intros t r Ht.
  - cbn [map join app]. rewrite jtokens_rb, Ht. reflexivity.
  - destruct ip as [|cl' ip'].
    + cbn [map join]. apply jtokens_class. rewrite jtokens_rb, Ht. reflexivity.
    + cbn [map]. do 2 join2. cbn [map] in IH. rewrite <- !app_assoc. cbn [app].
      apply jtokens_class. rewrite jtokens_comma. rewrite (IH t r Ht). reflexivity.
Qed.

Theorem jtokens_print_ip ip : jtokens None (print_ip ip) = Ok (ip_toks ip).
Proof.
  unfold print_ip, ip_toks. rewrite jtokens_lb.
  rewrite (jtokens_ip_body ip [] []) by reflexivity. reflexivity.
Qed.

Lemma jparse_class_body cl : forall st cur acc r,
  (st = J2 \/ st = J4) -> cl <> [] -> Forall (fun z => (0 <= z)%Z) cl ->
  jparse st cur acc (join [JCOMMA] (map num_tok cl) ++ JRB :: r)
  = jparse J5 [] (List.rev (List.rev cl ++ cur) :: acc) r.
Proof.
  induction cl as [|z cl IH]; intros st cur acc r Hst Hne HF; [congruence|].
  inversion HF as [|? ? Hz HF']; subst.
  assert (forall rest, jparse st cur acc (JNUM (dec_chars z) :: rest) = jparse J3 (z :: cur) acc rest) as Hnum.
  { intros rest. destruct Hst as [-> | ->]; cbn [jparse]; rewrite (jnum_dec z Hz); reflexivity. }
  destruct cl as [|z' cl'].
  - cbn [map join num_tok app]. rewrite Hnum. reflexivity.
  - cbn [map]. join2. cbn [map] in IH. unfold num_tok at 1. cbn [app]. rewrite Hnum.
    cbn [jparse]. rewrite (IH J4) by (auto; discriminate).
    cbn [List.rev]. rewrite <- !app_assoc. reflexivity.
Qed.

Lemma jparse_class cl st acc r :
  (st = J1 \/ st = J6) -> Forall (fun z => (0 <= z)%Z) cl ->
  jparse st [] acc (class_toks cl ++ r) = jparse J5 [] (cl :: acc) r.
Proof.
  intros Hst HF. rewrite class_toks_app.
  assert (forall rest, jparse st [] acc (JLB :: rest) = jparse J2 [] acc rest) as Hlb.
  { intros rest. destruct Hst as [-> | ->]; reflexivity. }
  rewrite Hlb. destruct cl as [|z cl].
  - reflexivity.
  - rewrite jparse_class_body by (auto; discriminate). rewrite app_nil_r, rev_involutive. reflexivity.
Qed.

Lemma jparse_classes ip : forall st acc r,
  (st = J1 \/ st = J6) -> ip <> [] -> Forall (Forall (fun z => (0 <= z)%Z)) ip ->
  jparse st [] acc (join [JCOMMA] (map class_toks ip) ++ JRB :: r)
  = jparse J7 [] (List.rev ip ++ acc) r.
Proof.
  induction ip as [|cl ip IH]; intros st acc r Hst Hne HF; [congruence|].
  inversion HF as [|? ? Hcl HF']; subst.
  destruct ip as [|cl' ip'].
  - cbn [map join]. rewrite jparse_class by auto. reflexivity.
  - cbn [map]. join2. cbn [map] in IH. rewrite <- !app_assoc. rewrite jparse_class by auto.
    cbn [app jparse]. rewrite (IH J6) by (auto; discriminate).
    cbn [List.rev]. rewrite <- !app_assoc. reflexivity.
Qed.

Definition ip_printable (ip : list (list Z)) : Prop := Forall (Forall (fun z => (0 <= z)%Z)) ip.

Theorem parse_ip_print ip : ip_printable ip -> parse_ip (print_ip ip) = Ok ip.
Proof.
  intros HF. unfold parse_ip. rewrite jtokens_print_ip. unfold ip_toks. cbn [jparse].
  destruct ip as [|cl ip].
  - reflexivity.
  - rewrite jparse_classes by (auto; discriminate). cbn [jparse].
    rewrite app_nil_r, rev_involutive. reflexivity.
Qed.

(** ** one line of the loop: [split(":=")], [replace(";", "")], [startswith], [replace("M_", "")] *)

Lemma split2_no c1 c2 s : no2 c1 c2 s = true -> split2 c1 c2 s = [s].
Proof.
  induction s as [|a t IH]; intros H; [reflexivity|].
  destruct t as [|b t']; [reflexivity|].
  cbn [no2] in H. apply andb_true_iff in H as [H1 H2]. apply negb_true_iff in H1.
  cbn [split2]. rewrite H1. cbn [split2] in IH. rewrite (IH H2). reflexivity.
Qed.

Lemma split2_cons2 c1 c2 a b t :
  split2 c1 c2 (a :: b :: t)
  = if Ascii.eqb a c1 && Ascii.eqb b c2 then [] :: split2 c1 c2 t else cons_head a (split2 c1 c2 (b :: t)).
Proof. reflexivity. Qed.

Lemma split2_app c1 c2 k v :
  c1 <> c2 -> no2 c1 c2 k = true -> split2 c1 c2 (k ++ c1 :: c2 :: v) = k :: split2 c1 c2 v.
Proof.
  intros Hc. induction k as [|a k' IH]; intros H.
  - cbn [app]. rewrite split2_cons2, !Ascii.eqb_refl. reflexivity.
  - destruct k' as [|b k''].
    + specialize (IH eq_refl). cbn [app] in *. rewrite split2_cons2, IH.
      replace (Ascii.eqb c1 c2) with false by (symmetry; apply Ascii.eqb_neq; exact Hc).
      rewrite andb_false_r. reflexivity.
    + cbn [no2] in H. apply andb_true_iff in H as [H1 H2]. apply negb_true_iff in H1.
      specialize (IH H2). cbn [app] in *. rewrite split2_cons2, H1, IH. reflexivity.
Qed.

Lemma remove2_no c1 c2 s : no2 c1 c2 s = true -> remove2 c1 c2 s = s.
Proof.
  induction s as [|a t IH]; intros H; [reflexivity|].
  destruct t as [|b t']; [reflexivity|].
  cbn [no2] in H. apply andb_true_iff in H as [H1 H2]. apply negb_true_iff in H1.
  cbn [remove2]. rewrite H1. cbn [remove2] in IH. rewrite (IH H2). reflexivity.
Qed.

Lemma no_char_no2 c1 c2 s : no_char c1 s = true -> no2 c1 c2 s = true.
Proof.
  induction s as [|a t IH]; intros H; [reflexivity|].
  cbn [no_char forallb] in H. apply andb_true_iff in H as [H1 H2]. apply negb_true_iff in H1.
  destruct t as [|b t']; [reflexivity|]. cbn [no2]. rewrite H1. cbn [andb negb]. apply IH. exact H2.
Qed.

Lemma class_no_char (P : ascii -> bool) c s : P c = false -> forallb P s = true -> no_char c s = true.
Proof.
  intros Hc H. unfold no_char. rewrite forallb_forall in *. intros x Hx.
  destruct (Ascii.eqb_spec x c) as [->|Hne]; [|reflexivity].
  specialize (H c Hx). congruence.
Qed.

Lemma remove_char_app_no c s : no_char c s = true -> remove_char c (s ++ [c]) = s.
Proof.
  intros H. unfold remove_char. rewrite filter_app. cbn [filter]. rewrite Ascii.eqb_refl. cbn [negb].
  rewrite app_nil_r. unfold no_char in H. induction s as [|a t IH]; [reflexivity|].
  cbn [forallb] in H. apply andb_true_iff in H as [H1 H2]. cbn [filter]. rewrite H1, (IH H2). reflexivity.
Qed.

Definition cyc_char (c : ascii) : bool := is_dc c || Ascii.eqb c "(" || Ascii.eqb c ")".
Definition ip_char (c : ascii) : bool := is_digit c || Ascii.eqb c "[" || Ascii.eqb c "]" || Ascii.eqb c ",".

Lemma forallb_weaken {A} (P Q : A -> bool) l :
  (forall x, P x = true -> Q x = true) -> forallb P l = true -> forallb Q l = true.
Proof. intros HPQ H. rewrite forallb_forall in *. auto. Qed.

Lemma print_cycles_chars cs : forallb cyc_char (print_cycles cs) = true.
Proof.
  unfold print_cycles. induction cs as [|c cs IH]; [reflexivity|].
  cbn [map concat]. rewrite forallb_app, IH, andb_true_r.
  unfold print_cycle. cbn [forallb]. rewrite forallb_app. cbn [forallb].
  change (cyc_char "(") with true. change (cyc_char ")") with true. cbn [andb]. rewrite andb_true_r.
  eapply forallb_weaken; [|apply cycle_body_dc]. intros x Hx. unfold cyc_char. rewrite Hx. reflexivity.
Qed.

Lemma dec_chars_ip_char z : forallb ip_char (dec_chars z) = true.
Proof.
  eapply forallb_weaken; [|apply dec_chars_digits]. intros x Hx. unfold ip_char. rewrite Hx. reflexivity.
Qed.

Lemma print_class_chars cl : forallb ip_char (print_class cl) = true.
Proof.
  unfold print_class. cbn [forallb]. rewrite forallb_app. cbn [forallb].
  change (ip_char "[") with true. change (ip_char "]") with true. cbn [andb]. rewrite andb_true_r.
  apply forallb_join; [reflexivity|]. apply Forall_forall. intros x Hx.
  apply in_map_iff in Hx as (z & <- & _). apply dec_chars_ip_char.
Qed.

Lemma print_ip_chars ip : forallb ip_char (print_ip ip) = true.
Proof.
  unfold print_ip. cbn [forallb]. rewrite forallb_app. cbn [forallb].
  change (ip_char "[") with true. change (ip_char "]") with true. cbn [andb]. rewrite andb_true_r.
  apply forallb_join; [reflexivity|]. apply Forall_forall. intros x Hx.
  apply in_map_iff in Hx as (z & <- & _). apply print_class_chars.
Qed.

Lemma no2_key k : no2 ":" "=" k = true -> no2 ":" "=" ("M" :: "_" :: k) = true.
Proof. intros H. destruct k as [|b k']; [reflexivity|]. cbn [no2] in *. exact H. Qed.

Definition add_gen (s : pstate) (name : chars) (cs : list (list Z)) : pstate :=
  mk_pstate (ps_names s ++ [name]) (gdict_set name cs (ps_dict s)) (ps_ip s).
Definition set_ip (s : pstate) (ip : list (list Z)) : pstate :=
  mk_pstate (ps_names s) (ps_dict s) (Some ip).

Theorem step_line_gen s k cs :
  no2 ":" "=" k = true -> cycles_printable cs ->
  step_line (Ok s) (print_line (LGen k cs)) = Ok (add_gen s (gen_name k) cs).
Proof.
  intros Hk Hcs. unfold step_line, bind.
  change (print_line (LGen k cs)) with (("M" :: "_" :: k) ++ ":" :: "=" :: (print_cycles cs ++ [";"])).
  rewrite split2_app by (discriminate || apply no2_key; exact Hk).
  pose proof (print_cycles_chars cs) as Hch.
  rewrite split2_no.
  2:{ apply no_char_no2. unfold no_char. rewrite forallb_app. apply andb_true_iff.
      split; [apply (class_no_char cyc_char ":" _ eq_refl Hch)|reflexivity]. }
  rewrite remove_char_app_no by (apply (class_no_char cyc_char ";" _ eq_refl Hch)).
  change (starts_with2 "M" "_" ("M" :: "_" :: k)) with true. cbv iota.
  rewrite cycle_str_to_list_print by exact Hcs.
  reflexivity.
Qed.

Theorem step_line_ip s ip :
  ip_printable ip -> step_line (Ok s) (print_line (LIp ip)) = Ok (set_ip s ip).
Proof.
  intros Hip. unfold step_line, bind.
  change (print_line (LIp ip)) with (["i"; "p"] ++ ":" :: "=" :: (print_ip ip ++ [";"])).
  rewrite split2_app by (discriminate || reflexivity).
  pose proof (print_ip_chars ip) as Hch.
  rewrite split2_no.
  2:{ apply no_char_no2. unfold no_char. rewrite forallb_app. apply andb_true_iff.
      split; [apply (class_no_char ip_char ":" _ eq_refl Hch)|reflexivity]. }
  rewrite remove_char_app_no by (apply (class_no_char ip_char ";" _ eq_refl Hch)).
  change (starts_with2 "M" "_" ["i"; "p"]) with false.
  change (chars_eqb ["i"; "p"] ["i"; "p"]) with true. cbv iota.
  rewrite parse_ip_print by exact Hip.
  reflexivity.
Qed.

Theorem step_line_other st t : no2 ":" "=" t = true -> step_line st (print_line (LOther t)) = st.
Proof.
  intros H. unfold step_line, bind. cbn [print_line]. rewrite (split2_no _ _ _ H).
  destruct st; reflexivity.
Qed.

(* more generally, a line the loader skips: no ":=" in it, or exactly one ":=" after a key that
   neither starts with "M_" nor is "ip" (the shipped files contain the line "Gen:=[") *)
Definition ignored_line (t : chars) : bool :=
  match split2 ":" "=" t with
  | [_] => true
  | [key; _] => negb (starts_with2 "M" "_" key) && negb (chars_eqb key ["i"; "p"])
  | _ => false
  end.

Lemma no2_ignored t : no2 ":" "=" t = true -> ignored_line t = true.
Proof. intros H. unfold ignored_line. rewrite (split2_no _ _ _ H). reflexivity. Qed.

Theorem step_line_ignored st t : ignored_line t = true -> step_line st (print_line (LOther t)) = st.
Proof.
  intros H. unfold step_line, bind, ignored_line in *. cbn [print_line].
  destruct st as [s|e]; [|reflexivity].
  destruct (split2 ":" "=" t) as [|key [|value [|x r]]]; try discriminate; [reflexivity|].
  apply andb_true_iff in H as [H1 H2]. apply negb_true_iff in H1, H2. rewrite H1, H2. reflexivity.
Qed.

(* ====================================================================================== *)
(** * The central state computed from the declaration of identical pieces *)

(* 0-based points i and j are declared identical: they are equal, or i+1 and j+1 occur in a common class *)
Definition same_class (ip : list (list Z)) (i j : nat) : Prop :=
  i = j \/ exists cl, In cl ip /\ In (Z.of_nat i + 1)%Z cl /\ In (Z.of_nat j + 1)%Z cl.

(* distinct classes share no element (a class may be listed twice, an element may be repeated in its class) *)
Definition classes_disjoint (ip : list (list Z)) : Prop :=
  forall c1 c2 z, In c1 ip -> In c2 ip -> In z c1 -> In z c2 -> c1 = c2.

Definition ip_in_range (n : nat) (ip : list (list Z)) : Prop :=
  Forall (Forall (fun z => (1 <= z <= Z.of_nat n)%Z)) ip.

Lemma NoDup_concat_disjoint (ip : list (list Z)) : NoDup (concat ip) -> classes_disjoint ip.
Proof.
  induction ip as [|c ip IH]; intros ND c1 c2 z H1 H2 Hz1 Hz2; [destruct H1|].
  cbn [concat] in ND.
  assert (forall c', In c' ip -> In z c' -> In z (concat ip)) as Hcat.
  { intros c' Hc' Hz. apply in_concat. exists c'. auto. }
  destruct H1 as [<-|H1], H2 as [<-|H2].
  - reflexivity.
  - exfalso. eapply NoDup_app_disj; [exact ND|exact Hz1|]. eapply Hcat; eauto.
  - exfalso. eapply NoDup_app_disj; [exact ND|exact Hz2|]. eapply Hcat; eauto.
  - apply (IH (NoDup_app_r _ _ ND) c1 c2 z); auto.
Qed.

Lemma same_class_sym ip i j : same_class ip i j -> same_class ip j i.
Proof. intros [->|(cl & H1 & H2 & H3)]; [left; reflexivity|right; exists cl; auto]. Qed.

Lemma same_class_trans ip i j k :
  classes_disjoint ip -> same_class ip i j -> same_class ip j k -> same_class ip i k.
Proof.
  intros HD [->|(c1 & A1 & A2 & A3)] H2; [exact H2|].
  destruct H2 as [<-|(c2 & B1 & B2 & B3)]; [right; exists c1; auto|].
  assert (c1 = c2) as -> by (eapply HD; eauto). right. exists c2. auto.
Qed.

(* ---- the dictionary pos_to_eq_list ---- *)
Lemma dict_get_In {V} k (d : list (Z * V)) v : dict_get k d = Some v -> In (k, v) d.
Proof.
  induction d as [|[k' v'] d IH]; cbn [dict_get]; [discriminate|].
  destruct (Z.eqb_spec k k') as [->|Hne].
  - intros H; injection H as ->. left; reflexivity.
  - intros H. right. apply IH. exact H.
Qed.

Lemma dict_get_None {V} k (d : list (Z * V)) v : dict_get k d = None -> ~ In (k, v) d.
Proof.
  induction d as [|[k' v'] d IH]; cbn [dict_get]; [intros _ []|].
  destruct (Z.eqb_spec k k') as [->|Hne]; [discriminate|].
  intros H [E|Hin]; [injection E as E1 E2; congruence|]. exact (IH H Hin).
Qed.

Lemma ip_dict_inner_In (cl : list Z) ps : forall (d : list (Z * list Z)) k v,
  In (k, v) (fold_left (fun d pos => ((pos - 1)%Z, cl) :: d) ps d)
  <-> In (k, v) d \/ (v = cl /\ In (k + 1)%Z ps).
Proof.
  induction ps as [|p ps IH]; intros d k v; cbn [fold_left].
  - split; [auto|]. intros [H|(_ & [])]. exact H.
  - rewrite IH. cbn [In]. split.
    + intros [[E|H]|(H1 & H2)]; auto. injection E as E1 E2. right. split; [auto|left; lia].
    + intros [H|(H1 & [E|H2])]; auto. left. left. subst. f_equal. lia.
Qed.

Lemma ip_dict_outer_In ip : forall (d : list (Z * list Z)) k v,
  In (k, v) (fold_left (fun d eq_list => fold_left (fun d pos => ((pos - 1)%Z, eq_list) :: d) eq_list d) ip d)
  <-> In (k, v) d \/ (In v ip /\ In (k + 1)%Z v).
Proof.
  induction ip as [|cl ip IH]; intros d k v; cbn [fold_left].
  - split; [auto|]. intros [H|([] & _)]. exact H.
  - rewrite IH, ip_dict_inner_In. cbn [In]. split.
    + intros [[H|(-> & H)]|(H1 & H2)]; auto.
    + intros [H|([->|H1] & H2)]; auto.
Qed.

Lemma ip_dict_In ip k v : In (k, v) (ip_dict ip) <-> In v ip /\ In (k + 1)%Z v.
Proof. unfold ip_dict. rewrite ip_dict_outer_In. cbn [In]. tauto. Qed.

(* ---- colouring one class ---- *)
Definition paint (color : Z) (cl : list Z) (ans : list Z) : list Z :=
  fold_left (fun a j => upd a (Z.to_nat (j - 1)) color) cl ans.

Lemma paint_length color cl : forall ans, List.length (paint color cl ans) = List.length ans.
Proof.
  unfold paint. induction cl as [|j cl IH]; intros ans; cbn [fold_left]; [reflexivity|].
  rewrite IH. apply upd_length.
Qed.

Lemma paint_other color cl x : forall ans,
  Forall (fun z => (1 <= z)%Z) cl -> ~ In (Z.of_nat x + 1)%Z cl ->
  nth x (paint color cl ans) 0%Z = nth x ans 0%Z.
Proof.
  unfold paint. induction cl as [|j cl IH]; intros ans HF Hn; cbn [fold_left]; [reflexivity|].
  inversion HF as [|? ? Hj HF']; subst.
  rewrite IH; [|exact HF'|intros H; apply Hn; right; exact H].
  apply nth_upd_other. intros E. apply Hn. left. lia.
Qed.

Lemma paint_same color cl x : forall ans,
  Forall (fun z => (1 <= z)%Z) cl -> In (Z.of_nat x + 1)%Z cl -> x < List.length ans ->
  nth x (paint color cl ans) 0%Z = color.
Proof.
  induction cl as [|j cl IH]; intros ans HF Hin Hx; [destruct Hin|].
  inversion HF as [|? ? Hj HF']; subst.
  change (paint color (j :: cl) ans) with (paint color cl (upd ans (Z.to_nat (j - 1)) color)).
  destruct (in_dec Z.eq_dec (Z.of_nat x + 1)%Z cl) as [Hc|Hc].
  - apply IH; auto. rewrite upd_length. exact Hx.
  - destruct Hin as [->|Hin]; [|contradiction].
    rewrite paint_other by auto.
    replace (Z.to_nat (Z.of_nat x + 1 - 1)) with x by lia. apply nth_upd_same. exact Hx.
Qed.

Lemma py_set_fold n color cl : forall ans,
  Forall (fun z => (1 <= z <= Z.of_nat n)%Z) cl -> List.length ans = n ->
  fold_left (fun (a : result (list Z)) j => do a' <- a; py_set n a' (j - 1)%Z color) cl (Ok ans)
  = Ok (paint color cl ans).
Proof.
  induction cl as [|j cl IH]; intros ans HF L; [reflexivity|].
  inversion HF as [|? ? Hj HF']; subst. cbn [fold_left]. unfold bind at 2. unfold py_set.
  replace ((0 <=? j - 1)%Z && (j - 1 <? Z.of_nat (List.length ans))%Z) with true
    by (symmetry; apply andb_true_iff; split; [apply Z.leb_le|apply Z.ltb_lt]; lia).
  rewrite IH; [reflexivity|exact HF'|]. rewrite upd_length. reflexivity.
Qed.

Lemma nth_repeat_lt {A} (a d : A) n x : x < n -> nth x (repeat a n) d = a.
Proof.
  revert x; induction n as [|n IH]; intros x Hx; [lia|].
  destruct x as [|x]; cbn [repeat nth]; [reflexivity|]. apply IH. lia.
Qed.

(* ---- the loop invariant ---- *)
Section Central.
  Variable n : nat.
  Variable ip : list (list Z).
  Hypothesis Hdisj : classes_disjoint ip.
  Hypothesis Hrange : ip_in_range n ip.

  Let sc := same_class ip.

  Definition cinv (k : nat) (ans : list Z) (color : Z) : Prop :=
    List.length ans = n /\ (0 <= color <= Z.of_nat k)%Z /\
    (forall x, x < n -> nth x ans 0%Z = (-1)%Z \/ (0 <= nth x ans 0 < color)%Z) /\
    (forall x, x < k -> x < n -> nth x ans 0%Z <> (-1)%Z) /\
    (forall x y, x < n -> y < n -> nth x ans 0%Z <> (-1)%Z -> sc x y -> nth y ans 0%Z = nth x ans 0%Z) /\
    (forall x y, x < n -> y < n -> nth x ans 0%Z <> (-1)%Z -> nth y ans 0%Z = nth x ans 0%Z -> sc x y).

  Lemma cinv_skip k ans color :
    cinv k ans color -> nth k ans 0%Z <> (-1)%Z -> cinv (S k) ans color.
  Proof.
    intros (L & C & R & P & I1 & I2) Hk. repeat split; auto; try lia.
    intros x Hx Hxn. destruct (Nat.eq_dec x k) as [->|Hne]; [exact Hk|]. apply P; lia.
  Qed.

  Lemma cinv_paint k ans color ans' :
    cinv k ans color -> k < n -> List.length ans' = n ->
    (forall x, x < n -> sc k x \/ ~ sc k x) ->
    (forall x, x < n -> sc k x -> nth x ans' 0%Z = color) ->
    (forall x, x < n -> ~ sc k x -> nth x ans' 0%Z = nth x ans 0%Z) ->
    cinv (S k) ans' (color + 1).
  Proof.
    intros (L & C & R & P & I1 & I2) Hk L' Dec S1 S2.
    assert (forall x y, sc x y -> sc y x) as Sym by (intros x y; apply same_class_sym).
    assert (forall x y z, sc x y -> sc y z -> sc x z) as Tr
      by (intros x y z; apply same_class_trans; exact Hdisj).
    split; [exact L'|]. split; [lia|]. split; [|split; [|split]].
    - intros x Hx. destruct (Dec x Hx) as [Hs|Hs].
      + right. rewrite (S1 x Hx Hs). lia.
      + rewrite (S2 x Hx Hs). destruct (R x Hx) as [E|E]; [left; exact E|right; lia].
    - intros x Hx Hxn. destruct (Dec x Hxn) as [Hs|Hs].
      + rewrite (S1 x Hxn Hs). lia.
      + rewrite (S2 x Hxn Hs). apply P; [|exact Hxn].
        destruct (Nat.eq_dec x k) as [->|Hne]; [|lia]. exfalso. apply Hs. left. reflexivity.
    - intros x y Hx Hy Hc Hxy. destruct (Dec x Hx) as [Hs|Hs].
      + rewrite (S1 x Hx Hs), (S1 y Hy (Tr _ _ _ Hs Hxy)). reflexivity.
      + assert (~ sc k y) as Hsy by (intros H; apply Hs; exact (Tr _ _ _ H (Sym _ _ Hxy))).
        rewrite (S2 x Hx Hs) in *. rewrite (S2 y Hy Hsy). apply I1; auto.
    - intros x y Hx Hy Hc E. destruct (Dec x Hx) as [Hs|Hs]; destruct (Dec y Hy) as [Hsy|Hsy].
      + exact (Tr _ _ _ (Sym _ _ Hs) Hsy).
      + exfalso. rewrite (S1 x Hx Hs), (S2 y Hy Hsy) in E. destruct (R y Hy) as [E'|E']; lia.
      + exfalso. rewrite (S2 x Hx Hs), (S1 y Hy Hsy) in E. rewrite (S2 x Hx Hs) in Hc.
        destruct (R x Hx) as [E'|E']; [contradiction|lia].
      + rewrite (S2 x Hx Hs) in *. rewrite (S2 y Hy Hsy) in E. apply I2; auto.
  Qed.

  Lemma in_class_range cl z : In cl ip -> In z cl -> (1 <= z <= Z.of_nat n)%Z.
  Proof.
    intros Hcl Hz. unfold ip_in_range in Hrange. rewrite Forall_forall in Hrange.
    specialize (Hrange cl Hcl). rewrite Forall_forall in Hrange. exact (Hrange z Hz).
  Qed.

  Lemma ip_step_inv k ans color :
    cinv k ans color -> k < n ->
    exists ans' color', ip_step n (ip_dict ip) (Ok (ans, color)) k = Ok (ans', color') /\ cinv (S k) ans' color'.
  Proof.
    intros Hinv Hk. pose proof Hinv as (L & _). unfold ip_step, bind.
    destruct (Z.eqb_spec (nth k ans 0%Z) (-1)) as [E|E]; cbn [negb].
    2:{ exists ans, color. split; [reflexivity|]. apply cinv_skip; assumption. }
    destruct (dict_get (Z.of_nat k) (ip_dict ip)) as [cl|] eqn:Hd.
    - apply dict_get_In, ip_dict_In in Hd as [Hcl Hkcl].
      assert (Forall (fun z => (1 <= z <= Z.of_nat n)%Z) cl) as Hr.
      { apply Forall_forall. intros z Hz. exact (in_class_range cl z Hcl Hz). }
      assert (Forall (fun z => (1 <= z)%Z) cl) as Hr1 by (eapply Forall_impl; [|exact Hr]; cbv beta; lia).
      pose proof (py_set_fold n color cl ans Hr L) as Hps. unfold bind in Hps. rewrite Hps.
      exists (paint color cl ans), (color + 1)%Z. split; [reflexivity|].
      assert (forall x, sc k x <-> In (Z.of_nat x + 1)%Z cl) as Hsc.
      { intros x. split.
        - intros [<-|(c & H1 & H2 & H3)]; [exact Hkcl|].
          assert (c = cl) as -> by (apply (Hdisj c cl (Z.of_nat k + 1)%Z); auto). exact H3.
        - intros H. right. exists cl. auto. }
      apply (cinv_paint k ans color); auto.
      + rewrite paint_length. exact L.
      + intros x Hx. destruct (in_dec Z.eq_dec (Z.of_nat x + 1)%Z cl) as [H|H];
          [left|right]; rewrite Hsc; exact H.
      + intros x Hx Hs. apply paint_same; [exact Hr1|apply Hsc; exact Hs|lia].
      + intros x Hx Hs. apply paint_other; [exact Hr1|]. rewrite <- Hsc. exact Hs.
    - exists (upd ans k color), (color + 1)%Z. split; [reflexivity|].
      assert (forall x, sc k x <-> k = x) as Hsc.
      { intros x. split; [|intros ->; left; reflexivity].
        intros [H|(c & H1 & H2 & H3)]; [exact H|]. exfalso.
        apply (dict_get_None _ _ c Hd). apply ip_dict_In. split; [exact H1|exact H2]. }
      apply (cinv_paint k ans color); auto.
      + rewrite upd_length. exact L.
      + intros x Hx. destruct (Nat.eq_dec k x) as [H|H]; [left|right]; rewrite Hsc; exact H.
      + intros x Hx Hs. apply Hsc in Hs. subst x. apply nth_upd_same. lia.
      + intros x Hx Hs. apply nth_upd_other. rewrite <- Hsc. exact Hs.
  Qed.

  Lemma ip_loop_inv k : k <= n ->
    exists ans color,
      fold_left (ip_step n (ip_dict ip)) (seq 0 k) (Ok (repeat (-1)%Z n, 0%Z)) = Ok (ans, color)
      /\ cinv k ans color.
  Proof.
    induction k as [|k IH]; intros Hk.
    - exists (repeat (-1)%Z n), 0%Z. split; [reflexivity|].
      assert (forall x, x < n -> nth x (repeat (-1)%Z n) 0%Z = (-1)%Z) as Hrep
        by (intros x Hx; apply nth_repeat_lt; exact Hx).
      split; [apply repeat_length|]. split; [lia|]. split; [|split; [|split]].
      + intros x Hx. left. apply Hrep. exact Hx.
      + intros x Hx. lia.
      + intros x y Hx Hy Hc. exfalso. apply Hc. apply Hrep. exact Hx.
      + intros x y Hx Hy Hc. exfalso. apply Hc. apply Hrep. exact Hx.
    - destruct (IH ltac:(lia)) as (ans & color & E & Hinv).
      destruct (ip_step_inv k ans color Hinv ltac:(lia)) as (ans' & color' & E' & Hinv').
      exists ans', color'. split; [|exact Hinv'].
      rewrite seq_S, fold_left_app, E. cbn [fold_left Nat.add]. exact E'.
  Qed.

  (** [_central_state_from_ip]: "ans[i]=ans[j] if and only if pieces i and j are identical", values
      are colours in 0..n-1 (singleton classes may be omitted from ip) *)
  Theorem central_state_from_ip_spec_sec :
    exists c, central_state_from_ip n ip = Ok c /\ List.length c = n /\
      (forall i, i < n -> (0 <= nth i c 0 < Z.of_nat n)%Z) /\
      (forall i j, i < n -> j < n -> (nth i c 0%Z = nth j c 0%Z <-> same_class ip i j)).
  Proof.
    destruct (ip_loop_inv n (le_n n)) as (ans & color & E & (L & C & R & P & I1 & I2)).
    exists ans. unfold central_state_from_ip, bind. rewrite E. split; [reflexivity|]. split; [exact L|].
    split.
    - intros i Hi. destruct (R i Hi) as [H|H]; [|lia]. exfalso. exact (P i Hi Hi H).
    - intros i j Hi Hj. split.
      + intros H. apply I2; auto.
      + intros H. symmetry. apply I1; auto.
  Qed.
End Central.

Theorem central_state_from_ip_spec n ip :
  classes_disjoint ip -> ip_in_range n ip ->
  exists c, central_state_from_ip n ip = Ok c /\ List.length c = n /\
    (forall i, i < n -> (0 <= nth i c 0 < Z.of_nat n)%Z) /\
    (forall i j, i < n -> j < n -> (nth i c 0%Z = nth j c 0%Z <-> same_class ip i j)).
Proof. exact (central_state_from_ip_spec_sec n ip). Qed.

(* ====================================================================================== *)
(** * The loop over the lines: [parse_lines (print_lines ls)] exactly *)

(* lexical well-formedness of a line *)
Definition line_ok (l : gline) : Prop :=
  match l with
  | LGen k cs => key_ok k = true /\ cycles_printable cs
  | LIp ip => ip_printable ip
  | LOther t => no_char NL t = true /\ ignored_line t = true
  end.

Definition apply_line (s : pstate) (l : gline) : pstate :=
  match l with
  | LGen k cs => add_gen s (gen_name k) cs
  | LIp ip => set_ip s ip
  | LOther _ => s
  end.

Lemma no_char_app c a b : no_char c (a ++ b) = no_char c a && no_char c b.
Proof. apply forallb_app. Qed.

Lemma print_line_no_nl l : line_ok l -> no_char NL (print_line l) = true.
Proof.
  destruct l as [k cs|ip|t]; cbn [line_ok print_line].
  - intros [Hk _]. unfold key_ok in Hk. apply andb_true_iff in Hk as [Hk _].
    change ("M" :: "_" :: k ++ ":" :: "=" :: print_cycles cs ++ [";"])
      with (["M"; "_"] ++ k ++ [":"; "="] ++ print_cycles cs ++ [";"]).
    rewrite !no_char_app, Hk.
    rewrite (class_no_char cyc_char NL _ eq_refl (print_cycles_chars cs)). reflexivity.
  - intros _.
    change ("i" :: "p" :: ":" :: "=" :: print_ip ip ++ [";"])
      with (["i"; "p"; ":"; "="] ++ print_ip ip ++ [";"]).
    rewrite !no_char_app.
    rewrite (class_no_char ip_char NL _ eq_refl (print_ip_chars ip)). reflexivity.
  - intros [H _]. exact H.
Qed.

Lemma step_line_print s l : line_ok l -> step_line (Ok s) (print_line l) = Ok (apply_line s l).
Proof.
  destruct l as [k cs|ip|t]; cbn [line_ok apply_line].
  - intros [Hk Hcs]. unfold key_ok in Hk. apply andb_true_iff in Hk as [_ Hk].
    apply step_line_gen; assumption.
  - apply step_line_ip.
  - intros [_ H]. apply step_line_ignored. exact H.
Qed.

Lemma fold_step_lines ls : forall s,
  Forall line_ok ls -> fold_left step_line (map print_line ls) (Ok s) = Ok (fold_left apply_line ls s).
Proof.
  induction ls as [|l ls IH]; intros s HF; [reflexivity|].
  inversion HF as [|? ? Hl HF']; subst. cbn [map fold_left].
  rewrite step_line_print by exact Hl. apply IH. exact HF'.
Qed.

Definition pstate0 : pstate := mk_pstate [] [] None.

Theorem parse_lines_print ls :
  Forall line_ok ls -> parse_lines (print_lines ls) = Ok (fold_left apply_line ls pstate0).
Proof.
  intros HF. unfold parse_lines, print_lines. fold NL. fold pstate0.
  destruct ls as [|l ls]; [reflexivity|].
  rewrite split_char_join.
  - apply fold_step_lines. exact HF.
  - discriminate.
  - apply Forall_forall. intros x Hx. apply in_map_iff in Hx as (l' & <- & Hl').
    apply print_line_no_nl. rewrite Forall_forall in HF. apply HF. exact Hl'.
Qed.

(* the generators and the effective ip declaration of a file *)
Definition gens_of (ls : list gline) : list (chars * list (list Z)) :=
  flat_map (fun l => match l with LGen k cs => [(k, cs)] | _ => [] end) ls.

Definition ip_step_of (o : option (list (list Z))) (l : gline) : option (list (list Z)) :=
  match l with LIp ip => Some ip | _ => o end.
Definition ip_of (ls : list gline) : option (list (list Z)) := fold_left ip_step_of ls None.

Definition gname (g : chars * list (list Z)) : chars := gen_name (fst g).
Definition dict_step (d : list (chars * list (list Z))) (g : chars * list (list Z)) :=
  gdict_set (gname g) (snd g) d.

Lemma fold_apply_line ls : forall s,
  fold_left apply_line ls s
  = mk_pstate (ps_names s ++ map gname (gens_of ls))
              (fold_left dict_step (gens_of ls) (ps_dict s))
              (fold_left ip_step_of ls (ps_ip s)).
Proof.
  induction ls as [|l ls IH]; intros [nm d o].
  - cbn. rewrite app_nil_r. reflexivity.
  - cbn [fold_left]. rewrite IH. destruct l as [k cs|ip|t]; cbn.
    + rewrite <- app_assoc. reflexivity.
    + reflexivity.
    + reflexivity.
Qed.

Lemma chars_eqb_eq a : forall b, chars_eqb a b = true <-> a = b.
Proof.
  unfold chars_eqb. induction a as [|x a IH]; intros [|y b]; cbn [list_eqb];
    try (split; [discriminate|discriminate]); [split; reflexivity|].
  rewrite andb_true_iff, IH, Ascii.eqb_eq. split; [intros [-> ->]; reflexivity|intros H; injection H; auto].
Qed.

Lemma gdict_set_fresh k v d : ~ In k (map fst d) -> gdict_set k v d = d ++ [(k, v)].
Proof.
  induction d as [|[k' v'] d IH]; intros Hn; [reflexivity|].
  cbn [gdict_set map fst In] in *.
  destruct (chars_eqb k k') eqn:E.
  - exfalso. apply Hn. left. symmetry. apply chars_eqb_eq. exact E.
  - rewrite IH by tauto. reflexivity.
Qed.

Lemma gdict_get_In k v d : NoDup (map fst d) -> In (k, v) d -> gdict_get k d = v.
Proof.
  induction d as [|[k' v'] d IH]; intros ND Hin; [destruct Hin|].
  cbn [map fst] in ND. inversion ND as [|? ? Hn ND']; subst. cbn [gdict_get].
  destruct Hin as [E|Hin].
  - injection E as -> ->. replace (chars_eqb k k) with true by (symmetry; apply chars_eqb_eq; reflexivity).
    reflexivity.
  - destruct (chars_eqb k k') eqn:E.
    + exfalso. apply chars_eqb_eq in E. subst k'. apply Hn.
      change k with (fst (k, v)). apply in_map. exact Hin.
    + apply IH; assumption.
Qed.

Definition gentry (g : chars * list (list Z)) : chars * list (list Z) := (gname g, snd g).

Lemma fold_dict_step gens : forall d,
  NoDup (map fst d ++ map gname gens) -> fold_left dict_step gens d = d ++ map gentry gens.
Proof.
  induction gens as [|g gens IH]; intros d ND; cbn [fold_left map].
  - rewrite app_nil_r. reflexivity.
  - cbn [map] in ND. unfold dict_step at 2. rewrite gdict_set_fresh.
    + rewrite IH.
      * rewrite <- app_assoc. reflexivity.
      * rewrite map_app. cbn [map fst]. rewrite <- app_assoc. exact ND.
    + apply NoDup_remove_2 in ND. intros H. apply ND. apply in_or_app. left. exact H.
Qed.

(* the state after the loop *)
Theorem parse_lines_state ls :
  Forall line_ok ls -> NoDup (map gname (gens_of ls)) ->
  parse_lines (print_lines ls)
  = Ok (mk_pstate (map gname (gens_of ls)) (map gentry (gens_of ls)) (ip_of ls)).
Proof.
  intros HF ND. rewrite parse_lines_print by exact HF. rewrite fold_apply_line.
  cbn [pstate0 ps_names ps_dict ps_ip app]. rewrite fold_dict_step by exact ND. reflexivity.
Qed.

(* ====================================================================================== *)
(** * From the parsed lines to the puzzle: [build_gap] *)

(* the largest index occurring in any cycle *)
Definition max_index (css : list (list (list Z))) : Z := fold_right Z.max 0%Z (concat (concat css)).

Lemma fold_right_max_ge l : (0 <= fold_right Z.max 0 l)%Z.
Proof. induction l as [|a l IH]; cbn [fold_right]; lia. Qed.

Lemma fold_right_max_ub l x : In x l -> (x <= fold_right Z.max 0 l)%Z.
Proof.
  induction l as [|a l IH]; intros H; [destruct H|]. cbn [fold_right].
  destruct H as [->|H]; [lia|]. specialize (IH H). lia.
Qed.

Lemma fold_right_max_In l : l <> [] -> Forall (fun z => (0 <= z)%Z) l -> In (fold_right Z.max 0%Z l) l.
Proof.
  induction l as [|a l IH]; intros Hne HF; [congruence|].
  inversion HF as [|? ? Ha HF']; subst. cbn [fold_right].
  destruct l as [|b l'].
  - cbn [fold_right]. left. lia.
  - specialize (IH ltac:(discriminate) HF').
    destruct (Z.max_spec a (fold_right Z.max 0%Z (b :: l'))) as [[_ E]|[_ E]]; rewrite E; [right; exact IH|left; reflexivity].
Qed.

(* the meaning of [max_index]: it occurs and bounds every index *)
Theorem max_index_spec css :
  concat (concat css) <> [] -> Forall (fun z => (1 <= z)%Z) (concat (concat css)) ->
  In (max_index css) (concat (concat css)) /\
  (forall z, In z (concat (concat css)) -> (z <= max_index css)%Z) /\ (1 <= max_index css)%Z.
Proof.
  intros Hne HF. unfold max_index.
  assert (In (fold_right Z.max 0%Z (concat (concat css))) (concat (concat css))) as Hin.
  { apply fold_right_max_In; [exact Hne|]. eapply Forall_impl; [|exact HF]. cbv beta. lia. }
  split; [exact Hin|]. split; [intros z Hz; apply fold_right_max_ub; exact Hz|].
  rewrite Forall_forall in HF. apply HF. exact Hin.
Qed.

Lemma fold_left_max_right t : forall a,
  (0 <= a)%Z -> fold_left Z.max t a = Z.max a (fold_right Z.max 0%Z t).
Proof.
  induction t as [|b t IH]; intros a Ha; cbn [fold_left fold_right]; [lia|].
  rewrite IH by lia. lia.
Qed.

Lemma zmax_list_max l :
  l <> [] -> Forall (fun z => (1 <= z)%Z) l -> zmax_list l = Some (fold_right Z.max 0%Z l).
Proof.
  intros Hne HF. destruct l as [|a t]; [congruence|]. inversion HF as [|? ? Ha HF']; subst.
  unfold zmax_list. rewrite fold_left_max_right by lia. reflexivity.
Qed.

(* what the theorem says about one generator: it is the outcome of permutation_from_cycles, a
   permutation of 0..n-1 mapping (0-based) each cycle element to its successor and fixing the rest *)
Definition gen_spec (n : nat) (cycles : list (list Z)) (p : list nat) : Prop :=
  from_cycles n cycles 1 = Ok p /\ List.length p = n /\ Perm p /\
  (forall c i, In c cycles -> i < List.length c ->
     nth (Z.to_nat (nth i c 0%Z - 1)) p 0 = Z.to_nat (nth ((i + 1) mod List.length c) c 0%Z - 1)) /\
  (forall x, x < n -> ~ In (Z.of_nat x + 1)%Z (concat cycles) -> nth x p 0 = x).

Lemma from_cycles_gen_spec n cycles :
  NoDup (concat cycles) -> Forall (fun z => (1 <= z <= Z.of_nat n)%Z) (concat cycles) ->
  exists p, gen_spec n cycles p.
Proof.
  intros ND HF. set (f := fun x : Z => (x - 1)%Z).
  assert (concat (map (map f) cycles) = map f (concat cycles)) as Hcat by (symmetry; apply concat_map).
  destruct (from_cycles_spec n cycles 1) as (p & E & L & HP & S & U).
  { cbv zeta. fold f. split; rewrite Hcat.
    - apply NoDup_map_inj; [exact ND|]. unfold f. intros x y _ _ H. lia.
    - apply Forall_forall. intros y Hy. apply in_map_iff in Hy as (x & <- & Hx).
      rewrite Forall_forall in HF. specialize (HF x Hx). unfold f. lia. }
  cbv zeta in S, U. fold f in S, U.
  exists p. split; [exact E|]. split; [exact L|]. split; [exact HP|]. split.
  - intros c i Hc Hi.
    specialize (S (map f c) i (in_map _ _ _ Hc)). rewrite map_length in S. specialize (S Hi).
    rewrite (nth_map_lt f c i 0%Z 0%Z Hi) in S.
    rewrite (nth_map_lt f c _ 0%Z 0%Z) in S by (apply Nat.mod_upper_bound; lia).
    exact S.
  - intros x Hx Hn. apply U; [exact Hx|]. rewrite Hcat. intros Hin. apply Hn.
    apply in_map_iff in Hin as (y & Ey & Hy). unfold f in Ey. replace (Z.of_nat x + 1)%Z with y by lia.
    exact Hy.
Qed.

Lemma sequence_r_exists {A B} (f : A -> result B) (R : B -> A -> Prop) l :
  Forall (fun a => exists b, f a = Ok b /\ R b a) l ->
  exists bs, sequence_r (map f l) = Ok bs /\ Forall2 R bs l.
Proof.
  intros HF. induction HF as [|a t (b & Eb & Rb) Ht (bs & Ebs & Rbs)].
  - exists []. split; [reflexivity|constructor].
  - exists (b :: bs). cbn [map sequence_r]. rewrite Eb, Ebs. split; [reflexivity|constructor; assumption].
Qed.

Lemma Forall2_left {A B} (R : B -> A -> Prop) (P : B -> Prop) bs l :
  (forall b a, R b a -> P b) -> Forall2 R bs l -> Forall P bs.
Proof. intros H HF. induction HF; constructor; eauto. Qed.

Lemma zseq_seq n : forall a, zseq (Z.of_nat a) n = map Z.of_nat (seq a n).
Proof.
  induction n as [|n IH]; intros a; [reflexivity|]. cbn [zseq seq map].
  replace (Z.of_nat a + 1)%Z with (Z.of_nat (S a)) by lia. rewrite IH. reflexivity.
Qed.

(* what the theorem says about the central state *)
Definition central_spec (n : nat) (ipo : option (list (list Z))) (c : list Z) : Prop :=
  match ipo with
  | None => c = map Z.of_nat (seq 0 n)
  | Some ip =>
      List.length c = n /\
      (forall i, i < n -> (0 <= nth i c 0 < Z.of_nat n)%Z) /\
      (forall i j, i < n -> j < n -> (nth i c 0%Z = nth j c 0%Z <-> same_class ip i j))
  end.

(* semantic validity of the generators of a file *)
Definition gens_valid (gens : list (chars * list (list Z))) : Prop :=
  NoDup (map gname gens) /\
  Forall (fun g => NoDup (concat (snd g)) /\ Forall (fun z => (1 <= z)%Z) (concat (snd g))) gens /\
  concat (concat (map snd gens)) <> [].

Definition ip_valid (n : nat) (ipo : option (list (list Z))) : Prop :=
  match ipo with Some ip => classes_disjoint ip /\ ip_in_range n ip | None => True end.

Theorem build_gap_spec gens ipo :
  let n := Z.to_nat (max_index (map snd gens)) in
  gens_valid gens -> ip_valid n ipo ->
  exists g, build_gap (mk_pstate (map gname gens) (map gentry gens) ipo) = Ok g /\
    gp_names g = map (fun x => string_of_chars (gname x)) gens /\
    gp_n g = n /\
    Forall2 (fun p x => gen_spec n (snd x) p) (gp_gens g) gens /\
    central_spec n ipo (gp_central g).
Proof.
  intros n (ND & HG & Hne) Hip.
  assert (map snd (map gentry gens) = map snd gens) as Hsnd
    by (rewrite map_map; apply map_ext; intros [k cs]; reflexivity).
  assert (map fst (map gentry gens) = map gname gens) as Hfst
    by (rewrite map_map; apply map_ext; intros [k cs]; reflexivity).
  assert (Forall (fun z => (1 <= z)%Z) (concat (concat (map snd gens)))) as Hall.
  { apply Forall_forall. intros z Hz. apply in_concat in Hz as (c & Hc & Hz).
    apply in_concat in Hc as (cs & Hcs & Hc). apply in_map_iff in Hcs as (x & <- & Hx).
    rewrite Forall_forall in HG. destruct (HG x Hx) as (_ & H1). rewrite Forall_forall in H1.
    apply H1. apply in_concat. exists c. auto. }
  destruct (max_index_spec (map snd gens) Hne Hall) as (Hmin & Hmub & Hm1).
  assert (Z.of_nat n = max_index (map snd gens)) as Hn by (unfold n; lia).
  unfold build_gap, build_gap_with. cbn [ps_dict ps_names ps_ip]. rewrite Hsnd.
  rewrite (zmax_list_max _ Hne Hall). fold (max_index (map snd gens)). fold n.
  (* the generators *)
  rewrite map_map.
  destruct (sequence_r_exists
              (fun x => from_cycles n (gdict_get (gname x) (map gentry gens)) 1)
              (fun p x => gen_spec n (snd x) p) gens) as (perms & Eperms & Hperms).
  { apply Forall_forall. intros x Hx.
    rewrite (gdict_get_In (gname x) (snd x)).
    - destruct (from_cycles_gen_spec n (snd x)) as (p & Hp).
      + rewrite Forall_forall in HG. apply (HG x Hx).
      + apply Forall_forall. intros z Hz. split.
        * rewrite Forall_forall in HG. destruct (HG x Hx) as (_ & H1). rewrite Forall_forall in H1. auto.
        * rewrite Hn. apply Hmub. apply in_concat in Hz as (c & Hc & Hz).
          apply in_concat. exists c. split; [|exact Hz]. apply in_concat. exists (snd x).
          split; [apply in_map; exact Hx|exact Hc].
      + exists p. split; [apply Hp|exact Hp].
    - rewrite Hfst. exact ND.
    - change (gname x, snd x) with (gentry x). apply in_map. exact Hx. }
  rewrite Eperms. unfold bind at 1.
  (* CayleyGraphDef.create *)
  assert (Forall (fun p => List.length p = n /\ Perm p) perms) as Hpp.
  { eapply Forall2_left; [|exact Hperms]. cbv beta. intros p x (_ & L & HP & _). auto. }
  assert (perms <> []) as Hpne.
  { intros ->. inversion Hperms as [E|]; subst. symmetry in E. cbn in Hne. congruence. }
  assert (create_check_with is_perm perms = Ok n) as Hcc.
  { unfold create_check_with. destruct perms as [|p0 ps]; [congruence|].
    pose proof Hpp as Hpp'. inversion Hpp' as [|? ? (L0 & _) _]; subst.
    replace (forallb _ (p0 :: ps)) with true; [rewrite L0; reflexivity|].
    symmetry. apply forallb_forall. intros p Hp. rewrite Forall_forall in Hpp.
    destruct (Hpp p Hp) as (L & HP). apply andb_true_iff. split.
    - apply Nat.eqb_eq. congruence.
    - apply is_perm_iff. exact HP. }
  rewrite Hcc. unfold bind at 1.
  assert ((1 <=? n)%nat = true) as H1n by (apply Nat.leb_le; lia).
  destruct ipo as [ip|]; cbn [ip_valid central_spec] in *.
  - destruct Hip as (Hd & Hr). rewrite H1n. cbn [negb].
    destruct (central_state_from_ip_spec n ip Hd Hr) as (c & Ec & Lc & Rc & Sc).
    rewrite Ec. unfold bind.
    replace (Nat.eqb (List.length c) n) with true by (symmetry; apply Nat.eqb_eq; exact Lc).
    replace (central_ok n c) with true.
    + eexists. split; [reflexivity|]. cbn [gp_names gp_n gp_gens gp_central].
      rewrite map_map. split; [reflexivity|]. split; [reflexivity|]. split; [exact Hperms|].
      split; [exact Lc|]. split; [exact Rc|exact Sc].
    + symmetry. unfold central_ok. apply forallb_forall. intros v Hv.
      apply In_nth with (d := 0%Z) in Hv as (i & Hi & <-). rewrite Lc in Hi. specialize (Rc i Hi).
      apply andb_true_iff. split; [apply Z.leb_le|apply Z.ltb_lt]; lia.
  - rewrite H1n. eexists. split; [reflexivity|]. cbn [gp_names gp_n gp_gens gp_central].
    rewrite map_map. split; [reflexivity|]. split; [reflexivity|]. split; [exact Hperms|].
    apply (zseq_seq n 0).
Qed.

(* ====================================================================================== *)
(** * (3) The round-trip theorems *)

Lemma chars_string_id l : chars_of_string (string_of_chars l) = l.
Proof. apply list_ascii_of_string_of_list_ascii. Qed.

Lemma string_chars_id s : string_of_chars (chars_of_string s) = s.
Proof. apply string_of_list_ascii_of_string. Qed.

(** Any layout: generator lines, ip lines (the last one counts) and other lines without ":="
    (comments, blank lines) in any order.  The name of a generator is its key with every "M_"
    removed (the shipped files write "M_M_F:=..." and obtain the name "F"). *)
Theorem gap_roundtrip_lines ls :
  let gens := gens_of ls in
  let n := Z.to_nat (max_index (map snd gens)) in
  Forall line_ok ls -> gens_valid gens -> ip_valid n (ip_of ls) ->
  exists g, parse_gap_file (string_of_chars (print_lines ls)) = Ok g /\
    gp_names g = map (fun x => string_of_chars (gname x)) gens /\
    gp_n g = n /\
    Forall2 (fun p x => gen_spec n (snd x) p) (gp_gens g) gens /\
    central_spec n (ip_of ls) (gp_central g).
Proof.
  intros gens n HL HG HI.
  unfold parse_gap_file, parse_gap_chars, parse_gap_chars_with. rewrite chars_string_id.
  rewrite parse_lines_state; [|exact HL|apply HG]. unfold bind.
  exact (build_gap_spec gens (ip_of ls) HG HI).
Qed.

(** The layout of [print_gap]: names given as strings that are read back unchanged. *)
Definition gen_ok (g : string * list (list Z)) : Prop :=
  name_ok (chars_of_string (fst g)) = true /\
  Forall (fun c => c <> []) (snd g) /\
  NoDup (concat (snd g)) /\
  Forall (fun z => (1 <= z)%Z) (concat (snd g)).

Definition cgen (g : string * list (list Z)) : chars * list (list Z) := (chars_of_string (fst g), snd g).

Lemma gens_of_gap_lines gens ipo : gens_of (gap_lines gens ipo) = map cgen gens.
Proof.
  unfold gap_lines, gens_of. rewrite flat_map_app.
  replace (flat_map _ (match ipo with Some v => [LIp v] | None => [] end)) with (@nil (chars * list (list Z)))
    by (destruct ipo; reflexivity).
  rewrite app_nil_r. induction gens as [|g gens IH]; [reflexivity|].
  cbn [map flat_map app]. rewrite IH. reflexivity.
Qed.

Lemma ip_of_gap_lines gens ipo : ip_of (gap_lines gens ipo) = ipo.
Proof.
  unfold gap_lines, ip_of. rewrite fold_left_app.
  replace (fold_left ip_step_of (map _ gens) None) with (@None (list (list Z))).
  - destruct ipo; reflexivity.
  - induction gens as [|g gens IH]; [reflexivity|]. cbn [map fold_left ip_step_of]. exact IH.
Qed.

Lemma Forall2_map_r {A B C} (R : A -> C -> Prop) (h : B -> C) l1 l2 :
  Forall2 R l1 (map h l2) -> Forall2 (fun a b => R a (h b)) l1 l2.
Proof.
  revert l1; induction l2 as [|b l2 IH]; intros l1 H; inversion H; subst; constructor; auto.
Qed.

Lemma chars_of_string_inj a b : chars_of_string a = chars_of_string b -> a = b.
Proof. intros H. rewrite <- (string_chars_id a), <- (string_chars_id b), H. reflexivity. Qed.

Lemma name_ok_gname g : name_ok (chars_of_string (fst g)) = true -> gname (cgen g) = chars_of_string (fst g).
Proof.
  intros H. unfold name_ok in H. apply andb_true_iff in H as [_ H].
  unfold gname, cgen, gen_name. cbn [fst]. apply remove2_no. exact H.
Qed.

Theorem gap_roundtrip gens ipo :
  let n := Z.to_nat (max_index (map snd gens)) in
  NoDup (map fst gens) -> Forall gen_ok gens -> concat (concat (map snd gens)) <> [] ->
  ip_valid n ipo ->
  exists g, parse_gap_file (print_gap gens ipo) = Ok g /\
    gp_names g = map fst gens /\
    gp_n g = n /\
    Forall2 (fun p x => gen_spec n (snd x) p) (gp_gens g) gens /\
    central_spec n ipo (gp_central g).
Proof.
  intros n ND HG Hne HI.
  assert (map snd (map cgen gens) = map snd gens) as Hsnd
    by (rewrite map_map; apply map_ext; intros [k cs]; reflexivity).
  assert (forall x, In x gens -> gname (cgen x) = chars_of_string (fst x)) as Hnm.
  { intros x Hx. apply name_ok_gname. rewrite Forall_forall in HG. apply (HG x Hx). }
  destruct (gap_roundtrip_lines (gap_lines gens ipo)) as (g & E & Hnames & Hgn & Hgens & Hc).
  - (* lexical *)
    unfold gap_lines. apply Forall_app. split.
    + apply Forall_forall. intros l Hl. apply in_map_iff in Hl as (x & <- & Hx).
      rewrite Forall_forall in HG. destruct (HG x Hx) as (H1 & H2 & _ & H4).
      cbn [line_ok]. split.
      * unfold name_ok in H1. apply andb_true_iff in H1 as [H1 _]. exact H1.
      * apply Forall_forall. intros c Hc. rewrite Forall_forall in H2, H4. split; [apply H2; exact Hc|].
        apply Forall_forall. intros z Hz.
        assert (1 <= z)%Z by (apply H4; apply in_concat; exists c; auto). lia.
    + destruct ipo as [ip|]; [|constructor]. constructor; [|constructor].
      cbn [line_ok]. destruct HI as (_ & Hr). unfold ip_printable.
      eapply Forall_impl; [|exact Hr]. intros cl Hcl. eapply Forall_impl; [|exact Hcl]. cbv beta. lia.
  - (* semantic *)
    rewrite gens_of_gap_lines. split; [|split].
    + rewrite map_map. rewrite (map_ext_in _ (fun x => chars_of_string (fst x))) by exact Hnm.
      rewrite <- map_map. apply NoDup_map_inj; [exact ND|]. intros x y _ _. apply chars_of_string_inj.
    + apply Forall_forall. intros x Hx. apply in_map_iff in Hx as (y & <- & Hy).
      rewrite Forall_forall in HG. destruct (HG y Hy) as (_ & _ & H3 & H4). cbn [cgen snd]. auto.
    + rewrite Hsnd. exact Hne.
  - rewrite gens_of_gap_lines, ip_of_gap_lines, Hsnd. exact HI.
  - rewrite gens_of_gap_lines, ip_of_gap_lines, Hsnd in *. fold n in Hgn, Hgens, Hc.
    exists g. split; [exact E|]. split; [|split; [exact Hgn|split; [|exact Hc]]].
    + rewrite Hnames, map_map. apply map_ext_in. intros x Hx. rewrite (Hnm x Hx). apply string_chars_id.
    + apply Forall2_map_r in Hgens. exact Hgens.
Qed.

(* ====================================================================================== *)
(** * (4) Concrete instances (non-vacuity of the hypotheses) and evaluation by computation *)

Ltac nodup_lits :=
  repeat (constructor;
          [ let H := fresh "H" in
            cbn [In]; intros H; repeat (destruct H as [H|H]; [discriminate H|]); exact H | ]);
  constructor.

Local Open Scope string_scope.

Definition ex_gens : list (string * list (list Z)) :=
  [("a", [[1; 2; 3]]); ("b", [[3; 4]; [1; 5]])]%Z.
Definition ex_ip : option (list (list Z)) := Some [[2; 4; 5]]%Z.

(* the text: "M_a:=(1,2,3);\nM_b:=(3,4)(1,5);\nip:=[[2,4,5]];" *)
Example ex_text :
  print_gap ex_gens ex_ip
  = String "M" (String "_" ("a:=(1,2,3);" ++ String NL ("M_b:=(3,4)(1,5);" ++ String NL "ip:=[[2,4,5]];"))).
Proof. vm_compute. reflexivity. Qed.

Example ex_n : Z.to_nat (max_index (map snd ex_gens)) = 5.
Proof. vm_compute. reflexivity. Qed.

(* the hypotheses of [gap_roundtrip] hold for this puzzle *)
Example ex_hyps :
  NoDup (map fst ex_gens) /\ Forall gen_ok ex_gens /\ concat (concat (map snd ex_gens)) <> [] /\
  ip_valid (Z.to_nat (max_index (map snd ex_gens))) ex_ip.
Proof.
  rewrite ex_n. split; [|split; [|split]].
  - unfold ex_gens. cbn [map fst]. nodup_lits.
  - unfold ex_gens. constructor; [|constructor; [|constructor]].
    + split; [vm_compute; reflexivity|]. cbn [snd concat app]. split; [|split].
      * repeat constructor; discriminate.
      * nodup_lits.
      * repeat constructor; lia.
    + split; [vm_compute; reflexivity|]. cbn [snd concat app]. split; [|split].
      * repeat constructor; discriminate.
      * nodup_lits.
      * repeat constructor; lia.
  - discriminate.
  - unfold ex_ip, ip_valid. split.
    + apply NoDup_concat_disjoint. cbn [concat app]. nodup_lits.
    + unfold ip_in_range. repeat constructor; lia.
Qed.

(* ... so the theorem applies *)
Example ex_roundtrip :
  exists g, parse_gap_file (print_gap ex_gens ex_ip) = Ok g /\
    gp_names g = ["a"; "b"] /\ gp_n g = 5 /\
    Forall2 (fun p x => gen_spec 5 (snd x) p) (gp_gens g) ex_gens /\
    central_spec 5 ex_ip (gp_central g).
Proof.
  destruct ex_hyps as (H1 & H2 & H3 & H4).
  pose proof (gap_roundtrip ex_gens ex_ip H1 H2 H3 H4) as H. cbv zeta in H. rewrite ex_n in H. exact H.
Qed.

(* ... and the loader's answer, by computation *)
Example ex_computed :
  parse_gap_file (print_gap ex_gens ex_ip)
  = Ok (mk_gap ["a"; "b"] [[1; 2; 0; 3; 4]; [4; 1; 3; 2; 0]] 5 [0; 1; 2; 1; 1]%Z).
Proof. vm_compute. reflexivity. Qed.

(* a free layout with comments, a blank line, a key in the style of the shipped files ("M_M_F" gives
   the name "F"), a key containing ':' and a superseded ip line *)
Definition ex_lines : list gline :=
  [ LOther (chars_of_string "# PuzzleGeometry 0.1 Copyright 2018 Tomas Rokicki.");
    LGen (chars_of_string "M_F") [[1; 2]; [3; 4]]%Z;
    LIp [[1; 2; 3; 4]]%Z;
    LOther [];
    LGen (chars_of_string "x:y") [[2; 3; 6]]%Z;
    LOther (chars_of_string "Gen:=[");
    LOther (chars_of_string "M_M_F,M_x:y");
    LOther (chars_of_string "];");
    LIp [[1; 6]; []; [3; 5]]%Z;
    LOther (chars_of_string "# Size(Group(Gen));");
    LOther [] ].

Example ex_lines_n : Z.to_nat (max_index (map snd (gens_of ex_lines))) = 6.
Proof. vm_compute. reflexivity. Qed.

Example ex_lines_hyps :
  Forall line_ok ex_lines /\ gens_valid (gens_of ex_lines) /\
  ip_valid (Z.to_nat (max_index (map snd (gens_of ex_lines)))) (ip_of ex_lines).
Proof.
  rewrite ex_lines_n. split; [|split].
  - unfold ex_lines. repeat constructor; try discriminate; try lia.
  - unfold gens_valid. change (gens_of ex_lines)
      with [(chars_of_string "M_F", [[1; 2]; [3; 4]]%Z); (chars_of_string "x:y", [[2; 3; 6]]%Z)].
    split; [|split].
    + vm_compute. nodup_lits.
    + constructor; [|constructor; [|constructor]]; cbn [snd concat app];
        (split; [nodup_lits|repeat constructor; lia]).
    + discriminate.
  - change (ip_of ex_lines) with (Some [[1; 6]; []; [3; 5]]%Z). split.
    + apply NoDup_concat_disjoint. cbn [concat app]. nodup_lits.
    + unfold ip_in_range. repeat constructor; lia.
Qed.

Example ex_lines_computed :
  parse_gap_file (string_of_chars (print_lines ex_lines))
  = Ok (mk_gap ["F"; "x:y"] [[1; 0; 3; 2; 4; 5]; [0; 2; 5; 3; 4; 1]] 6 [0; 1; 2; 3; 2; 0]%Z).
Proof. vm_compute. reflexivity. Qed.

(* instances of the hypotheses of the lexical lemmas *)
Example ex_parse_int : parse_int (dec_chars 1204) = Ok 1204%Z.
Proof. apply parse_int_dec. lia. Qed.

Example ex_cycles_printable : cycles_printable [[1; 14; 16; 11]; [2; 0]]%Z.
Proof. repeat constructor; try discriminate; lia. Qed.

Example ex_ip_printable : ip_printable [[1; 2]; []; [30]]%Z.
Proof. repeat constructor; lia. Qed.

Example ex_central :
  classes_disjoint [[1; 3]; [2; 2; 5]]%Z /\ ip_in_range 5 [[1; 3]; [2; 2; 5]]%Z /\
  central_state_from_ip 5 [[1; 3]; [2; 2; 5]]%Z = Ok [0; 1; 0; 2; 1]%Z.
Proof.
  split; [|split].
  - intros c1 c2 z H1 H2 Hz1 Hz2. cbn [In] in H1, H2.
    destruct H1 as [<-|[<-|[]]], H2 as [<-|[<-|[]]]; try reflexivity; exfalso; cbn [In] in Hz1, Hz2; lia.
  - unfold ip_in_range. repeat constructor; lia.
  - vm_compute. reflexivity.
Qed.


(* a shipped file, defaults/2x2x2.gap, verbatim: it is the print of [lines_2x2x2], whose hypotheses hold *)
Definition text_2x2x2 : string :=
"# /home/username/.bun/bin/bun /home/username/Desktop/cayley/cubing.js/src/bin/puzzle-geometry-bin.ts --gap 2x2x2
# PuzzleGeometry 0.1 Copyright 2018 Tomas Rokicki.
# 
M_M_F:=(1,14,16,11)(2,15,17,12)(3,13,18,10);
M_M_B:=(4,9,19,24)(5,7,20,22)(6,8,21,23);
M_M_D:=(13,22,19,16)(14,23,20,17)(15,24,21,18);
M_M_U:=(1,10,7,4)(2,11,8,5)(3,12,9,6);
M_M_L:=(7,12,16,21)(8,10,17,19)(9,11,18,20);
M_M_R:=(1,6,22,15)(2,4,23,13)(3,5,24,14);
Gen:=[
M_M_F,M_M_B,M_M_D,M_M_U,M_M_L,M_M_R
];
ip:=[[1],[4],[7],[10],[13],[16],[19],[22]];
# Size(Group(Gen));
# Size(Stabilizer(Group(Gen), ip, OnTuplesSets));

".

Definition lines_2x2x2 : list gline :=
  [ LOther (chars_of_string "# /home/username/.bun/bin/bun /home/username/Desktop/cayley/cubing.js/src/bin/puzzle-geometry-bin.ts --gap 2x2x2");
    LOther (chars_of_string "# PuzzleGeometry 0.1 Copyright 2018 Tomas Rokicki.");
    LOther (chars_of_string "# ");
    LGen (chars_of_string "M_F") [[1; 14; 16; 11]; [2; 15; 17; 12]; [3; 13; 18; 10]]%Z;
    LGen (chars_of_string "M_B") [[4; 9; 19; 24]; [5; 7; 20; 22]; [6; 8; 21; 23]]%Z;
    LGen (chars_of_string "M_D") [[13; 22; 19; 16]; [14; 23; 20; 17]; [15; 24; 21; 18]]%Z;
    LGen (chars_of_string "M_U") [[1; 10; 7; 4]; [2; 11; 8; 5]; [3; 12; 9; 6]]%Z;
    LGen (chars_of_string "M_L") [[7; 12; 16; 21]; [8; 10; 17; 19]; [9; 11; 18; 20]]%Z;
    LGen (chars_of_string "M_R") [[1; 6; 22; 15]; [2; 4; 23; 13]; [3; 5; 24; 14]]%Z;
    LOther (chars_of_string "Gen:=[");
    LOther (chars_of_string "M_M_F,M_M_B,M_M_D,M_M_U,M_M_L,M_M_R");
    LOther (chars_of_string "];");
    LIp [[1]; [4]; [7]; [10]; [13]; [16]; [19]; [22]]%Z;
    LOther (chars_of_string "# Size(Group(Gen));");
    LOther (chars_of_string "# Size(Stabilizer(Group(Gen), ip, OnTuplesSets));");
    LOther (chars_of_string "");
    LOther (chars_of_string "") ].

Example ex_2x2x2_text : string_of_chars (print_lines lines_2x2x2) = text_2x2x2.
Proof. vm_compute. reflexivity. Qed.

Example ex_2x2x2_n : Z.to_nat (max_index (map snd (gens_of lines_2x2x2))) = 24.
Proof. vm_compute. reflexivity. Qed.

Example ex_2x2x2_hyps :
  Forall line_ok lines_2x2x2 /\ gens_valid (gens_of lines_2x2x2) /\
  ip_valid (Z.to_nat (max_index (map snd (gens_of lines_2x2x2)))) (ip_of lines_2x2x2).
Proof.
  rewrite ex_2x2x2_n. split; [|split].
  - unfold lines_2x2x2. repeat constructor; try discriminate; try lia.
  - unfold gens_valid. split; [|split].
    + vm_compute. nodup_lits.
    + cbn [lines_2x2x2 gens_of flat_map app].
      repeat (constructor; [cbn [snd concat app]; split; [nodup_lits|repeat constructor; lia]|]).
      constructor.
    + discriminate.
  - change (ip_of lines_2x2x2) with (Some [[1]; [4]; [7]; [10]; [13]; [16]; [19]; [22]]%Z). split.
    + apply NoDup_concat_disjoint. cbn [concat app]. nodup_lits.
    + unfold ip_in_range. repeat constructor; lia.
Qed.

(* the theorem applied to the shipped text: names F,B,D,U,L,R, 24 points, all colours distinct *)
Example ex_2x2x2_roundtrip :
  exists g, parse_gap_file text_2x2x2 = Ok g /\
    gp_names g = ["F"; "B"; "D"; "U"; "L"; "R"] /\ gp_n g = 24 /\
    Forall2 (fun p x => gen_spec 24 (snd x) p) (gp_gens g) (gens_of lines_2x2x2) /\
    central_spec 24 (ip_of lines_2x2x2) (gp_central g).
Proof.
  destruct ex_2x2x2_hyps as (H1 & H2 & H3).
  pose proof (gap_roundtrip_lines lines_2x2x2 H1 H2 H3) as H. cbv zeta in H.
  rewrite ex_2x2x2_n, ex_2x2x2_text in H. exact H.
Qed.

Example ex_split_lines :
  split_char NL (join [NL] [chars_of_string "# c"; []; chars_of_string "M_a:=(1,2);"])
  = [chars_of_string "# c"; []; chars_of_string "M_a:=(1,2);"].
Proof. apply split_char_join; [discriminate|]. repeat constructor. Qed.

Example ex_step_line_gen s :
  step_line (Ok s) (chars_of_string "M_M_F:=(1,14,16,11)(2,15);")
  = Ok (add_gen s (chars_of_string "F") [[1; 14; 16; 11]; [2; 15]]%Z).
Proof.
  apply (step_line_gen s (chars_of_string "M_F") [[1; 14; 16; 11]; [2; 15]]%Z); [reflexivity|].
  repeat constructor; try discriminate; lia.
Qed.

Print Assumptions is_perm_fast_eq.
Print Assumptions parse_int_dec.
Print Assumptions jnum_dec.
Print Assumptions scan_cycles_print.
Print Assumptions cycle_str_to_list_print.
Print Assumptions parse_ip_print.
Print Assumptions split_char_join.
Print Assumptions step_line_gen.
Print Assumptions step_line_ip.
Print Assumptions step_line_other.
Print Assumptions central_state_from_ip_spec.
Print Assumptions parse_lines_print.
Print Assumptions parse_lines_state.
Print Assumptions max_index_spec.
Print Assumptions build_gap_spec.
Print Assumptions gap_roundtrip_lines.
Print Assumptions gap_roundtrip.
Print Assumptions ex_hyps.
Print Assumptions ex_roundtrip.
Print Assumptions ex_computed.
Print Assumptions ex_lines_hyps.
Print Assumptions ex_lines_computed.
Print Assumptions ex_2x2x2_roundtrip.
Print Assumptions load_puzzle_fast_eq.
