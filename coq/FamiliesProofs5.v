(** C15, fifth part: all_cycles(n) for every n (continuation of FamiliesProofs2.v / FamiliesProofs3.v). *)
From Coq Require Import String.
From Coq Require Import ZArith List Bool Arith Lia ZifyNat Sorting.Mergesort Sorting.Permutation.
From V Require Import Base Perm PermProofs PermCycles Def DefProofs Families FamiliesProofs FamiliesProofs2 FamiliesProofs3.
Import ListNotations.
Open Scope nat_scope.

(* ---------------------------------------------------------------------------------------------- *)
(** * The loop of all_cycles that writes one cycle: cycle[current] = target; current = target *)
Definition chain_step (st : list nat * nat) (target : nat) : list nat * nat :=
  (upd (fst st) (snd st) target, target).
Definition zchain_step : list Z * Z -> Z -> list Z * Z :=
  fun '(cycle, current) target => (zset cycle current target, target).

Lemma zchain_nat sigma : forall g cur,
  fold_left zchain_step (of_nats sigma) (of_nats g, Z.of_nat cur)
  = (of_nats (fst (fold_left chain_step sigma (g, cur))), Z.of_nat (snd (fold_left chain_step sigma (g, cur)))).
Proof.
  induction sigma as [|a s IH]; intros g cur; [reflexivity|].
  cbn [of_nats map fold_left zchain_step chain_step fst snd].
  rewrite (zset_nat g cur a) by reflexivity. apply IH.
Qed.

Lemma last_cons {A} (a : A) l d : last (a :: l) d = last l a.
Proof. revert a. induction l as [|b l IH]; intros a; [reflexivity|]. cbn [last] in *. destruct l; [reflexivity|]. apply IH. Qed.

Lemma In_removelast {A} (x : A) l : In x (removelast l) -> In x l.
Proof.
  induction l as [|a l IH]; [intros []|]. cbn [removelast]. destruct l as [|b l]; [intros []|].
  intros [<-|H]; [left; reflexivity|right; apply IH; exact H].
Qed.

Lemma chain_fold sigma : forall g cur,
  let r := fold_left chain_step sigma (g, cur) in
  snd r = last sigma cur /\ length (fst r) = length g /\
  (NoDup (cur :: sigma) -> (forall x, In x (cur :: sigma) -> x < length g) ->
   (forall i, i < length sigma -> nth (nth i (cur :: sigma) 0) (fst r) 0 = nth i sigma 0) /\
   (forall t, ~ In t (removelast (cur :: sigma)) -> nth t (fst r) 0 = nth t g 0)).
Proof.
  induction sigma as [|a s IH]; intros g cur; cbv zeta.
  - cbn [fold_left fst snd last length]. split; [reflexivity|]. split; [reflexivity|]. intros _ _. split; [intros i Hi; lia|reflexivity].
  - cbn [fold_left]. change (chain_step (g, cur) a) with (upd g cur a, a). specialize (IH (upd g cur a) a). cbv zeta in IH.
    destruct IH as (I1 & I2 & I3). rewrite upd_length in I2, I3.
    split; [rewrite I1; symmetry; apply last_cons|]. split; [exact I2|].
    intros ND Hlt. inversion ND as [|x l Hcur NDs]; subst.
    destruct (I3 NDs) as [J1 J2]; [intros x Hx; apply Hlt; right; exact Hx|].
    split.
    + intros i Hi. destruct i as [|i]; cbn [nth].
      * rewrite J2.
        -- apply nth_upd_same. apply Hlt. left. reflexivity.
        -- intros Hin. apply Hcur. apply (In_removelast _ _ Hin).
      * apply J1. cbn [length] in Hi. lia.
    + intros t Ht. change (removelast (cur :: a :: s)) with (cur :: removelast (a :: s)) in Ht.
      rewrite J2 by (intros Hin; apply Ht; right; exact Hin).
      apply nth_upd_other. intros ->. apply Ht. left. reflexivity.
Qed.
Lemma nth_last {A} (a : A) l d : nth (length l) (a :: l) d = last l a.
Proof.
  revert a. induction l as [|b l IH]; intros a; [reflexivity|].
  change (nth (length (b :: l)) (a :: b :: l) d) with (nth (length l) (b :: l) d). rewrite (IH b).
  symmetry. apply last_cons.
Qed.

(* the loop writes the cycle (a sigma_1 ... sigma_r) *)
Lemma ac_build n a sigma : NoDup (a :: sigma) -> (forall x, In x (a :: sigma) -> x < n) ->
  (let '(cycle, current) := fold_left zchain_step (of_nats sigma) (zrange 0 (Z.of_nat n), Z.of_nat a) in
   zset cycle current (Z.of_nat a)) = of_nats (cycle_gen n (a :: sigma)).
Proof.
  intros ND Hlt. rewrite zrange0_nat, zchain_nat.
  pose proof (chain_fold sigma (seq 0 n) a) as CF. cbv zeta in CF.
  set (r := fold_left chain_step sigma (seq 0 n, a)) in *.
  destruct CF as (C1 & C2 & C3). rewrite seq_length in C2, C3.
  destruct (C3 ND Hlt) as [J1 J2].
  rewrite (zset_nat (fst r) (snd r) a) by reflexivity. f_equal.
  set (c := a :: sigma) in *.
  assert (length c = S (length sigma)) as Lc by reflexivity.
  destruct (cycle_fun_spec c ND) as [F1 F2]. rewrite Lc in F1.
  assert (snd r = nth (length sigma) c 0) as El by (rewrite C1; symmetry; apply nth_last).
  apply nth_ext' with (d := 0); [now rewrite upd_length, cycle_gen_length|].
  intros t Ht. rewrite upd_length, C2 in Ht. rewrite cycle_gen_nth by exact Ht.
  destruct (in_dec Nat.eq_dec t c) as [Hin|Hnin].
  - apply In_nth with (d := 0) in Hin as (i & Hi & <-). rewrite Lc in Hi. rewrite F1 by exact Hi.
    destruct (Nat.eq_dec i (length sigma)) as [->|Hne].
    + rewrite <- El. rewrite nth_upd_same by (rewrite C2; rewrite El; apply Hlt; apply nth_In; lia).
      replace (length sigma + 1) with (S (length sigma)) by lia. rewrite Nat.mod_same by lia. reflexivity.
    + rewrite nth_upd_other.
      2:{ rewrite El. intros E. apply Hne. symmetry. apply (proj1 (NoDup_nth c 0) ND); lia. }
      rewrite J1 by lia. rewrite Nat.mod_small by lia. replace (i + 1) with (S i) by lia. reflexivity.
  - rewrite F2 by exact Hnin. rewrite nth_upd_other.
    2:{ rewrite El. intros E. apply Hnin. rewrite <- E. apply nth_In. lia. }
    rewrite J2 by (intros Hin; apply Hnin; apply (In_removelast _ _ Hin)). apply seq_nth. exact Ht.
Qed.

(* min(subset) and the remaining elements, for an increasing subset a :: c' *)
Lemma fold_min_head (l : list Z) (a0 : Z) : (forall z, In z l -> (a0 <= z)%Z) -> fold_left Z.min l a0 = a0.
Proof.
  induction l as [|z l IH]; intros H; [reflexivity|]. cbn [fold_left].
  rewrite Z.min_l by (apply H; left; reflexivity). apply IH. intros y Hy. apply H. right. exact Hy.
Qed.

Lemma ac_min_rest a c' : increasing (a :: c') ->
  fold_left Z.min (of_nats (a :: c')) (hd 0%Z (of_nats (a :: c'))) = Z.of_nat a /\
  filter (fun x => negb (x =? Z.of_nat a)%Z) (of_nats (a :: c')) = of_nats c'.
Proof.
  intros Hinc. apply increasing_cons in Hinc as [Hgt _]. split.
  - cbn [of_nats map hd]. apply fold_min_head. intros z [<-|Hz]; [lia|].
    apply in_map_iff in Hz as (y & <- & Hy). specialize (Hgt y Hy). lia.
  - cbn [of_nats map filter]. rewrite Z.eqb_refl. cbn [negb]. apply filter_all_true.
    intros z Hz. apply in_map_iff in Hz as (y & <- & Hy). specialize (Hgt y Hy).
    destruct (Z.eqb_spec (Z.of_nat y) (Z.of_nat a)); [lia|reflexivity].
Qed.

Lemma perms_of_nats l : perms (of_nats l) = map of_nats (perms l).
Proof. unfold perms, of_nats. rewrite map_length. apply perms_aux_map. Qed.
(* ---------------------------------------------------------------------------------------------- *)
(** * itertools.permutations(l): exactly the rearrangements of l, (length l)! of them *)
Lemma picks_spec {A} (l : list A) :
  length (picks l) = length l /\ forall x r, In (x, r) (picks l) -> S (length r) = length l.
Proof.
  induction l as [|a l [IH1 IH2]]; [split; [reflexivity|intros x r []]|].
  cbn [picks length]. rewrite map_length. split; [now rewrite IH1|].
  intros x r [[= <- <-]|Hin]; [reflexivity|].
  apply in_map_iff in Hin as ([y r'] & [= <- <-] & Hin). cbn [length]. now rewrite (IH2 y r' Hin).
Qed.

Lemma perms_aux_length {A} k : forall l : list A, length l = k -> length (perms_aux k l) = fact k.
Proof.
  induction k as [|k IH]; intros l L; [reflexivity|]. cbn [perms_aux fact].
  destruct (picks_spec l) as [P1 P2].
  rewrite (flat_map_length_const _ _ (fact k)); [rewrite P1, L; lia|].
  intros [x r] Hin. rewrite map_length. apply IH. specialize (P2 x r Hin). lia.
Qed.

Lemma perms_length {A} (l : list A) : length (perms l) = fact (length l).
Proof. unfold perms. now apply perms_aux_length. Qed.

Lemma perm_rm a l : NoDup l -> In a l -> Permutation l (a :: rm a l).
Proof.
  induction l as [|x t IH]; intros ND Hin; [destruct Hin|]. inversion ND as [|x' t' Hx NDt]; subst.
  unfold rm. cbn [filter]. destruct (Nat.eqb_spec x a) as [->|Hne]; cbn [negb].
  - fold (rm a t). rewrite rm_notin by exact Hx. apply Permutation_refl.
  - fold (rm a t). destruct Hin as [->|Hin]; [congruence|].
    eapply Permutation_trans; [apply perm_skip; apply IH; assumption|apply perm_swap].
Qed.

Lemma in_perms_aux k : forall (l sigma : list nat), NoDup l -> length l = k ->
  (In sigma (perms_aux k l) <-> Permutation sigma l).
Proof.
  induction k as [|k IH]; intros l sigma ND L.
  - destruct l; [|discriminate]. cbn [perms_aux In]. split.
    + intros [<-|[]]. apply Permutation_refl.
    + intros H. left. symmetry. apply Permutation_nil. apply Permutation_sym. exact H.
  - rewrite perms_aux_S by exact ND. rewrite in_flat_map. split.
    + intros (a & Ha & Hin). apply in_map_iff in Hin as (s' & <- & Hs').
      apply IH in Hs'; [|apply rm_NoDup; exact ND|rewrite rm_length by assumption; lia].
      eapply Permutation_trans; [apply perm_skip; exact Hs'|]. apply Permutation_sym. apply perm_rm; assumption.
    + intros HP. destruct sigma as [|a s'].
      { apply Permutation_length in HP. cbn [length] in HP. lia. }
      assert (In a l) as Ha by (apply (Permutation_in _ HP); left; reflexivity).
      exists a. split; [exact Ha|]. apply in_map. apply IH; [apply rm_NoDup; exact ND|rewrite rm_length by assumption; lia|].
      apply (Permutation_cons_inv (a := a)). eapply Permutation_trans; [exact HP|]. apply perm_rm; assumption.
Qed.

Lemma in_perms (l sigma : list nat) : NoDup l -> (In sigma (perms l) <-> Permutation sigma l).
Proof. intros ND. unfold perms. now apply in_perms_aux. Qed.

(* ---------------------------------------------------------------------------------------------- *)
(** * all_cycles(n), n >= 2: every cycle of length 2..n, written with its smallest element first *)
Definition ac_cycles (n : nat) : list (list nat) :=
  flat_map (fun k => flat_map (fun c => map (cons (hd 0 c)) (perms (tl c))) (combs k (seq 0 n))) (seq 2 (n - 1)).

Lemma increasing_seq a m : increasing (seq a m).
Proof. intros i j Hij. rewrite seq_length in Hij. rewrite !seq_nth by lia. lia. Qed.

Lemma increasing_filter (p : nat -> bool) l : increasing l -> increasing (filter p l).
Proof.
  induction l as [|x l IH]; intros H; [exact H|]. apply increasing_cons in H as [H1 H2]. cbn [filter].
  destruct (p x); [|apply IH; exact H2]. apply increasing_cons. split; [|apply IH; exact H2].
  intros y Hy. apply filter_In in Hy as [Hy _]. apply H1. exact Hy.
Qed.

(* a cycle in canonical form: at least two distinct points below n, the first one the smallest *)
Definition canonical_cycle (n : nat) (c : list nat) : Prop :=
  2 <= length c /\ NoDup c /\ (forall x, In x c -> x < n) /\ (forall x, In x (tl c) -> hd 0 c < x).

Lemma in_ac_cycles n c : In c (ac_cycles n) <-> canonical_cycle n c.
Proof.
  unfold ac_cycles, canonical_cycle. rewrite in_flat_map. split.
  - intros (k & Hk & Hin). apply in_seq in Hk. apply in_flat_map in Hin as (c0 & Hc0 & Hin).
    apply in_combs_seq in Hc0 as (L0 & Hinc & Hr).
    destruct c0 as [|a c']; [cbn in L0; lia|]. cbn [hd tl] in Hin.
    apply in_map_iff in Hin as (s & <- & Hs).
    pose proof (increasing_NoDup _ Hinc) as ND0. inversion ND0 as [|x l Ha NDc]; subst.
    apply in_perms in Hs; [|exact NDc].
    apply increasing_cons in Hinc as [Hgt _]. cbn [length hd tl] in *.
    split; [rewrite (Permutation_length Hs); lia|]. split; [|split].
    + constructor; [intros Hin; apply Ha; apply (Permutation_in _ Hs); exact Hin|].
      apply (Permutation_NoDup (Permutation_sym Hs)). exact NDc.
    + intros x [<-|Hx]; [specialize (Hr a (or_introl eq_refl)); lia|].
      specialize (Hr x (or_intror (Permutation_in _ Hs Hx))). lia.
    + intros x Hx. apply Hgt. apply (Permutation_in _ Hs). exact Hx.
  - intros (L & ND & Hlt & Hmin). destruct c as [|a s]; [cbn in L; lia|]. cbn [hd tl length] in *.
    inversion ND as [|x l Ha NDs]; subst.
    set (c' := filter (fun x => existsb (Nat.eqb x) s) (seq 0 n)).
    assert (forall x, In x c' <-> In x s) as Hc'.
    { intros x. unfold c'. rewrite filter_In, in_seq, existsb_exists. split.
      - intros (_ & y & Hy & E). apply Nat.eqb_eq in E. subst. exact Hy.
      - intros Hx. split; [specialize (Hlt x (or_intror Hx)); lia|]. exists x. split; [exact Hx|apply Nat.eqb_refl]. }
    assert (increasing c') as Hinc by (apply increasing_filter; apply increasing_seq).
    assert (Permutation s c') as HP.
    { apply NoDup_Permutation; [exact NDs|apply increasing_NoDup; exact Hinc|]. intros x. symmetry. apply Hc'. }
    exists (length (a :: s)). split; [apply in_seq; cbn [length]; assert (length (a :: s) <= n); [|cbn [length] in *; lia]|].
    { pose proof (@NoDup_incl_length _ (a :: s) (seq 0 n) ND) as HL. rewrite seq_length in HL. apply HL.
      intros x Hx. apply in_seq. specialize (Hlt x Hx). lia. }
    apply in_flat_map. exists (a :: c'). split.
    + apply in_combs_seq. split; [cbn [length]; now rewrite (Permutation_length HP)|]. split.
      * apply increasing_cons. split; [|exact Hinc]. intros y Hy. apply Hmin. apply Hc'. exact Hy.
      * intros x [<-|Hx]; [specialize (Hlt a (or_introl eq_refl)); lia|].
        apply Hc' in Hx. specialize (Hlt x (or_intror Hx)). lia.
    + cbn [hd tl]. apply in_map. apply in_perms; [apply increasing_NoDup; exact Hinc|exact HP].
Qed.
Lemma flat_map_map {A B C} (f : B -> list C) (g : A -> B) l : flat_map f (map g l) = flat_map (fun x => f (g x)) l.
Proof. induction l as [|a l IH]; [reflexivity|]. cbn [map flat_map]. now rewrite IH. Qed.

Lemma flat_map_length_sum {A B} (f : A -> list B) l :
  length (flat_map f l) = list_sum (map (fun x => length (f x)) l).
Proof. induction l as [|a l IH]; [reflexivity|]. cbn [flat_map map list_sum]. now rewrite app_length, IH. Qed.

(* rotating the written form of a cycle does not change the permutation *)
Lemma cycle_fun_rotate l a t : NoDup (l ++ [a]) -> cycle_fun (l ++ [a]) t = cycle_fun (a :: l) t.
Proof.
  intros ND1.
  assert (NoDup (a :: l)) as ND2.
  { apply (Permutation_NoDup (l := l ++ [a])); [|exact ND1]. apply Permutation_sym, Permutation_cons_append. }
  destruct (cycle_fun_spec _ ND1) as [F1 F2]. destruct (cycle_fun_spec _ ND2) as [G1 G2].
  rewrite app_length in F1. cbn [length] in F1, G1.
  destruct (in_dec Nat.eq_dec t (a :: l)) as [Hin|Hnin].
  - apply In_nth with (d := 0) in Hin as (j & Hj & <-). cbn [length] in Hj. rewrite G1 by exact Hj.
    destruct j as [|i]; cbn [nth].
    + pose proof (F1 (length l) ltac:(lia)) as Fa.
      assert (nth (length l) (l ++ [a]) 0 = a) as Ea by (rewrite app_nth2 by lia; now rewrite Nat.sub_diag).
      rewrite Ea in Fa. rewrite Fa.
      replace (length l + 1) with (S (length l)) by lia. rewrite Nat.mod_same by lia.
      destruct l as [|b l]; [reflexivity|]. cbn [length]. rewrite Nat.mod_small by lia. reflexivity.
    + pose proof (F1 i ltac:(lia)) as Fi.
      assert (nth i (l ++ [a]) 0 = nth i l 0) as Ei by (apply app_nth1; lia).
      rewrite Ei in Fi. rewrite Fi. rewrite (Nat.mod_small (i + 1)) by lia.
      destruct (Nat.eq_dec (i + 1) (length l)) as [E|Hne].
      * rewrite app_nth2 by lia. replace (i + 1 - length l) with 0 by lia.
        replace (S i + 1) with (S (length l)) by lia. rewrite Nat.mod_same by lia. reflexivity.
      * rewrite app_nth1 by lia. rewrite Nat.mod_small by lia. replace (S i + 1) with (S (i + 1)) by lia. reflexivity.
  - rewrite G2 by exact Hnin. apply F2. intros Hin. apply Hnin. apply in_app_or in Hin as [Hin|[<-|[]]].
    + right. exact Hin.
    + left. reflexivity.
Qed.

Lemma ac_gens_eq n : 2 <= n ->
  flat_map (fun k =>
      flat_map (fun subset =>
        let min_elem := fold_left Z.min subset (hd 0%Z subset) in
        let rest := filter (fun x => negb (x =? min_elem)%Z) subset in
        map (fun perm =>
          let '(cycle, current) :=
            fold_left (fun '(cycle, current) target => (zset cycle current target, target))
                      perm (zrange 0 (Z.of_nat n), min_elem) in
          zset cycle current min_elem) (perms rest))
        (combs (Z.to_nat k) (zrange 0 (Z.of_nat n)))) (zrange 2 (Z.of_nat n + 1))
  = map of_nats (map (cycle_gen n) (ac_cycles n)).
Proof.
  intros Hn. rewrite (zrange_nat' 2 (Z.of_nat n + 1) 2 (n + 1)) by lia. replace (n + 1 - 2) with (n - 1) by lia.
  unfold of_nats at 1. rewrite flat_map_map. unfold ac_cycles. rewrite !map_flat_map.
  apply flat_map_ext_in. intros k Hk. apply in_seq in Hk.
  rewrite Nat2Z.id, zrange0_nat. unfold of_nats at 1 2. rewrite combs_map, flat_map_map, !map_flat_map.
  apply flat_map_ext_in. intros c Hc. apply in_combs_seq in Hc as (L & Hinc & Hr).
  destruct c as [|a c']; [cbn in L; lia|]. cbv zeta.
  destruct (ac_min_rest a c' Hinc) as [E1 E2]. fold (of_nats (a :: c')). rewrite E1, E2.
  rewrite perms_of_nats, !map_map. cbn [hd tl]. apply map_ext_in. intros s Hs.
  pose proof (increasing_NoDup _ Hinc) as ND0. inversion ND0 as [|x l Ha NDc]; subst.
  apply in_perms in Hs; [|exact NDc].
  change (map Z.of_nat (seq 0 n)) with (of_nats (seq 0 n)). rewrite <- zrange0_nat.
  apply (ac_build n a s).
  - constructor; [intros Hin; apply Ha; apply (Permutation_in _ Hs); exact Hin|].
    apply (Permutation_NoDup (Permutation_sym Hs)). exact NDc.
  - intros x [<-|Hx]; [specialize (Hr a (or_introl eq_refl)); lia|].
    specialize (Hr x (or_intror (Permutation_in _ Hs Hx))). lia.
Qed.

Definition ac_gens (n : nat) : list (list nat) := map (cycle_gen n) (ac_cycles n).
Definition ac_names (n : nat) : list string :=
  map (fun i => cat ["cycle_"; zs (Z.of_nat i)]) (seq 1 (length (ac_cycles n))).

Lemma ac_cycle_PermN n c : canonical_cycle n c -> PermN n (cycle_gen n c).
Proof. intros (_ & ND & Hlt & _). apply zfrom_cycles_cycle; assumption. Qed.

Theorem all_cycles_returns n : 2 <= n ->
  returns_full (all_cycles (Z.of_nat n)) n (ac_gens n) (ac_names n) (cat ["all_cycles-"; zs (Z.of_nat n)]).
Proof.
  intros Hn. unfold all_cycles. zguard. cbv zeta. rewrite ac_gens_eq by exact Hn.
  rewrite !map_length. fold (ac_names n). fold (ac_gens n).
  apply create_full.
  - assert (In [0; 1] (ac_cycles n)) as Hin.
    { apply in_ac_cycles. split; [cbn; lia|]. split; [repeat constructor; cbn; intuition lia|].
      split; cbn; intros x Hx; intuition lia. }
    unfold ac_gens. destruct (ac_cycles n); [destruct Hin|discriminate].
  - lia.
  - apply Forall_forall. intros p Hp. apply in_map_iff in Hp as (c & <- & Hc). apply in_ac_cycles in Hc.
    apply ac_cycle_PermN. exact Hc.
  - unfold ac_names, ac_gens. now rewrite !map_length, seq_length.
Qed.
(* number of generators: sum over k = 2..n of C(n,k) (k-1)! *)
Lemma ac_cycles_length n :
  length (ac_cycles n) = list_sum (map (fun k => binom n k * fact (k - 1)) (seq 2 (n - 1))).
Proof.
  unfold ac_cycles. rewrite flat_map_length_sum. f_equal. apply map_ext. intros k.
  rewrite (flat_map_length_const _ _ (fact (k - 1))); [now rewrite combs_length, seq_length|].
  intros c Hc. apply in_combs_seq in Hc as (L & _ & _). rewrite map_length, perms_length.
  f_equal. destruct c; cbn [length tl] in *; lia.
Qed.

(* the inverse of a canonical cycle (a s_1 ... s_r) is the canonical cycle (a s_r ... s_1) *)
Lemma ac_inverse n c : canonical_cycle n c ->
  inverse_perm (cycle_gen n c) = cycle_gen n (hd 0 c :: rev (tl c)) /\ canonical_cycle n (hd 0 c :: rev (tl c)).
Proof.
  intros (L & ND & Hlt & Hmin). destruct c as [|a s]; [cbn in L; lia|]. cbn [hd tl length] in *. split.
  - rewrite cycle_gen_inverse by assumption. cbn [rev]. unfold cycle_gen. apply map_ext. intros t.
    apply cycle_fun_rotate. change (rev s ++ [a]) with (rev (a :: s)). apply NoDup_rev. exact ND.
  - split; [cbn [length]; rewrite rev_length; exact L|]. split; [|split].
    + inversion ND as [|x l Ha NDs]; subst. constructor; [rewrite <- in_rev; exact Ha|apply NoDup_rev; exact NDs].
    + intros x [<-|Hx]; [apply Hlt; left; reflexivity|]. apply Hlt. right. apply in_rev. exact Hx.
    + cbn [hd tl]. intros x Hx. apply Hmin. apply in_rev. exact Hx.
Qed.

Theorem all_cycles_documented n : 2 <= n ->
  exists d, all_cycles (Z.of_nat n) = Ok d /\
    p_gens d = map (cycle_gen n) (ac_cycles n) /\
    p_names d = map (fun i => cat ["cycle_"; zs (Z.of_nat i)]) (seq 1 (length (ac_cycles n))) /\
    p_name d = cat ["all_cycles-"; zs (Z.of_nat n)] /\ p_central d = of_nats (seq 0 n) /\
    (* the index list: every cycle on 2..n points of range(n), written with its smallest point first *)
    (forall c, In c (ac_cycles n) <->
       2 <= length c /\ NoDup c /\ (forall x, In x c -> x < n) /\ (forall x, In x (tl c) -> hd 0 c < x)) /\
    length (p_gens d) = list_sum (map (fun k => binom n k * fact (k - 1)) (seq 2 (n - 1))) /\
    length (p_names d) = length (p_gens d) /\
    Forall (PermN n) (p_gens d) /\
    (forall c, In c (ac_cycles n) ->
       (forall i, i < length c -> nth (nth i c 0) (cycle_gen n c) 0 = nth ((i + 1) mod length c) c 0) /\
       (forall t, t < n -> ~ In t c -> nth t (cycle_gen n c) 0 = t) /\
       inverse_perm (cycle_gen n c) = cycle_gen n (hd 0 c :: rev (tl c)) /\
       forall (A : Type) (dflt : A) (x : list A) t, length x = n -> t < n ->
         nth t (apply_perm dflt (cycle_gen n c) x) dflt = nth (cycle_fun c t) x dflt) /\
    closed_flag (p_gens d) = true.
Proof.
  intros Hn. destruct (returns_full_fields _ _ _ _ _ (all_cycles_returns n Hn)) as (d & E & G & N & M & C).
  exists d. rewrite G, N. unfold ac_gens, ac_names. rewrite !map_length, seq_length.
  split; [exact E|]. split; [reflexivity|]. split; [reflexivity|]. split; [exact M|]. split; [exact C|].
  split; [apply in_ac_cycles|]. split; [apply ac_cycles_length|]. split; [reflexivity|]. split; [|split].
  - apply Forall_forall. intros p Hp. apply in_map_iff in Hp as (c & <- & Hc). apply in_ac_cycles in Hc.
    apply ac_cycle_PermN. exact Hc.
  - intros c Hc. apply in_ac_cycles in Hc. pose proof Hc as (L & ND & Hlt & Hmin).
    destruct (cycle_fun_spec c ND) as [F1 F2]. split; [|split; [|split]].
    + intros i Hi. rewrite cycle_gen_nth by (apply Hlt; apply nth_In; exact Hi). apply F1. exact Hi.
    + intros t Ht Hnin. rewrite cycle_gen_nth by exact Ht. apply F2. exact Hnin.
    + apply ac_inverse. exact Hc.
    + intros A dflt x t Lx Ht. apply apply_cycle_gen. exact Ht.
  - apply closed_flag_iff. intros p Hp. apply in_map_iff in Hp as (c & <- & Hc). apply in_ac_cycles in Hc.
    destruct (ac_inverse n c Hc) as [I Hc']. rewrite I. apply in_map. apply in_ac_cycles. exact Hc'.
Qed.

Theorem all_cycles_range n :
  ((exists d, all_cycles n = Ok d) <-> (2 <= n)%Z) /\ (~ (2 <= n)%Z -> all_cycles n = Err AssertionErr).
Proof.
  apply range_from_cases.
  - intros Hn. destruct (all_cycles_documented (Z.to_nat n)) as (d & E & _); try lia.
    exists d. rewrite !Z2Nat.id in E by lia. exact E.
  - intros HN. unfold all_cycles. destruct (Z.leb_spec 2 n); [lia|reflexivity].
  - lia.
Qed.

Example all_cycles_3 :
  all_cycles 3 = Ok {| p_gens := [[1; 0; 2]; [2; 1; 0]; [0; 2; 1]; [1; 2; 0]; [2; 0; 1]];
       p_names := ["cycle_1"; "cycle_2"; "cycle_3"; "cycle_4"; "cycle_5"]%string;
       p_name := "all_cycles-3"%string; p_central := [0; 1; 2]%Z |}
  /\ ac_cycles 3 = [[0; 1]; [0; 2]; [1; 2]; [0; 1; 2]; [0; 2; 1]]
  /\ map (cycle_gen 3) (ac_cycles 3) = [[1; 0; 2]; [2; 1; 0]; [0; 2; 1]; [1; 2; 0]; [2; 0; 1]]
  /\ list_sum (map (fun k => binom 5 k * fact (k - 1)) (seq 2 4)) = 84 /\ length (ac_cycles 5) = 84.
Proof. vm_compute. repeat split. Qed.
