(** Model of RandomWalksGenerator (algo/random_walks.py). Every random draw is an oracle argument:
    the generator choices of classic walks, torch.randperm in bfs and nbt modes. *)
From Coq Require Import ZArith List Bool Arith Lia.
From V Require Import Base W64 Tensor GraphImpl.
Import ListNotations.
Open Scope Z_scope.

Section Walks.
  Variable G : impl.

  Definition act_i (i : nat) (s : state) : state := nth i (acts G) (fun x => x) s.

  (* ---- classic: width independent walks; draws = one generator index per walk per step ---- *)
  Fixpoint classic_loop (steps : nat) (i_step : nat) (prev : list state) (draws : list (list nat))
    : list (list state * nat) :=
    match steps with
    | O => []
    | S k =>
        match draws with
        | [] => []                                           (* oracle exhausted *)
        | d :: rest =>
            let cur := map (fun '(s, g) => act_i g s) (combine prev d) in
            (cur, i_step) :: classic_loop k (S i_step) cur rest
        end
    end.

  Definition walks_classic (width length_ : nat) (start : state) (draws : list (list nat)) : list state * list nat :=
    let first := repeat start width in
    let blocks := (first, O) :: classic_loop (length_ - 1) 1 first draws in
    (concat (map fst blocks), concat (map (fun '(b, i) => repeat i (length b)) blocks)).

  (* ---- TorchHashSet ---- *)
  Definition hs_add (data : list (list Z)) (sorted_numbers : list Z) : list (list Z) :=
    let d := data ++ [sorted_numbers] in
    if (10 <=? length d)%nat then [sort_z (concat d)] else d.
  Definition hs_mask (data : list (list Z)) (x : list Z) : list bool :=
    map (fun h => negb (existsb (fun part => isin_ss1 part h) data)) x.

  (* ---- bfs mode; perms = the randperm drawn at each thinning ---- *)
  Record wst := { w_last : list state; w_set : list (list Z); w_x : list (list state); w_y : list (list nat);
                  w_perms : list (list nat); w_ok : bool }.

  Definition bfs_walk_iter (width : nat) (i_step : nat) (st : wst) : wst + wst :=
    let nb := get_neighbors G (w_last st) in
    let '(ns, nh) := get_unique_states G nb (hashes G nb) in
    let mask := hs_mask (w_set st) nh in
    let ns := mask_select ns mask in let nh := mask_select nh mask in
    match ns with
    | [] => inr st
    | _ =>
        let '(ns, nh, perms, ok) :=
          if (width <? length ns)%nat then
            match w_perms st with
            | [] => (ns, nh, [], false)
            | p :: rest =>
                (* random_indices = randperm(layer_size)[:width].sort() *)
                let idx := map Z.to_nat (sort_z (map Z.of_nat (firstn width p))) in
                (map (fun i => nth i ns []) idx, map (fun i => nth i nh 0) idx, rest,
                 (length p =? length ns)%nat)
            end
          else (ns, nh, w_perms st, true) in
        inl {| w_last := ns; w_set := hs_add (w_set st) nh; w_x := w_x st ++ [ns];
               w_y := w_y st ++ [repeat i_step (length ns)]; w_perms := perms; w_ok := w_ok st && ok |}
    end.

  Fixpoint bfs_walk_loop (steps : nat) (width i_step : nat) (st : wst) : wst :=
    match steps with
    | O => st
    | S k => match bfs_walk_iter width i_step st with
             | inl st' => bfs_walk_loop k width (S i_step) st'
             | inr st' => st'
             end
    end.

  Definition walks_bfs (width length_ : nat) (start : state) (perms : list (list nat)) : result (list state * list nat) :=
    let st := bfs_walk_loop (length_ - 1) width 1
                {| w_last := [start]; w_set := hs_add [] [hashf G start]; w_x := [[start]]; w_y := [[O]];
                   w_perms := perms; w_ok := true |} in
    if w_ok st then Ok (concat (w_x st), concat (w_y st)) else Err RuntimeErr.

  (* ---- nbt mode ---- *)
  Record nst := { n_cur : list state; n_cols : list (list Z); n_idx : nat; n_corr : nat;
                  n_x : list (list state); n_y : list (list nat); n_perms : list (list nat); n_ok : bool }.

  Definition nbt_iter (width history_depth : nat) (st : nst) : nst :=
    let new := get_neighbors G (n_cur st) in
    let hn := hashes G new in
    let '(cand, corr) :=
      if (0 <? history_depth)%nat then
        let mask := map negb (isin hn (concat (n_cols st))) in
        let sel := mask_select new mask in
        let s := length sel in
        if (width <=? s)%nat then (sel, S (n_corr st))
        else if (0 <? s)%nat then (firstn width (concat (repeat sel ((width + s - 1) / s)%nat)), S (n_corr st))
        else (n_cur st, n_corr st)
      else (new, S (n_corr st)) in
    match n_perms st with
    | [] => {| n_cur := n_cur st; n_cols := n_cols st; n_idx := n_idx st; n_corr := n_corr st; n_x := n_x st;
               n_y := n_y st; n_perms := []; n_ok := false |}
    | p :: rest =>
        let cur := firstn width (map (fun i => nth i cand []) p) in
        let idx := if (0 <? history_depth)%nat then (S (n_idx st) mod history_depth)%nat else n_idx st in
        {| n_cur := cur;
           n_cols := if (0 <? history_depth)%nat then upd (n_cols st) idx hn else n_cols st;
           n_idx := idx; n_corr := corr; n_x := n_x st ++ [cur]; n_y := n_y st ++ [repeat corr width];
           n_perms := rest; n_ok := n_ok st && (length p =? length cand)%nat |}
    end.

  Definition walks_nbt (width length_ history_depth : nat) (start : state) (perms : list (list nat))
    : result (list state * list nat) :=
    let first := repeat start width in
    let st0 := {| n_cur := first; n_cols := repeat (repeat (hashf G start) (width * n_gens G)) history_depth;
                  n_idx := 0; n_corr := 0; n_x := [first]; n_y := [repeat O width]; n_perms := perms; n_ok := true |} in
    let st := fold_left (fun st _ => nbt_iter width history_depth st) (seq 1 (length_ - 1)) st0 in
    if n_ok st then Ok (concat (n_x st), concat (n_y st)) else Err RuntimeErr.
End Walks.
