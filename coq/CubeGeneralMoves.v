(** GENERAL-n [CubeMovesStructure]: the dictionary returned by [cube_moves n]
    (model of cube.py [generate_cube_permutations_oneline]) for EVERY n >= 2.

    Part 1: names ([mname], [name_index], first letters).
    Part 2: [sdict_set] on fresh keys, [sort_by] = the unique key-sorted rearrangement.
    Part 3: [cube_moves_eq]: cube_moves n = Ok [(mname t i, move_perm n t (src n t i)) | t in f,r,d; i < n]
            with src n MR i = n-1-i (the renaming of the r-turns) and src n t i = i otherwise.
    Part 4: [cube_moves_structure_general]: CubeMovesStructure n for all n >= 2
            (the statement that PuzzlesProofs.v proves for n = 2..6 by computation). *)
From Coq Require Import String Ascii ZArith List Bool Arith Lia DecimalString
  Sorting.Permutation Sorting.Sorted.
From Coq Require DecimalNat DecimalFacts.
From V Require Import Base Perm PermProofs PermCycles Puzzles PuzzlesProofs CubeGeneral.
Import ListNotations.
Local Open Scope list_scope.
Local Open Scope nat_scope.

(* ====================================================================================== *)
(** * Part 1: names *)

Lemma to_uint_nonnil i : Nat.to_uint i <> Decimal.Nil.
Proof.
  rewrite <- (DecimalNat.Unsigned.of_to i) at 1. rewrite DecimalNat.Unsigned.to_of. apply DecimalFacts.unorm_nonnil.
Qed.

Lemma mname_cons t i : mname t i = String (mchar t) (str_of_nat i).
Proof. destruct t; reflexivity. Qed.

Lemma name_index_mname t i : name_index (mname t i) = i.
Proof.
  rewrite mname_cons. unfold name_index, str_of_nat.
  pose proof (to_uint_nonnil i) as Hn.
  assert (NilZero.string_of_uint (Nat.to_uint i) = NilEmpty.string_of_uint (Nat.to_uint i)) as E.
  { destruct (Nat.to_uint i); try reflexivity. contradiction. }
  rewrite E, NilEmpty.usu. apply DecimalNat.Unsigned.of_to.
Qed.

Lemma mchar_inj t t' : mchar t = mchar t' -> t = t'.
Proof. destruct t, t'; intros E; try reflexivity; discriminate E. Qed.

Lemma mname_inj t i t' i' : mname t i = mname t' i' -> t = t' /\ i = i'.
Proof.
  intros E. split.
  - rewrite !mname_cons in E. inversion E as [[E1 E2]]. apply mchar_inj. exact E1.
  - rewrite <- (name_index_mname t i), <- (name_index_mname t' i'), E. reflexivity.
Qed.

Lemma starts_with_mname t t' i : starts_with_char (mchar t) (mname t' i) = mtype_eqb t' t.
Proof. rewrite mname_cons. destruct t, t'; reflexivity. Qed.

(* ====================================================================================== *)
(** * Part 2: dictionaries and sorted() *)

Lemma sdict_set_fresh {V} k (v : V) d : ~ In k (map fst d) -> sdict_set k v d = d ++ [(k, v)].
Proof.
  induction d as [|[k' v'] d IH]; intros Hn; [reflexivity|].
  cbn [sdict_set map fst In] in *. destruct (String.eqb_spec k k') as [->|Hne].
  - exfalso. apply Hn. left; reflexivity.
  - cbn [app]. f_equal. apply IH. intros H. apply Hn. right; exact H.
Qed.

Lemma fold_sdict_fresh {A V} (key : A -> string) (val : A -> V) l : forall d,
  NoDup (map fst d ++ map key l) ->
  fold_left (fun d x => sdict_set (key x) (val x) d) l d = d ++ map (fun x => (key x, val x)) l.
Proof.
  induction l as [|a l IH]; intros d ND; cbn [fold_left map]; [rewrite app_nil_r; reflexivity|].
  cbn [map] in ND.
  rewrite sdict_set_fresh.
  - rewrite IH.
    + rewrite <- app_assoc. reflexivity.
    + rewrite map_app. cbn [map fst]. rewrite <- app_assoc. cbn [app]. exact ND.
  - intros Hin. apply NoDup_remove_2 in ND. apply ND. apply in_or_app. left; exact Hin.
Qed.

Lemma fold_left_ext {A B} (f g : A -> B -> A) l : (forall a b, f a b = g a b) ->
  forall a, fold_left f l a = fold_left g l a.
Proof. intros H. induction l as [|b l IH]; intros a; cbn [fold_left]; [reflexivity|]. rewrite H. apply IH. Qed.

Section SortBy.
  Context {A : Type} (key : A -> nat).
  Definition ltk (a b : A) : Prop := key a < key b.

  Lemma insert_by_perm x l : Permutation (insert_by key x l) (x :: l).
  Proof.
    induction l as [|y t IH]; cbn [insert_by]; [apply Permutation_refl|].
    destruct (key y <=? key x); [|apply Permutation_refl].
    eapply Permutation_trans; [apply perm_skip; exact IH|apply perm_swap].
  Qed.

  Lemma insert_by_sorted x l : StronglySorted ltk l -> (forall y, In y l -> key y <> key x) ->
    StronglySorted ltk (insert_by key x l).
  Proof.
    induction 1 as [|y t SS IH HF]; intros Hne; cbn [insert_by].
    - constructor; constructor.
    - destruct (Nat.leb_spec (key y) (key x)) as [Hle|Hgt].
      + assert (key y < key x) as Hlt by (specialize (Hne y (or_introl eq_refl)); lia).
        constructor.
        * apply IH. intros z Hz. apply Hne. right; exact Hz.
        * rewrite Forall_forall in *. intros z Hz.
          eapply Permutation_in in Hz; [|apply insert_by_perm].
          destruct Hz as [<-|Hz]; [exact Hlt|apply HF; exact Hz].
      + constructor; [constructor; assumption|].
        constructor; [exact Hgt|]. rewrite Forall_forall in *. intros z Hz.
        specialize (HF z Hz). unfold ltk in *. lia.
  Qed.

  Lemma sort_fold_spec l : forall acc,
    StronglySorted ltk acc -> NoDup (map key (acc ++ l)) ->
    let r := fold_left (fun acc x => insert_by key x acc) l acc in
    StronglySorted ltk r /\ Permutation r (acc ++ l).
  Proof.
    induction l as [|x l IH]; intros acc SS ND; cbv zeta; cbn [fold_left].
    - rewrite app_nil_r. split; [exact SS|apply Permutation_refl].
    - assert (Permutation (insert_by key x acc ++ l) (acc ++ x :: l)) as HP.
      { eapply Permutation_trans; [apply Permutation_app_tail; apply insert_by_perm|].
        cbn [app]. apply Permutation_middle. }
      destruct (IH (insert_by key x acc)) as [S1 P1].
      + apply insert_by_sorted; [exact SS|].
        intros y Hy E. rewrite map_app in ND. cbn [map] in ND. apply NoDup_remove_2 in ND.
        apply ND. apply in_or_app. left. rewrite <- E. apply in_map. exact Hy.
      + eapply Permutation_NoDup; [|exact ND]. apply Permutation_map. apply Permutation_sym. exact HP.
      + cbv zeta in S1, P1. split; [exact S1|]. eapply Permutation_trans; [exact P1|exact HP].
  Qed.

  Lemma sorted_key_unique (l1 : list A) : forall l2,
    StronglySorted ltk l1 -> StronglySorted ltk l2 -> Permutation l1 l2 -> l1 = l2.
  Proof.
    induction l1 as [|a t1 IH]; intros l2 S1 S2 P.
    - apply Permutation_nil in P. auto.
    - destruct l2 as [|b t2]; [apply Permutation_sym, Permutation_nil in P; discriminate|].
      inversion S1 as [|? ? S1' F1]; subst. inversion S2 as [|? ? S2' F2]; subst.
      rewrite Forall_forall in F1, F2.
      assert (a = b) as ->.
      { assert (In a (b :: t2)) as Ha by (eapply Permutation_in; [exact P|left; reflexivity]).
        assert (In b (a :: t1)) as Hb
          by (eapply Permutation_in; [apply Permutation_sym; exact P|left; reflexivity]).
        destruct Ha as [->|Ha]; [reflexivity|]. destruct Hb as [->|Hb]; [reflexivity|].
        specialize (F1 b Hb). specialize (F2 a Ha). unfold ltk in *. lia. }
      f_equal. apply IH; auto. eapply Permutation_cons_inv. exact P.
  Qed.

  (** sorted(l, key) for distinct keys: the unique key-increasing rearrangement *)
  Theorem sort_by_unique l target : NoDup (map key l) ->
    StronglySorted ltk target -> Permutation l target -> sort_by key l = target.
  Proof.
    intros ND ST P. unfold sort_by.
    destruct (sort_fold_spec l [] (SSorted_nil _) ND) as [S1 P1]. cbv zeta in S1, P1. cbn [app] in P1.
    apply sorted_key_unique; auto. eapply Permutation_trans; [exact P1|exact P].
  Qed.
End SortBy.

Lemma SS_of_map {A B} (R : B -> B -> Prop) (f : A -> B) l :
  StronglySorted R (map f l) -> StronglySorted (fun a b => R (f a) (f b)) l.
Proof.
  induction l as [|a l IH]; intros H; [constructor|].
  cbn [map] in H. inversion H as [|? ? H1 H2]; subst. constructor; [apply IH; exact H1|].
  rewrite Forall_forall in *. intros x Hx. apply H2. apply in_map. exact Hx.
Qed.

Lemma SS_seq a m : StronglySorted lt (seq a m).
Proof.
  revert a; induction m as [|m IH]; intros a; cbn [seq]; constructor; [apply IH|].
  rewrite Forall_forall. intros x Hx. apply in_seq in Hx. lia.
Qed.

Lemma index_of_self_seq (L : list string) : NoDup L ->
  map (fun k => index_of k L) L = seq 0 (length L).
Proof.
  induction 1 as [|a t Hn ND IH]; [reflexivity|].
  cbn [map length seq index_of]. rewrite String.eqb_refl. f_equal.
  rewrite <- seq_shift, <- IH, map_map. apply map_ext_in. intros k Hk.
  destruct (String.eqb_spec k a) as [->|_]; [contradiction|reflexivity].
Qed.

(* ====================================================================================== *)
(** * Part 3: the dictionary returned by cube_moves *)

(* the slice actually turned by the move NAMED (t,i): the r-turns are renamed r(n-1-s) *)
Definition src (n : nat) (t : mtype) (i : nat) : nat := match t with MR => n - 1 - i | _ => i end.
Definition ordered (n : nat) : list (mtype * nat) := list_prod [MF; MR; MD] (seq 0 n).
Definition canon_entry (n : nat) (x : mtype * nat) : string * list nat :=
  (mname (fst x) (snd x), move_perm n (fst x) (src n (fst x) (snd x))).
Definition canonical (n : nat) : list (string * list nat) := map (canon_entry n) (ordered n).

Lemma src_lt n t i : i < n -> src n t i < n.
Proof. destruct t; cbn [src]; lia. Qed.
Lemma src_src n t i : i < n -> src n t (src n t i) = i.
Proof. destruct t; cbn [src]; lia. Qed.
Lemma out_name_src n t s : out_name n t s = mname t (src n t s).
Proof. destruct t; reflexivity. Qed.

Lemma In_ordered n t i : In (t, i) (ordered n) <-> i < n.
Proof.
  unfold ordered. rewrite in_prod_iff, in_seq. split; [lia|]. intros H. split; [|lia].
  destruct t; cbn; auto.
Qed.

Lemma NoDup_mtypes : NoDup [MF; MR; MD].
Proof. repeat constructor; cbn; intuition discriminate. Qed.

Lemma NoDup_ordered n : NoDup (ordered n).
Proof. apply NoDup_list_prod; [exact NoDup_mtypes|apply seq_NoDup]. Qed.

Lemma NoDup_names n : NoDup (map (fun x : mtype * nat => mname (fst x) (snd x)) (ordered n)).
Proof.
  apply NoDup_map_inj; [apply NoDup_ordered|].
  intros [t i] [t' i'] _ _ E. cbn [fst snd] in E. apply mname_inj in E as [-> ->]. reflexivity.
Qed.

Definition flip_r (n : nat) (x : mtype * nat) : mtype * nat := (fst x, src n (fst x) (snd x)).

Lemma flip_r_perm n : Permutation (map (flip_r n) (ordered n)) (ordered n).
Proof.
  apply NoDup_Permutation.
  - apply NoDup_map_inj; [apply NoDup_ordered|].
    intros [t i] [t' i'] H1 H2 E. apply In_ordered in H1, H2. unfold flip_r in E. cbn [fst snd] in E.
    inversion E as [[E1 E2]]. subst t'. f_equal.
    rewrite <- (src_src n t i H1), <- (src_src n t i' H2), E2. reflexivity.
  - apply NoDup_ordered.
  - intros [t i]. rewrite in_map_iff. split.
    + intros ([t' i'] & E & H). apply In_ordered in H. unfold flip_r in E. cbn [fst snd] in E.
      inversion E; subst. apply In_ordered. apply src_lt. exact H.
    + intros H. apply In_ordered in H. exists (t, src n t i). split.
      * unfold flip_r. cbn [fst snd]. rewrite src_src by exact H. reflexivity.
      * apply In_ordered. apply src_lt. exact H.
Qed.

(** The returned dictionary, for every n >= 2: entries f0..f(n-1), r0..r(n-1), d0..d(n-1) in this order;
    the entry named r_i is the turn of slice n-1-i. *)
Theorem cube_moves_eq n : 2 <= n -> cube_moves n = Ok (canonical n).
Proof.
  intros Hn. unfold cube_moves. destruct (Nat.ltb_spec n 2) as [Hlt|_]; [lia|]. cbv zeta. f_equal.
  fold (ordered n).
  set (nm := fun x : mtype * nat => mname (fst x) (snd x)).
  assert (map (fun '(t, i) => mname t i) (ordered n) = map nm (ordered n)) as Enames
    by (apply map_ext; intros [t i]; reflexivity).
  rewrite Enames. set (names := map nm (ordered n)).
  set (keyf := fun kv : string * list nat => index_of (fst kv) names).
  (* the dictionary before sorting *)
  set (key := fun x : mtype * nat => out_name n (fst x) (snd x)).
  set (val := fun x : mtype * nat => move_perm n (fst x) (snd x)).
  rewrite (fold_left_ext _ (fun d x => sdict_set (key x) (val x) d)) by (intros d [t s]; reflexivity).
  assert (map key (ordered n) = map nm (map (flip_r n) (ordered n))) as Ekey.
  { rewrite map_map. apply map_ext. intros [t s]. unfold key, nm, flip_r. cbn [fst snd]. apply out_name_src. }
  rewrite fold_sdict_fresh.
  2:{ cbn [map app]. rewrite Ekey. eapply Permutation_NoDup; [|apply (NoDup_names n)].
      apply Permutation_map. apply Permutation_sym. apply flip_r_perm. }
  cbn [app].
  assert (map (fun x => (key x, val x)) (ordered n) = map (canon_entry n) (map (flip_r n) (ordered n))) as Emoves.
  { rewrite map_map. apply map_ext_in. intros [t s] Hin. apply In_ordered in Hin.
    unfold key, val, canon_entry, flip_r. cbn [fst snd]. rewrite out_name_src, src_src by exact Hin. reflexivity. }
  rewrite Emoves.
  assert (Permutation (map (canon_entry n) (map (flip_r n) (ordered n))) (canonical n)) as HP.
  { unfold canonical. apply Permutation_map. apply flip_r_perm. }
  assert (map keyf (canonical n) = seq 0 (length names)) as Ekeys.
  { unfold canonical. rewrite map_map.
    rewrite <- (index_of_self_seq names (NoDup_names n)).
    change (map (fun k => index_of k names) names) with (map (fun k => index_of k names) (map nm (ordered n))).
    rewrite map_map. apply map_ext. intros [t i]. reflexivity. }
  apply sort_by_unique.
  - eapply Permutation_NoDup; [apply Permutation_map; apply Permutation_sym; exact HP|].
    rewrite Ekeys. apply seq_NoDup.
  - apply (SS_of_map lt keyf). rewrite Ekeys. apply SS_seq.
  - exact HP.
Qed.

(* ====================================================================================== *)
(** * Part 4: CubeMovesStructure for every n >= 2 *)

Lemma expected_moved_src n t i : i < n -> expected_moved n (src n t i) = expected_moved n i.
Proof.
  intros Hi. destruct t; cbn [src]; try reflexivity. unfold expected_moved.
  destruct (Nat.eqb_spec (n - 1 - i) 0); destruct (Nat.eqb_spec (n - 1 - i) (n - 1));
    destruct (Nat.eqb_spec i 0); destruct (Nat.eqb_spec i (n - 1)); cbn [orb]; try reflexivity; lia.
Qed.

Lemma In_canonical n nm p : In (nm, p) (canonical n) ->
  exists t i, i < n /\ nm = mname t i /\ p = move_perm n t (src n t i).
Proof.
  unfold canonical. intros H. apply in_map_iff in H as ([t i] & E & Hin). apply In_ordered in Hin.
  unfold canon_entry in E. cbn [fst snd] in E. inversion E. exists t, i. auto.
Qed.

Theorem canonical_MoveStructure n nm p : 2 <= n -> In (nm, p) (canonical n) -> MoveStructure n nm p.
Proof.
  intros Hn Hin. apply In_canonical in Hin as (t & i & Hi & -> & ->).
  pose proof (src_lt n t i Hi) as Hs.
  unfold MoveStructure.
  split; [apply move_perm_length; assumption|].
  split; [apply move_perm_Perm; assumption|].
  split; [apply move_perm_Order4; assumption|].
  rewrite move_perm_moved_count, name_index_mname by assumption. apply expected_moved_src. exact Hi.
Qed.

(* the entries of one axis *)
Lemma filter_map_all {A B} (f : A -> B) (g : B -> bool) l :
  (forall x, In x l -> g (f x) = true) -> filter g (map f l) = map f l.
Proof. intros H. apply filter_all. intros y Hy. apply in_map_iff in Hy as (x & <- & Hx). apply H. exact Hx. Qed.

Lemma filter_map_none {A B} (f : A -> B) (g : B -> bool) l :
  (forall x, In x l -> g (f x) = false) -> filter g (map f l) = [].
Proof.
  induction l as [|a l IH]; intros H; [reflexivity|]. cbn [map filter].
  rewrite (H a (or_introl eq_refl)). apply IH. intros x Hx. apply H. right; exact Hx.
Qed.

Lemma axis_moves_canonical n t :
  axis_moves t (canonical n) = map (fun i => canon_entry n (t, i)) (seq 0 n).
Proof.
  unfold axis_moves, canonical, ordered. cbn [list_prod]. rewrite !map_app, !filter_app, !map_map.
  cbn [map filter]. rewrite !app_nil_r.
  destruct t.
  - rewrite filter_map_all, !filter_map_none; try (intros x _; unfold canon_entry; cbn [fst snd]; apply starts_with_mname).
    rewrite !app_nil_r. reflexivity.
  - rewrite filter_map_none, filter_map_all, filter_map_none;
      try (intros x _; unfold canon_entry; cbn [fst snd]; apply starts_with_mname).
    rewrite !app_nil_r. reflexivity.
  - rewrite filter_map_none, filter_map_none, filter_map_all;
      try (intros x _; unfold canon_entry; cbn [fst snd]; apply starts_with_mname).
    reflexivity.
Qed.

Lemma FOP_map_seq {B} (R : B -> B -> Prop) (f : nat -> B) a m :
  (forall i j, a <= i < a + m -> a <= j < a + m -> i <> j -> R (f i) (f j)) ->
  ForallOrdPairs R (map f (seq a m)).
Proof.
  revert a; induction m as [|m IH]; intros a H; cbn [seq map]; constructor.
  - rewrite Forall_forall. intros y Hy. apply in_map_iff in Hy as (j & <- & Hj). apply in_seq in Hj.
    apply H; lia.
  - apply IH. intros i j Hi Hj Hne. apply H; lia.
Qed.

Theorem canonical_AxisStructure n t : 2 <= n -> AxisStructure n (canonical n) t.
Proof.
  intros Hn. unfold AxisStructure. cbv zeta. rewrite axis_moves_canonical, !map_map.
  unfold canon_entry. cbn [fst snd].
  destruct (axis_structure_general n t Hn) as [HC HA].
  split; [reflexivity|]. split.
  - apply FOP_map_seq. intros i j Hi Hj Hne.
    apply HC; try (apply src_lt; lia).
    intros E. apply Hne. rewrite <- (src_src n t i), <- (src_src n t j), E by lia. reflexivity.
  - intros x Hx. rewrite <- (HA x Hx). split.
    + intros (p & Hp & Hm). apply in_map_iff in Hp as (i & <- & Hi). apply in_seq in Hi.
      exists (src n t i). split; [apply src_lt; lia|exact Hm].
    + intros (s & Hs & Hm). exists (move_perm n t s). split; [|exact Hm].
      apply in_map_iff. exists (src n t s). split; [rewrite src_src by exact Hs; reflexivity|].
      apply in_seq. pose proof (src_lt n t s Hs). lia.
Qed.

(** The statement proved by computation for n = 2..6 in PuzzlesProofs.v ([cube_moves_ok]), now for ALL n >= 2:
    3n named turns f0.., r0.., d0.. of 6n^2 points; each a permutation of order exactly 4 moving exactly
    [expected_moved n i] stickers; the n turns of an axis commute pairwise, have pairwise disjoint supports and
    together move every sticker except the two centres on the axis (n odd). *)
Theorem cube_moves_structure_general n : 2 <= n -> CubeMovesStructure n.
Proof.
  intros Hn. unfold CubeMovesStructure. exists (canonical n).
  split; [apply cube_moves_eq; exact Hn|].
  split; [unfold canonical, ordered; rewrite map_length, prod_length, seq_length; reflexivity|].
  split.
  - unfold canonical, cube_names. fold (ordered n). rewrite map_map. apply map_ext. intros [t i]. reflexivity.
  - split.
    + intros nm p Hin. apply canonical_MoveStructure; assumption.
    + intros t. apply canonical_AxisStructure. exact Hn.
Qed.

(* n < 2 is rejected by the assertion, so the theorem covers the whole domain of the generator *)
Theorem cube_moves_small n : n < 2 -> cube_moves n = Err AssertionErr.
Proof. intros H. unfold cube_moves. destruct (Nat.ltb_spec n 2); [reflexivity|lia]. Qed.

(* ---------- non-vacuity / cross-checks ---------- *)
Example ex_cube_moves_eq_3 : 2 <= 3 /\ cube_moves 3 = Ok (canonical 3) /\ length (canonical 3) = 9.
Proof. split; [lia|]. split; vm_compute; reflexivity. Qed.

Example ex_names : name_index (mname MR 12) = 12 /\ mname MR 12 = "r12"%string /\
  starts_with_char (mchar MR) (mname MR 12) = true /\ starts_with_char (mchar MD) (mname MR 12) = false.
Proof. vm_compute. auto. Qed.

Example ex_sort_by_unique :
  let key := fun x : nat * nat => fst x in
  NoDup (map key [(2, 7); (0, 8); (1, 9)]) /\
  StronglySorted (ltk key) [(0, 8); (1, 9); (2, 7)] /\
  Permutation [(2, 7); (0, 8); (1, 9)] [(0, 8); (1, 9); (2, 7)] /\
  sort_by key [(2, 7); (0, 8); (1, 9)] = [(0, 8); (1, 9); (2, 7)].
Proof.
  cbv zeta. split; [repeat constructor; cbn; intuition lia|]. split.
  - repeat constructor; unfold ltk; cbn; lia.
  - split; [|reflexivity].
    apply NoDup_Permutation; [| |intros x; cbn; intuition];
      repeat constructor; cbn; intuition congruence.
Qed.

Example ex_In_canonical : In (mname MR 0, move_perm 3 MR 2) (canonical 3) /\ src 3 MR 0 = 2.
Proof. split; [|reflexivity]. vm_compute. auto 10. Qed.

(* the general theorem agrees with the bounded one where both apply *)
Example ex_general_vs_bounded : CubeMovesStructure 4 /\ cube_moves_ok 4 = true.
Proof. split; [apply cube_moves_structure_general; lia|vm_compute; reflexivity]. Qed.

Print Assumptions cube_moves_eq.
Print Assumptions canonical_MoveStructure.
Print Assumptions canonical_AxisStructure.
Print Assumptions cube_moves_structure_general.
Print Assumptions cube_moves_small.
Print Assumptions sort_by_unique.
Print Assumptions name_index_mname.
