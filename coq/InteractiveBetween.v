(** Part 2: the synchronous two-sided search [find_path_between] (Interactive.v) is exact:
    it returns a shortest walk from the start set to the destination set whenever one of length
    at most 2 * max_diameter exists, and None otherwise. *)
From Coq Require Import ZArith List Bool Arith Lia Permutation Sorted.
From V Require Import Base BaseProofs Tensor TensorProofs Graph GraphProofs GraphImpl Def Paths
                      PathsProofs BfsStep Interactive InteractiveProofs.
Import ListNotations.
Local Open Scope nat_scope.

(* ------------------------------------------------------------------ *)
(** * Small generic facts *)

Lemma nat_cases d : d = 0 \/ exists r, d = 2 * r + 1 \/ d = 2 * r + 2.
Proof.
  induction d as [|d IH]; [left; reflexivity|]. right.
  destruct IH as [-> | (r & [-> | ->])].
  - exists 0. left. reflexivity.
  - exists r. right. lia.
  - exists (S r). left. lia.
Qed.

Lemma list_ex_dec {A} (P : A -> Prop) (l : list A) :
  (forall x, P x \/ ~ P x) -> (exists x, In x l /\ P x) \/ ~ (exists x, In x l /\ P x).
Proof.
  intros Hd. induction l as [|a l IH].
  - right. intros (x & [] & _).
  - destruct (Hd a) as [Ha | Ha].
    + left. exists a. simpl; auto.
    + destruct IH as [(x & Hx & HP) | IH].
      * left. exists x. simpl; auto.
      * right. intros (x & [<- | Hx] & HP); [contradiction|]. apply IH. eauto.
Qed.

(* ------------------------------------------------------------------ *)
(** * Walks reverse between a graph and its inverted graph *)

Section Reverse.
  Variable gs gis : list (state -> state).
  Variable U : state -> Prop.
  Hypothesis U_closed : closed state gs U.
  Hypothesis len_eq : length gis = length gs.
  Hypothesis undo : forall i g gi x, nth_error gs i = Some g -> nth_error gis i = Some gi -> U x ->
                                     gi (g x) = x.

  Lemma run_in_U p : forall x y, U x -> run state gs x p = Some y -> U y.
  Proof.
    induction p as [|i rest IH]; intros x y Hx Hrun; simpl in Hrun.
    - inversion Hrun; subst. exact Hx.
    - destruct (nth_error gs i) as [g|] eqn:Hg; [|discriminate].
      apply (IH (g x) y); auto. apply U_closed; auto. eapply nth_error_In; eauto.
  Qed.

  Lemma run_rev p : forall x y, U x -> run state gs x p = Some y -> run state gis y (rev p) = Some x.
  Proof.
    induction p as [|i rest IH]; intros x y Hx Hrun; simpl in Hrun.
    - inversion Hrun; subst. reflexivity.
    - destruct (nth_error gs i) as [g|] eqn:Hg; [|discriminate].
      assert (HUg : U (g x)).
      { apply U_closed; auto. eapply nth_error_In; eauto. }
      cbn [rev]. rewrite (run_app state gis). rewrite (IH (g x) y HUg Hrun).
      destruct (nth_error_lt_some gis i) as (gi & Hgi).
      { rewrite len_eq. eapply nth_error_some_lt; eauto. }
      simpl. rewrite Hgi. rewrite (undo i g gi x Hg Hgi Hx). reflexivity.
  Qed.

  (* graph_inv.apply_path(y, p[::-1]) *)
  Lemma replay_rev p : forall x y, U x -> run state gs x p = Some y ->
    fold_left (fun s i => nth i gis (fun x => x) s) (rev p) y = x.
  Proof.
    induction p as [|i rest IH]; intros x y Hx Hrun; simpl in Hrun.
    - inversion Hrun; subst. reflexivity.
    - destruct (nth_error gs i) as [g|] eqn:Hg; [|discriminate].
      assert (HUg : U (g x)).
      { apply U_closed; auto. eapply nth_error_In; eauto. }
      cbn [rev]. rewrite fold_left_app. rewrite (IH (g x) y HUg Hrun).
      destruct (nth_error_lt_some gis i) as (gi & Hgi).
      { rewrite len_eq. eapply nth_error_some_lt; eauto. }
      simpl. rewrite (nth_error_nth _ _ _ Hgi). apply (undo i g gi x Hg Hgi Hx).
  Qed.
End Reverse.

(* ------------------------------------------------------------------ *)
(** * restore_path over the layers of a START SET *)

Section RestoreSet.
  Variable G Ginv : impl.
  Variable U : state -> Prop.
  Hypothesis U_closed : closed state (acts G) U.
  Hypothesis U_closed_inv : closed state (acts Ginv) U.
  Hypothesis NoColl : forall a b, U a -> U b -> hashf G a = hashf G b -> a = b.
  Hypothesis same_len : length (acts Ginv) = length (acts G).
  Hypothesis inv_undo : forall i g gi x, nth_error (acts G) i = Some g -> nth_error (acts Ginv) i = Some gi -> U x ->
                         g (gi x) = x /\ gi (g x) = x.
  Variable S0 : list state.
  Hypothesis S0_U : forall s, In s S0 -> U s.
  Notation LS i := (layer state st_eq_dec (acts G) S0 i).

  Definition layers_ok (lh : list (list Z)) : Prop :=
    forall i, i < length lh ->
      StronglySorted Z.lt (nth i lh []) /\
      (forall h, In h (nth i lh []) <-> exists t, In t (LS i) /\ hashf G t = h).

  Lemma LS_U i t : In t (LS i) -> U t.
  Proof. apply layer_in_closed; auto. Qed.

  Lemma hash_in_layer_set lh i q :
    layers_ok lh -> i < length lh -> U q ->
    (In (hashf G q) (nth i lh []) <-> In q (LS i)).
  Proof.
    intros Hb Hi Hq. destruct (Hb i Hi) as [_ Hm]. rewrite Hm. split.
    - intros (t & Ht & Hh). assert (t = q) as <-; [|exact Ht].
      apply NoColl; auto. eapply LS_U; eauto.
    - intros H. exists q. split; auto.
  Qed.

  Lemma restore_step_ok_set lh j path cur :
    layers_ok lh -> j < length lh -> In cur (LS (S j)) ->
    exists i g x,
      restore_step G Ginv (Ok (path, cur)) (nth j lh []) = Ok (i :: path, x) /\
      nth_error (acts G) i = Some g /\ In x (LS j) /\ g x = cur.
  Proof.
    intros Hb Hj Hcur.
    assert (HUcur : U cur) by (eapply LS_U; eauto).
    unfold restore_step. cbn [bind].
    set (cands := map (fun g : state -> state => g cur) (acts Ginv)).
    set (mask := isin (map (hashf G) cands) (nth j lh [])).
    destruct (first_true mask) as [i|] eqn:E.
    - apply first_true_spec in E. destruct E as [Ht _].
      unfold mask in Ht. apply nth_isin_true in Ht. destruct Ht as [Hlt Hin].
      unfold cands in Hlt. rewrite !map_length in Hlt.
      destruct (nth_error_lt_some (acts Ginv) i Hlt) as (gi & Hgi).
      destruct (nth_error_lt_some (acts G) i ltac:(lia)) as (g & Hg).
      unfold cands in Hin. rewrite (cand_hash_nth G Ginv cur i gi Hgi) in Hin.
      assert (HUx : U (gi cur)).
      { apply U_closed_inv; auto. eapply nth_error_In; eauto. }
      apply (hash_in_layer_set lh j (gi cur) Hb Hj HUx) in Hin.
      exists i, g, (gi cur). unfold cands. rewrite (cand_nth Ginv cur i gi Hgi).
      repeat split; auto.
      destruct (inv_undo i g gi cur Hg Hgi HUcur) as [H1 _]. exact H1.
    - exfalso.
      apply (layer_succ_spec state st_eq_dec (acts G) S0 j cur) in Hcur.
      destruct Hcur as [HN _].
      apply (N_spec state (acts G)) in HN. destruct HN as (x & g & Hx & Hg & Heq).
      apply In_nth_error in Hg. destruct Hg as (i & Hg).
      pose proof (nth_error_some_lt _ _ _ Hg) as Hlt.
      destruct (nth_error_lt_some (acts Ginv) i ltac:(lia)) as (gi & Hgi).
      assert (HUx : U x) by (eapply LS_U; eauto).
      destruct (inv_undo i g gi x Hg Hgi HUx) as [_ H2].
      pose proof (proj1 (first_true_none mask) E i) as Hf.
      assert (Ht : nth i mask false = true).
      { unfold mask, isin.
        apply nth_error_nth.
        assert (Hc : nth_error (map (hashf G) cands) i = Some (hashf G (gi cur))).
        { unfold cands.
          apply (map_nth_error (hashf G)).
          apply (map_nth_error (fun g0 : state -> state => g0 cur)). exact Hgi. }
        apply (map_nth_error (isin1 (nth j lh []))) in Hc. rewrite Hc. f_equal.
        apply isin1_iff. rewrite Heq, H2.
        apply (hash_in_layer_set lh j x Hb Hj HUx). exact Hx. }
      congruence.
  Qed.

  Lemma restore_fold_ok_set lh : forall i path cur,
    layers_ok lh -> i <= length lh -> In cur (LS i) ->
    exists p s a, fold_left (restore_step G Ginv) (rev (firstn i lh)) (Ok (path, cur)) = Ok (p ++ path, s) /\
                  length p = i /\ In a S0 /\ run state (acts G) a p = Some cur.
  Proof.
    induction i as [|j IH]; intros path cur Hb Hi Hcur.
    - exists [], cur, cur. simpl. repeat split; auto.
      rewrite layer_0, nodup_In in Hcur. exact Hcur.
    - rewrite (firstn_S_snoc [] lh j) by lia.
      rewrite rev_app_distr. cbn [rev app fold_left].
      destruct (restore_step_ok_set lh j path cur Hb ltac:(lia) Hcur) as (i' & g & x & Hstep & Hg & Hx & Hgx).
      rewrite Hstep.
      destruct (IH (i' :: path) x Hb ltac:(lia) Hx) as (p & s & a & Hfold & Hlen & Ha & Hrun).
      exists (p ++ [i']), s, a. rewrite <- app_assoc. cbn [app].
      split; [exact Hfold|]. split; [|split; [exact Ha|]].
      + rewrite app_length. simpl. lia.
      + rewrite (run_app state (acts G)). rewrite Hrun. simpl. rewrite Hg, Hgx. reflexivity.
  Qed.

  (* from a state of layer i of the start SET, restore_path over H_0..H_{i-1} yields a real path of
     length i from some start state; the internal assertion cannot fire *)
  Theorem restore_path_correct_set lh i q :
    layers_ok lh -> i <= length lh -> In q (LS i) ->
    exists p a, restore_path G Ginv (firstn i lh) q = Ok p /\ length p = i /\
                In a S0 /\ run state (acts G) a p = Some q.
  Proof.
    intros Hb Hi Hq.
    destruct (restore_fold_ok_set lh i [] q Hb Hi Hq) as (p & s & a & Hfold & Hlen & Ha & Hrun).
    exists p, a. unfold restore_path. rewrite Hfold. cbn [bind]. rewrite app_nil_r. auto.
  Qed.
End RestoreSet.


(* ------------------------------------------------------------------ *)
(** * The two-sided search *)

Section BetweenCorrect.
  Variable G Ginv : impl.
  Variable U : state -> Prop.
  Hypothesis U_closed : closed state (acts G) U.
  Hypothesis U_closed_inv : closed state (acts Ginv) U.
  Hypothesis NoColl : forall a b, U a -> U b -> hashf G a = hashf G b -> a = b.
  Hypothesis same_hash : forall x, hashf Ginv x = hashf G x.
  Hypothesis same_len : length (acts Ginv) = length (acts G).
  Hypothesis inv_undo : forall i g gi x, nth_error (acts G) i = Some g -> nth_error (acts Ginv) i = Some gi -> U x ->
                         g (gi x) = x /\ gi (g x) = x.
  Hypothesis IdOK : is_identity G = true -> forall a, U a -> unword G (hashf G a) = a.
  Hypothesis IdOK_inv : is_identity Ginv = true -> forall a, U a -> unword Ginv (hashf Ginv a) = a.
  Hypothesis Sym : inv_closed G = true -> symmetric_on state (acts G) U.
  Hypothesis Sym_inv : inv_closed Ginv = true -> symmetric_on state (acts Ginv) U.
  Variable A B : list state.
  Hypothesis A_U : forall s, In s A -> U s.
  Hypothesis B_U : forall s, In s B -> U s.

  Notation F i := (layer state st_eq_dec (acts G) A i).        (* forward layers from A in G *)
  Notation R j := (layer state st_eq_dec (acts Ginv) B j).     (* backward layers from B in Ginv *)
  Notation b1 t := (ibfs_after G A t).
  Notation b2 t := (ibfs_after Ginv B t).

  (* a walk of n edges from the start set to the destination set *)
  Definition conn (n : nat) : Prop :=
    exists a b p, In a A /\ In b B /\ length p = n /\ run state (acts G) a p = Some b.

  Definition dstar (d : nat) : Prop :=
    (exists a b p, In a A /\ In b B /\ length p = d /\ run state (acts G) a p = Some b) /\
    forall a b p, In a A -> In b B -> run state (acts G) a p = Some b -> (d <= length p)%nat.

  Definition meet (i j : nat) : Prop := exists x, In x (F i) /\ In x (R j).

  (* round r (counted from 0) tests (r+1, r) and then (r+1, r+1) *)
  Definition hit (r : nat) : Prop := meet (S r) r \/ meet (S r) (S r).

  (* ---------------------------------------------------------------- *)
  (** ** Instances of the generic facts *)

  Lemma NoColl_inv a b : U a -> U b -> hashf Ginv a = hashf Ginv b -> a = b.
  Proof. intros Ha Hb H. apply NoColl; auto. rewrite <- !same_hash. exact H. Qed.

  Lemma undo_fwd i g gi x :
    nth_error (acts G) i = Some g -> nth_error (acts Ginv) i = Some gi -> U x -> gi (g x) = x.
  Proof. intros Hg Hgi Hx. apply (inv_undo i g gi x Hg Hgi Hx). Qed.

  Lemma undo_bwd i gi g x :
    nth_error (acts Ginv) i = Some gi -> nth_error (acts G) i = Some g -> U x -> g (gi x) = x.
  Proof. intros Hgi Hg Hx. apply (inv_undo i g gi x Hg Hgi Hx). Qed.

  Lemma inv_undo_sw i gi g x :
    nth_error (acts Ginv) i = Some gi -> nth_error (acts G) i = Some g -> U x ->
    gi (g x) = x /\ g (gi x) = x.
  Proof. intros Hgi Hg Hx. destruct (inv_undo i g gi x Hg Hgi Hx). auto. Qed.

  (* G-walk x -> y  ==>  Ginv-walk y -> x *)
  Lemma rev_G p x y : U x -> run state (acts G) x p = Some y -> run state (acts Ginv) y (rev p) = Some x.
  Proof. apply (run_rev (acts G) (acts Ginv) U U_closed same_len undo_fwd). Qed.

  (* Ginv-walk y -> x  ==>  G-walk x -> y *)
  Lemma rev_Ginv p y x : U y -> run state (acts Ginv) y p = Some x -> run state (acts G) x (rev p) = Some y.
  Proof. apply (run_rev (acts Ginv) (acts G) U U_closed_inv (eq_sym same_len) undo_bwd). Qed.

  Lemma F_U i t : In t (F i) -> U t.
  Proof. apply layer_in_closed; auto. Qed.

  Lemma R_U j t : In t (R j) -> U t.
  Proof. apply layer_in_closed; auto. Qed.

  Lemma F_reach i x : In x (F i) <-> dist_is state (acts G) A x i.
  Proof. apply ref_layers_dist. Qed.

  Lemma R_reach j x : In x (R j) <-> dist_is state (acts Ginv) B x j.
  Proof. apply ref_layers_dist. Qed.

  (* ---------------------------------------------------------------- *)
  (** ** The mathematical core *)

  Lemma meet_conn i j : meet i j -> conn (i + j).
  Proof.
    intros (x & HF & HR).
    apply F_reach in HF. destruct HF as [HF _].
    apply R_reach in HR. destruct HR as [HR _].
    apply reach_walk in HF. destruct HF as (a & p1 & Ha & Hl1 & Hw1).
    apply reach_walk in HR. destruct HR as (b & p2 & Hb & Hl2 & Hw2).
    unfold walk in *.
    apply rev_Ginv in Hw2; [|apply B_U; exact Hb].
    exists a, b, (p1 ++ rev p2). split; [exact Ha|]. split; [exact Hb|]. split.
    - rewrite app_length, rev_length. lia.
    - rewrite (run_app state (acts G)), Hw1. exact Hw2.
  Qed.

  Lemma dstar_meet d i j : dstar d -> i + j = d -> meet i j.
  Proof.
    intros [(a & b & p & Ha & Hb & Hlen & Hrun) Hmin] Hij.
    rewrite <- (firstn_skipn i p) in Hrun.
    set (p1 := firstn i p) in *. set (p2 := skipn i p) in *.
    assert (Hl1 : length p1 = i) by (unfold p1; rewrite firstn_length; lia).
    assert (Hl2 : length p2 = j) by (unfold p2; rewrite skipn_length; lia).
    rewrite (run_app state (acts G)) in Hrun.
    destruct (run state (acts G) a p1) as [x|] eqn:Hr1; [|discriminate].
    assert (HUa : U a) by (apply A_U; exact Ha).
    assert (HUx : U x) by (eapply (run_in_U (acts G) U U_closed); eauto).
    exists x. split.
    - apply F_reach. split.
      + rewrite <- Hl1. apply (run_reach state (acts G) A p1 0 a x); [|exact Hr1].
        constructor. exact Ha.
      + intros k Hk Hr. apply reach_walk in Hr. destruct Hr as (a' & p' & Ha' & Hl' & Hw').
        unfold walk in Hw'.
        assert (Hrun' : run state (acts G) a' (p' ++ p2) = Some b).
        { rewrite (run_app state (acts G)), Hw'. exact Hrun. }
        specialize (Hmin a' b (p' ++ p2) Ha' Hb Hrun'). rewrite app_length in Hmin. lia.
    - apply R_reach. pose proof (rev_G p2 x b HUx Hrun) as Hback. split.
      + rewrite <- Hl2, <- (rev_length p2).
        apply (run_reach state (acts Ginv) B (rev p2) 0 b x); [|exact Hback].
        constructor. exact Hb.
      + intros k Hk Hr. apply reach_walk in Hr. destruct Hr as (b' & p' & Hb' & Hl' & Hw').
        unfold walk in Hw'. apply rev_Ginv in Hw'; [|apply B_U; exact Hb'].
        assert (Hrun' : run state (acts G) a (p1 ++ rev p') = Some b').
        { rewrite (run_app state (acts G)), Hr1. exact Hw'. }
        specialize (Hmin a b' (p1 ++ rev p') Ha Hb' Hrun').
        rewrite app_length, rev_length in Hmin. lia.
  Qed.

  Lemma conn_reach k : conn k <-> exists b, In b B /\ reach state (acts G) A k b.
  Proof.
    split.
    - intros (a & b & p & Ha & Hb & Hlen & Hrun). exists b. split; [exact Hb|].
      rewrite <- Hlen. apply (run_reach state (acts G) A p 0 a b); [|exact Hrun].
      constructor. exact Ha.
    - intros (b & Hb & Hr). apply reach_walk in Hr. destruct Hr as (a & p & Ha & Hlen & Hw).
      exists a, b, p. auto.
  Qed.

  Lemma conn_dec k : conn k \/ ~ conn k.
  Proof.
    destruct (list_ex_dec (fun b => reach state (acts G) A k b) B) as [H | H].
    - intros b. apply (reach_dec state st_eq_dec).
    - left. apply conn_reach. exact H.
    - right. intros Hc. apply H. apply conn_reach. exact Hc.
  Qed.

  Lemma conn_dstar n : conn n -> exists d, d <= n /\ dstar d.
  Proof.
    intros Hc. destruct (least_aux conn conn_dec (S n)) as [Hno | (d & Hd & Hcd & Hmin)].
    - exfalso. apply (Hno n); auto.
    - exists d. split; [lia|]. split; [exact Hcd|].
      intros a b p Ha Hb Hrun. destruct (le_lt_dec d (length p)) as [Hle | Hgt]; [exact Hle|].
      exfalso. apply (Hmin (length p) Hgt). exists a, b, p. auto.
  Qed.

  Lemma meet_dec i j : meet i j \/ ~ meet i j.
  Proof.
    apply (list_ex_dec (fun x => In x (R j)) (F i)).
    intros x. destruct (in_dec st_eq_dec x (R j)); auto.
  Qed.

  Lemma hit_dec r : hit r \/ ~ hit r.
  Proof.
    unfold hit. destruct (meet_dec (S r) r); [auto|]. destruct (meet_dec (S r) (S r)); [auto|].
    right. tauto.
  Qed.

  (* no success up to (and excluding) round T: the target distance exceeds 2T *)
  Lemma nohit_lower T d :
    ~ meet 0 0 -> (forall r, r < T -> ~ hit r) -> dstar d -> 2 * T < d.
  Proof.
    intros H0 Hno Hd. destruct (nat_cases d) as [-> | (r & [-> | ->])].
    - exfalso. apply H0. apply (dstar_meet 0 0 0 Hd). reflexivity.
    - destruct (le_lt_dec T r) as [Hle | Hlt]; [lia|].
      exfalso. apply (Hno r Hlt). left. apply (dstar_meet _ (S r) r Hd). lia.
    - destruct (le_lt_dec T r) as [Hle | Hlt]; [lia|].
      exfalso. apply (Hno r Hlt). right. apply (dstar_meet _ (S r) (S r) Hd). lia.
  Qed.

  (* ---------------------------------------------------------------- *)
  (** ** What the two searches hold *)

  Lemma b1_layers t :
    length (ihashes (b1 t)) = S t /\ layers_ok G A (ihashes (b1 t)).
  Proof.
    destruct (ibfs_layers G U U_closed NoColl IdOK Sym A A_U t) as (Hlen & _ & _ & Hhl & _).
    split; [exact Hlen|]. intros i Hi. apply Hhl. lia.
  Qed.

  Lemma b2_layers t :
    length (ihashes (b2 t)) = S t /\ layers_ok Ginv B (ihashes (b2 t)).
  Proof.
    destruct (ibfs_layers Ginv U U_closed_inv NoColl_inv IdOK_inv Sym_inv B B_U t) as (Hlen & _ & _ & Hhl & _).
    split; [exact Hlen|]. intros i Hi. apply Hhl. lia.
  Qed.

  (* intersecting the last layer of bfs1 with the j-th hash layer of bfs2 *)
  Lemma find_meet t t' j :
    j <= t' ->
    let hs := nth j (ihashes (b2 t')) [] in
    (forall m, find_on_last_layer (b1 t) hs = Some m -> In m (F t) /\ In m (R j)) /\
    (find_on_last_layer (b1 t) hs = None <-> ~ meet t j).
  Proof.
    intros Hj hs.
    destruct (b2_layers t') as [Hlen Hok]. destruct (Hok j ltac:(lia)) as [Hs Him].
    assert (Him' : forall h, In h hs <-> exists x, In x (R j) /\ hashf G x = h).
    { intros h. unfold hs. rewrite Him. split; intros (x & Hx & Hh); exists x; split; auto.
      - rewrite <- same_hash. exact Hh.
      - rewrite same_hash. exact Hh. }
    destruct (find_on_last_layer_spec G U U_closed NoColl IdOK Sym A A_U t (R j) hs
                (fun x Hx => R_U j x Hx) Hs Him') as [Hsome Hnone].
    split; [exact Hsome|]. rewrite Hnone. unfold meet. split.
    - intros H (x & HF & HR). exact (H x HF HR).
    - intros H m HF HR. apply H. exists m. auto.
  Qed.

  (* ---------------------------------------------------------------- *)
  (** ** One round *)

  Definition finish (y1 : ibfs) (mid : state) (rp2 : result (list nat))
    : result (option (state * list nat)) :=
    do path2 <- rp2;
    do path1 <- restore_path G Ginv (drop_last (ihashes y1) 1) mid;
    let start := fold_left (fun s i => nth i (acts Ginv) (fun x => x) s) (rev path1) mid in
    Ok (Some (start, path1 ++ rev path2)).

  Lemma between_iter_eq x1 x2 :
    between_iter G Ginv (x1, x2) =
    let y1 := ibfs_step G x1 in
    let y2 := ibfs_step Ginv x2 in
    match find_on_last_layer y1 (nth_from_end (ihashes y2) 2 []) with
    | Some mid => inr (finish y1 mid (restore_path Ginv G (drop_last (ihashes y2) 2) mid))
    | None =>
        match find_on_last_layer y1 (nth_from_end (ihashes y2) 1 []) with
        | Some mid => inr (finish y1 mid (restore_path Ginv G (drop_last (ihashes y2) 1) mid))
        | None => inl (y1, y2)
        end
    end.
  Proof.
    unfold between_iter. cbv zeta.
    destruct (find_on_last_layer (ibfs_step G x1) (nth_from_end (ihashes (ibfs_step Ginv x2)) 2 [])) as [m|].
    - reflexivity.
    - destruct (find_on_last_layer (ibfs_step G x1) (nth_from_end (ihashes (ibfs_step Ginv x2)) 1 [])) as [m|];
        reflexivity.
  Qed.

  (* on a hit in F_{t+1} /\ R_j both restorations succeed and glue into a real walk *)
  Lemma finish_ok t j mid :
    j <= S t -> In mid (F (S t)) -> In mid (R j) ->
    exists a b p,
      finish (b1 (S t)) mid (restore_path Ginv G (firstn j (ihashes (b2 (S t)))) mid) = Ok (Some (a, p)) /\
      In a A /\ In b B /\ run state (acts G) a p = Some b /\ length p = S t + j.
  Proof.
    intros Hj HF HR.
    destruct (b1_layers (S t)) as [Hlen1 Hok1]. destruct (b2_layers (S t)) as [Hlen2 Hok2].
    destruct (restore_path_correct_set Ginv G U U_closed_inv U_closed NoColl_inv (eq_sym same_len)
                inv_undo_sw B B_U (ihashes (b2 (S t))) j mid Hok2 ltac:(lia) HR)
      as (p2 & b & Hr2 & Hl2 & Hb & Hrun2).
    destruct (restore_path_correct_set G Ginv U U_closed U_closed_inv NoColl same_len
                inv_undo A A_U (ihashes (b1 (S t))) (S t) mid Hok1 ltac:(lia) HF)
      as (p1 & a & Hr1 & Hl1 & Ha & Hrun1).
    unfold finish. rewrite Hr2. cbn [bind].
    unfold drop_last. rewrite Hlen1. replace (S (S t) - 1) with (S t) by lia.
    rewrite Hr1. cbn [bind].
    rewrite (replay_rev (acts G) (acts Ginv) U U_closed same_len undo_fwd p1 a mid (A_U a Ha) Hrun1).
    exists a, b, (p1 ++ rev p2). split; [reflexivity|]. split; [exact Ha|]. split; [exact Hb|]. split.
    - rewrite (run_app state (acts G)), Hrun1. apply rev_Ginv; [apply B_U; exact Hb | exact Hrun2].
    - rewrite app_length, rev_length. lia.
  Qed.

  Lemma iter_nohit t :
    ~ hit t -> between_iter G Ginv (b1 t, b2 t) = inl (b1 (S t), b2 (S t)).
  Proof.
    intros Hno. rewrite between_iter_eq. cbv zeta.
    change (ibfs_step G (b1 t)) with (b1 (S t)). change (ibfs_step Ginv (b2 t)) with (b2 (S t)).
    destruct (b2_layers (S t)) as [Hlen2 _].
    unfold nth_from_end. rewrite Hlen2.
    replace (S (S t) - 2) with t by lia. replace (S (S t) - 1) with (S t) by lia.
    destruct (find_meet (S t) (S t) t ltac:(lia)) as [_ Hn1].
    destruct (find_meet (S t) (S t) (S t) ltac:(lia)) as [_ Hn2].
    cbv zeta in Hn1, Hn2.
    rewrite (proj2 Hn1) by (intro H; apply Hno; left; exact H).
    rewrite (proj2 Hn2) by (intro H; apply Hno; right; exact H).
    reflexivity.
  Qed.

  Lemma iter_hit t :
    hit t ->
    exists a b p,
      between_iter G Ginv (b1 t, b2 t) = inr (Ok (Some (a, p))) /\
      In a A /\ In b B /\ run state (acts G) a p = Some b /\
      ((meet (S t) t /\ length p = 2 * t + 1) \/
       (~ meet (S t) t /\ meet (S t) (S t) /\ length p = 2 * t + 2)).
  Proof.
    intros Hhit. rewrite between_iter_eq. cbv zeta.
    change (ibfs_step G (b1 t)) with (b1 (S t)). change (ibfs_step Ginv (b2 t)) with (b2 (S t)).
    destruct (b2_layers (S t)) as [Hlen2 _].
    unfold nth_from_end, drop_last. rewrite Hlen2.
    replace (S (S t) - 2) with t by lia. replace (S (S t) - 1) with (S t) by lia.
    destruct (find_meet (S t) (S t) t ltac:(lia)) as [Hs1 Hn1].
    destruct (find_meet (S t) (S t) (S t) ltac:(lia)) as [Hs2 Hn2].
    cbv zeta in Hs1, Hn1, Hs2, Hn2.
    destruct (find_on_last_layer (b1 (S t)) (nth t (ihashes (b2 (S t))) [])) as [mid|] eqn:E1.
    - destruct (Hs1 mid eq_refl) as [HF HR].
      destruct (finish_ok t t mid ltac:(lia) HF HR) as (a & b & p & Hfin & Ha & Hb & Hrun & Hlen).
      exists a, b, p. rewrite Hfin. split; [reflexivity|]. split; [exact Ha|]. split; [exact Hb|].
      split; [exact Hrun|]. left. split; [exists mid; auto | lia].
    - assert (Hnm : ~ meet (S t) t) by (apply Hn1; reflexivity).
      destruct (find_on_last_layer (b1 (S t)) (nth (S t) (ihashes (b2 (S t))) [])) as [mid|] eqn:E2.
      + destruct (Hs2 mid eq_refl) as [HF HR].
        destruct (finish_ok t (S t) mid ltac:(lia) HF HR) as (a & b & p & Hfin & Ha & Hb & Hrun & Hlen).
        exists a, b, p. rewrite Hfin. split; [reflexivity|]. split; [exact Ha|]. split; [exact Hb|].
        split; [exact Hrun|]. right. split; [exact Hnm|]. split; [exists mid; auto | lia].
      + exfalso. assert (Hnm2 : ~ meet (S t) (S t)) by (apply Hn2; reflexivity).
        destruct Hhit; contradiction.
  Qed.

  (* ---------------------------------------------------------------- *)
  (** ** The loop *)

  Lemma loop_nohit n : forall t,
    (forall r, t <= r < t + n -> ~ hit r) ->
    loop_nat (between_iter G Ginv) n (b1 t, b2 t) = inl (b1 (t + n), b2 (t + n)).
  Proof.
    induction n as [|n IH]; intros t Hno.
    - simpl. rewrite Nat.add_0_r. reflexivity.
    - cbn [loop_nat]. rewrite iter_nohit by (apply Hno; lia).
      rewrite IH by (intros r Hr; apply Hno; lia).
      replace (S t + n) with (t + S n) by lia. reflexivity.
  Qed.

  Lemma loop_hit n : forall t r,
    t <= r < t + n -> (forall r', t <= r' < r -> ~ hit r') -> hit r ->
    loop_nat (between_iter G Ginv) n (b1 t, b2 t) = between_iter G Ginv (b1 r, b2 r).
  Proof.
    induction n as [|n IH]; intros t r Hr Hno Hhit; [lia|].
    cbn [loop_nat]. destruct (Nat.eq_dec t r) as [-> | Hne].
    - destruct (iter_hit r Hhit) as (a & b & p & Heq & _). rewrite Heq. reflexivity.
    - rewrite iter_nohit by (apply Hno; lia).
      apply IH; [lia | | exact Hhit]. intros r' Hr'. apply Hno. lia.
  Qed.

  (* the meeting-order invariant: the loop either runs through without any meeting, or stops at the
     FIRST round whose test succeeds, with a real walk of the tested length *)
  Theorem loop_result n :
    ((forall r, r < n -> ~ hit r) /\
     loop_nat (between_iter G Ginv) n (b1 0, b2 0) = inl (b1 n, b2 n)) \/
    (exists r a b p,
       r < n /\ (forall r', r' < r -> ~ hit r') /\
       loop_nat (between_iter G Ginv) n (b1 0, b2 0) = inr (Ok (Some (a, p))) /\
       In a A /\ In b B /\ run state (acts G) a p = Some b /\
       ((meet (S r) r /\ length p = 2 * r + 1) \/
        (~ meet (S r) r /\ meet (S r) (S r) /\ length p = 2 * r + 2))).
  Proof.
    destruct (least_aux hit hit_dec n) as [Hno | (r & Hr & Hhit & Hmin)].
    - left. split; [exact Hno|]. apply (loop_nohit n 0). intros r Hr. apply Hno. lia.
    - right. destruct (iter_hit r Hhit) as (a & b & p & Heq & Ha & Hb & Hrun & Hcase).
      exists r, a, b, p. split; [exact Hr|]. split; [exact Hmin|]. split.
      + rewrite (loop_hit n 0 r); [exact Heq | lia | | exact Hhit].
        intros r' Hr'. apply Hmin. lia.
      + auto.
  Qed.

  (* ---------------------------------------------------------------- *)
  (** ** The start test *)

  Lemma init_find :
    (forall m, find_on_last_layer (ibfs_init G A) (last (ihashes (ibfs_init Ginv B)) []) = Some m ->
               In m A /\ In m B) /\
    (find_on_last_layer (ibfs_init G A) (last (ihashes (ibfs_init Ginv B)) []) = None <-> ~ meet 0 0).
  Proof.
    change (ibfs_init G A) with (b1 0). change (ibfs_init Ginv B) with (b2 0).
    destruct (b2_layers 0) as [Hlen2 _]. rewrite last_nth, Hlen2. cbn [Nat.sub].
    destruct (find_meet 0 0 0 (le_n 0)) as [Hs Hn]. cbv zeta in Hs, Hn.
    split; [|exact Hn]. intros m Hm. destruct (Hs m Hm) as [HF HR].
    rewrite layer_0, nodup_In in HF. rewrite layer_0, nodup_In in HR. auto.
  Qed.

  Lemma meet00_dstar m : In m A -> In m B -> dstar 0.
  Proof.
    intros Ha Hb. split.
    - exists m, m, []. repeat split; auto.
    - intros. lia.
  Qed.

  (* ---------------------------------------------------------------- *)
  (** ** The theorems *)

  Theorem between_sound maxd s p :
    find_path_between G Ginv A B maxd = Ok (Some (s, p)) ->
    In s A /\ (exists b, In b B /\ run state (acts G) s p = Some b) /\ dstar (length p) /\
    (length p <= 2 * N.to_nat maxd)%nat.
  Proof.
    unfold find_path_between. destruct init_find as [Hs0 Hn0].
    destruct (find_on_last_layer (ibfs_init G A) (last (ihashes (ibfs_init Ginv B)) [])) as [mid|] eqn:E0.
    - intros H. inversion H; subst s p; clear H. destruct (Hs0 mid eq_refl) as [Ha Hb].
      split; [exact Ha|]. split; [exists mid; split; [exact Hb | reflexivity]|].
      split; [apply (meet00_dstar mid Ha Hb) | simpl; lia].
    - assert (H00 : ~ meet 0 0) by (apply Hn0; reflexivity).
      rewrite loop_N_nat. change (ibfs_init G A) with (b1 0). change (ibfs_init Ginv B) with (b2 0).
      destruct (loop_result (N.to_nat maxd))
        as [[_ Heq] | (r & a & b & q & Hr & Hmin & Heq & Ha & Hb & Hrun & Hcase)];
        rewrite Heq; [discriminate|].
      intros H. inversion H; subst a q; clear H.
      split; [exact Ha|]. split; [exists b; auto|]. split; [|destruct Hcase as [[_ Hl] | (_ & _ & Hl)]; lia].
      split; [exists s, b, p; auto|].
      intros a' b' p' Ha' Hb' Hrun'.
      destruct (le_lt_dec (length p) (length p')) as [Hle | Hgt]; [exact Hle|]. exfalso.
      destruct (conn_dstar (length p')) as (d & Hd & Hds).
      { exists a', b', p'. auto. }
      pose proof (nohit_lower r d H00 Hmin Hds) as Hlow.
      destruct Hcase as [[_ Hl] | (Hnm & _ & Hl)]; [lia|].
      assert (d = 2 * r + 1) by lia. subst d.
      apply Hnm. apply (dstar_meet _ (S r) r Hds). lia.
  Qed.

  Theorem between_complete maxd d :
    dstar d -> (d <= 2 * N.to_nat maxd)%nat ->
    exists s p, find_path_between G Ginv A B maxd = Ok (Some (s, p)).
  Proof.
    intros Hds Hd. unfold find_path_between. destruct init_find as [Hs0 Hn0].
    destruct (find_on_last_layer (ibfs_init G A) (last (ihashes (ibfs_init Ginv B)) [])) as [mid|] eqn:E0.
    - exists mid, []. reflexivity.
    - assert (H00 : ~ meet 0 0) by (apply Hn0; reflexivity).
      rewrite loop_N_nat. change (ibfs_init G A) with (b1 0). change (ibfs_init Ginv B) with (b2 0).
      destruct (loop_result (N.to_nat maxd))
        as [[Hno _] | (r & a & b & q & Hr & Hmin & Heq & _)].
      + exfalso. pose proof (nohit_lower (N.to_nat maxd) d H00 Hno Hds). lia.
      + rewrite Heq. exists a, q. reflexivity.
  Qed.

  Theorem between_none maxd :
    (forall d, dstar d -> (2 * N.to_nat maxd < d)%nat) ->
    find_path_between G Ginv A B maxd = Ok None.
  Proof.
    intros Hfar. unfold find_path_between. destruct init_find as [Hs0 Hn0].
    destruct (find_on_last_layer (ibfs_init G A) (last (ihashes (ibfs_init Ginv B)) [])) as [mid|] eqn:E0.
    - exfalso. destruct (Hs0 mid eq_refl) as [Ha Hb].
      pose proof (Hfar 0 (meet00_dstar mid Ha Hb)). lia.
    - rewrite loop_N_nat. change (ibfs_init G A) with (b1 0). change (ibfs_init Ginv B) with (b2 0).
      destruct (loop_result (N.to_nat maxd))
        as [[_ Heq] | (r & a & b & q & Hr & Hmin & Heq & Ha & Hb & Hrun & Hcase)].
      + rewrite Heq. reflexivity.
      + exfalso. destruct (conn_dstar (length q)) as (d & Hd & Hds).
        { exists a, b, q. auto. }
        pose proof (Hfar d Hds).
        destruct Hcase as [[_ Hl] | (_ & _ & Hl)]; lia.
  Qed.

  (* the value of a successful search in terms of the target distance alone *)
  Corollary between_exact maxd d :
    dstar d ->
    if (d <=? 2 * N.to_nat maxd)%nat
    then exists s p b, find_path_between G Ginv A B maxd = Ok (Some (s, p)) /\
                       In s A /\ In b B /\ run state (acts G) s p = Some b /\ length p = d
    else find_path_between G Ginv A B maxd = Ok None.
  Proof.
    intros Hds. destruct (Nat.leb_spec d (2 * N.to_nat maxd)) as [Hle | Hgt].
    - destruct (between_complete maxd d Hds Hle) as (s & p & Heq).
      destruct (between_sound maxd s p Heq) as (Hs & (b & Hb & Hrun) & Hds' & _).
      exists s, p, b. repeat split; auto.
      destruct Hds as [(a1 & c1 & p1 & Ha1 & Hc1 & Hl1 & Hr1) Hm1].
      destruct Hds' as [(a2 & c2 & p2 & Ha2 & Hc2 & Hl2 & Hr2) Hm2].
      pose proof (Hm1 a2 c2 p2 Ha2 Hc2 Hr2). pose proof (Hm2 a1 c1 p1 Ha1 Hc1 Hr1). lia.
    - apply between_none. intros d' Hds'.
      destruct Hds as [(a1 & c1 & p1 & Ha1 & Hc1 & Hl1 & Hr1) Hm1].
      destruct Hds' as [(a2 & c2 & p2 & Ha2 & Hc2 & Hl2 & Hr2) Hm2].
      pose proof (Hm1 a2 c2 p2 Ha2 Hc2 Hr2). pose proof (Hm2 a1 c1 p1 Ha1 Hc1 Hr1). lia.
  Qed.
End BetweenCorrect.

Print Assumptions restore_path_correct_set.
Print Assumptions loop_result.
Print Assumptions between_sound.
Print Assumptions between_complete.
Print Assumptions between_none.
Print Assumptions between_exact.
