(** Model of BfsAlgorithm.bfs (cayleypy/algo/bfs_algo.py), statement by statement. *)
From Coq Require Import ZArith List Bool Arith Lia.
From V Require Import Base W64 Tensor GraphImpl.
Import ListNotations.
Open Scope Z_scope.

Record bfs_cfg := {
  batch_size : Z;
  max_store : Z;                       (* max_layer_size_to_store or 10**15 *)
  max_explore : Z;
  max_diameter : N;
  ret_edges : bool;
  ret_hashes : bool;
  no_batching : bool;
  stop : option (nat -> list state -> list Z -> bool);   (* stop_condition; first argument: iteration *)
}.

Record bfs_st := {
  it : nat;                            (* the loop variable i *)
  layer1 : list state;
  layer1_h : list Z;
  seen : list (list Z);                (* seen_states_hashes, oldest first *)
  sizes_rev : list nat;
  stored_rev : list (nat * list state);
  all_h_rev : list (list Z);
  e_starts_rev : list (list Z);
  e_ends_rev : list (list Z);
  trace_rev : list nat;                (* iterations at which stop_condition was called *)
}.

Record bfs_out := {
  completed : bool;
  sizes : list nat;
  layers : list (nat * list state);
  layer_hashes : list (list Z);
  edges : option (list (Z * Z));
  callback_trace : list nat;
}.

Section Bfs.
  Variable G : impl.
  Variable cfg : bfs_cfg.

  Definition lenZ {A} (l : list A) : Z := Z.of_nat (length l).

  (* _remove_seen_states: mask of hashes not in any remembered layer (binary search each) *)
  Definition remove_seen (seen_hs : list (list Z)) (hs : list Z) : list bool :=
    map (fun h => negb (existsb (fun layer => isin_ss1 layer h) seen_hs)) hs.

  (* _apply_mask *)
  Definition apply_mask (states : list state) (hs : list Z) (mask : list bool) : list state * list Z :=
    let ns := mask_select states mask in
    (ns, if is_identity G then hashes G ns else mask_select hs mask).

  Definition do_batching : bool := negb (ret_edges cfg) && negb (no_batching cfg).

  Definition batch_step (seen_hs : list (list Z)) (acc : list (list state) * list (list Z)) (b : list state)
    : list (list state) * list (list Z) :=
    let '(bs, hss) := acc in
    let nb := get_neighbors G b in
    let '(u, uh) := get_unique_states G nb (hashes G nb) in
    let mask := remove_seen seen_hs uh in
    let mask := fold_left (fun m other => map (fun '(x, h) => x && negb (isin_ss1 other h)) (combine m uh)) hss mask in
    let '(u', uh') := apply_mask u uh mask in
    (bs ++ [u'], hss ++ [uh']).

  Definition expand_batched (st : bfs_st) : list state * list Z :=
    let num_batches := Z.to_nat ((lenZ (layer1_h st) + batch_size cfg - 1) / batch_size cfg) in
    let '(bs, hss) := fold_left (batch_step (seen st)) (tensor_split num_batches (layer1 st)) ([], []) in
    let l2h := sort_z (concat hss) in
    (if is_identity G then map (unword G) l2h else concat bs, l2h).

  Definition expand_plain (st : bfs_st) : list state * list Z * list Z :=
    let nb := get_neighbors G (layer1 st) in
    let nbh := hashes G nb in
    let '(u, uh) := get_unique_states G nb nbh in
    let mask := remove_seen (seen st) uh in
    (apply_mask u uh mask, nbh).

  Definition last2 {A} (l : list A) : list A := skipn (length l - 2) l.

  (* one iteration of the for loop; inr = break (flag: full_graph_explored) *)
  Definition bfs_iter (st : bfs_st) : bfs_st + (bfs_st * bool) :=
    let batched := do_batching && (batch_size cfg <? lenZ (layer1 st)) in
    let '(l2, l2h, st) :=
      if batched then
        let '(l2, l2h) := expand_batched st in (l2, l2h, st)
      else
        let '(l2, l2h, nbh) := expand_plain st in
        (l2, l2h,
         if ret_edges cfg then
           {| it := it st; layer1 := layer1 st; layer1_h := layer1_h st; seen := seen st;
              sizes_rev := sizes_rev st; stored_rev := stored_rev st; all_h_rev := all_h_rev st;
              e_starts_rev := repeat_list (layer1_h st) (n_gens G) :: e_starts_rev st;
              e_ends_rev := nbh :: e_ends_rev st; trace_rev := trace_rev st |}
         else st) in
    let all_h := if ret_hashes cfg then layer1_h st :: all_h_rev st else all_h_rev st in
    match l2 with
    | [] =>
        inr ({| it := it st; layer1 := layer1 st; layer1_h := layer1_h st; seen := seen st;
                sizes_rev := sizes_rev st; stored_rev := stored_rev st; all_h_rev := all_h;
                e_starts_rev := e_starts_rev st; e_ends_rev := e_ends_rev st; trace_rev := trace_rev st |}, true)
    | _ =>
        let seen' := seen st ++ [l2h] in
        let seen' := if inv_closed G then last2 seen' else seen' in
        let st' := {| it := S (it st); layer1 := l2; layer1_h := l2h; seen := seen';
                      sizes_rev := length l2 :: sizes_rev st;
                      stored_rev := if lenZ l2 <=? max_store cfg then (it st, l2) :: stored_rev st else stored_rev st;
                      all_h_rev := all_h; e_starts_rev := e_starts_rev st; e_ends_rev := e_ends_rev st;
                      trace_rev := trace_rev st |} in
        if max_explore cfg <=? lenZ l2 then inr (st', false)
        else match stop cfg with
             | None => inl st'
             | Some f =>
                 let st'' := {| it := it st'; layer1 := layer1 st'; layer1_h := layer1_h st'; seen := seen st';
                                sizes_rev := sizes_rev st'; stored_rev := stored_rev st'; all_h_rev := all_h_rev st';
                                e_starts_rev := e_starts_rev st'; e_ends_rev := e_ends_rev st';
                                trace_rev := it st :: trace_rev st' |} in
                 if f (it st) l2 l2h then inr (st'', false) else inl st''
             end
    end.

  Definition bfs_init (starts : list state) : bfs_st :=
    let '(l1, l1h) := get_unique_states G starts (hashes G starts) in
    {| it := 1; layer1 := l1; layer1_h := l1h; seen := [l1h]; sizes_rev := [length l1];
       stored_rev := [(O, l1)]; all_h_rev := []; e_starts_rev := []; e_ends_rev := []; trace_rev := [] |}.

  Definition bfs_finish (st : bfs_st) (explored : bool) : result bfs_out :=
    let all_h := if ret_hashes cfg && negb explored then layer1_h st :: all_h_rev st else all_h_rev st in
    let sizes := rev (sizes_rev st) in
    let last_id := (length sizes - 1)%nat in
    let stored := rev (stored_rev st) in
    let stored := if explored && negb (existsb (fun '(k, _) => (k =? last_id)%nat) stored)
                  then stored ++ [(last_id, layer1 st)] else stored in
    do e <- (if ret_edges cfg then
               match e_starts_rev st, e_ends_rev st with
               | v1 :: _, v2 :: _ =>
                   let ss := if explored then e_starts_rev st else v2 :: e_starts_rev st in
                   let es := if explored then e_ends_rev st else v1 :: e_ends_rev st in
                   Ok (Some (combine (concat (rev ss)) (concat (rev es))))
               | _, _ => if explored then Ok (Some []) else Err IndexErr   (* edges_list_starts[-1] on an empty list *)
               end
             else Ok None);
    Ok {| completed := explored; sizes := sizes; layers := stored; layer_hashes := rev all_h;
          edges := e; callback_trace := rev (trace_rev st) |}.

  Definition bfs (starts : list state) : result bfs_out :=
    match loop_N bfs_iter (max_diameter cfg) (bfs_init starts) with
    | inl st => bfs_finish st false
    | inr (st, explored) => bfs_finish st explored
    end.
End Bfs.
