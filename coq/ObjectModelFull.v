(** C14 at full strength (extends ObjectModel.v, which is not modified).

    The machine.  A WORLD is a heap of graph objects and a heap of BfsResult objects, addressed by
    handles (what Python variables hold).  A graph object has
      - an immutable part [imm] = { shared : S; defn : D }:  [shared] is the encoder / hasher component
        (string_encoder, hasher, bit_encoding_width), [defn] the CayleyGraphDef;
      - the cached_property [with_inverted_generators]: a handle of ANOTHER graph object in the heap,
        created on first use by [modified_copy(definition.with_inverted_generators())];
      - the find_path ball with the BFS arguments it was computed for.
    [modified_copy] and [with_inverted_generators] create NEW objects with the SAME [shared] and another
    [defn].  Operations on an object reach into the derived objects: restore_path takes
    [self.with_inverted_generators]; find_path on a graph that is not inverse-closed computes and caches
    the ball ON THE INVERTED COPY and takes the inverted copy OF THE INVERTED COPY.  All of this is in
    the step function: operations READ what the caches hold (the immutable part of the object a cached
    handle points to, the cached ball), they do not recompute it - so a cache that could go stale WOULD
    change answers in this model.
    A BfsResult object has immutable fields [RI] and five functools.cached_property caches
    (num_vertices, hashes_to_indices_dict, edges_list, vertex_names, all_states) with the dependencies
    of bfs_result.py (edges_list reads hashes_to_indices_dict, which reads num_vertices); a cached
    property that raises does not fill its cache.

    MODELLING ASSUMPTION (stated, not proved here): returned values are COPIES.  [step] returns values
    and handles; the objects keep their own fields; nothing a caller does to a returned value can reach
    the fields of an object.  (For tensors returned by reference this is what the differential harness
    of C14 checks by scribbling on every returned tensor.)  That no operation writes a non-cache
    attribute is re-proved on every run from the generated effect table (EffectsProofs.v). *)
From Coq Require Import List Bool Arith Lia.
From V Require Import Base PermProofs.
Import ListNotations.

(* ---------- lists as heaps ---------- *)
Lemma nth_error_upd_same {A} (l : list A) i v : i < length l -> nth_error (upd l i v) i = Some v.
Proof.
  revert i. induction l as [|a t IH]; intros i Hi; [cbn in Hi; lia|].
  destruct i as [|i]; [reflexivity|]. cbn [upd nth_error]. apply IH. cbn in Hi. lia.
Qed.

Lemma nth_error_upd_other {A} (l : list A) i j v : i <> j -> nth_error (upd l i v) j = nth_error l j.
Proof.
  revert i j. induction l as [|a t IH]; intros i j Hij; [destruct i; reflexivity|].
  destruct i as [|i], j as [|j]; try reflexivity; [lia|]. cbn [upd nth_error]. apply IH. lia.
Qed.

Lemma nth_error_Some_lt {A} (l : list A) i x : nth_error l i = Some x -> i < length l.
Proof. intros H. apply nth_error_Some. rewrite H. discriminate. Qed.

Lemma nth_error_snoc_old {A} (l : list A) x i y : nth_error l i = Some y -> nth_error (l ++ [x]) i = Some y.
Proof. intros H. rewrite nth_error_app1; [exact H|]. apply (nth_error_Some_lt l i y H). Qed.

Lemma nth_error_snoc_new {A} (l : list A) x : nth_error (l ++ [x]) (length l) = Some x.
Proof. rewrite nth_error_app2 by lia. rewrite Nat.sub_diag. reflexivity. Qed.

Lemma nth_error_snoc_inv {A} (l : list A) x i y :
  nth_error (l ++ [x]) i = Some y -> nth_error l i = Some y \/ (i = length l /\ y = x).
Proof.
  intros H. destruct (Nat.lt_ge_cases i (length l)) as [Hi|Hi].
  - left. rewrite nth_error_app1 in H by exact Hi. exact H.
  - right. rewrite nth_error_app2 in H by exact Hi.
    destruct (i - length l) as [|m] eqn:E; cbn in H; [inversion H; split; [lia|reflexivity]|].
    destruct m; discriminate H.
Qed.

Section Full.
  (* ================================================================== *)
  (** * B1.a  The BfsResult object *)
  Variables RI NV H2I EL VN AS AD SP NE : Type.
  Variable mk_nv : RI -> result NV.                 (* num_vertices *)
  Variable mk_h2i : RI -> NV -> result H2I.         (* hashes_to_indices_dict: reads self.num_vertices *)
  Variable mk_el : RI -> H2I -> result EL.          (* edges_list: reads self.hashes_to_indices_dict *)
  Variable mk_vn : RI -> result VN.                 (* vertex_names *)
  Variable mk_as : RI -> result AS.                 (* all_states *)
  Variable mk_adj : RI -> NV -> EL -> AD.           (* adjacency_matrix(): num_vertices, then edges_list *)
  Variable mk_sparse : RI -> EL -> NV -> SP.        (* adjacency_matrix_sparse(): edges_list, then num_vertices *)
  Variable mk_named : RI -> VN -> EL -> NE.         (* named_undirected_edges(): vertex_names, then edges_list *)

  Record robj := { r_imm : RI; c_nv : option NV; c_h2i : option H2I; c_el : option EL;
                   c_vn : option VN; c_as : option AS }.
  Definition rfresh (ri : RI) : robj :=
    {| r_imm := ri; c_nv := None; c_h2i := None; c_el := None; c_vn := None; c_as := None |}.

  Definition with_nv (r : robj) (v : NV) : robj :=
    {| r_imm := r_imm r; c_nv := Some v; c_h2i := c_h2i r; c_el := c_el r; c_vn := c_vn r; c_as := c_as r |}.
  Definition with_h2i (r : robj) (v : H2I) : robj :=
    {| r_imm := r_imm r; c_nv := c_nv r; c_h2i := Some v; c_el := c_el r; c_vn := c_vn r; c_as := c_as r |}.
  Definition with_el (r : robj) (v : EL) : robj :=
    {| r_imm := r_imm r; c_nv := c_nv r; c_h2i := c_h2i r; c_el := Some v; c_vn := c_vn r; c_as := c_as r |}.
  Definition with_vn (r : robj) (v : VN) : robj :=
    {| r_imm := r_imm r; c_nv := c_nv r; c_h2i := c_h2i r; c_el := c_el r; c_vn := Some v; c_as := c_as r |}.
  Definition with_as (r : robj) (v : AS) : robj :=
    {| r_imm := r_imm r; c_nv := c_nv r; c_h2i := c_h2i r; c_el := c_el r; c_vn := c_vn r; c_as := Some v |}.

  (* functools.cached_property: return the cached value, or compute, store (only if no exception) and return *)
  Definition get_nv (r : robj) : robj * result NV :=
    match c_nv r with
    | Some v => (r, Ok v)
    | None => match mk_nv (r_imm r) with Ok v => (with_nv r v, Ok v) | Err e => (r, Err e) end
    end.
  Definition get_h2i (r : robj) : robj * result H2I :=
    match c_h2i r with
    | Some v => (r, Ok v)
    | None => let (r1, x) := get_nv r in
              match x with
              | Err e => (r1, Err e)
              | Ok nv => match mk_h2i (r_imm r1) nv with Ok v => (with_h2i r1 v, Ok v) | Err e => (r1, Err e) end
              end
    end.
  Definition get_el (r : robj) : robj * result EL :=
    match c_el r with
    | Some v => (r, Ok v)
    | None => let (r1, x) := get_h2i r in
              match x with
              | Err e => (r1, Err e)
              | Ok h => match mk_el (r_imm r1) h with Ok v => (with_el r1 v, Ok v) | Err e => (r1, Err e) end
              end
    end.
  Definition get_vn (r : robj) : robj * result VN :=
    match c_vn r with
    | Some v => (r, Ok v)
    | None => match mk_vn (r_imm r) with Ok v => (with_vn r v, Ok v) | Err e => (r, Err e) end
    end.
  Definition get_as (r : robj) : robj * result AS :=
    match c_as r with
    | Some v => (r, Ok v)
    | None => match mk_as (r_imm r) with Ok v => (with_as r v, Ok v) | Err e => (r, Err e) end
    end.

  Inductive acc := ANumV | AH2I | AEdges | ANames | AAll | AAdj | ASparse | ANamed.
  Inductive aval := VNumV (v : NV) | VH2I (v : H2I) | VEdges (v : EL) | VNames (v : VN) | VAll (v : AS)
                  | VAdj (v : AD) | VSparse (v : SP) | VNamed (v : NE).

  Definition rmap {X Y} (f : X -> Y) (p : robj * result X) : robj * result Y :=
    (fst p, match snd p with Ok v => Ok (f v) | Err e => Err e end).

  (* two reads in sequence: the second is not attempted when the first raises *)
  Definition two {X Y Z} (g1 : robj -> robj * result X) (g2 : robj -> robj * result Y) (f : RI -> X -> Y -> Z)
             (r : robj) : robj * result Z :=
    let (r1, x) := g1 r in
    match x with
    | Err e => (r1, Err e)
    | Ok a => let (r2, y) := g2 r1 in
              match y with Err e => (r2, Err e) | Ok b => (r2, Ok (f (r_imm r2) a b)) end
    end.

  Definition acc_step (r : robj) (a : acc) : robj * result aval :=
    match a with
    | ANumV => rmap VNumV (get_nv r)
    | AH2I => rmap VH2I (get_h2i r)
    | AEdges => rmap VEdges (get_el r)
    | ANames => rmap VNames (get_vn r)
    | AAll => rmap VAll (get_as r)
    | AAdj => two get_nv get_el (fun ri nv el => VAdj (mk_adj ri nv el)) r
    | ASparse => two get_el get_nv (fun ri el nv => VSparse (mk_sparse ri el nv)) r
    | ANamed => two get_vn get_el (fun ri vn el => VNamed (mk_named ri vn el)) r
    end.

  Definition acc_run (r : robj) (l : list acc) : robj := fold_left (fun r a => fst (acc_step r a)) l r.

  (* the pure functions of the immutable fields that the accessors stand for *)
  Definition spec_nv (ri : RI) : result NV := mk_nv ri.
  Definition spec_h2i (ri : RI) : result H2I := do nv <- spec_nv ri; mk_h2i ri nv.
  Definition spec_el (ri : RI) : result EL := do h <- spec_h2i ri; mk_el ri h.
  Definition spec_vn (ri : RI) : result VN := mk_vn ri.
  Definition spec_as (ri : RI) : result AS := mk_as ri.
  Definition rmap' {X Y} (f : X -> Y) (x : result X) : result Y := match x with Ok v => Ok (f v) | Err e => Err e end.
  Definition spec_acc (ri : RI) (a : acc) : result aval :=
    match a with
    | ANumV => rmap' VNumV (spec_nv ri)
    | AH2I => rmap' VH2I (spec_h2i ri)
    | AEdges => rmap' VEdges (spec_el ri)
    | ANames => rmap' VNames (spec_vn ri)
    | AAll => rmap' VAll (spec_as ri)
    | AAdj => do nv <- spec_nv ri; do el <- spec_el ri; Ok (VAdj (mk_adj ri nv el))
    | ASparse => do el <- spec_el ri; do nv <- spec_nv ri; Ok (VSparse (mk_sparse ri el nv))
    | ANamed => do vn <- spec_vn ri; do el <- spec_el ri; Ok (VNamed (mk_named ri vn el))
    end.

  (* cache coherence: a filled cache holds the value of the pure function *)
  Definition RInv (r : robj) : Prop :=
    (forall v, c_nv r = Some v -> spec_nv (r_imm r) = Ok v) /\
    (forall v, c_h2i r = Some v -> spec_h2i (r_imm r) = Ok v) /\
    (forall v, c_el r = Some v -> spec_el (r_imm r) = Ok v) /\
    (forall v, c_vn r = Some v -> spec_vn (r_imm r) = Ok v) /\
    (forall v, c_as r = Some v -> spec_as (r_imm r) = Ok v).

  Lemma rfresh_inv ri : RInv (rfresh ri).
  Proof. repeat split; intros v H; discriminate H. Qed.

  (* a getter is GOOD for a pure function when, on a coherent object, it returns the value of the function,
     keeps the immutable fields and leaves the object coherent *)
  Definition good {X} (g : robj -> robj * result X) (spec : RI -> result X) : Prop :=
    forall r, RInv r -> RInv (fst (g r)) /\ r_imm (fst (g r)) = r_imm r /\ snd (g r) = spec (r_imm r).

  Lemma get_nv_good : good get_nv spec_nv.
  Proof.
    intros r HI. unfold get_nv. destruct (c_nv r) as [v|] eqn:E.
    - cbn [fst snd]. split; [exact HI|]. split; [reflexivity|]. symmetry. apply HI. exact E.
    - unfold spec_nv. destruct (mk_nv (r_imm r)) as [v|e] eqn:M; cbn [fst snd]; [|auto].
      split; [|auto]. destruct HI as (H1&H2&H3&H4&H5).
      repeat split; cbn [with_nv c_nv c_h2i c_el c_vn c_as r_imm]; auto.
      intros v' Hv'. inversion Hv'; subst. exact M.
  Qed.

  Lemma get_vn_good : good get_vn spec_vn.
  Proof.
    intros r HI. unfold get_vn. destruct (c_vn r) as [v|] eqn:E.
    - cbn [fst snd]. split; [exact HI|]. split; [reflexivity|]. symmetry. apply HI. exact E.
    - unfold spec_vn. destruct (mk_vn (r_imm r)) as [v|e] eqn:M; cbn [fst snd]; [|auto].
      split; [|auto]. destruct HI as (H1&H2&H3&H4&H5).
      repeat split; cbn [with_vn c_nv c_h2i c_el c_vn c_as r_imm]; auto.
      intros v' Hv'. inversion Hv'; subst. exact M.
  Qed.

  Lemma get_as_good : good get_as spec_as.
  Proof.
    intros r HI. unfold get_as. destruct (c_as r) as [v|] eqn:E.
    - cbn [fst snd]. split; [exact HI|]. split; [reflexivity|]. symmetry. apply HI. exact E.
    - unfold spec_as. destruct (mk_as (r_imm r)) as [v|e] eqn:M; cbn [fst snd]; [|auto].
      split; [|auto]. destruct HI as (H1&H2&H3&H4&H5).
      repeat split; cbn [with_as c_nv c_h2i c_el c_vn c_as r_imm]; auto.
      intros v' Hv'. inversion Hv'; subst. exact M.
  Qed.

  Lemma get_h2i_good : good get_h2i spec_h2i.
  Proof.
    intros r HI. unfold get_h2i. destruct (c_h2i r) as [v|] eqn:E.
    - cbn [fst snd]. split; [exact HI|]. split; [reflexivity|]. symmetry. apply HI. exact E.
    - destruct (get_nv_good r HI) as (HI1 & Him1 & Hx). destruct (get_nv r) as [r1 x]. cbn [fst snd] in *.
      unfold spec_h2i. rewrite <- Hx. destruct x as [nv|e]; cbn [bind fst snd]; [|auto].
      rewrite <- Him1. destruct (mk_h2i (r_imm r1) nv) as [v|e] eqn:M; cbn [fst snd]; [|auto].
      split; [|auto]. destruct HI1 as (H1&H2&H3&H4&H5).
      repeat split; cbn [with_h2i c_nv c_h2i c_el c_vn c_as r_imm]; auto.
      intros v' Hv'. inversion Hv'; subst. unfold spec_h2i. rewrite Him1, <- Hx. cbn [bind]. rewrite <- Him1. exact M.
  Qed.

  Lemma get_el_good : good get_el spec_el.
  Proof.
    intros r HI. unfold get_el. destruct (c_el r) as [v|] eqn:E.
    - cbn [fst snd]. split; [exact HI|]. split; [reflexivity|]. symmetry. apply HI. exact E.
    - destruct (get_h2i_good r HI) as (HI1 & Him1 & Hx). destruct (get_h2i r) as [r1 x]. cbn [fst snd] in *.
      unfold spec_el. rewrite <- Hx. destruct x as [h|e]; cbn [bind fst snd]; [|auto].
      rewrite <- Him1. destruct (mk_el (r_imm r1) h) as [v|e] eqn:M; cbn [fst snd]; [|auto].
      split; [|auto]. destruct HI1 as (H1&H2&H3&H4&H5).
      repeat split; cbn [with_el c_nv c_h2i c_el c_vn c_as r_imm]; auto.
      intros v' Hv'. inversion Hv'; subst. unfold spec_el. rewrite Him1, <- Hx. cbn [bind]. rewrite <- Him1. exact M.
  Qed.

  Lemma rmap_good {X} (g : robj -> robj * result X) spec (f : X -> aval) :
    good g spec -> good (fun r => rmap f (g r)) (fun ri => rmap' f (spec ri)).
  Proof.
    intros G r HI. destruct (G r HI) as (H1 & H2 & H3). unfold rmap, rmap'. cbn [fst snd].
    rewrite H3. auto.
  Qed.

  Lemma two_good {X Y} (g1 : robj -> robj * result X) (g2 : robj -> robj * result Y) s1 s2 (f : RI -> X -> Y -> aval) :
    good g1 s1 -> good g2 s2 ->
    good (two g1 g2 f) (fun ri => do a <- s1 ri; do b <- s2 ri; Ok (f ri a b)).
  Proof.
    intros G1 G2 r HI. unfold two. destruct (G1 r HI) as (HI1 & Him1 & Hx).
    destruct (g1 r) as [r1 x]. cbn [fst snd] in *. rewrite <- Hx.
    destruct x as [a|e]; cbn [bind fst snd]; [|auto].
    destruct (G2 r1 HI1) as (HI2 & Him2 & Hy). destruct (g2 r1) as [r2 y]. cbn [fst snd] in *.
    rewrite <- Him1, <- Hy. destruct y as [b|e]; cbn [bind fst snd]; rewrite ?Him2; auto.
  Qed.

  Lemma acc_step_good a : good (fun r => acc_step r a) (fun ri => spec_acc ri a).
  Proof.
    destruct a; cbn [acc_step spec_acc].
    - apply (rmap_good get_nv spec_nv VNumV get_nv_good).
    - apply (rmap_good get_h2i spec_h2i VH2I get_h2i_good).
    - apply (rmap_good get_el spec_el VEdges get_el_good).
    - apply (rmap_good get_vn spec_vn VNames get_vn_good).
    - apply (rmap_good get_as spec_as VAll get_as_good).
    - apply (two_good get_nv get_el spec_nv spec_el _ get_nv_good get_el_good).
    - apply (two_good get_el get_nv spec_el spec_nv _ get_el_good get_nv_good).
    - apply (two_good get_vn get_el spec_vn spec_el _ get_vn_good get_el_good).
  Qed.

  Lemma acc_run_inv l : forall r, RInv r -> RInv (acc_run r l) /\ r_imm (acc_run r l) = r_imm r.
  Proof.
    induction l as [|a l IH]; intros r HI; [split; [exact HI|reflexivity]|].
    cbn [acc_run fold_left]. destruct (acc_step_good a r HI) as (H1 & H2 & _).
    destruct (IH _ H1) as [H3 H4]. split; [exact H3|]. unfold acc_run in H4. rewrite H4. exact H2.
  Qed.

  (** B2 (iii): whatever accessors were called before, in whatever order, each accessor returns the pure
      function of the result's immutable fields - which is what it returns on a fresh result object -
      and the immutable fields never change. *)
  Theorem accessors_any_order ri (before : list acc) (a : acc) :
    snd (acc_step (acc_run (rfresh ri) before) a) = spec_acc ri a /\
    snd (acc_step (acc_run (rfresh ri) before) a) = snd (acc_step (rfresh ri) a) /\
    r_imm (acc_run (rfresh ri) before) = ri /\
    RInv (acc_run (rfresh ri) before).
  Proof.
    destruct (acc_run_inv before (rfresh ri) (rfresh_inv ri)) as [HI Him]. cbn [rfresh r_imm] in Him.
    destruct (acc_step_good a _ HI) as (_ & _ & H). rewrite Him in H.
    destruct (acc_step_good a _ (rfresh_inv ri)) as (_ & _ & H0). cbn [rfresh r_imm] in H0.
    split; [exact H|]. split; [rewrite H, H0; reflexivity|]. split; [exact Him|exact HI].
  Qed.

  (* ================================================================== *)
  (** * B1.b  Graph objects and the world *)
  Variables S D : Type.
  Record imm := { shared : S; defn : D }.

  Variables Key Ball Q A P R BArgs : Type.
  Variable key_eqb : Key -> Key -> bool.
  Hypothesis key_eqb_eq : forall a b, key_eqb a b = true <-> a = b.
  Variable inv_defn : D -> D.                                   (* CayleyGraphDef.with_inverted_generators *)
  Variable inv_closed : imm -> bool.                            (* definition.generators_inverse_closed *)
  Variable mk_ball : imm -> Key -> Ball.                        (* graph.bfs(...) with the BFS arguments of the call *)
  Variable p_depth : imm -> P -> nat.                           (* how far down the chain of inverted copies the operation reaches *)
  Variable pure_op : imm -> list imm -> P -> R.                 (* bfs, path queries, beam search, walks, exports: read-only *)
  Variable fp_depth : imm -> Key -> Q -> nat.
  Variable answer : imm -> imm -> list imm -> Ball -> Q -> A.   (* MITM on the cached ball *)
  Variable mk_res : imm -> BArgs -> RI.                         (* the immutable fields of the BfsResult of graph.bfs(args) *)

  (* the two ways of deriving an object: both keep [shared] *)
  Definition inv_imm (i : imm) : imm := {| shared := shared i; defn := inv_defn (defn i) |}.
  Definition copy_imm (i : imm) (d : D) : imm := {| shared := shared i; defn := d |}.

  Record gobj := { o_imm : imm; o_inv : option nat; o_ball : option (Key * Ball) }.
  Definition gfresh (i : imm) : gobj := {| o_imm := i; o_inv := None; o_ball := None |}.
  Definition set_inv (o : gobj) (h : nat) : gobj := {| o_imm := o_imm o; o_inv := Some h; o_ball := o_ball o |}.
  Definition set_ball (o : gobj) (k : Key) (b : Ball) : gobj := {| o_imm := o_imm o; o_inv := o_inv o; o_ball := Some (k, b) |}.

  Record world := { objs : list gobj; ress : list robj }.
  Definition init (i : imm) : world := {| objs := [gfresh i]; ress := [] |}.

  Definition imm_at (W : world) (h : nat) : option imm := option_map o_imm (nth_error (objs W) h).
  Definition rimm_at (W : world) (r : nat) : option RI := option_map r_imm (nth_error (ress W) r).

  Definition set_obj (W : world) (h : nat) (o : gobj) : world := {| objs := upd (objs W) h o; ress := ress W |}.
  Definition alloc (W : world) (o : gobj) : world := {| objs := objs W ++ [o]; ress := ress W |}.
  Definition set_res (W : world) (r : nat) (ro : robj) : world := {| objs := objs W; ress := upd (ress W) r ro |}.
  Definition alloc_res (W : world) (ro : robj) : world := {| objs := objs W; ress := ress W ++ [ro] |}.

  (* the cached property with_inverted_generators of object h: the handle of the inverted copy,
     which is created by modified_copy and remembered on first use *)
  Definition take_inv (W : world) (h : nat) : world * nat :=
    match nth_error (objs W) h with
    | None => (W, h)
    | Some o =>
        match o_inv o with
        | Some h' => (W, h')
        | None => let h' := length (objs W) in
                  (set_obj (alloc W (gfresh (inv_imm (o_imm o)))) h (set_inv o h'), h')
        end
    end.

  (* graph.with_inverted_generators.with_inverted_generators. ... : the immutable parts READ from the heap *)
  Fixpoint chain (n : nat) (W : world) (h : nat) : world * list imm :=
    match n with
    | O => (W, [])
    | Datatypes.S n' =>
        let (W1, h') := take_inv W h in
        match imm_at W1 h' with
        | None => (W1, [])
        | Some i' => let (W2, l) := chain n' W1 h' in (W2, i' :: l)
        end
    end.

  (* _precompute_bfs(graph, **kwargs) on object h *)
  Definition take_ball (W : world) (h : nat) (k : Key) : world * option Ball :=
    match nth_error (objs W) h with
    | None => (W, None)
    | Some o =>
        let recompute := let b := mk_ball (o_imm o) k in (set_obj W h (set_ball o k b), Some b) in
        match o_ball o with
        | Some (k', b) => if key_eqb k k' then (W, Some b) else recompute
        | None => recompute
        end
    end.

  Inductive gop :=
  | GPure (p : P)                 (* any read-only operation *)
  | GInverted                     (* graph.with_inverted_generators *)
  | GModified (d : D)             (* graph.modified_copy(new_def) *)
  | GFindPath (k : Key) (q : Q)   (* find_path(graph, start_state, **kwargs) *)
  | GBfs (a : BArgs).             (* graph.bfs(...) returning a BfsResult object *)
  Inductive op :=
  | OnObj (h : nat) (g : gop)     (* an operation on the graph object behind handle h *)
  | OnRes (r : nat) (a : acc).    (* an accessor of the BfsResult object behind handle r *)
  Inductive out :=
  | RPure (r : R) | RObj (h : nat) | RAns (a : A) | RRes (r : nat) | RAcc (v : result aval) | RInvalid.

  Definition step (W : world) (x : op) : world * out :=
    match x with
    | OnObj h g =>
        match imm_at W h with
        | None => (W, RInvalid)
        | Some i =>
            match g with
            | GPure p => let (W', ch) := chain (p_depth i p) W h in (W', RPure (pure_op i ch p))
            | GInverted => let (W', h') := take_inv W h in (W', RObj h')
            | GModified d => (alloc W (gfresh (copy_imm i d)), RObj (length (objs W)))
            | GFindPath k q =>
                (* inverse-closed: ball of the graph itself; otherwise everything happens in the inverted copy *)
                let (W1, hb) := if inv_closed i then (W, h) else take_inv W h in
                match imm_at W1 hb with
                | None => (W1, RInvalid)
                | Some j =>
                    let (W2, ob) := take_ball W1 hb k in
                    match ob with
                    | None => (W2, RInvalid)
                    | Some b => let (W3, ch) := chain (fp_depth i k q) W2 hb in (W3, RAns (answer i j ch b q))
                    end
                end
            | GBfs a => (alloc_res W (rfresh (mk_res i a)), RRes (length (ress W)))
            end
        end
    | OnRes r a =>
        match nth_error (ress W) r with
        | None => (W, RInvalid)
        | Some ro => let (ro', v) := acc_step ro a in (set_res W r ro', RAcc v)
        end
    end.

  Definition run (W : world) (ops : list op) : world := fold_left (fun W x => fst (step W x)) ops W.

  (* what a caller can observe of an answer: handles are opaque, what matters is the object behind them *)
  Inductive vout :=
  | VwPure (r : R) | VwObj (i : imm) | VwAns (a : A) | VwRes (ri : RI) | VwAcc (v : result aval) | VwInvalid.
  Definition view (Wo : world * out) : vout :=
    let (W, o) := Wo in
    match o with
    | RPure r => VwPure r
    | RObj h => match imm_at W h with Some i => VwObj i | None => VwInvalid end
    | RAns a => VwAns a
    | RRes r => match rimm_at W r with Some ri => VwRes ri | None => VwInvalid end
    | RAcc v => VwAcc v
    | RInvalid => VwInvalid
    end.

  (* the specification: pure functions of the immutable part of the object operated on *)
  Fixpoint spec_chain (n : nat) (i : imm) : list imm :=
    match n with O => [] | Datatypes.S n' => inv_imm i :: spec_chain n' (inv_imm i) end.
  Definition spec_gop (i : imm) (g : gop) : vout :=
    match g with
    | GPure p => VwPure (pure_op i (spec_chain (p_depth i p) i) p)
    | GInverted => VwObj (inv_imm i)
    | GModified d => VwObj (copy_imm i d)
    | GFindPath k q =>
        let j := if inv_closed i then i else inv_imm i in
        VwAns (answer i j (spec_chain (fp_depth i k q) j) (mk_ball j k) q)
    | GBfs a => VwRes (mk_res i a)
    end.

  (* ================================================================== *)
  (** * B2. Invariant and frame *)

  (* W' extends W: every handle of W is a handle of W' and denotes an object with the same immutable part *)
  Definition ext (W W' : world) : Prop :=
    (forall h i, imm_at W h = Some i -> imm_at W' h = Some i) /\
    (forall r ri, rimm_at W r = Some ri -> rimm_at W' r = Some ri).

  Lemma ext_refl W : ext W W.
  Proof. split; auto. Qed.
  Lemma ext_trans W1 W2 W3 : ext W1 W2 -> ext W2 W3 -> ext W1 W3.
  Proof. intros [A1 B1] [A2 B2]. split; auto. Qed.

  (* s: the shared component of the origin *)
  Definition obj_ok (s : S) (W : world) (o : gobj) : Prop :=
    shared (o_imm o) = s /\
    (forall h', o_inv o = Some h' -> imm_at W h' = Some (inv_imm (o_imm o))) /\
    (forall k b, o_ball o = Some (k, b) -> b = mk_ball (o_imm o) k).
  Definition WInv (s : S) (W : world) : Prop :=
    (forall h o, nth_error (objs W) h = Some o -> obj_ok s W o) /\
    (forall r ro, nth_error (ress W) r = Some ro -> RInv ro).

  Lemma obj_ok_ext s W W' o : ext W W' -> obj_ok s W o -> obj_ok s W' o.
  Proof. intros [E _] (H1 & H2 & H3). split; [exact H1|]. split; [|exact H3]. intros h' Hh. apply E. apply H2. exact Hh. Qed.

  Lemma imm_at_Some W h i : imm_at W h = Some i <-> exists o, nth_error (objs W) h = Some o /\ o_imm o = i.
  Proof.
    unfold imm_at. destruct (nth_error (objs W) h) as [o|]; cbn [option_map]; split.
    - intros H. inversion H. exists o. auto.
    - intros [o' [H1 H2]]. inversion H1; subst. reflexivity.
    - discriminate.
    - intros [o' [H1 _]]. discriminate H1.
  Qed.

  Lemma init_inv i : WInv (shared i) (init i).
  Proof.
    split.
    - intros h o H. destruct h as [|h]; cbn in H; [inversion H; subst o|destruct h; discriminate H].
      split; [reflexivity|]. split; [intros h' Hh; discriminate Hh|intros k b Hb; discriminate Hb].
    - intros r ro H. destruct r; discriminate H.
  Qed.

  (* replacing an object by one with the same immutable part that is itself in order *)
  Lemma set_obj_ok s W h o o' :
    WInv s W -> nth_error (objs W) h = Some o -> o_imm o' = o_imm o -> obj_ok s W o' ->
    WInv s (set_obj W h o') /\ ext W (set_obj W h o') /\ nth_error (objs (set_obj W h o')) h = Some o'.
  Proof.
    intros [HO HR] Hh Himm Hok.
    pose proof (nth_error_Some_lt _ _ _ Hh) as Hlt.
    assert (forall j, imm_at (set_obj W h o') j = imm_at W j) as Hsame.
    { intros j. unfold imm_at, set_obj. cbn [objs]. destruct (Nat.eq_dec h j) as [<-|Hne].
      - rewrite nth_error_upd_same by exact Hlt. rewrite Hh. cbn [option_map]. f_equal. exact Himm.
      - rewrite nth_error_upd_other by exact Hne. reflexivity. }
    assert (ext W (set_obj W h o')) as Hext by (split; [intros j i Hj; rewrite Hsame; exact Hj|auto]).
    split; [|split; [exact Hext|cbn [set_obj objs]; apply nth_error_upd_same; exact Hlt]].
    split; [|exact HR]. intros j oj Hj. cbn [set_obj objs] in Hj.
    destruct (Nat.eq_dec h j) as [<-|Hne].
    - rewrite nth_error_upd_same in Hj by exact Hlt. inversion Hj; subst oj. apply (obj_ok_ext s W _ _ Hext Hok).
    - rewrite nth_error_upd_other in Hj by exact Hne. apply (obj_ok_ext s W _ _ Hext). apply (HO j oj Hj).
  Qed.

  (* allocating a fresh object *)
  Lemma alloc_ok s W i :
    WInv s W -> shared i = s ->
    WInv s (alloc W (gfresh i)) /\ ext W (alloc W (gfresh i)) /\
    imm_at (alloc W (gfresh i)) (length (objs W)) = Some i /\
    (forall h o, nth_error (objs W) h = Some o -> nth_error (objs (alloc W (gfresh i))) h = Some o).
  Proof.
    intros [HO HR] Hs.
    assert (ext W (alloc W (gfresh i))) as Hext.
    { split; [|auto]. intros h j Hj. apply imm_at_Some in Hj as [o [H1 H2]]. apply imm_at_Some. exists o.
      split; [|exact H2]. cbn [alloc objs]. apply nth_error_snoc_old. exact H1. }
    split; [|split; [exact Hext|split]].
    - split; [|exact HR]. intros h o Hh. cbn [alloc objs] in Hh.
      apply nth_error_snoc_inv in Hh as [Hh|[_ ->]].
      + apply (obj_ok_ext s W _ _ Hext). apply (HO h o Hh).
      + split; [exact Hs|]. split; [intros h' Hh'; discriminate Hh'|intros k b Hb; discriminate Hb].
    - unfold imm_at. cbn [alloc objs]. rewrite nth_error_snoc_new. reflexivity.
    - intros h o Hh. cbn [alloc objs]. apply nth_error_snoc_old. exact Hh.
  Qed.

  Lemma take_inv_ok s W h i :
    WInv s W -> imm_at W h = Some i ->
    WInv s (fst (take_inv W h)) /\ ext W (fst (take_inv W h)) /\
    imm_at (fst (take_inv W h)) (snd (take_inv W h)) = Some (inv_imm i).
  Proof.
    intros HI Hh. apply imm_at_Some in Hh as [o [Ho Hio]]. unfold take_inv. rewrite Ho.
    destruct (o_inv o) as [h'|] eqn:E; cbn [fst snd].
    - split; [exact HI|]. split; [apply ext_refl|]. rewrite <- Hio. apply (proj1 HI h o Ho). exact E.
    - destruct (proj1 HI h o Ho) as (Hs & _ & Hb).
      assert (shared (inv_imm (o_imm o)) = s) as Hs' by exact Hs.
      destruct (alloc_ok s W (inv_imm (o_imm o)) HI Hs') as (HI1 & Hext1 & Hnew & Hold).
      set (W1 := alloc W (gfresh (inv_imm (o_imm o)))) in *.
      assert (obj_ok s W1 (set_inv o (length (objs W)))) as Hok.
      { split; [exact Hs|]. split.
        - intros h' Hh'. cbn [set_inv o_inv o_imm] in *. inversion Hh'; subst h'. exact Hnew.
        - intros k b Hkb. cbn [set_inv o_ball o_imm] in *. apply Hb. exact Hkb. }
      destruct (set_obj_ok s W1 h o (set_inv o (length (objs W))) HI1 (Hold h o Ho) eq_refl Hok) as (HI2 & Hext2 & _).
      split; [exact HI2|]. split; [apply (ext_trans _ _ _ Hext1 Hext2)|].
      rewrite <- Hio. apply Hext2. exact Hnew.
  Qed.

  Lemma chain_ok s n : forall W h i,
    WInv s W -> imm_at W h = Some i ->
    WInv s (fst (chain n W h)) /\ ext W (fst (chain n W h)) /\ snd (chain n W h) = spec_chain n i.
  Proof.
    induction n as [|n IH]; intros W h i HI Hh.
    - cbn [chain fst snd spec_chain]. split; [exact HI|]. split; [apply ext_refl|reflexivity].
    - cbn [chain spec_chain]. destruct (take_inv_ok s W h i HI Hh) as (HI1 & Hext1 & Hh').
      destruct (take_inv W h) as [W1 h']. cbn [fst snd] in *. rewrite Hh'.
      destruct (IH W1 h' (inv_imm i) HI1 Hh') as (HI2 & Hext2 & Hl).
      destruct (chain n W1 h') as [W2 l]. cbn [fst snd] in *.
      split; [exact HI2|]. split; [apply (ext_trans _ _ _ Hext1 Hext2)|]. rewrite Hl. reflexivity.
  Qed.

  Lemma take_ball_ok s W h i k :
    WInv s W -> imm_at W h = Some i ->
    WInv s (fst (take_ball W h k)) /\ ext W (fst (take_ball W h k)) /\ snd (take_ball W h k) = Some (mk_ball i k).
  Proof.
    intros HI Hh. apply imm_at_Some in Hh as [o [Ho Hio]]. unfold take_ball. rewrite Ho.
    destruct (proj1 HI h o Ho) as (Hs & Hinv & Hb).
    assert (obj_ok s W (set_ball o k (mk_ball (o_imm o) k))) as Hok.
    { split; [exact Hs|]. split; [exact Hinv|]. intros k0 b0 Hkb. cbn [set_ball o_ball o_imm] in *.
      inversion Hkb; subst. reflexivity. }
    destruct (set_obj_ok s W h o (set_ball o k (mk_ball (o_imm o) k)) HI Ho eq_refl Hok) as (HI2 & Hext2 & _).
    assert (WInv s (set_obj W h (set_ball o k (mk_ball (o_imm o) k))) /\
            ext W (set_obj W h (set_ball o k (mk_ball (o_imm o) k))) /\
            Some (mk_ball (o_imm o) k) = Some (mk_ball i k)) as Hre
      by (split; [exact HI2|split; [exact Hext2|rewrite Hio; reflexivity]]).
    destruct (o_ball o) as [[k' b]|] eqn:E; cbn zeta; [|exact Hre].
    destruct (key_eqb k k') eqn:Ek; [|exact Hre].
    apply key_eqb_eq in Ek. subst k'. cbn [fst snd]. split; [exact HI|]. split; [apply ext_refl|].
    rewrite (Hb k b eq_refl), Hio. reflexivity.
  Qed.

  Lemma alloc_res_ok s W ri :
    WInv s W ->
    WInv s (alloc_res W (rfresh ri)) /\ ext W (alloc_res W (rfresh ri)) /\
    rimm_at (alloc_res W (rfresh ri)) (length (ress W)) = Some ri.
  Proof.
    intros [HO HR].
    assert (ext W (alloc_res W (rfresh ri))) as Hext.
    { split; [auto|]. intros r rj Hr. unfold rimm_at in *. cbn [alloc_res ress].
      destruct (nth_error (ress W) r) as [ro|] eqn:E; [|discriminate Hr].
      rewrite (nth_error_snoc_old _ _ _ _ E). exact Hr. }
    split; [|split; [exact Hext|]].
    - split.
      + intros h o Hh. apply (obj_ok_ext s W _ _ Hext). apply (HO h o Hh).
      + intros r ro Hr. cbn [alloc_res ress] in Hr. apply nth_error_snoc_inv in Hr as [Hr|[_ ->]].
        * apply (HR r ro Hr).
        * apply rfresh_inv.
    - unfold rimm_at. cbn [alloc_res ress]. rewrite nth_error_snoc_new. reflexivity.
  Qed.

  Lemma set_res_ok s W r ro ro' :
    WInv s W -> nth_error (ress W) r = Some ro -> RInv ro' -> r_imm ro' = r_imm ro ->
    WInv s (set_res W r ro') /\ ext W (set_res W r ro').
  Proof.
    intros [HO HR] Hr HI' Him.
    pose proof (nth_error_Some_lt _ _ _ Hr) as Hlt.
    assert (ext W (set_res W r ro')) as Hext.
    { split; [auto|]. intros j rj Hj. unfold rimm_at in *. cbn [set_res ress].
      destruct (Nat.eq_dec r j) as [<-|Hne].
      - rewrite nth_error_upd_same by exact Hlt. rewrite Hr in Hj. cbn [option_map] in *. rewrite Him. exact Hj.
      - rewrite nth_error_upd_other by exact Hne. exact Hj. }
    split; [|exact Hext]. split.
    - intros h o Hh. apply (obj_ok_ext s W _ _ Hext). apply (HO h o Hh).
    - intros j rj Hj. cbn [set_res ress] in Hj. destruct (Nat.eq_dec r j) as [<-|Hne].
      + rewrite nth_error_upd_same in Hj by exact Hlt. inversion Hj; subst rj. exact HI'.
      + rewrite nth_error_upd_other in Hj by exact Hne. apply (HR j rj Hj).
  Qed.

  (* ---------- one step ---------- *)
  Lemma step_obj_ok s W h i g :
    WInv s W -> imm_at W h = Some i ->
    WInv s (fst (step W (OnObj h g))) /\ ext W (fst (step W (OnObj h g))) /\
    view (step W (OnObj h g)) = spec_gop i g.
  Proof.
    intros HI Hh. cbn [step]. rewrite Hh. destruct g as [p| |d|k q|a]; cbn [spec_gop].
    - destruct (chain_ok s (p_depth i p) W h i HI Hh) as (H1 & H2 & H3).
      destruct (chain (p_depth i p) W h) as [W' ch]. cbn [fst snd view] in *. rewrite H3. auto.
    - destruct (take_inv_ok s W h i HI Hh) as (H1 & H2 & H3).
      destruct (take_inv W h) as [W' h']. cbn [fst snd view] in *. rewrite H3. auto.
    - assert (shared (copy_imm i d) = s) as Hs.
      { apply imm_at_Some in Hh as [o [Ho Hio]]. rewrite <- Hio. apply (proj1 HI h o Ho). }
      destruct (alloc_ok s W (copy_imm i d) HI Hs) as (H1 & H2 & H3 & _).
      cbn [fst snd view]. rewrite H3. auto.
    - (* find_path *)
      assert (exists W1 hb j, (if inv_closed i then (W, h) else take_inv W h) = (W1, hb) /\
                WInv s W1 /\ ext W W1 /\ imm_at W1 hb = Some j /\ j = (if inv_closed i then i else inv_imm i))
        as (W1 & hb & j & E1 & HI1 & Hext1 & Hhb & Hj).
      { destruct (inv_closed i).
        - exists W, h, i. split; [reflexivity|]. split; [exact HI|]. split; [apply ext_refl|]. split; [exact Hh|reflexivity].
        - destruct (take_inv_ok s W h i HI Hh) as (H1 & H2 & H3).
          destruct (take_inv W h) as [W1 hb]. cbn [fst snd] in *. exists W1, hb, (inv_imm i).
          split; [reflexivity|]. split; [exact H1|]. split; [exact H2|]. split; [exact H3|reflexivity]. }
      rewrite E1, Hhb.
      destruct (take_ball_ok s W1 hb j k HI1 Hhb) as (HI2 & Hext2 & Hb).
      destruct (take_ball W1 hb k) as [W2 ob]. cbn [fst snd] in *. rewrite Hb.
      assert (imm_at W2 hb = Some j) as Hhb2 by (apply Hext2; exact Hhb).
      destruct (chain_ok s (fp_depth i k q) W2 hb j HI2 Hhb2) as (HI3 & Hext3 & Hch).
      destruct (chain (fp_depth i k q) W2 hb) as [W3 ch]. cbn [fst snd view] in *.
      split; [exact HI3|]. split; [apply (ext_trans _ _ _ Hext1 (ext_trans _ _ _ Hext2 Hext3))|].
      rewrite Hch, Hj. reflexivity.
    - destruct (alloc_res_ok s W (mk_res i a) HI) as (H1 & H2 & H3).
      cbn [fst snd view]. rewrite H3. auto.
  Qed.

  Lemma step_res_ok s W r ri a :
    WInv s W -> rimm_at W r = Some ri ->
    WInv s (fst (step W (OnRes r a))) /\ ext W (fst (step W (OnRes r a))) /\
    view (step W (OnRes r a)) = VwAcc (spec_acc ri a).
  Proof.
    intros HI Hr. cbn [step]. unfold rimm_at in Hr.
    destruct (nth_error (ress W) r) as [ro|] eqn:E; [|discriminate Hr]. cbn [option_map] in Hr. inversion Hr; subst ri.
    destruct (acc_step_good a ro (proj2 HI r ro E)) as (G1 & G2 & G3).
    destruct (acc_step ro a) as [ro' v]. cbn [fst snd view] in *.
    destruct (set_res_ok s W r ro ro' HI E G1 G2) as [H1 H2].
    split; [exact H1|]. split; [exact H2|]. rewrite G3. reflexivity.
  Qed.

  Lemma step_inv s W x : WInv s W -> WInv s (fst (step W x)) /\ ext W (fst (step W x)).
  Proof.
    intros HI. destruct x as [h g|r a].
    - destruct (imm_at W h) as [i|] eqn:E.
      + destruct (step_obj_ok s W h i g HI E) as (H1 & H2 & _). auto.
      + cbn [step]. rewrite E. cbn [fst]. split; [exact HI|apply ext_refl].
    - destruct (rimm_at W r) as [ri|] eqn:E.
      + destruct (step_res_ok s W r ri a HI E) as (H1 & H2 & _). auto.
      + cbn [step]. unfold rimm_at in E. destruct (nth_error (ress W) r); [discriminate E|].
        cbn [fst]. split; [exact HI|apply ext_refl].
  Qed.

  Lemma run_inv s ops : forall W, WInv s W -> WInv s (run W ops) /\ ext W (run W ops).
  Proof.
    induction ops as [|x ops IH]; intros W HI; [split; [exact HI|apply ext_refl]|].
    cbn [run fold_left]. destruct (step_inv s W x HI) as [H1 H2].
    destruct (IH _ H1) as [H3 H4]. split; [exact H3|]. apply (ext_trans _ _ _ H2 H4).
  Qed.

  Lemma run_app W ops1 ops2 : run W (ops1 ++ ops2) = run (run W ops1) ops2.
  Proof. unfold run. apply fold_left_app. Qed.

  (* ================================================================== *)
  (** * B2. The theorems *)

  (** (i) History independence.  After ANY sequence of operations on the world grown from one object,
      an operation on ANY graph object of the world (the origin or any derived copy, whatever caches were
      filled, in whatever order) is answered exactly as a fresh object with the same immutable part
      answers it, and that answer is the pure function [spec_gop] of the immutable part. *)
  Theorem history_independent_full i ops h j g :
    imm_at (run (init i) ops) h = Some j ->
    view (step (run (init i) ops) (OnObj h g)) = view (step (init j) (OnObj 0 g)) /\
    view (step (run (init i) ops) (OnObj h g)) = spec_gop j g.
  Proof.
    intros Hh. destruct (run_inv (shared i) ops (init i) (init_inv i)) as [HI _].
    destruct (step_obj_ok (shared i) _ h j g HI Hh) as (_ & _ & H1).
    destruct (step_obj_ok (shared j) (init j) 0 j g (init_inv j) eq_refl) as (_ & _ & H2).
    split; [rewrite H1, H2; reflexivity|exact H1].
  Qed.

  (** ... and no operation changes the immutable part of ANY object - the origin, every derived copy,
      every result object: what a handle denotes after [ops1] it denotes after any further [ops2]. *)
  Theorem immutable_parts_never_change i ops1 ops2 :
    (forall h j, imm_at (run (init i) ops1) h = Some j -> imm_at (run (init i) (ops1 ++ ops2)) h = Some j) /\
    (forall r ri, rimm_at (run (init i) ops1) r = Some ri -> rimm_at (run (init i) (ops1 ++ ops2)) r = Some ri) /\
    imm_at (run (init i) (ops1 ++ ops2)) 0 = Some i.
  Proof.
    destruct (run_inv (shared i) ops1 (init i) (init_inv i)) as [HI1 E1].
    destruct (run_inv (shared i) ops2 _ HI1) as [_ E2]. rewrite run_app.
    split; [apply E2|]. split; [apply E2|]. apply E2, E1. reflexivity.
  Qed.

  (** (ii) Copies share: every graph object reachable by any sequence of operations - inverted copies,
      modified copies, copies of copies - has the [shared] component of the origin. *)
  Theorem copies_share i ops h j :
    imm_at (run (init i) ops) h = Some j -> shared j = shared i.
  Proof.
    intros Hh. destruct (run_inv (shared i) ops (init i) (init_inv i)) as [HI _].
    apply imm_at_Some in Hh as [o [Ho Hio]]. rewrite <- Hio. apply (proj1 HI h o Ho).
  Qed.

  (* hence anything that is a function of [shared] - the hash function, the encoder - agrees on the origin
     and on every copy *)
  Corollary copies_hash_alike {X} (hash_of : S -> X) i ops h j :
    imm_at (run (init i) ops) h = Some j -> hash_of (shared j) = hash_of (shared i).
  Proof. intros Hh. rewrite (copies_share i ops h j Hh). reflexivity. Qed.

  (* the handle an operation returns denotes an object that shares, too *)
  Corollary returned_copies_share i ops h g j :
    view (step (run (init i) ops) (OnObj h g)) = VwObj j -> shared j = shared i.
  Proof.
    intros Hv. destruct (imm_at (run (init i) ops) h) as [i0|] eqn:E.
    - destruct (history_independent_full i ops h i0 g E) as [_ H]. rewrite H in Hv.
      pose proof (copies_share i ops h i0 E) as Hs.
      destruct g; cbn [spec_gop] in Hv; inversion Hv; subst j; exact Hs.
    - cbn [step] in Hv. rewrite E in Hv. discriminate Hv.
  Qed.

  (** (iii) Result accessors inside the world: after ANY sequence of operations (accessors of this and of
      other result objects in any order, graph operations in between) an accessor returns the pure
      function of the immutable fields of the result object it is called on. *)
  Theorem accessors_history_independent i ops r ri a :
    rimm_at (run (init i) ops) r = Some ri ->
    view (step (run (init i) ops) (OnRes r a)) = VwAcc (spec_acc ri a) /\
    spec_acc ri a = snd (acc_step (rfresh ri) a).
  Proof.
    intros Hr. destruct (run_inv (shared i) ops (init i) (init_inv i)) as [HI _].
    destruct (step_res_ok (shared i) _ r ri a HI Hr) as (_ & _ & H). split; [exact H|].
    destruct (acc_step_good a _ (rfresh_inv ri)) as (_ & _ & H0). symmetry. exact H0.
  Qed.

  (* the cache-coherence invariant itself, for the record: it holds in every reachable world *)
  Theorem reachable_worlds_coherent i ops : WInv (shared i) (run (init i) ops).
  Proof. apply (run_inv (shared i) ops (init i) (init_inv i)). Qed.

  (* ---------- whole sessions ---------- *)
  (* what the caller sees during a session *)
  Fixpoint trace (W : world) (ops : list op) : list vout :=
    match ops with
    | [] => []
    | x :: t => let Wo := step W x in view Wo :: trace (fst Wo) t
    end.

  (* the specification of one operation in a world: a function of the IMMUTABLE part behind the handle *)
  Definition spec_op (W : world) (x : op) : vout :=
    match x with
    | OnObj h g => match imm_at W h with Some i => spec_gop i g | None => VwInvalid end
    | OnRes r a => match rimm_at W r with Some ri => VwAcc (spec_acc ri a) | None => VwInvalid end
    end.
  Fixpoint spec_trace (W : world) (ops : list op) : list vout :=
    match ops with
    | [] => []
    | x :: t => spec_op W x :: spec_trace (fst (step W x)) t
    end.

  Lemma step_spec_op s W x : WInv s W -> view (step W x) = spec_op W x.
  Proof.
    intros HI. destruct x as [h g|r a]; cbn [spec_op].
    - destruct (imm_at W h) as [i|] eqn:E.
      + apply (step_obj_ok s W h i g HI E).
      + cbn [step]. rewrite E. reflexivity.
    - destruct (rimm_at W r) as [ri|] eqn:E.
      + apply (step_res_ok s W r ri a HI E).
      + cbn [step]. unfold rimm_at in E. destruct (nth_error (ress W) r); [discriminate E|reflexivity].
  Qed.

  (** the whole session: every answer, valid handle or not, is the specified one *)
  Theorem session_spec i ops : trace (init i) ops = spec_trace (init i) ops.
  Proof.
    pose proof (init_inv i) as HI. revert HI. generalize (init i) as W. generalize (shared i) as s.
    intros s W. revert W. induction ops as [|x t IH]; intros W HI; [reflexivity|].
    cbn [trace spec_trace]. rewrite (step_spec_op s W x HI). f_equal.
    apply IH. apply (step_inv s W x HI).
  Qed.
End Full.

Arguments GPure {D Key Q P BArgs} p.
Arguments GInverted {D Key Q P BArgs}.
Arguments GModified {D Key Q P BArgs} d.
Arguments GFindPath {D Key Q P BArgs} k q.
Arguments GBfs {D Key Q P BArgs} a.
Arguments OnObj {D Key Q P BArgs} h g.
Arguments OnRes {D Key Q P BArgs} r a.
Arguments Build_imm {S D} shared defn.
Arguments shared {S D} i.
Arguments defn {S D} i.

(* ====================================================================== *)
(** * B3. Non-vacuity: a toy world, a mixed session, by computation *)
Module Toy.
  (* shared := a number (think: the hash seed); defn := a list of numbers (think: the generators) *)
  Definition timm := imm nat (list nat).
  Definition code (i : timm) : nat := fold_left (fun a x => a * 3 + x) (defn i) (shared i).
  Definition RI : Type := (nat * bool)%type.     (* (number of vertices, whether edges were requested) *)

  Definition mk_nv (ri : RI) : result nat := Ok (fst ri).
  Definition mk_h2i (ri : RI) (nv : nat) : result nat := if nv =? 0 then Err AssertionErr else Ok (nv * 10).
  Definition mk_el (ri : RI) (h : nat) : result nat := if snd ri then Ok (h + 1) else Err AssertionErr.
  Definition mk_vn (ri : RI) : result nat := Ok (fst ri + 100).
  Definition mk_as (ri : RI) : result nat := Ok (fst ri + 200).
  Definition mk_adj (ri : RI) (nv el : nat) : nat := nv + el.
  Definition mk_sparse (ri : RI) (el nv : nat) : nat := 2 * (nv + el).
  Definition mk_named (ri : RI) (vn el : nat) : nat := vn + el.

  Definition inv_defn (d : list nat) : list nat := rev d.
  Definition inv_closed (i : timm) : bool := list_eqb Nat.eqb (defn i) (rev (defn i)).
  Definition mk_ball (i : timm) (k : nat) : nat := code i + 50 * k.
  Definition p_depth (i : timm) (p : nat) : nat := p mod 3.
  Definition pure_op (i : timm) (ch : list timm) (p : nat) : nat := code i + p + fold_left (fun a j => a + 2 * code j) ch 0.
  Definition fp_depth (i : timm) (k q : nat) : nat := 2.
  Definition answer (i j : timm) (ch : list timm) (b q : nat) : nat :=
    code i + 3 * code j + b + q + fold_left (fun a j => a + 2 * code j) ch 0.
  Definition mk_res (i : timm) (a : nat) : RI := (a + length (defn i), Nat.even a).

  Lemma key_ok : forall a b : nat, Nat.eqb a b = true <-> a = b.
  Proof. intros a b. apply Nat.eqb_eq. Qed.

  Definition top := op (list nat) nat nat nat nat.
  Definition tstep := step RI nat nat nat nat nat nat nat nat mk_nv mk_h2i mk_el mk_vn mk_as mk_adj mk_sparse mk_named
                           nat (list nat) nat nat nat nat nat nat nat Nat.eqb inv_defn inv_closed mk_ball p_depth pure_op fp_depth answer mk_res.
  Definition ttrace := trace RI nat nat nat nat nat nat nat nat mk_nv mk_h2i mk_el mk_vn mk_as mk_adj mk_sparse mk_named
                           nat (list nat) nat nat nat nat nat nat nat Nat.eqb inv_defn inv_closed mk_ball p_depth pure_op fp_depth answer mk_res.
  Definition trun := run RI nat nat nat nat nat nat nat nat mk_nv mk_h2i mk_el mk_vn mk_as mk_adj mk_sparse mk_named
                           nat (list nat) nat nat nat nat nat nat nat Nat.eqb inv_defn inv_closed mk_ball p_depth pure_op fp_depth answer mk_res.
  Definition tinit := init RI nat nat nat nat nat nat (list nat) nat nat.
  Definition tspec := spec_gop RI nat nat nat nat nat nat nat nat nat (list nat) nat nat nat nat nat nat nat
                           inv_defn inv_closed mk_ball p_depth pure_op fp_depth answer mk_res.
  Definition tacc := spec_acc RI nat nat nat nat nat nat nat nat mk_nv mk_h2i mk_el mk_vn mk_as mk_adj mk_sparse mk_named.
  Definition tinv := inv_imm nat (list nat) inv_defn.
  Definition tcopy := copy_imm nat (list nat).
  Definition tvacc := @VwAcc RI nat nat nat nat nat nat nat nat nat (list nat) nat nat.

  Definition i0 : timm := Build_imm 1 [1; 2; 0].          (* not inverse-closed: find_path works in the inverted copy *)

  Definition session : list top :=
    [ OnObj 0 (GFindPath 5 7);        (* creates object 1 = inverted copy (holding the ball) and object 2 = its inverted copy *)
      OnObj 0 GInverted;              (* cached: handle 1 *)
      OnObj 1 (GPure 2);              (* on the copy, reaching two inverted copies down: creates object 3 *)
      OnObj 0 (GModified [2; 2]);     (* object 4: fresh copy, inverse-closed definition *)
      OnObj 4 (GFindPath 1 1);        (* ball on object 4 itself; its chain of inverted copies: objects 5 and 6 *)
      OnObj 0 (GBfs 6);               (* result object 0 (edges requested) *)
      OnObj 4 (GBfs 3);               (* result object 1 (no edges) *)
      OnRes 0 AAdj; OnRes 0 ANumV; OnRes 0 ANamed; OnRes 0 AEdges; OnRes 0 ASparse;
      OnRes 1 ASparse;                (* raises; num_vertices and the dict stay cached *)
      OnRes 1 ANumV; OnRes 1 AAdj;
      OnObj 0 (GFindPath 6 7);        (* other BFS arguments: the ball is recomputed *)
      OnObj 0 (GFindPath 5 7);        (* and again *)
      OnObj 1 (GFindPath 5 7);        (* on the copy itself: ball on ITS inverted copy (object 2), creates object 7 *)
      OnObj 0 (GPure 1);
      OnObj 77 GInverted;             (* not a handle *)
      OnObj 4 GInverted ].

  (* the session answers with the pure functions of the immutable parts - first computed, then as the theorem says *)
  Example session_answers :
    ttrace (tinit i0) session =
    [ tspec i0 (GFindPath 5 7); tspec i0 GInverted; tspec (tinv i0) (GPure 2); tspec i0 (GModified [2; 2]);
      tspec (tcopy i0 [2; 2]) (GFindPath 1 1); tspec i0 (GBfs 6); tspec (tcopy i0 [2; 2]) (GBfs 3);
      tvacc (tacc (9, true) AAdj); tvacc (tacc (9, true) ANumV); tvacc (tacc (9, true) ANamed);
      tvacc (tacc (9, true) AEdges); tvacc (tacc (9, true) ASparse);
      tvacc (tacc (5, false) ASparse); tvacc (tacc (5, false) ANumV); tvacc (tacc (5, false) AAdj);
      tspec i0 (GFindPath 6 7); tspec i0 (GFindPath 5 7); tspec (tinv i0) (GFindPath 5 7); tspec i0 (GPure 1);
      VwInvalid _ _ _ _ _ _ _ _ _ _ _ _ _; tspec (tcopy i0 [2; 2]) GInverted ].
  Proof. vm_compute. reflexivity. Qed.

  (* a few of the values, to see that the session is not degenerate: errors and values both occur *)
  Example session_values :
    nth 7 (ttrace (tinit i0) session) (VwInvalid _ _ _ _ _ _ _ _ _ _ _ _ _) = tvacc (Ok (VAdj _ _ _ _ _ _ _ _ 100)) /\
    nth 12 (ttrace (tinit i0) session) (VwInvalid _ _ _ _ _ _ _ _ _ _ _ _ _) = tvacc (Err AssertionErr) /\
    nth 13 (ttrace (tinit i0) session) (VwInvalid _ _ _ _ _ _ _ _ _ _ _ _ _) = tvacc (Ok (VNumV _ _ _ _ _ _ _ _ 5)) /\
    nth 1 (ttrace (tinit i0) session) (VwInvalid _ _ _ _ _ _ _ _ _ _ _ _ _) = VwObj _ _ _ _ _ _ _ _ _ _ _ _ _ (Build_imm 1 [0; 2; 1]) /\
    tspec i0 (GFindPath 5 7) <> tspec i0 (GFindPath 6 7).
  Proof. vm_compute. repeat split. discriminate. Qed.

  (* the final world: 8 graph objects, all sharing the origin's [shared]; 2 result objects *)
  Example session_world :
    let W := trun (tinit i0) session in
    length (objs _ _ _ _ _ _ _ _ _ _ W) = 8 /\ length (ress _ _ _ _ _ _ _ _ _ _ W) = 2 /\
    map (fun o => shared (o_imm _ _ _ _ o)) (objs _ _ _ _ _ _ _ _ _ _ W) = [1; 1; 1; 1; 1; 1; 1; 1] /\
    map (fun o => defn (o_imm _ _ _ _ o)) (objs _ _ _ _ _ _ _ _ _ _ W) = [[1;2;0]; [0;2;1]; [1;2;0]; [0;2;1]; [2;2]; [2;2]; [2;2]; [1;2;0]].
  Proof. vm_compute. repeat split. Qed.

  (* the hypotheses of the theorems hold in the session: handles 4 (a modified copy) and result 1 are valid *)
  Example session_handles :
    imm_at _ _ _ _ _ _ _ _ _ _ (trun (tinit i0) session) 4 = Some (tcopy i0 [2; 2]) /\
    imm_at _ _ _ _ _ _ _ _ _ _ (trun (tinit i0) session) 7 = Some i0 /\
    rimm_at _ _ _ _ _ _ _ _ _ _ (trun (tinit i0) session) 1 = Some (5, false) /\
    imm_at _ _ _ _ _ _ _ _ _ _ (trun (tinit i0) session) 8 = None.
  Proof. vm_compute. repeat split. Qed.

  (* the general theorems, instantiated *)
  Example toy_history_independent ops h j g :
    imm_at _ _ _ _ _ _ _ _ _ _ (trun (tinit i0) ops) h = Some j ->
    view _ _ _ _ _ _ _ _ _ _ _ _ _ _ _ (tstep (trun (tinit i0) ops) (OnObj h g)) = tspec j g.
  Proof. intros H. apply (history_independent_full _ _ _ _ _ _ _ _ _ _ _ _ _ _ _ _ _ _ _ _ _ _ _ _ _ _ _ key_ok _ _ _ _ _ _ _ _ i0 ops h j g H). Qed.

  Example toy_copies_share ops h j :
    imm_at _ _ _ _ _ _ _ _ _ _ (trun (tinit i0) ops) h = Some j -> shared j = 1.
  Proof. intros H. apply (copies_share _ _ _ _ _ _ _ _ _ _ _ _ _ _ _ _ _ _ _ _ _ _ _ _ _ _ _ key_ok _ _ _ _ _ _ _ _ i0 ops h j H). Qed.
End Toy.

Print Assumptions accessors_any_order.
Print Assumptions history_independent_full.
Print Assumptions immutable_parts_never_change.
Print Assumptions copies_share.
Print Assumptions copies_hash_alike.
Print Assumptions returned_copies_share.
Print Assumptions accessors_history_independent.
Print Assumptions reachable_worlds_coherent.
Print Assumptions session_spec.
Print Assumptions Toy.session_answers.
