(** Model of cayleypy/permutation_utils.py. Permutations are [list nat] (one-line notation,
    the library's convention: apply p x = [x[p[i]] for i]). *)
From Coq Require Import ZArith List Bool Arith Lia Sorting.Mergesort.
From V Require Import Base.
Import ListNotations.

Definition identity_perm (n : nat) : list nat := seq 0 n.

(* apply_permutation(p, x) = [x[p[i]] for i in range(len(p))]; [d] stands for the IndexError
   the real code raises when p[i] >= len(x) (theorems are stated under that guard). *)
Definition apply_perm {A} (d : A) (p : list nat) (x : list A) : list A :=
  map (fun i => nth i x d) p.

(* compose_permutations(p1, p2) = apply_permutation(p1, p2) *)
Definition compose (p1 p2 : list nat) : list nat := apply_perm 0 p1 p2.

(* inverse_permutation: ans = [0]*n; for i in range(n): ans[p[i]] = i *)
Definition inverse_perm (p : list nat) : list nat :=
  fold_left (fun ans i => upd ans (nth i p 0) i) (seq 0 (length p)) (repeat 0 (length p)).

(* is_permutation(p): sorted(p) == list(range(len(p))) *)
Definition is_perm (p : list nat) : bool := nat_list_eqb (NatSort.sort p) (seq 0 (length p)).

(* transposition(n, i1, i2) *)
Definition transposition (n i1 i2 : nat) : result (list nat) :=
  if (i1 <? n) && (i2 <? n) && negb (i1 =? i2)
  then Ok (upd (upd (seq 0 n) i1 i2) i2 i1) else Err AssertionErr.

(* permutation_from_cycles(n, cycles, offset) *)
Definition cyc_step (n : nat) (cyc : list Z) (acc : result (list nat)) (i : nat) : result (list nat) :=
  do perm <- acc;
  let c := nth i cyc 0%Z in
  if ((0 <=? c) && (c <? Z.of_nat n))%Z then
    let ci := Z.to_nat c in
    if nth ci perm 0 =? ci
    then Ok (upd perm ci (Z.to_nat (nth ((i + 1) mod length cyc) cyc 0%Z)))
    else Err AssertionErr
  else Err AssertionErr.

Definition cycle_step (n : nat) (acc : result (list nat)) (cyc : list Z) : result (list nat) :=
  fold_left (cyc_step n cyc) (seq 0 (length cyc)) acc.

Definition from_cycles (n : nat) (cycles : list (list Z)) (offset : Z) : result (list nat) :=
  fold_left (cycle_step n) (map (map (fun x => (x - offset)%Z)) cycles) (Ok (seq 0 n)).

(* partition_to_permutation(cycle_lengths, flag_random): [elements] is range(n), or the
   outcome of random.shuffle (an oracle: theorems quantify over every rearrangement). *)
Fixpoint p2p_loop (lens : list nat) (elements : list nat) (perm : list nat) : list nat :=
  match lens with
  | [] => perm
  | size :: rest =>
      let cyc := firstn size elements in
      let perm' := fold_left (fun pm i => upd pm (nth i cyc 0) (nth ((i + 1) mod size) cyc 0))
                             (seq 0 size) perm in
      p2p_loop rest (skipn size elements) perm'
  end.

Definition partition_to_permutation (lens : list nat) (elements : list nat) : result (list nat) :=
  if forallb (fun k => 1 <=? k) lens
  then Ok (p2p_loop lens elements (repeat 0 (fold_right Nat.add 0 lens)))
  else Err AssertionErr.

(* ---- permutations_with_cycle_lenghts ---- *)

(* itertools.combinations(l, k), lexicographic in positions *)
Fixpoint combs {A} (k : nat) (l : list A) : list (list A) :=
  match k, l with
  | O, _ => [[]]
  | S _, [] => []
  | S k', x :: t => map (cons x) (combs k' t) ++ combs k t
  end.

(* all ways of taking one element out: (element, rest) in positional order *)
Fixpoint picks {A} (l : list A) : list (A * list A) :=
  match l with
  | [] => []
  | x :: t => (x, t) :: map (fun '(y, r) => (y, x :: r)) (picks t)
  end.

(* itertools.permutations(l), lexicographic in positions; [n] = length l *)
Fixpoint perms_aux {A} (n : nat) (l : list A) : list (list A) :=
  match n with
  | O => [[]]
  | S n' => flat_map (fun '(x, r) => map (cons x) (perms_aux n' r)) (picks l)
  end.
Definition perms {A} (l : list A) : list (list A) := perms_aux (length l) l.

(* Counter(cycle_lengths) as an association list sorted by key *)
Fixpoint counter_add (k : nat) (c : list (nat * nat)) : list (nat * nat) :=
  match c with
  | [] => [(k, 1)]
  | (k', m) :: t => if k =? k' then (k', S m) :: t
                    else if k <? k' then (k, 1) :: c else (k', m) :: counter_add k t
  end.
Definition counter_of (l : list nat) : list (nat * nat) := fold_right counter_add [] l.
Fixpoint counter_dec (k : nat) (c : list (nat * nat)) : list (nat * nat) :=
  match c with
  | [] => []
  | (k', m) :: t => if k =? k' then (if m =? 1 then t else (k', m - 1) :: t)
                    else (k', m) :: counter_dec k t
  end.

Definition remove_all (xs l : list nat) : list nat :=
  filter (fun a => negb (existsb (Nat.eqb a) xs)) l.

(* the generator [backtrack]; fuel = number of cycles still to place (out of fuel cannot
   happen when fuel = len(cycle_lengths); it yields nothing, which the exhaustive theorem
   would expose as a missing permutation) *)
Fixpoint backtrack (fuel : nat) (last_min : Z) (avail : list nat) (cnt : list (nat * nat))
  : list (list (list nat)) :=
  match cnt with
  | [] => match avail with [] => [[]] | _ => [] end
  | _ =>
    match fuel with
    | O => []
    | S f =>
      flat_map (fun k =>
        let cnt' := counter_dec k cnt in
        flat_map (fun comb =>
          match comb with
          | [] => []
          | m :: rest =>
            if (Z.of_nat m <=? last_min)%Z then []
            else flat_map (fun order =>
                   let cyc := m :: order in
                   map (cons cyc) (backtrack f (Z.of_nat m) (remove_all cyc avail) cnt'))
                 (perms rest)
          end) (combs k avail)) (map fst cnt)
    end
  end.

Definition perm_of_cycles (n : nat) (cycles : list (list nat)) : list nat :=
  fold_left (fun arr cyc =>
    fold_left (fun a i => upd a (nth i cyc 0) (nth ((i + 1) mod length cyc) cyc 0))
              (seq 0 (length cyc)) arr) cycles (seq 0 n).

Definition perms_with_cycle_lengths (n : nat) (lens : list nat) : result (list (list nat)) :=
  if negb (1 <=? n) then Err AssertionErr
  else if negb (forallb (fun k => 1 <=? k) lens) then Err AssertionErr
  else if negb (fold_right Nat.add 0 lens =? n) then Err ValueErr
  else Ok (map (perm_of_cycles n) (backtrack (length lens) (-1)%Z (seq 0 n) (counter_of lens))).

(* ---- reference notions used by the theorems ---- *)

(* cycle type of a permutation: sorted list of orbit lengths *)
Fixpoint orbit_from (fuel : nat) (p : list nat) (start cur : nat) : list nat :=
  match fuel with
  | O => []
  | S f => let nxt := nth cur p 0 in
           if nxt =? start then [cur] else cur :: orbit_from f p start nxt
  end.
Fixpoint cycle_type_loop (p : list nat) (todo : list nat) (seen : list nat) : list nat :=
  match todo with
  | [] => []
  | x :: t => if existsb (Nat.eqb x) seen then cycle_type_loop p t seen
              else let o := orbit_from (length p) p x x in
                   length o :: cycle_type_loop p t (o ++ seen)
  end.
Definition cycle_type (p : list nat) : list nat :=
  NatSort.sort (cycle_type_loop p (seq 0 (length p)) []).

Definition all_perms (n : nat) : list (list nat) := perms (seq 0 n).
