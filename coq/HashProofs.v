(** Proofs about the hash model (Hash.v, HashChunk.v):
    - closure of the mixer and of the multi-word hash in the 64-bit words,
    - every admissible mixing step (logical xorshift, multiplication by an odd constant) is
      injective on 64-bit words, hence so is the whole mixer,
    - two states that differ in exactly one word never collide (any seed),
    - the ARITHMETIC-shift xorshift collides x with its complement (the defect that was fixed),
    - chunked hashing is row-wise,
    - the dot-product hash has no collision that holds for every hasher vector,
    - KNOWN FINDING: a seed-independent collision of the multi-word hash (sign-bit differences
      survive the multiplication by an odd constant and cancel in the next round). *)
From Coq Require Import ZArith List Bool Arith Lia Znumtheory Zpow_facts.
From V Require Import Base W64 W64Proofs Tensor TensorProofs Hash HashChunk CodecBits.
Import ListNotations.
Open Scope Z_scope.

(* ================================================================== *)
(** * Closure in the 64-bit words *)

Lemma lxor_in64 a b : in64 a -> in64 b -> in64 (Z.lxor a b).
Proof.
  intros Ha Hb. apply in64_of_bits. intros i Hi.
  rewrite !Z.lxor_spec, (in64_high_bits a i Ha Hi), (in64_high_bits b i Hb Hi). reflexivity.
Qed.

(* the arithmetic-shift step needs a non-negative shift amount, the other two nothing *)
Lemma run_step_in64_gen x s :
  match s with XorSar k => 0 <= k | _ => True end -> in64 x -> in64 (run_step x s).
Proof.
  destruct s as [k|k|c]; cbn [run_step]; unfold w_xor, w_sar, w_mul; intros Hs Hx.
  - apply lxor_in64; auto. apply shiftr_in64; auto.
  - apply lxor_in64; auto. apply wrap_in64.
  - apply wrap_in64.
Qed.

Lemma run_step_in64 x s : step_ok s = true -> in64 x -> in64 (run_step x s).
Proof.
  intros Hs. apply run_step_in64_gen. destruct s; cbn [step_ok] in Hs; auto. discriminate.
Qed.

Lemma run_steps_in64 steps x :
  forallb step_ok steps = true -> in64 x -> in64 (run_steps steps x).
Proof.
  unfold run_steps. revert x. induction steps as [|s steps IH]; intros x Hok Hx; cbn [fold_left].
  - exact Hx.
  - cbn [forallb] in Hok. apply andb_prop in Hok. destruct Hok as [Hs Hok].
    apply IH; auto. apply run_step_in64; auto.
Qed.

(* ================================================================== *)
(** * The logical xorshift is injective *)

Lemma shr_testbit x k i :
  0 <= k -> 0 <= i < 64 ->
  Z.testbit (wrap (w_shr x k)) i = if i + k <? 64 then Z.testbit x (i + k) else false.
Proof.
  intros Hk Hi. rewrite wrap_testbit by lia. unfold w_shr. rewrite Z.shiftr_spec by lia.
  change two64 with (2 ^ 64).
  destruct (Z.ltb_spec (i + k) 64).
  - apply Z.mod_pow2_bits_low. lia.
  - apply Z.mod_pow2_bits_high. lia.
Qed.

Theorem xorshr_injective k x y :
  1 <= k <= 63 -> in64 x -> in64 y ->
  run_step x (XorShr k) = run_step y (XorShr k) -> x = y.
Proof.
  intros Hk Hx Hy H. cbn [run_step] in H. unfold w_xor in H.
  assert (Hb : forall i, 0 <= i < 64 ->
     xorb (Z.testbit x i) (if i + k <? 64 then Z.testbit x (i + k) else false) =
     xorb (Z.testbit y i) (if i + k <? 64 then Z.testbit y (i + k) else false)).
  { intros i Hi. pose proof (f_equal (fun z => Z.testbit z i) H) as E. cbv beta in E.
    rewrite !Z.lxor_spec in E. rewrite !shr_testbit in E by lia. exact E. }
  (* downward induction on the bit position, from 63 *)
  assert (Hn : forall n : nat, forall i, 64 - Z.of_nat n <= i < 64 -> 0 <= i ->
                 Z.testbit x i = Z.testbit y i).
  { induction n as [|n IH]; intros i Hi Hi0; [lia|].
    specialize (Hb i ltac:(lia)).
    destruct (Z.ltb_spec (i + k) 64) as [Hlt|Hge].
    - rewrite (IH (i + k)) in Hb by lia.
      destruct (Z.testbit x i), (Z.testbit y i), (Z.testbit y (i + k));
        cbn [xorb] in Hb; congruence.
    - rewrite !xorb_false_r in Hb. exact Hb. }
  apply in64_bits_eq; auto. intros i Hi. apply (Hn 64%nat); lia.
Qed.

(* ================================================================== *)
(** * Multiplication by an odd constant is injective *)

Lemma odd_rel_prime_two64 c : Z.odd c = true -> rel_prime two64 c.
Proof.
  intros Hc. change two64 with (2 ^ 64). apply rel_prime_sym.
  apply rel_prime_Zpower_r; [lia|]. apply rel_prime_sym.
  apply prime_rel_prime; [apply prime_2|].
  intros [q Hq]. rewrite Hq, Z.odd_mul in Hc.
  change (Z.odd 2) with false in Hc. rewrite andb_false_r in Hc. discriminate.
Qed.

Lemma odd_mul_cancel_mod c x y :
  Z.odd c = true -> (x * c) mod two64 = (y * c) mod two64 -> x mod two64 = y mod two64.
Proof.
  intros Hc H.
  assert (M : two64 <> 0) by (unfold two64; lia).
  assert (D : (two64 | x - y)).
  { apply Gauss with c; [|apply odd_rel_prime_two64; auto].
    apply Z.mod_divide; [exact M|].
    replace (c * (x - y)) with (x * c - y * c) by ring.
    rewrite Zminus_mod, H, Z.sub_diag. apply Z.mod_0_l. exact M. }
  destruct D as [q Hq]. replace x with (y + q * two64) by lia. apply Z.mod_add. exact M.
Qed.

Theorem mulc_injective c x y :
  Z.odd c = true -> in64 x -> in64 y ->
  run_step x (MulC c) = run_step y (MulC c) -> x = y.
Proof.
  intros Hc Hx Hy H. cbn [run_step] in H. unfold w_mul in H.
  apply wrap_eq_iff in H. apply odd_mul_cancel_mod in H; auto.
  rewrite <- (wrap_id x Hx), <- (wrap_id y Hy). apply wrap_eq_iff. exact H.
Qed.

(* ================================================================== *)
(** * The whole mixer is injective *)

Lemma run_step_injective s x y :
  step_ok s = true -> in64 x -> in64 y -> run_step x s = run_step y s -> x = y.
Proof.
  destruct s as [k|k|c]; cbn [step_ok]; intros Hs.
  - discriminate.
  - apply andb_prop in Hs. destruct Hs as [H1 H2]. apply Z.leb_le in H1, H2.
    apply xorshr_injective. lia.
  - apply mulc_injective. exact Hs.
Qed.

Theorem run_steps_injective steps x y :
  forallb step_ok steps = true -> in64 x -> in64 y ->
  run_steps steps x = run_steps steps y -> x = y.
Proof.
  unfold run_steps. revert x y.
  induction steps as [|s steps IH]; intros x y Hok Hx Hy H; cbn [fold_left] in H.
  - exact H.
  - cbn [forallb] in Hok. apply andb_prop in Hok. destruct Hok as [Hs Hok].
    apply (run_step_injective s); auto.
    apply IH; auto; apply run_step_in64; auto.
Qed.

(* ================================================================== *)
(** * The multi-word hash *)

Lemma hash_words_app steps mult seed l1 l2 :
  hash_words steps mult seed (l1 ++ l2) =
  hash_words steps mult (hash_words steps mult seed l1) l2.
Proof. unfold hash_words. apply fold_left_app. Qed.

Lemma hash_words_cons steps mult seed a l :
  hash_words steps mult seed (a :: l) =
  hash_words steps mult (w_mul (w_xor seed (run_steps steps a)) mult) l.
Proof. reflexivity. Qed.

Lemma hash_words_nil steps mult seed : hash_words steps mult seed [] = seed.
Proof. reflexivity. Qed.

(* only the seed matters: every round ends with a wrap *)
Lemma hash_words_in64_gen steps mult seed ws :
  in64 seed -> in64 (hash_words steps mult seed ws).
Proof.
  revert seed. induction ws as [|a ws IH]; intros seed H.
  - exact H.
  - rewrite hash_words_cons. apply IH. apply wrap_in64.
Qed.

Lemma hash_words_in64 steps mult seed ws :
  forallb step_ok steps = true -> in64 seed -> Forall in64 ws ->
  in64 (hash_words steps mult seed ws).
Proof. intros _ H _. apply hash_words_in64_gen. exact H. Qed.

Lemma lxor_cancel_r a b m : Z.lxor a m = Z.lxor b m -> a = b.
Proof.
  intros H.
  assert (E : forall z, Z.lxor (Z.lxor z m) m = z).
  { intros z. rewrite Z.lxor_assoc, Z.lxor_nilpotent, Z.lxor_0_r. reflexivity. }
  rewrite <- (E a), <- (E b), H. reflexivity.
Qed.

Lemma lxor_cancel_l a b m : Z.lxor m a = Z.lxor m b -> a = b.
Proof. rewrite !(Z.lxor_comm m). apply lxor_cancel_r. Qed.

Lemma w_mul_odd_injective c x y :
  Z.odd c = true -> in64 x -> in64 y -> w_mul x c = w_mul y c -> x = y.
Proof. intros Hc Hx Hy H. apply (mulc_injective c); auto. Qed.

(* one round is injective in the accumulator *)
Lemma round_injective steps mult x h h' :
  forallb step_ok steps = true -> Z.odd mult = true -> in64 x -> in64 h -> in64 h' ->
  w_mul (w_xor h (run_steps steps x)) mult = w_mul (w_xor h' (run_steps steps x)) mult ->
  h = h'.
Proof.
  intros Hs Hm Hx Hh Hh' H.
  pose proof (run_steps_in64 steps x Hs Hx) as Hmx.
  apply w_mul_odd_injective in H; auto; try (apply lxor_in64; auto).
  unfold w_xor in H. apply lxor_cancel_r in H. exact H.
Qed.

(* for a fixed tail of words, the fold is injective in the accumulator *)
Lemma hash_words_seed_injective steps mult ws :
  forallb step_ok steps = true -> Z.odd mult = true -> Forall in64 ws ->
  forall h h', in64 h -> in64 h' ->
  hash_words steps mult h ws = hash_words steps mult h' ws -> h = h'.
Proof.
  intros Hs Hm Hws. induction Hws as [|x ws Hx Hws IH]; intros h h' Hh Hh' H.
  - exact H.
  - rewrite !hash_words_cons in H. apply IH in H; try apply wrap_in64.
    apply (round_injective steps mult x); auto.
Qed.

Theorem hash_words_one_word_diff steps mult seed pre a b post :
  forallb step_ok steps = true -> Z.odd mult = true -> in64 seed -> in64 a -> in64 b ->
  Forall in64 pre -> Forall in64 post -> a <> b ->
  hash_words steps mult seed (pre ++ a :: post) <> hash_words steps mult seed (pre ++ b :: post).
Proof.
  intros Hs Hm Hseed Ha Hb _ Hpost Hne E.
  rewrite !hash_words_app, !hash_words_cons in E.
  pose proof (hash_words_in64_gen steps mult seed pre Hseed) as Hh.
  set (h := hash_words steps mult seed pre) in *.
  pose proof (run_steps_in64 steps a Hs Ha) as Hma.
  pose proof (run_steps_in64 steps b Hs Hb) as Hmb.
  apply (hash_words_seed_injective steps mult post Hs Hm Hpost) in E; try apply wrap_in64.
  apply w_mul_odd_injective in E; auto; try (apply lxor_in64; auto).
  unfold w_xor in E. apply lxor_cancel_l in E.
  apply run_steps_injective in E; auto.
Qed.

(* ================================================================== *)
(** * The arithmetic-shift variant collides x with its complement *)

(* x ^ (x >> k) with an arithmetic shift: the complement flips both operands of the xor *)
Theorem xorsar_complement_collision k x :
  0 <= k -> run_step (Z.lnot x) (XorSar k) = run_step x (XorSar k).
Proof.
  intros Hk. cbn [run_step]. unfold w_xor, w_sar.
  rewrite <- Z.lnot_shiftr by lia. apply Z.lxor_lnot_lnot.
Qed.

Lemma lnot_neq x : Z.lnot x <> x.
Proof. unfold Z.lnot. lia. Qed.

Lemma lnot_in64 x : in64 x -> in64 (Z.lnot x).
Proof. unfold in64, Z.lnot, two63. lia. Qed.

(* a mixer that starts with an arithmetic xorshift is not injective: two distinct words collide *)
Corollary xorsar_mixer_collision k rest x :
  0 <= k -> run_steps (XorSar k :: rest) (Z.lnot x) = run_steps (XorSar k :: rest) x.
Proof.
  intros Hk. unfold run_steps. cbn [fold_left].
  rewrite xorsar_complement_collision by exact Hk. reflexivity.
Qed.

(* ... and therefore the multi-word hash collides for EVERY seed and multiplier on two states that
   differ in one word (a versus its complement) *)
Corollary hash_words_sar_collision k rest mult seed pre a post :
  0 <= k ->
  hash_words (XorSar k :: rest) mult seed (pre ++ Z.lnot a :: post) =
  hash_words (XorSar k :: rest) mult seed (pre ++ a :: post).
Proof.
  intros Hk. rewrite !hash_words_app, !hash_words_cons.
  rewrite xorsar_mixer_collision by exact Hk. reflexivity.
Qed.

(* the original (pre-fix) step list *)
Definition sar_steps : list mix_step :=
  [XorSar 30; MulC 13787848793156543929; XorSar 27; MulC 10723151780598845931; XorSar 31].

Example sar_collision : run_steps sar_steps 0 = run_steps sar_steps (-1).
Proof. vm_compute. reflexivity. Qed.

Theorem sar_steps_collision x : run_steps sar_steps (Z.lnot x) = run_steps sar_steps x.
Proof. apply xorsar_mixer_collision. lia. Qed.

Theorem sar_steps_not_injective :
  exists x y, in64 x /\ in64 y /\ x <> y /\ run_steps sar_steps x = run_steps sar_steps y.
Proof.
  exists (Z.lnot 0), 0. split; [|split; [|split]].
  - apply lnot_in64, in64_0.
  - apply in64_0.
  - apply lnot_neq.
  - apply sar_steps_collision.
Qed.

(* ================================================================== *)
(** * Chunking never changes a hash *)

Theorem hash_rows_chunked_eq f chunk rows :
  1 <= chunk -> hash_rows_chunked f chunk rows = map f rows.
Proof.
  intros Hc. unfold hash_rows_chunked.
  destruct (Z.leb_spec (Z.of_nat (length rows)) chunk) as [H|H]; [reflexivity|].
  cbv zeta. rewrite <- concat_map. rewrite tensor_split_concat; [reflexivity|].
  assert (1 <= (Z.of_nat (length rows) + chunk - 1) / chunk).
  { apply Z.div_le_lower_bound; lia. }
  lia.
Qed.

(* ================================================================== *)
(** * Dot-product hash *)

Definition dotsum (s vec : list Z) : Z :=
  fold_left Z.add (map (fun '(a, b) => a * b) (combine s vec)) 0.

Lemma hash_dot_dotsum vec s : hash_dot vec s = wrap (dotsum s vec).
Proof. reflexivity. Qed.

Lemma fold_add_acc l a : fold_left Z.add l a = a + fold_left Z.add l 0.
Proof.
  revert a. induction l as [|x l IH]; intros a; cbn [fold_left]; [lia|].
  rewrite (IH (a + x)), (IH (0 + x)). lia.
Qed.

Lemma dotsum_cons a s b vec : dotsum (a :: s) (b :: vec) = a * b + dotsum s vec.
Proof.
  unfold dotsum. cbn [combine map fold_left].
  match goal with |- fold_left _ ?l ?acc = _ => rewrite (fold_add_acc l acc) end. lia.
Qed.

Lemma dotsum_upd s vec i :
  (i < length vec)%nat -> (i < length s)%nat ->
  dotsum s (upd vec i (nth i vec 0 + 1)) = dotsum s vec + nth i s 0.
Proof.
  revert vec i. induction s as [|a s IH]; intros vec i Hv Hs; [cbn [length] in Hs; lia|].
  destruct vec as [|b vec]; [cbn [length] in Hv; lia|].
  destruct i as [|i]; cbn [upd nth]; rewrite !dotsum_cons.
  - lia.
  - cbn [length] in Hv, Hs. rewrite IH by lia. lia.
Qed.

Theorem hash_dot_not_seed_independent vec s s' i :
  length s = length vec -> length s' = length vec -> (i < length vec)%nat ->
  Forall (fun x => - 2^31 < x < 2^31) s -> Forall (fun x => - 2^31 < x < 2^31) s' ->
  nth i s 0 <> nth i s' 0 ->
  hash_dot vec s = hash_dot vec s' ->
  hash_dot (upd vec i (nth i vec 0 + 1)) s <> hash_dot (upd vec i (nth i vec 0 + 1)) s'.
Proof.
  intros Ls Ls' Hi Fs Fs' Hne Heq Heq'.
  rewrite !hash_dot_dotsum in Heq, Heq'.
  rewrite !dotsum_upd in Heq' by lia.
  assert (Bs : - 2^31 < nth i s 0 < 2^31).
  { rewrite Forall_forall in Fs. apply Fs. apply nth_In. lia. }
  assert (Bs' : - 2^31 < nth i s' 0 < 2^31).
  { rewrite Forall_forall in Fs'. apply Fs'. apply nth_In. lia. }
  change (2 ^ 31) with 2147483648 in Bs, Bs'.
  destruct (wrap_congr (dotsum s vec)) as [k1 E1].
  destruct (wrap_congr (dotsum s' vec)) as [k2 E2].
  destruct (wrap_congr (dotsum s vec + nth i s 0)) as [k3 E3].
  destruct (wrap_congr (dotsum s' vec + nth i s' 0)) as [k4 E4].
  rewrite E1, E2 in Heq. rewrite E3, E4 in Heq'.
  unfold two64 in Heq, Heq'. lia.
Qed.

(* ================================================================== *)
(** * KNOWN FINDING: a seed-independent collision of the multi-word hash *)

(* the sign bit of a 64-bit word, as a signed word *)
Definition sgn : Z := -9223372036854775808.

Lemma sgn_in64 : in64 sgn.
Proof. unfold in64, sgn, two63. lia. Qed.

Lemma sgn_testbit i : 0 <= i -> Z.testbit sgn i = (63 <=? i).
Proof.
  intros Hi. change sgn with (Z.shiftl (-1) 63).
  destruct (Z.leb_spec 63 i).
  - rewrite Z.shiftl_spec_high by lia. apply Z.bits_m1. lia.
  - apply Z.shiftl_spec_low. lia.
Qed.

Lemma lxor_sgn_nonneg a : 0 <= a < two63 -> Z.lxor a sgn = a - two63.
Proof.
  intros Ha. rewrite <- Z.add_nocarry_lxor.
  - unfold sgn, two63. lia.
  - apply Z.bits_inj'. intros i Hi. rewrite Z.land_spec, sgn_testbit, Z.bits_0 by lia.
    destruct (Z.leb_spec 63 i); [|apply andb_false_r].
    rewrite in64_nonneg_high; [reflexivity| |lia|lia].
    unfold in64, two63 in *. lia.
Qed.

(* flipping the sign bit is adding 2^63 modulo 2^64 *)
Lemma lxor_sgn a : in64 a -> Z.lxor a sgn = wrap (a + two63).
Proof.
  intros Ha. destruct (Z_lt_ge_dec a 0) as [Hn|Hn].
  - assert (B : 0 <= a + two63 < two63) by (unfold in64, two63 in *; lia).
    assert (E : a = Z.lxor (a + two63) sgn) by (rewrite lxor_sgn_nonneg by exact B; lia).
    rewrite E at 1. rewrite Z.lxor_assoc, Z.lxor_nilpotent, Z.lxor_0_r.
    symmetry. apply wrap_id. unfold in64, two63 in *. lia.
  - rewrite lxor_sgn_nonneg by (unfold in64, two63 in *; lia).
    unfold wrap.
    replace (a + two63 + two63) with (a + 1 * two64) by (unfold two63, two64; lia).
    rewrite Z.mod_add by (unfold two64; lia).
    rewrite Z.mod_small by (unfold in64, two63, two64 in *; lia). reflexivity.
Qed.

(* an XOR difference in the top bit survives multiplication by an odd constant unchanged *)
Lemma mul_odd_flip_sign h m :
  in64 h -> Z.odd m = true -> w_mul (Z.lxor h sgn) m = Z.lxor (w_mul h m) sgn.
Proof.
  intros Hh Hm. rewrite (lxor_sgn h Hh). rewrite (lxor_sgn (w_mul h m)) by apply wrap_in64.
  unfold w_mul. rewrite wrap_mul_l, wrap_add_l. apply wrap_eq_iff.
  apply Z.odd_spec in Hm. destruct Hm as [q ->].
  replace ((h + two63) * (2 * q + 1)) with (h * (2 * q + 1) + two63 + q * two64)
    by (unfold two63, two64; ring).
  apply Z.mod_add. unfold two64. lia.
Qed.

Lemma lxor_cancel_mid a b t : Z.lxor (Z.lxor a t) (Z.lxor b t) = Z.lxor a b.
Proof.
  apply Z.bits_inj'. intros i _. rewrite !Z.lxor_spec.
  destruct (Z.testbit a i), (Z.testbit b i), (Z.testbit t i); reflexivity.
Qed.

(* General form: if the mixed values of a/a' and of b/b' differ exactly in the sign bit, then
   replacing two consecutive words a, b by a', b' never changes the hash: any mixer, any odd fold
   multiplier, any seed, any surrounding words. *)
Theorem hash_words_sign_flip_collision steps mult seed pre a b a' b' post :
  Z.odd mult = true -> in64 seed -> in64 (run_steps steps a) ->
  run_steps steps a' = w_xor (run_steps steps a) sgn ->
  run_steps steps b' = w_xor (run_steps steps b) sgn ->
  hash_words steps mult seed (pre ++ a :: b :: post) =
  hash_words steps mult seed (pre ++ a' :: b' :: post).
Proof.
  intros Hm Hseed Hma Ea Eb.
  rewrite !hash_words_app, !hash_words_cons.
  pose proof (hash_words_in64_gen steps mult seed pre Hseed) as Hh.
  set (h := hash_words steps mult seed pre) in *.
  f_equal. rewrite Ea, Eb. unfold w_xor.
  rewrite <- (Z.lxor_assoc h (run_steps steps a) sgn).
  rewrite mul_odd_flip_sign by (auto using lxor_in64).
  rewrite lxor_cancel_mid. reflexivity.
Qed.

(* the repaired mixer (logical shifts) and the fold multiplier of the library *)
Definition fixed_steps : list mix_step :=
  [XorShr 30; MulC 13787848793156543929; XorShr 27; MulC 10723151780598845931; XorShr 31].
Definition fold_mult : Z := 2246822507.

Lemma fixed_steps_ok : forallb step_ok fixed_steps = true.
Proof. vm_compute. reflexivity. Qed.

(* the two pairs of words whose mixed values differ exactly in the sign bit *)
Example mix_diff_5 :
  w_xor (run_steps fixed_steps 5) (run_steps fixed_steps 5987515076937770397) = - 2 ^ 63.
Proof. vm_compute. reflexivity. Qed.
Example mix_diff_9 :
  w_xor (run_steps fixed_steps 9) (run_steps fixed_steps (-1928796979971312683)) = - 2 ^ 63.
Proof. vm_compute. reflexivity. Qed.

Lemma mix_flip_5 :
  run_steps fixed_steps 5987515076937770397 = w_xor (run_steps fixed_steps 5) sgn.
Proof. vm_compute. reflexivity. Qed.
Lemma mix_flip_9 :
  run_steps fixed_steps (-1928796979971312683) = w_xor (run_steps fixed_steps 9) sgn.
Proof. vm_compute. reflexivity. Qed.

Lemma in64_5 : in64 5.
Proof. unfold in64, two63. lia. Qed.

Theorem hash_words_seed_independent_collision seed :
  in64 seed ->
  hash_words fixed_steps 2246822507 seed [5; 9] =
  hash_words fixed_steps 2246822507 seed [5987515076937770397; -1928796979971312683].
Proof.
  intros Hseed.
  apply (hash_words_sign_flip_collision fixed_steps 2246822507 seed [] 5 9
           5987515076937770397 (-1928796979971312683) []).
  - reflexivity.
  - exact Hseed.
  - apply run_steps_in64; [exact fixed_steps_ok|exact in64_5].
  - exact mix_flip_5.
  - exact mix_flip_9.
Qed.

(* the collision survives any common prefix and suffix of further words *)
Corollary hash_words_seed_independent_collision_ctx seed pre post :
  in64 seed ->
  hash_words fixed_steps fold_mult seed (pre ++ 5 :: 9 :: post) =
  hash_words fixed_steps fold_mult seed
    (pre ++ 5987515076937770397 :: -1928796979971312683 :: post).
Proof.
  intros Hseed. apply hash_words_sign_flip_collision.
  - reflexivity.
  - exact Hseed.
  - apply run_steps_in64; [exact fixed_steps_ok|exact in64_5].
  - exact mix_flip_5.
  - exact mix_flip_9.
Qed.

(* the colliding states are distinct 64-bit words, so this does not contradict
   [hash_words_one_word_diff]: they differ in two words *)
Lemma collision_states_distinct :
  [5; 9] <> [5987515076937770397; -1928796979971312683].
Proof. discriminate. Qed.

Print Assumptions run_steps_in64.
Print Assumptions xorshr_injective.
Print Assumptions mulc_injective.
Print Assumptions run_steps_injective.
Print Assumptions hash_words_one_word_diff.
Print Assumptions xorsar_complement_collision.
Print Assumptions sar_steps_not_injective.
Print Assumptions hash_rows_chunked_eq.
Print Assumptions hash_dot_not_seed_independent.
Print Assumptions hash_words_sign_flip_collision.
Print Assumptions hash_words_seed_independent_collision.
