(** Concrete graph instances: what a CayleyGraph object is to the algorithms.
    States are kept in DECODED flat form (list Z); the hash is the hash of the encoded row. *)
From Coq Require Import ZArith List Bool Arith Lia.
From V Require Import Base W64 Tensor Perm Codec Hash Matrix.
Import ListNotations.
Open Scope Z_scope.

Definition state := list Z.

Record impl := {
  acts : list (state -> state);       (* generator i on a decoded state *)
  hashf : state -> Z;                 (* hasher.make_hashes(encode_states(s)) *)
  is_identity : bool;                 (* hasher.is_identity (encoded state is one word) *)
  unword : Z -> state;                (* identity hash only: the state whose code word is h *)
  inv_closed : bool;                  (* definition.generators_inverse_closed *)
  central : state;
}.

Definition n_gens (G : impl) : nat := length (acts G).

(* CayleyGraph.get_neighbors: generator-major *)
Definition get_neighbors (G : impl) (states : list state) : list state :=
  flat_map (fun g => map g states) (acts G).

Definition hashes (G : impl) (states : list state) : list Z := map (hashf G) states.

(* CayleyGraph.get_unique_states(states, hashes) *)
Definition get_unique_states (G : impl) (states : list state) (hs : list Z) : list state * list Z :=
  if is_identity G then
    let u := unique_sorted hs in (map (unword G) u, u)
  else
    let srt := stable_sort snd (combine states hs) in
    let u := dedup_adjacent snd srt in
    (map fst u, map snd u).

(* ---- graph descriptions used by the correspondence harness ---- *)
Inductive gkind := GPerm (perms : list (list nat)) | GMatrix (modulo : Z) (n m : nat) (mats : list (list (list Z))).

Record gdesc := {
  g_kind : gkind;
  g_central : list Z;
  g_width : option nat;               (* bit_encoding_width after 'auto' resolution; None = un-encoded *)
  g_hasher : hasher;
  g_inv_closed : bool;
}.

Section WithConsts.
  Variable steps : list mix_step.
  Variable mult : Z.

  Definition encoded_row (d : gdesc) (s : state) : list Z :=
    match g_kind d, g_width d with
    | GPerm _, Some w => encode w (length (g_central d)) s
    | _, _ => s
    end.

  Definition hasher_is_identity (h : hasher) : bool := match h with HIdentity => true | _ => false end.

  Definition mk_impl (d : gdesc) : impl :=
    {| acts := match g_kind d with
               | GPerm perms => map (fun p => apply_perm 0 p) perms
               | GMatrix modulo n m mats => map (fun M => mat_apply modulo n m M) mats
               end;
       hashf := fun s => make_hash steps mult (g_hasher d) (encoded_row d s);
       is_identity := hasher_is_identity (g_hasher d);
       unword := fun h => match g_kind d, g_width d with
                          | GPerm _, Some w => decode w (length (g_central d)) [h]
                          | _, _ => [h]
                          end;
       inv_closed := g_inv_closed d;
       central := g_central d |}.
End WithConsts.
