(** C19: the Hamming heuristic counts mismatches; scoring is batch-independent. *)
From Coq Require Import ZArith List Bool Arith Lia.
From V Require Import Base Tensor TensorProofs Predictor.
Import ListNotations.
Open Scope Z_scope.

(* the mathematical count of differing positions *)
Definition mismatches (c s : list Z) : nat :=
  length (filter (fun '(a, b) => negb (a =? b)) (combine c s)).

Theorem hamming_counts c s : hamming c s = Z.of_nat (mismatches c s).
Proof.
  unfold mismatches. revert s; induction c as [|a c IH]; intros [|b s]; try reflexivity.
  cbn [hamming combine filter]. rewrite IH. destruct (a =? b); cbn [negb length]; lia.
Qed.

Lemma hamming_nonneg c s : 0 <= hamming c s.
Proof. rewrite hamming_counts. lia. Qed.

Theorem hamming_zero_iff c s : length s = length c -> (hamming c s = 0 <-> s = c).
Proof.
  revert s; induction c as [|a c IH]; intros [|b s] Hl; simpl in Hl; try discriminate.
  - split; reflexivity.
  - cbn [hamming]. pose proof (hamming_nonneg c s) as Hn.
    destruct (Z.eqb_spec a b) as [->|Hne].
    + rewrite Z.add_0_l, IH by lia. split; [intros ->; reflexivity|intros H; inversion H; reflexivity].
    + split; [lia|intros H; inversion H; congruence].
Qed.

Theorem zero_is_zero states : Forall (fun v => v = 0) (predict_zero states).
Proof. unfold predict_zero. apply Forall_forall. intros v Hv. apply in_map_iff in Hv as (x & <- & _). reflexivity. Qed.

(* any row-wise predictor gives the same values in the same order whatever the batch size *)
Theorem batched_eq (f : list Z -> Z) batch_size states : 1 <= batch_size ->
  predictor_call (map f) batch_size states = map f states.
Proof.
  intros Hb. unfold predictor_call.
  set (nb := Z.to_nat ((Z.of_nat (length states) + batch_size - 1) / batch_size)).
  destruct (1 <? nb)%nat eqn:E; [|reflexivity].
  apply Nat.ltb_lt in E.
  rewrite <- (tensor_split_concat nb states) at 2 by lia.
  rewrite concat_map. reflexivity.
Qed.

Corollary hamming_batched central batch_size states : 1 <= batch_size ->
  predictor_call (predict_hamming central) batch_size states = map (hamming central) states.
Proof. intros H. unfold predict_hamming. apply batched_eq. exact H. Qed.
