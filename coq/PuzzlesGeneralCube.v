(** GENERAL-n structure of the generator lists of Puzzles.rubik_cube(n, metric) for the metrics
    QSTM, QTM and HTM: for EVERY n >= 2 the constructor succeeds, every generator is a permutation of
    6 n^2 points, the number of generators is 6n / 6*outer_count n / 9*outer_count n and the generator
    list is inverse-closed.  (PuzzlesProofs.v proves this for n = 2..6 by computation: [cube_metrics_ok].)

    Main theorems: [cube_qstm_general], [cube_qtm_general], [cube_htm_general], [cube_metrics_general]. *)
From Coq Require Import String Ascii ZArith List Bool Arith Lia DecimalString Sorting.Permutation.
From V Require Import Base Perm PermProofs Puzzles PuzzlesProofs CubeGeneral CubeGeneralMoves PuzzlesGeneralCommon.
Import ListNotations.
Local Open Scope list_scope.
Local Open Scope nat_scope.

(* ====================================================================================== *)
(** * the central state *)

Lemma cube_central_length n : length (cube_central n) = 6 * (n * n).
Proof.
  unfold cube_central. rewrite (flat_map_length_const _ (n * n)); [rewrite seq_length; lia|].
  intros x _. apply repeat_length.
Qed.

Lemma cube_central_lt n v : 0 < n -> In v (cube_central n) -> v < 6 * (n * n).
Proof.
  intros Hn H. unfold cube_central in H. apply in_flat_map in H as (c & Hc & Hv).
  apply repeat_spec in Hv. subst v. apply in_seq in Hc. nia.
Qed.

(* ====================================================================================== *)
(** * the layer turns that survive the QTM / HTM filter *)

Definition CubeTurn (n : nat) (kv : string * list nat) : Prop :=
  exists t i, i < n /\ kv = (mname t i, move_perm n t (src n t i)).

Lemma CubeTurn_canonical n kv : In kv (canonical n) -> CubeTurn n kv.
Proof.
  destruct kv as [nm p]. intros H. apply In_canonical in H as (t & i & Hi & -> & ->). exists t, i. auto.
Qed.

Lemma CubeTurn_facts n kv : 2 <= n -> CubeTurn n kv ->
  length (snd kv) = 6 * (n * n) /\ Perm (snd kv) /\ Order4 (snd kv) /\
  has_sub2 "^"%char "2"%char (fst kv) = false.
Proof.
  intros Hn (t & i & Hi & ->). cbn [fst snd]. pose proof (src_lt n t i Hi) as Hs.
  split; [apply move_perm_length; assumption|]. split; [apply move_perm_Perm; assumption|].
  split; [apply move_perm_Order4; assumption|].
  apply has_sub2_needs_first. rewrite mname_cons. cbn [has_char].
  rewrite has_char_hat_str_of_nat. destruct t; reflexivity.
Qed.

Definition noncentre (n : nat) (kv : string * list nat) : bool := negb (is_center n (fst kv)).
Definition outer_moves (n : nat) : list (string * list nat) := filter (noncentre n) (canonical n).

Lemma outer_moves_turn n kv : In kv (outer_moves n) -> CubeTurn n kv.
Proof. intros H. apply filter_In in H as [H _]. apply CubeTurn_canonical. exact H. Qed.

Lemma count_noncentre n : 2 <= n ->
  length (filter (fun i => negb (Nat.odd n && (i =? (n - 1) / 2))) (seq 0 n)) = outer_count n.
Proof.
  intros Hn. unfold outer_count. destruct (Nat.odd n); cbn [andb].
  - rewrite (filter_remove_one Nat.eqb ((n - 1) / 2) (seq 0 n)).
    + rewrite seq_length. reflexivity.
    + intros a b. apply Nat.eqb_eq.
    + apply seq_NoDup.
    + apply in_seq. split; [lia|]. cbn [Nat.add]. apply Nat.div_lt_upper_bound; lia.
  - rewrite filter_all; [apply seq_length|]. intros x Hx; reflexivity.
Qed.

Lemma outer_moves_length n : 2 <= n -> length (outer_moves n) = 3 * outer_count n.
Proof.
  intros Hn. unfold outer_moves, canonical. rewrite filter_map_comm, map_length.
  unfold ordered. cbn [list_prod]. rewrite !filter_app, !app_length. cbn [filter length].
  rewrite !filter_map_comm, !map_length.
  assert (forall t, length (filter (fun y => noncentre n (canon_entry n (t, y))) (seq 0 n)) = outer_count n) as E.
  { intros t. rewrite <- (count_noncentre n Hn). f_equal. apply filter_ext. intros i.
    unfold noncentre, canon_entry, is_center. cbn [fst snd]. rewrite name_index_mname. reflexivity. }
  rewrite !E. lia.
Qed.

Lemma outer_count_pos n : 2 <= n -> 0 < outer_count n.
Proof. intros Hn. unfold outer_count. destruct (Nat.odd n); lia. Qed.

Lemma outer_moves_nonempty n : 2 <= n -> outer_moves n <> [].
Proof.
  intros Hn E. pose proof (outer_moves_length n Hn) as H. rewrite E in H. cbn [length] in H.
  pose proof (outer_count_pos n Hn). lia.
Qed.

Lemma outer_moves_keys_NoDup n : NoDup (map fst (outer_moves n)).
Proof.
  unfold outer_moves. apply NoDup_map_filter. unfold canonical. rewrite map_map. apply NoDup_names.
Qed.

(* ====================================================================================== *)
(** * generator lists "every move with its inverse" (QSTM, QTM) *)

Lemma with_inverses_structure N suffix moves central name :
  moves <> [] -> (forall kv, In kv moves -> length (snd kv) = N /\ Perm (snd kv)) ->
  length central = N -> (forall v, In v central -> v < N) -> 0 < N ->
  GensStructure N (2 * length moves)
    (let '(g, nm) := with_inverses suffix moves in create_def g nm central name).
Proof.
  intros Hne Hm Hc Hv HN. unfold with_inverses. cbv beta iota.
  set (G := flat_map (fun kv : string * list nat => [snd kv; inverse_perm (snd kv)]) moves).
  assert (length G = 2 * length moves) as HL by (apply flat_map_length_const; intros x Hx; reflexivity).
  rewrite <- HL. apply create_def_GensStructure; try assumption.
  - intros E. rewrite E in HL. destruct moves; [congruence|cbn in HL; lia].
  - intros g Hg. apply in_flat_map in Hg as (kv & Hkv & Hin). destruct (Hm kv Hkv) as [H1 H2].
    destruct Hin as [<-|[<-|[]]]; [auto|]. split; [rewrite inverse_perm_length; exact H1|apply inverse_is_perm; exact H2].
  - rewrite HL. apply flat_map_length_const. intros x Hx; reflexivity.
  - assert (G = flat_map (fun p => [p; inverse_perm p]) (map snd moves)) as ->.
    { unfold G. rewrite flat_map_concat_map, flat_map_concat_map, map_map. reflexivity. }
    apply InverseClosed_with_inverses. intros p Hp. apply in_map_iff in Hp as (kv & <- & Hkv). apply (Hm kv Hkv).
Qed.

Lemma Z_of_nat_small n : 2 <= n -> (Z.of_nat n <? 2)%Z = false.
Proof. intros Hn. apply Z.ltb_ge. lia. Qed.

(** QSTM: all 3n layer turns and their inverses *)
Theorem cube_qstm_general n : 2 <= n ->
  GensStructure (6 * (n * n)) (6 * n) (rubik_cube (Z.of_nat n) "QSTM").
Proof.
  intros Hn. change (rubik_cube (Z.of_nat n) "QSTM") with (rubik_cube_qstm (Z.of_nat n)).
  unfold rubik_cube_qstm. rewrite Z_of_nat_small by exact Hn. rewrite Nat2Z.id.
  rewrite cube_moves_eq by exact Hn. cbn [bind].
  assert (length (canonical n) = 3 * n) as HL
    by (unfold canonical, ordered; rewrite map_length, prod_length, seq_length; reflexivity).
  replace (6 * n) with (2 * length (canonical n)) by lia.
  apply with_inverses_structure.
  - intros E. rewrite E in HL. cbn in HL. lia.
  - intros kv Hkv. apply CubeTurn_canonical in Hkv. destruct (CubeTurn_facts n kv Hn Hkv) as (H1 & H2 & _). auto.
  - apply cube_central_length.
  - intros v. apply cube_central_lt. lia.
  - nia.
Qed.

(** QTM: the middle layer of an odd cube is not a generator *)
Theorem cube_qtm_general n : 2 <= n ->
  GensStructure (6 * (n * n)) (6 * outer_count n) (rubik_cube (Z.of_nat n) "QTM").
Proof.
  intros Hn. change (rubik_cube (Z.of_nat n) "QTM") with (rubik_cube_qtm (Z.of_nat n)).
  unfold rubik_cube_qtm. rewrite Z_of_nat_small by exact Hn. rewrite Nat2Z.id.
  unfold qtm_moves. rewrite cube_moves_eq by exact Hn. cbn [bind].
  fold (noncentre n). fold (outer_moves n).
  replace (6 * outer_count n) with (2 * length (outer_moves n)) by (rewrite outer_moves_length by exact Hn; lia).
  apply with_inverses_structure.
  - apply outer_moves_nonempty. exact Hn.
  - intros kv Hkv. apply outer_moves_turn in Hkv. destruct (CubeTurn_facts n kv Hn Hkv) as (H1 & H2 & _). auto.
  - apply cube_central_length.
  - intros v. apply cube_central_lt. lia.
  - nia.
Qed.

(* ====================================================================================== *)
(** * HTM: quarter turns, their inverses, and the half turns *)

Definition sq (p : list nat) : list nat := map (fun i => nth (nth i p 0) p 0) (seq 0 (length p)).
Definition htm_key2 (kv : string * list nat) : list string := [fst kv; fst kv +++ "^2"].
Definition htm_entry2 (kv : string * list nat) : list (string * list nat) :=
  [(fst kv, snd kv); (fst kv +++ "^2", sq (snd kv))].
Definition htm_step (d : list (string * list nat)) (kv : string * list nat) :=
  sdict_set (fst kv +++ "^2") (sq (snd kv)) (sdict_set (fst kv) (snd kv) d).

Lemma fold_skip {A S} (c : A -> bool) (G : S -> A -> S) l : forall d,
  fold_left (fun d x => if c x then d else G d x) l d = fold_left G (filter (fun x => negb (c x)) l) d.
Proof.
  induction l as [|a l IH]; intros d; cbn [fold_left filter]; [reflexivity|].
  destruct (c a); cbn [negb fold_left]; apply IH.
Qed.

Lemma htm_fold l : forall d, NoDup (map fst d ++ flat_map htm_key2 l) ->
  fold_left htm_step l d = d ++ flat_map htm_entry2 l.
Proof.
  induction l as [|kv l IH]; intros d ND; cbn [fold_left flat_map]; [rewrite app_nil_r; reflexivity|].
  cbn [flat_map] in ND. unfold htm_key2 at 1 in ND. cbn [app] in ND.
  assert (~ In (fst kv) (map fst d)) as H1.
  { intros Hin. apply NoDup_remove_2 in ND. apply ND. apply in_or_app. left; exact Hin. }
  unfold htm_step at 2. rewrite (sdict_set_fresh (fst kv)) by exact H1.
  assert (NoDup (map fst (d ++ [(fst kv, snd kv)]) ++ (fst kv +++ "^2") :: flat_map htm_key2 l)) as ND2.
  { rewrite map_app. cbn [map fst]. rewrite <- app_assoc. exact ND. }
  rewrite sdict_set_fresh.
  2:{ intros Hin. apply NoDup_remove_2 in ND2. apply ND2. apply in_or_app. left; exact Hin. }
  rewrite IH.
  - unfold htm_entry2 at 2. rewrite <- !app_assoc. reflexivity.
  - rewrite map_app. cbn [map fst]. rewrite <- app_assoc. cbn [app].
    exact ND2.
Qed.

Lemma htm_keys_NoDup l :
  NoDup (map fst l) -> (forall kv, In kv l -> has_sub2 "^"%char "2"%char (fst kv) = false) ->
  NoDup (flat_map htm_key2 l).
Proof.
  induction l as [|kv l IH]; intros ND H; cbn [flat_map]; [constructor|].
  cbn [map] in ND. apply NoDup_cons_iff in ND as [Hn ND'].
  assert (forall x, In x (flat_map htm_key2 l) -> exists kv', In kv' l /\ (x = fst kv' \/ x = (fst kv' +++ "^2")%string)) as Hchar.
  { intros x Hx. apply in_flat_map in Hx as (kv' & Hkv' & Hin). exists kv'. split; [exact Hkv'|].
    destruct Hin as [<-|[<-|[]]]; auto. }
  pose proof (H kv (or_introl eq_refl)) as Hkv.
  unfold htm_key2 at 1. cbn [app]. constructor; [|constructor].
  - intros [E|Hin].
    + rewrite <- E in Hkv. rewrite has_sub2_append_hat2 in Hkv. discriminate.
    + apply Hchar in Hin as (kv' & Hkv' & [E|E]).
      * apply Hn. rewrite E. apply in_map. exact Hkv'.
      * rewrite E in Hkv. rewrite has_sub2_append_hat2 in Hkv. discriminate.
  - intros Hin. apply Hchar in Hin as (kv' & Hkv' & [E|E]).
    + pose proof (H kv' (or_intror Hkv')) as Hk'. rewrite <- E in Hk'. rewrite has_sub2_append_hat2 in Hk'. discriminate.
    + apply append_hat2_inj in E. apply Hn. rewrite E. apply in_map. exact Hkv'.
  - apply IH; [exact ND'|]. intros kv' Hkv'. apply H. right; exact Hkv'.
Qed.

(* get_htm_metric_moves(n), for every n >= 2 *)
Theorem htm_moves_eq n : 2 <= n -> htm_moves n = Ok (flat_map htm_entry2 (outer_moves n)).
Proof.
  intros Hn. unfold htm_moves. rewrite cube_moves_eq by exact Hn. cbn [bind]. f_equal.
  change (fold_left (fun d kv => if is_center n (fst kv) then d else htm_step d kv) (canonical n) []
          = flat_map htm_entry2 (outer_moves n)).
  rewrite (fold_skip (fun kv => is_center n (fst kv)) htm_step).
  fold (noncentre n). fold (outer_moves n). rewrite htm_fold; [reflexivity|].
  cbn [map app]. apply htm_keys_NoDup; [apply outer_moves_keys_NoDup|].
  intros kv Hkv. apply outer_moves_turn in Hkv. apply (CubeTurn_facts n kv Hn Hkv).
Qed.

Definition htm_triple (kv : string * list nat) : list (list nat) :=
  [snd kv; inverse_perm (snd kv); compose (snd kv) (snd kv)].

Lemma htm_gens_eq l : (forall kv, In kv l -> has_sub2 "^"%char "2"%char (fst kv) = false) ->
  flat_map (fun kv => if negb (has_sub2 "^"%char "2"%char (fst kv)) then [snd kv; inverse_perm (snd kv)] else [snd kv])
           (flat_map htm_entry2 l)
  = flat_map htm_triple l.
Proof.
  intros H. rewrite flat_map_flat_map. apply flat_map_ext_in. intros kv Hkv.
  unfold htm_entry2, htm_triple. cbn [flat_map fst snd]. rewrite (H kv Hkv), has_sub2_append_hat2.
  cbn [negb app]. unfold sq. rewrite square_as_compose. reflexivity.
Qed.

Lemma htm_triple_closed l : (forall kv, In kv l -> Perm (snd kv) /\ Order4 (snd kv)) ->
  InverseClosed (flat_map htm_triple l).
Proof.
  intros H g Hg. apply in_flat_map in Hg as (kv & Hkv & Hin). destruct (H kv Hkv) as [HP HO].
  apply in_flat_map. exists kv. split; [exact Hkv|]. unfold htm_triple in *.
  destruct Hin as [<-|[<-|[<-|[]]]].
  - right; left; reflexivity.
  - left. symmetry. apply inverse_involutive. exact HP.
  - right; right; left. symmetry. apply involution_inverse.
    + apply compose_is_perm; auto.
    + apply Order4_square_involution; assumption.
Qed.

Theorem cube_htm_general n : 2 <= n ->
  GensStructure (6 * (n * n)) (9 * outer_count n) (rubik_cube (Z.of_nat n) "HTM").
Proof.
  intros Hn. change (rubik_cube (Z.of_nat n) "HTM") with (rubik_cube_htm (Z.of_nat n)).
  unfold rubik_cube_htm. rewrite Z_of_nat_small by exact Hn. rewrite Nat2Z.id.
  rewrite htm_moves_eq by exact Hn. cbn [bind].
  assert (forall kv, In kv (outer_moves n) ->
            length (snd kv) = 6 * (n * n) /\ Perm (snd kv) /\ Order4 (snd kv) /\
            has_sub2 "^"%char "2"%char (fst kv) = false) as HF.
  { intros kv Hkv. apply outer_moves_turn in Hkv. apply (CubeTurn_facts n kv Hn Hkv). }
  rewrite htm_gens_eq by (intros kv Hkv; apply (HF kv Hkv)).
  set (G := flat_map htm_triple (outer_moves n)).
  assert (length G = 9 * outer_count n) as HL.
  { unfold G. rewrite (flat_map_length_const _ 3) by (intros x Hx; reflexivity).
    rewrite outer_moves_length by exact Hn. lia. }
  rewrite <- HL. apply create_def_GensStructure.
  - intros E. rewrite E in HL. cbn in HL. pose proof (outer_count_pos n Hn). lia.
  - intros g Hg. apply in_flat_map in Hg as (kv & Hkv & Hin). destruct (HF kv Hkv) as (H1 & H2 & _).
    unfold htm_triple in Hin. destruct Hin as [<-|[<-|[<-|[]]]].
    + auto.
    + split; [rewrite inverse_perm_length; exact H1|apply inverse_is_perm; exact H2].
    + split; [rewrite compose_length; exact H1|apply compose_is_perm; auto].
  - unfold G. rewrite <- (htm_gens_eq (outer_moves n)) by (intros kv Hkv; apply (HF kv Hkv)).
    apply flat_map_length_same. intros kv _. destruct (negb (has_sub2 "^" "2" (fst kv))); reflexivity.
  - apply cube_central_length.
  - intros v. apply cube_central_lt. lia.
  - nia.
  - apply htm_triple_closed. intros kv Hkv. destruct (HF kv Hkv) as (_ & H2 & H3 & _). auto.
Qed.

(** The statement [CubeMetricsStructure n] that PuzzlesProofs.v establishes for n = 2..6 by computation
    ([cube_metrics_ok]), for ALL n >= 2. *)
Theorem cube_metrics_general n : 2 <= n -> CubeMetricsStructure n.
Proof.
  intros Hn. unfold CubeMetricsStructure. cbv zeta.
  split; [apply cube_qstm_general; exact Hn|]. split; [apply cube_qtm_general|apply cube_htm_general]; exact Hn.
Qed.

(* below 2 every metric raises: the theorems cover the whole domain *)
Theorem cube_metrics_small size : (size < 2)%Z ->
  rubik_cube size "QSTM" = Err AssertionErr /\ rubik_cube size "QTM" = Err ValueErr /\
  rubik_cube size "HTM" = Err ValueErr.
Proof.
  intros H. apply Z.ltb_lt in H.
  change (rubik_cube size "QSTM") with (rubik_cube_qstm size).
  change (rubik_cube size "QTM") with (rubik_cube_qtm size).
  change (rubik_cube size "HTM") with (rubik_cube_htm size).
  unfold rubik_cube_qstm, rubik_cube_qtm, rubik_cube_htm. rewrite H. auto.
Qed.

(* ---------- validation against the model and non-vacuity ---------- *)
Example ex_htm_moves_eq : htm_moves 3 = Ok (flat_map htm_entry2 (outer_moves 3)) /\ length (outer_moves 3) = 6
  /\ htm_moves 4 = Ok (flat_map htm_entry2 (outer_moves 4)) /\ length (outer_moves 4) = 12.
Proof. vm_compute. auto. Qed.

Example ex_cube_turn : CubeTurn 3 (mname MR 0, move_perm 3 MR 2) /\ In (mname MR 0, move_perm 3 MR 2) (outer_moves 3).
Proof. split; [exists MR, 0; split; [lia|reflexivity]|vm_compute; auto 10]. Qed.

Example ex_with_inverses_structure :
  let moves := [("a"%string, [1; 2; 0; 3])] in
  moves <> [] /\ (forall kv, In kv moves -> length (snd kv) = 4 /\ Perm (snd kv)) /\
  gens_ok 4 2 (let '(g, nm) := with_inverses "'" moves in create_def g nm (seq 0 4) "") = true.
Proof.
  cbv zeta. split; [discriminate|]. split; [|reflexivity].
  intros kv [<-|[]]. split; [reflexivity|apply is_perm_iff; reflexivity].
Qed.

Example ex_htm_keys : NoDup (map fst (outer_moves 3)) /\
  (forall kv, In kv (outer_moves 3) -> has_sub2 "^"%char "2"%char (fst kv) = false).
Proof.
  split; [apply outer_moves_keys_NoDup|]. intros kv Hkv. apply outer_moves_turn in Hkv.
  apply (CubeTurn_facts 3 kv); [lia|exact Hkv].
Qed.

(* the general theorem agrees with the bounded check where both apply *)
Example ex_cube_metrics_5 : CubeMetricsStructure 5 /\ cube_metrics_ok 5 = true.
Proof. split; [apply cube_metrics_general; lia|vm_compute; reflexivity]. Qed.

Print Assumptions cube_qstm_general.
Print Assumptions cube_qtm_general.
Print Assumptions htm_moves_eq.
Print Assumptions cube_htm_general.
Print Assumptions cube_metrics_general.
Print Assumptions cube_metrics_small.
