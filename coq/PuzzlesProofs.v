(** Bounded structure theorems for the generated puzzles of Puzzles.v (cube, Hungarian rings, globe).

    Part 1: boolean checkers on permutations (one-line notation, [list nat]) and their MEANING lemmas,
            proved for all inputs.
    Part 2: cube      : [cube_ok], [cube_ok_meaning], [cube_structure_upto_6].
    Part 3: rings     : [rings_ok], [rings_ok_meaning], [rings_structure_upto_12].
    Part 4: globe     : [globe_ok], [globe_ok_meaning], [globe_structure_upto_6].
    Part 5: (stretch) general theorems, all parameters: [circular_shift_nth], [help_cyclic_*].

    Convention (Perm.v): [compose p q = apply_perm p q], i.e. (compose p q)[i] = q[p[i]].
    [pstep p x = nth x p 0] is "the image of point x". *)
From Coq Require Import String Ascii ZArith List Bool Arith Lia Sorting.Mergesort Sorting.Permutation Sorting.Sorted.
From V Require Import Base Perm PermProofs Puzzles.
Import ListNotations.
Local Open Scope list_scope.
Local Open Scope nat_scope.

(* ====================================================================================== *)
(** * Part 1: checkers and their meaning *)

Definition pstep (p : list nat) (x : nat) : nat := nth x p 0.

Lemma compose_length p q : length (compose p q) = length p.
Proof. unfold compose. apply apply_perm_length. Qed.

Lemma compose_nth p q i : i < length p -> nth i (compose p q) 0 = pstep q (pstep p i).
Proof. intros Hi. unfold compose, pstep. apply nth_apply_perm. exact Hi. Qed.

(** ** list equality on nat / Z / string *)
Lemma nat_list_eqb_eq l1 l2 : nat_list_eqb l1 l2 = true <-> l1 = l2.
Proof. apply list_eqb_nat_true. Qed.

Lemma nat_list_eqb_neq l1 l2 : nat_list_eqb l1 l2 = false <-> l1 <> l2.
Proof.
  split.
  - intros Hf He. apply nat_list_eqb_eq in He. congruence.
  - intros Hn. destruct (nat_list_eqb l1 l2) eqn:E; auto. apply nat_list_eqb_eq in E. contradiction.
Qed.

Lemma list_eqb_eq {A} (eqb : A -> A -> bool) :
  (forall a b, eqb a b = true <-> a = b) -> forall l1 l2, list_eqb eqb l1 l2 = true <-> l1 = l2.
Proof.
  intros Heq. induction l1 as [|a t IH]; intros [|b t2]; simpl; split; intros H; try discriminate; auto.
  - apply andb_true_iff in H as [H1 H2]. apply Heq in H1. apply IH in H2. congruence.
  - inversion H; subst. apply andb_true_iff. split; [apply Heq; reflexivity|apply IH; reflexivity].
Qed.

Lemma z_list_eqb_eq l1 l2 : z_list_eqb l1 l2 = true <-> l1 = l2.
Proof. apply list_eqb_eq. intros a b. apply Z.eqb_eq. Qed.

Lemma str_list_eqb_eq l1 l2 : list_eqb String.eqb l1 l2 = true <-> l1 = l2.
Proof. apply list_eqb_eq. intros a b. apply String.eqb_eq. Qed.

(** ** order 4 *)
Definition Order4 (p : list nat) : Prop :=
  compose p (compose p (compose p p)) = identity_perm (length p) /\
  compose p p <> identity_perm (length p).

Definition perm_order4 (p : list nat) : bool :=
  nat_list_eqb (compose p (compose p (compose p p))) (identity_perm (length p))
  && negb (nat_list_eqb (compose p p) (identity_perm (length p))).

Lemma perm_order4_meaning p : perm_order4 p = true <-> Order4 p.
Proof.
  unfold perm_order4, Order4. rewrite andb_true_iff, negb_true_iff, nat_list_eqb_eq, nat_list_eqb_neq.
  reflexivity.
Qed.

(* pointwise reading of the first half of Order4 *)
Lemma Order4_pointwise p : Perm p -> Order4 p ->
  forall i, i < length p -> pstep p (pstep p (pstep p (pstep p i))) = i.
Proof.
  intros HP [H4 _] i Hi.
  assert (nth i (compose p (compose p (compose p p))) 0 = i) as E.
  { rewrite H4. unfold identity_perm. rewrite seq_nth by exact Hi. reflexivity. }
  rewrite compose_nth in E by exact Hi.
  assert (pstep p i < length p) as H1 by (apply Perm_lt; assumption).
  unfold pstep at 1 in E. rewrite compose_nth in E by exact H1.
  assert (pstep p (pstep p i) < length p) as H2 by (apply Perm_lt; assumption).
  unfold pstep at 1 in E. rewrite compose_nth in E by exact H2.
  exact E.
Qed.

(** ** involution *)
Definition Involution (p : list nat) : Prop := compose p p = identity_perm (length p).
Definition involution (p : list nat) : bool := nat_list_eqb (compose p p) (identity_perm (length p)).
Lemma involution_meaning p : involution p = true <-> Involution p.
Proof. unfold involution, Involution. apply nat_list_eqb_eq. Qed.

(** ** moved points / support *)
Definition Moved (p : list nat) (x : nat) : Prop := x < length p /\ pstep p x <> x.

Fixpoint supp_from (k : nat) (p : list nat) : list nat :=
  match p with
  | [] => []
  | v :: t => if v =? k then supp_from (S k) t else k :: supp_from (S k) t
  end.
(* the moved points in increasing order; one linear pass *)
Definition support (p : list nat) : list nat := supp_from 0 p.
Definition moved_count (p : list nat) : nat := length (support p).

Lemma supp_from_filter p : forall k,
  supp_from k p = filter (fun i => negb (nth (i - k) p 0 =? i)) (seq k (length p)).
Proof.
  induction p as [|v t IH]; intros k; simpl; [reflexivity|].
  rewrite Nat.sub_diag. rewrite IH.
  assert (filter (fun i => negb (nth (i - S k) t 0 =? i)) (seq (S k) (length t)) =
          filter (fun i => negb (match i - k with 0 => v | S m => nth m t 0 end =? i)) (seq (S k) (length t))) as E.
  { apply filter_ext_in. intros i Hi. apply in_seq in Hi.
    replace (i - k) with (S (i - S k)) by lia. reflexivity. }
  rewrite <- E. destruct (v =? k); reflexivity.
Qed.

Lemma support_filter p :
  support p = filter (fun i => negb (pstep p i =? i)) (seq 0 (length p)).
Proof.
  unfold support. rewrite supp_from_filter. apply filter_ext. intros i. rewrite Nat.sub_0_r. reflexivity.
Qed.

(* moved_count p is the number of i with p[i] <> i *)
Lemma moved_count_meaning p :
  moved_count p = length (filter (fun i => negb (pstep p i =? i)) (seq 0 (length p))).
Proof. unfold moved_count. rewrite support_filter. reflexivity. Qed.

Lemma In_support p x : In x (support p) <-> Moved p x.
Proof.
  rewrite support_filter, filter_In, in_seq, negb_true_iff, Nat.eqb_neq. unfold Moved. split.
  - intros [[_ H1] H2]. split; [lia|exact H2].
  - intros [H1 H2]. split; [lia|exact H2].
Qed.

Lemma support_NoDup p : NoDup (support p).
Proof. rewrite support_filter. apply NoDup_filter. apply seq_NoDup. Qed.

Lemma moved_count_NoDup_list p l :
  NoDup l -> (forall x, In x l <-> Moved p x) -> length l = moved_count p.
Proof.
  intros ND H. unfold moved_count. apply Nat.le_antisymm.
  - apply NoDup_incl_length; [exact ND|]. intros x Hx. apply In_support. apply H. exact Hx.
  - apply NoDup_incl_length; [apply support_NoDup|]. intros x Hx. apply H. apply In_support. exact Hx.
Qed.

(** ** commuting *)
Definition commute (p q : list nat) : bool := nat_list_eqb (compose p q) (compose q p).
Lemma commute_meaning p q : commute p q = true <-> compose p q = compose q p.
Proof. apply nat_list_eqb_eq. Qed.

(** ** disjoint supports (one simultaneous pass) *)
Definition DisjointSupp (p q : list nat) : Prop := forall x, ~ (Moved p x /\ Moved q x).

Fixpoint disj_from (k : nat) (p q : list nat) : bool :=
  match p, q with
  | a :: p', b :: q' => ((a =? k) || (b =? k)) && disj_from (S k) p' q'
  | _, _ => true
  end.
Definition disjoint_supp (p q : list nat) : bool := disj_from 0 p q.

Lemma disj_from_spec p : forall q k, disj_from k p q = true ->
  forall i, i < length p -> i < length q -> nth i p 0 = k + i \/ nth i q 0 = k + i.
Proof.
  induction p as [|a p' IH]; intros q k H i Hp Hq; simpl in Hp; [lia|].
  destruct q as [|b q']; simpl in Hq; [lia|].
  simpl in H. apply andb_true_iff in H as [H1 H2]. apply orb_true_iff in H1.
  destruct i as [|i'].
  - simpl. rewrite Nat.add_0_r. destruct H1 as [H1|H1]; apply Nat.eqb_eq in H1; auto.
  - simpl. replace (k + S i') with (S k + i') by lia. apply (IH q' (S k) H2 i'); lia.
Qed.

Lemma disjoint_supp_meaning p q : disjoint_supp p q = true -> DisjointSupp p q.
Proof.
  intros H x [[Hp Hpx] [Hq Hqx]]. unfold disjoint_supp in H.
  destruct (disj_from_spec p q 0 H x Hp Hq) as [E|E]; simpl in E; unfold pstep in *; congruence.
Qed.

(** ** single cycle of a given length *)
Definition SingleCycle (p : list nat) (len : nat) : Prop :=
  2 <= len /\
  exists c, length c = len /\ NoDup c /\
    (forall i, i < len -> pstep p (nth i c 0) = nth ((i + 1) mod len) c 0) /\
    (forall x, In x c <-> Moved p x).

Fixpoint orbit (p : list nat) (x : nat) (len : nat) : list nat :=
  match len with 0 => [] | S l => x :: orbit p (pstep p x) l end.

Definition single_cycle_of_length (p : list nat) (len : nat) : bool :=
  (2 <=? len) &&
  match support p with
  | [] => false
  | x :: _ =>
      let o := orbit p x len in
      nat_list_eqb (NatSort.sort o) (support p) && (pstep p (nth (len - 1) o 0) =? x)
  end.

Lemma orbit_length p : forall len x, length (orbit p x len) = len.
Proof. induction len as [|l IH]; intros x; simpl; auto. Qed.

Lemma orbit_hd p len x : 0 < len -> nth 0 (orbit p x len) 0 = x.
Proof. destruct len; simpl; [lia|reflexivity]. Qed.

Lemma orbit_step p : forall len x i, S i < len ->
  nth (S i) (orbit p x len) 0 = pstep p (nth i (orbit p x len) 0).
Proof.
  induction len as [|l IH]; intros x i Hi; [lia|].
  cbn [orbit]. destruct i as [|j].
  - cbn [nth]. apply orbit_hd. lia.
  - change (nth (S (S j)) (x :: orbit p (pstep p x) l) 0) with (nth (S j) (orbit p (pstep p x) l) 0).
    change (nth (S j) (x :: orbit p (pstep p x) l) 0) with (nth j (orbit p (pstep p x) l) 0).
    apply IH. lia.
Qed.

Lemma single_cycle_meaning p len : single_cycle_of_length p len = true -> SingleCycle p len.
Proof.
  unfold single_cycle_of_length. intros H. apply andb_true_iff in H as [Hlen H].
  apply Nat.leb_le in Hlen. split; [exact Hlen|].
  destruct (support p) as [|x s'] eqn:Hs; [discriminate|].
  apply andb_true_iff in H as [Hsort Hclose]. apply nat_list_eqb_eq in Hsort. apply Nat.eqb_eq in Hclose.
  set (o := orbit p x len) in *.
  assert (Permutation o (support p)) as HP.
  { rewrite Hs, <- Hsort. apply NatSort.Permuted_sort. }
  exists o. split; [apply orbit_length|]. split.
  { eapply Permutation_NoDup; [apply Permutation_sym; exact HP|apply support_NoDup]. }
  split.
  - intros i Hi. destruct (Nat.eq_dec (S i) len) as [E|NE].
    + replace (i + 1) with len by lia. rewrite Nat.mod_same by lia.
      unfold o at 2. rewrite orbit_hd by lia. replace i with (len - 1) by lia. exact Hclose.
    + rewrite Nat.mod_small by lia. replace (i + 1) with (S i) by lia.
      unfold o. symmetry. apply orbit_step. lia.
  - intros y. rewrite <- In_support. split; intros Hy.
    + eapply Permutation_in; [exact HP|exact Hy].
    + eapply Permutation_in; [apply Permutation_sym; exact HP|exact Hy].
Qed.

(* consequence: the number of moved points of a single cycle is its length *)
Lemma SingleCycle_moved_count p len : SingleCycle p len -> moved_count p = len.
Proof.
  intros [_ [c [Hl [ND [_ Hin]]]]]. rewrite <- Hl. symmetry. apply moved_count_NoDup_list; assumption.
Qed.

(** ** distance along a cycle *)
Fixpoint piter (p : list nat) (k x : nat) : nat :=
  match k with 0 => x | S k' => piter p k' (pstep p x) end.

Lemma iter_shift {A} (f : A -> A) k x : Nat.iter k f (f x) = f (Nat.iter k f x).
Proof. induction k as [|k IH]; simpl; [reflexivity|]. rewrite IH. reflexivity. Qed.

Lemma piter_iter p k : forall x, piter p k x = Nat.iter k (pstep p) x.
Proof. induction k as [|k IH]; intros x; simpl; [reflexivity|]. rewrite IH. apply iter_shift. Qed.

(* b is reached from a after exactly k steps of p and not earlier *)
Definition DistIs (p : list nat) (a b k : nat) : Prop :=
  piter p k a = b /\ forall j, j < k -> piter p j a <> b.

Fixpoint dist_from (fuel : nat) (p : list nat) (x b k : nat) : option nat :=
  match fuel with
  | 0 => None
  | S f => if x =? b then Some k else dist_from f p (pstep p x) b (S k)
  end.
Definition cyc_dist (p : list nat) (a b : nat) : option nat := dist_from (S (length p)) p a b 0.
Definition dist_is (p : list nat) (a b k : nat) : bool :=
  match cyc_dist p a b with Some d => d =? k | None => false end.

Lemma dist_from_spec p b : forall fuel x k r, dist_from fuel p x b k = Some r ->
  exists d, r = k + d /\ DistIs p x b d.
Proof.
  induction fuel as [|f IH]; intros x k r H; simpl in H; [discriminate|].
  destruct (x =? b) eqn:E.
  - apply Nat.eqb_eq in E. inversion H; subst. exists 0. split; [lia|]. split; [reflexivity|]. intros j Hj. lia.
  - apply Nat.eqb_neq in E. destruct (IH _ _ _ H) as [d [Hr [Hd Hmin]]].
    exists (S d). split; [lia|]. split; [exact Hd|].
    intros [|j] Hj; simpl; [exact E|]. apply Hmin. lia.
Qed.

Lemma dist_is_meaning p a b k : dist_is p a b k = true -> DistIs p a b k.
Proof.
  unfold dist_is, cyc_dist. destruct (dist_from (S (length p)) p a b 0) as [d|] eqn:E; [|discriminate].
  intros H. apply Nat.eqb_eq in H. subst d.
  destruct (dist_from_spec _ _ _ _ _ _ E) as [d [Hk Hd]]. simpl in Hk. subst d. exact Hd.
Qed.

(** ** inverse-closed generator lists *)
Definition InverseClosed (gens : list (list nat)) : Prop :=
  forall g, In g gens -> In (inverse_perm g) gens.

Definition inverse_closed (gens : list (list nat)) : bool :=
  forallb (fun g => let ig := inverse_perm g in existsb (nat_list_eqb ig) gens) gens.

Lemma existsb_nat_list_eqb_In a l : existsb (nat_list_eqb a) l = true <-> In a l.
Proof.
  rewrite existsb_exists. split.
  - intros [x [Hx E]]. apply nat_list_eqb_eq in E. subst. exact Hx.
  - intros H. exists a. split; [exact H|apply nat_list_eqb_eq; reflexivity].
Qed.

Lemma inverse_closed_meaning gens : inverse_closed gens = true <-> InverseClosed gens.
Proof.
  unfold inverse_closed, InverseClosed. rewrite forallb_forall. split; intros H g Hg.
  - apply existsb_nat_list_eqb_In. apply (H g Hg).
  - apply existsb_nat_list_eqb_In. apply (H g Hg).
Qed.

(* what inverse_perm means for a permutation: it undoes p under compose, both ways *)
Lemma InverseClosed_inverse gens g : InverseClosed gens -> Perm g -> In g gens ->
  exists h, In h gens /\ compose g h = identity_perm (length g) /\ compose h g = identity_perm (length g).
Proof.
  intros HC HP Hg. exists (inverse_perm g). split; [apply HC; exact Hg|]. split.
  - apply compose_inverse_r. exact HP.
  - apply compose_inverse_l. exact HP.
Qed.

(** ** all ordered pairs of a list *)
Fixpoint all_pairs {A} (f : A -> A -> bool) (l : list A) : bool :=
  match l with [] => true | a :: t => forallb (f a) t && all_pairs f t end.

Lemma all_pairs_meaning {A} (f : A -> A -> bool) l :
  all_pairs f l = true <-> ForallOrdPairs (fun a b => f a b = true) l.
Proof.
  induction l as [|a t IH]; simpl.
  - split; intros _; [constructor|reflexivity].
  - rewrite andb_true_iff, IH, forallb_forall, <- Forall_forall. split.
    + intros [H1 H2]. constructor; assumption.
    + intros H. inversion H; subst. split; assumption.
Qed.

Lemma ForallOrdPairs_impl {A} (R1 R2 : A -> A -> Prop) l :
  (forall a b, R1 a b -> R2 a b) -> ForallOrdPairs R1 l -> ForallOrdPairs R2 l.
Proof.
  intros HI H. induction H as [|a t HF HO IH]; constructor; auto.
  eapply Forall_impl; [|exact HF]. intros b Hb. apply HI. exact Hb.
Qed.

(** ** "all entries are permutations of N points" *)
Definition perms_of_size (N : nat) (gens : list (list nat)) : bool :=
  forallb (fun g => (length g =? N) && is_perm g) gens.

Lemma perms_of_size_meaning N gens :
  perms_of_size N gens = true <-> forall g, In g gens -> length g = N /\ Perm g.
Proof.
  unfold perms_of_size. rewrite forallb_forall. split; intros H g Hg.
  - specialize (H g Hg). apply andb_true_iff in H as [H1 H2]. apply Nat.eqb_eq in H1. apply is_perm_iff in H2. auto.
  - destruct (H g Hg) as [H1 H2]. apply andb_true_iff. split; [apply Nat.eqb_eq; exact H1|apply is_perm_iff; exact H2].
Qed.

(** ** cheaper versions of the two list-level checks, proved equivalent to the plain ones.
    [is_perm] sorts with unary comparisons and [inverse_closed] compares every pair of generators
    entry by entry; for the 2184 ATM generators of the 6x6x6 cube that is too slow, so
    membership is filtered by a binary fingerprint first (vm_compute is strict: [a && b] evaluates
    [b] even when [a] is false, hence the explicit [if]). *)
Definition is_perm_inv (p : list nat) : bool :=
  forallb (fun v => v <? length p) p
  && nat_list_eqb (compose p (inverse_perm p)) (identity_perm (length p)).

Lemma is_perm_inv_meaning p : is_perm_inv p = true <-> Perm p.
Proof.
  unfold is_perm_inv. rewrite andb_true_iff, forallb_forall, nat_list_eqb_eq. split.
  - intros [Hlt Hc]. apply NoDup_lt_Perm.
    + apply (proj2 (NoDup_nth p 0)). intros i j Hi Hj E.
      assert (forall k, k < length p -> pstep (inverse_perm p) (pstep p k) = k) as Hk.
      { intros k Hk. rewrite <- compose_nth by exact Hk. rewrite Hc. unfold identity_perm.
        rewrite seq_nth by exact Hk. reflexivity. }
      rewrite <- (Hk i Hi), <- (Hk j Hj). unfold pstep. rewrite E. reflexivity.
    + intros x Hx. apply Nat.ltb_lt. apply Hlt. exact Hx.
  - intros HP. split.
    + intros x Hx. apply Nat.ltb_lt. apply (Perm_In p x HP). exact Hx.
    + apply compose_inverse_r. exact HP.
Qed.

Definition fp (p : list nat) : N :=
  fold_left (fun acc v => N.land (N.shiftl acc 5 + acc + N.of_nat v) 1073741823%N) p 0%N.
Definition fp_table (gens : list (list nat)) : list (N * list nat) := map (fun g => (fp g, g)) gens.
Definition fp_mem (tbl : list (N * list nat)) (h : list nat) : bool :=
  let k := fp h in existsb (fun e => if N.eqb (fst e) k then nat_list_eqb (snd e) h else false) tbl.

Lemma fp_mem_In gens h : fp_mem (fp_table gens) h = true <-> In h gens.
Proof.
  unfold fp_mem, fp_table. rewrite existsb_exists. split.
  - intros [e [He Hc]]. apply in_map_iff in He as [g [Eg Hg]]. subst e. simpl in Hc.
    destruct (N.eqb (fp g) (fp h)); [|discriminate]. apply nat_list_eqb_eq in Hc. subst. exact Hg.
  - intros H. exists (fp h, h). split.
    + apply in_map_iff. exists h. split; [reflexivity|exact H].
    + simpl. rewrite N.eqb_refl. apply nat_list_eqb_eq. reflexivity.
Qed.

Definition inverse_closed_fast (gens : list (list nat)) : bool :=
  let tbl := fp_table gens in forallb (fun g => fp_mem tbl (inverse_perm g)) gens.

Lemma inverse_closed_fast_meaning gens : inverse_closed_fast gens = true <-> InverseClosed gens.
Proof.
  unfold inverse_closed_fast, InverseClosed. cbv zeta. rewrite forallb_forall. split; intros H g Hg.
  - apply fp_mem_In. apply (H g Hg).
  - apply fp_mem_In. apply (H g Hg).
Qed.

Lemma inverse_closed_fast_eq gens : inverse_closed_fast gens = inverse_closed gens.
Proof.
  apply eq_true_iff_eq. rewrite inverse_closed_fast_meaning, inverse_closed_meaning. reflexivity.
Qed.

Definition perms_of_size_fast (N : nat) (gens : list (list nat)) : bool :=
  forallb (fun g => (length g =? N) && is_perm_inv g) gens.

Lemma perms_of_size_fast_meaning N gens :
  perms_of_size_fast N gens = true <-> forall g, In g gens -> length g = N /\ Perm g.
Proof.
  unfold perms_of_size_fast. rewrite forallb_forall. split; intros H g Hg.
  - specialize (H g Hg). apply andb_true_iff in H as [H1 H2]. apply Nat.eqb_eq in H1.
    apply is_perm_inv_meaning in H2. auto.
  - destruct (H g Hg) as [H1 H2]. apply andb_true_iff.
    split; [apply Nat.eqb_eq; exact H1|apply is_perm_inv_meaning; exact H2].
Qed.

(* ====================================================================================== *)
(** * Part 2: the cube *)

(** ** result of [create_def]-style constructors: permutations of N points, inverse-closed *)
Definition GensStructure (N count : nat) (r : result puzzle) : Prop :=
  exists pz, r = Ok pz /\ length (pz_gens pz) = count /\
    (forall g, In g (pz_gens pz) -> length g = N /\ Perm g) /\
    InverseClosed (pz_gens pz).

Definition gens_ok (N count : nat) (r : result puzzle) : bool :=
  match r with
  | Ok pz => (length (pz_gens pz) =? count)
             && perms_of_size_fast N (pz_gens pz) && inverse_closed_fast (pz_gens pz)
  | Err _ => false
  end.

Lemma gens_ok_meaning N count r : gens_ok N count r = true -> GensStructure N count r.
Proof.
  unfold gens_ok, GensStructure. destruct r as [pz|e]; [|discriminate]. intros H.
  apply andb_true_iff in H as [H H3]. apply andb_true_iff in H as [H1 H2].
  exists pz. split; [reflexivity|]. split; [apply Nat.eqb_eq; exact H1|]. split.
  - apply perms_of_size_fast_meaning. exact H2.
  - apply inverse_closed_fast_meaning. exact H3.
Qed.

(** ** the 3n layer turns *)
Definition mchar (t : mtype) : ascii := match t with MF => "f" | MR => "r" | MD => "d" end%char.

(* the keys of generate_cube_permutations_oneline(n): f0..f(n-1), r0..r(n-1), d0..d(n-1) *)
Definition cube_names (n : nat) : list string :=
  map (fun '(t, i) => mname t i) (list_prod [MF; MR; MD] (seq 0 n)).

(* the turns of one axis, selected by the first letter of their (final, i.e. renamed) name *)
Definition axis_moves (t : mtype) (moves : list (string * list nat)) : list (string * list nat) :=
  filter (fun kv => starts_with_char (mchar t) (fst kv)) moves.

(* number of stickers moved by the turn of layer s: 4n on the rim, plus a whole face on outer layers
   (its centre sticker stays in place when n is odd) *)
Definition expected_moved (n s : nat) : nat :=
  if (s =? 0) || (s =? n - 1) then 4 * n + n * n - n mod 2 else 4 * n.

(* centre sticker of a face (n odd) *)
Definition centre (n face : nat) : nat := sticker n face (n / 2) (n / 2).

(* the two faces perpendicular to the axis of f- / r- / d-turns *)
Definition axis_faces (t : mtype) : nat * nat :=
  match t with MF => (fF, fB) | MR => (fR, fL) | MD => (fD, fU) end.

Definition AxisCentre (n : nat) (t : mtype) (i : nat) : Prop :=
  Nat.odd n = true /\ (i = centre n (fst (axis_faces t)) \/ i = centre n (snd (axis_faces t))).

Definition is_axis_centre (n : nat) (t : mtype) (i : nat) : bool :=
  Nat.odd n && ((i =? centre n (fst (axis_faces t))) || (i =? centre n (snd (axis_faces t)))).

Lemma is_axis_centre_meaning n t i : is_axis_centre n t i = true <-> AxisCentre n t i.
Proof.
  unfold is_axis_centre, AxisCentre. rewrite andb_true_iff, orb_true_iff, !Nat.eqb_eq. reflexivity.
Qed.

Definition MoveStructure (n : nat) (nm : string) (p : list nat) : Prop :=
  length p = 6 * (n * n) /\ Perm p /\ Order4 p /\
  moved_count p = expected_moved n (name_index nm).

Definition move_ok (n : nat) (kv : string * list nat) : bool :=
  let p := snd kv in
  (length p =? 6 * (n * n)) && is_perm p && perm_order4 p
  && (moved_count p =? expected_moved n (name_index (fst kv))).

Lemma move_ok_meaning n nm p : move_ok n (nm, p) = true -> MoveStructure n nm p.
Proof.
  unfold move_ok, MoveStructure. cbn [fst snd]. intros H.
  apply andb_true_iff in H as [H H4]. apply andb_true_iff in H as [H H3]. apply andb_true_iff in H as [H1 H2].
  apply Nat.eqb_eq in H1, H4. apply is_perm_iff in H2. apply perm_order4_meaning in H3. auto.
Qed.

Definition AxisStructure (n : nat) (moves : list (string * list nat)) (t : mtype) : Prop :=
  let am := axis_moves t moves in
  let ax := map snd am in
  map fst am = map (mname t) (seq 0 n) /\
  ForallOrdPairs (fun p q => compose p q = compose q p /\ DisjointSupp p q) ax /\
  (forall i, i < 6 * (n * n) ->
     ((exists p, In p ax /\ pstep p i <> i) <-> ~ AxisCentre n t i)).

Definition axis_ok (n : nat) (moves : list (string * list nat)) (t : mtype) : bool :=
  let am := axis_moves t moves in
  let ax := map snd am in
  list_eqb String.eqb (map fst am) (map (mname t) (seq 0 n))
  && all_pairs (fun p q => commute p q && disjoint_supp p q) ax
  && forallb (fun i => Bool.eqb (existsb (fun p => negb (pstep p i =? i)) ax) (negb (is_axis_centre n t i)))
             (seq 0 (6 * (n * n))).

Lemma axis_ok_meaning n moves t : axis_ok n moves t = true -> AxisStructure n moves t.
Proof.
  unfold axis_ok, AxisStructure. cbv zeta. intros H.
  apply andb_true_iff in H as [H H3]. apply andb_true_iff in H as [H1 H2].
  split; [apply str_list_eqb_eq; exact H1|]. split.
  - apply all_pairs_meaning in H2. eapply ForallOrdPairs_impl; [|exact H2].
    intros p q Hpq. cbv beta in Hpq. apply andb_true_iff in Hpq as [Hc Hd]. split.
    + apply commute_meaning. exact Hc.
    + apply disjoint_supp_meaning. exact Hd.
  - intros i Hi. rewrite forallb_forall in H3.
    assert (In i (seq 0 (6 * (n * n)))) as Hin by (apply in_seq; lia).
    specialize (H3 i Hin). apply eqb_prop in H3.
    rewrite <- is_axis_centre_meaning. split.
    + intros [p [Hp Hm]]. assert (existsb (fun p0 => negb (pstep p0 i =? i)) (map snd (axis_moves t moves)) = true) as E.
      { apply existsb_exists. exists p. split; [exact Hp|]. apply negb_true_iff. apply Nat.eqb_neq. exact Hm. }
      rewrite E in H3. symmetry in H3. apply negb_true_iff in H3. congruence.
    + intros Hn. apply not_true_is_false in Hn. rewrite Hn in H3. simpl in H3.
      apply existsb_exists in H3 as [p [Hp Hm]]. exists p. split; [exact Hp|].
      apply negb_true_iff in Hm. apply Nat.eqb_neq. exact Hm.
Qed.

(* in particular each axis has exactly n turns *)
Lemma AxisStructure_length n moves t :
  AxisStructure n moves t -> length (map snd (axis_moves t moves)) = n.
Proof.
  intros [Hn _]. rewrite map_length. rewrite <- (map_length fst), Hn, map_length. apply seq_length.
Qed.

Definition CubeMovesStructure (n : nat) : Prop :=
  exists moves, cube_moves n = Ok moves /\
    length moves = 3 * n /\
    map fst moves = cube_names n /\
    (forall nm p, In (nm, p) moves -> MoveStructure n nm p) /\
    (forall t, AxisStructure n moves t).

Definition cube_moves_ok (n : nat) : bool :=
  match cube_moves n with
  | Ok moves =>
      (length moves =? 3 * n)
      && list_eqb String.eqb (map fst moves) (cube_names n)
      && forallb (move_ok n) moves
      && forallb (axis_ok n moves) [MF; MR; MD]
  | Err _ => false
  end.

Lemma cube_moves_ok_meaning n : cube_moves_ok n = true -> CubeMovesStructure n.
Proof.
  unfold cube_moves_ok, CubeMovesStructure. destruct (cube_moves n) as [moves|e]; [|discriminate]. intros H.
  apply andb_true_iff in H as [H H4]. apply andb_true_iff in H as [H H3]. apply andb_true_iff in H as [H1 H2].
  exists moves. split; [reflexivity|]. split; [apply Nat.eqb_eq; exact H1|].
  split; [apply str_list_eqb_eq; exact H2|]. split.
  - intros nm p Hin. rewrite forallb_forall in H3. apply move_ok_meaning. apply H3. exact Hin.
  - intros t. rewrite forallb_forall in H4. apply axis_ok_meaning. apply H4. destruct t; simpl; auto.
Qed.

(** ** the four metrics of [rubik_cube] *)
(* layers that are generators in QTM/HTM: the middle layer of an odd cube is left out *)
Definition outer_count (n : nat) : nat := if Nat.odd n then n - 1 else n.

Definition CubeMetricsStructure (n : nat) : Prop :=
  let N := 6 * (n * n) in
  GensStructure N (6 * n) (rubik_cube (Z.of_nat n) "QSTM") /\
  GensStructure N (6 * outer_count n) (rubik_cube (Z.of_nat n) "QTM") /\
  GensStructure N (9 * outer_count n) (rubik_cube (Z.of_nat n) "HTM").

Definition CubeAtmStructure (n : nat) : Prop :=
  GensStructure (6 * (n * n)) (3 * (3 ^ n - 1)) (rubik_cube (Z.of_nat n) "ATM").

Definition cube_metrics_ok (n : nat) : bool :=
  let N := 6 * (n * n) in
  gens_ok N (6 * n) (rubik_cube (Z.of_nat n) "QSTM")
  && gens_ok N (6 * outer_count n) (rubik_cube (Z.of_nat n) "QTM")
  && gens_ok N (9 * outer_count n) (rubik_cube (Z.of_nat n) "HTM").

Definition cube_atm_ok (n : nat) : bool :=
  gens_ok (6 * (n * n)) (3 * (3 ^ n - 1)) (rubik_cube (Z.of_nat n) "ATM").

Definition cube_ok (n : nat) : bool := cube_moves_ok n && cube_metrics_ok n && cube_atm_ok n.

Definition CubeStructure (n : nat) : Prop :=
  CubeMovesStructure n /\ CubeMetricsStructure n /\ CubeAtmStructure n.

Theorem cube_ok_meaning n : cube_ok n = true -> CubeStructure n.
Proof.
  unfold cube_ok, CubeStructure. intros H.
  apply andb_true_iff in H as [H H3]. apply andb_true_iff in H as [H1 H2].
  split; [apply cube_moves_ok_meaning; exact H1|]. split.
  - unfold cube_metrics_ok in H2. cbv zeta in H2.
    apply andb_true_iff in H2 as [H2 Hc]. apply andb_true_iff in H2 as [Ha Hb].
    unfold CubeMetricsStructure. cbv zeta.
    split; [apply gens_ok_meaning; exact Ha|]. split; apply gens_ok_meaning; assumption.
  - apply gens_ok_meaning. exact H3.
Qed.

(* All four metrics (ATM included: 3*(3^n-1) generators, 2184 for n = 6) for every n in 2..6. *)
Theorem cube_structure_upto_6 : forallb cube_ok [2; 3; 4; 5; 6] = true.
Proof. vm_cast_no_check (eq_refl true). Qed.

Corollary cube_structure_2_6 n : 2 <= n <= 6 -> CubeStructure n.
Proof.
  intros Hn. apply cube_ok_meaning.
  pose proof cube_structure_upto_6 as H. rewrite forallb_forall in H. apply H.
  simpl. lia.
Qed.

(* ====================================================================================== *)
(** * Part 3: Hungarian rings *)

Ltac split_andb H H' := apply andb_true_iff in H; destruct H as [H H'].

Definition zs_nonneg (l : list Z) : bool := forallb (fun z => (0 <=? z)%Z) l.

Lemma zs_nonneg_roundtrip l : zs_nonneg l = true -> map Z.of_nat (map Z.to_nat l) = l.
Proof.
  unfold zs_nonneg. induction l as [|z t IH]; simpl; intros H; [reflexivity|].
  apply andb_true_iff in H as [H1 H2]. apply Z.leb_le in H1. rewrite Z2Nat.id by exact H1.
  rewrite IH by exact H2. reflexivity.
Qed.

(* number of intersection points: _get_intersections *)
Definition inter_count (li ri : Z) : nat := if ((li =? 0) && (ri =? 0))%Z then 1 else 2.
(* number of points of the puzzle *)
Definition ring_points (ls li rs ri : Z) : nat := Z.to_nat ls + Z.to_nat rs - inter_count li ri.

(** ** hungarian_rings_permutations with step 1 and step -1 *)
Definition RingsPermsStructure (ls li rs ri : Z) : Prop :=
  exists L R : list nat,
    hungarian_rings_permutations ls li rs ri 1 = Ok (map Z.of_nat L, map Z.of_nat R) /\
    (* step -1 gives the inverse permutations *)
    hungarian_rings_permutations ls li rs ri (-1)
      = Ok (map Z.of_nat (inverse_perm L), map Z.of_nat (inverse_perm R)) /\
    length L = ring_points ls li rs ri /\ length R = ring_points ls li rs ri /\
    Perm L /\ Perm R /\
    (* left rotation: one cycle of length ls, on the points 0..ls-1 *)
    SingleCycle L (Z.to_nat ls) /\ (forall x, Moved L x <-> x < Z.to_nat ls) /\
    (* right rotation: one cycle of length rs *)
    SingleCycle R (Z.to_nat rs) /\
    (* the rings share exactly the points 0 and li (which is 0 again when li = ri = 0) *)
    (forall x, (Moved L x /\ Moved R x) <-> (x = 0 \/ x = Z.to_nat li)) /\
    (* spacing of the two intersection points: li along the left ring, ri along the right ring *)
    (DistIs L 0 (Z.to_nat li) (Z.to_nat li) \/ DistIs L (Z.to_nat li) 0 (Z.to_nat li)) /\
    (DistIs R 0 (Z.to_nat li) (Z.to_nat ri) \/ DistIs R (Z.to_nat li) 0 (Z.to_nat ri)).

Definition rings_perms_ok (ls li rs ri : Z) : bool :=
  match hungarian_rings_permutations ls li rs ri 1, hungarian_rings_permutations ls li rs ri (-1) with
  | Ok (lz, rz), Ok (lbz, rbz) =>
      let L := map Z.to_nat lz in
      let R := map Z.to_nat rz in
      let N := ring_points ls li rs ri in
      let a := Z.to_nat li in
      zs_nonneg lz && zs_nonneg rz && zs_nonneg lbz && zs_nonneg rbz
      && (length L =? N) && (length R =? N) && is_perm L && is_perm R
      && single_cycle_of_length L (Z.to_nat ls)
      && nat_list_eqb (support L) (seq 0 (Z.to_nat ls))
      && single_cycle_of_length R (Z.to_nat rs)
      && nat_list_eqb (filter (fun x => existsb (Nat.eqb x) (support R)) (support L))
                      (if (li =? 0)%Z then [0] else [0; a])
      && (dist_is L 0 a a || dist_is L a 0 a)
      && (dist_is R 0 a (Z.to_nat ri) || dist_is R a 0 (Z.to_nat ri))
      && nat_list_eqb (inverse_perm L) (map Z.to_nat lbz)
      && nat_list_eqb (inverse_perm R) (map Z.to_nat rbz)
  | _, _ => false
  end.

Lemma existsb_nat_eqb_In x l : existsb (Nat.eqb x) l = true <-> In x l.
Proof.
  rewrite existsb_exists. split.
  - intros [y [Hy E]]. apply Nat.eqb_eq in E. subst. exact Hy.
  - intros H. exists x. split; [exact H|apply Nat.eqb_refl].
Qed.

Lemma rings_perms_ok_meaning ls li rs ri :
  rings_perms_ok ls li rs ri = true -> RingsPermsStructure ls li rs ri.
Proof.
  unfold rings_perms_ok, RingsPermsStructure.
  destruct (hungarian_rings_permutations ls li rs ri 1) as [[lz rz]|e1]; [|discriminate].
  destruct (hungarian_rings_permutations ls li rs ri (-1)) as [[lbz rbz]|e2]; [|discriminate].
  cbv zeta. set (L := map Z.to_nat lz). set (R := map Z.to_nat rz). intros H.
  split_andb H H16. split_andb H H15. split_andb H H14. split_andb H H13. split_andb H H12.
  split_andb H H11. split_andb H H10. split_andb H H9. split_andb H H8. split_andb H H7.
  split_andb H H6. split_andb H H5. split_andb H H4. split_andb H H3. split_andb H H2.
  exists L, R.
  apply zs_nonneg_roundtrip in H, H2, H3, H4. fold L in H. fold R in H2.
  apply nat_list_eqb_eq in H15, H16.
  split; [rewrite H, H2; reflexivity|].
  split; [rewrite H15, H16, H3, H4; reflexivity|].
  split; [apply Nat.eqb_eq; exact H5|]. split; [apply Nat.eqb_eq; exact H6|].
  split; [apply is_perm_iff; exact H7|]. split; [apply is_perm_iff; exact H8|].
  split; [apply single_cycle_meaning; exact H9|].
  split.
  { intros x. rewrite <- In_support. apply nat_list_eqb_eq in H10. rewrite H10. rewrite in_seq. lia. }
  split; [apply single_cycle_meaning; exact H11|].
  split.
  { intros x. apply nat_list_eqb_eq in H12.
    assert ((Moved L x /\ Moved R x) <-> In x (filter (fun y => existsb (Nat.eqb y) (support R)) (support L))) as E.
    { rewrite filter_In, existsb_nat_eqb_In, !In_support. reflexivity. }
    rewrite E, H12. destruct (li =? 0)%Z eqn:Eli.
    - apply Z.eqb_eq in Eli. subst li. simpl. intuition.
    - simpl. intuition. }
  split.
  - apply orb_true_iff in H13 as [Hd|Hd]; [left|right]; apply dist_is_meaning; exact Hd.
  - apply orb_true_iff in H14 as [Hd|Hd]; [left|right]; apply dist_is_meaning; exact Hd.
Qed.

(** ** hungarian_rings_generators *)
Definition RingsGensStructure (ls li rs ri : Z) : Prop :=
  exists lz rz rest names,
    hungarian_rings_permutations ls li rs ri 1 = Ok (lz, rz) /\
    hungarian_rings_generators ls li rs ri = Ok (lz :: rz :: rest, names) /\
    length names = length (lz :: rz :: rest) /\
    (forall g, In g (lz :: rz :: rest) -> map Z.of_nat (map Z.to_nat g) = g) /\
    (forall g, In g (map (map Z.to_nat) (lz :: rz :: rest)) ->
       length g = ring_points ls li rs ri /\ Perm g) /\
    InverseClosed (map (map Z.to_nat) (lz :: rz :: rest)).

Definition rings_gens_ok (ls li rs ri : Z) : bool :=
  match hungarian_rings_permutations ls li rs ri 1, hungarian_rings_generators ls li rs ri with
  | Ok (lz, rz), Ok (a :: b :: rest, names) =>
      let G := map (map Z.to_nat) (a :: b :: rest) in
      z_list_eqb a lz && z_list_eqb b rz
      && (length names =? length (a :: b :: rest))
      && forallb zs_nonneg (a :: b :: rest)
      && perms_of_size (ring_points ls li rs ri) G
      && inverse_closed G
  | _, _ => false
  end.

Lemma rings_gens_ok_meaning ls li rs ri :
  rings_gens_ok ls li rs ri = true -> RingsGensStructure ls li rs ri.
Proof.
  unfold rings_gens_ok, RingsGensStructure.
  destruct (hungarian_rings_permutations ls li rs ri 1) as [[lz rz]|e1]; [|discriminate].
  destruct (hungarian_rings_generators ls li rs ri) as [[gens names]|e2]; [|discriminate].
  destruct gens as [|a [|b rest]]; try discriminate.
  cbv zeta. intros H.
  split_andb H H6. split_andb H H5. split_andb H H4. split_andb H H3. split_andb H H2.
  apply z_list_eqb_eq in H, H2. subst a b.
  exists lz, rz, rest, names.
  split; [reflexivity|]. split; [reflexivity|]. split; [apply Nat.eqb_eq; exact H3|].
  split.
  { intros g Hg. rewrite forallb_forall in H4. apply zs_nonneg_roundtrip. apply H4. exact Hg. }
  split; [apply perms_of_size_meaning; exact H5|apply inverse_closed_meaning; exact H6].
Qed.

(** ** Puzzles.hungarian_rings (asserts 2*li <= ls and 2*ri <= rs) *)
Definition ring_gen_count (ls rs : Z) : nat :=
  2 + (if (ls =? 2)%Z then 0 else 1) + (if (rs =? 2)%Z then 0 else 1).

Definition RingsPuzzleStructure (ls li rs ri : Z) : Prop :=
  exists gens names,
    hungarian_rings_generators ls li rs ri = Ok (gens, names) /\
    exists pz, hungarian_rings ls li rs ri = Ok pz /\
      pz_gens pz = map (map Z.to_nat) gens /\
      GensStructure (ring_points ls li rs ri) (ring_gen_count ls rs) (Ok pz).

Definition rings_puzzle_ok (ls li rs ri : Z) : bool :=
  match hungarian_rings_generators ls li rs ri, hungarian_rings ls li rs ri with
  | Ok (gens, names), Ok pz =>
      nat_list2_eqb (pz_gens pz) (map (map Z.to_nat) gens)
      && gens_ok (ring_points ls li rs ri) (ring_gen_count ls rs) (Ok pz)
  | _, _ => false
  end.

Lemma nat_list2_eqb_eq l1 l2 : nat_list2_eqb l1 l2 = true <-> l1 = l2.
Proof. apply list_eqb_eq. intros a b. apply nat_list_eqb_eq. Qed.

Lemma rings_puzzle_ok_meaning ls li rs ri :
  rings_puzzle_ok ls li rs ri = true -> RingsPuzzleStructure ls li rs ri.
Proof.
  unfold rings_puzzle_ok, RingsPuzzleStructure.
  destruct (hungarian_rings_generators ls li rs ri) as [[gens names]|e1]; [|discriminate].
  destruct (hungarian_rings ls li rs ri) as [pz|e2]; [|discriminate].
  intros H. split_andb H H2. exists gens, names. split; [reflexivity|].
  exists pz. split; [reflexivity|]. split; [apply nat_list2_eqb_eq; exact H|].
  apply gens_ok_meaning. exact H2.
Qed.

(** ** everything together *)
Definition in_puzzle_domain (ls li rs ri : Z) : bool := ((2 * li <=? ls) && (2 * ri <=? rs))%Z.

Definition rings_ok (ls li rs ri : Z) : bool :=
  rings_perms_ok ls li rs ri && rings_gens_ok ls li rs ri
  && (if in_puzzle_domain ls li rs ri then rings_puzzle_ok ls li rs ri else true).

Definition RingsStructure (ls li rs ri : Z) : Prop :=
  RingsPermsStructure ls li rs ri /\ RingsGensStructure ls li rs ri /\
  ((2 * li <= ls)%Z -> (2 * ri <= rs)%Z -> RingsPuzzleStructure ls li rs ri).

Theorem rings_ok_meaning ls li rs ri : rings_ok ls li rs ri = true -> RingsStructure ls li rs ri.
Proof.
  unfold rings_ok, RingsStructure. intros H. split_andb H H3. split_andb H H2.
  split; [apply rings_perms_ok_meaning; exact H|]. split; [apply rings_gens_ok_meaning; exact H2|].
  intros Hl Hr. unfold in_puzzle_domain in H3.
  apply Z.leb_le in Hl, Hr. rewrite Hl, Hr in H3. simpl in H3.
  apply rings_puzzle_ok_meaning. exact H3.
Qed.

(** ** the admissible parameters up to a bound *)
Definition zr (a b : nat) : list Z := map Z.of_nat (seq a (b + 1 - a)).

Lemma In_zr a b z : (Z.of_nat a <= z <= Z.of_nat b)%Z -> In z (zr a b).
Proof.
  intros Hz. unfold zr. apply in_map_iff. exists (Z.to_nat z). split; [apply Z2Nat.id; lia|].
  apply in_seq. lia.
Qed.

(* all (ls, li, rs, ri) with 2 <= ls, rs <= bound and either li = ri = 0 or 1 <= li < ls, 1 <= ri < rs:
   the whole domain on which hungarian_rings_permutations does not raise, for these sizes *)
Definition ring_params (bound : nat) : list (Z * Z * Z * Z) :=
  flat_map (fun ls => flat_map (fun rs =>
     (ls, 0%Z, rs, 0%Z)
     :: flat_map (fun li => map (fun ri => (ls, li, rs, ri)) (zr 1 (Z.to_nat rs - 1)))
                 (zr 1 (Z.to_nat ls - 1)))
     (zr 2 bound)) (zr 2 bound).

Lemma ring_params_complete bound ls li rs ri :
  (2 <= ls <= Z.of_nat bound)%Z -> (2 <= rs <= Z.of_nat bound)%Z ->
  ((li = 0 /\ ri = 0) \/ (1 <= li < ls /\ 1 <= ri < rs))%Z ->
  In (ls, li, rs, ri) (ring_params bound).
Proof.
  intros Hls Hrs Hi. unfold ring_params.
  apply in_flat_map. exists ls. split; [apply In_zr; simpl; lia|].
  apply in_flat_map. exists rs. split; [apply In_zr; simpl; lia|].
  destruct Hi as [[-> ->]|[Hli Hri]]; [left; reflexivity|right].
  apply in_flat_map. exists li. split; [apply In_zr; lia|].
  apply in_map_iff. exists ri. split; [reflexivity|apply In_zr; lia].
Qed.

Theorem rings_structure_upto_12 :
  forallb (fun '(ls, li, rs, ri) => rings_ok ls li rs ri) (ring_params 12) = true.
Proof. vm_cast_no_check (eq_refl true). Qed.

Corollary rings_structure_2_12 ls li rs ri :
  (2 <= ls <= 12)%Z -> (2 <= rs <= 12)%Z ->
  ((li = 0 /\ ri = 0) \/ (1 <= li < ls /\ 1 <= ri < rs))%Z ->
  RingsStructure ls li rs ri.
Proof.
  intros Hls Hrs Hi. apply rings_ok_meaning.
  pose proof rings_structure_upto_12 as H. rewrite forallb_forall in H.
  apply (H (ls, li, rs, ri)). apply ring_params_complete; [simpl; lia|simpl; lia|exact Hi].
Qed.

(* ====================================================================================== *)
(** * Part 4: globe *)

Definition globe_points (a b : nat) : nat := 2 * (a + 1) * b.
Definition globe_r_names (a : nat) : list string := map (fun r => ("r" ++ str_of_nat r)%string) (seq 0 (a + 1)).
Definition globe_f_names (b : nat) : list string := map (fun f => ("f" ++ str_of_nat f)%string) (seq 0 (2 * b)).

(* r_k rotates row k: one cycle of length 2b on the points k*2b .. (k+1)*2b-1 *)
Definition RGenStructure (a b k : nat) (p : list nat) : Prop :=
  length p = globe_points a b /\ Perm p /\ SingleCycle p (2 * b) /\
  (forall x, Moved p x <-> k * (2 * b) <= x < (k + 1) * (2 * b)).

(* f_k is a flip: an involution, and not the identity *)
Definition FGenStructure (a b : nat) (p : list nat) : Prop :=
  length p = globe_points a b /\ Perm p /\ Involution p /\ p <> identity_perm (length p).

Definition GlobeGensStructure (a b : nat) : Prop :=
  exists rgens fgens,
    globe_gens a b = rgens ++ fgens /\
    length rgens = a + 1 /\ length fgens = 2 * b /\
    map fst rgens = globe_r_names a /\ map fst fgens = globe_f_names b /\
    (forall k, k < a + 1 -> RGenStructure a b k (snd (nth k rgens (""%string, [])))) /\
    (forall p, In p (map snd fgens) -> FGenStructure a b p).

Definition rgen_ok (a b : nat) (kp : nat * (string * list nat)) : bool :=
  let k := fst kp in let p := snd (snd kp) in
  (length p =? globe_points a b) && is_perm p && single_cycle_of_length p (2 * b)
  && nat_list_eqb (support p) (seq (k * (2 * b)) (2 * b)).

Definition fgen_ok (a b : nat) (p : list nat) : bool :=
  (length p =? globe_points a b) && is_perm p && involution p
  && negb (nat_list_eqb p (identity_perm (length p))).

Definition globe_gens_ok (a b : nat) : bool :=
  let gens := globe_gens a b in
  let rgens := firstn (a + 1) gens in
  let fgens := skipn (a + 1) gens in
  (length rgens =? a + 1) && (length fgens =? 2 * b)
  && list_eqb String.eqb (map fst rgens) (globe_r_names a)
  && list_eqb String.eqb (map fst fgens) (globe_f_names b)
  && forallb (rgen_ok a b) (combine (seq 0 (a + 1)) rgens)
  && forallb (fgen_ok a b) (map snd fgens).

Definition globe_ok (a b : nat) : bool :=
  globe_gens_ok a b
  && gens_ok (globe_points a b) (2 * (a + 1) + 2 * b) (globe_puzzle a b).

Lemma In_combine_seq_nth {A} (l : list A) k d :
  k < length l -> In (k, nth k l d) (combine (seq 0 (length l)) l).
Proof.
  intros Hk.
  assert (nth k (combine (seq 0 (length l)) l) (0, d) = (k, nth k l d)) as E.
  { rewrite combine_nth by apply seq_length. rewrite seq_nth by exact Hk. reflexivity. }
  rewrite <- E. apply nth_In. rewrite combine_length, seq_length. lia.
Qed.

Lemma rgen_ok_meaning a b k nm p : rgen_ok a b (k, (nm, p)) = true -> RGenStructure a b k p.
Proof.
  unfold rgen_ok, RGenStructure. cbn [fst snd]. intros H.
  split_andb H H4. split_andb H H3. split_andb H H2.
  split; [apply Nat.eqb_eq; exact H|]. split; [apply is_perm_iff; exact H2|].
  split; [apply single_cycle_meaning; exact H3|].
  intros x. rewrite <- In_support. apply nat_list_eqb_eq in H4. rewrite H4, in_seq. lia.
Qed.

Lemma fgen_ok_meaning a b p : fgen_ok a b p = true -> FGenStructure a b p.
Proof.
  unfold fgen_ok, FGenStructure. intros H.
  split_andb H H4. split_andb H H3. split_andb H H2.
  split; [apply Nat.eqb_eq; exact H|]. split; [apply is_perm_iff; exact H2|].
  split; [apply involution_meaning; exact H3|].
  apply negb_true_iff in H4. apply nat_list_eqb_neq. exact H4.
Qed.

Lemma globe_gens_ok_meaning a b : globe_gens_ok a b = true -> GlobeGensStructure a b.
Proof.
  unfold globe_gens_ok, GlobeGensStructure. cbv zeta.
  set (gens := globe_gens a b). set (rgens := firstn (a + 1) gens). set (fgens := skipn (a + 1) gens).
  intros H. split_andb H H6. split_andb H H5. split_andb H H4. split_andb H H3. split_andb H H2.
  apply Nat.eqb_eq in H, H2.
  exists rgens, fgens.
  split; [symmetry; apply firstn_skipn|]. split; [exact H|]. split; [exact H2|].
  split; [apply str_list_eqb_eq; exact H3|]. split; [apply str_list_eqb_eq; exact H4|]. split.
  - intros k Hk. rewrite forallb_forall in H5.
    destruct (nth k rgens (""%string, [])) as [nm p] eqn:E. cbn [snd].
    apply (rgen_ok_meaning a b k nm p). apply H5. rewrite <- E, <- H.
    apply In_combine_seq_nth. lia.
  - intros p Hp. rewrite forallb_forall in H6. apply fgen_ok_meaning. apply H6. exact Hp.
Qed.

Definition GlobeStructure (a b : nat) : Prop :=
  GlobeGensStructure a b /\
  GensStructure (globe_points a b) (2 * (a + 1) + 2 * b) (globe_puzzle a b).

Theorem globe_ok_meaning a b : globe_ok a b = true -> GlobeStructure a b.
Proof.
  unfold globe_ok, GlobeStructure. intros H. split_andb H H2.
  split; [apply globe_gens_ok_meaning; exact H|apply gens_ok_meaning; exact H2].
Qed.

Theorem globe_structure_upto_6 :
  forallb (fun '(a, b) => globe_ok a b) (list_prod (seq 1 6) (seq 1 6)) = true.
Proof. vm_cast_no_check (eq_refl true). Qed.

Corollary globe_structure_1_6 a b : 1 <= a <= 6 -> 1 <= b <= 6 -> GlobeStructure a b.
Proof.
  intros Ha Hb. apply globe_ok_meaning.
  pose proof globe_structure_upto_6 as H. rewrite forallb_forall in H.
  apply (H (a, b)). apply in_prod; apply in_seq; lia.
Qed.

(* ====================================================================================== *)
(** * Part 5 (STRETCH): general theorems, for all parameters *)

(** ** _circular_shift(items, step): new[i] = old[(i + step) mod n], for every integer step *)
Lemma circular_shift_length {A} (items : list A) (step : Z) :
  length (circular_shift items step) = length items.
Proof.
  unfold circular_shift. rewrite app_length, skipn_length, firstn_length. lia.
Qed.

Lemma nth_skipn_add {A} (l : list A) d : forall k i, nth i (skipn k l) d = nth (k + i) l d.
Proof.
  induction l as [|a t IH]; intros k i.
  - rewrite skipn_nil. destruct i, k; reflexivity.
  - destruct k as [|k]; [reflexivity|]. simpl. apply IH.
Qed.

Lemma nth_firstn_lt {A} (l : list A) d : forall k i, i < k -> nth i (firstn k l) d = nth i l d.
Proof.
  induction l as [|a t IH]; intros k i Hi.
  - rewrite firstn_nil. reflexivity.
  - destruct k as [|k]; [lia|]. destruct i as [|i]; [reflexivity|]. simpl. apply IH. lia.
Qed.

Theorem circular_shift_nth {A} (items : list A) (step : Z) (d : A) i :
  i < length items ->
  nth i (circular_shift items step) d
  = nth (Z.to_nat ((Z.of_nat i + step) mod Z.of_nat (length items))) items d.
Proof.
  intros Hi. unfold circular_shift.
  assert (0 <? length items = true) as Hpos by (apply Nat.ltb_lt; lia). rewrite Hpos.
  set (n := length items) in *. set (k := Z.to_nat (step mod Z.of_nat n)).
  assert (0 <= step mod Z.of_nat n < Z.of_nat n)%Z as Hk by (apply Z.mod_pos_bound; lia).
  assert (k < n) as Hkn by (unfold k; lia).
  assert ((Z.of_nat i + step) mod Z.of_nat n = (Z.of_nat i + Z.of_nat k) mod Z.of_nat n)%Z as E.
  { unfold k. rewrite Z2Nat.id by lia. rewrite Zplus_mod_idemp_r. reflexivity. }
  rewrite E. destruct (Nat.lt_ge_cases (i + k) n) as [Hlt|Hge].
  - rewrite Z.mod_small by lia.
    rewrite app_nth1 by (rewrite skipn_length; fold n; lia).
    rewrite nth_skipn_add. f_equal. lia.
  - replace ((Z.of_nat i + Z.of_nat k) mod Z.of_nat n)%Z with (Z.of_nat i + Z.of_nat k - Z.of_nat n)%Z.
    + rewrite app_nth2 by (rewrite skipn_length; fold n; lia).
      rewrite skipn_length. fold n. rewrite nth_firstn_lt by lia. f_equal. lia.
    + apply Zmod_unique with (q := 1%Z); lia.
Qed.

(** ** help_cyclic(start, finish, n) with fin1 = finish + 1: the cycle (start start+1 ... finish) *)
Definition cyc_fun (start fin1 i : nat) : nat :=
  if (start <=? i) && (i <? fin1) then (if S i =? fin1 then start else i + 1) else i.

Lemma help_cyclic_length start fin1 n :
  start <= fin1 <= n -> length (help_cyclic start fin1 n) = n.
Proof.
  intros H. unfold help_cyclic. rewrite !app_length, map_length, !seq_length. lia.
Qed.

Lemma help_cyclic_nth start fin1 n i :
  start <= fin1 <= n -> i < n -> nth i (help_cyclic start fin1 n) 0 = cyc_fun start fin1 i.
Proof.
  intros H Hi. unfold help_cyclic, cyc_fun.
  destruct (start <=? i) eqn:E1; [apply Nat.leb_le in E1|apply Nat.leb_gt in E1].
  - rewrite app_nth2 by (rewrite seq_length; lia). rewrite seq_length.
    destruct (i <? fin1) eqn:E2; [apply Nat.ltb_lt in E2|apply Nat.ltb_ge in E2]; cbn [andb].
    + rewrite app_nth1 by (rewrite map_length, seq_length; lia).
      rewrite (nth_map_lt _ _ _ 0 0) by (rewrite seq_length; lia).
      rewrite seq_nth by lia. replace (start + (i - start)) with i by lia. reflexivity.
    + rewrite app_nth2 by (rewrite map_length, seq_length; lia).
      rewrite map_length, seq_length. rewrite seq_nth by lia. lia.
  - cbn [andb]. rewrite app_nth1 by (rewrite seq_length; lia). rewrite seq_nth by lia. reflexivity.
Qed.

Lemma cyc_fun_lt start fin1 n i : start <= fin1 <= n -> i < n -> cyc_fun start fin1 i < n.
Proof.
  intros H Hi. unfold cyc_fun.
  destruct (start <=? i) eqn:E1; [apply Nat.leb_le in E1|apply Nat.leb_gt in E1]; cbn [andb]; [|lia].
  destruct (i <? fin1) eqn:E2; [apply Nat.ltb_lt in E2|apply Nat.ltb_ge in E2]; [|lia].
  destruct (S i =? fin1) eqn:E3; [apply Nat.eqb_eq in E3|apply Nat.eqb_neq in E3]; lia.
Qed.

Lemma cyc_fun_inj start fin1 i j : cyc_fun start fin1 i = cyc_fun start fin1 j -> i = j.
Proof.
  unfold cyc_fun.
  destruct (Nat.leb_spec start i) as [A1|A1]; destruct (Nat.ltb_spec i fin1) as [A2|A2];
  destruct (Nat.eqb_spec (S i) fin1) as [A3|A3];
  destruct (Nat.leb_spec start j) as [B1|B1]; destruct (Nat.ltb_spec j fin1) as [B2|B2];
  destruct (Nat.eqb_spec (S j) fin1) as [B3|B3];
  cbn [andb]; lia.
Qed.

Theorem help_cyclic_Perm start fin1 n : start <= fin1 <= n -> Perm (help_cyclic start fin1 n).
Proof.
  intros H. pose proof (help_cyclic_length start fin1 n H) as HL.
  apply NoDup_lt_Perm.
  - apply (proj2 (NoDup_nth _ 0)). intros i j Hi Hj E. rewrite HL in Hi, Hj.
    rewrite !help_cyclic_nth in E by assumption. apply cyc_fun_inj in E. exact E.
  - intros x Hx. apply (In_nth _ _ 0) in Hx as [i [Hi E]]. rewrite HL in Hi |- *.
    rewrite help_cyclic_nth in E by assumption. subst x. apply cyc_fun_lt; assumption.
Qed.

(* it is the single cycle (start, start+1, ..., fin1-1), every other point fixed *)
Theorem help_cyclic_single_cycle start fin1 n :
  start + 2 <= fin1 -> fin1 <= n -> SingleCycle (help_cyclic start fin1 n) (fin1 - start).
Proof.
  intros H1 H2. assert (start <= fin1 <= n) as H by lia.
  pose proof (help_cyclic_length start fin1 n H) as HL.
  split; [lia|]. exists (seq start (fin1 - start)).
  split; [apply seq_length|]. split; [apply seq_NoDup|]. split.
  - intros i Hi. rewrite seq_nth by exact Hi. unfold pstep.
    rewrite help_cyclic_nth by lia. unfold cyc_fun.
    assert (start <=? start + i = true) as E1 by (apply Nat.leb_le; lia).
    assert (start + i <? fin1 = true) as E2 by (apply Nat.ltb_lt; lia).
    rewrite E1, E2. cbn [andb].
    destruct (S (start + i) =? fin1) eqn:E3; [apply Nat.eqb_eq in E3|apply Nat.eqb_neq in E3].
    + replace (i + 1) with (fin1 - start) by lia. rewrite Nat.mod_same by lia.
      rewrite seq_nth by lia. lia.
    + rewrite Nat.mod_small by lia. rewrite seq_nth by lia. lia.
  - intros x. rewrite in_seq. unfold Moved, pstep. rewrite HL. split.
    + intros Hx. split; [lia|]. rewrite help_cyclic_nth by lia. unfold cyc_fun.
      assert (start <=? x = true) as E1 by (apply Nat.leb_le; lia).
      assert (x <? fin1 = true) as E2 by (apply Nat.ltb_lt; lia).
      rewrite E1, E2. cbn [andb].
      destruct (S x =? fin1) eqn:E3; [apply Nat.eqb_eq in E3|apply Nat.eqb_neq in E3]; lia.
    + intros [Hx Hm]. rewrite help_cyclic_nth in Hm by lia. unfold cyc_fun in Hm.
      destruct (start <=? x) eqn:E1; [apply Nat.leb_le in E1|apply Nat.leb_gt in E1]; cbn [andb] in Hm; [|lia].
      destruct (x <? fin1) eqn:E2; [apply Nat.ltb_lt in E2|apply Nat.ltb_ge in E2]; [lia|lia].
Qed.

(** ** hungarian_rings_permutations, ALL parameters and every step: whenever the function returns,
    its left rotation is i |-> (i + step) mod ls on 0..ls-1 and fixes every other point *)
Lemma bind_Ok_inv {A B} (r : result A) (f : A -> result B) v :
  bind r f = Ok v -> exists a, r = Ok a /\ f a = Ok v.
Proof. destruct r as [a|e]; simpl; intros H; [exists a; auto|discriminate]. Qed.

Lemma zrange_length a b : length (zrange a b) = Z.to_nat (b - a).
Proof. unfold zrange. rewrite map_length, seq_length. reflexivity. Qed.

Lemma zrange_nth a b i : i < Z.to_nat (b - a) -> nth i (zrange a b) 0%Z = (a + Z.of_nat i)%Z.
Proof.
  intros Hi. unfold zrange. rewrite (nth_map_lt _ _ _ 0 0%Z) by (rewrite seq_length; exact Hi).
  rewrite seq_nth by exact Hi. reflexivity.
Qed.

Theorem rings_left_rotation_general ls li rs ri step lz rz :
  hungarian_rings_permutations ls li rs ri step = Ok (lz, rz) ->
  exists inter, get_intersections li ri = Ok inter /\ (inter = 1 \/ inter = 2)%Z /\
    (0 <= li < ls)%Z /\ (0 <= ri < rs)%Z /\ (inter <= rs)%Z /\
    length lz = Z.to_nat (ls + rs - inter) /\
    (forall i, (0 <= i < ls)%Z -> nth (Z.to_nat i) lz 0%Z = ((i + step) mod ls)%Z) /\
    (forall i, (ls <= i < ls + rs - inter)%Z -> nth (Z.to_nat i) lz 0%Z = i).
Proof.
  unfold hungarian_rings_permutations. intros H.
  destruct ((li <? 0) || (ri <? 0))%Z eqn:C1; [discriminate|].
  destruct ((ls <=? li) || (rs <=? ri))%Z eqn:C2; [discriminate|].
  apply orb_false_iff in C1 as [C1a C1b]. apply orb_false_iff in C2 as [C2a C2b].
  apply Z.ltb_ge in C1a, C1b. apply Z.leb_gt in C2a, C2b.
  apply bind_Ok_inv in H as [inter [Hinter H]].
  apply bind_Ok_inv in H as [rr [_ H]].
  apply bind_Ok_inv in H as [fv [_ H]].
  apply bind_Ok_inv in H as [sh1 [_ H]].
  apply bind_Ok_inv in H as [[sv sh2] [_ H]].
  apply bind_Ok_inv in H as [rr1 [_ H]].
  apply bind_Ok_inv in H as [rr2 [_ H]].
  inversion H as [[Hl Hr]]. clear H Hr.
  assert ((inter = 1 \/ inter = 2) /\ inter <= rs)%Z as [Hi12 Hirs].
  { unfold get_intersections in Hinter.
    destruct ((li =? 0) && (ri =? 0))%Z eqn:D1; [inversion Hinter; lia|].
    destruct ((0 <? li) && (0 <? ri))%Z eqn:D2; [|discriminate].
    apply andb_true_iff in D2 as [D2a D2b]. apply Z.ltb_lt in D2a, D2b. inversion Hinter; lia. }
  subst lz. exists inter. split; [exact Hinter|]. split; [exact Hi12|]. split; [lia|]. split; [lia|]. split; [exact Hirs|].
  assert (length (zrange 0 ls) = Z.to_nat ls) as HLz by (rewrite zrange_length; f_equal; lia).
  assert (length (circular_shift (zrange 0 ls) step) = Z.to_nat ls) as HLc
    by (rewrite circular_shift_length; exact HLz).
  split; [|split].
  - rewrite app_length, HLc, zrange_length. lia.
  - intros i Hi. rewrite app_nth1 by (rewrite HLc; lia).
    rewrite (circular_shift_nth _ _ 0%Z) by (rewrite HLz; lia).
    rewrite HLz. rewrite !Z2Nat.id by lia.
    assert (0 <= (i + step) mod ls < ls)%Z as Hm by (apply Z.mod_pos_bound; lia).
    rewrite zrange_nth by lia. rewrite Z2Nat.id by lia. lia.
  - intros i Hi. rewrite app_nth2 by (rewrite HLc; lia). rewrite HLc.
    rewrite zrange_nth by lia. lia.
Qed.

(* hence, for every ring size, the left rotation with step 1 is one cycle of length ls on 0..ls-1 *)
Theorem rings_left_single_cycle_general ls li rs ri lz rz :
  hungarian_rings_permutations ls li rs ri 1 = Ok (lz, rz) -> (2 <= ls)%Z ->
  SingleCycle (map Z.to_nat lz) (Z.to_nat ls) /\
  (forall x, Moved (map Z.to_nat lz) x <-> x < Z.to_nat ls).
Proof.
  intros H Hls.
  destruct (rings_left_rotation_general _ _ _ _ _ _ _ H)
    as [inter [_ [Hi12 [Hli [Hri [Hirs [Hlen [Hrot Hfix]]]]]]]].
  set (L := map Z.to_nat lz). set (n := Z.to_nat ls).
  assert (length L = Z.to_nat (ls + rs - inter)) as HL by (unfold L; rewrite map_length; exact Hlen).
  assert (forall x, pstep L x = Z.to_nat (nth x lz 0%Z)) as Hps.
  { intros x. unfold pstep, L. change 0 with (Z.to_nat 0%Z) at 1. apply map_nth. }
  assert (forall x, x < n -> pstep L x = (x + 1) mod n) as Lstep.
  { intros x Hx. rewrite Hps. specialize (Hrot (Z.of_nat x)). rewrite Nat2Z.id in Hrot.
    rewrite Hrot by lia. destruct (Nat.eq_dec (x + 1) n) as [E|NE].
    - rewrite E, Nat.mod_same by lia. replace (Z.of_nat x + 1)%Z with ls by lia.
      rewrite Z.mod_same by lia. reflexivity.
    - rewrite Nat.mod_small by lia. rewrite Z.mod_small by lia. lia. }
  assert (forall x, n <= x < length L -> pstep L x = x) as Lfix.
  { intros x Hx. rewrite Hps. specialize (Hfix (Z.of_nat x)). rewrite Nat2Z.id in Hfix.
    rewrite Hfix by lia. apply Nat2Z.id. }
  assert (forall x, Moved L x <-> x < n) as HM.
  { intros x. unfold Moved. split.
    - intros [Hx Hm]. destruct (Nat.lt_ge_cases x n) as [Hlt|Hge]; [exact Hlt|].
      exfalso. apply Hm. apply Lfix. lia.
    - intros Hx. split; [lia|]. rewrite Lstep by exact Hx.
      destruct (Nat.eq_dec (x + 1) n) as [E|NE].
      + rewrite E, Nat.mod_same by lia. lia.
      + rewrite Nat.mod_small by lia. lia. }
  split; [|exact HM].
  split; [unfold n; lia|]. exists (seq 0 n).
  split; [apply seq_length|]. split; [apply seq_NoDup|]. split.
  - intros i Hi. rewrite seq_nth by exact Hi. cbn [Nat.add]. rewrite Lstep by exact Hi.
    assert ((i + 1) mod n < n) as Hm by (apply Nat.mod_upper_bound; lia).
    rewrite seq_nth by exact Hm. reflexivity.
  - intros x. rewrite HM, in_seq. lia.
Qed.

Example ex_rings_left_general :
  exists rz, hungarian_rings_permutations 6 2 5 3 4 = Ok ([4; 5; 0; 1; 2; 3; 6; 7; 8]%Z, rz).
Proof. eexists. vm_compute. reflexivity. Qed.

(* ====================================================================================== *)
(** * Non-vacuity: concrete instances of the hypotheses, and checkers rejecting wrong inputs *)

Example ex_order4 : perm_order4 [1; 2; 3; 0] = true /\ Perm [1; 2; 3; 0].
Proof. split; [reflexivity|apply is_perm_iff; reflexivity]. Qed.
Example ex_order4_rejects_2cycle : perm_order4 [1; 0; 2; 3] = false. Proof. reflexivity. Qed.
Example ex_order4_rejects_3cycle : perm_order4 [1; 2; 0; 3] = false. Proof. reflexivity. Qed.
Example ex_involution : involution [1; 0; 3; 2] = true /\ involution [1; 2; 0] = false.
Proof. split; reflexivity. Qed.
Example ex_moved_count : moved_count [0; 2; 1; 3; 5; 6; 4] = 5. Proof. reflexivity. Qed.
Example ex_moved_list : NoDup [1; 2] /\ (forall x, In x [1; 2] <-> Moved [0; 2; 1; 3] x).
Proof.
  split; [repeat constructor; simpl; intuition lia|].
  intros x. rewrite <- In_support. reflexivity.
Qed.
Example ex_commute : commute [1; 0; 2; 3] [0; 1; 3; 2] = true /\ commute [1; 0; 2] [0; 2; 1] = false.
Proof. split; reflexivity. Qed.
Example ex_disjoint : disjoint_supp [1; 0; 2; 3] [0; 1; 3; 2] = true /\ disjoint_supp [1; 0; 2] [0; 2; 1] = false.
Proof. split; reflexivity. Qed.
Example ex_single_cycle : single_cycle_of_length [1; 2; 0; 3] 3 = true. Proof. reflexivity. Qed.
Example ex_single_cycle_rejects :
  single_cycle_of_length [1; 0; 3; 2] 4 = false /\ single_cycle_of_length [1; 0; 3; 2] 2 = false /\
  single_cycle_of_length [1; 2; 0; 3] 4 = false /\ single_cycle_of_length [0; 1; 2] 0 = false.
Proof. repeat split; reflexivity. Qed.
Example ex_dist : dist_is [1; 2; 3; 0] 0 2 2 = true /\ dist_is [1; 2; 3; 0] 2 0 2 = true /\
                  dist_is [1; 2; 3; 0] 0 3 1 = false /\ dist_is [1; 0; 2] 0 2 1 = false.
Proof. repeat split; reflexivity. Qed.
Example ex_inverse_closed :
  inverse_closed [[1; 2; 0]; [2; 0; 1]] = true /\ inverse_closed [[1; 2; 0]] = false /\
  inverse_closed_fast [[1; 2; 0]; [2; 0; 1]] = true /\ inverse_closed_fast [[1; 2; 0]] = false.
Proof. repeat split; reflexivity. Qed.
Example ex_inverse_closed_inverse :
  InverseClosed [[1; 2; 0]; [2; 0; 1]] /\ Perm [1; 2; 0] /\ In [1; 2; 0] [[1; 2; 0]; [2; 0; 1]].
Proof.
  split; [apply inverse_closed_meaning; reflexivity|]. split; [apply is_perm_iff; reflexivity|left; reflexivity].
Qed.
Example ex_is_perm_inv : is_perm_inv [2; 0; 1] = true /\ is_perm_inv [0; 0; 1] = false /\ is_perm_inv [0; 3; 1] = false.
Proof. repeat split; reflexivity. Qed.
Example ex_all_pairs : all_pairs Nat.ltb [1; 2; 5] = true /\ all_pairs Nat.ltb [1; 5; 2] = false.
Proof. split; reflexivity. Qed.
Example ex_gens_ok_rejects : gens_ok 3 1 (Ok (mk_puzzle [[1; 2; 0]] [""%string] [0; 1; 2] ""%string)) = false.
Proof. reflexivity. Qed.

(* the hypotheses of the meaning theorems hold for concrete parameters *)
Example ex_cube_ok : cube_ok 3 = true. Proof. vm_compute. reflexivity. Qed.
Example ex_rings_ok : rings_ok 6 2 5 2 = true /\ rings_ok 6 2 5 3 = true /\ rings_ok 4 0 7 0 = true.
Proof. vm_compute. repeat split; reflexivity. Qed.
Example ex_rings_domains :
  in_puzzle_domain 6 2 5 2 = true /\ in_puzzle_domain 6 2 5 3 = false /\
  In (6, 2, 5, 3)%Z (ring_params 12).
Proof. split; [reflexivity|]. split; [reflexivity|]. apply ring_params_complete; simpl; lia. Qed.
Example ex_globe_ok : globe_ok 2 3 = true. Proof. vm_compute. reflexivity. Qed.
Example ex_circular_shift : circular_shift [10; 11; 12; 13]%Z (-1) = [13; 10; 11; 12]%Z /\ 1 < length [10; 11; 12; 13]%Z.
Proof. split; [reflexivity|simpl; lia]. Qed.
Example ex_help_cyclic : help_cyclic 1 4 5 = [0; 2; 3; 1; 4] /\ 1 + 2 <= 4 /\ 4 <= 5.
Proof. split; [reflexivity|lia]. Qed.

(* outside the admissible domain the rings model raises *)
Example ex_rings_err :
  hungarian_rings_permutations 6 0 5 2 1 = Err ValueErr /\ hungarian_rings_permutations 6 6 5 2 1 = Err ValueErr /\
  hungarian_rings 6 4 5 2 = Err AssertionErr.
Proof. repeat split; reflexivity. Qed.

(* ====================================================================================== *)
Print Assumptions perm_order4_meaning.
Print Assumptions moved_count_meaning.
Print Assumptions In_support.
Print Assumptions commute_meaning.
Print Assumptions disjoint_supp_meaning.
Print Assumptions single_cycle_meaning.
Print Assumptions dist_is_meaning.
Print Assumptions inverse_closed_meaning.
Print Assumptions inverse_closed_fast_eq.
Print Assumptions is_perm_inv_meaning.
Print Assumptions cube_ok_meaning.
Print Assumptions cube_structure_upto_6.
Print Assumptions cube_structure_2_6.
Print Assumptions rings_ok_meaning.
Print Assumptions rings_structure_upto_12.
Print Assumptions rings_structure_2_12.
Print Assumptions globe_ok_meaning.
Print Assumptions globe_structure_upto_6.
Print Assumptions globe_structure_1_6.
Print Assumptions circular_shift_nth.
Print Assumptions help_cyclic_Perm.
Print Assumptions help_cyclic_single_cycle.
Print Assumptions rings_left_rotation_general.
Print Assumptions rings_left_single_cycle_general.
