(** Model of CayleyGraph.restore_path / find_path_to / find_path_from (cayley_graph.py). *)
From Coq Require Import ZArith List Bool Arith Lia.
From V Require Import Base W64 Tensor GraphImpl Def.
Import ListNotations.
Open Scope Z_scope.

Section Paths.
  Variable G : impl.        (* the graph *)
  Variable Ginv : impl.     (* graph.with_inverted_generators: same hasher and encoder *)

  (* one backward step: candidates = inverted-graph neighbours of cur, generator-major *)
  Definition restore_step (acc : result (list nat * state)) (layer_h : list Z) : result (list nat * state) :=
    do (path, cur) <- acc;
    let candidates := map (fun g => g cur) (acts Ginv) in
    let mask := isin (map (hashf G) candidates) layer_h in
    match first_true mask with
    | None => Err AssertionErr                       (* "Not found any neighbor on previous layer." *)
    | Some gen_id => Ok (gen_id :: path, nth gen_id candidates [])
    end.

  (* restore_path(hashes, to_state): walks the layers backwards; the appended ids, reversed at the end,
     are accumulated here by consing, which is the same list *)
  Definition restore_path (hs : list (list Z)) (to_state : state) : result (list nat) :=
    do (path, _) <- fold_left restore_step (rev hs) (Ok ([], to_state));
    Ok path.

  (* find_path_to(end_state, bfs_result); [n_sizes] = len(layer_sizes) for check_has_layer_hashes *)
  Fixpoint find_layer (h : Z) (layers_h : list (list Z)) (i : nat) : option nat :=
    match layers_h with
    | [] => None
    | l :: rest => if isin_ss1 l h then Some i else find_layer h rest (S i)
    end.

  Definition find_path_to (layers_h : list (list Z)) (n_sizes : nat) (end_state : state) : result (option (list nat)) :=
    if negb (length layers_h =? n_sizes)%nat then Err AssertionErr
    else match find_layer (hashf G end_state) layers_h 0 with
         | None => Ok None
         | Some i => do p <- restore_path (firstn i layers_h) end_state; Ok (Some p)
         end.

  Definition find_path_from (inv_map : option (list nat)) (layers_h : list (list Z)) (n_sizes : nat) (start_state : state)
    : result (option (list nat)) :=
    if negb (inv_closed G) then Err AssertionErr
    else do r <- find_path_to layers_h n_sizes start_state;
         match r with
         | None => Ok None
         | Some p => do q <- revert_path inv_map p; Ok (Some q)
         end.
End Paths.
