(** C15: bounded exhaustive theorems for ALL families, by [vm_compute], with the bounds in the statements,
    and the meaning of the boolean check in terms of [Perm] and closure under inverses. *)
From Coq Require Import ZArith List Bool Arith Lia.
From V Require Import Base Perm PermProofs Def DefProofs Matrix Families FamiliesRun FamiliesOk.
Import ListNotations.
Open Scope Z_scope.

(* ---- what [pcall_ok c = true] means ---- *)
Lemma is_perm_of_iff size p : is_perm_of size p = true <-> Perm p /\ length p = size.
Proof.
  unfold is_perm_of. rewrite andb_true_iff, Nat.eqb_eq, is_perm_iff. tauto.
Qed.

Theorem pcall_ok_sound c : pcall_ok c = true ->
  match run_pcall c with
  | Err _ => pexpect c = None
  | Ok d => exists size count closed, pexpect c = Some (size, count, closed) /\
      Forall (fun p => Perm p /\ length p = size) (p_gens d) /\
      length (p_gens d) = count /\ length (p_names d) = count /\
      p_central d = zrange 0 (Z.of_nat size) /\
      (closed = true <-> forall p, In p (p_gens d) -> In (inverse_perm p) (p_gens d))
  end.
Proof.
  unfold pcall_ok. destruct (run_pcall c) as [d|e]; destruct (pexpect c) as [[[size count] closed]|]; try discriminate.
  - intros H. repeat (apply andb_true_iff in H; destruct H as [H ?]).
    exists size, count, closed. split; [reflexivity|]. split; [|split; [|split; [|split]]].
    + apply Forall_forall. intros p Hp. apply is_perm_of_iff. rewrite forallb_forall in H. auto.
    + now apply Nat.eqb_eq.
    + now apply Nat.eqb_eq.
    + apply (list_eqb_true Z.eqb (fun x y => proj1 (Z.eqb_eq x y))). assumption.
    + match goal with E : Bool.eqb _ _ = true |- _ => apply eqb_prop in E; rewrite <- E end.
      unfold p_closed. apply closed_flag_iff.
  - reflexivity.
Qed.

(* ---- permutation families: every parameter tuple with n in -1..bound ---- *)
Theorem perm_families_ok_bounded :
  pfamilies_ok
    [(FAllTranspositions, 12); (FTransposons, 10); (FBlockInterchange, 9); (FFullReversals, 12);
     (FSignedReversals, 9); (FLrx, 12); (FLx, 16); (FTopSpin, 12); (FCoxeter, 16); (FCyclicCoxeter, 16);
     (FPancake, 16); (FCubicPancake, 12); (FBurntPancake, 12); (FThreeCycles, 9); (FThreeCycles0ij, 10);
     (FThreeCycles01i, 16); (FDerangements, 7); (FInvolutiveDerangements, 10); (FStars, 16);
     (FGeneralizedStars, 10); (FRapaportM1, 16); (FRapaportM2, 16); (FAllCycles, 7); (FLslCycles, 16);
     (FWrappedKCycles, 10); (FLarx, 16); (FIncreasingKCycles, 9); (FSheveleva2, 12); (FKoltsov3, 8);
     (FConsecutiveKCycles, 10); (FDownCycles, 12); (FPrefixCycles, 16)] = true.
Proof. vm_cast_no_check (eq_refl true). Qed.

(* conjugacy_classes(n, {lens: None}) for every partition lens of every m <= n <= 7: exactly the class *)
Theorem conjugacy_classes_ok_upto_7 : conj_ok_upto 7 = true.
Proof. vm_cast_no_check (eq_refl true). Qed.
