(** Theorems about the CURRENT literal move tables of the library (gen/MoveTables.v is regenerated from
    puzzles/moves.py and puzzles/cube.py by translator T4b on every run): finite facts, decided by the kernel. *)
From Coq Require Import ZArith List Bool Arith String.
From V Require Import Base Perm MoveTablesDefs.
From V.gen Require Import MoveTables.
Import ListNotations.
Open Scope string_scope.

Definition perms_of (t : list (string * move_src)) : list (list nat) :=
  match table_perms t with Ok l => map snd l | Err _ => [] end.
Definition named_of (t : list (string * move_src)) : list (string * list nat) :=
  match table_perms t with Ok l => l | Err _ => [] end.

(* the puzzles as puzzles.py / cube.py build them from the tables *)
Definition pyraminx_gens := with_inverses "_inv" (named_of tbl_pyraminx_moves).
Definition megaminx_gens := with_inverses "_inv" (named_of tbl_megaminx_moves).
Definition cube222_quarter_gens := with_inverses "'" (named_of tbl_cube222_moves).
Definition cube222_half_gens := with_inverses_and_squares (named_of tbl_cube222_moves).

Definition power (p : list nat) (k : nat) : list nat := Nat.iter k (compose p) (identity_perm (List.length p)).
Definition has_order (k : nat) (p : list nat) : bool :=
  nat_list_eqb (power p k) (identity_perm (List.length p))
  && forallb (fun j => negb (nat_list_eqb (power p j) (identity_perm (List.length p)))) (seq 1 (k - 1)).

Theorem mini_pyramorphix_table_ok :
  table_ok 24 tbl_mini_pyramorphix_allowed_moves = true /\ List.length tbl_mini_pyramorphix_allowed_moves = 17
  /\ gens_inverse_closed (perms_of tbl_mini_pyramorphix_allowed_moves) = true.
Proof. vm_compute. repeat split; reflexivity. Qed.

Theorem picture_cube_table_ok :
  table_ok 72 tbl_picture_cube_333_allowed_moves = true /\ List.length tbl_picture_cube_333_allowed_moves = 18
  /\ gens_inverse_closed (perms_of tbl_picture_cube_333_allowed_moves) = true.
Proof. vm_compute. repeat split; reflexivity. Qed.

Theorem pyraminx_table_ok :
  table_ok 36 tbl_pyraminx_moves = true /\ List.length pyraminx_gens = 16
  /\ forallb (has_order 3) (perms_of tbl_pyraminx_moves) = true
  /\ gens_inverse_closed (map snd pyraminx_gens) = true.
Proof. vm_compute. repeat split; reflexivity. Qed.

Theorem megaminx_table_ok :
  table_ok 120 tbl_megaminx_moves = true /\ List.length megaminx_gens = 24
  /\ forallb (has_order 5) (perms_of tbl_megaminx_moves) = true
  /\ gens_inverse_closed (map snd megaminx_gens) = true.
Proof. vm_compute. repeat split; reflexivity. Qed.

Theorem cube222_table_ok :
  table_ok 24 tbl_cube222_moves = true /\ forallb order4 (perms_of tbl_cube222_moves) = true
  /\ gens_inverse_closed (map snd cube222_quarter_gens) = true /\ gens_inverse_closed (map snd cube222_half_gens) = true.
Proof. vm_compute. repeat split; reflexivity. Qed.

Theorem cube333_table_ok :
  table_ok 54 tbl_cube333_moves = true /\ forallb order4 (perms_of tbl_cube333_moves) = true.
Proof. vm_compute. repeat split; reflexivity. Qed.

(* what the boolean facts mean *)
Lemma table_ok_meaning size t : table_ok size t = true ->
  exists l, table_perms t = Ok l /\ forall nm p, In (nm, p) l -> is_perm p = true /\ List.length p = size.
Proof.
  unfold table_ok. destruct (table_perms t) as [l|e]; [|discriminate]. intros H. exists l. split; [reflexivity|].
  intros nm p Hin. rewrite forallb_forall in H. specialize (H (nm, p) Hin). cbn in H.
  apply andb_true_iff in H. destruct H as [H1 H2]. split; [exact H1|]. apply Nat.eqb_eq. exact H2.
Qed.

Lemma nat_list_eqb_true_eq : forall a b : list nat, nat_list_eqb a b = true -> a = b.
Proof.
  unfold nat_list_eqb. induction a as [|x a IH]; intros [|y b] Hab; simpl in Hab; try discriminate; auto.
  apply andb_true_iff in Hab. destruct Hab as [H1 H2]. apply Nat.eqb_eq in H1. subst. f_equal. apply IH. exact H2.
Qed.

Lemma gens_inverse_closed_meaning gens : gens_inverse_closed gens = true -> forall p, In p gens -> In (inverse_perm p) gens.
Proof.
  unfold gens_inverse_closed, perm_list_mem. intros H p Hp. rewrite forallb_forall in H. specialize (H p Hp).
  apply existsb_exists in H. destruct H as [q [Hq Heq]]. apply nat_list_eqb_true_eq in Heq. rewrite Heq. exact Hq.
Qed.

Print Assumptions mini_pyramorphix_table_ok.
Print Assumptions megaminx_table_ok.
Print Assumptions table_ok_meaning.
Print Assumptions gens_inverse_closed_meaning.
