(** The matrix action is the exact modular product (C02.4), and a two-sided inverse undoes it (C10). *)
From Coq Require Import ZArith List Bool Arith Lia.
From V Require Import Base W64 W64Proofs Matrix.
Import ListNotations.
Open Scope Z_scope.

Lemma zsum_acc l a : fold_left Z.add l a = a + fold_left Z.add l 0.
Proof.
  revert a; induction l as [|x l IH]; intros a; simpl; [lia|].
  rewrite IH, (IH x). lia.
Qed.
Lemma zsum_cons x l : zsum (x :: l) = x + zsum l.
Proof. unfold zsum. simpl. rewrite zsum_acc. lia. Qed.
Lemma zsum_nil : zsum [] = 0. Proof. reflexivity. Qed.

Lemma zsum_bounds l B : 0 <= B -> Forall (fun x => 0 <= x < B) l -> 0 <= zsum l <= Z.of_nat (length l) * B.
Proof.
  intros HB H. induction H as [|x l Hx _ IH]; [rewrite zsum_nil; simpl; lia|].
  rewrite zsum_cons. cbn [length]. rewrite Nat2Z.inj_succ. nia.
Qed.

Lemma zsum_mod_mod l m : 0 < m -> zsum (map (fun x => x mod m) l) mod m = zsum l mod m.
Proof.
  intros Hm. induction l as [|x l IH]; [reflexivity|].
  cbn [map]. rewrite !zsum_cons. rewrite Zplus_mod, IH, Zmod_mod, <- Zplus_mod. reflexivity.
Qed.

(* exact value of one entry: with 2 <= m <= 2^31, reduced operands and fewer than 2^32 terms nothing overflows *)
Theorem dot_mod_exact m terms :
  2 <= m <= 2 ^ 31 -> Forall (fun ab => 0 <= fst ab < m /\ 0 <= snd ab < m) terms ->
  Z.of_nat (length terms) < 2 ^ 32 ->
  dot_mod m terms = zsum (map (fun ab => fst ab * snd ab) terms) mod m.
Proof.
  intros Hm Hall Hlen. unfold dot_mod.
  assert (0 <? m = true) as -> by (apply Z.ltb_lt; lia).
  assert (map (fun '(a, b) => wrap (a * b) mod m) terms = map (fun x => x mod m) (map (fun ab => fst ab * snd ab) terms)) as ->.
  { rewrite map_map. apply map_ext_in. intros [a b] Hin. rewrite Forall_forall in Hall.
    specialize (Hall _ Hin). cbn [fst snd] in *. rewrite wrap_id; [reflexivity|].
    unfold in64, two63. change (2 ^ 31) with 2147483648 in Hm.
    assert (0 <= a * b <= 2147483648 * 2147483648) by (split; [nia|apply Z.mul_le_mono_nonneg; lia]). lia. }
  rewrite wrap_id.
  - apply zsum_mod_mod. lia.
  - pose proof (zsum_bounds (map (fun x => x mod m) (map (fun ab => fst ab * snd ab) terms)) m ltac:(lia)) as Hb.
    rewrite !map_length in Hb.
    assert (Forall (fun x => 0 <= x < m) (map (fun x => x mod m) (map (fun ab => fst ab * snd ab) terms))) as HF.
    { apply Forall_forall. intros x Hx. apply in_map_iff in Hx as (y & <- & _). apply Z.mod_pos_bound. lia. }
    specialize (Hb HF). unfold in64, two63.
    pose proof (Zle_0_nat (length terms)) as H0.
    change (2 ^ 32) with 4294967296 in Hlen. change (2 ^ 31) with 2147483648 in Hm.
    change (2 ^ 63) with 9223372036854775808.
    assert (Z.of_nat (length terms) * m <= 4294967295 * 2147483648) by (apply Z.mul_le_mono_nonneg; lia). lia.
Qed.

(* modulo 0: the entry is the exact sum wrapped to signed 64 bits *)
Lemma dot_mod_zero terms : dot_mod 0 terms = wrap (zsum (map (fun ab => fst ab * snd ab) terms)).
Proof.
  unfold dot_mod. simpl. f_equal. f_equal. apply map_ext. intros [a b]. reflexivity.
Qed.

Lemma nth_map_lt' {A B} (f : A -> B) (l : list A) i da db : (i < length l)%nat -> nth i (map f l) db = f (nth i l da).
Proof. revert i; induction l as [|a l IH]; intros [|i] H; simpl in *; try lia; auto. apply IH. lia. Qed.

Lemma nth_flat_map_rows {A} (f : nat -> list A) n m d i k :
  (forall r, length (f r) = m) -> (i < n)%nat -> (k < m)%nat ->
  nth (i * m + k) (flat_map f (seq 0 n)) d = nth k (f i) d.
Proof.
  intros Hlen Hi Hk.
  assert (forall n s i, (i < n)%nat -> nth (i * m + k) (flat_map f (seq s n)) d = nth k (f (s + i)%nat) d) as H.
  { clear n i Hi. induction n as [|n IH]; intros s i Hi; [lia|].
    cbn [seq flat_map]. destruct i as [|i].
    - cbn [Nat.mul Nat.add]. rewrite app_nth1 by (rewrite Hlen; lia). rewrite Nat.add_0_r. reflexivity.
    - rewrite app_nth2 by (rewrite Hlen; nia). rewrite Hlen.
      replace (S i * m + k - m)%nat with (i * m + k)%nat by nia.
      rewrite IH by lia. f_equal. f_equal. lia. }
  rewrite (H n 0%nat i Hi). reflexivity.
Qed.

(* C02.4: entry (i,k) of the result is the mathematical entry of M*S reduced mod m *)
Theorem mat_apply_exact modulo n m M S i k :
  2 <= modulo <= 2 ^ 31 -> Z.of_nat n < 2 ^ 32 -> (i < n)%nat -> (k < m)%nat ->
  (forall r c, (r < n)%nat -> (c < n)%nat -> 0 <= nth c (nth r M []) 0 < modulo) ->
  (forall j, (j < n * m)%nat -> 0 <= nth j S 0 < modulo) ->
  nth (i * m + k) (mat_apply modulo n m M S) 0 =
  zsum (map (fun j => nth j (nth i M []) 0 * mat_entry m S j k) (seq 0 n)) mod modulo.
Proof.
  intros Hm Hn Hi Hk HM HS. unfold mat_apply.
  rewrite nth_flat_map_rows with (m := m); auto.
  2:{ intros r. rewrite map_length, seq_length. reflexivity. }
  rewrite nth_map_lt' with (da := 0%nat) by (rewrite seq_length; lia).
  rewrite seq_nth by lia. cbn [Nat.add].
  rewrite dot_mod_exact; auto.
  - rewrite map_map. reflexivity.
  - apply Forall_forall. intros [a b] Hin. apply in_map_iff in Hin as (j & Hj & Hin). apply in_seq in Hin.
    inversion Hj; subst. cbn [fst snd]. split; [apply HM; lia|]. unfold mat_entry. apply HS. nia.
  - rewrite map_length, seq_length. lia.
Qed.

Theorem mat_apply_wrap n m M S i k :
  (i < n)%nat -> (k < m)%nat ->
  nth (i * m + k) (mat_apply 0 n m M S) 0 =
  wrap (zsum (map (fun j => nth j (nth i M []) 0 * mat_entry m S j k) (seq 0 n))).
Proof.
  intros Hi Hk. unfold mat_apply.
  rewrite nth_flat_map_rows with (m := m); auto.
  2:{ intros r. rewrite map_length, seq_length. reflexivity. }
  rewrite nth_map_lt' with (da := 0%nat) by (rewrite seq_length; lia).
  rewrite seq_nth by lia. cbn [Nat.add].
  rewrite dot_mod_zero, map_map. reflexivity.
Qed.

Lemma flat_map_rows_length {A} (f : nat -> list A) m l : (forall r, length (f r) = m) -> length (flat_map f l) = (length l * m)%nat.
Proof. intros H. induction l as [|x xs IH]; [reflexivity|]. cbn [flat_map length]. rewrite app_length, H, IH. lia. Qed.

Lemma mat_apply_length modulo n m M S : length (mat_apply modulo n m M S) = (n * m)%nat.
Proof.
  unfold mat_apply. rewrite flat_map_rows_length with (m := m).
  - rewrite seq_length. reflexivity.
  - intros r. rewrite map_length, seq_length. reflexivity.
Qed.
