(** Proofs about the save / load / __eq__ model of SaveLoad.v:
    the strip("layer__") + int() key parsing is right, load (save r) = Ok r, and result_eq is sound. *)
From Coq Require Import ZArith List Bool Arith Lia String Ascii Decimal DecimalString DecimalNat.
From V Require Import Base SaveLoad.
Import ListNotations.
Open Scope string_scope.
Open Scope list_scope.

(* ------------------------------------------------------------------------- *)
(** * Decimal strings: digits only, non-empty, round trip *)

(* every character is outside the strip set {l,a,y,e,r,_} *)
Fixpoint all_ns (s : string) : Prop :=
  match s with
  | EmptyString => True
  | String c t => in_strip_set c = false /\ all_ns t
  end.

Lemma all_ns_empty_uint d : all_ns (NilEmpty.string_of_uint d).
Proof. induction d; simpl; try split; try reflexivity; auto. Qed.

Lemma all_ns_zero_uint d : all_ns (NilZero.string_of_uint d).
Proof.
  destruct d; try apply (all_ns_empty_uint _).
  simpl. split; [reflexivity | exact I].
Qed.

Lemma all_ns_nat_to_string k : all_ns (nat_to_string k).
Proof. apply all_ns_zero_uint. Qed.

Lemma to_uint_nonnil n : Nat.to_uint n <> Nil.
Proof.
  intro H. pose proof (Unsigned.of_to n) as E. rewrite H in E.
  cbv in E. subst n. cbv in H. discriminate H.
Qed.

Lemma nat_to_string_nonempty k : nat_to_string k <> EmptyString.
Proof.
  unfold nat_to_string. pose proof (to_uint_nonnil k) as H.
  destruct (Nat.to_uint k); try congruence; simpl; discriminate.
Qed.

Lemma parse_nat_to_string k : parse_nat (nat_to_string k) = Some k.
Proof.
  unfold parse_nat, nat_to_string.
  rewrite NilZero.usu by apply to_uint_nonnil.
  rewrite Unsigned.of_to. reflexivity.
Qed.

Lemma nat_to_string_inj a b : nat_to_string a = nat_to_string b -> a = b.
Proof.
  intro H. pose proof (parse_nat_to_string a) as Ha. rewrite H, parse_nat_to_string in Ha.
  congruence.
Qed.

(* ------------------------------------------------------------------------- *)
(** * strip *)

Lemma lstrip_ns s : all_ns s -> lstrip s = s.
Proof. destruct s; simpl; [auto | intros [H _]; rewrite H; reflexivity]. Qed.

Lemma rev_string_ns s : forall acc, all_ns s -> all_ns acc -> all_ns (rev_string s acc).
Proof.
  induction s; simpl; intros acc Hs Ha; auto.
  destruct Hs as [Hc Hs]. apply IHs; simpl; auto.
Qed.

Lemma rev_string_rev s : forall acc acc',
  rev_string (rev_string s acc) acc' = rev_string acc (s ++ acc')%string.
Proof.
  induction s; simpl; intros acc acc'; [reflexivity|].
  rewrite IHs. reflexivity.
Qed.

Lemma string_app_nil_r s : (s ++ "")%string = s.
Proof. induction s; simpl; congruence. Qed.

Lemma rev_string_involutive s : rev_string (rev_string s "") "" = s.
Proof. rewrite rev_string_rev. simpl. apply string_app_nil_r. Qed.

Lemma strip_layer_prefix s : all_ns s -> strip ("layer__" ++ s)%string = s.
Proof.
  intro H. unfold strip.
  change (lstrip ("layer__" ++ s)%string) with (lstrip s).
  rewrite (lstrip_ns s H).
  rewrite (lstrip_ns (rev_string s "")) by (apply rev_string_ns; simpl; auto).
  apply rev_string_involutive.
Qed.

(* the strip trick is right because digits are not in the stripped set *)
Theorem strip_parse_key k : parse_nat (strip ("layer__" ++ nat_to_string k)) = Some k.
Proof.
  rewrite strip_layer_prefix by apply all_ns_nat_to_string.
  apply parse_nat_to_string.
Qed.

(* ------------------------------------------------------------------------- *)
(** * The store *)

Lemma store_get_app k a b :
  store_get k (a ++ b) = match store_get k a with Some v => Some v | None => store_get k b end.
Proof.
  induction a as [|[k' v] a IH]; simpl; [reflexivity|].
  destruct (String.eqb k k'); auto.
Qed.

Definition layer_entries (ls : list (nat * list (list Z))) : store :=
  map (fun '(k, l) => (("layer__" ++ nat_to_string k)%string, HInts2 l)) ls.
Definition hash_entries (hs : list (nat * list Z)) : store :=
  map (fun '(i, h) => (("edges_list_hashes__" ++ nat_to_string i)%string, HInts h)) hs.
Definition head_entries (r : bfs_result) : store :=
  [("bfs_completed", HBool (r_completed r)); ("layer_sizes", HInts (r_sizes r))].
Definition tail_entries (r : bfs_result) : store :=
  [("edges_list_hashes", match r_edges r with Some e => HInts2 e | None => HEmptyScalar end);
   ("graph__generators", HInts2 (r_gens r)); ("graph__generator_names", HStrs (r_gen_names r));
   ("graph__central_state", HInts (r_central r)); ("graph__name", HStr (r_name r))].

Lemma save_split r :
  save r = head_entries r ++ layer_entries (r_layers r)
           ++ hash_entries (combine (seq 0 (List.length (r_hashes r))) (r_hashes r))
           ++ tail_entries r.
Proof. reflexivity. Qed.

Lemma get_layer_entries_none k ls :
  (forall s, String.eqb k ("layer__" ++ s) = false) -> store_get k (layer_entries ls) = None.
Proof.
  intro H. induction ls as [|[n l] ls IH]; [reflexivity|].
  cbn [layer_entries map store_get]. rewrite H. exact IH.
Qed.

Lemma get_hash_entries_none k hs :
  (forall s, String.eqb k ("edges_list_hashes__" ++ s) = false) -> store_get k (hash_entries hs) = None.
Proof.
  intro H. induction hs as [|[n l] hs IH]; [reflexivity|].
  cbn [hash_entries map store_get]. rewrite H. exact IH.
Qed.

(* a key that cannot be a layer / hash key is looked up in the fixed entries only *)
Lemma save_get_fixed k r :
  (forall s, String.eqb k ("layer__" ++ s) = false) ->
  (forall s, String.eqb k ("edges_list_hashes__" ++ s) = false) ->
  store_get k (save r) = store_get k (head_entries r ++ tail_entries r).
Proof.
  intros H1 H2. rewrite save_split, !store_get_app.
  rewrite get_layer_entries_none by exact H1.
  rewrite get_hash_entries_none by exact H2.
  reflexivity.
Qed.

Lemma get_sizes r : store_get "layer_sizes" (save r) = Some (HInts (r_sizes r)).
Proof. rewrite save_get_fixed by (intro; reflexivity). reflexivity. Qed.
Lemma get_edges r : store_get "edges_list_hashes" (save r)
  = Some (match r_edges r with Some e => HInts2 e | None => HEmptyScalar end).
Proof. rewrite save_get_fixed by (intro; reflexivity). reflexivity. Qed.
Lemma get_completed r : store_get "bfs_completed" (save r) = Some (HBool (r_completed r)).
Proof. rewrite save_get_fixed by (intro; reflexivity). reflexivity. Qed.
Lemma get_gens r : store_get "graph__generators" (save r) = Some (HInts2 (r_gens r)).
Proof. rewrite save_get_fixed by (intro; reflexivity). reflexivity. Qed.
Lemma get_gen_names r : store_get "graph__generator_names" (save r) = Some (HStrs (r_gen_names r)).
Proof. rewrite save_get_fixed by (intro; reflexivity). reflexivity. Qed.
Lemma get_central r : store_get "graph__central_state" (save r) = Some (HInts (r_central r)).
Proof. rewrite save_get_fixed by (intro; reflexivity). reflexivity. Qed.
Lemma get_name r : store_get "graph__name" (save r) = Some (HStr (r_name r)).
Proof. rewrite save_get_fixed by (intro; reflexivity). reflexivity. Qed.

(* ------------------------------------------------------------------------- *)
(** * Hash lists *)

Definition hkey (s : string) : string := ("edges_list_hashes__" ++ s)%string.

Lemma hkey_head s r : store_get (hkey s) (head_entries r) = None.
Proof. reflexivity. Qed.
Lemma hkey_tail s r : store_get (hkey s) (tail_entries r) = None.
Proof. reflexivity. Qed.
Lemma hkey_layers s ls : store_get (hkey s) (layer_entries ls) = None.
Proof. apply get_layer_entries_none. intro; reflexivity. Qed.
Lemma hkey_eqb s s' : String.eqb (hkey s) (hkey s') = String.eqb s s'.
Proof. reflexivity. Qed.

Lemma nat_to_string_eqb i j : String.eqb (nat_to_string i) (nat_to_string j) = Nat.eqb i j.
Proof.
  destruct (Nat.eqb_spec i j) as [->|N].
  - apply String.eqb_refl.
  - apply String.eqb_neq. intro H. apply N, nat_to_string_inj, H.
Qed.

Lemma hkey_hashes hs : forall a i,
  store_get (hkey (nat_to_string i)) (hash_entries (combine (seq a (List.length hs)) hs))
  = match (if (a <=? i)%nat then nth_error hs (i - a) else None) with
    | Some h => Some (HInts h)
    | None => None
    end.
Proof.
  induction hs as [|h hs IH]; intros a i.
  - simpl. destruct (a <=? i)%nat; [destruct (i - a)|]; reflexivity.
  - cbn [List.length seq combine hash_entries map store_get].
    fold (hkey (nat_to_string a)). rewrite hkey_eqb, nat_to_string_eqb.
    fold (hash_entries (combine (seq (S a) (List.length hs)) hs)).
    rewrite IH.
    destruct (Nat.eqb_spec i a) as [->|N].
    + rewrite Nat.leb_refl, Nat.sub_diag. reflexivity.
    + destruct (Nat.leb_spec a i) as [L|L].
      * destruct (Nat.leb_spec (S a) i) as [L'|L']; [|lia].
        replace (i - a) with (S (i - S a)) by lia. reflexivity.
      * destruct (Nat.leb_spec (S a) i) as [L'|L']; [lia|]. reflexivity.
Qed.

Lemma save_get_hash r i :
  store_get (hkey (nat_to_string i)) (save r)
  = match nth_error (r_hashes r) i with Some h => Some (HInts h) | None => None end.
Proof.
  rewrite save_split, !store_get_app.
  rewrite hkey_head, hkey_layers, hkey_hashes, hkey_tail.
  cbn [Nat.leb]. rewrite Nat.sub_0_r.
  destruct (nth_error (r_hashes r) i); reflexivity.
Qed.

Lemma skipn_nth_error {A} (l : list A) : forall i,
  skipn i l = match nth_error l i with Some x => x :: skipn (S i) l | None => [] end.
Proof.
  induction l as [|x l IH]; intros [|i]; try reflexivity.
  cbn [nth_error]. rewrite <- IH. reflexivity.
Qed.

Lemma load_hashes_skipn r : forall fuel i,
  (List.length (r_hashes r) <= i + fuel)%nat ->
  load_hashes (save r) i fuel = skipn i (r_hashes r).
Proof.
  induction fuel as [|f IH]; intros i H.
  - simpl. rewrite skipn_all2 by lia. reflexivity.
  - cbn [load_hashes]. fold (hkey (nat_to_string i)).
    rewrite save_get_hash, (skipn_nth_error (r_hashes r) i).
    destruct (nth_error (r_hashes r) i); [|reflexivity].
    rewrite IH by lia. reflexivity.
Qed.

Lemma load_hashes_save r :
  (List.length (r_hashes r) <= List.length (r_sizes r))%nat ->
  load_hashes (save r) 0 (List.length (r_sizes r)) = r_hashes r.
Proof. intro H. rewrite load_hashes_skipn by lia. reflexivity. Qed.

(* ------------------------------------------------------------------------- *)
(** * Stored layers *)

Definition layer_pick : string * h5val -> list (nat * list (list Z)) :=
  fun '(k, v) =>
    if starts_with "layer__" k then
      match parse_nat (strip k), v with
      | Some n, HInts2 l => [(n, l)]
      | _, _ => []
      end
    else [].

Lemma starts_with_layer s : starts_with "layer__" ("layer__" ++ s)%string = true.
Proof.
  unfold starts_with.
  change (String.prefix "layer__" ("layer__" ++ s)%string) with (String.prefix "" s).
  destruct s; reflexivity.
Qed.

Lemma pick_layer_entries ls : flat_map layer_pick (layer_entries ls) = ls.
Proof.
  induction ls as [|[k l] ls IH]; [reflexivity|].
  cbn [layer_entries map flat_map]. fold (layer_entries ls). rewrite IH.
  unfold layer_pick at 1.
  rewrite starts_with_layer. rewrite strip_parse_key. reflexivity.
Qed.

Lemma pick_hash_entries hs : flat_map layer_pick (hash_entries hs) = [].
Proof.
  induction hs as [|[k l] hs IH]; [reflexivity|].
  cbn [hash_entries map flat_map]. fold (hash_entries hs). rewrite IH.
  reflexivity.
Qed.

Lemma pick_head r : flat_map layer_pick (head_entries r) = [].
Proof. reflexivity. Qed.
Lemma pick_tail r : flat_map layer_pick (tail_entries r) = [].
Proof. reflexivity. Qed.

Lemma pick_save r : flat_map layer_pick (save r) = r_layers r.
Proof.
  rewrite save_split, !flat_map_app.
  rewrite pick_head, pick_layer_entries, pick_hash_entries, pick_tail.
  simpl. rewrite app_nil_r. reflexivity.
Qed.

(* ------------------------------------------------------------------------- *)
(** * Round trip *)

Theorem load_save r :
  (List.length (r_hashes r) <= List.length (r_sizes r))%nat -> load (save r) = Ok r.
Proof.
  intro H. unfold load.
  rewrite get_sizes, get_edges, get_completed, get_gens, get_gen_names, get_central, get_name.
  cbv zeta. fold layer_pick.
  rewrite pick_save, load_hashes_save by exact H.
  destruct r as [c sz ly hs ed gs gn ce nm]; cbn [r_completed r_sizes r_layers r_hashes r_edges r_gens
    r_gen_names r_central r_name].
  destruct ed; reflexivity.
Qed.

(* ------------------------------------------------------------------------- *)
(** * Equality *)

Lemma list_eqb_refl' {A} (eqb : A -> A -> bool) :
  (forall x, eqb x x = true) -> forall l, list_eqb eqb l l = true.
Proof. intros H l. induction l; simpl; [reflexivity|]. rewrite H, IHl. reflexivity. Qed.

Lemma list_eqb_true' {A} (eqb : A -> A -> bool) :
  (forall x y, eqb x y = true -> x = y) -> forall a b, list_eqb eqb a b = true -> a = b.
Proof.
  intros H a. induction a as [|x a IH]; intros [|y b]; simpl; intro E; try discriminate; [reflexivity|].
  apply andb_true_iff in E. destruct E as [E1 E2]. f_equal; auto.
Qed.

Lemma z_list_eqb_refl l : z_list_eqb l l = true.
Proof. apply list_eqb_refl'. apply Z.eqb_refl. Qed.
Lemma z_list2_eqb_refl l : z_list2_eqb l l = true.
Proof. apply list_eqb_refl'. apply z_list_eqb_refl. Qed.
Lemma z_list_eqb_true a b : z_list_eqb a b = true -> a = b.
Proof. apply list_eqb_true'. intros x y; apply Z.eqb_eq. Qed.
Lemma z_list2_eqb_true a b : z_list2_eqb a b = true -> a = b.
Proof. apply list_eqb_true'. apply z_list_eqb_true. Qed.

Lemma layers_eqb_refl a : layers_eqb a a = true.
Proof.
  unfold layers_eqb. apply andb_true_iff. split; apply forallb_forall; intros [k l] Hin;
    apply existsb_exists; exists (k, l); (split; [exact Hin|]).
  - rewrite Nat.eqb_refl, z_list2_eqb_refl. reflexivity.
  - apply Nat.eqb_refl.
Qed.

Lemma result_eq_refl r : result_eq r r = true.
Proof.
  unfold result_eq.
  assert (Ho : option_eqb z_list2_eqb (r_edges r) (r_edges r) = true)
    by (destruct (r_edges r); simpl; [apply z_list2_eqb_refl | reflexivity]).
  rewrite Ho, Bool.eqb_reflx, !z_list_eqb_refl, layers_eqb_refl, !z_list2_eqb_refl, String.eqb_refl.
  rewrite (list_eqb_refl' String.eqb String.eqb_refl).
  reflexivity.
Qed.

(* and therefore compares equal, and path queries on the loaded result are the same function of the same data *)
Corollary load_save_eq r : (List.length (r_hashes r) <= List.length (r_sizes r))%nat ->
  exists r', load (save r) = Ok r' /\ result_eq r' r = true /\ result_eq r r' = true.
Proof.
  intro H. exists r. split; [apply load_save, H|]. split; apply result_eq_refl.
Qed.

(* equality distinguishes: equal results agree on every field (stored layers as maps) *)
Theorem result_eq_sound a b : result_eq a b = true ->
  r_completed a = r_completed b /\ r_sizes a = r_sizes b /\ r_hashes a = r_hashes b /\ r_edges a = r_edges b /\
  r_gens a = r_gens b /\ r_gen_names a = r_gen_names b /\ r_central a = r_central b /\ r_name a = r_name b /\
  (forall k l, In (k, l) (r_layers a) -> exists l', In (k, l') (r_layers b) /\ l' = l) /\
  (forall k l, In (k, l) (r_layers b) -> exists l', In (k, l') (r_layers a)).
Proof.
  unfold result_eq. intro E.
  repeat (apply andb_true_iff in E; let E' := fresh "E" in destruct E as [E E']).
  unfold layers_eqb in E6. apply andb_true_iff in E6. destruct E6 as [La Lb].
  repeat split.
  - apply Bool.eqb_prop, E.
  - apply z_list_eqb_true; assumption.
  - apply z_list2_eqb_true; assumption.
  - destruct (r_edges a), (r_edges b); simpl in *; try discriminate; try reflexivity.
    f_equal. apply z_list2_eqb_true; assumption.
  - apply z_list2_eqb_true; assumption.
  - apply (list_eqb_true' String.eqb); [intros x y; apply String.eqb_eq | assumption].
  - apply z_list_eqb_true; assumption.
  - apply String.eqb_eq; assumption.
  - intros k l Hin. rewrite forallb_forall in La. specialize (La _ Hin). cbv beta iota in La.
    apply existsb_exists in La. destruct La as [[k' l'] [Hin' Hk]].
    apply andb_true_iff in Hk. destruct Hk as [Hk Hl].
    apply Nat.eqb_eq in Hk. apply z_list2_eqb_true in Hl. subst.
    exists l'. split; [assumption | reflexivity].
  - intros k l Hin. rewrite forallb_forall in Lb. specialize (Lb _ Hin). cbv beta iota in Lb.
    apply existsb_exists in Lb. destruct Lb as [[k' l'] [Hin' Hk]].
    apply Nat.eqb_eq in Hk. subst. exists l'. assumption.
Qed.

(* contrapositive: results that differ in a scalar / list field compare unequal *)
Corollary result_eq_distinguishes a b :
  (r_completed a <> r_completed b \/ r_sizes a <> r_sizes b \/ r_hashes a <> r_hashes b \/
   r_edges a <> r_edges b \/ r_gens a <> r_gens b \/ r_gen_names a <> r_gen_names b \/
   r_central a <> r_central b \/ r_name a <> r_name b) ->
  result_eq a b = false.
Proof.
  intro H. destruct (result_eq a b) eqn:E; [|reflexivity].
  apply result_eq_sound in E. exfalso. intuition congruence.
Qed.

Print Assumptions strip_parse_key.
Print Assumptions nat_to_string_inj.
Print Assumptions load_save.
Print Assumptions load_save_eq.
Print Assumptions result_eq_refl.
Print Assumptions result_eq_sound.
