(** Proofs about cayleypy/permutation_utils.py's model (Perm.v): group laws (C20, C10). *)
From Coq Require Import ZArith List Bool Arith Lia Sorting.Mergesort Sorting.Permutation Sorting.Sorted Classes.RelationClasses.
From V Require Import Base Perm.
Import ListNotations.

(* ---------- generic list facts ---------- *)
Lemma upd_length {A} (l : list A) i v : length (upd l i v) = length l.
Proof. revert i; induction l as [|h t IH]; intros [|i]; simpl; auto. Qed.

Lemma nth_upd_same {A} (l : list A) i v d : i < length l -> nth i (upd l i v) d = v.
Proof. revert i; induction l as [|h t IH]; intros [|i] H; simpl in *; try lia; auto. apply IH; lia. Qed.

Lemma nth_upd_other {A} (l : list A) i j v d : i <> j -> nth j (upd l i v) d = nth j l d.
Proof.
  revert i j; induction l as [|h t IH]; intros [|i] [|j] H; simpl; auto; try lia.
Qed.

Lemma list_eqb_nat_true l1 l2 : nat_list_eqb l1 l2 = true <-> l1 = l2.
Proof.
  unfold nat_list_eqb. revert l2; induction l1 as [|a t IH]; intros [|b t2]; simpl; split; intros H;
    try discriminate; auto.
  - apply andb_true_iff in H as [H1 H2]. apply Nat.eqb_eq in H1. apply IH in H2. congruence.
  - inversion H; subst. rewrite Nat.eqb_refl. simpl. apply IH. reflexivity.
Qed.

Lemma nth_ext' {A} (l1 l2 : list A) d :
  length l1 = length l2 -> (forall i, i < length l1 -> nth i l1 d = nth i l2 d) -> l1 = l2.
Proof. intros H1 H2. apply nth_ext with (d := d) (d' := d); auto. Qed.

(* ---------- what "p is a permutation" means ---------- *)
Definition Perm (p : list nat) : Prop := Permutation p (seq 0 (length p)).

Lemma sorted_perm_unique l1 l2 :
  StronglySorted le l1 -> StronglySorted le l2 -> Permutation l1 l2 -> l1 = l2.
Proof.
  revert l2; induction l1 as [|a t IH]; intros l2 S1 S2 P.
  - apply Permutation_nil in P. auto.
  - destruct l2 as [|b t2]; [apply Permutation_sym, Permutation_nil in P; discriminate|].
    inversion S1 as [|? ? S1' F1]; inversion S2 as [|? ? S2' F2]; subst.
    assert (a = b).
    { assert (In a (b :: t2)) as Ia by (eapply Permutation_in; [exact P|left; auto]).
      assert (In b (a :: t)) as Ib by (eapply Permutation_in; [apply Permutation_sym; exact P|left; auto]).
      destruct Ia as [->|Ia]; auto. destruct Ib as [->|Ib]; auto.
      rewrite Forall_forall in F1, F2. specialize (F1 _ Ib). specialize (F2 _ Ia). lia. }
    subst b. f_equal. apply IH; auto. eapply Permutation_cons_inv; eauto.
Qed.

Lemma seq_strongly_sorted s n : StronglySorted le (seq s n).
Proof.
  revert s; induction n as [|n IH]; intros s; simpl; constructor; auto.
  apply Forall_forall. intros x Hx. apply in_seq in Hx. lia.
Qed.

Lemma natsort_strongly_sorted l : StronglySorted le (NatSort.sort l).
Proof.
  pose proof (NatSort.StronglySorted_sort l) as H.
  assert (Transitive (fun x y => is_true (x <=? y))) as T.
  { intros x y z. unfold is_true. rewrite !Nat.leb_le. lia. }
  specialize (H T). clear T.
  induction H as [|a t S IH F]; constructor; auto.
  eapply Forall_impl; [|exact F]. intros b Hb. apply Nat.leb_le. exact Hb.
Qed.

Lemma is_perm_iff p : is_perm p = true <-> Perm p.
Proof.
  unfold is_perm, Perm. rewrite list_eqb_nat_true. split; intros H.
  - rewrite <- H. apply NatSort.Permuted_sort.
  - apply sorted_perm_unique.
    + apply natsort_strongly_sorted.
    + apply seq_strongly_sorted.
    + eapply Permutation_trans; [apply Permutation_sym, NatSort.Permuted_sort|exact H].
Qed.

Lemma Perm_NoDup p : Perm p -> NoDup p.
Proof. intros H. eapply Permutation_NoDup; [apply Permutation_sym; exact H|apply seq_NoDup]. Qed.

Lemma Perm_lt p i : Perm p -> i < length p -> nth i p 0 < length p.
Proof.
  intros H Hi. assert (In (nth i p 0) (seq 0 (length p))) as I.
  { eapply Permutation_in; [exact H|apply nth_In; auto]. }
  apply in_seq in I. lia.
Qed.

Lemma Perm_In p x : Perm p -> (In x p <-> x < length p).
Proof.
  intros H. split; intros I.
  - eapply Permutation_in in I; [|exact H]. apply in_seq in I. lia.
  - eapply Permutation_in; [apply Permutation_sym; exact H|]. apply in_seq. lia.
Qed.

Lemma Perm_surj p j : Perm p -> j < length p -> exists i, i < length p /\ nth i p 0 = j.
Proof. intros H Hj. apply (proj2 (Perm_In p j H)) in Hj. apply In_nth with (d := 0) in Hj. exact Hj. Qed.

Lemma Perm_inj p i j : Perm p -> i < length p -> j < length p -> nth i p 0 = nth j p 0 -> i = j.
Proof. intros H. apply NoDup_nth. apply Perm_NoDup; auto. Qed.

(* a list of length n whose entries are < n and pairwise distinct is a permutation *)
Lemma NoDup_lt_Perm p : NoDup p -> (forall x, In x p -> x < length p) -> Perm p.
Proof.
  intros ND Hlt. unfold Perm. apply NoDup_Permutation_bis; auto.
  - rewrite seq_length. lia.
  - intros x Hx. apply in_seq. specialize (Hlt x Hx). lia.
Qed.

(* ---------- apply / compose ---------- *)
Lemma apply_perm_length {A} (d : A) p x : length (apply_perm d p x) = length p.
Proof. unfold apply_perm. apply map_length. Qed.

Lemma nth_map_lt {A B} (f : A -> B) (l : list A) i da db : i < length l -> nth i (map f l) db = f (nth i l da).
Proof. revert i; induction l as [|a l IH]; intros [|i] H; simpl in *; try lia; auto. apply IH. lia. Qed.

Lemma nth_apply_perm {A} (d : A) p x i :
  i < length p -> nth i (apply_perm d p x) d = nth (nth i p 0) x d.
Proof. intros Hi. unfold apply_perm. apply (nth_map_lt (fun i => nth i x d) p i 0 d Hi). Qed.

Theorem apply_compose {A} (d : A) p1 p2 x :
  Forall (fun i => i < length p2) p1 ->
  apply_perm d (compose p1 p2) x = apply_perm d p1 (apply_perm d p2 x).
Proof.
  intros H. unfold compose. unfold apply_perm at 1 2 3. rewrite map_map.
  apply map_ext_in. intros i Hi. rewrite Forall_forall in H. specialize (H i Hi).
  symmetry. apply (nth_apply_perm d p2 x i H).
Qed.

Lemma apply_identity {A} (d : A) x : apply_perm d (identity_perm (length x)) x = x.
Proof.
  apply nth_ext' with (d := d).
  - rewrite apply_perm_length. unfold identity_perm. apply seq_length.
  - intros i Hi. rewrite apply_perm_length in Hi. unfold identity_perm in *. rewrite seq_length in Hi.
    rewrite nth_apply_perm by (rewrite seq_length; lia). rewrite seq_nth by lia. reflexivity.
Qed.

(* ---------- inverse ---------- *)
Lemma inverse_perm_length p : length (inverse_perm p) = length p.
Proof.
  unfold inverse_perm.
  assert (forall l ans, length (fold_left (fun ans i => upd ans (nth i p 0) i) l ans) = length ans) as H.
  { induction l as [|a l IH]; intros ans; simpl; auto. rewrite IH. apply upd_length. }
  rewrite H. apply repeat_length.
Qed.

Lemma inverse_fold_inv p : NoDup p -> (forall i, i < length p -> nth i p 0 < length p) ->
  forall k ans, k <= length p -> length ans = length p ->
  let r := fold_left (fun ans i => upd ans (nth i p 0) i) (seq 0 k) ans in
  (forall i, i < k -> nth (nth i p 0) r 0 = i) /\
  (forall j, (forall i, i < k -> nth i p 0 <> j) -> nth j r 0 = nth j ans 0).
Proof.
  intros ND Hlt. induction k as [|k IH]; intros ans Hk Hl; cbv zeta.
  - simpl. split; intros; [lia|reflexivity].
  - rewrite seq_S, fold_left_app. cbn [fold_left Nat.add].
    destruct (IH ans ltac:(lia) Hl) as [I1 I2]. cbv zeta in I1, I2.
    set (r := fold_left _ (seq 0 k) ans) in *.
    assert (length r = length p) as Hr.
    { unfold r. clear -Hl. revert ans Hl. generalize (seq 0 k). induction l as [|a l IHl]; intros ans Hl; simpl; auto.
      apply IHl. rewrite upd_length. auto. }
    split.
    + intros i Hi. destruct (Nat.eq_dec i k) as [->|Hne].
      * apply nth_upd_same. rewrite Hr. apply Hlt. lia.
      * rewrite nth_upd_other. { apply I1. lia. }
        intros E. apply Hne. symmetry. apply (proj1 (NoDup_nth p 0) ND); try lia. 
    + intros j Hj. rewrite nth_upd_other by (apply Hj; lia). apply I2. intros i Hi. apply Hj. lia.
Qed.

Lemma inverse_spec p i : Perm p -> i < length p -> nth (nth i p 0) (inverse_perm p) 0 = i.
Proof.
  intros H Hi. unfold inverse_perm.
  destruct (inverse_fold_inv p (Perm_NoDup p H) (fun i Hi => Perm_lt p i H Hi) (length p)
              (repeat 0 (length p)) (le_n _) (repeat_length _ _)) as [I1 _].
  apply I1. exact Hi.
Qed.

Lemma inverse_spec' p j : Perm p -> j < length p -> nth (nth j (inverse_perm p) 0) p 0 = j.
Proof.
  intros H Hj. destruct (Perm_surj p j H Hj) as (i & Hi & <-). rewrite inverse_spec; auto.
Qed.

Lemma inverse_lt p j : Perm p -> j < length p -> nth j (inverse_perm p) 0 < length p.
Proof.
  intros H Hj. destruct (Perm_surj p j H Hj) as (i & Hi & <-). rewrite inverse_spec; auto.
Qed.

Theorem inverse_is_perm p : Perm p -> Perm (inverse_perm p).
Proof.
  intros H. apply NoDup_lt_Perm.
  - apply (proj2 (NoDup_nth (inverse_perm p) 0)). rewrite inverse_perm_length. intros i j Hi Hj E.
    rewrite <- (inverse_spec' p i H Hi), <- (inverse_spec' p j H Hj). rewrite E. reflexivity.
  - intros x Hx. apply In_nth with (d := 0) in Hx as (j & Hj & <-). rewrite inverse_perm_length in *.
    apply inverse_lt; auto.
Qed.

Theorem compose_inverse_r p : Perm p -> compose p (inverse_perm p) = identity_perm (length p).
Proof.
  intros H. unfold compose, identity_perm. apply nth_ext' with (d := 0).
  - rewrite apply_perm_length, seq_length. reflexivity.
  - intros i Hi. rewrite apply_perm_length in Hi. rewrite nth_apply_perm by auto.
    rewrite seq_nth by lia. apply inverse_spec; auto.
Qed.

Theorem compose_inverse_l p : Perm p -> compose (inverse_perm p) p = identity_perm (length p).
Proof.
  intros H. unfold compose, identity_perm. apply nth_ext' with (d := 0).
  - rewrite apply_perm_length, seq_length. apply inverse_perm_length.
  - intros i Hi. rewrite apply_perm_length, inverse_perm_length in Hi.
    rewrite nth_apply_perm by (rewrite inverse_perm_length; auto).
    rewrite seq_nth by lia. apply inverse_spec'; auto.
Qed.

Theorem inverse_involutive p : Perm p -> inverse_perm (inverse_perm p) = p.
Proof.
  intros H. pose proof (inverse_is_perm p H) as Hq.
  apply nth_ext' with (d := 0).
  - rewrite !inverse_perm_length. reflexivity.
  - intros i Hi. rewrite !inverse_perm_length in Hi.
    (* i = q[p[i]], and inverse q at q[j] is j *)
    rewrite <- (inverse_spec p i H Hi) at 1.
    apply inverse_spec; auto. rewrite inverse_perm_length. apply Perm_lt; auto.
Qed.

(* the inverse really undoes the action on every sequence of the right length (C10.1) *)
Theorem inverse_undoes {A} (d : A) p x : Perm p -> length x = length p ->
  apply_perm d (inverse_perm p) (apply_perm d p x) = x /\
  apply_perm d p (apply_perm d (inverse_perm p) x) = x.
Proof.
  intros H Hl. split.
  - rewrite <- apply_compose.
    + rewrite compose_inverse_l by auto. rewrite <- Hl. apply apply_identity.
    + apply Forall_forall. intros i Hi. apply In_nth with (d := 0) in Hi as (j & Hj & <-).
      rewrite inverse_perm_length in Hj. apply inverse_lt; auto.
  - rewrite <- apply_compose.
    + rewrite compose_inverse_r by auto. rewrite <- Hl. apply apply_identity.
    + apply Forall_forall. intros i Hi. rewrite inverse_perm_length. apply Perm_In; auto.
Qed.

Theorem compose_is_perm p q : Perm p -> Perm q -> length p = length q -> Perm (compose p q).
Proof.
  intros Hp Hq Hl. apply NoDup_lt_Perm.
  - apply (proj2 (NoDup_nth (compose p q) 0)). unfold compose. rewrite apply_perm_length.
    intros i j Hi Hj E. rewrite !nth_apply_perm in E by auto.
    apply (Perm_inj p i j Hp Hi Hj). apply (Perm_inj q); auto; try (rewrite <- Hl; apply Perm_lt; auto).
  - intros x Hx. unfold compose in *. rewrite apply_perm_length.
    apply In_nth with (d := 0) in Hx as (j & Hj & <-). rewrite apply_perm_length in Hj.
    rewrite nth_apply_perm by auto. rewrite Hl. apply Perm_lt; auto. rewrite <- Hl. apply Perm_lt; auto.
Qed.
