(** Shared small definitions: result type with the library's error classes, list helpers. *)
From Coq Require Import ZArith List Bool Arith Lia.
Import ListNotations.

Inductive err := AssertionErr | ValueErr | IndexErr | KeyErr | TypeErr | RuntimeErr.
Inductive result (A : Type) := Ok (a : A) | Err (e : err).
Arguments Ok {A} a. Arguments Err {A} e.

Definition bind {A B} (r : result A) (f : A -> result B) : result B :=
  match r with Ok a => f a | Err e => Err e end.
Notation "'do' x <- r ; k" := (bind r (fun x => k)) (at level 200, x pattern, r at level 100, k at level 200).

Definition err_eqb (a b : err) : bool :=
  match a, b with
  | AssertionErr, AssertionErr | ValueErr, ValueErr | IndexErr, IndexErr
  | KeyErr, KeyErr | TypeErr, TypeErr | RuntimeErr, RuntimeErr => true
  | _, _ => false end.

Definition result_eqb {A} (eqb : A -> A -> bool) (x y : result A) : bool :=
  match x, y with Ok a, Ok b => eqb a b | Err e, Err f => err_eqb e f | _, _ => false end.

Fixpoint list_eqb {A} (eqb : A -> A -> bool) (l1 l2 : list A) : bool :=
  match l1, l2 with
  | [], [] => true
  | a :: t1, b :: t2 => eqb a b && list_eqb eqb t1 t2
  | _, _ => false end.

Definition option_eqb {A} (eqb : A -> A -> bool) (x y : option A) : bool :=
  match x, y with Some a, Some b => eqb a b | None, None => true | _, _ => false end.

Definition pair_eqb {A B} (ea : A -> A -> bool) (eb : B -> B -> bool) (x y : A * B) : bool :=
  ea (fst x) (fst y) && eb (snd x) (snd y).

(* in-place update of one cell; out of range leaves the list unchanged *)
Fixpoint upd {A} (l : list A) (i : nat) (v : A) : list A :=
  match l, i with
  | [], _ => []
  | _ :: t, O => v :: t
  | h :: t, S i' => h :: upd t i' v
  end.

(* indices of the cases on which a check fails: what the correspondence harness prints *)
Fixpoint failing_from {A} (chk : A -> bool) (k : nat) (l : list A) : list nat :=
  match l with
  | [] => []
  | a :: t => if chk a then failing_from chk (S k) t else k :: failing_from chk (S k) t
  end.
Definition failing {A} (chk : A -> bool) (l : list A) : list nat := failing_from chk 0 l.

Definition nat_list_eqb := list_eqb Nat.eqb.
Definition z_list_eqb := list_eqb Z.eqb.
Definition z_list2_eqb := list_eqb z_list_eqb.
Definition nat_list2_eqb := list_eqb nat_list_eqb.

(* ---- bounded loops with early exit ----
   [for _ in range(n): body] where the body may break.  [loop_nat] is the structural version the
   theorems talk about; [loop_pos] runs the same loop on a binary bound (Python bounds such as
   10**6 or 10**9 must never become unary numerals) and is proved equal to it in BaseProofs.v. *)
Section Loop.
  Context {S R : Type} (body : S -> S + R).
  Fixpoint loop_nat (n : nat) (s : S) : S + R :=
    match n with
    | O => inl s
    | Datatypes.S n' => match body s with inl s' => loop_nat n' s' | inr r => inr r end
    end.
  Fixpoint loop_pos (p : positive) (s : S) : S + R :=
    match p with
    | xH => body s
    | xO p' => match loop_pos p' s with inl s' => loop_pos p' s' | inr r => inr r end
    | xI p' => match body s with
               | inl s1 => match loop_pos p' s1 with inl s2 => loop_pos p' s2 | inr r => inr r end
               | inr r => inr r
               end
    end.
  Definition loop_N (n : N) (s : S) : S + R :=
    match n with N0 => inl s | Npos p => loop_pos p s end.
End Loop.
