(** Shared small definitions: result type with the library's error classes, list helpers. *)
From Coq Require Import ZArith List Bool Arith Lia.
Import ListNotations.

Inductive err := AssertionErr | ValueErr | IndexErr | KeyErr | TypeErr | RuntimeErr.
Inductive result (A : Type) := Ok (a : A) | Err (e : err).
Arguments Ok {A} a. Arguments Err {A} e.

Definition bind {A B} (r : result A) (f : A -> result B) : result B :=
  match r with Ok a => f a | Err e => Err e end.
Notation "'do' x <- r ; k" := (bind r (fun x => k)) (at level 200, x pattern, r at level 100, k at level 200).

Definition err_eqb (a b : err) : bool :=
  match a, b with
  | AssertionErr, AssertionErr | ValueErr, ValueErr | IndexErr, IndexErr
  | KeyErr, KeyErr | TypeErr, TypeErr | RuntimeErr, RuntimeErr => true
  | _, _ => false end.

Definition result_eqb {A} (eqb : A -> A -> bool) (x y : result A) : bool :=
  match x, y with Ok a, Ok b => eqb a b | Err e, Err f => err_eqb e f | _, _ => false end.

Fixpoint list_eqb {A} (eqb : A -> A -> bool) (l1 l2 : list A) : bool :=
  match l1, l2 with
  | [], [] => true
  | a :: t1, b :: t2 => eqb a b && list_eqb eqb t1 t2
  | _, _ => false end.

Definition option_eqb {A} (eqb : A -> A -> bool) (x y : option A) : bool :=
  match x, y with Some a, Some b => eqb a b | None, None => true | _, _ => false end.

Definition pair_eqb {A B} (ea : A -> A -> bool) (eb : B -> B -> bool) (x y : A * B) : bool :=
  ea (fst x) (fst y) && eb (snd x) (snd y).

(* in-place update of one cell; out of range leaves the list unchanged *)
Fixpoint upd {A} (l : list A) (i : nat) (v : A) : list A :=
  match l, i with
  | [], _ => []
  | _ :: t, O => v :: t
  | h :: t, S i' => h :: upd t i' v
  end.

(* indices of the cases on which a check fails: what the correspondence harness prints *)
Fixpoint failing_from {A} (chk : A -> bool) (k : nat) (l : list A) : list nat :=
  match l with
  | [] => []
  | a :: t => if chk a then failing_from chk (S k) t else k :: failing_from chk (S k) t
  end.
Definition failing {A} (chk : A -> bool) (l : list A) : list nat := failing_from chk 0 l.

Definition nat_list_eqb := list_eqb Nat.eqb.
Definition z_list_eqb := list_eqb Z.eqb.
Definition z_list2_eqb := list_eqb z_list_eqb.
Definition nat_list2_eqb := list_eqb nat_list_eqb.
