(** Helper layer for BitmaskEngineProofs.v:
    - the two lookup tables of BitmaskEngine.v (PREFIX_MAP_1 / PREFIX_MAP_2 on binary numbers) hold
      exactly Bitmask.prefix_table, so the fast rank / unrank agree with Bitmask.rank_to_prefix /
      Bitmask.prefix_to_rank (the functions BitmaskProofs.v is about);
    - [perms_aux r l] with r <= length l is a duplicate-free, complete list of the r-arrangements
      of l (the chunk keys itertools.permutations(range(n), r = n - R));
    - counting lemmas for PositiveSet and for a partition of a list by a key.
    Nothing here computes with the 40320-entry table. *)
From Coq Require Import ZArith NArith PArith List Bool Arith Lia Sorting.Permutation SetoidList
  FMapPositive MSetPositive.
From V Require Import Base Perm PermProofs PermCycles Bitmask BitmaskProofs BitmaskEngine.
Import ListNotations.

(* ------------------------------------------------------------------------------------------- *)
(** * Digit packing is injective *)

Lemma packN_inj (b : N) : forall l1 l2,
  length l1 = length l2 ->
  (forall d, In d l1 -> (N.of_nat d < b)%N) -> (forall d, In d l2 -> (N.of_nat d < b)%N) ->
  packN b l1 = packN b l2 -> l1 = l2.
Proof.
  induction l1 as [|d1 l1 IH]; intros [|d2 l2] Hlen H1 H2 He; try discriminate; [reflexivity|].
  cbn [packN fold_right] in He. fold (packN b l1) in He. fold (packN b l2) in He.
  assert (Hd1 : (N.of_nat d1 < b)%N) by (apply H1; left; reflexivity).
  assert (Hd2 : (N.of_nat d2 < b)%N) by (apply H2; left; reflexivity).
  assert (Hb : b <> 0%N) by lia.
  assert (Hdm : forall d a, (d < b)%N -> ((d + b * a) mod b = d /\ (d + b * a) / b = a)%N).
  { intros d a Hd. rewrite (N.mul_comm b a). split.
    - rewrite N.mod_add by exact Hb. apply N.mod_small. exact Hd.
    - rewrite N.div_add by exact Hb. rewrite N.div_small by exact Hd. reflexivity. }
  assert (Hq : packN b l1 = packN b l2 /\ N.of_nat d1 = N.of_nat d2).
  { destruct (Hdm _ (packN b l1) Hd1) as [M1 Q1]. destruct (Hdm _ (packN b l2) Hd2) as [M2 Q2].
    rewrite He in M1, Q1. split; congruence. }
  destruct Hq as [Hq Hd]. apply Nat2N.inj in Hd. subst d2. f_equal.
  apply IH; auto.
  - intros d Hd. apply H1. right. exact Hd.
  - intros d Hd. apply H2. right. exact Hd.
Qed.

(** the domain of PREFIX_MAP_2: eight digits below eight *)
Definition dom8 (q : list nat) : Prop := length q = 8 /\ forall d, In d q -> d < 8.

Lemma key8_inj q1 q2 : dom8 q1 -> dom8 q2 -> key8 q1 = key8 q2 -> q1 = q2.
Proof.
  intros [L1 D1] [L2 D2] He. unfold key8 in He.
  assert (Hp : packN 8 q1 = packN 8 q2).
  { rewrite <- (N.pos_pred_succ (packN 8 q1)), <- (N.pos_pred_succ (packN 8 q2)), He. reflexivity. }
  apply (packN_inj 8); auto; try congruence.
  - intros d Hd. apply D1 in Hd. lia.
  - intros d Hd. apply D2 in Hd. lia.
Qed.

Lemma prefix_table_dom8 p : In p prefix_table -> dom8 p.
Proof.
  intros Hin. apply prefix_table_In in Hin. destruct Hin as [Hp Hl]. split; [exact Hl|].
  intros d Hd. apply is_perm_iff in Hp. apply (Perm_In p d Hp) in Hd. lia.
Qed.

(* ------------------------------------------------------------------------------------------- *)
(** * The tables *)

Lemma build_map1_gen {A} (l : list A) : forall (m : PM.t A) (i : positive),
  let r := fold_left (fun (mi : PM.t A * positive) p =>
                        (PM.add (snd mi) p (fst mi), Pos.succ (snd mi))) l (m, i) in
  (forall j, j < length l -> PM.find (Pos.of_nat (Pos.to_nat i + j)) (fst r) = nth_error l j) /\
  (forall k, (k < i)%positive -> PM.find k (fst r) = PM.find k m).
Proof.
  induction l as [|a l IH]; intros m i; cbn [fold_left fst snd length].
  - split; [intros j Hj; lia | intros k _; reflexivity].
  - destruct (IH (PM.add i a m) (Pos.succ i)) as [IH1 IH2]. split.
    + intros [|j] Hj.
      * rewrite Nat.add_0_r, Pos2Nat.id. cbn [nth_error].
        rewrite IH2 by lia. apply PM.gss.
      * cbn [nth_error]. rewrite <- IH1 by lia. f_equal. f_equal. lia.
    + intros k Hk. rewrite IH2 by lia. apply PM.gso. lia.
Qed.

Theorem PREFIX_MAP_1_spec r :
  r < fact 8 -> PM.find (Pos.of_succ_nat r) PREFIX_MAP_1 = Some (nth r prefix_table []).
Proof.
  intros Hr. unfold PREFIX_MAP_1, build_map1.
  destruct (build_map1_gen prefix_table (PM.empty (list nat)) 1%positive) as [H1 _].
  rewrite Pos.of_nat_succ. change (S r) with (Pos.to_nat 1 + r).
  rewrite H1 by (rewrite prefix_table_length; exact Hr).
  apply nth_error_nth'. rewrite prefix_table_length. exact Hr.
Qed.

Lemma index_of_None x l : ~ In x l -> forall i, index_of x l i = None.
Proof.
  induction l as [|y t IH]; intros Hn i; cbn [index_of]; [reflexivity|].
  destruct (nat_list_eqb x y) eqn:E.
  - apply list_eqb_nat_true in E. subst y. exfalso. apply Hn. left. reflexivity.
  - apply IH. intros Hin. apply Hn. right. exact Hin.
Qed.

Lemma build_map2_gen (l : list (list nat)) : forall (m : PM.t positive) (i0 : nat) (q : list nat),
  NoDup l -> (forall p, In p l -> dom8 p) -> dom8 q ->
  PM.find (key8 q)
    (fst (fold_left (fun (mi : PM.t positive * positive) p =>
                       (PM.add (key8 p) (snd mi) (fst mi), Pos.succ (snd mi)))
                    l (m, Pos.of_succ_nat i0))) =
  match index_of q l i0 with
  | Some r => Some (Pos.of_succ_nat r)
  | None => PM.find (key8 q) m
  end.
Proof.
  induction l as [|y t IH]; intros m i0 q Hnd Hdom Hq; cbn [fold_left fst snd index_of].
  - reflexivity.
  - inversion Hnd as [|y' t' Hny Hndt]; subst.
    change (Pos.succ (Pos.of_succ_nat i0)) with (Pos.of_succ_nat (S i0)).
    rewrite IH; [|exact Hndt | intros p Hp; apply Hdom; right; exact Hp | exact Hq].
    destruct (nat_list_eqb q y) eqn:E.
    + apply list_eqb_nat_true in E. subst y.
      rewrite (index_of_None q t Hny). apply PM.gss.
    + destruct (index_of q t (S i0)) as [r|]; [reflexivity|].
      apply PM.gso. intros Hk. apply key8_inj in Hk; [| exact Hq | apply Hdom; left; reflexivity].
      subst y. rewrite nat_list_eqb_refl in E. discriminate.
Qed.

Theorem PREFIX_MAP_2_spec q :
  dom8 q ->
  PM.find (key8 q) PREFIX_MAP_2 =
  match index_of q prefix_table 0 with Some r => Some (Pos.of_succ_nat r) | None => None end.
Proof.
  intros Hq. unfold PREFIX_MAP_2, build_map2.
  change 1%positive with (Pos.of_succ_nat 0).
  rewrite (build_map2_gen prefix_table (PM.empty positive) 0 q prefix_table_NoDup
             prefix_table_dom8 Hq).
  destruct (index_of q prefix_table 0); [reflexivity | apply PM.gempty].
Qed.

(* ------------------------------------------------------------------------------------------- *)
(** * fast rank / unrank = Bitmask.v rank / unrank *)

Theorem rank_to_prefix_fast_eq r map1 :
  r < fact 8 -> rank_to_prefix_fast (Pos.of_succ_nat r) map1 = rank_to_prefix r map1.
Proof.
  intros Hr. unfold rank_to_prefix_fast, rank_to_prefix. rewrite (PREFIX_MAP_1_spec r Hr). reflexivity.
Qed.

Theorem prefix_to_rank_fast_eq p map2 :
  dom8 (map (fun v => nth v map2 0) (firstn RR p)) ->
  prefix_to_rank_fast p map2 = Pos.of_succ_nat (prefix_to_rank p map2).
Proof.
  intros Hd. unfold prefix_to_rank_fast, prefix_to_rank. rewrite (PREFIX_MAP_2_spec _ Hd).
  destruct (index_of _ prefix_table 0); reflexivity.
Qed.

(** on a permutation of n symbols, relabelling the prefix through the map2 of its own chunk
    lands in the domain of PREFIX_MAP_2 *)
Lemma relabel_dom8 n perm :
  is_perm perm = true -> length perm = n -> 8 <= n ->
  dom8 (map (fun v => nth v (chunk_map2 n (chunk_map1 n (skipn 8 perm))) 0) (firstn RR perm)).
Proof.
  intros Hp Hlen Hn. apply is_perm_iff in Hp.
  destruct (perm_split_facts n perm Hp Hlen Hn) as [F1 [F2 [F3 [F4 [F5 F6]]]]].
  destruct (chunk_map2_inverse n (skipn 8 perm) F1 F2 F3 Hn) as [_ [_ G3]].
  unfold RR. split.
  - rewrite map_length. exact F4.
  - intros d Hd. apply in_map_iff in Hd. destruct Hd as (v & <- & Hv).
    apply (G3 v (F6 v Hv)).
Qed.

(** THE chunk bijection in the form the engine uses it: unranking the rank of a permutation
    inside its own chunk and gluing the chunk's suffix gives the permutation back *)
Theorem fast_unrank_rank n perm :
  is_perm perm = true -> length perm = n -> 8 <= n ->
  let sfx := skipn 8 perm in
  let map1 := chunk_map1 n sfx in
  let map2 := chunk_map2 n map1 in
  rank_to_prefix_fast (prefix_to_rank_fast perm map2) map1 ++ sfx = perm.
Proof.
  intros Hp Hlen Hn sfx map1 map2.
  unfold map2, map1, sfx.
  rewrite (prefix_to_rank_fast_eq perm _ (relabel_dom8 n perm Hp Hlen Hn)).
  rewrite rank_to_prefix_fast_eq by apply prefix_to_rank_lt.
  rewrite (rank_unrank n perm Hp Hlen Hn). apply firstn_skipn.
Qed.

(* ------------------------------------------------------------------------------------------- *)
(** * r-arrangements *)

Lemma perms_aux_arr_sound {A} r : forall (l p : list A),
  NoDup l -> In p (perms_aux r l) -> length p = r /\ NoDup p /\ incl p l.
Proof.
  induction r as [|r IH]; intros l p Hnd Hin; cbn [perms_aux] in Hin.
  - destruct Hin as [<- | []]. split; [reflexivity|]. split; [constructor | intros x []].
  - apply in_flat_map in Hin. destruct Hin as ([x rest] & Hxr & Hp).
    apply in_map_iff in Hp. destruct Hp as (p' & <- & Hp').
    pose proof (picks_Permutation l x rest Hxr) as HP.
    pose proof (Permutation_NoDup HP Hnd) as Hnd'.
    inversion Hnd' as [|x' rest' Hnx Hndr]; subst.
    destruct (IH rest p' Hndr Hp') as (Hl & Hndp & Hincl).
    split; [cbn [length]; f_equal; exact Hl|]. split.
    + constructor; [|exact Hndp]. intros Hx. apply Hnx. apply Hincl. exact Hx.
    + intros y [<- | Hy].
      * apply (Permutation_in _ (Permutation_sym HP)). left. reflexivity.
      * apply (Permutation_in _ (Permutation_sym HP)). right. apply Hincl. exact Hy.
Qed.

Lemma perms_aux_arr_complete {A} : forall (p l : list A),
  NoDup p -> incl p l -> In p (perms_aux (length p) l).
Proof.
  induction p as [|x p IH]; intros l Hnd Hincl; cbn [length perms_aux].
  - left. reflexivity.
  - inversion Hnd as [|x' p' Hnx Hndp]; subst.
    assert (Hx : In x l) by (apply Hincl; left; reflexivity).
    destruct (picks_In_ex l x Hx) as (rest & Hxr).
    pose proof (picks_Permutation l x rest Hxr) as HP.
    apply in_flat_map. exists (x, rest). split; [exact Hxr|].
    apply in_map. apply IH; [exact Hndp|].
    intros y Hy. assert (Hyl : In y (x :: rest)).
    { apply (Permutation_in _ HP). apply Hincl. right. exact Hy. }
    destruct Hyl as [<- | Hyr]; [contradiction | exact Hyr].
Qed.

Lemma perms_aux_arr_NoDup {A} r : forall (l : list A), NoDup l -> NoDup (perms_aux r l).
Proof.
  induction r as [|r IH]; intros l Hnd; cbn [perms_aux].
  - constructor; [intros [] | constructor].
  - apply NoDup_flat_map_heads.
    + rewrite picks_fst. exact Hnd.
    + intros x rest Hxr. apply IH.
      pose proof (Permutation_NoDup (picks_Permutation l x rest Hxr) Hnd) as Hnd'.
      inversion Hnd'; assumption.
Qed.

(** the chunk keys: duplicate-free, each one satisfying the chunk hypotheses of BitmaskProofs.v,
    and containing the suffix of every permutation of n symbols *)
Definition sfx_ok (n : nat) (sfx : list nat) : Prop :=
  NoDup sfx /\ (forall x, In x sfx -> x < n) /\ length sfx = n - 8.

Theorem suffixes_NoDup n : NoDup (suffixes n).
Proof. apply perms_aux_arr_NoDup. apply seq_NoDup. Qed.

Theorem suffixes_sound n sfx : In sfx (suffixes n) -> sfx_ok n sfx.
Proof.
  intros Hin. destruct (perms_aux_arr_sound _ _ _ (seq_NoDup n 0) Hin) as (Hl & Hnd & Hincl).
  split; [exact Hnd|]. split; [|exact Hl].
  intros x Hx. apply Hincl in Hx. apply in_seq in Hx. lia.
Qed.

Theorem suffixes_complete n sfx : sfx_ok n sfx -> In sfx (suffixes n).
Proof.
  intros (Hnd & Hlt & Hl). unfold suffixes, RR. rewrite <- Hl.
  apply perms_aux_arr_complete; [exact Hnd|].
  intros x Hx. apply in_seq. apply Hlt in Hx. lia.
Qed.

Lemma perm_suffix_ok n perm :
  is_perm perm = true -> length perm = n -> 8 <= n -> sfx_ok n (skipn 8 perm).
Proof.
  intros Hp Hlen Hn. apply is_perm_iff in Hp.
  destruct (perm_split_facts n perm Hp Hlen Hn) as [F1 [F2 [F3 _]]].
  split; [exact F1|]. split; [exact F2 | exact F3].
Qed.

(* ------------------------------------------------------------------------------------------- *)
(** * Counting *)

Lemma cardN_spec s : cardN s = N.of_nat (PS.cardinal s).
Proof.
  induction s as [|l IHl b r IHr]; [reflexivity|].
  cbn [cardN PS.cardinal]. rewrite IHl, IHr. destruct b; lia.
Qed.

Lemma NoDupA_eq_NoDup {A} (l : list A) : NoDupA eq l -> NoDup l.
Proof.
  induction 1 as [|x l Hn _ IH]; constructor; [|exact IH].
  intros Hin. apply Hn. apply In_InA; [typeclasses eauto | exact Hin].
Qed.

Lemma PS_elements_In s x : In x (PS.elements s) <-> PS.In x s.
Proof.
  rewrite <- PS.elements_spec1. rewrite InA_alt. split.
  - intros H. exists x. split; [reflexivity | exact H].
  - intros (y & -> & H). exact H.
Qed.

Lemma PS_elements_NoDup s : NoDup (PS.elements s).
Proof. apply NoDupA_eq_NoDup. apply PS.elements_spec2w. Qed.

(** a set that is the injective image of a duplicate-free list has as many elements *)
Lemma PS_cardinal_image {A} (f : A -> positive) (X : list A) (s : PS.t) :
  NoDup X -> (forall x y, In x X -> In y X -> f x = f y -> x = y) ->
  (forall r, PS.In r s <-> exists q, In q X /\ r = f q) ->
  PS.cardinal s = length X.
Proof.
  intros Hnd Hinj Hs. rewrite PS.cardinal_spec, <- (map_length f X).
  apply Permutation_length. apply NoDup_Permutation.
  - apply PS_elements_NoDup.
  - apply NoDup_map_inj; assumption.
  - intros r. rewrite PS_elements_In, Hs, in_map_iff. split.
    + intros (q & Hq & ->). exists q. auto.
    + intros (q & <- & Hq). exists q. auto.
Qed.

Definition nat_sum (l : list nat) : nat := fold_right Nat.add 0 l.

Lemma count_one (k : list nat) (keys : list (list nat)) :
  NoDup keys -> In k keys ->
  nat_sum (map (fun k' => if nat_list_eqb k k' then 1 else 0) keys) = 1.
Proof.
  induction keys as [|a keys IH]; intros Hnd Hin; [contradiction|].
  inversion Hnd as [|a' keys' Hna Hndk]; subst. cbn [map nat_sum fold_right].
  fold (nat_sum (map (fun k' => if nat_list_eqb k k' then 1 else 0) keys)).
  destruct (nat_list_eqb k a) eqn:E.
  - apply list_eqb_nat_true in E. subst a.
    assert (Hz : forall l, ~ In k l -> nat_sum (map (fun k' => if nat_list_eqb k k' then 1 else 0) l) = 0).
    { induction l as [|b l IHl]; intros Hn; [reflexivity|]. cbn [map nat_sum fold_right].
      destruct (nat_list_eqb k b) eqn:Eb.
      - apply list_eqb_nat_true in Eb. subst b. exfalso. apply Hn. left. reflexivity.
      - apply IHl. intros Hc. apply Hn. right. exact Hc. }
    rewrite (Hz keys Hna). reflexivity.
  - destruct Hin as [-> | Hin]; [rewrite nat_list_eqb_refl in E; discriminate|].
    rewrite (IH Hndk Hin). reflexivity.
Qed.

(** a list whose elements all have their key in a duplicate-free key list splits into the
    classes of the keys *)
Lemma partition_count {A} (key : A -> list nat) (keys : list (list nat)) (X : list A) :
  NoDup keys -> (forall x, In x X -> In (key x) keys) ->
  nat_sum (map (fun k => length (filter (fun x => nat_list_eqb (key x) k) X)) keys) = length X.
Proof.
  intros Hnd. induction X as [|x X IH]; intros Hk.
  - cbn [filter length]. clear. induction keys as [|a keys IHk]; [reflexivity|].
    cbn [map nat_sum fold_right]. exact IHk.
  - assert (Hsplit : nat_sum (map (fun k => length (filter (fun x0 => nat_list_eqb (key x0) k) (x :: X))) keys) =
                     nat_sum (map (fun k' => if nat_list_eqb (key x) k' then 1 else 0) keys) +
                     nat_sum (map (fun k => length (filter (fun x0 => nat_list_eqb (key x0) k) X)) keys)).
    { clear. induction keys as [|a keys IHk]; [reflexivity|].
      cbn [map nat_sum fold_right].
      fold (nat_sum (map (fun k => length (filter (fun x0 => nat_list_eqb (key x0) k) (x :: X))) keys)).
      fold (nat_sum (map (fun k => length (filter (fun x0 => nat_list_eqb (key x0) k) X)) keys)).
      fold (nat_sum (map (fun k' => if nat_list_eqb (key x) k' then 1 else 0) keys)).
      rewrite IHk. cbn [filter]. destruct (nat_list_eqb (key x) a); cbn [length]; lia. }
    rewrite Hsplit, IH by (intros y Hy; apply Hk; right; exact Hy).
    rewrite (count_one (key x) keys Hnd) by (apply Hk; left; reflexivity).
    reflexivity.
Qed.

(* ------------------------------------------------------------------------------------------- *)
(** * Non-vacuity: concrete instances of the hypotheses, and the tables checked by running them *)

Example ex_dom8 : dom8 [3; 0; 7; 1; 2; 5; 4; 6].
Proof. split; [reflexivity|]. intros d Hd. cbn in Hd. lia. Qed.

Example ex_key8_inj : key8 [3; 0; 7; 1; 2; 5; 4; 6] <> key8 [3; 0; 7; 1; 2; 5; 6; 4].
Proof. vm_compute. discriminate. Qed.

(* the tables really are filled (this builds them: about 2 s) *)
Example ex_tables_size :
  (N.of_nat (PM.cardinal PREFIX_MAP_1) =? 40320)%N && (N.of_nat (PM.cardinal PREFIX_MAP_2) =? 40320)%N = true.
Proof. vm_compute. reflexivity. Qed.

Example ex_map1_entry : PM.find (Pos.of_succ_nat 1000) PREFIX_MAP_1 = Some [0; 2; 4; 3; 6; 7; 1; 5].
Proof. vm_compute. reflexivity. Qed.

(* hypotheses of fast_unrank_rank: BitmaskProofs.ex_perm_hyps9 / ex_perm_hyps12; conclusion
   checked independently by running both the fast and the list-level functions *)
Example ex_fast_rank9 :
  let map2 := chunk_map2 9 (chunk_map1 9 (skipn 8 ex_perm9)) in
  prefix_to_rank_fast ex_perm9 map2 = Pos.of_succ_nat (prefix_to_rank ex_perm9 map2).
Proof. vm_compute. reflexivity. Qed.

Example ex_fast_unrank_rank9 :
  rank_to_prefix_fast
    (prefix_to_rank_fast ex_perm9 (chunk_map2 9 (chunk_map1 9 (skipn 8 ex_perm9))))
    (chunk_map1 9 (skipn 8 ex_perm9)) ++ skipn 8 ex_perm9 = ex_perm9.
Proof.
  destruct ex_perm_hyps9 as (Hp & Hl & Hn). exact (fast_unrank_rank 9 ex_perm9 Hp Hl Hn).
Qed.

Example ex_fast_unrank_rank12_run :
  rank_to_prefix_fast
    (prefix_to_rank_fast ex_perm12 (chunk_map2 12 (chunk_map1 12 (skipn 8 ex_perm12))))
    (chunk_map1 12 (skipn 8 ex_perm12)) ++ skipn 8 ex_perm12 = ex_perm12.
Proof. vm_compute. reflexivity. Qed.

(* the chunk keys for n = 9 and n = 10 *)
Example ex_suffixes9 : suffixes 9 = [[0]; [1]; [2]; [3]; [4]; [5]; [6]; [7]; [8]].
Proof. reflexivity. Qed.
Example ex_suffixes10 : length (suffixes 10) = 90 /\ nth 1 (suffixes 10) [] = [0; 2] /\ nth 89 (suffixes 10) [] = [9; 8].
Proof. vm_compute. repeat split; reflexivity. Qed.

Example ex_sfx_ok : sfx_ok 10 [9; 3].
Proof.
  split; [|split; [|reflexivity]].
  - constructor; [intros [H | []]; discriminate | constructor; [intros [] | constructor]].
  - intros x [<- | [<- | []]]; lia.
Qed.

Example ex_sfx_in : In [9; 3] (suffixes 10).
Proof. apply suffixes_complete. exact ex_sfx_ok. Qed.

Example ex_partition_count :
  nat_sum (map (fun k => length (filter (fun x => nat_list_eqb (skipn 2 x) k) [[0;1;5]; [1;0;5]; [5;0;1]]))
               [[5]; [1]; [0]]) = 3.
Proof. reflexivity. Qed.
