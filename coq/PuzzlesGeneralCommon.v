(** Shared lemmas for the general-parameter structure theorems of the generated puzzles
    (PuzzlesGeneralCube.v, PuzzlesGeneralGlobe.v, PuzzlesGeneralRings.v, PuzzlesGeneral.v).

    - [create_def_ok]        : when CayleyGraphDef.create accepts a generator list
    - [inverse_perm_unique]  : a left inverse table IS inverse_perm
    - [involution_inverse]   : an involution is its own inverse_perm
    - [cycle_spec_*]         : a list R that maps C[j] to C[j+1 mod m] and fixes the rest is a permutation
                               with the single cycle C
    - decimal names          : digits never contain a given non-digit character; [str_of_nat] is injective *)
From Coq Require Import String Ascii ZArith List Bool Arith Lia DecimalString Sorting.Permutation.
From Coq Require DecimalNat DecimalFacts.
From V Require Import Base Perm PermProofs Puzzles PuzzlesProofs CubeGeneral CubeGeneralMoves.
Import ListNotations.
Local Open Scope list_scope.
Local Open Scope nat_scope.

(* ====================================================================================== *)
(** * list helpers *)

Lemma flat_map_length_const {A B} (f : A -> list B) k l :
  (forall x, In x l -> length (f x) = k) -> length (flat_map f l) = k * length l.
Proof.
  induction l as [|a l IH]; intros H; cbn [flat_map length]; [lia|].
  rewrite app_length. rewrite (H a) by (left; reflexivity).
  rewrite IH by (intros x Hx; apply H; right; exact Hx). lia.
Qed.

Lemma flat_map_length_same {A B C} (f : A -> list B) (g : A -> list C) l :
  (forall x, In x l -> length (f x) = length (g x)) -> length (flat_map f l) = length (flat_map g l).
Proof.
  induction l as [|a l IH]; intros H; cbn [flat_map]; [reflexivity|].
  rewrite !app_length. rewrite (H a) by (left; reflexivity).
  rewrite IH by (intros x Hx; apply H; right; exact Hx). reflexivity.
Qed.

Lemma flat_map_flat_map {A B C} (f : B -> list C) (g : A -> list B) l :
  flat_map f (flat_map g l) = flat_map (fun x => flat_map f (g x)) l.
Proof.
  induction l as [|a l IH]; cbn [flat_map]; [reflexivity|]. rewrite flat_map_app, IH. reflexivity.
Qed.

Lemma flat_map_ext_in {A B} (f g : A -> list B) l :
  (forall x, In x l -> f x = g x) -> flat_map f l = flat_map g l.
Proof.
  induction l as [|a l IH]; intros H; cbn [flat_map]; [reflexivity|].
  rewrite (H a) by (left; reflexivity). rewrite IH by (intros x Hx; apply H; right; exact Hx). reflexivity.
Qed.

Lemma filter_map_comm {A B} (f : B -> bool) (g : A -> B) l :
  filter f (map g l) = map g (filter (fun x => f (g x)) l).
Proof.
  induction l as [|a l IH]; cbn [map filter]; [reflexivity|]. rewrite IH. destruct (f (g a)); reflexivity.
Qed.

Lemma NoDup_map_filter {A B} (g : A -> B) (f : A -> bool) l : NoDup (map g l) -> NoDup (map g (filter f l)).
Proof.
  induction l as [|a l IH]; intros H; cbn [filter map]; [constructor|].
  cbn [map] in H. apply NoDup_cons_iff in H as [Hn ND]. destruct (f a); [|apply IH; exact ND].
  cbn [map]. constructor; [|apply IH; exact ND].
  intros Hin. apply Hn. apply in_map_iff in Hin as (x & E & Hx). apply filter_In in Hx as [Hx _].
  apply in_map_iff. exists x. auto.
Qed.

Lemma flat_map_map {A B C} (f : B -> list C) (g : A -> B) l :
  flat_map f (map g l) = flat_map (fun x => f (g x)) l.
Proof. induction l as [|a l IH]; cbn [map flat_map]; [reflexivity|]. rewrite IH. reflexivity. Qed.

Lemma NoDup_flat_map {A B} (f : A -> list B) l :
  NoDup l -> (forall x, In x l -> NoDup (f x)) ->
  (forall x y z, In x l -> In y l -> In z (f x) -> In z (f y) -> x = y) ->
  NoDup (flat_map f l).
Proof.
  induction l as [|a l IH]; intros ND H1 H2; cbn [flat_map]; [constructor|].
  apply NoDup_cons_iff in ND as [Hn ND']. apply NoDup_app_intro.
  - apply H1. left; reflexivity.
  - apply IH; [exact ND'| |].
    + intros x Hx. apply H1. right; exact Hx.
    + intros x y z Hx Hy. apply H2; right; assumption.
  - intros z Hz Hin. apply in_flat_map in Hin as (y & Hy & Hzy).
    assert (a = y) as E by (apply (H2 a y z); [left; reflexivity|right; exact Hy|exact Hz|exact Hzy]).
    subst y. contradiction.
Qed.

(* ====================================================================================== *)
(** * create_def *)

Lemma create_def_ok N gens names central name :
  gens <> [] -> (forall g, In g gens -> length g = N /\ Perm g) ->
  length names = length gens -> length central = N -> (forall v, In v central -> v < N) -> 0 < N ->
  create_def gens names central name = Ok (mk_puzzle gens names central name).
Proof.
  intros Hne Hg Hn Hc Hv HN. unfold create_def. destruct gens as [|g0 gs]; [congruence|].
  remember (g0 :: gs) as G eqn:EG.
  assert (In g0 G) as Hg0 by (subst G; left; reflexivity).
  destruct (Hg g0 Hg0) as [HL0 _].
  assert (forallb (fun p => Nat.eqb (length p) (length g0) && is_perm p) G = true) as E1.
  { apply forallb_forall. intros p Hp. destruct (Hg p Hp) as [H1 H2].
    apply andb_true_iff. split; [apply Nat.eqb_eq; lia|apply is_perm_iff; exact H2]. }
  rewrite E1. cbn [negb].
  assert ((length names =? length G) = true) as E2 by (apply Nat.eqb_eq; exact Hn).
  rewrite E2. cbn [negb].
  assert (forallb (fun p => length p =? length central) G = true) as E3.
  { apply forallb_forall. intros p Hp. destruct (Hg p Hp) as [H1 _]. apply Nat.eqb_eq. lia. }
  rewrite E3. cbn [negb].
  assert (forallb (fun v => v <? length central) central = true) as E4.
  { apply forallb_forall. intros v Hvin. apply Nat.ltb_lt. rewrite Hc. apply Hv. exact Hvin. }
  rewrite E4. cbn [negb].
  destruct central as [|c0 ct]; [simpl in Hc; lia|reflexivity].
Qed.

(* the result in the [GensStructure] form of PuzzlesProofs.v *)
Lemma create_def_GensStructure N gens names central name :
  gens <> [] -> (forall g, In g gens -> length g = N /\ Perm g) ->
  length names = length gens -> length central = N -> (forall v, In v central -> v < N) -> 0 < N ->
  InverseClosed gens ->
  GensStructure N (length gens) (create_def gens names central name).
Proof.
  intros Hne Hg Hn Hc Hv HN HI. exists (mk_puzzle gens names central name).
  split; [apply (create_def_ok N); assumption|]. cbn [pz_gens]. auto.
Qed.

Lemma seq_central_ok N v : In v (seq 0 N) -> v < N.
Proof. intros H. apply in_seq in H. lia. Qed.

(* ====================================================================================== *)
(** * inverse_perm *)

Lemma inverse_perm_unique p q : Perm p -> length q = length p ->
  (forall x, x < length p -> nth (nth x p 0) q 0 = x) -> inverse_perm p = q.
Proof.
  intros HP HL H. apply nth_ext' with (d := 0).
  - rewrite inverse_perm_length. symmetry. exact HL.
  - intros i Hi. rewrite inverse_perm_length in Hi.
    destruct (Perm_surj p i HP Hi) as (x & Hx & E). subst i.
    rewrite inverse_spec by assumption. symmetry. apply H. exact Hx.
Qed.

Lemma Involution_pointwise p : Involution p -> forall x, x < length p -> pstep p (pstep p x) = x.
Proof.
  intros HI x Hx. rewrite <- compose_nth by exact Hx. rewrite HI. unfold identity_perm.
  rewrite seq_nth by exact Hx. reflexivity.
Qed.

Lemma involution_inverse p : Perm p -> Involution p -> inverse_perm p = p.
Proof.
  intros HP HI. apply inverse_perm_unique; [exact HP|reflexivity|].
  intros x Hx. apply (Involution_pointwise p HI x Hx).
Qed.

(* a table with entries < n that is its own inverse pointwise is an involution and a permutation *)
Lemma pointwise_involution_Perm p :
  (forall x, x < length p -> pstep p x < length p /\ pstep p (pstep p x) = x) ->
  Perm p /\ Involution p.
Proof.
  intros H. split.
  - apply NoDup_lt_Perm.
    + apply (proj2 (NoDup_nth p 0)). intros i j Hi Hj E.
      destruct (H i Hi) as [_ Ei]. destruct (H j Hj) as [_ Ej]. unfold pstep in *.
      rewrite <- Ei, <- Ej, E. reflexivity.
    + intros x Hx. apply (In_nth _ _ 0) in Hx as (i & Hi & <-). apply (H i Hi).
  - unfold Involution, identity_perm. apply nth_ext' with (d := 0).
    + rewrite compose_length, seq_length. reflexivity.
    + intros i Hi. rewrite compose_length in Hi. rewrite compose_nth by exact Hi.
      rewrite seq_nth by exact Hi. apply (H i Hi).
Qed.

(* p o p written the way get_htm_metric_moves writes it *)
Lemma square_as_compose p :
  map (fun i => nth (nth i p 0) p 0) (seq 0 (length p)) = compose p p.
Proof.
  apply nth_ext' with (d := 0).
  - rewrite map_length, seq_length, compose_length. reflexivity.
  - intros i Hi. rewrite map_length, seq_length in Hi.
    rewrite (nth_map_lt _ _ _ 0 0) by (rewrite seq_length; exact Hi).
    rewrite seq_nth by exact Hi. rewrite compose_nth by exact Hi. reflexivity.
Qed.

(* the square of a permutation of order 4 (or 2, or 1) is an involution *)
Lemma Order4_square_involution p : Perm p -> Order4 p -> Involution (compose p p).
Proof.
  intros HP HO. pose proof (Order4_pointwise p HP HO) as H4.
  unfold Involution, identity_perm. apply nth_ext' with (d := 0).
  - rewrite !compose_length, seq_length. reflexivity.
  - intros i Hi. rewrite !compose_length in Hi. rewrite compose_nth by (rewrite compose_length; exact Hi).
    rewrite compose_length. rewrite seq_nth by exact Hi.
    unfold pstep at 2. rewrite compose_nth by exact Hi.
    unfold pstep at 1. rewrite compose_nth by (apply Perm_lt; [exact HP|apply Perm_lt; assumption]).
    apply H4. exact Hi.
Qed.

(* ====================================================================================== *)
(** * InverseClosed for the list shapes used by the puzzle constructors *)

Lemma InverseClosed_with_inverses (l : list (list nat)) :
  (forall p, In p l -> Perm p) -> InverseClosed (flat_map (fun p => [p; inverse_perm p]) l).
Proof.
  intros HP g Hg. apply in_flat_map in Hg as (p & Hp & Hin). apply in_flat_map. exists p. split; [exact Hp|].
  destruct Hin as [<-|[<-|[]]].
  - right; left; reflexivity.
  - left. symmetry. apply inverse_involutive. apply HP. exact Hp.
Qed.

(* ====================================================================================== *)
(** * a table that steps along a duplicate-free list C and fixes everything else *)

Section CycleSpec.
  Variables (R C : list nat) (N m : nat).
  Hypothesis HRlen : length R = N.
  Hypothesis HClen : length C = m.
  Hypothesis Hm : 2 <= m.
  Hypothesis HCnd : NoDup C.
  Hypothesis HClt : forall x, In x C -> x < N.
  Hypothesis Hstep : forall j, j < m -> pstep R (nth j C 0) = nth ((j + 1) mod m) C 0.
  Hypothesis Hfix : forall x, x < N -> ~ In x C -> pstep R x = x.

  Lemma cycle_spec_lt x : x < N -> pstep R x < N.
  Proof.
    intros Hx. destruct (in_dec Nat.eq_dec x C) as [Hin|Hout].
    - apply (In_nth _ _ 0) in Hin as (j & Hj & <-). rewrite HClen in Hj. rewrite Hstep by exact Hj.
      apply HClt. apply nth_In. rewrite HClen. apply Nat.mod_upper_bound. lia.
    - rewrite Hfix by assumption. exact Hx.
  Qed.

  Lemma cycle_spec_in x : In x C -> In (pstep R x) C.
  Proof.
    intros Hin. apply (In_nth _ _ 0) in Hin as (j & Hj & <-). rewrite HClen in Hj. rewrite Hstep by exact Hj.
    apply nth_In. rewrite HClen. apply Nat.mod_upper_bound. lia.
  Qed.

  Lemma succ_mod_inj i j : i < m -> j < m -> (i + 1) mod m = (j + 1) mod m -> i = j.
  Proof.
    intros Hi Hj E.
    destruct (Nat.eq_dec (i + 1) m) as [Ei|Ni]; destruct (Nat.eq_dec (j + 1) m) as [Ej|Nj].
    - lia.
    - rewrite Ei, Nat.mod_same in E by lia. rewrite Nat.mod_small in E by lia. lia.
    - rewrite Ej, Nat.mod_same in E by lia. rewrite Nat.mod_small in E by lia. lia.
    - rewrite !Nat.mod_small in E by lia. lia.
  Qed.

  Lemma succ_mod_neq j : j < m -> (j + 1) mod m <> j.
  Proof.
    intros Hj. destruct (Nat.eq_dec (j + 1) m) as [Ej|Nj].
    - rewrite Ej, Nat.mod_same by lia. lia.
    - rewrite Nat.mod_small by lia. lia.
  Qed.

  Theorem cycle_spec_Perm : Perm R.
  Proof.
    apply NoDup_lt_Perm.
    - apply (proj2 (NoDup_nth R 0)). rewrite HRlen. intros x y Hx Hy E. fold (pstep R x) in E. fold (pstep R y) in E.
      destruct (in_dec Nat.eq_dec x C) as [Hxin|Hxout]; destruct (in_dec Nat.eq_dec y C) as [Hyin|Hyout].
      + apply (In_nth _ _ 0) in Hxin as (i & Hi & <-). apply (In_nth _ _ 0) in Hyin as (j & Hj & <-).
        rewrite HClen in Hi, Hj. rewrite !Hstep in E by assumption.
        apply (proj1 (NoDup_nth C 0) HCnd) in E; try (rewrite HClen; apply Nat.mod_upper_bound; lia).
        apply succ_mod_inj in E; try assumption. subst j. reflexivity.
      + exfalso. apply Hyout. rewrite (Hfix y Hy Hyout) in E. rewrite <- E. apply cycle_spec_in. exact Hxin.
      + exfalso. apply Hxout. rewrite (Hfix x Hx Hxout) in E. rewrite E. apply cycle_spec_in. exact Hyin.
      + rewrite (Hfix x Hx Hxout), (Hfix y Hy Hyout) in E. exact E.
    - intros v Hv. apply (In_nth _ _ 0) in Hv as (x & Hx & <-). rewrite HRlen in *. apply cycle_spec_lt. exact Hx.
  Qed.

  Theorem cycle_spec_Moved x : Moved R x <-> In x C.
  Proof.
    unfold Moved. rewrite HRlen. split.
    - intros [Hx Hm']. destruct (in_dec Nat.eq_dec x C) as [Hin|Hout]; [exact Hin|].
      exfalso. apply Hm'. apply Hfix; assumption.
    - intros Hin. split; [apply HClt; exact Hin|].
      apply (In_nth _ _ 0) in Hin as (j & Hj & <-). rewrite HClen in Hj. rewrite Hstep by exact Hj.
      intros E. apply (proj1 (NoDup_nth C 0) HCnd) in E; try (rewrite HClen; try apply Nat.mod_upper_bound; lia).
      apply succ_mod_neq in E; [exact E|exact Hj].
  Qed.

  Theorem cycle_spec_SingleCycle : SingleCycle R m.
  Proof.
    split; [exact Hm|]. exists C. split; [exact HClen|]. split; [exact HCnd|]. split.
    - exact Hstep.
    - intros x. symmetry. apply cycle_spec_Moved.
  Qed.

  (* iterating: k steps from C[j] lead to C[(j + k) mod m] *)
  Lemma cycle_spec_piter k : forall j, j < m -> piter R k (nth j C 0) = nth ((j + k) mod m) C 0.
  Proof.
    induction k as [|k IH]; intros j Hj.
    - cbn [piter]. rewrite Nat.add_0_r, Nat.mod_small by exact Hj. reflexivity.
    - cbn [piter]. rewrite Hstep by exact Hj. rewrite IH by (apply Nat.mod_upper_bound; lia).
      f_equal. rewrite Nat.add_mod_idemp_l by lia. f_equal. lia.
  Qed.

  (* the table R' that steps backwards along C is inverse_perm R *)
  Variable R' : list nat.
  Hypothesis HR'len : length R' = N.
  Hypothesis Hback : forall j, j < m -> pstep R' (nth ((j + 1) mod m) C 0) = nth j C 0.
  Hypothesis Hfix' : forall x, x < N -> ~ In x C -> pstep R' x = x.

  Theorem cycle_spec_inverse : inverse_perm R = R'.
  Proof.
    apply inverse_perm_unique; [apply cycle_spec_Perm|lia|].
    rewrite HRlen. intros x Hx. fold (pstep R x). fold (pstep R' (pstep R x)).
    destruct (in_dec Nat.eq_dec x C) as [Hin|Hout].
    - apply (In_nth _ _ 0) in Hin as (j & Hj & <-). rewrite HClen in Hj. rewrite Hstep by exact Hj.
      apply Hback. exact Hj.
    - rewrite (Hfix x Hx Hout). apply Hfix'; assumption.
  Qed.

  (* forwards and backwards coincide exactly when the cycle has length 2 *)
  Theorem cycle_spec_self_inverse : R = R' <-> m = 2.
  Proof.
    split.
    - intros E. destruct (Nat.eq_dec m 2) as [E2|N2]; [exact E2|exfalso].
      assert (pstep R' (nth 1 C 0) = nth 0 C 0) as B.
      { specialize (Hback 0). rewrite Nat.mod_small in Hback by lia. apply Hback. lia. }
      rewrite <- E in B. rewrite Hstep in B by lia. rewrite Nat.mod_small in B by lia.
      apply (proj1 (NoDup_nth C 0) HCnd) in B; lia.
    - intros E2. apply nth_ext' with (d := 0); [lia|]. rewrite HRlen. intros x Hx.
      fold (pstep R x). fold (pstep R' x).
      destruct (in_dec Nat.eq_dec x C) as [Hin|Hout].
      + apply (In_nth _ _ 0) in Hin as (j & Hj & <-). rewrite HClen in Hj. rewrite Hstep by exact Hj.
        assert (j = 0 \/ j = 1) as [-> | ->] by lia.
        * rewrite E2. cbn. specialize (Hback 1). rewrite E2 in Hback. cbn in Hback. symmetry. apply Hback. lia.
        * rewrite E2. cbn. specialize (Hback 0). rewrite E2 in Hback. cbn in Hback. symmetry. apply Hback. lia.
      + rewrite (Hfix x Hx Hout), (Hfix' x Hx Hout). reflexivity.
  Qed.
End CycleSpec.

(* ====================================================================================== *)
(** * decimal names *)

Lemma str_of_nat_NilEmpty i : str_of_nat i = NilEmpty.string_of_uint (Nat.to_uint i).
Proof.
  unfold str_of_nat. pose proof (to_uint_nonnil i) as Hn.
  destruct (Nat.to_uint i); try reflexivity. contradiction.
Qed.

Lemma name_index_cons c i : name_index (String c (str_of_nat i)) = i.
Proof.
  unfold name_index. rewrite str_of_nat_NilEmpty, NilEmpty.usu. apply DecimalNat.Unsigned.of_to.
Qed.

Lemma str_of_nat_inj i j : str_of_nat i = str_of_nat j -> i = j.
Proof.
  intros E. rewrite <- (name_index_cons "x"%char i), <- (name_index_cons "x"%char j), E. reflexivity.
Qed.

Lemma has_char_r_uint d : has_char "r"%char (NilEmpty.string_of_uint d) = false.
Proof. induction d as [|d IH|d IH|d IH|d IH|d IH|d IH|d IH|d IH|d IH|d IH]; cbn; try exact IH; reflexivity. Qed.

Lemma has_char_hat_uint d : has_char "^"%char (NilEmpty.string_of_uint d) = false.
Proof. induction d as [|d IH|d IH|d IH|d IH|d IH|d IH|d IH|d IH|d IH|d IH]; cbn; try exact IH; reflexivity. Qed.

Lemma has_char_r_str_of_nat i : has_char "r"%char (str_of_nat i) = false.
Proof. rewrite str_of_nat_NilEmpty. apply has_char_r_uint. Qed.

Lemma has_char_hat_str_of_nat i : has_char "^"%char (str_of_nat i) = false.
Proof. rewrite str_of_nat_NilEmpty. apply has_char_hat_uint. Qed.

(* "c1c2" can only occur in a string that contains c1 *)
Lemma has_sub2_needs_first c1 c2 s : has_char c1 s = false -> has_sub2 c1 c2 s = false.
Proof.
  induction s as [|a t IH]; intros H; [reflexivity|].
  cbn [has_char] in H. apply orb_false_iff in H as [Ha Ht].
  cbn [has_sub2]. destruct t as [|b t']; [reflexivity|].
  rewrite Ha. cbn [andb orb]. apply IH. exact Ht.
Qed.

Lemma has_sub2_append_hat2 s : has_sub2 "^"%char "2"%char (s +++ "^2") = true.
Proof.
  induction s as [|a t IH]; [reflexivity|].
  change (String a t +++ "^2")%string with (String a (t +++ "^2")).
  cbn [has_sub2]. destruct (t +++ "^2")%string as [|b u] eqn:E.
  - destruct t; discriminate E.
  - rewrite IH. apply orb_true_r.
Qed.

Lemma append_hat2_inj s t : (s +++ "^2" = t +++ "^2")%string -> s = t.
Proof.
  revert t. induction s as [|a s IH]; intros [|b t] E.
  - reflexivity.
  - exfalso. cbn in E. inversion E as [[E1 E2]]. destruct t as [|c t]; [discriminate E2|].
    cbn in E2. inversion E2 as [[E3 E4]]. destruct t; discriminate E4.
  - exfalso. cbn in E. inversion E as [[E1 E2]]. destruct s as [|c s]; [discriminate E2|].
    cbn in E2. inversion E2 as [[E3 E4]]. destruct s; discriminate E4.
  - cbn in E. inversion E as [[E1 E2]]. f_equal. apply IH. exact E2.
Qed.

(* ---------- non-vacuity ---------- *)
Example ex_create_def_ok :
  let gens := [[1; 2; 0]; [2; 0; 1]] in
  gens <> [] /\ (forall g, In g gens -> length g = 3 /\ Perm g) /\ InverseClosed gens /\
  create_def gens ["a"; "b"]%string (seq 0 3) ""%string = Ok (mk_puzzle gens ["a"; "b"]%string (seq 0 3) ""%string).
Proof.
  cbv zeta. split; [discriminate|]. split.
  - intros g [<-|[<-|[]]]; (split; [reflexivity|apply is_perm_iff; reflexivity]).
  - split; [apply inverse_closed_meaning; reflexivity|reflexivity].
Qed.

Example ex_inverse_perm_unique :
  Perm [1; 2; 0] /\ (forall x, x < 3 -> nth (nth x [1; 2; 0] 0) [2; 0; 1] 0 = x) /\ inverse_perm [1; 2; 0] = [2; 0; 1].
Proof.
  split; [apply is_perm_iff; reflexivity|]. split; [|reflexivity].
  intros x Hx. destruct x as [|[|[|x]]]; try reflexivity; lia.
Qed.

Example ex_involution_inverse : Perm [1; 0; 3; 2] /\ Involution [1; 0; 3; 2] /\ inverse_perm [1; 0; 3; 2] = [1; 0; 3; 2].
Proof. split; [apply is_perm_iff; reflexivity|]. split; reflexivity. Qed.

(* the hypotheses of Section CycleSpec: R = (0 3 4), R' = its inverse, on 5 points *)
Example ex_cycle_spec :
  let R := [3; 1; 2; 4; 0] in let C := [0; 3; 4] in let R' := [4; 1; 2; 0; 3] in
  NoDup C /\ (forall j, j < 3 -> pstep R (nth j C 0) = nth ((j + 1) mod 3) C 0) /\
  (forall x, x < 5 -> ~ In x C -> pstep R x = x) /\
  (forall j, j < 3 -> pstep R' (nth ((j + 1) mod 3) C 0) = nth j C 0) /\
  inverse_perm R = R' /\ single_cycle_of_length R 3 = true.
Proof.
  cbv zeta. split; [repeat constructor; cbn; intuition lia|]. split.
  { intros j Hj. destruct j as [|[|[|j]]]; try reflexivity; lia. } split.
  { intros x Hx Hn. destruct x as [|[|[|[|[|x]]]]]; try reflexivity; try lia; exfalso; apply Hn; cbn; auto. } split.
  { intros j Hj. destruct j as [|[|[|j]]]; try reflexivity; lia. }
  split; reflexivity.
Qed.

Example ex_names_general :
  str_of_nat 407 = "407"%string /\ name_index (String "r" (str_of_nat 407)) = 407 /\
  has_sub2 "^" "2" ("f12" +++ "^2") = true /\ has_sub2 "^" "2" "f12" = false.
Proof. vm_compute. auto. Qed.

Print Assumptions create_def_ok.
Print Assumptions inverse_perm_unique.
Print Assumptions involution_inverse.
Print Assumptions cycle_spec_Perm.
Print Assumptions cycle_spec_SingleCycle.
Print Assumptions cycle_spec_inverse.
Print Assumptions cycle_spec_self_inverse.
Print Assumptions str_of_nat_inj.
