(** Model of cayleypy/puzzles/gap_puzzles.py: the GAP text loader, statement by statement.

    Texts are Coq [string]s, i.e. byte sequences; the scanner works on [list ascii].
    What is modelled and what is not:
    - [text.split("\n")], [":=" in line], [line.split(":=")] (unpacking into exactly two parts, a
      ValueError otherwise), [value.replace(";", "")], [key.startswith("M_")],
      [key.replace("M_", "")] (ALL occurrences, as Python does), [key == "ip"];
    - the regular expression [\(([\d,]+)\)] of [_cycle_str_to_list] as a two-state scanner over
      characters ([scan_cycles]); [\d] is the ASCII digits only (Python's [\d] also accepts other
      Unicode decimal digits: not modelled, the harness only feeds ASCII digits);
    - [int(part)] for a part made of ASCII digits ([""] raises ValueError);
    - [json.loads(value)] for the [ip] line on the subset "list of lists of non-negative integers
      with JSON whitespace"; a JSON document outside this subset that might still be valid JSON is
      answered [Err RuntimeErr] (= not modelled), a text that cannot be JSON is [Err ValueErr];
    - [n = max(max(cycle) ...)] over the dictionary values (ValueError when there is no cycle);
    - [permutation_from_cycles(n, cycles, offset=1)] = [Perm.from_cycles];
    - [CayleyGraphDef.create] / [__post_init__] validation; [_central_state_from_ip] including
      Python's negative indexing and IndexError; [with_central_state]. *)
From Coq Require Import ZArith NArith List Bool Arith Lia String Ascii Decimal DecimalString.
From V Require Import Base Perm.
Import ListNotations.
Local Open Scope char_scope.

Definition chars := list ascii.

Definition chars_of_string (s : string) : chars := list_ascii_of_string s.
Definition string_of_chars (l : chars) : string := string_of_list_ascii l.

Definition chars_eqb (a b : chars) : bool := list_eqb Ascii.eqb a b.

(* ---------- Python string primitives ---------- *)

Definition cons_head {A} (a : A) (ll : list (list A)) : list (list A) :=
  match ll with [] => [[a]] | h :: r => (a :: h) :: r end.

(* s.split(sep) for a one-character separator *)
Fixpoint split_char (sep : ascii) (s : chars) : list chars :=
  match s with
  | [] => [[]]
  | c :: t => if Ascii.eqb c sep then [] :: split_char sep t else cons_head c (split_char sep t)
  end.

(* s.split(c1 c2) for a two-character separator: non-overlapping occurrences, left to right *)
Fixpoint split2 (c1 c2 : ascii) (s : chars) : list chars :=
  match s with
  | [] => [[]]
  | a :: t =>
      match t with
      | b :: t' => if Ascii.eqb a c1 && Ascii.eqb b c2 then [] :: split2 c1 c2 t'
                   else cons_head a (split2 c1 c2 t)
      | [] => [[a]]
      end
  end.

(* s.replace(c1 c2, "") *)
Fixpoint remove2 (c1 c2 : ascii) (s : chars) : chars :=
  match s with
  | [] => []
  | a :: t =>
      match t with
      | b :: t' => if Ascii.eqb a c1 && Ascii.eqb b c2 then remove2 c1 c2 t' else a :: remove2 c1 c2 t
      | [] => [a]
      end
  end.

(* s.replace(c, "") *)
Definition remove_char (c : ascii) (s : chars) : chars := filter (fun x => negb (Ascii.eqb x c)) s.

Definition starts_with2 (c1 c2 : ascii) (s : chars) : bool :=
  match s with a :: b :: _ => Ascii.eqb a c1 && Ascii.eqb b c2 | _ => false end.

(* ---------- integers ---------- *)

Definition is_digit (c : ascii) : bool :=
  match c with
  | "0" | "1" | "2" | "3" | "4" | "5" | "6" | "7" | "8" | "9" => true
  | _ => false
  end.

Fixpoint uint_of_chars (s : chars) : option uint :=
  match s with
  | [] => Some Nil
  | a :: t => uint_of_char a (uint_of_chars t)
  end.

(* int(s) for s made of ASCII digits; int("") is a ValueError *)
Definition parse_int (s : chars) : result Z :=
  match s with
  | [] => Err ValueErr
  | _ => match uint_of_chars s with
         | Some d => Ok (Z.of_N (N.of_uint d))
         | None => Err ValueErr
         end
  end.

(* ---------- _cycle_str_to_list ---------- *)

(* a character of the class [\d,] *)
Definition is_dc (c : ascii) : bool := is_digit c || Ascii.eqb c ",".

(* re.findall(r"\(([\d,]+)\)", s).  The class [\d,] contains neither parenthesis, so a match
   attempt that started at an opening parenthesis either succeeds at the first character outside
   the class (when that is ")" and at least one class character was read) or fails there; after a
   failure the regex engine restarts one character after that "(", and the characters read so far
   cannot start a match, so scanning resumes at the offending character.  [Inside acc] holds the
   class characters read since the last "(" in reverse order. *)
Inductive cstate := Outside | Inside (acc : chars).

Fixpoint scan_cycles (st : cstate) (s : chars) : list chars :=
  match s with
  | [] => []
  | c :: t =>
      match st with
      | Outside => if Ascii.eqb c "(" then scan_cycles (Inside []) t else scan_cycles Outside t
      | Inside acc =>
          if is_dc c then scan_cycles (Inside (c :: acc)) t
          else if Ascii.eqb c ")" && negb (match acc with [] => true | _ => false end)
               then List.rev acc :: scan_cycles Outside t
          else if Ascii.eqb c "(" then scan_cycles (Inside []) t
          else scan_cycles Outside t
      end
  end.

Fixpoint sequence_r {A} (l : list (result A)) : result (list A) :=
  match l with
  | [] => Ok []
  | Ok a :: t => match sequence_r t with Ok r => Ok (a :: r) | Err e => Err e end
  | Err e :: _ => Err e
  end.

(* list(map(int, group.split(","))) *)
Definition parse_group (g : chars) : result (list Z) :=
  sequence_r (map parse_int (split_char "," g)).

Definition cycle_str_to_list (value : chars) : result (list (list Z)) :=
  sequence_r (map parse_group (scan_cycles Outside value)).

(* ---------- json.loads on the ip line (subset) ---------- *)

Inductive jtok := JLB | JRB | JCOMMA | JNUM (digits : chars).

Definition is_json_ws (c : ascii) : bool :=
  Ascii.eqb c " " || Ascii.eqb c "009" || Ascii.eqb c "010" || Ascii.eqb c "013".

Definition jflush (cur : option chars) : list jtok :=
  match cur with Some a => [JNUM (List.rev a)] | None => [] end.

Fixpoint jtokens (cur : option chars) (s : chars) : result (list jtok) :=
  match s with
  | [] => Ok (jflush cur)
  | c :: t =>
      if is_digit c then jtokens (Some (c :: match cur with Some a => a | None => [] end)) t
      else
        let emit (tk : list jtok) :=
          match jtokens None t with Ok r => Ok (jflush cur ++ tk ++ r) | Err e => Err e end in
        if Ascii.eqb c "[" then emit [JLB]
        else if Ascii.eqb c "]" then emit [JRB]
        else if Ascii.eqb c "," then emit [JCOMMA]
        else if is_json_ws c then emit []
        else Err RuntimeErr
  end.

(* a JSON number made of digits only: no leading zero unless it is "0" *)
Definition jnum (d : chars) : result Z :=
  match d with
  | "0" :: _ :: _ => Err ValueErr
  | _ => parse_int d
  end.

Inductive jst := J0 | J1 | J2 | J3 | J4 | J5 | J6 | J7.

(* J0: nothing read; J1: after the outer "["; J2: after an inner "["; J3: after a number;
   J4: after a comma inside an inner list; J5: after an inner "]"; J6: after a comma between
   inner lists; J7: after the outer "]".  [cur] (reversed) is the inner list being read, [acc]
   (reversed) the inner lists read so far. *)
Fixpoint jparse (st : jst) (cur : list Z) (acc : list (list Z)) (ts : list jtok) : result (list (list Z)) :=
  match ts with
  | [] => match st with J7 => Ok (List.rev acc) | _ => Err ValueErr end
  | t :: r =>
      match st, t with
      | J0, JLB => jparse J1 [] [] r
      | J0, JNUM _ => Err RuntimeErr
      | J0, _ => Err ValueErr
      | J1, JLB => jparse J2 [] acc r
      | J1, JRB => jparse J7 [] acc r
      | J1, JNUM _ => Err RuntimeErr
      | J1, JCOMMA => Err ValueErr
      | J2, JNUM d => match jnum d with Ok v => jparse J3 (v :: cur) acc r | Err e => Err e end
      | J2, JRB => jparse J5 [] (List.rev cur :: acc) r
      | J2, JLB => Err RuntimeErr
      | J2, JCOMMA => Err ValueErr
      | J3, JCOMMA => jparse J4 cur acc r
      | J3, JRB => jparse J5 [] (List.rev cur :: acc) r
      | J3, _ => Err ValueErr
      | J4, JNUM d => match jnum d with Ok v => jparse J3 (v :: cur) acc r | Err e => Err e end
      | J4, JLB => Err RuntimeErr
      | J4, _ => Err ValueErr
      | J5, JCOMMA => jparse J6 [] acc r
      | J5, JRB => jparse J7 [] acc r
      | J5, _ => Err ValueErr
      | J6, JLB => jparse J2 [] acc r
      | J6, JNUM _ => Err RuntimeErr
      | J6, _ => Err ValueErr
      | J7, _ => Err ValueErr
      end
  end.

Definition parse_ip (value : chars) : result (list (list Z)) :=
  match jtokens None value with
  | Ok ts => jparse J0 [] [] ts
  | Err e => Err e
  end.

(* ---------- _central_state_from_ip ---------- *)

(* pos_to_eq_list as an association list, newest binding first (a later assignment to the same
   key overrides an earlier one) *)
Definition ip_dict (ip : list (list Z)) : list (Z * list Z) :=
  fold_left (fun d eq_list => fold_left (fun d pos => ((pos - 1)%Z, eq_list) :: d) eq_list d) ip [].

Fixpoint dict_get {V} (k : Z) (d : list (Z * V)) : option V :=
  match d with
  | [] => None
  | (k', v) :: t => if Z.eqb k k' then Some v else dict_get k t
  end.

(* ans[j] = v with Python index semantics on a list of length n *)
Definition py_set (n : nat) (ans : list Z) (j v : Z) : result (list Z) :=
  if ((0 <=? j) && (j <? Z.of_nat n))%Z then Ok (upd ans (Z.to_nat j) v)
  else if ((- Z.of_nat n <=? j) && (j <? 0))%Z then Ok (upd ans (Z.to_nat (j + Z.of_nat n)) v)
  else Err IndexErr.

Definition ip_step (n : nat) (d : list (Z * list Z)) (st : result (list Z * Z)) (i : nat)
  : result (list Z * Z) :=
  do (ans, color) <- st;
  if negb (Z.eqb (nth i ans 0%Z) (-1)) then Ok (ans, color)
  else
    do ans' <- match dict_get (Z.of_nat i) d with
               | Some eq_list =>
                   fold_left (fun (a : result (list Z)) j => do a' <- a; py_set n a' (j - 1)%Z color)
                             eq_list (Ok ans)
               | None => Ok (upd ans i color)
               end;
    Ok (ans', (color + 1)%Z).

Definition central_state_from_ip (n : nat) (ip : list (list Z)) : result (list Z) :=
  do (ans, _) <- fold_left (ip_step n (ip_dict ip)) (seq 0 n) (Ok (repeat (-1)%Z n, 0%Z));
  Ok ans.

(* ---------- _parse_gap_file ---------- *)

Record pstate := mk_pstate {
  ps_names : list chars;                      (* generator_names, in order of appearance *)
  ps_dict : list (chars * list (list Z));     (* generators_dict, insertion order *)
  ps_ip : option (list (list Z)) }.

Fixpoint gdict_set (k : chars) (v : list (list Z)) (d : list (chars * list (list Z))) :=
  match d with
  | [] => [(k, v)]
  | (k', v') :: t => if chars_eqb k k' then (k', v) :: t else (k', v') :: gdict_set k v t
  end.

Fixpoint gdict_get (k : chars) (d : list (chars * list (list Z))) : list (list Z) :=
  match d with
  | [] => []
  | (k', v) :: t => if chars_eqb k k' then v else gdict_get k t
  end.

Definition step_line (st : result pstate) (line : chars) : result pstate :=
  do s <- st;
  match split2 ":" "=" line with
  | [_] => Ok s                                        (* if ":=" not in line: continue *)
  | [key; value] =>
      let value := remove_char ";" value in
      if starts_with2 "M" "_" key then
        let gen_name := remove2 "M" "_" key in
        do cyc <- cycle_str_to_list value;
        Ok (mk_pstate (ps_names s ++ [gen_name]) (gdict_set gen_name cyc (ps_dict s)) (ps_ip s))
      else if chars_eqb key ["i"; "p"] then
        do v <- parse_ip value;
        Ok (mk_pstate (ps_names s) (ps_dict s) (Some v))
      else Ok s
  | _ => Err ValueErr                                  (* key, value = ... : wrong number of parts *)
  end.

Definition zmax_list (l : list Z) : option Z :=
  match l with [] => None | a :: t => Some (fold_left Z.max t a) end.

Record gap_puzzle := mk_gap {
  gp_names : list string;
  gp_gens : list (list nat);
  gp_n : nat;
  gp_central : list Z }.

Fixpoint zseq (start : Z) (len : nat) : list Z :=
  match len with O => [] | S l => start :: zseq (start + 1)%Z l end.

(* CayleyGraphDef.create(generators, generator_names) and __post_init__ for permutation generators *)
(* [isp] decides "sorted(perm) == list(range(len(perm)))"; the model uses [is_perm], the harness
   evaluates with a cheaper test proved equal to it (GapProofs.is_perm_fast_eq) *)
Definition create_check_with (isp : list nat -> bool) (gens : list (list nat)) : result nat :=
  match gens with
  | [] => Err IndexErr                                 (* generators_list[0] *)
  | g0 :: _ =>
      let n := List.length g0 in
      if forallb (fun p => Nat.eqb (List.length p) n && isp p) gens then Ok n else Err AssertionErr
  end.
Definition create_check := create_check_with is_perm.

Definition central_ok (n : nat) (c : list Z) : bool :=
  forallb (fun v => (0 <=? v) && (v <? Z.of_nat n))%Z c.

Definition build_gap_with (isp : list nat -> bool) (s : pstate) : result gap_puzzle :=
  match zmax_list (List.concat (List.concat (map snd (ps_dict s)))) with
  | None => Err ValueErr                               (* max() of an empty sequence *)
  | Some nz =>
      let n := Z.to_nat nz in
      do gens <- sequence_r (map (fun nm => from_cycles n (gdict_get nm (ps_dict s)) 1%Z) (ps_names s));
      do n' <- create_check_with isp gens;
      let names := map string_of_chars (ps_names s) in
      match ps_ip s with
      | None => if (1 <=? n')%nat then Ok (mk_gap names gens n' (zseq 0 n')) else Err AssertionErr
      | Some ip =>
          if negb (1 <=? n')%nat then Err AssertionErr else
          do c <- central_state_from_ip n ip;
          (* with_central_state -> dataclasses.replace -> __post_init__ *)
          if Nat.eqb (List.length c) n' && central_ok n' c then Ok (mk_gap names gens n' c)
          else Err AssertionErr
      end
  end.

Definition build_gap := build_gap_with is_perm.

Definition parse_lines (text : chars) : result pstate :=
  fold_left step_line (split_char "010" text) (Ok (mk_pstate [] [] None)).

Definition parse_gap_chars_with (isp : list nat -> bool) (text : chars) : result gap_puzzle :=
  do s <- parse_lines text;
  build_gap_with isp s.

Definition parse_gap_chars := parse_gap_chars_with is_perm.

Definition parse_gap_file (text : string) : result gap_puzzle := parse_gap_chars (chars_of_string text).

(* GapPuzzles.load_puzzle_from_file(file_name): the suffix assertion, then the parser on the
   file's text (the text is what Python's universal-newline text mode returns) *)
Definition ends_with (suffix s : chars) : bool :=
  let ls := List.length s in let lx := List.length suffix in
  (lx <=? ls)%nat && chars_eqb (skipn (ls - lx) s) suffix.

Definition load_puzzle_from_file_with (isp : list nat -> bool) (file_name text : string) : result gap_puzzle :=
  if ends_with (chars_of_string ".gap") (chars_of_string file_name)
  then parse_gap_chars_with isp (chars_of_string text)
  else Err AssertionErr.

Definition load_puzzle_from_file := load_puzzle_from_file_with is_perm.
